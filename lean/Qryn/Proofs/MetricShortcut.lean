import Qryn.Proofs.MetricCompose
/-! C08 plan-level proofs: the metrics_15s shortcut (`Metrics15ShortcutPlanner`) as range phase. -/
namespace Qryn.LogQL
open Qryn Qryn.Sql

/-! ### 15 s slots and range buckets -/
def slotOf (t : Int) : Int := Int.tdiv t slot15 * slot15

theorem slot_window (t a : Int) (ht : 0 ≤ t) : (a * slot15 ≤ slotOf t ↔ a * slot15 ≤ t) ∧ (slotOf t < a * slot15 ↔ t < a * slot15) := by
  unfold slotOf
  rw [Int.tdiv_eq_ediv_of_nonneg ht]
  have hs : (0 : Int) < slot15 := by decide
  have h1 := Int.ediv_mul_le t (Int.ne_of_gt hs)
  have h2 := Int.lt_ediv_add_one_mul_self t hs
  rw [Int.add_mul] at h2
  generalize t / (slot15 : Int) = k at h1 h2 ⊢
  generalize (slot15 : Int) = s at hs h1 h2 ⊢
  constructor
  · constructor
    · intro h; omega
    · intro h
      have : a < k + 1 := by
        apply Int.lt_of_mul_lt_mul_right (a := s) _ (Int.le_of_lt hs)
        rw [Int.add_mul]; omega
      have : a ≤ k := by omega
      exact Int.mul_le_mul_of_nonneg_right this (Int.le_of_lt hs)
  · constructor
    · intro h
      have : k < a := Int.lt_of_mul_lt_mul_right h (Int.le_of_lt hs)
      have : k + 1 ≤ a := by omega
      have := Int.mul_le_mul_of_nonneg_right this (Int.le_of_lt hs)
      rw [Int.add_mul] at this; omega
    · intro h; omega

theorem bucket_of_slot (d : Nat) (t : Int) (ht : 0 ≤ t) (hd : (d : Int) % slot15 = 0) (hpos : 0 < d) :
    bucketOf d (slotOf t) = bucketOf d t := by
  unfold bucketOf slotOf
  have hs : (0 : Int) < slot15 := by decide
  have hst : 0 ≤ t / (slot15 : Int) * slot15 := Int.mul_nonneg (Int.ediv_nonneg ht (Int.le_of_lt hs)) (Int.le_of_lt hs)
  rw [Int.tdiv_eq_ediv_of_nonneg ht, Int.tdiv_eq_ediv_of_nonneg ht, Int.tdiv_eq_ediv_of_nonneg hst]
  congr 1
  obtain ⟨m, hm⟩ := Int.dvd_of_emod_eq_zero hd
  rw [hm, Int.mul_comm (t / (slot15 : Int)) slot15, Int.mul_ediv_mul_of_pos _ _ hs, Int.ediv_ediv_of_nonneg (Int.le_of_lt hs)]

/-! ### distinct keys, filtered and re-keyed; counting by key -/
theorem eraseDups_filter {α} [BEq α] [LawfulBEq α] (P : α → Bool) (l : List α) :
    (l.filter P).eraseDups = l.eraseDups.filter P := by
  generalize hn : l.length = n
  induction n using Nat.strongRecOn generalizing l with
  | _ n ih =>
    cases l with
    | nil => rfl
    | cons a as =>
      have hlen : (as.filter (fun b => !b == a)).length < n := by
        have := List.length_filter_le (fun b => !b == a) as
        simp only [List.length_cons] at hn
        omega
      have ih' := ih _ hlen (as.filter (fun b => !b == a)) rfl
      rw [List.eraseDups_cons]
      by_cases hp : P a = true
      · simp only [List.filter_cons, hp, if_true]
        rw [List.eraseDups_cons, ← ih']
        congr 2
        simp only [List.filter_filter]
        apply List.filter_congr
        intro x _
        exact Bool.and_comm _ _
      · simp only [List.filter_cons, hp]
        rw [← ih']
        congr 1
        simp only [List.filter_filter]
        apply List.filter_congr
        intro x _
        by_cases hx : x = a
        · subst hx; simp [hp]
        · simp [hx]

theorem eraseDups_map_eraseDups {α β} [BEq α] [LawfulBEq α] [BEq β] [LawfulBEq β] (g : α → β) (l : List α) :
    (l.eraseDups.map g).eraseDups = (l.map g).eraseDups := by
  generalize hn : l.length = n
  induction n using Nat.strongRecOn generalizing l with
  | _ n ih =>
    cases l with
    | nil => rfl
    | cons a as =>
      have hlen : (as.filter (fun b => !b == a)).length < n := by
        have := List.length_filter_le (fun b => !b == a) as
        simp only [List.length_cons] at hn
        omega
      have ih' := ih _ hlen (as.filter (fun b => !b == a)) rfl
      rw [List.eraseDups_cons, List.map_cons, List.map_cons, List.eraseDups_cons, List.eraseDups_cons]
      congr 1
      rw [eraseDups_filter, ih', ← eraseDups_filter]
      congr 1
      simp only [List.filter_map, List.filter_filter]
      congr 1
      apply List.filter_congr
      intro x _
      simp only [Function.comp_apply]
      by_cases hx : x = a
      · subst hx; simp
      · simp [hx]

def sumInt (l : List Int) : Int := l.foldl (· + ·) 0

theorem foldl_add_init (l : List Int) (a : Int) : l.foldl (· + ·) a = a + l.foldl (· + ·) 0 := by
  induction l generalizing a with
  | nil => simp
  | cons x l ih => simp only [List.foldl_cons]; rw [ih (a + x), ih (0 + x)]; omega

theorem sumInt_cons (x : Int) (l : List Int) : sumInt (x :: l) = x + sumInt l := by
  unfold sumInt; simp only [List.foldl_cons]; rw [foldl_add_init]; omega

theorem length_filter_split {α} (P R : α → Bool) (l : List α) :
    (l.filter P).length = (l.filter (fun x => P x && R x)).length + (l.filter (fun x => P x && !R x)).length := by
  induction l with
  | nil => rfl
  | cons a l ih =>
    simp only [List.filter_cons]
    cases P a <;> cases R a <;> simp [ih] <;> omega

/-- the sizes of the key classes selected by `Q` add up to the number of elements whose key satisfies `Q` -/
theorem count_by_key {α κ} [BEq κ] [LawfulBEq κ] (f : α → κ) (Q : κ → Bool) (l : List α) :
    sumInt ((((l.map f).eraseDups).filter Q).map (fun k => ((l.filter (fun a => f a == k)).length : Int))) =
      ((l.filter (fun a => Q (f a))).length : Int) := by
  generalize hn : l.length = n
  induction n using Nat.strongRecOn generalizing l with
  | _ n ih =>
    cases l with
    | nil => rfl
    | cons a as =>
      have hlen : (as.filter (fun b => !f b == f a)).length < n := by
        have := List.length_filter_le (fun b => !f b == f a) as
        simp only [List.length_cons] at hn
        omega
      have ih' := ih _ hlen (as.filter (fun b => !f b == f a)) rfl
      have hk : ((a :: as).map f).eraseDups = f a :: ((as.filter (fun b => !f b == f a)).map f).eraseDups := by
        rw [List.map_cons, List.eraseDups_cons, List.filter_map]; rfl
      -- classes other than `f a` are the same in `as` without the `f a` class
      have hother : ∀ k ∈ ((as.filter (fun b => !f b == f a)).map f).eraseDups,
          ((a :: as).filter (fun x => f x == k)).length = ((as.filter (fun b => !f b == f a)).filter (fun x => f x == k)).length := by
        intro k hk'
        rw [List.mem_eraseDups] at hk'
        obtain ⟨b, hb, rfl⟩ := List.mem_map.mp hk'
        have hne : (f b == f a) = false := by
          have := (List.mem_filter.mp hb).2; simpa using this
        have hne' : (f a == f b) = false := by rw [Bool.beq_comm]; exact hne
        simp only [List.filter_cons, hne', Bool.false_eq_true, if_false, List.filter_filter]
        congr 1
        apply List.filter_congr
        intro x _
        by_cases hx : f x = f b
        · simp [hx, hne]
        · simp [hx]
      have hsplit : ((a :: as).filter (fun x => Q (f x))).length =
          (if Q (f a) then ((a :: as).filter (fun x => f x == f a)).length else 0) +
            ((as.filter (fun b => !f b == f a)).filter (fun x => Q (f x))).length := by
        rw [length_filter_split (fun x => Q (f x)) (fun x => f x == f a) (a :: as)]
        congr 1
        · by_cases hq : Q (f a) = true
          · simp only [hq, if_true]
            congr 1
            apply List.filter_congr
            intro x _
            by_cases hx : f x = f a
            · simp [hx, hq]
            · simp [hx]
          · simp only [hq, Bool.false_eq_true, if_false, List.length_eq_zero_iff, List.filter_eq_nil_iff]
            intro x _
            by_cases hx : f x = f a
            · simp [hx, hq]
            · simp [hx]
        · simp only [List.filter_cons, beq_self_eq_true, Bool.not_true, Bool.and_false, Bool.false_eq_true, if_false,
            List.filter_filter]
      have hrest : sumInt (((((as.filter (fun b => !f b == f a)).map f).eraseDups).filter Q).map
            (fun k => (((a :: as).filter (fun x => f x == k)).length : Int))) =
          (((as.filter (fun b => !f b == f a)).filter (fun x => Q (f x))).length : Int) := by
        rw [← ih']
        congr 1
        apply List.map_congr_left
        intro k hk'
        rw [hother k (List.mem_filter.mp hk').1]
      rw [hk, hsplit]
      generalize hK : ((as.filter (fun b => !f b == f a)).map f).eraseDups = K' at hrest ⊢
      by_cases hq : Q (f a) = true
      · have e1 : (f a :: K').filter Q = f a :: K'.filter Q := by rw [List.filter_cons, if_pos hq]
        rw [e1, List.map_cons, sumInt_cons, hrest, if_pos hq]
        omega
      · have e1 : (f a :: K').filter Q = K'.filter Q := by rw [List.filter_cons, if_neg hq]
        rw [e1, hrest, if_neg hq]
        omega

/-! ### the `metrics_15s` rows -/
def key3 (s : Sample) : Int × Int × Int := (s.fp, slotOf s.ts, s.tp)

def m15Row (k : Int × Int × Int) (n : Nat) : Row :=
  [("fingerprint", .int k.1), ("timestamp_ns", .int k.2.1), ("type", .int k.2.2), ("count", .int n)]

theorem metrics15Rows_eq (d : LokiDb) :
    metrics15Rows d = (d.samples.map key3).eraseDups.map (fun k => m15Row k (d.samples.filter (fun s => key3 s == k)).length) := rfl

/-- what the shortcut's WHERE decides of a slot row -/
def slotOk (o : Oracles) (c : MCtx) (d : LokiDb) (q : LogQuery) (k : Int × Int × Int) : Bool :=
  decide (Int.tdiv c.fromNs slot15 * slot15 ≤ k.2.1) && decide (k.2.1 < Int.tdiv c.toNs slot15 * slot15) &&
    typeOk c.toCtx k.2.2 && fpSelected o c.toCtx d q k.1

theorem shortcutWhere_eval (o : Oracles) (c : MCtx) (d : LokiDb) (q : LogQuery) (env : Env) (T : Table)
    (hT : env.lookup (.named "fp_sel") = some T) (hP : FpTable T (fpSelected o c.toCtx d q)) (k : Int × Int × Int) (n : Nat) :
    optB o env (qualify "samples" (m15Row k n)) (some (shortcutWhere c)) = slotOk o c d q k := by
  have h1 : Row.get (qualify "samples" (m15Row k n)) "samples.timestamp_ns" = .int k.2.1 := by
    simp [qualify, m15Row, Row.get, List.lookup]
  have h2 : Row.get (qualify "samples" (m15Row k n)) "samples.fingerprint" = .int k.1 := by
    simp [qualify, m15Row, Row.get, List.lookup]
  have h3 : Row.get (qualify "samples" (m15Row k n)) "type" = .int k.2.2 := by
    simp [qualify, m15Row, Row.get, List.lookup]
  simp only [optB, shortcutWhere, evalB_and, evalAll_cons, evalAll_nil, evalB_ge, evalB_lt, evalE_raw, evalE_int, h1, h2,
    cmpOp_ge_int, cmpOp_lt_int, getTypes_eval o env _ c.toCtx _ h3, evalB_isIn_ref, hT, Option.getD_some, hP.contains,
    slotOk, Bool.and_true, Bool.and_assoc]

/-! ### the shortcut's select -/
def m15Cols (fn : RangeFn) (d : Nat) : List Expr :=
  [bucketCol "samples.timestamp_ns" d, simpleCol "fingerprint" "fingerprint", emptyStr,
   .col (shortcutValue fn (secLit d)) "value"]

def shortcutBody (c : MCtx) (fn : RangeFn) (d : Nat) (ws : List (Alias × Sel)) (hv : Option Expr) : Sel :=
  .mk ws false (m15Cols fn d) (some (.col (.raw c.metrics15Table) "samples")) [] none (some (shortcutWhere c))
    [.raw "fingerprint", .raw "timestamp_ns"] hv [] none

theorem shortcutPhase_eq (c : MCtx) (q : LogQuery) (fn : RangeFn) (d : Nat) (cm : Option Comparison) :
    cmpOpt cm (fingerprintFilter c.toCtx q (metrics15Sel c fn d)) = shortcutBody c fn d (fpWiths c.toCtx q) (cmpHaving cm) := by
  have hw := fingerprintFilter_withs c.toCtx q (metrics15Sel c fn d)
  unfold fingerprintFilter at hw ⊢
  unfold metrics15Sel at hw ⊢
  generalize hW : (Sel.mk [] false
      [bucketCol "samples.timestamp_ns" d, simpleCol "fingerprint" "fingerprint", emptyStr,
        (shortcutValue fn (secLit d)).col "value"]
      (some ((Expr.raw c.metrics15Table).col "samples")) [] none
      (some (and_ [ge (Expr.raw "samples.timestamp_ns") (Expr.int (Int.tdiv c.fromNs slot15 * slot15)),
            lt (Expr.raw "samples.timestamp_ns") (Expr.int (Int.tdiv c.toNs slot15 * slot15)), getTypes c.toCtx]))
      [Expr.raw "fingerprint", Expr.raw "timestamp_ns"] none [] none).with_ [fpWith c.toCtx q] = W at hw ⊢
  unfold Sel.with_ at hW
  simp only [Sel.setWiths] at hW
  subst hW
  simp only [Sel.andWhere, Sel.withs] at hw ⊢
  rw [hw, cmpOpt_eq]
  rfl

def scKey (d : Nat) (k : Int × Int × Int) : Int × Int := (k.1, bucketOf d k.2.1)

theorem m15_aliasVals (o : Oracles) (env : Env) (fn : RangeFn) (d : Nat) (hd : 0 < d) (k : Int × Int × Int) (n : Nat) :
    aliasVals o env (m15Cols fn d) (qualify "samples" (m15Row k n)) =
      [("timestamp_ns", .int (bucketOf d k.2.1)), ("fingerprint", .int k.1), ("string", .str [])] := by
  have hd0 : d ≠ 0 := by omega
  cases fn <;>
    simp [m15Cols, aliasVals, hasAgg, aggNames, shortcutValue, secLit, bucketCol, simpleCol, emptyStr, evalE, evalEs,
      qualify, m15Row, Row.get, List.lookup, mulVal, bucketOf, hd0]

/-- the value cell of the shortcut for a group holding `N` entries in all -/
def scVal (fn : RangeFn) (d : Nat) (N : Int) : Val :=
  match fn with
  | .rate => .rat ((N : Rat) / secondsOf d)
  | _ => .int N

def scRow (fn : RangeFn) (d : Nat) (k : Int × Int) (N : Int) : Row :=
  [("timestamp_ns", .int k.2), ("fingerprint", .int k.1), ("string", .str []), ("value", scVal fn d N)]

theorem countMerge_ints (ns : List Int) : countMergeAgg (ns.map Val.int) = .int (sumInt ns) := by
  unfold countMergeAgg sumInt
  have : ∀ (f : Val → Option Int), (∀ i, f (.int i) = some i) → (ns.map Val.int).mapM f = some ns := by
    intro f hf
    induction ns with
    | nil => rfl
    | cons a l ih => simp only [List.map_cons, List.mapM_cons, hf, ih]; rfl
  rw [this _ (fun i => rfl)]

theorem sc_cell_val (o : Oracles) (env : Env) (fn : RangeFn) (d : Nat) (hms : 1000000 ∣ d) (hd : 0 < d)
    (rows : List Row) (first : Row) (N : Int) (h : countMergeAgg (rows.map (fun r => r.get "count")) = .int N) :
    evalAgg o env rows first (.col (shortcutValue fn (secLit d)) "value") = scVal fn d N := by
  have hsec := secOfMs_eq_secondsOf d hms
  have hsne := secondsOf_ne_zero d hd
  cases fn <;>
    simp [shortcutValue, scVal, evalAgg, aggCall, h, evalAgg_secLit, hsec, hsne, divVal, Val.toRat?]

theorem sc_group_row (o : Oracles) (env : Env) (fn : RangeFn) (d : Nat) (hms : 1000000 ∣ d) (hd : 0 < d)
    (cnt : Int × Int × Int → Nat) (k2 : Int × Int) (G : List (Int × Int × Int)) (k0 : Int × Int × Int)
    (rest : List (Int × Int × Int)) (hG : G = k0 :: rest) (hk : scKey d k0 = k2) :
    grow o env (m15Cols fn d) (G.map (fun k => qualify "samples" (m15Row k (cnt k)))) =
      scRow fn d k2 (sumInt (G.map (fun k => (cnt k : Int)))) := by
  have hd0 : d ≠ 0 := by omega
  subst hG
  have hk1 : k0.1 = k2.1 := by rw [← hk]; rfl
  have hk2 : bucketOf d k0.2.1 = k2.2 := by rw [← hk]; rfl
  have hcnt : countMergeAgg (List.map (fun r => r.get "count")
      (List.map (fun r => aliasVals o env (m15Cols fn d) r ++ r)
        (List.map (fun k => qualify "samples" (m15Row k (cnt k))) (k0 :: rest)))) =
      .int (sumInt ((k0 :: rest).map (fun k => (cnt k : Int)))) := by
    rw [← countMerge_ints, List.map_map, List.map_map, List.map_map]
    congr 1
    apply List.map_congr_left
    intro k _
    simp only [Function.comp_apply]
    rw [m15_aliasVals o env fn d hd]
    simp [qualify, m15Row, Row.get, List.lookup]
  rw [grow_eq]
  have hcols : m15Cols fn d = [bucketCol "samples.timestamp_ns" d, simpleCol "fingerprint" "fingerprint", emptyStr,
      .col (shortcutValue fn (secLit d)) "value"] := rfl
  conv => lhs; arg 2; rw [hcols]
  simp only [List.map_cons, List.map_nil, scRow]
  generalize hR : List.map (fun k => qualify "samples" (m15Row k (cnt k))) rest = R
  have c1 : growCell o env (m15Cols fn d) (qualify "samples" (m15Row k0 (cnt k0)) :: R)
      (bucketCol "samples.timestamp_ns" d) = ("timestamp_ns", .int k2.2) := by
    unfold growCell scope
    rw [List.headD_cons, m15_aliasVals o env fn d hd]
    simp [colName, bucketCol, evalAgg, aggCall, evalE, evalEs, qualify, m15Row, Row.get, List.lookup, mulVal, bucketOf, hd0, ← hk2]
  have c2 : growCell o env (m15Cols fn d) (qualify "samples" (m15Row k0 (cnt k0)) :: R)
      (simpleCol "fingerprint" "fingerprint") = ("fingerprint", .int k2.1) := by
    unfold growCell scope
    rw [List.headD_cons, m15_aliasVals o env fn d hd]
    simp [colName, simpleCol, evalAgg, evalE, qualify, m15Row, Row.get, List.lookup, ← hk1]
  have c4 : growCell o env (m15Cols fn d) (qualify "samples" (m15Row k0 (cnt k0)) :: R)
      (.col (shortcutValue fn (secLit d)) "value") =
      ("value", scVal fn d (sumInt ((cnt k0 : Int) :: rest.map (fun k => (cnt k : Int))))) := by
    subst hR
    have := sc_cell_val o env fn d hms hd _ (scope o env (m15Cols fn d) "value"
      ((qualify "samples" (m15Row k0 (cnt k0)) :: List.map (fun k => qualify "samples" (m15Row k (cnt k))) rest).headD [])) _ hcnt
    exact Prod.ext rfl this
  rw [c1, c2, step_cell_str, c4]

/-- the whole-slot window of the shortcut -/
def lo15 (c : MCtx) : Int := Int.tdiv c.fromNs slot15 * slot15
def hi15 (c : MCtx) : Int := Int.tdiv c.toNs slot15 * slot15

theorem slotOk_key3 (o : Oracles) (c : MCtx) (d : LokiDb) (q : LogQuery) (s : Sample) (hts : 0 ≤ s.ts)
    (htriv : (lineFilters q).all (fun f => lineHolds o f s.str) = true) :
    slotOk o c d q (key3 s) = entryMatchesW o c.toCtx d q (lo15 c) (hi15 c) s := by
  have h1 := (slot_window s.ts (Int.tdiv c.fromNs slot15) hts).1
  have h2 := (slot_window s.ts (Int.tdiv c.toNs slot15) hts).2
  unfold slotOk entryMatchesW key3 lo15 hi15
  simp only [htriv, Bool.and_true]
  rw [show decide (Int.tdiv c.fromNs slot15 * slot15 ≤ slotOf s.ts) = decide (Int.tdiv c.fromNs slot15 * slot15 ≤ s.ts) from
      decide_eq_decide.mpr h1,
    show decide (slotOf s.ts < Int.tdiv c.toNs slot15 * slot15) = decide (s.ts < Int.tdiv c.toNs slot15 * slot15) from
      decide_eq_decide.mpr h2]

theorem scKey_key3 (dur : Nat) (s : Sample) (hts : 0 ≤ s.ts) (hdiv : (dur : Int) % slot15 = 0) (hd : 0 < dur) :
    scKey dur (key3 s) = lraKeyOf dur s := by
  unfold scKey key3 lraKeyOf
  simp only [bucket_of_slot dur s.ts hts hdiv hd]

/-- **range stage (Metrics15ShortcutPlanner).** Over the 15 s slot counts of `metrics_15s`, the select returns one row per
    (stream, range bucket) of the entries of the whole-slot window, in order of first occurrence, carrying the number of
    those entries (divided by the range for `rate`). -/
theorem shortcut_eval (o : Oracles) (c : MCtx) (d : LokiDb) (q : LogQuery) (env : Env) (T : Table)
    (hT : env.lookup (.named "fp_sel") = some T) (hP : FpTable T (fpSelected o c.toCtx d q))
    (fn : RangeFn) (dur : Nat) (hms : 1000000 ∣ dur) (hd : 0 < dur) (hdiv : (dur : Int) % slot15 = 0)
    (hts : ∀ s ∈ d.samples, 0 ≤ s.ts)
    (htriv : ∀ s ∈ d.samples, (lineFilters q).all (fun f => lineHolds o f s.str) = true)
    (ws : List (Alias × Sel)) (hv : Option Expr) :
    evalBodyA o (d.toDbM c) env (shortcutBody c fn dur ws hv) =
      havingFilter o env hv ((groupsBy (lraKeyOf dur) (d.samples.filter (entryMatchesW o c.toCtx d q (lo15 c) (hi15 c)))).map
        (fun g => scRow fn dur g.1 g.2.length)) := by
  let cnt : Int × Int × Int → Nat := fun k => (d.samples.filter (fun s => key3 s == k)).length
  have hsrc : (sourceRowsA o (d.toDbM c) env (.col (.raw c.metrics15Table) "samples")).filter
      (fun r => optB o env r none && optB o env r (some (shortcutWhere c))) =
      (((d.samples.map key3).eraseDups).filter (slotOk o c d q)).map (fun k => qualify "samples" (m15Row k (cnt k))) := by
    simp only [sourceRowsA, sourceRows, toDbM_m15, metrics15Rows_eq, List.map_map, List.filter_map, Function.comp_def, optB,
      Bool.true_and]
    congr 1
    apply List.filter_congr
    intro k _
    exact shortcutWhere_eval o c d q env T hT hP k _
  unfold shortcutBody
  rw [evalBodyA_grouped_where o (d.toDbM c) env ws (m15Cols fn dur) _ _ none (some (shortcutWhere c)) hsrc _ rfl]
  congr 1
  rw [groupsBy_map]
  have hkey : ∀ k ∈ ((d.samples.map key3).eraseDups).filter (slotOk o c d q),
      gkey o env (m15Cols fn dur) [.raw "fingerprint", .raw "timestamp_ns"] (qualify "samples" (m15Row k (cnt k))) =
      (fun (k : Int × Int) => [Val.int k.1, Val.int k.2]) (scKey dur k) := by
    intro k _
    unfold gkey
    rw [m15_aliasVals o env fn dur hd]
    simp [evalE, Row.get, List.lookup, scKey]
  rw [groupsBy_congr _ _ _ hkey, groupsBy_enc (scKey dur) (fun (k : Int × Int) => [Val.int k.1, Val.int k.2])
    (by intro a b h; simp at h; exact Prod.ext h.1 h.2)]
  simp only [List.map_map, Function.comp_def]
  have hrow : ∀ g ∈ groupsBy (scKey dur) (((d.samples.map key3).eraseDups).filter (slotOk o c d q)),
      grow o env (m15Cols fn dur) (g.2.map (fun k => qualify "samples" (m15Row k (cnt k)))) =
      scRow fn dur g.1 (sumInt (g.2.map (fun k => (cnt k : Int)))) := by
    intro g hg
    obtain ⟨⟨k0, rest, hgr, hk0⟩, _⟩ := groupsBy_head (scKey dur) _ g hg
    exact sc_group_row o env fn dur hms hd cnt g.1 g.2 k0 rest hgr hk0
  rw [List.map_congr_left hrow]
  -- the groups of slots are the groups of entries
  unfold groupsBy
  simp only [List.map_map, Function.comp_def]
  have hkeys : ((((d.samples.map key3).eraseDups).filter (slotOk o c d q)).map (scKey dur)).eraseDups =
      ((d.samples.filter (entryMatchesW o c.toCtx d q (lo15 c) (hi15 c))).map (lraKeyOf dur)).eraseDups := by
    rw [← eraseDups_filter, eraseDups_map_eraseDups, List.filter_map, List.map_map]
    congr 1
    rw [show (d.samples.filter (slotOk o c d q ∘ key3)) = d.samples.filter (entryMatchesW o c.toCtx d q (lo15 c) (hi15 c)) from
      List.filter_congr (fun s hs => slotOk_key3 o c d q s (hts s hs) (htriv s hs))]
    apply List.map_congr_left
    intro s hs
    exact scKey_key3 dur s (hts s (List.mem_filter.mp hs).1) hdiv hd
  rw [hkeys]
  apply List.map_congr_left
  intro k2 _
  congr 1
  rw [List.filter_filter]
  have := count_by_key key3 (fun k => scKey dur k == k2 && slotOk o c d q k) d.samples
  simp only [cnt]
  rw [this, List.filter_filter]
  congr 2
  apply List.filter_congr
  intro s hs
  rw [slotOk_key3 o c d q s (hts s hs) (htriv s hs), scKey_key3 dur s (hts s hs) hdiv hd]

theorem scRow_rep (fn : RangeFn) (hfn : fn = .rate ∨ fn = .countOverTime) (dur : Nat) (es : List Sample) :
    Rep ((groupsBy (lraKeyOf dur) es).map (fun g => scRow fn dur g.1 g.2.length)) (lraPts fn dur es) := by
  unfold lraPts
  refine ⟨?_, ?_⟩
  · rw [List.map_map, List.map_map]
    apply List.map_congr_left
    intro g _
    rcases hfn with rfl | rfl <;>
      simp [rview, Pt.view, scRow, scVal, lraVal, get_cons, get_nil, numOf?]
  · intro r hr
    obtain ⟨g, _, rfl⟩ := List.mem_map.mp hr
    intro p hp
    simp only [scRow, List.mem_cons, List.not_mem_nil, or_false] at hp
    rcases hp with rfl | rfl | rfl | rfl <;> simp [Std5]

end Qryn.LogQL

namespace Qryn.LogQL
open Qryn Qryn.Sql

theorem takesShortcut_spec (q : MetricQuery) (h : takesShortcut q = true) :
    ∃ fn, q.rangeAgg.kind = .lra fn ∧ (fn = .rate ∨ fn = .countOverTime) ∧ q.rangeAgg.durNs % slot15 = 0 ∧
      slot15 ≤ q.rangeAgg.durNs := by
  unfold takesShortcut at h
  cases hk : q.rangeAgg.kind with
  | lra fn =>
    simp only [hk, Bool.and_eq_true, Bool.or_eq_true, beq_iff_eq, decide_eq_true_eq] at h
    exact ⟨fn, rfl, h.1.1.1, h.1.2, h.1.1.2⟩
  | unwrap fn l => simp [hk] at h

theorem rangeState_shortcut (c : MCtx) (q : MetricQuery) (fn : RangeFn) (hk : q.rangeAgg.kind = .lra fn) :
    rangeState true c q = ⟨shortcutBody c fn q.rangeAgg.durNs (fpWiths c.toCtx q.rangeAgg.sel) (cmpHaving q.rangeAgg.cmp),
      (labelConds q.rangeAgg.sel).length⟩ := by
  unfold rangeState
  simp only [if_true, shortcutRange, hk, List.foldl_append, List.foldl_cons, List.foldl_nil, applyStep,
    foldl_cmpStep, shortcutPhase_eq]

/-- the plan of `planMetrics15Shortcut` over `rate`/`count_over_time` with a range that is a whole number of 15 s slots,
    every query shape: the matrix of the direct reading over the entries of the window rounded down to whole slots -/
theorem planPhases_shortcut (o : Oracles) (c : MCtx) (hn : c.namesOk) (d : LokiDb) (q : MetricQuery) (fn : RangeFn)
    (hk : q.rangeAgg.kind = .lra fn) (hfn : fn = .rate ∨ fn = .countOverTime) (hdiv : q.rangeAgg.durNs % slot15 = 0)
    (hd : 0 < q.rangeAgg.durNs) (hok : aggOk q)
    (hm : q.rangeAgg.sel.matchers.length ≤ 63)
    (hts : ∀ s ∈ d.samples, 0 ≤ s.ts)
    (htriv : ∀ s ∈ d.samples, (lineFilters q.rangeAgg.sel).all (fun f => lineHolds o f s.str) = true) :
    (evalSelA o (d.toDbM c) (planPhases true c q)).map normRow = matrixPts o c d q (lo15 c) (hi15 c) := by
  have hms : 1000000 ∣ q.rangeAgg.durNs := by
    have h15 : (1000000 : Nat) ∣ slot15 := by decide
    exact Nat.dvd_trans h15 (Nat.dvd_of_mod_eq_zero hdiv)
  have hdiv' : ((q.rangeAgg.durNs : Nat) : Int) % (slot15 : Int) = 0 := by
    have := congrArg (fun (n : Nat) => (n : Int)) hdiv
    simpa using this
  have hrs := rangeState_shortcut c q fn hk
  obtain ⟨T, rest, hE, hT⟩ := fpWiths_eval o c hn d q.rangeAgg.sel hm
  apply planPhases_of_range true o c hn d q hm (isUnwrap_lra _ fn hk) hok
    (cmpStage q.rangeAgg.cmp (lraPts fn q.rangeAgg.durNs
      (d.samples.filter (entryMatchesW o c.toCtx d q.rangeAgg.sel (lo15 c) (hi15 c))))) [] (by simp)
  · rw [hrs]
    refine ⟨⟨[], by simp [shortcutBody, Sel.withs], rfl⟩, ?_, ?_⟩
    · exact (fpWiths_als c.toCtx q.rangeAgg.sel).1
    · rw [evalSelA_eq, evalBodyM_eq_A _ _ _ (shortcutBody c fn q.rangeAgg.durNs (fpWiths c.toCtx q.rangeAgg.sel)
          (cmpHaving q.rangeAgg.cmp)) (cmpHaving_notBitSet q.rangeAgg.cmp)]
      have henv : envOf o (d.toDbM c) (shortcutBody c fn q.rangeAgg.durNs (fpWiths c.toCtx q.rangeAgg.sel)
          (cmpHaving q.rangeAgg.cmp)) = (.named "fp_sel", T) :: rest := hE
      rw [henv, shortcut_eval o c d q.rangeAgg.sel _ T (by simp [List.lookup]) hT fn _ hms hd hdiv' hts htriv]
      exact having_rep o _ _ _ _ (scRow_rep fn hfn _ _)
  · rw [hrs]
  · exact cmpStage_labels _ _ _ (lraPts_stream fn _ _)
  · rw [hrs]
    cases fn <;> simp [shortcutBody, m15Cols, Sel.cols, hasColumn, bucketCol, simpleCol, emptyStr]
  · rw [rangePoints_lra o c.toCtx d q.rangeAgg fn _ _ hk]

/-- **plan_metric_correct on the metrics_15s path**: every query shape over a `rate`/`count_over_time` that takes the
    shortcut. The direct reading is the one over the window rounded down to whole 15 s slots (`effWindow`). -/
theorem planMetric_shortcut (o : Oracles) (c : MCtx) (hn : c.namesOk) (d : LokiDb) (q : MetricQuery)
    (hs : takesShortcut q = true) (hok : aggOk q)
    (hm : q.rangeAgg.sel.matchers.length ≤ 63)
    (hts : ∀ s ∈ d.samples, 0 ≤ s.ts)
    (htriv : ∀ s ∈ d.samples, (lineFilters q.rangeAgg.sel).all (fun f => lineHolds o f s.str) = true) :
    (evalSelA o (d.toDbM c) (planMetric c q)).map normRow = evalMetric o c d q := by
  obtain ⟨fn, hk, hfn, hdiv, hge⟩ := takesShortcut_spec q hs
  have hd : 0 < q.rangeAgg.durNs := Nat.lt_of_lt_of_le (by decide : 0 < slot15) hge
  rw [planMetric_phases, hs, planPhases_shortcut o c hn d q fn hk hfn hdiv hd hok hm hts htriv, evalMetric_matrixPts]
  unfold effWindow
  simp [hs, lo15, hi15]

/-- **the shortcut drops no stage.** For a query that takes the metrics_15s shortcut and a window of whole 15 s slots
    (what `FixPeriodPlanner` hands down: whole range buckets, the range being a multiple of 15 s), the shortcut's
    statement and the statement of the matrix functions (`getFunctionOrder`, reading `samples`, every line filter
    planned) return the same matrix. -/
theorem shortcut_plan_eq_function_plan (o : Oracles) (c : MCtx) (hn : c.namesOk) (d : LokiDb) (q : MetricQuery)
    (hs : takesShortcut q = true) (hok : aggOk q)
    (hm : q.rangeAgg.sel.matchers.length ≤ 63)
    (hts : ∀ s ∈ d.samples, 0 ≤ s.ts)
    (htriv : ∀ s ∈ d.samples, (lineFilters q.rangeAgg.sel).all (fun f => lineHolds o f s.str) = true)
    (hfrom : lo15 c = c.fromNs) (hto : hi15 c = c.toNs) :
    (evalSelA o (d.toDbM c) (planPhases true c q)).map normRow = (evalSelA o (d.toDbM c) (planPhases false c q)).map normRow := by
  obtain ⟨fn, hk, hfn, hdiv, hge⟩ := takesShortcut_spec q hs
  have hd : 0 < q.rangeAgg.durNs := Nat.lt_of_lt_of_le (by decide : 0 < slot15) hge
  rw [planPhases_shortcut o c hn d q fn hk hfn hdiv hd hok hm hts htriv, planPhases_lra o c hn d q fn hk hok hm hd,
    hfrom, hto]

end Qryn.LogQL
