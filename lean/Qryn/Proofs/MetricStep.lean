import Qryn.Proofs.MetricAgg
/-! C08 plan-level proofs: step re-bucketing in SQL (`StepFixPlanner`, step > range). -/
namespace Qryn.LogQL
open Qryn Qryn.Sql

theorem argMin_fold_rel (l : List (Val × Val)) (l' : List (Int × Rat)) (b : Val × Val) (b' : Int × Rat)
    (hb : numOf? b.1 = some b'.2 ∧ b.2 = .int b'.1)
    (h : l.map (fun x => (numOf? x.1, x.2)) = l'.map (fun y => (some y.2, Val.int y.1))) :
    numOf? (l.foldl (fun best q => if keyInt q.2 < keyInt best.2 then q else best) b).1 =
      some (l'.foldl (fun best q => if q.1 < best.1 then q else best) b').2 := by
  induction l generalizing l' b b' with
  | nil =>
    cases l' with
    | nil => exact hb.1
    | cons y l' => simp at h
  | cons x l ih =>
    cases l' with
    | nil => simp at h
    | cons y l' =>
      simp only [List.map_cons, List.cons.injEq, Prod.mk.injEq] at h
      simp only [List.foldl_cons]
      have hk : keyInt x.2 = y.1 := by rw [h.1.2]; rfl
      have hkb : keyInt b.2 = b'.1 := by rw [hb.2]; rfl
      rw [hk, hkb]
      by_cases hc : y.1 < b'.1
      · simp only [hc, if_true]; exact ih l' x y ⟨h.1.1, h.1.2⟩ h.2
      · simp only [hc, if_false]; exact ih l' b b' hb h.2

/-- `argMin(value, timestamp)` over numeric cells is the value at the least timestamp (first such row) -/
theorem argMin_rel (l : List (Val × Val)) (l' : List (Int × Rat))
    (h : l.map (fun x => (numOf? x.1, x.2)) = l'.map (fun y => (some y.2, Val.int y.1))) :
    numOf? (argMinAgg l) = firstBy l' := by
  cases l with
  | nil =>
    cases l' with
    | nil => rfl
    | cons y l' => simp at h
  | cons x l =>
    cases l' with
    | nil => simp at h
    | cons y l' =>
      simp only [List.map_cons, List.cons.injEq, Prod.mk.injEq] at h
      simp only [argMinAgg, firstBy]
      exact argMin_fold_rel l l' x y ⟨h.1.1, h.1.2⟩ h.2

/-! ### the direct reading's re-bucketing, on groups -/
def stepKey (step : Int) (p : Pt) : Int × Val := (bucketOf step p.ts, p.key)

def stepCore (step : Int) (pts : List Pt) : List Pt :=
  (groupsBy (stepKey step) pts).filterMap (fun g =>
    (firstBy (g.2.map (fun p => (p.ts, p.value)))).map (fun v => ⟨g.1.2, (g.2.head?.map (·.labels)).getD .null, g.1.1, v⟩))

theorem stepStage_eq (step : Int) (d : Nat) (pts : List Pt) (h : ¬ step ≤ (d : Int)) :
    stepStage step d pts = stepCore step pts := by
  unfold stepStage stepCore groupsBy stepKey
  simp only [h, if_false, List.filterMap_map, Function.comp_def]

theorem firstBy_some (l : List (Int × Rat)) (h : l ≠ []) : firstBy l = some ((firstBy l).getD 0) := by
  cases l with
  | nil => exact absurd rfl h
  | cons p ps => rfl

theorem stepCore_eq (step : Int) (pts : List Pt) :
    stepCore step pts = (groupsBy (stepKey step) pts).map (fun g =>
      ⟨g.1.2, (g.2.head?.map (·.labels)).getD .null, g.1.1, (firstBy (g.2.map (fun p => (p.ts, p.value)))).getD 0⟩) := by
  unfold stepCore
  apply filterMap_eq_map_of
  intro g hg
  obtain ⟨⟨a, rest, hgr, _⟩, _⟩ := groupsBy_head _ pts g hg
  rw [firstBy_some _ (by rw [hgr]; simp)]
  rfl

/-! ### `StepFixPlanner`'s select -/
def stepCols (step : Int) (wl : Bool) : List Expr :=
  [bucketCol "pre_step_fix.timestamp_ns" step, .raw "fingerprint", emptyStr,
   .col (.call "argMin" [.raw "pre_step_fix.value", .raw "pre_step_fix.timestamp_ns"]) "value"] ++
  (if wl then [.col (.call "any" [.raw "labels"]) "labels"] else [])

def stepBody (step : Int) (wl : Bool) : Sel :=
  .mk [] false (stepCols step wl) (some (.withRef (.named "pre_step_fix"))) [] none none
    [.raw "timestamp_ns", .raw "fingerprint"] none [] none

def bucketVal (step : Int) : Val → Val
  | .int t => .int (bucketOf step t)
  | _ => .null

theorem step_aliasVals (o : Oracles) (env : Env) (step : Int) (hs : step ≠ 0) (wl : Bool) (r : Row) (h : StdRow r) :
    aliasVals o env (stepCols step wl) (qualify "pre_step_fix" r) =
      [("timestamp_ns", bucketVal step (r.get "timestamp_ns")), ("string", .str [])] := by
  have e2 := get_q "pre_step_fix" "timestamp_ns" "pre_step_fix.timestamp_ns" rfl r h
  cases wl <;> cases hv : r.get "timestamp_ns" <;>
    simp [stepCols, aliasVals, hasAgg, aggNames, bucketCol, simpleCol, emptyStr, e2, evalE, evalEs, hv, hs, mulVal, bucketVal,
      bucketOf, Val.toRat?]

theorem step_cell_ts (o : Oracles) (env : Env) (step : Int) (hs : step ≠ 0) (wl : Bool) (r0 : Row) (h : StdRow r0) (rest : List Row) :
    growCell o env (stepCols step wl) (qualify "pre_step_fix" r0 :: rest) (bucketCol "pre_step_fix.timestamp_ns" step) =
      ("timestamp_ns", bucketVal step (r0.get "timestamp_ns")) := by
  have e2 := get_q "pre_step_fix" "timestamp_ns" "pre_step_fix.timestamp_ns" rfl r0 h
  unfold growCell scope
  rw [List.headD_cons, step_aliasVals o env step hs wl r0 h]
  cases hv : r0.get "timestamp_ns" <;>
    simp [colName, bucketCol, evalAgg, aggCall, evalE, evalEs, get_cons, e2, hv, hs, mulVal, bucketVal, bucketOf, Val.toRat?]

theorem step_cell_fp (o : Oracles) (env : Env) (step : Int) (hs : step ≠ 0) (wl : Bool) (r0 : Row) (h : StdRow r0) (rest : List Row) :
    growCell o env (stepCols step wl) (qualify "pre_step_fix" r0 :: rest) (.raw "fingerprint") =
      ("fingerprint", r0.get "fingerprint") := by
  have e1 := get_unqualified "pre_step_fix" "fingerprint" r0 (by simp [Std5])
  unfold growCell scope
  rw [List.headD_cons, step_aliasVals o env step hs wl r0 h]
  simp [colName, evalAgg, evalE, get_cons, e1]

theorem step_cell_str (o : Oracles) (env : Env) (cols : List Expr) (grp : List Row) :
    growCell o env cols grp emptyStr = ("string", .str []) := by
  simp [growCell, emptyStr, colName, evalAgg, evalE]

theorem step_cell_val (o : Oracles) (env : Env) (step : Int) (wl : Bool) (grp : List Row) :
    growCell o env (stepCols step wl) grp
        (.col (.call "argMin" [.raw "pre_step_fix.value", .raw "pre_step_fix.timestamp_ns"]) "value") =
      ("value", argMinAgg ((grp.map (fun r => aliasVals o env (stepCols step wl) r ++ r)).map
        (fun r => (r.get "pre_step_fix.value", r.get "pre_step_fix.timestamp_ns")))) := by
  simp [growCell, colName, evalAgg, aggCall, evalE]

theorem step_cell_lab (o : Oracles) (env : Env) (step : Int) (hs : step ≠ 0) (r0 : Row) (h : StdRow r0) (rest : List Row) :
    growCell o env (stepCols step true) (qualify "pre_step_fix" r0 :: rest) (.col (.call "any" [.raw "labels"]) "labels") =
      ("labels", r0.get "labels") := by
  have e3 := get_unqualified "pre_step_fix" "labels" r0 (by simp [Std5])
  unfold growCell
  simp only [List.map_cons, colName, evalAgg, aggCall, anyAgg, List.head?_cons, Option.getD_some, evalE_raw]
  rw [step_aliasVals o env step hs true r0 h]
  simp [get_cons, e3]

theorem step_group_row (o : Oracles) (env : Env) (step : Int) (hs : step ≠ 0) (wl : Bool)
    (A : List Row) (hstd : ∀ r ∈ A, StdRow r) (B : List Pt) (hne : A ≠ []) (hAB : A.map rview = B.map Pt.view)
    (hl : wl = false → ∀ p ∈ B, p.labels = .null) :
    rview (grow o env (stepCols step wl) (A.map (qualify "pre_step_fix"))) =
      Pt.view ⟨(B.head?.map (·.key)).getD .null, (B.head?.map (·.labels)).getD .null,
        (B.head?.map (fun p => bucketOf step p.ts)).getD 0, (firstBy (B.map (fun p => (p.ts, p.value)))).getD 0⟩ := by
  obtain ⟨r0, A', rfl⟩ : ∃ r0 A', A = r0 :: A' := by
    cases A with
    | nil => exact absurd rfl hne
    | cons r0 A' => exact ⟨r0, A', rfl⟩
  obtain ⟨p0, B', rfl⟩ : ∃ p0 B', B = p0 :: B' := by
    cases B with
    | nil => simp at hAB
    | cons p0 B' => exact ⟨p0, B', rfl⟩
  have h0 : rview r0 = p0.view := by simpa using (List.cons.inj hAB).1
  have hs0 := hstd r0 (List.mem_cons_self ..)
  simp only [rview, Pt.view, Prod.mk.injEq] at h0
  obtain ⟨k1, k2, k3, k4⟩ := h0
  have hval : numOf? (argMinAgg ((((r0 :: A').map (qualify "pre_step_fix")).map (fun r =>
        aliasVals o env (stepCols step wl) r ++ r)).map (fun r => (r.get "pre_step_fix.value", r.get "pre_step_fix.timestamp_ns")))) =
      firstBy ((p0 :: B').map (fun p => (p.ts, p.value))) := by
    apply argMin_rel
    rw [List.map_map, List.map_map, List.map_map, List.map_map]
    apply map_rel rview Pt.view _ _ _ _ hAB
    intro r hr p _ hv
    simp only [Function.comp_apply]
    rw [step_aliasVals o env step hs wl r (hstd r hr)]
    have e1 := get_q "pre_step_fix" "value" "pre_step_fix.value" rfl r (hstd r hr)
    have e2 := get_q "pre_step_fix" "timestamp_ns" "pre_step_fix.timestamp_ns" rfl r (hstd r hr)
    simp only [rview, Pt.view, Prod.mk.injEq] at hv
    simp [get_cons, e1, e2, hv.2.1, hv.2.2.1]
  have hfs := firstBy_some ((p0 :: B').map (fun p => (p.ts, p.value))) (by simp)
  rw [hfs] at hval
  rw [grow_eq]
  cases wl
  · have hcols : stepCols step false = [bucketCol "pre_step_fix.timestamp_ns" step, .raw "fingerprint", emptyStr,
        .col (.call "argMin" [.raw "pre_step_fix.value", .raw "pre_step_fix.timestamp_ns"]) "value"] := rfl
    conv => lhs; arg 1; arg 2; rw [hcols]
    simp only [List.map_cons, List.map_nil]
    rw [step_cell_ts o env step hs false r0 hs0, step_cell_fp o env step hs false r0 hs0, step_cell_str, step_cell_val]
    simp only [List.map_cons, List.map_map] at hval
    simp only [rview, get_cons, get_nil, Pt.view, List.head?_cons, Option.map_some, Option.getD_some]
    simp [k1, k2, hval, bucketVal, hl rfl p0 (List.mem_cons_self ..)]
  · have hcols : stepCols step true = [bucketCol "pre_step_fix.timestamp_ns" step, .raw "fingerprint", emptyStr,
        .col (.call "argMin" [.raw "pre_step_fix.value", .raw "pre_step_fix.timestamp_ns"]) "value",
        .col (.call "any" [.raw "labels"]) "labels"] := rfl
    conv => lhs; arg 1; arg 2; rw [hcols]
    simp only [List.map_cons, List.map_nil]
    rw [step_cell_ts o env step hs true r0 hs0, step_cell_fp o env step hs true r0 hs0, step_cell_str, step_cell_val,
      step_cell_lab o env step hs r0 hs0]
    simp only [List.map_cons, List.map_map] at hval
    simp only [rview, get_cons, Pt.view, List.head?_cons, Option.map_some, Option.getD_some]
    simp [k1, k2, k4, hval, bucketVal]

/-- **step re-bucketing (StepFixPlanner, step > range).** One row per (step bucket, series) in order of first
    occurrence: the value of the group's earliest range bucket, the labels of its first member. -/
theorem step_eval (o : Oracles) (db : Db) (env : Env) (step : Int) (hs : step ≠ 0) (wl : Bool)
    (T : Table) (pts : List Pt) (h : Rep T pts) (hl : wl = false → ∀ p ∈ pts, p.labels = .null)
    (hT : env.lookup (.named "pre_step_fix") = some T) :
    Rep (evalBodyA o db env (stepBody step wl)) (stepCore step pts) := by
  unfold stepBody
  rw [evalBodyA_grouped o db env _ (stepCols step wl) _ (T.map (qualify "pre_step_fix"))
    (by simp [sourceRowsA, sourceRows, hT, Alias.text]) _ rfl]
  simp only [havingFilter]
  rw [groupsBy_map]
  have hkey : ∀ r ∈ T, gkey o env (stepCols step wl) [.raw "timestamp_ns", .raw "fingerprint"] (qualify "pre_step_fix" r) =
      (fun (k : Val × Val) => [k.1, k.2]) ((fun (v : Val × Val × Option Rat × Val) => (bucketVal step v.2.1, v.1)) (rview r)) := by
    intro r hr
    unfold gkey
    rw [step_aliasVals o env step hs wl r (h.std r hr)]
    have e1 := get_unqualified "pre_step_fix" "fingerprint" r (by simp [Std5])
    simp [evalE, get_cons, rview, e1]
  rw [groupsBy_congr _ _ T hkey]
  simp only [List.map_map, Function.comp_def]
  refine ⟨?_, ?_⟩
  · have := groups_rel rview Pt.view (fun (v : Val × Val × Option Rat × Val) => (bucketVal step v.2.1, v.1))
      (fun (k : Val × Val) => [k.1, k.2])
      (by intro a b hab; simp at hab; exact Prod.ext hab.1 hab.2) T pts h.view
      (fun A => rview (grow o env (stepCols step wl) (A.map (qualify "pre_step_fix"))))
      (fun B => Pt.view ⟨(B.head?.map (·.key)).getD .null, (B.head?.map (·.labels)).getD .null,
        (B.head?.map (fun p => bucketOf step p.ts)).getD 0, (firstBy (B.map (fun p => (p.ts, p.value)))).getD 0⟩)
      (fun A B hne hA hB _ hAB => step_group_row o env step hs wl A (fun r hr => h.std r (hA r hr)) B hne hAB
        (fun hw p hp => hl hw p (hB p hp)))
    rw [List.map_map]
    simp only [Function.comp_def] at this ⊢
    rw [this, stepCore_eq]
    have henc := groupsBy_enc (stepKey step) (fun (k : Int × Val) => (Val.int k.1, k.2))
      (by intro a b hab; simp at hab; exact Prod.ext hab.1 hab.2) pts
    simp only [Pt.view, stepKey, bucketVal] at henc ⊢
    rw [henc]
    simp only [List.map_map, Function.comp_def]
    apply List.map_congr_left
    intro g hg
    obtain ⟨⟨a, rest, hgr, hk⟩, _⟩ := groupsBy_head _ pts g hg
    simp only [hgr, List.head?_cons, Option.map_some, Option.getD_some, ← hk]
    rfl
  · intro r hr
    obtain ⟨g, _, rfl⟩ := List.mem_map.mp hr
    apply grow_std
    intro c hc
    cases wl <;>
    · simp only [stepCols, List.append_nil, List.cons_append, List.nil_append, if_true, Bool.false_eq_true, if_false,
        List.mem_cons, List.not_mem_nil, or_false] at hc
      rcases hc with rfl | rfl | rfl | rfl | rfl <;> simp [colName, bucketCol, emptyStr, Std5]

end Qryn.LogQL
