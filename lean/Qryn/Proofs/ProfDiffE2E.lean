import Qryn.Proofs.ProfDiffNest
/-! From collision-free profiles to the hypotheses of the DIFF theorems: the merged trees of two profile lists are
    tree-shaped for one depth function, agree on parents, conserve weight, are parent-closed. -/
namespace Qryn.Prof

section
variable {nid : Nat → Nat → Nat → Nat} {k : Bool} {na : Nat}

theorem allVisits_append (Ps Qs : List Profile) :
    allVisits nid k na (Ps ++ Qs) = allVisits nid k na Ps ++ allVisits nid k na Qs := by
  simp [allVisits]

theorem NoCollision.left {Ps Qs : List Profile} (h : NoCollision nid k na (Ps ++ Qs)) : NoCollision nid k na Ps :=
  fun v hv w hw => h v (by rw [allVisits_append]; simp [hv]) w (by rw [allVisits_append]; simp [hw])

theorem NoCollision.right {Ps Qs : List Profile} (h : NoCollision nid k na (Ps ++ Qs)) : NoCollision nid k na Qs :=
  fun v hv w hw => h v (by rw [allVisits_append]; simp [hv]) w (by rw [allVisits_append]; simp [hw])

/-- every merged entry has a visit of its node with its parent -/
theorem merged_entry_visit (j : Nat) (Ps : List Profile) :
    ∀ e ∈ mergeTrie [] (inputRows (nid := nid) (k := k) (na := na) j Ps),
      ∃ v ∈ allVisits nid k na Ps, v.node = e.node ∧ v.parent = e.parent := by
  intro e he
  have hk : rkey e ∈ (inputRows (nid := nid) (k := k) (na := na) j Ps).map rkey :=
    (mergeTrie_keys _ _).mp (List.mem_map.mpr ⟨e, he, rfl⟩)
  obtain ⟨r, hr, hkr⟩ := List.mem_map.mp hk
  have hkr' : r.parent = e.parent ∧ r.node = e.node := by simpa [rkey] using hkr
  obtain ⟨v, hv, h1, h2, _⟩ := inputRows_attr nid k na j Ps r hr
  exact ⟨v, hv, h1.trans hkr'.2, h2.trans hkr'.1⟩

theorem TreeShaped.congr_dep {T : List Row} {dep dep' : Nat → Nat} (h : TreeShaped T dep)
    (e : ∀ x ∈ T, dep' x.node = dep x.node) : TreeShaped T dep' :=
  ⟨h.nodup, h.nonzero, fun x hx hp => by rw [e x hx]; exact h.root x hx hp,
   fun x hx hp => by
     obtain ⟨x', hx', h1, h2⟩ := h.up x hx hp
     exact ⟨x', hx', h1, by rw [e x' hx', e x hx]; exact h2⟩⟩

/-- the two sides of a diff over collision-free profiles: everything the DIFF theorems ask for -/
theorem diff_hypotheses (hnr : NeverRoot nid) (Ps Qs : List Profile) (j : Nat)
    (hj : ∀ P ∈ Ps ++ Qs, j < P.ntypes) (hc : NoCollision nid k na (Ps ++ Qs))
    (hv : ∀ P ∈ Ps ++ Qs, ∀ s ∈ P.samples, 0 ≤ s.vals.getD j 0) :
    let T1 := mergeTrie [] (inputRows (nid := nid) (k := k) (na := na) j Ps)
    let T2 := mergeTrie [] (inputRows (nid := nid) (k := k) (na := na) j Qs)
    let dep := depOf (allVisits nid k na (Ps ++ Qs))
    TreeShaped T1 dep ∧ TreeShaped T2 dep ∧ Compatible T1 T2 ∧ SideFacts T1 ∧ SideFacts T2 := by
  intro T1 T2 dep
  have c1 := hc.left
  have c2 := hc.right
  have t1 := merged_treeShaped (j := j) Ps c1 hnr
  have t2 := merged_treeShaped (j := j) Qs c2 hnr
  have d1 : ∀ x ∈ T1, dep x.node = depOf (allVisits nid k na Ps) x.node := by
    intro x hx
    obtain ⟨v, hvv, hn, _⟩ := merged_entry_visit j Ps x hx
    rw [← hn, depOf_eq c1 hvv]
    exact depOf_eq hc (by rw [allVisits_append]; simp [hvv])
  have d2 : ∀ x ∈ T2, dep x.node = depOf (allVisits nid k na Qs) x.node := by
    intro x hx
    obtain ⟨v, hvv, hn, _⟩ := merged_entry_visit j Qs x hx
    rw [← hn, depOf_eq c2 hvv]
    exact depOf_eq hc (by rw [allVisits_append]; simp [hvv])
  have T1s := t1.congr_dep d1
  have T2s := t2.congr_dep d2
  have side : ∀ (Rs : List Profile) (cR : NoCollision nid k na Rs) (hjR : ∀ P ∈ Rs, j < P.ntypes)
      (hvR : ∀ P ∈ Rs, ∀ s ∈ P.samples, 0 ≤ s.vals.getD j 0) (dp : Nat → Nat)
      (tR : TreeShaped (mergeTrie [] (inputRows (nid := nid) (k := k) (na := na) j Rs)) dp),
      SideFacts (mergeTrie [] (inputRows (nid := nid) (k := k) (na := na) j Rs)) := by
    intro Rs cR hjR hvR dp tR
    exact ⟨merged_conserving hjR cR hnr, merged_nonneg hjR cR hvR,
      fun e he hp => by obtain ⟨e', he', h1, _⟩ := tR.up e he hp; exact ⟨e', he', h1⟩, tR.nonzero⟩
  refine ⟨T1s, T2s, ?_, ?_, ?_⟩
  · intro a ha b hb e
    obtain ⟨v, hvv, hn, hp⟩ := merged_entry_visit j Ps a ha
    obtain ⟨w, hww, gn, gp⟩ := merged_entry_visit j Qs b hb
    have := (hc.same_node (v := v) (w := w) (by rw [allVisits_append]; simp [hvv]) (by rw [allVisits_append]; simp [hww])
      (by rw [hn, gn, e])).1
    rw [← hp, ← gp, this]
  · exact side Ps c1 (fun P hP => hj P (by simp [hP])) (fun P hP => hv P (by simp [hP])) _ t1
  · exact side Qs c2 (fun P hP => hj P (by simp [hP])) (fun P hP => hv P (by simp [hP])) _ t2

end
end Qryn.Prof
