import Qryn.Proofs.InternalAgg
/-! What the `[value, count]` updates of planner_lra.go, planner_unwrap_agg.go and planner_agg_op.go compute
    for one window: the LogQL value of `Stages.rangeValue / unwrapValue / vecValue`. Core only. -/
namespace Qryn.Read
open Qryn Qryn.LogQL.Stages

variable {V : Type}

/-! ### every supported function marks its bucket -/
theorem lraFn_counts (N : NumOps V) (d : Int) (fn : RangeFn) (h : rangeCounts fn = true) : (lraFn N d fn).Counts := by
  intro c e
  cases fn
  · simp [lraFn]
  · simp [lraFn]
  · simp [lraFn]
  · simp [lraFn]
  · simp [rangeCounts] at h

theorem minmax_step_pos (b : Bool) (c : Cell V) (v : V) : 0 < (if b || c.2 == 0 then ((v, 1) : Cell V) else c).2 := by
  by_cases h : c.2 = 0
  · simp [h]
  · cases b
    · simp [h]; omega
    · simp

theorem unwrapAggFn_counts (N : NumOps V) (d : Int) (fn : UnwrapFn) (h : unwrapCounts fn = true) :
    (unwrapAggFn N d fn).Counts := by
  intro c e
  cases fn
  · simp [unwrapAggFn]
  · simp [unwrapAggFn]
  · simp [unwrapAggFn]
  · exact minmax_step_pos _ c e.val
  · exact minmax_step_pos _ c e.val
  · have := minmax_step_pos false c e.val
    simpa [unwrapAggFn] using this
  · simp [unwrapAggFn]
  · simp [unwrapCounts] at h

theorem vecFn_counts (N : NumOps V) (fn : VecFn) : (vecFn N fn).Counts := by
  intro c e
  cases fn
  · simp [vecFn]
  · exact minmax_step_pos _ c e.val
  · exact minmax_step_pos _ c e.val
  · simp [vecFn]
  · simp [vecFn]

/-! ### folds -/
theorem foldl_pair_add (N : NumOps V) (h : Entry V → V) (step : Cell V → Entry V → Cell V)
    (hstep : ∀ c e, step c e = (N.add c.1 (h e), 1)) (l : List (Entry V)) (c : Cell V) :
    (l.foldl step c).1 = l.foldl (fun a e => N.add a (h e)) c.1 := by
  induction l generalizing c with
  | nil => rfl
  | cons e es ih => rw [List.foldl_cons, ih, hstep]; rfl

theorem foldl_pair_avg (N : NumOps V) (step : Cell V → Entry V → Cell V)
    (hstep : ∀ c e, step c e = (N.add c.1 e.val, c.2 + 1)) (l : List (Entry V)) (c : Cell V) :
    l.foldl step c = (l.foldl (fun a e => N.add a e.val) c.1, c.2 + l.length) := by
  induction l generalizing c with
  | nil => rfl
  | cons e es ih => rw [List.foldl_cons, ih, hstep]; simp only [List.length_cons, List.foldl_cons]; congr 1; omega

theorem foldl_max_from (N : NumOps V) (step : Cell V → Entry V → Cell V)
    (hstep : ∀ c e, step c e = if N.lt c.1 e.val || c.2 == 0 then ((e.val, 1) : Cell V) else c)
    (l : List (Entry V)) (m : V) :
    l.foldl step (m, 1) = (l.foldl (fun m e => if N.lt m e.val then e.val else m) m, 1) := by
  induction l generalizing m with
  | nil => rfl
  | cons e es ih =>
    rw [List.foldl_cons, List.foldl_cons, hstep]
    by_cases h : N.lt m e.val = true
    · have : (if N.lt (m, 1).1 e.val || (m, 1).2 == 0 then ((e.val, 1) : Cell V) else (m, 1)) = (e.val, 1) := by simp [h]
      rw [this, ih]; simp [h]
    · have : (if N.lt (m, 1).1 e.val || (m, 1).2 == 0 then ((e.val, 1) : Cell V) else (m, 1)) = (m, 1) := by simp [h]
      rw [this, ih]; simp [h]

theorem foldl_min_from (N : NumOps V) (step : Cell V → Entry V → Cell V)
    (hstep : ∀ c e, step c e = if N.lt e.val c.1 || c.2 == 0 then ((e.val, 1) : Cell V) else c)
    (l : List (Entry V)) (m : V) :
    l.foldl step (m, 1) = (l.foldl (fun m e => if N.lt e.val m then e.val else m) m, 1) := by
  induction l generalizing m with
  | nil => rfl
  | cons e es ih =>
    rw [List.foldl_cons, List.foldl_cons, hstep]
    by_cases h : N.lt e.val m = true
    · have : (if N.lt e.val (m, 1).1 || (m, 1).2 == 0 then ((e.val, 1) : Cell V) else (m, 1)) = (e.val, 1) := by simp [h]
      rw [this, ih]; simp [h]
    · have : (if N.lt e.val (m, 1).1 || (m, 1).2 == 0 then ((e.val, 1) : Cell V) else (m, 1)) = (m, 1) := by simp [h]
      rw [this, ih]; simp [h]

theorem foldl_first_from (step : Cell V → Entry V → Cell V)
    (hstep : ∀ c e, step c e = if c.2 == 0 then ((e.val, 1) : Cell V) else c) (l : List (Entry V)) (m : V) :
    l.foldl step (m, 1) = (m, 1) := by
  induction l with
  | nil => rfl
  | cons e es ih => rw [List.foldl_cons, hstep]; simpa using ih

theorem foldl_last_from (step : Cell V → Entry V → Cell V) (hstep : ∀ c e, step c e = (e.val, 1))
    (l : List (Entry V)) (c : Cell V) (m : V) :
    l.foldl step c = (if l.isEmpty then c else (((l.map (·.val)).getLast?).getD m, 1)) := by
  induction l generalizing c with
  | nil => rfl
  | cons e es ih =>
    rw [List.foldl_cons, ih, hstep]
    cases es with
    | nil => simp
    | cons e' es' => simp [List.getLast?_cons_cons]

/-! ### the three families -/
theorem lra_value (N : NumOps V) (d : Int) (fn : RangeFn) (l : List (Entry V)) :
    aggValue N (lraFn N d fn) l = rangeValue N d fn l := by
  cases fn
  · show N.div (l.foldl _ (N.zero, 0)).1 _ = _
    rw [foldl_pair_add N (fun _ => N.one) (lraFn N d .rate).step (fun _ _ => rfl)]; rfl
  · show (l.foldl _ (N.zero, 0)).1 = _
    rw [foldl_pair_add N (fun _ => N.one) (lraFn N d .countOverTime).step (fun _ _ => rfl)]; rfl
  · show N.div (l.foldl _ (N.zero, 0)).1 _ = _
    rw [foldl_pair_add N (fun e => N.ofNat e.msg.length) (lraFn N d .bytesRate).step (fun _ _ => rfl)]
    simp [rangeValue, bytesOf, sumOf, List.foldl_map]
  · show (l.foldl _ (N.zero, 0)).1 = _
    rw [foldl_pair_add N (fun e => N.ofNat e.msg.length) (lraFn N d .bytesOverTime).step (fun _ _ => rfl)]
    simp [rangeValue, bytesOf, sumOf, List.foldl_map]
  · show (l.foldl (fun c _ => c) (N.zero, 0)).1 = N.zero
    induction l <;> simp_all

theorem unwrap_value (N : NumOps V) (d : Int) (fn : UnwrapFn) (l : List (Entry V)) (hl : l ≠ [])
    (hc : unwrapCounts fn = true) : aggValue N (unwrapAggFn N d fn) l = unwrapValue N d fn l := by
  obtain ⟨x, xs, rfl⟩ := List.exists_cons_of_ne_nil hl
  cases fn
  · show N.div ((x :: xs).foldl _ (N.zero, 0)).1 _ = _
    rw [foldl_pair_add N (fun e => e.val) (unwrapAggFn N d .rate).step (fun _ _ => rfl)]
    simp [unwrapValue, sumOf, List.foldl_map]
  · show ((x :: xs).foldl _ (N.zero, 0)).1 = _
    rw [foldl_pair_add N (fun e => e.val) (unwrapAggFn N d .sumOverTime).step (fun _ _ => rfl)]
    simp [unwrapValue, sumOf, List.foldl_map]
  · show (unwrapAggFn N d .avgOverTime).fin ((x :: xs).foldl _ (N.zero, 0)) = _
    rw [foldl_pair_avg N (unwrapAggFn N d .avgOverTime).step (fun _ _ => rfl)]
    simp [unwrapAggFn, unwrapValue, sumOf, List.foldl_map, Nat.add_comm]
  · show ((x :: xs).foldl (unwrapAggFn N d .maxOverTime).step (N.zero, 0)).1 = _
    rw [List.foldl_cons]
    have h0 : (unwrapAggFn N d .maxOverTime).step (N.zero, 0) x = (x.val, 1) := by simp [unwrapAggFn]
    rw [h0, foldl_max_from N (unwrapAggFn N d .maxOverTime).step (fun _ _ => rfl)]
    simp [unwrapValue, maxOf, List.foldl_map]
  · show ((x :: xs).foldl (unwrapAggFn N d .minOverTime).step (N.zero, 0)).1 = _
    rw [List.foldl_cons]
    have h0 : (unwrapAggFn N d .minOverTime).step (N.zero, 0) x = (x.val, 1) := by simp [unwrapAggFn]
    rw [h0, foldl_min_from N (unwrapAggFn N d .minOverTime).step (fun _ _ => rfl)]
    simp [unwrapValue, minOf, List.foldl_map]
  · show ((x :: xs).foldl (unwrapAggFn N d .firstOverTime).step (N.zero, 0)).1 = _
    rw [List.foldl_cons]
    have h0 : (unwrapAggFn N d .firstOverTime).step (N.zero, 0) x = (x.val, 1) := by simp [unwrapAggFn]
    rw [h0, foldl_first_from (unwrapAggFn N d .firstOverTime).step (fun _ _ => rfl)]
    simp [unwrapValue]
  · show ((x :: xs).foldl (unwrapAggFn N d .lastOverTime).step (N.zero, 0)).1 = _
    rw [foldl_last_from (unwrapAggFn N d .lastOverTime).step (fun _ _ => rfl) (x :: xs) _ N.zero]
    simp [unwrapValue]
  · simp [unwrapCounts] at hc

theorem vec_value (N : NumOps V) (fn : VecFn) (l : List (Entry V)) (hl : l ≠ []) :
    aggValue N (vecFn N fn) l = vecValue N fn l := by
  obtain ⟨x, xs, rfl⟩ := List.exists_cons_of_ne_nil hl
  cases fn
  · show ((x :: xs).foldl _ (N.zero, 0)).1 = _
    rw [foldl_pair_add N (fun e => e.val) (vecFn N .sum).step (fun _ _ => rfl)]
    simp [vecValue, sumOf, List.foldl_map]
  · show ((x :: xs).foldl (vecFn N .min).step (N.zero, 0)).1 = _
    rw [List.foldl_cons]
    have h0 : (vecFn N .min).step (N.zero, 0) x = (x.val, 1) := by simp [vecFn]
    rw [h0, foldl_min_from N (vecFn N .min).step (fun _ _ => rfl)]
    simp [vecValue, minOf, List.foldl_map]
  · show ((x :: xs).foldl (vecFn N .max).step (N.zero, 0)).1 = _
    rw [List.foldl_cons]
    have h0 : (vecFn N .max).step (N.zero, 0) x = (x.val, 1) := by simp [vecFn]
    rw [h0, foldl_max_from N (vecFn N .max).step (fun _ _ => rfl)]
    simp [vecValue, maxOf, List.foldl_map]
  · show (vecFn N .avg).fin ((x :: xs).foldl _ (N.zero, 0)) = _
    rw [foldl_pair_avg N (vecFn N .avg).step (fun _ _ => rfl)]
    simp [vecFn, vecValue, sumOf, List.foldl_map, Nat.add_comm]
  · show ((x :: xs).foldl _ (N.zero, 0)).1 = _
    rw [foldl_pair_add N (fun _ => N.one) (vecFn N .count).step (fun _ _ => rfl)]; rfl

/-- `aggregate` only evaluates its value function on non-empty windows -/
theorem aggregate_value_congr {κ : Type} [DecidableEq κ] (key : Entry V → κ) (g : Grid)
    (v w : List (Entry V) → V) (h : ∀ l, l ≠ [] → v l = w l) (es : List (Entry V)) :
    aggregate key g v es = aggregate key g w es := by
  simp only [aggregate]
  congr 1
  apply List.map_congr_left
  intro r _
  apply filterMap_congr'
  intro i _
  by_cases hne : es.filter (fun e => decide (key e = key r) && (g.bucket e.ts == some i)) = []
  · simp [hne]
  · simp [hne, h _ hne]

/-- series identity by fingerprint and by label set select the same entries when the two agree on the input -/
theorem firstBy_congr {α κ κ' : Type} [DecidableEq κ] [DecidableEq κ'] (k : α → κ) (k' : α → κ') (l : List α)
    (h : ∀ a ∈ l, ∀ b ∈ l, (k a = k b ↔ k' a = k' b)) : firstBy k l = firstBy k' l := by
  induction l with
  | nil => rfl
  | cons x xs ih =>
    have ih' := ih (fun a ha b hb => h a (List.mem_cons_of_mem _ ha) b (List.mem_cons_of_mem _ hb))
    simp only [firstBy, ih']
    congr 1
    apply List.filter_congr
    intro y hy
    have hy' : y ∈ xs := firstBy_subset _ xs y hy
    have := h y (List.mem_cons_of_mem _ hy') x List.mem_cons_self
    by_cases h1 : k y = k x
    · simp [h1, this.mp h1]
    · have h2 : ¬ k' y = k' x := fun e => h1 (this.mpr e)
      simp [h1, h2]

theorem aggregate_key_congr {κ κ' : Type} [DecidableEq κ] [DecidableEq κ'] (k : Entry V → κ) (k' : Entry V → κ')
    (g : Grid) (v : List (Entry V) → V) (es : List (Entry V))
    (h : ∀ a ∈ es, ∀ b ∈ es, (k a = k b ↔ k' a = k' b)) : aggregate k g v es = aggregate k' g v es := by
  simp only [aggregate, firstBy_congr k k' es h]
  congr 1
  apply List.map_congr_left
  intro r hr
  have hr' : r ∈ es := firstBy_subset _ es r hr
  apply filterMap_congr'
  intro i _
  have : es.filter (fun e => decide (k e = k r) && (g.bucket e.ts == some i)) =
         es.filter (fun e => decide (k' e = k' r) && (g.bucket e.ts == some i)) := by
    apply List.filter_congr
    intro e he
    have := h e he r hr'
    by_cases h1 : k e = k r
    · simp [h1, this.mp h1]
    · have h2 : ¬ k' e = k' r := fun x => h1 (this.mpr x)
      simp [h1, h2]
  simp only [this]

end Qryn.Read
