import Qryn.Read.EncoderCensus
import Qryn.Proofs.EncodeMore
/-! Kernel evaluation of the census comparisons of C15 (kept apart from `Props/C15.lean` so that a changed census is
reported under its own name). Core-only. -/
namespace Qryn.EncoderCensus
open Qryn Qryn.Json Qryn.Encode

/-- the regenerated writer inventory is exactly the reviewed one -/
theorem census_checked : Gen.ResponseWriters.writers = reviewed.map Entry.site := by decide +kernel

/-- the regenerated guards (condition, pieces, every write to the counters) are exactly the reviewed ones -/
theorem guards_checked : Gen.ResponseWriters.guards = reviewedGuards := by decide +kernel

/-- the regenerated integer literals are exactly the reviewed ones -/
theorem consts_checked : Gen.C15Batch.consts = reviewedConsts.map (·.1) := by decide +kernel

/-- the string-literal pieces of a writer, as bytes -/
def litsOf (fn kind : String) : List Bytes :=
  match Gen.ResponseWriters.literals.find? (fun e => e.1 == fn && e.2.1 == kind) with
  | some e => e.2.2
  | none => []

/-- the writers classified `constant` (and the constant pieces of `Series` and `Tail`), with the index of the piece -/
def constantPieces : List (String × String × Nat) :=
  [("MiscController.Rules", "write", 0), ("MiscController.Metadata", "write", 0), ("PromQueryLabelsController.Metadata", "write", 0),
   ("QueryLabelsService.values", "send", 0), ("QueryLabelsService.Series", "send", 0), ("QueryLabelsService.series", "send", 0), ("QueryRangeController.Tail", "ws", 0)]

theorem constants_parse :
    ∀ c ∈ constantPieces, ((litsOf c.1 c.2.1)[c.2.2]?.bind parseDoc).isSome = true := by decide +kernel

/-- the literal pieces of the modelled encoders are the bytes the models use -/
theorem literals_checked :
    litsOf "QueryLabelsService.GenericLabelReq" "send" = [labelsPre, [44], [93, 125]] ∧
    litsOf "QueryLabelsService.series" "send" = [seriesEmptyDoc, seriesPre, [44], [93, 125]] ∧
    litsOf "QueryLabelsService.Series" "send" = [seriesEmptyDoc] ∧
    litsOf "QueryLabelsService.values" "send" = [valuesEmptyDoc] ∧
    litsOf "TempoController.Tags" "write" = [tagsPre, [44], [93, 125]] ∧
    litsOf "TempoController.Values" "write" = [tagValuesPre, [44], [93, 125]] ∧
    litsOf "TempoController.Search" "write" = [searchPre, [44], [93, 125], searchPre, [44], [93, 125]] ∧
    litsOf "TempoController.Trace" "write" = [tracePre, [44], tracePost] ∧
    litsOf "writeResponse" "write" = [[93, 125, 125]] ∧
    litsOf "writeVector" "write" = [[44]] ∧
    litsOf "writeMatrix" "write" = [[44]] ∧
    litsOf "onErr" "send" = [[93, 125, 125]] ∧
    litsOf "QueryRangeController.Tail" "ws" = [tailEmptyDoc] := by decide +kernel

/-- no list-separator counter is put back to 0 except the per-object value counter of the two-level series machines -/
theorem no_reset_checked :
    ∀ g ∈ Gen.ResponseWriters.guards, g.2.2.2.2.any isReset = true → g.2.2.1 = "j > 0" ∧ g.2.1 ∈ twoLevel := by
  decide +kernel

/-- every `inputBatch` constant of the review is what the generators centre their size classes on; the getter's is
    the regenerated `getterBatch` -/
theorem getter_batch_checked :
    ∀ c ∈ Gen.C15Batch.consts, (c.2.1 = "ClickhouseGetterPlanner.Scan" ∨ c.2.1 = "ClickhouseGetterPlanner.ScanMatrix") →
      c.2.2.2 = Gen.C15Batch.getterBatch := by decide +kernel

end Qryn.EncoderCensus
