import Qryn.Proofs.LogQLPlanX
import Qryn.Proofs.PushdownX
import Qryn.Proofs.Limit
/-! The specification `evalLogX` reads the filters placed before the first label-rewriting stage through the index and the
    series table (`entryMatches` / `chainSelected`: the form the plan pushes them down in). On a series table that gives
    every stream ONE label set, that reading is the uniform one: the entries the selector lets through, each carrying its
    stream's labels, filtered by those stages in place (`pre_filters_read_in_place`) — so the whole pipeline is read stage
    by stage on the entries (`evalLogX_reads_in_place`). -/
namespace Qryn.LogQL
open Qryn Qryn.Sql

/-! ### the stable sort commutes with filtering -/
theorem insertBy_head {α} (le : α → α → Bool) (x : α) (l : List α) (h : ∀ z, l.head? = some z → le z x = false) :
    insertBy le x l = x :: l := by
  cases l with
  | nil => rfl
  | cons z zs => simp [insertBy, h z rfl]

theorem insertBy_filter {α} (le : α → α → Bool) (total : ∀ a b, le a b = true ∨ le b a = true)
    (trans : ∀ a b c, le a b = true → le b c = true → le a c = true) (p : α → Bool) (x : α) (m : List α)
    (hs : m.Pairwise (fun a b => le a b = true)) :
    (insertBy le x m).filter p = if p x then insertBy le x (m.filter p) else m.filter p := by
  induction m with
  | nil => by_cases hp : p x = true <;> simp [insertBy, hp]
  | cons y ys ih =>
    rw [List.pairwise_cons] at hs
    by_cases hyx : le y x = true
    · simp only [insertBy, hyx, if_true, List.filter_cons]
      rw [ih hs.2]
      by_cases hpx : p x = true <;> by_cases hpy : p y = true <;> simp [hpx, hpy, insertBy, hyx]
    · have hyx' : le y x = false := by simpa using hyx
      simp only [insertBy, hyx']
      have hall : ∀ z ∈ y :: ys, le z x = false := by
        intro z hz
        rcases List.mem_cons.mp hz with rfl | hz
        · exact hyx'
        · cases hzx : le z x with
          | false => rfl
          | true => exact absurd (trans _ _ _ (hs.1 z hz) hzx) hyx
      by_cases hpx : p x = true
      · have : insertBy le x ((y :: ys).filter p) = x :: (y :: ys).filter p := by
          apply insertBy_head
          intro z hz
          exact hall z (List.mem_filter.mp (List.mem_of_mem_head? hz)).1
        simp [hpx, this]
      · simp [hpx]

theorem sortBy_filter {α} (le : α → α → Bool) (total : ∀ a b, le a b = true ∨ le b a = true)
    (trans : ∀ a b c, le a b = true → le b c = true → le a c = true) (p : α → Bool) (l : List α) :
    sortBy le (l.filter p) = (sortBy le l).filter p := by
  induction l with
  | nil => rfl
  | cons x l ih =>
    rw [sortBy_cons, insertBy_filter le total trans p x _ (sortBy_pairwise le total trans l), ← ih]
    by_cases hp : p x = true <;> simp [List.filter_cons, hp, sortBy_cons]

/-! ### filters act in place -/
theorem stagesX_filters (o : Oracles) (pre : List Stage) (E : List EntryX) :
    stagesX o (pre.map .fl) E = E.filter (fun e => pre.all (stageHolds o e)) := by
  induction pre generalizing E with
  | nil => simp [stagesX, filter_true]
  | cons s rest ih =>
    have : stagesX o ((s :: rest).map .fl) E = stagesX o (rest.map .fl) (E.filter (fun e => stageHolds o e s)) := by
      simp [stagesX, stageX]
    rw [this, ih, List.filter_filter]
    congr 1
    funext e
    simp [Bool.and_comm]

theorem labelConds_line (ms : List Matcher) (f : LineFilter) (rest : List Stage) :
    labelConds ⟨ms, .line f :: rest⟩ = labelConds ⟨ms, rest⟩ := rfl
theorem labelConds_label (ms : List Matcher) (lc : LabelCond) (rest : List Stage) :
    labelConds ⟨ms, .label lc :: rest⟩ = lc :: labelConds ⟨ms, rest⟩ := rfl
theorem lineFilters_line (ms : List Matcher) (f : LineFilter) (rest : List Stage) :
    lineFilters ⟨ms, .line f :: rest⟩ = f :: lineFilters ⟨ms, rest⟩ := rfl
theorem lineFilters_label (ms : List Matcher) (lc : LabelCond) (rest : List Stage) :
    lineFilters ⟨ms, .label lc :: rest⟩ = lineFilters ⟨ms, rest⟩ := rfl

theorem pre_all_split (o : Oracles) (ms : List Matcher) (pre : List Stage) (e : EntryX) :
    pre.all (stageHolds o e) =
      ((labelConds ⟨ms, pre⟩).all (labelCondHolds o e.labels) && (lineFilters ⟨ms, pre⟩).all (fun f => lineHolds o f e.line)) := by
  induction pre with
  | nil => rfl
  | cons s rest ih =>
    cases s with
    | line f =>
      rw [labelConds_line, lineFilters_line, List.all_cons, List.all_cons, ih]
      simp only [stageHolds]
      cases lineHolds o f e.line <;> simp
    | label lc =>
      rw [labelConds_label, lineFilters_label, List.all_cons, List.all_cons, ih]
      simp only [stageHolds]
      cases labelCondHolds o e.labels lc <;> simp

/-! ### the series table gives every stream one label set -/
/-- every series row of a stream carries the label set `L fp`, and a stream the selector picks has an admissible row -/
structure SeriesConsistent (o : Oracles) (c : Ctx) (d : LokiDb) (ms : List Matcher) (L : Int → Labels) : Prop where
  rows : ∀ t ∈ d.ts, o.jsonLabels t.labels = L t.fp
  present : ∀ fp, streamSelected o c d ms fp = true →
    ∃ t ∈ d.ts, t.fp = fp ∧ (decide (fromDate c ≤ t.date) && typeOk c t.tp) = true

theorem chainSelected_le (o : Oracles) (d : LokiDb) (lcs : List LabelCond) (base : Int → Bool) (fp : Int)
    (h : chainSelected o d base lcs fp = true) : base fp = true := by
  induction lcs generalizing base with
  | nil => exact h
  | cons lc rest ih =>
    have := ih _ h
    obtain ⟨t, _, ht⟩ := List.any_eq_true.mp this
    simp only [Bool.and_eq_true, beq_iff_eq] at ht
    rw [← ht.1.1]; exact ht.1.2

theorem chain_step (o : Oracles) (d : LokiDb) (L : Int → Labels) (hr : ∀ t ∈ d.ts, o.jsonLabels t.labels = L t.fp)
    (base : Int → Bool) (lc : LabelCond) (fp : Int) :
    d.ts.any (fun t => t.fp == fp && base t.fp && labelCondHolds o (o.jsonLabels t.labels) lc) =
      (d.ts.any (fun t => t.fp == fp) && (base fp && labelCondHolds o (L fp) lc)) := by
  rw [Bool.eq_iff_iff]
  simp only [List.any_eq_true, Bool.and_eq_true, beq_iff_eq]
  constructor
  · rintro ⟨t, ht, ⟨h1, h2⟩, h3⟩
    subst h1
    exact ⟨⟨t, ht, rfl⟩, h2, by rw [← hr t ht]; exact h3⟩
  · rintro ⟨⟨t, ht, h1⟩, h2, h3⟩
    subst h1
    exact ⟨t, ht, ⟨rfl, h2⟩, by rw [hr t ht]; exact h3⟩

theorem chainSelected_consistent (o : Oracles) (d : LokiDb) (L : Int → Labels)
    (hr : ∀ t ∈ d.ts, o.jsonLabels t.labels = L t.fp) (lcs : List LabelCond) (base : Int → Bool) (fp : Int)
    (hrow : d.ts.any (fun t => t.fp == fp) = true) :
    chainSelected o d base lcs fp = (base fp && lcs.all (labelCondHolds o (L fp))) := by
  induction lcs generalizing base with
  | nil => simp [chainSelected]
  | cons lc rest ih =>
    simp only [chainSelected]
    rw [ih, chain_step o d L hr, hrow]
    simp [Bool.and_assoc]

theorem labelsOf_consistent (o : Oracles) (c : Ctx) (d : LokiDb) (ms : List Matcher) (L : Int → Labels)
    (H : SeriesConsistent o c d ms L) (q : LogQuery) (fp : Int) (hsel : fpSelected o c d q fp = true)
    (hs : streamSelected o c d ms fp = true) : asMap (labelsOf o c d q fp) = L fp := by
  obtain ⟨t, ht, hfp, hadm⟩ := H.present fp hs
  unfold labelsOf
  cases hf : d.ts.find? (fun t => decide (fromDate c ≤ t.date) && typeOk c t.tp && fpSelected o c d q t.fp && t.fp == fp) with
  | none =>
    have := List.find?_eq_none.mp hf t ht
    subst hfp
    simp only [Bool.and_eq_true, beq_iff_eq, not_and] at this
    simp only [Bool.and_eq_true] at hadm
    exact absurd trivial (this ⟨⟨hadm.1, hadm.2⟩, hsel⟩)
  | some t' =>
    have hp := List.find?_some hf
    have hm := List.mem_of_find?_eq_some hf
    simp only [Bool.and_eq_true, beq_iff_eq] at hp
    simp only [asMap]
    rw [H.rows t' hm, hp.2]

/-- the entry a sample is at the join: its stream's labels -/
def entryOf (L : Int → Labels) (s : Sample) : EntryX := ⟨s.fp, s.ts, L s.fp, s.str⟩

theorem any_row_of_present (o : Oracles) (c : Ctx) (d : LokiDb) (ms : List Matcher) (L : Int → Labels)
    (H : SeriesConsistent o c d ms L) (fp : Int) (hs : streamSelected o c d ms fp = true) :
    d.ts.any (fun t => t.fp == fp) = true := by
  obtain ⟨t, ht, hfp, _⟩ := H.present fp hs
  exact List.any_eq_true.mpr ⟨t, ht, by simp [hfp]⟩

/-- what the specification lets through the filters before the first label-rewriting stage = the selector's entries
    whose own labels and line pass them -/
theorem entryMatches_consistent (o : Oracles) (c : Ctx) (d : LokiDb) (ms : List Matcher) (L : Int → Labels)
    (H : SeriesConsistent o c d ms L) (pre : List Stage) (s : Sample) :
    entryMatches o c d ⟨ms, pre⟩ s = (entryMatches o c d ⟨ms, []⟩ s && pre.all (stageHolds o (entryOf L s))) := by
  have h0 : fpSelected o c d ⟨ms, []⟩ s.fp = streamSelected o c d ms s.fp := by simp [fpSelected, labelConds, chainSelected]
  simp only [entryMatches, h0, pre_all_split o ms pre, entryOf]
  have hl0 : (lineFilters ⟨ms, []⟩).all (fun f => lineHolds o f s.str) = true := by simp [lineFilters]
  rw [hl0]
  cases hs : streamSelected o c d ms s.fp with
  | false =>
    have : fpSelected o c d ⟨ms, pre⟩ s.fp = false := by
      cases hc : fpSelected o c d ⟨ms, pre⟩ s.fp with
      | false => rfl
      | true => exact absurd (chainSelected_le o d _ _ _ hc) (by simp [hs])
    simp [this]
  | true =>
    have : fpSelected o c d ⟨ms, pre⟩ s.fp = (labelConds ⟨ms, pre⟩).all (labelCondHolds o (L s.fp)) := by
      unfold fpSelected
      rw [chainSelected_consistent o d L H.rows _ _ _ (any_row_of_present o c d ms L H s.fp hs), hs]
      simp
    rw [this]
    simp [Bool.and_assoc]

theorem fromDate_limit (c : Ctx) (k : Int) : fromDate { c with limit := k } = fromDate c := rfl

theorem entryMatches_limit (o : Oracles) (c : Ctx) (k : Int) (d : LokiDb) (q : LogQuery) (s : Sample) :
    entryMatches o { c with limit := k } d q s = entryMatches o c d q s := rfl

/-- **pre_filters_read_in_place.** On a consistent series table the entries the specification admits to the join for the
    filters `pre` are the selector's entries (no filter) filtered, in place, by `pre` acting on each entry's own labels -/
theorem pre_filters_read_in_place (o : Oracles) (c : Ctx) (d : LokiDb) (ms : List Matcher) (L : Int → Labels)
    (H : SeriesConsistent o c d ms L) (pre : List Stage) :
    entriesAtJoin o c d ⟨ms, pre⟩ = stagesX o (pre.map .fl) (entriesAtJoin o c d ⟨ms, []⟩) := by
  rw [stagesX_filters]
  unfold entriesAtJoin limited
  simp only [if_true]
  -- both sides as maps of `entryOf L` over sorted filtered samples
  have hcanon : ∀ (q : LogQuery), q.matchers = ms → ∀ s ∈ sortBy (tsLe { c with limit := 0 }) (d.samples.filter (entryMatches o { c with limit := 0 } d q)),
      (⟨s.fp, s.ts, asMap (labelsOf o c d q s.fp), s.str⟩ : EntryX) = entryOf L s := by
    intro q hq s hs
    have hm := (List.mem_filter.mp ((mem_sortBy _ _ _).mp hs)).2
    rw [entryMatches_limit] at hm
    have hsel : fpSelected o c d q s.fp = true := by
      simp only [entryMatches, Bool.and_eq_true] at hm
      exact hm.1.2
    have hss : streamSelected o c d ms s.fp = true := by
      subst hq
      exact chainSelected_le o d _ _ _ hsel
    simp only [entryOf]
    rw [labelsOf_consistent o c d ms L H q s.fp hsel hss]
  rw [List.map_congr_left (hcanon ⟨ms, pre⟩ rfl), List.map_congr_left (hcanon ⟨ms, []⟩ rfl)]
  rw [List.filter_map]
  congr 1
  rw [← sortBy_filter _ (tsLe_total _) (tsLe_trans _), List.filter_filter]
  congr 1
  apply List.filter_congr
  intro s _
  simp only [entryMatches_limit, Function.comp]
  rw [entryMatches_consistent o c d ms L H pre s, Bool.and_comm]

end Qryn.LogQL

namespace Qryn.LogQL
open Qryn Qryn.Sql

theorem splitPre_append (ss : List StageX) : (splitPre ss).1.map .fl ++ (splitPre ss).2 = ss := by
  induction ss with
  | nil => rfl
  | cons s rest ih =>
    cases s with
    | ch c => rfl
    | fl f => simpa [splitPre] using ih

theorem stagesX_append (o : Oracles) (a b : List StageX) (E : List EntryX) :
    stagesX o (a ++ b) E = stagesX o b (stagesX o a E) := by
  simp [stagesX, List.foldl_append]

/-- the uniform reading of a pipeline: the selector's entries, each with its stream's labels, pass through ALL stages in
    order (filters in place, label-rewriting stages relabelling), then timestamp order, limit, series order -/
def evalInPlace (o : Oracles) (c : Ctx) (fin : Bool) (d : LokiDb) (q : LogQueryX) : Table :=
  sortBy (rowLe (finalKeysX c fin))
    ((takeLimit (limCtx c fin).limit (sortBy (tsLeX c) (stagesX o q.stages (entriesAtJoin o c d ⟨q.matchers, []⟩)))).map EntryX.row)

theorem evalLogX_reads_in_place (o : Oracles) (c : Ctx) (fin : Bool) (d : LokiDb) (q : LogQueryX) (L : Int → Labels)
    (H : SeriesConsistent o c d q.matchers L) (hch : changersOf q.stages ≠ []) :
    evalLogX o c fin d q = evalInPlace o c fin d q := by
  rcases splitPre_snd q.stages with hpost | ⟨ch, more, hpost⟩
  · exfalso
    apply hch
    have := splitPre_append q.stages
    rw [hpost, List.append_nil] at this
    rw [← this]
    generalize (splitPre q.stages).1 = pre
    induction pre with
    | nil => rfl
    | cons s rest ih => simpa [changersOf] using ih
  · have happ := splitPre_append q.stages
    simp only [evalLogX, evalInPlace, hpost]
    rw [pre_filters_read_in_place o c d q.matchers L H, ← stagesX_append, ← hpost, happ]

end Qryn.LogQL
