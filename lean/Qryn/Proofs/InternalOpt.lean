import Qryn.Proofs.InternalRun
/-! The response optimizer (`ResponseOptimizerPlanner`) regroups entries by fingerprint and flushes when its
    counter reaches the threshold: whatever the batching and the threshold, every series' entries come out
    in the order they went in, none lost, none invented. Core only. -/
namespace Qryn.Read
open Qryn

variable {V : Type}

def groupsFlat (gs : List (UInt64 × List (Entry V))) : List (Entry V) := (gs.map (·.2)).flatten

/-- every group holds entries of its own key, and no key occurs twice -/
def GroupsOk (gs : List (UInt64 × List (Entry V))) : Prop :=
  (∀ p ∈ gs, ∀ e ∈ p.2, e.fp = p.1) ∧ gs.Pairwise (fun p q => p.1 ≠ q.1)

theorem groupAdd_keys (gs : List (UInt64 × List (Entry V))) (e : Entry V) :
    ∀ q ∈ groupAdd gs e, q.1 = e.fp ∨ ∃ q' ∈ gs, q'.1 = q.1 := by
  induction gs with
  | nil => intro q hq; simp [groupAdd] at hq; exact Or.inl (by simp [hq])
  | cons p rest ih =>
    intro q hq
    obtain ⟨k, es⟩ := p
    simp only [groupAdd] at hq
    split at hq
    · rcases List.mem_cons.mp hq with h | h
      · exact Or.inr ⟨(k, es), List.mem_cons_self, by simp [h]⟩
      · exact Or.inr ⟨q, List.mem_cons_of_mem _ h, rfl⟩
    · rcases List.mem_cons.mp hq with h | h
      · exact Or.inr ⟨(k, es), List.mem_cons_self, by simp [h]⟩
      · rcases ih q h with h' | ⟨q', hq', h'⟩
        · exact Or.inl h'
        · exact Or.inr ⟨q', List.mem_cons_of_mem _ hq', h'⟩

theorem groupAdd_ok (gs : List (UInt64 × List (Entry V))) (e : Entry V) (h : GroupsOk gs) : GroupsOk (groupAdd gs e) := by
  induction gs with
  | nil =>
    refine ⟨?_, ?_⟩
    · intro p hp x hx
      simp [groupAdd] at hp
      subst hp
      simp at hx
      simp [hx]
    · simp [groupAdd]
  | cons p rest ih =>
    obtain ⟨k, es⟩ := p
    obtain ⟨h1, h2⟩ := h
    have h2' := List.pairwise_cons.mp h2
    have hrest : GroupsOk rest := ⟨fun p hp => h1 p (List.mem_cons_of_mem _ hp), h2'.2⟩
    simp only [groupAdd]
    split
    · rename_i hk
      refine ⟨?_, ?_⟩
      · intro p hp x hx
        rcases List.mem_cons.mp hp with hp | hp
        · subst hp
          rcases List.mem_append.mp hx with hx | hx
          · exact h1 (k, es) List.mem_cons_self x hx
          · simp at hx; simp [hx, hk]
        · exact h1 p (List.mem_cons_of_mem _ hp) x hx
      · exact List.pairwise_cons.mpr ⟨fun q hq => h2'.1 q hq, h2'.2⟩
    · rename_i hk
      have ih' := ih hrest
      refine ⟨?_, ?_⟩
      · intro p hp x hx
        rcases List.mem_cons.mp hp with hp | hp
        · subst hp; exact h1 (k, es) List.mem_cons_self x hx
        · exact ih'.1 p hp x hx
      · refine List.pairwise_cons.mpr ⟨?_, ih'.2⟩
        intro q hq
        rcases groupAdd_keys rest e q hq with hq' | ⟨q', hq', hq''⟩
        · simpa [hq'] using hk
        · have := h2'.1 q' hq'
          simpa [hq''] using this

theorem groupsFlat_filter_none (gs : List (UInt64 × List (Entry V))) (f : UInt64)
    (h1 : ∀ p ∈ gs, ∀ e ∈ p.2, e.fp = p.1) (h2 : ∀ p ∈ gs, p.1 ≠ f) :
    (groupsFlat gs).filter (fun e => e.fp == f) = [] := by
  simp only [groupsFlat, List.filter_eq_nil_iff, List.mem_flatten, List.mem_map]
  rintro x ⟨l, ⟨p, hp, rfl⟩, hx⟩
  have := h1 p hp x hx
  have := h2 p hp
  simp_all

/-- adding an entry appends it to its series and leaves the other series alone -/
theorem groupAdd_filter (gs : List (UInt64 × List (Entry V))) (e : Entry V) (h : GroupsOk gs) (f : UInt64) :
    (groupsFlat (groupAdd gs e)).filter (fun x => x.fp == f) =
      (groupsFlat gs).filter (fun x => x.fp == f) ++ [e].filter (fun x => x.fp == f) := by
  induction gs with
  | nil => simp [groupAdd, groupsFlat]
  | cons p rest ih =>
    obtain ⟨k, es⟩ := p
    obtain ⟨h1, h2⟩ := h
    have h2' := List.pairwise_cons.mp h2
    have hrest : GroupsOk rest := ⟨fun p hp => h1 p (List.mem_cons_of_mem _ hp), h2'.2⟩
    simp only [groupAdd]
    split
    · rename_i hk
      simp only [groupsFlat, List.map_cons, List.flatten_cons, List.filter_append]
      by_cases hf : e.fp = f
      · have : (groupsFlat rest).filter (fun x => x.fp == f) = [] := by
          apply groupsFlat_filter_none rest f (fun p hp => h1 p (List.mem_cons_of_mem _ hp))
          intro p hp
          have := h2'.1 p hp
          simp only at this
          rw [← hf, ← hk]
          exact fun e => this e.symm
        simp only [groupsFlat] at this
        simp [this]
      · simp [hf]
    · simp only [groupsFlat, List.map_cons, List.flatten_cons, List.filter_append] at ih ⊢
      rw [ih hrest, List.append_assoc]

theorem groupAdd_length (gs : List (UInt64 × List (Entry V))) (e : Entry V) :
    (groupsFlat (groupAdd gs e)).length = (groupsFlat gs).length + 1 := by
  induction gs with
  | nil => simp [groupAdd, groupsFlat]
  | cons p rest ih =>
    obtain ⟨k, es⟩ := p
    simp only [groupAdd]
    split
    · simp [groupsFlat]; omega
    · simp only [groupsFlat, List.map_cons, List.flatten_cons, List.length_append] at ih ⊢
      omega

theorem foldl_groupAdd (gs : List (UInt64 × List (Entry V))) (b : List (Entry V)) (h : GroupsOk gs) :
    GroupsOk (b.foldl groupAdd gs) ∧
    (groupsFlat (b.foldl groupAdd gs)).length = (groupsFlat gs).length + b.length ∧
    ∀ f, (groupsFlat (b.foldl groupAdd gs)).filter (fun x => x.fp == f) =
      (groupsFlat gs).filter (fun x => x.fp == f) ++ b.filter (fun x => x.fp == f) := by
  induction b generalizing gs with
  | nil => simp [h]
  | cons e es ih =>
    have := ih (groupAdd gs e) (groupAdd_ok gs e h)
    refine ⟨this.1, ?_, ?_⟩
    · simp only [List.foldl_cons, this.2.1, groupAdd_length, List.length_cons]; omega
    · intro f
      simp only [List.foldl_cons, this.2.2 f, groupAdd_filter gs e h f, List.filter_cons, List.filter_nil]
      split <;> simp

@[simp] theorem optimizerOps_onEntry (T : Nat) (s : OptState V) (e : Entry V) :
    (optimizerOps T).onEntry s e = .ok (⟨groupAdd s.groups e, s.size + 1⟩, e) := rfl

theorem runBatch_optimizerOps (T : Nat) (s : OptState V) (b : List (Entry V)) :
    runBatch (optimizerOps T) s b = .ok (⟨b.foldl groupAdd s.groups, s.size + b.length⟩, b) := by
  induction b generalizing s with
  | nil => simp [runBatch]
  | cons e es ih =>
    simp only [runBatch, optimizerOps_onEntry, ih, List.foldl_cons, List.length_cons]
    congr 3
    omega

/-- the counter equals the number of buffered entries -/
def OptOk (s : OptState V) : Prop := GroupsOk s.groups ∧ s.size = (groupsFlat s.groups).length

theorem run_optimizerOps_filter (N : NumOps V) (T : Nat) (s : OptState V) (hs : OptOk s) (bs : List (List (Entry V)))
    (f : UInt64) :
    (run N (optimizerOps T) s bs).flatten.filter (fun x => x.fp == f) =
      (groupsFlat s.groups).filter (fun x => x.fp == f) ++ bs.flatten.filter (fun x => x.fp == f) := by
  induction bs generalizing s with
  | nil =>
    simp only [run, optimizerOps, List.flatten_nil, List.filter_nil, List.append_nil]
    split
    · rename_i h0
      have : groupsFlat s.groups = [] := by
        have := hs.2
        rw [h0] at this
        exact List.length_eq_zero_iff.mp this.symm
      simp [this]
    · rfl
  | cons b bs ih =>
    have hb := foldl_groupAdd s.groups b hs.1
    simp only [run, runBatch_optimizerOps]
    have hok : OptOk (⟨b.foldl groupAdd s.groups, s.size + b.length⟩ : OptState V) := ⟨hb.1, by simp [hb.2.1, hs.2]⟩
    simp only [optimizerOps]
    split
    · simp only [List.nil_append]
      have := ih _ hok
      simp only [optimizerOps] at this
      rw [this, hb.2.2 f]
      simp [List.filter_append, List.append_assoc]
    · have hemp : OptOk (⟨[], 0⟩ : OptState V) := ⟨⟨by simp, by simp⟩, by simp [groupsFlat]⟩
      have := ih _ hemp
      simp only [optimizerOps] at this
      simp only [List.flatten_append, List.filter_append, this]
      have h2 := hb.2.2 f
      simp only [groupsFlat] at h2 ⊢
      rw [h2]
      simp [List.filter_append, List.append_assoc]

end Qryn.Read
