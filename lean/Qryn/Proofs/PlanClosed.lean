import Qryn.Proofs.Closed
import Qryn.LogQL.Planner
/-! C10: the atoms of the LogQL planner model `planLog` are well formed (`wfSel`), given that the non-constant
    atoms are: table names, the rendered numbers, the `subsel_<k>` aliases, label names. -/
namespace Qryn.LogQL
open Qryn Qryn.Sql Qryn.Lex

theorem wf_matcherClause (m : Matcher) : wfExpr (matcherClause m) = true := by
  cases m with
  | mk l op v =>
    cases op <;>
      simp only [matcherClause, and_, eq, neq, wfExpr, wfExprs, Bool.and_eq_true, Bool.and_true] <;> decide +kernel

theorem wf_clauses : ∀ ms : List Matcher, wfExprs (ms.map matcherClause) = true
  | [] => by simp [wfExprs]
  | m :: ms => by simp [wfExprs, wf_matcherClause m, wf_clauses ms]

/-- the digits of the shift amounts `0 … n-1` of the matcher bit set -/
def shiftsOK (i n : Nat) : Prop := ∀ j, i ≤ j → j < i + n → rawC (b "), " ++ natDigits j ++ b ")") = true

theorem wfShift_clauses : ∀ (i : Nat) (ms : List Matcher), shiftsOK i ms.length → wfShift i (ms.map matcherClause) = true
  | _, [], _ => by simp [wfShift]
  | i, m :: ms, h => by
    have h0 := h i (Nat.le_refl _) (by simp)
    have ih := wfShift_clauses (i + 1) ms (fun j h1 h2 => h j (by omega) (by simp at h2 ⊢; omega))
    simp only [List.map_cons, wfShift, wf_matcherClause m, h0, ih, Bool.and_self]

theorem wf_getTypes (c : Ctx) (h : rawE (intText (if c.tp = 0 then 1 else (c.tp : Int))) = true) :
    wfExpr (getTypes c) = true := by
  simp only [getTypes, wfExpr, wfExprs, Bool.and_eq_true, Bool.and_true]
  refine ⟨by decide +kernel, h, by decide +kernel⟩

/-- the non-constant atoms of a plan: table names, rendered numbers, `subsel_<k>` aliases, label names -/
structure AtomsOK (c : Ctx) (q : LogQuery) : Prop where
  gin : rawE (b c.ginTable) = true
  samples : rawE (b c.samplesTable) = true
  ts : rawE (b c.tsTable) = true
  tsDist : rawE (b c.tsDistTable) = true
  fromNs : rawE (intText c.fromNs) = true
  toNs : rawE (intText c.toNs) = true
  limit : rawE (intText c.limit) = true
  tp : rawE (intText (if c.tp = 0 then 1 else (c.tp : Int))) = true
  bits : rawE (intText ((2 : Int) ^ q.matchers.length - 1)) = true
  shifts : shiftsOK 0 q.matchers.length

theorem wf_streamSelect (c : Ctx) (q : LogQuery) (h : AtomsOK c q) : wfSelBody (streamSelect c q.matchers) = true := by
  have hc := wf_clauses q.matchers
  have hs := wfShift_clauses 0 q.matchers h.shifts
  have ht := wf_getTypes c h.tp
  have hb : rawE (intText ((2 : Int) ^ (q.matchers.map matcherClause).length - 1)) = true := by simpa using h.bits
  simp only [streamSelect, wfSelBody, wfExprs, wfExpr, wfJoins, and_, or_, ge, eq, Bool.and_eq_true, Bool.and_true, h.gin, hc, hs, ht, hb]
  decide +kernel

/-- label names are free of quote and backslash (the LogQL lexer admits `[a-zA-Z_][a-zA-Z0-9_]*` only:
    `C10.ident_safe`), number literals render as closed text -/
def condOK : LabelCond → Prop
  | .str l _ _ => (b l).all litSafe = true
  | .num l _ v => (b l).all litSafe = true ∧ rawE (b (numText v)) = true
  | .and l r => condOK l ∧ condOK r
  | .or l r => condOK l ∧ condOK r

theorem wf_labelCond : ∀ lc : LabelCond, condOK lc → wfExpr (labelCondSql labelGetterTS lc) = true
  | .str l op v, h => by
    simp only [condOK] at h
    cases op <;>
      simp only [labelCondSql, labelGetterTS, eq, neq, wfExpr, wfExprs, Bool.and_eq_true, Bool.and_true, h] <;> decide +kernel
  | .num l op v, h => by
    simp only [condOK] at h
    cases op <;>
      simp only [labelCondSql, labelGetterTS, and_, eq, neq, gt, ge, lt, le, wfExpr, wfExprs, Bool.and_eq_true, Bool.and_true, h.1, h.2] <;>
      decide +kernel
  | .and l r, h => by
    simp only [condOK] at h
    simp only [labelCondSql, and_, wfExpr, wfExprs, Bool.and_true, wf_labelCond l h.1, wf_labelCond r h.2]
    decide +kernel
  | .or l r, h => by
    simp only [condOK] at h
    simp only [labelCondSql, or_, wfExpr, wfExprs, Bool.and_true, wf_labelCond l h.1, wf_labelCond r h.2]
    decide +kernel

/-- the aliases `subsel_<j>` for `k < j ≤ k + n` are closed text -/
def subsOK (k n : Nat) : Prop :=
  ∀ j, k < j → j ≤ k + n → rawE (b (Alias.sub j).text) = true ∧ rawC (b (Alias.sub j).text ++ b " as (") = true

theorem wf_labelFilterBody (c : Ctx) (k : Nat) (lc : LabelCond) (hts : rawE (b c.tsTable) = true)
    (hk : rawE (b (Alias.sub k).text) = true) (hc : condOK lc) : wfSelBody (labelFilterBody c k lc) = true := by
  simp only [labelFilterBody, wfSelBody, wfExprs, wfExpr, wfJoins, and_, Bool.and_eq_true, Bool.and_true, hts, hk, wf_labelCond lc hc]
  decide +kernel

theorem wf_fpChain (c : Ctx) (hts : rawE (b c.tsTable) = true) :
    ∀ (conds : List LabelCond) (k : Nat) (cur : Sel), wfSelBody cur = true → (∀ lc ∈ conds, condOK lc) →
      subsOK k conds.length → wfWiths (fpChain c cur k conds) = true
  | [], _, cur, hcur, _, _ => by
    simp only [fpChain, wfWiths, hcur, Bool.and_true]
    decide +kernel
  | lc :: rest, k, cur, hcur, hl, hs => by
    have hk := hs (k + 1) (by omega) (by simp)
    have hbody := wf_labelFilterBody c (k + 1) lc hts hk.1 (hl lc (by simp))
    have ih := wf_fpChain c hts rest (k + 1) _ hbody (fun x hx => hl x (by simp [hx]))
      (fun j h1 h2 => hs j (by omega) (by simp at h2 ⊢; omega))
    simp only [fpChain, wfWiths, hcur, hk.2, ih, Bool.and_self]

theorem wf_likeClause (fn : String) (needle : Bytes) (h : rawC (b fn ++ b "(") = true) : wfExpr (likeClause fn needle) = true := by
  simp only [likeClause, eq, wfExpr, wfExprs, Bool.and_eq_true, Bool.and_true, h]
  decide +kernel

theorem wf_lineClause (f : LineFilter) : wfExpr (lineClause f) = true := by
  cases f with
  | mk op v like =>
    cases op <;> simp only [lineClause]
    · exact wf_likeClause _ _ (by decide +kernel)
    · exact wf_likeClause _ _ (by decide +kernel)
    · cases like with
      | none => simp only [eq, wfExpr, wfExprs, Bool.and_eq_true, Bool.and_true]; decide +kernel
      | some li =>
        cases hli : li.insensitive <;> simp only [hli] <;> exact wf_likeClause _ _ (by decide +kernel)
    · cases like with
      | none => simp only [eq, wfExpr, wfExprs, Bool.and_eq_true, Bool.and_true]; decide +kernel
      | some li =>
        cases hli : li.insensitive <;> simp only [hli] <;> exact wf_likeClause _ _ (by decide +kernel)

theorem wf_lineClauses : ∀ fs : List LineFilter, wfExprs (fs.map lineClause) = true
  | [] => by simp [wfExprs]
  | f :: fs => by simp [wfExprs, wf_lineClause f, wf_lineClauses fs]

theorem wf_mainSel (c : Ctx) (q : LogQuery) (h : AtomsOK c q) : wfSelBody (mainSel c q) = true := by
  have ht := wf_getTypes c h.tp
  have hl := wf_lineClauses (lineFilters q)
  by_cases h0 : c.limit = 0 <;> cases hd : c.orderAsc <;>
    simp only [mainSel, dirOf, simpleCol, wfSelBody, wfExprs, wfExpr, wfJoins, and_, ge, lt, h0, hd, if_true, if_false,
      Bool.and_eq_true, Bool.and_true, h.samples, h.fromNs, h.toNs, h.limit, ht, hl] <;>
    decide +kernel

theorem wf_timeSeriesSel (c : Ctx) (q : LogQuery) (h : AtomsOK c q) : wfSelBody (timeSeriesSel c) = true := by
  have ht := wf_getTypes c h.tp
  simp only [timeSeriesSel, simpleCol, wfSelBody, wfExprs, wfExpr, wfJoins, and_, ge, Bool.and_eq_true, Bool.and_true, h.tsDist, ht]
  decide +kernel

theorem wf_joinedSel (c : Ctx) : wfSelBody (joinedSel c) = true := by
  cases hcl : c.isCluster <;>
    simp only [joinedSel, simpleCol, eq, wfSelBody, wfExprs, wfExpr, wfJoins, hcl, if_true, if_false, Bool.and_eq_true, Bool.and_true,
      Alias.text] <;>
    decide +kernel

theorem wfWiths_append : ∀ (x y : List (Alias × Sel)), wfWiths x = true → wfWiths y = true → wfWiths (x ++ y) = true
  | [], y, _, hy => by simpa using hy
  | (a, s) :: x, y, hx, hy => by
    simp only [wfWiths, Bool.and_eq_true] at hx
    simp only [List.cons_append, wfWiths, hx.1.1, hx.1.2, wfWiths_append x y hx.2 hy, Bool.and_self]

/-- every label filter of the query has safe label names and closed number texts; `subsel_1 … subsel_n` are closed -/
structure QueryOK (q : LogQuery) : Prop where
  conds : ∀ lc ∈ labelConds q, condOK lc
  subs : subsOK 0 (labelConds q).length

/-- the atoms of a whole plan are well formed -/
theorem wf_planLog (c : Ctx) (q : LogQuery) (ha : AtomsOK c q) (hq : QueryOK q) : wfSel (planLog c q) = true := by
  have h1 := wf_fpChain c ha.ts (labelConds q) 0 _ (wf_streamSelect c q ha) hq.conds hq.subs
  have h2 : wfWiths [(.named "main", mainSel c q), (.named "_time_series", timeSeriesSel c), (.named "prefinal", joinedSel c)] = true := by
    simp only [wfWiths, wf_mainSel c q ha, wf_timeSeriesSel c q ha, wf_joinedSel c, Bool.and_true, Bool.and_eq_true, Alias.text]
    decide +kernel
  have hw := wfWiths_append _ _ h1 h2
  cases hd : c.orderAsc <;>
    simp only [planLog, dirOf, simpleCol, wfSel, wfSelBody, wfExprs, wfExpr, wfJoins, hw, hd, if_true, if_false, Bool.and_eq_true, Bool.and_true,
      Alias.text] <;>
    decide +kernel

end Qryn.LogQL
