import Qryn.Proofs.Closed
import Qryn.Proofs.RawAtoms
import Qryn.LogQL.Planner
/-! C10: the atoms of the LogQL planner model `planLog` are well formed (`wfSel`), given that the non-constant
    atoms are: table names, the rendered numbers, the `subsel_<k>` aliases, label names. -/
namespace Qryn.LogQL
open Qryn Qryn.Sql Qryn.Lex

theorem wf_matcherClause (m : Matcher) : wfExpr (matcherClause m) = true := by
  cases m with
  | mk l op v =>
    cases op <;>
      simp only [matcherClause, and_, eq, neq, wfExpr, wfExprs, Bool.and_eq_true, Bool.and_true] <;> decide +kernel

theorem wf_clauses : ∀ ms : List Matcher, wfExprs (ms.map matcherClause) = true
  | [] => by simp [wfExprs]
  | m :: ms => by simp [wfExprs, wf_matcherClause m, wf_clauses ms]

/-- the digits of the shift amounts `0 … n-1` of the matcher bit set -/
def shiftsOK (i n : Nat) : Prop := ∀ j, i ≤ j → j < i + n → rawC (b "), " ++ natDigits j ++ b ")") = true

theorem wfShift_clauses : ∀ (i : Nat) (ms : List Matcher), shiftsOK i ms.length → wfShift i (ms.map matcherClause) = true
  | _, [], _ => by simp [wfShift]
  | i, m :: ms, h => by
    have h0 := h i (Nat.le_refl _) (by simp)
    have ih := wfShift_clauses (i + 1) ms (fun j h1 h2 => h j (by omega) (by simp at h2 ⊢; omega))
    simp only [List.map_cons, wfShift, wf_matcherClause m, h0, ih, Bool.and_self]

theorem wf_getTypes (c : Ctx) (h : rawE (intText (if c.tp = 0 then 1 else (c.tp : Int))) = true) :
    wfExpr (getTypes c) = true := by
  simp only [getTypes, wfExpr, wfExprs, Bool.and_eq_true, Bool.and_true]
  refine ⟨by decide +kernel, h, by decide +kernel⟩

/-- the non-constant atoms of a plan: table names, rendered numbers, `subsel_<k>` aliases, label names -/
structure AtomsOK (c : Ctx) (q : LogQuery) : Prop where
  gin : rawE (b c.ginTable) = true
  samples : rawE (b c.samplesTable) = true
  ts : rawE (b c.tsTable) = true
  tsDist : rawE (b c.tsDistTable) = true
  fromNs : rawE (intText c.fromNs) = true
  toNs : rawE (intText c.toNs) = true
  limit : rawE (intText c.limit) = true
  tp : rawE (intText (if c.tp = 0 then 1 else (c.tp : Int))) = true
  bits : rawE (intText ((2 : Int) ^ q.matchers.length - 1)) = true
  shifts : shiftsOK 0 q.matchers.length

theorem wf_streamSelect (c : Ctx) (q : LogQuery) (h : AtomsOK c q) : wfSelBody (streamSelect c q.matchers) = true := by
  have hc := wf_clauses q.matchers
  have hs := wfShift_clauses 0 q.matchers h.shifts
  have ht := wf_getTypes c h.tp
  have hb : rawE (intText ((2 : Int) ^ (q.matchers.map matcherClause).length - 1)) = true := by simpa using h.bits
  simp only [streamSelect, wfSelBody, wfExprs, wfExpr, wfJoins, and_, or_, ge, eq, Bool.and_eq_true, Bool.and_true, h.gin, hc, hs, ht, hb]
  decide +kernel

/-- label names are free of quote and backslash (the LogQL lexer admits `[a-zA-Z_][a-zA-Z0-9_]*` only:
    `C10.ident_safe`), number literals render as closed text -/
def condOK : LabelCond → Prop
  | .str l _ _ => (b l).all litSafe = true
  | .num l _ v => (b l).all litSafe = true ∧ rawE (b (numText v)) = true
  | .and l r => condOK l ∧ condOK r
  | .or l r => condOK l ∧ condOK r

theorem wf_labelCond : ∀ lc : LabelCond, condOK lc → wfExpr (labelCondSql labelGetterTS lc) = true
  | .str l op v, h => by
    simp only [condOK] at h
    cases op <;>
      simp only [labelCondSql, labelGetterTS, eq, neq, wfExpr, wfExprs, Bool.and_eq_true, Bool.and_true, h] <;> decide +kernel
  | .num l op v, h => by
    simp only [condOK] at h
    cases op <;>
      simp only [labelCondSql, labelGetterTS, and_, eq, neq, gt, ge, lt, le, wfExpr, wfExprs, Bool.and_eq_true, Bool.and_true, h.1, h.2] <;>
      decide +kernel
  | .and l r, h => by
    simp only [condOK] at h
    simp only [labelCondSql, and_, wfExpr, wfExprs, Bool.and_true, wf_labelCond l h.1, wf_labelCond r h.2]
    decide +kernel
  | .or l r, h => by
    simp only [condOK] at h
    simp only [labelCondSql, or_, wfExpr, wfExprs, Bool.and_true, wf_labelCond l h.1, wf_labelCond r h.2]
    decide +kernel

/-- the aliases `subsel_<j>` for `k < j ≤ k + n` are closed text -/
def subsOK (k n : Nat) : Prop :=
  ∀ j, k < j → j ≤ k + n → rawE (b (Alias.sub j).text) = true ∧ rawC (b (Alias.sub j).text ++ b " as (") = true

theorem wf_labelFilterBody (c : Ctx) (k : Nat) (lc : LabelCond) (hts : rawE (b c.tsTable) = true)
    (hk : rawE (b (Alias.sub k).text) = true) (hc : condOK lc) : wfSelBody (labelFilterBody c k lc) = true := by
  simp only [labelFilterBody, wfSelBody, wfExprs, wfExpr, wfJoins, and_, Bool.and_eq_true, Bool.and_true, hts, hk, wf_labelCond lc hc]
  decide +kernel

theorem wf_fpChain (c : Ctx) (hts : rawE (b c.tsTable) = true) :
    ∀ (conds : List LabelCond) (k : Nat) (cur : Sel), wfSelBody cur = true → (∀ lc ∈ conds, condOK lc) →
      subsOK k conds.length → wfWiths (fpChain c cur k conds) = true
  | [], _, cur, hcur, _, _ => by
    simp only [fpChain, wfWiths, hcur, Bool.and_true]
    decide +kernel
  | lc :: rest, k, cur, hcur, hl, hs => by
    have hk := hs (k + 1) (by omega) (by simp)
    have hbody := wf_labelFilterBody c (k + 1) lc hts hk.1 (hl lc (by simp))
    have ih := wf_fpChain c hts rest (k + 1) _ hbody (fun x hx => hl x (by simp [hx]))
      (fun j h1 h2 => hs j (by omega) (by simp at h2 ⊢; omega))
    simp only [fpChain, wfWiths, hcur, hk.2, ih, Bool.and_self]

theorem wf_likeClause (fn : String) (needle : Bytes) (h : rawC (b fn ++ b "(") = true) : wfExpr (likeClause fn needle) = true := by
  simp only [likeClause, eq, wfExpr, wfExprs, Bool.and_eq_true, Bool.and_true, h]
  decide +kernel

theorem wf_lineClause (f : LineFilter) : wfExpr (lineClause f) = true := by
  cases f with
  | mk op v like =>
    cases op <;> simp only [lineClause]
    · exact wf_likeClause _ _ (by decide +kernel)
    · exact wf_likeClause _ _ (by decide +kernel)
    · cases like with
      | none => simp only [eq, wfExpr, wfExprs, Bool.and_eq_true, Bool.and_true]; decide +kernel
      | some li =>
        cases hli : li.insensitive <;> simp only [hli] <;> exact wf_likeClause _ _ (by decide +kernel)
    · cases like with
      | none => simp only [eq, wfExpr, wfExprs, Bool.and_eq_true, Bool.and_true]; decide +kernel
      | some li =>
        cases hli : li.insensitive <;> simp only [hli] <;> exact wf_likeClause _ _ (by decide +kernel)

theorem wf_lineClauses : ∀ fs : List LineFilter, wfExprs (fs.map lineClause) = true
  | [] => by simp [wfExprs]
  | f :: fs => by simp [wfExprs, wf_lineClause f, wf_lineClauses fs]

theorem wf_mainSel (c : Ctx) (q : LogQuery) (h : AtomsOK c q) : wfSelBody (mainSel c q) = true := by
  have ht := wf_getTypes c h.tp
  have hl := wf_lineClauses (lineFilters q)
  by_cases h0 : c.limit = 0 <;> cases hd : c.orderAsc <;>
    simp only [mainSel, dirOf, simpleCol, wfSelBody, wfExprs, wfExpr, wfJoins, and_, ge, lt, h0, hd, if_true, if_false,
      Bool.and_eq_true, Bool.and_true, h.samples, h.fromNs, h.toNs, h.limit, ht, hl] <;>
    decide +kernel

theorem wf_timeSeriesSel (c : Ctx) (q : LogQuery) (h : AtomsOK c q) : wfSelBody (timeSeriesSel c) = true := by
  have ht := wf_getTypes c h.tp
  simp only [timeSeriesSel, simpleCol, wfSelBody, wfExprs, wfExpr, wfJoins, and_, ge, Bool.and_eq_true, Bool.and_true, h.tsDist, ht]
  decide +kernel

theorem wf_joinedSel (c : Ctx) : wfSelBody (joinedSel c) = true := by
  cases hcl : c.isCluster <;>
    simp only [joinedSel, simpleCol, eq, wfSelBody, wfExprs, wfExpr, wfJoins, hcl, if_true, if_false, Bool.and_eq_true, Bool.and_true,
      Alias.text] <;>
    decide +kernel

theorem wfWiths_append : ∀ (x y : List (Alias × Sel)), wfWiths x = true → wfWiths y = true → wfWiths (x ++ y) = true
  | [], y, _, hy => by simpa using hy
  | (a, s) :: x, y, hx, hy => by
    simp only [wfWiths, Bool.and_eq_true] at hx
    simp only [List.cons_append, wfWiths, hx.1.1, hx.1.2, wfWiths_append x y hx.2 hy, Bool.and_self]

/-- every label filter of the query has safe label names and closed number texts; `subsel_1 … subsel_n` are closed -/
structure QueryOK (q : LogQuery) : Prop where
  conds : ∀ lc ∈ labelConds q, condOK lc
  subs : subsOK 0 (labelConds q).length

/-- the atoms of a whole plan are well formed -/
theorem wf_planLog (c : Ctx) (q : LogQuery) (ha : AtomsOK c q) (hq : QueryOK q) : wfSel (planLog c q) = true := by
  have h1 := wf_fpChain c ha.ts (labelConds q) 0 _ (wf_streamSelect c q ha) hq.conds hq.subs
  have h2 : wfWiths [(.named "main", mainSel c q), (.named "_time_series", timeSeriesSel c), (.named "prefinal", joinedSel c)] = true := by
    simp only [wfWiths, wf_mainSel c q ha, wf_timeSeriesSel c q ha, wf_joinedSel c, Bool.and_true, Bool.and_eq_true, Alias.text]
    decide +kernel
  have hw := wfWiths_append _ _ h1 h2
  cases hd : c.orderAsc <;>
    simp only [planLog, dirOf, simpleCol, wfSel, wfSelBody, wfExprs, wfExpr, wfJoins, hw, hd, if_true, if_false, Bool.and_eq_true, Bool.and_true,
      Alias.text] <;>
    decide +kernel

/-! ### the number hypotheses discharged for all numbers (`Proofs/RawAtoms.lean`): what remains are the table
    names (configuration) and the label names (restricted by the LogQL lexer) -/

/-- the four table names of the context are closed text (configuration, not request text) -/
structure TablesOK (c : Ctx) : Prop where
  gin : rawE (b c.ginTable) = true
  samples : rawE (b c.samplesTable) = true
  ts : rawE (b c.tsTable) = true
  tsDist : rawE (b c.tsDistTable) = true

theorem shiftsOK_all (i n : Nat) : shiftsOK i n := fun j _ _ => by
  have := rawC_wrap (x := b "), ") (y := natDigits j) (z := b ")") kw_closeComma (rawE_natDigits j) kw_close
  simpa using this

theorem atomsOK_of_tables (c : Ctx) (q : LogQuery) (h : TablesOK c) : AtomsOK c q :=
  ⟨h.gin, h.samples, h.ts, h.tsDist, rawE_intText _, rawE_intText _, rawE_intText _, rawE_intText _, rawE_intText _,
   shiftsOK_all _ _⟩

/-- the class of the LogQL `LabelName` token (`Label_name | Macros_function`, regenerated in `Gen.Lexers`) -/
def LabelClass (s : String) : Prop :=
  ∀ d ∈ b s, inRanges Gen.logqlLabelName d = true ∨ inRanges Gen.logqlMacrosFunction d = true

theorem logqlClass_litSafe : ∀ c : UInt8,
    (inRanges Gen.logqlLabelName c = true ∨ inRanges Gen.logqlMacrosFunction c = true) → litSafe c = true := by
  apply forall_byte_of_lt; decide +kernel

theorem LabelClass.litSafe {s : String} (h : LabelClass s) : (b s).all litSafe = true := by
  simp only [List.all_eq_true]
  exact fun d hd => logqlClass_litSafe d (h d hd)

/-- every label name of a label filter is a `LabelName` token -/
def condNamesOK : LabelCond → Prop
  | .str l _ _ => LabelClass l
  | .num l _ _ => LabelClass l
  | .and l r => condNamesOK l ∧ condNamesOK r
  | .or l r => condNamesOK l ∧ condNamesOK r

theorem allWord_numText (v : NumLit) : allWord (b (numText v)) = true := by
  unfold numText
  simp only [b_append]
  exact allWord_append (allWord_append (allWord_natDigits _) (by rw [b_dot]; decide)) (allWord_joinNats _)

theorem condOK_of_names : ∀ lc : LabelCond, condNamesOK lc → condOK lc
  | .str _ _ _, h => LabelClass.litSafe h
  | .num _ _ v, h => ⟨LabelClass.litSafe h, rawE_word (allWord_numText v)⟩
  | .and l r, h => ⟨condOK_of_names l h.1, condOK_of_names r h.2⟩
  | .or l r, h => ⟨condOK_of_names l h.1, condOK_of_names r h.2⟩

theorem b_subsel : b "subsel_" ≠ [] := by decide +kernel
theorem allWord_subsel : allWord (b "subsel_") = true := by decide +kernel

theorem allWord_subText (j : Nat) : allWord (b (Alias.sub j).text) = true := by
  simp only [Alias.text, b_append]
  exact allWord_append allWord_subsel (allWord_natDigits j)

theorem subText_ne_nil (j : Nat) : b (Alias.sub j).text ≠ [] := by
  simp only [Alias.text, b_append]
  intro h
  exact b_subsel (List.append_eq_nil_iff.mp h).1

theorem subsOK_all (k n : Nat) : subsOK k n := fun j _ _ =>
  ⟨rawE_word (allWord_subText j), rawC_append (rawC_word (allWord_subText j) (subText_ne_nil j)) kw_asOpen⟩

theorem queryOK_of_names (q : LogQuery) (h : ∀ lc ∈ labelConds q, condNamesOK lc) : QueryOK q :=
  ⟨fun lc hlc => condOK_of_names lc (h lc hlc), subsOK_all _ _⟩

end Qryn.LogQL
