import Qryn.Ingest.Decode
/-! Lemmas about the builder and the decoders (used by Props/C03). -/
namespace Qryn.Ingest

/-! ### rows of parallel columns -/

theorem flatMap_single {α β} (f : α → β) (l : List α) : l.flatMap (fun a => [f a]) = l.map f := by
  induction l with
  | nil => rfl
  | cons x xs ih => simp [ih]


def colsRows (fp : List UInt64) (ts : List Int) (msg : List Bytes) (val : List UInt64) (ttl tp : List Nat) : List Row :=
  (fp.zip (ts.zip (msg.zip (val.zip (ttl.zip tp))))).map mkRow

theorem Samples.rows_eq (s : Samples) : s.rows = colsRows s.mFp s.mTs s.mMsg s.mVal s.mTtl s.mTp := rfl

theorem colsRows_append {fp fp' : List UInt64} {ts ts' : List Int} {msg msg' : List Bytes} {val val' : List UInt64}
    {ttl ttl' tp tp' : List Nat}
    (h1 : fp.length = ts.length) (h2 : msg.length = ts.length) (h3 : val.length = ts.length)
    (h4 : ttl.length = ts.length) (h5 : tp.length = ts.length) :
    colsRows (fp ++ fp') (ts ++ ts') (msg ++ msg') (val ++ val') (ttl ++ ttl') (tp ++ tp')
      = colsRows fp ts msg val ttl tp ++ colsRows fp' ts' msg' val' ttl' tp' := by
  unfold colsRows
  rw [← List.map_append]
  congr 1
  rw [List.zip_append (by omega : ttl.length = tp.length)]
  rw [List.zip_append (by simp [List.length_zip]; omega)]
  rw [List.zip_append (by simp [List.length_zip]; omega)]
  rw [List.zip_append (by simp [List.length_zip]; omega)]
  rw [List.zip_append (by simp [List.length_zip]; omega)]

theorem colsRows_length_le (fp : List UInt64) (ts : List Int) (msg : List Bytes) (val : List UInt64) (ttl tp : List Nat) :
    (colsRows fp ts msg val ttl tp).length ≤ ts.length := by
  unfold colsRows
  simp [List.length_zip]
  omega

/-! ### calls -/

/-- what every decoder guarantees about the arrays it passes: equal lengths, types within `[3]bool` -/
def Call.WF (c : Call) : Prop :=
  c.msg.length = c.ts.length ∧ c.val.length = c.ts.length ∧ c.tp.length = c.ts.length ∧ ∀ t ∈ c.tp, t ≤ 2

/-- rows a call contributes -/
def callRows (env : Env) (c : Call) : List Row :=
  colsRows (fastFill c.ts.length (env.fp (identOf env.ctxTtl c.labels))) c.ts c.msg c.val
    (fastFill c.ts.length (ttlOf env.ctxTtl c.labels)) c.tp

theorem callRows_ofEntries (env : Env) (labels : Labels) (es : List Entry) :
    callRows env (Call.ofEntries labels es) = streamRows env labels es := by
  simp only [callRows, Call.ofEntries, streamRows, colsRows, fastFill, List.length_map]
  generalize env.fp (identOf env.ctxTtl labels) = fp
  generalize ttlOf env.ctxTtl labels = ttl
  induction es with
  | nil => rfl
  | cons e es ih =>
    simp only [List.length_cons, List.replicate_succ, List.map_cons, List.zip_cons_cons]
    rw [ih]
    rfl

theorem Call.ofEntries_WF (labels : Labels) (es : List Entry) (h : ∀ e ∈ es, e.tp ≤ 2) :
    (Call.ofEntries labels es).WF := by
  refine ⟨by simp [Call.ofEntries], by simp [Call.ofEntries], by simp [Call.ofEntries], ?_⟩
  intro t ht
  simp only [Call.ofEntries, List.mem_map] at ht
  obtain ⟨e, he, rfl⟩ := ht
  exact h e he

theorem onEntries_ok (env : Env) (st : St) (c : Call) (h : c.WF) :
    onEntries env st c = .ok (onEntriesPure env st c) := by
  obtain ⟨h1, _, _, h4⟩ := h
  unfold onEntries
  have : c.tp.any (fun t => decide (t > 2)) = false := by
    rw [List.any_eq_false]
    intro t ht
    have := h4 t ht
    simp
    omega
  rw [this]
  simp
  omega

/-! ### one step -/

theorem foldl_series_cache (env : Env) (labels : Labels) (fp : UInt64) (ttl : Nat)
    (dts : List (Int × Nat)) (acc : Series × List (Int × UInt64 × Nat)) :
    env.seriesBytes * acc.1.rows.length ≤ acc.1.size →
    env.seriesBytes * (dts.foldl (seriesStep env labels fp ttl) acc).1.rows.length
      ≤ (dts.foldl (seriesStep env labels fp ttl) acc).1.size := by
  induction dts generalizing acc with
  | nil => intro h; exact h
  | cons d ds ih =>
    intro h
    simp only [List.foldl_cons]
    apply ih
    unfold seriesStep
    split
    · exact h
    · simp only [List.length_append, List.length_cons, List.length_nil]
      rw [Nat.mul_add]
      omega

/-- the samples request `onEntriesPure` has open right after the appends (before the flush decision) -/
def appended (env : Env) (st : St) (c : Call) : Samples :=
  { mMsg := st.spl.mMsg ++ c.msg, mVal := st.spl.mVal ++ c.val, mTs := st.spl.mTs ++ c.ts,
    mFp := st.spl.mFp ++ fastFill c.ts.length (env.fp (identOf env.ctxTtl c.labels)),
    mTtl := st.spl.mTtl ++ fastFill c.ts.length (ttlOf env.ctxTtl c.labels),
    mTp := st.spl.mTp ++ c.tp,
    size := st.spl.size + ((c.msg.take c.ts.length).map (fun m => m.length + env.rowBytes)).sum }

theorem appended_rect (env : Env) (st : St) (c : Call) (hr : st.spl.Rect) (h : c.WF) : (appended env st c).Rect := by
  obtain ⟨a1, a2, a3, a4, a5⟩ := hr
  obtain ⟨h1, h2, h3, _⟩ := h
  simp only [Samples.Rect, appended, fastFill, List.length_append, List.length_replicate]
  omega

theorem appended_rows (env : Env) (st : St) (c : Call) (hr : st.spl.Rect) :
    (appended env st c).rows = st.spl.rows ++ callRows env c := by
  obtain ⟨a1, a2, a3, a4, a5⟩ := hr
  simp only [Samples.rows_eq, appended, callRows]
  exact colsRows_append a1 a2 a3 a4 a5

theorem sum_map_add_const (l : List Bytes) (k : Nat) :
    k * l.length ≤ (l.map (fun m => m.length + k)).sum := by
  induction l with
  | nil => simp
  | cons x xs ih =>
    simp only [List.length_cons, List.map_cons, List.sum_cons, Nat.mul_succ]
    omega

theorem appended_size (env : Env) (st : St) (c : Call) (h : c.WF)
    (hs : env.rowBytes * st.spl.mTs.length ≤ st.spl.size) :
    env.rowBytes * (appended env st c).mTs.length ≤ (appended env st c).size := by
  obtain ⟨h1, _, _, _⟩ := h
  simp only [appended, List.length_append, Nat.mul_add]
  have : c.msg.take c.ts.length = c.msg := by rw [← h1]; exact List.take_length
  rw [this]
  have := sum_map_add_const c.msg env.rowBytes
  rw [h1] at this
  omega

/-- the result of a step in terms of `appended` -/
theorem onEntriesPure_cases (env : Env) (st : St) (c : Call) :
    ∃ ts cache,
      env.seriesBytes * st.ts.rows.length ≤ st.ts.size → env.seriesBytes * ts.rows.length ≤ ts.size ∧
      (onEntriesPure env st c = ({ spl := {}, ts := {}, cache := cache }, [⟨appended env st c, ts⟩]) ∨
       onEntriesPure env st c = ({ spl := appended env st c, ts := ts, cache := cache }, [])) := by
  let labels := identOf env.ctxTtl c.labels
  let ttl := ttlOf env.ctxTtl c.labels
  let tps := [0, 1, 2].filter (fun t => c.tp.contains t)
  let r := (((c.ts.map dayOf).eraseDups).flatMap (fun d => tps.map (fun t => (d, t)))).foldl
    (seriesStep env labels (env.fp labels) ttl) (st.ts, st.cache)
  refine ⟨r.1, r.2, ?_⟩
  intro hs
  refine ⟨foldl_series_cache env labels (env.fp labels) ttl _ (st.ts, st.cache) hs, ?_⟩
  cases hf : env.flush ((appended env st c).size + r.1.size)
  · right
    simp only [onEntriesPure]
    simp only [appended, r, labels, ttl, tps] at hf
    simp only [hf]
    rfl
  · left
    simp only [onEntriesPure]
    simp only [appended, r, labels, ttl, tps] at hf
    simp only [hf, ↓reduceIte]
    rfl

/-! ### the callback sequence -/

/-- invariant of the builder state -/
structure Inv (env : Env) (st : St) : Prop where
  rect : st.spl.Rect
  splSize : env.rowBytes * st.spl.mTs.length ≤ st.spl.size
  tsSize : env.seriesBytes * st.ts.rows.length ≤ st.ts.size

/-- what holds of every emitted chunk -/
structure ChunkOk (env : Env) (c : Chunk) : Prop where
  rect : c.spl.Rect
  splSize : env.rowBytes * c.spl.mTs.length ≤ c.spl.size
  tsSize : env.seriesBytes * c.ts.rows.length ≤ c.ts.size

theorem Inv.fresh (env : Env) (cache : List (Int × UInt64 × Nat)) : Inv env { spl := {}, ts := {}, cache := cache } :=
  ⟨⟨rfl, rfl, rfl, rfl, rfl⟩, by simp, by simp⟩

theorem Inv.init (env : Env) : Inv env {} := Inv.fresh env []

theorem step_spec (env : Env) (st : St) (c : Call) (hi : Inv env st) (h : c.WF) :
    ∃ st' out, onEntries env st c = .ok (st', out) ∧ Inv env st' ∧ (∀ ch ∈ out, ChunkOk env ch) ∧
      out.flatMap Chunk.rows ++ st'.spl.rows = st.spl.rows ++ callRows env c := by
  rw [onEntries_ok env st c h]
  obtain ⟨ts, cache, hts⟩ := onEntriesPure_cases env st c
  obtain ⟨htsz, hcase⟩ := hts hi.tsSize
  have hrect := appended_rect env st c hi.rect h
  have hrows := appended_rows env st c hi.rect
  have hsz := appended_size env st c h hi.splSize
  rcases hcase with hc | hc
  · refine ⟨_, _, by rw [hc], Inv.fresh env cache, ?_, ?_⟩
    · intro ch hch
      simp only [List.mem_singleton] at hch
      subst hch
      exact ⟨hrect, hsz, htsz⟩
    · simp only [List.flatMap_cons, List.flatMap_nil, List.append_nil, Chunk.rows]
      rw [hrows]
      simp [Samples.rows]
  · refine ⟨_, _, by rw [hc], ⟨hrect, hsz, htsz⟩, by simp, ?_⟩
    simp [hrows]

theorem runCalls_spec (env : Env) (calls : List Call) (st : St) (hi : Inv env st) (h : ∀ c ∈ calls, c.WF) :
    ∃ st' out, runCalls env st calls = .ok (st', out) ∧ Inv env st' ∧ (∀ ch ∈ out, ChunkOk env ch) ∧
      out.flatMap Chunk.rows ++ st'.spl.rows = st.spl.rows ++ calls.flatMap (callRows env) := by
  induction calls generalizing st with
  | nil => exact ⟨st, [], rfl, hi, by simp, by simp⟩
  | cons c cs ih =>
    obtain ⟨st1, out1, e1, i1, ok1, r1⟩ := step_spec env st c hi (h c (by simp))
    obtain ⟨st2, out2, e2, i2, ok2, r2⟩ := ih st1 i1 (fun c' hc' => h c' (by simp [hc']))
    refine ⟨st2, out1 ++ out2, ?_, i2, ?_, ?_⟩
    · simp only [runCalls, e1, e2]
    · intro ch hch
      rcases List.mem_append.mp hch with h' | h'
      · exact ok1 ch h'
      · exact ok2 ch h'
    · simp only [List.flatMap_append, List.flatMap_cons, List.append_assoc]
      rw [r2, ← List.append_assoc, r1, List.append_assoc]

theorem parse_spec (env : Env) (calls : List Call) (h : ∀ c ∈ calls, c.WF) :
    ∃ chunks, parse env calls = .ok chunks ∧ (∀ ch ∈ chunks, ChunkOk env ch) ∧
      chunks.flatMap Chunk.rows = calls.flatMap (callRows env) := by
  obtain ⟨st, out, e, i, ok, r⟩ := runCalls_spec env calls {} (Inv.init env) h
  refine ⟨out ++ [⟨st.spl, st.ts⟩], by simp only [parse, e], ?_, ?_⟩
  · intro ch hch
    rcases List.mem_append.mp hch with h' | h'
    · exact ok ch h'
    · simp only [List.mem_singleton] at h'
      subst h'
      exact ⟨i.rect, i.splSize, i.tsSize⟩
  · simp only [List.flatMap_append, List.flatMap_cons, List.flatMap_nil, List.append_nil, Chunk.rows] at r ⊢
    rw [r]
    simp [Samples.rows]

/-! ### decoders: every call is well formed and the calls carry exactly the streams' entries -/

def streamsRows (env : Env) (ss : List (Labels × List Entry)) : List Row :=
  ss.flatMap (fun s => streamRows env s.1 s.2)

theorem lokiTypeB_le : ∀ a b : Bool, lokiTypeB a b ≤ 2 := by decide

theorem lokiType_le (l : Option Bytes) (v : Option UInt64) : lokiType l v ≤ 2 := lokiTypeB_le _ _

theorem replicate_eq_map {α β} (l : List α) (v : β) (f : α → β) (h : ∀ a, f a = v) :
    List.replicate l.length v = l.map f := by
  induction l with
  | nil => rfl
  | cons a l ih => simp [List.replicate_succ, ih, h]

/-- a call whose columns are the projections of an entry list -/
theorem call_eq_ofEntries (labels : Labels) (es : List Entry) (ts : List Int) (msg : List Bytes) (val : List UInt64) (tp : List Nat)
    (h1 : ts = es.map (·.ts)) (h2 : msg = es.map (·.line)) (h3 : val = es.map (·.val)) (h4 : tp = es.map (·.tp)) :
    (⟨labels, ts, msg, val, tp⟩ : Call) = Call.ofEntries labels es := by
  subst h1 h2 h3 h4; rfl

theorem decodeProto_eq (d : LokiProto) : decodeProto d = d.map (fun s => Call.ofEntries s.ident s.sub) := by
  unfold decodeProto
  apply List.map_congr_left
  intro s _
  apply call_eq_ofEntries
  · rfl
  · rfl
  · simp only [ProtoStream.sub, List.map_map, fastFill]
    exact replicate_eq_map _ _ _ (fun _ => rfl)
  · simp only [ProtoStream.sub, List.map_map, fastFill]
    exact replicate_eq_map _ _ _ (fun _ => rfl)

theorem decodeDDSeries_eq (d : DatadogSeries) : decodeDDSeries d = d.map (fun s => Call.ofEntries s.ident s.sub) := by
  unfold decodeDDSeries
  apply List.map_congr_left
  intro s _
  apply call_eq_ofEntries
  · rfl
  · simp only [DDSeriesItem.sub, List.map_map, fastFill]
    exact replicate_eq_map _ _ _ (fun _ => rfl)
  · rfl
  · simp only [DDSeriesItem.sub, List.map_map, fastFill]
    exact replicate_eq_map _ _ _ (fun _ => rfl)

theorem promCall_eq (labels : Labels) (buf : List PromSample) :
    promCall labels buf = Call.ofEntries labels (buf.map PromSample.entry) := by
  apply call_eq_ofEntries
  · simp
  · simp [PromSample.entry]
  · simp [PromSample.entry]
  · simp only [List.map_map, fastFill]
    exact replicate_eq_map _ _ _ (fun _ => rfl)

/-- the mid-series flushes of remote write partition the samples of the series, whatever the limit and the
    counter inherited from earlier series -/
theorem promSamples_rows (env : Env) (fl : Nat → Bool) (labels : Labels) (rest : List PromSample) :
    ∀ (points : Nat) (buf : List PromSample),
      (promSamples fl labels points buf rest).1.flatMap (callRows env)
        = streamRows env labels ((buf ++ rest).map PromSample.entry) := by
  induction rest with
  | nil =>
    intro points buf
    simp only [promSamples, List.append_nil]
    cases buf with
    | nil => simp [streamRows]
    | cons b bs => simp [promCall_eq, callRows_ofEntries]
  | cons s rest ih =>
    intro points buf
    simp only [promSamples]
    split
    · simp only [List.flatMap_cons, ih 0 [], promCall_eq, callRows_ofEntries, streamRows, List.nil_append]
      rw [← List.map_append, ← List.map_append]
      simp
    · rw [ih (points + 1) (buf ++ [s])]
      simp

theorem promSamples_WF (fl : Nat → Bool) (labels : Labels) (rest : List PromSample) :
    ∀ (points : Nat) (buf : List PromSample), ∀ c ∈ (promSamples fl labels points buf rest).1, c.WF := by
  have hwf : ∀ buf : List PromSample, (promCall labels buf).WF := by
    intro buf
    rw [promCall_eq]
    apply Call.ofEntries_WF
    intro e he
    simp only [List.mem_map] at he
    obtain ⟨s, _, rfl⟩ := he
    show Gen.sampleTypeMetric ≤ 2
    decide
  induction rest with
  | nil =>
    intro points buf c hc
    simp only [promSamples] at hc
    split at hc
    · simp at hc
    · simp only [List.mem_singleton] at hc
      subst hc
      exact hwf buf
  | cons s rest ih =>
    intro points buf c hc
    simp only [promSamples] at hc
    split at hc
    · simp only [List.mem_cons] at hc
      rcases hc with rfl | hc
      · exact hwf _
      · exact ih 0 [] c hc
    · exact ih (points + 1) (buf ++ [s]) c hc

theorem promSeriesList_rows (env : Env) (fl : Nat → Bool) (d : PromWrite) :
    ∀ points, (promSeriesList fl points d).flatMap (callRows env)
      = streamsRows env (d.map (fun s => (s.ident, s.sub))) := by
  induction d with
  | nil => intro _; rfl
  | cons s rest ih =>
    intro points
    simp only [promSeriesList, List.flatMap_append, ih, List.map_cons, streamsRows, List.flatMap_cons]
    rw [promSamples_rows]
    rfl

theorem promSeriesList_WF (fl : Nat → Bool) (d : PromWrite) :
    ∀ points, ∀ c ∈ promSeriesList fl points d, c.WF := by
  induction d with
  | nil => intro _ c hc; simp [promSeriesList] at hc
  | cons s rest ih =>
    intro points c hc
    simp only [promSeriesList, List.mem_append] at hc
    rcases hc with hc | hc
    · exact promSamples_WF fl _ _ _ _ c hc
    · exact ih _ c hc

/-- calls made as `Call.ofEntries` of the streams, one call per stream -/
theorem ofEntries_calls_rows (env : Env) (ss : List (Labels × List Entry)) :
    (ss.map (fun s => Call.ofEntries s.1 s.2)).flatMap (callRows env) = streamsRows env ss := by
  simp only [streamsRows, List.flatMap_map, callRows_ofEntries]

theorem ofEntries_calls_WF (ss : List (Labels × List Entry)) (h : ∀ s ∈ ss, ∀ e ∈ s.2, e.tp ≤ 2) :
    ∀ c ∈ ss.map (fun s => Call.ofEntries s.1 s.2), c.WF := by
  intro c hc
  simp only [List.mem_map] at hc
  obtain ⟨s, hs, rfl⟩ := hc
  exact Call.ofEntries_WF _ _ (h s hs)

/-- every entry a body submits has a type the builder can index with -/
theorem Body.streams_tp (now : Int) (b : Body) : ∀ s ∈ b.streams now, ∀ e ∈ s.2, e.tp ≤ 2 := by
  intro s hs e he
  cases b with
  | loki d =>
    simp only [Body.streams, List.mem_map] at hs
    obtain ⟨x, _, rfl⟩ := hs
    simp only [LokiStream.sub, List.mem_map] at he
    obtain ⟨y, _, rfl⟩ := he
    exact lokiType_le _ _
  | lokiProto d =>
    simp only [Body.streams, List.mem_map] at hs
    obtain ⟨x, _, rfl⟩ := hs
    simp only [ProtoStream.sub, List.mem_map] at he
    obtain ⟨y, _, rfl⟩ := he
    first | (show Gen.sampleTypeLog ≤ 2; decide) | (show Gen.sampleTypeMetric ≤ 2; decide)
  | prom d =>
    simp only [Body.streams, List.mem_map] at hs
    obtain ⟨x, _, rfl⟩ := hs
    simp only [PromSeries.sub, List.mem_map] at he
    obtain ⟨y, _, rfl⟩ := he
    first | (show Gen.sampleTypeLog ≤ 2; decide) | (show Gen.sampleTypeMetric ≤ 2; decide)
  | influx d =>
    simp only [Body.streams, List.mem_flatMap] at hs
    obtain ⟨p, _, hp⟩ := hs
    unfold InfluxPoint.streams at hp
    split at hp
    · simp only [List.mem_singleton] at hp
      subst hp
      simp only [List.mem_singleton] at he
      subst he
      first | (show Gen.sampleTypeLog ≤ 2; decide) | (show Gen.sampleTypeMetric ≤ 2; decide)
    · simp only [List.mem_filterMap, Option.map_eq_some_iff] at hp
      obtain ⟨f, _, v, _, rfl⟩ := hp
      simp only [List.mem_singleton] at he
      subst he
      first | (show Gen.sampleTypeLog ≤ 2; decide) | (show Gen.sampleTypeMetric ≤ 2; decide)
  | ddLogs d =>
    simp only [Body.streams, List.mem_map] at hs
    obtain ⟨x, _, rfl⟩ := hs
    simp only [DDLog.sub, List.mem_singleton] at he
    subst he
    first | (show Gen.sampleTypeLog ≤ 2; decide) | (show Gen.sampleTypeMetric ≤ 2; decide)
  | ddSeries d =>
    simp only [Body.streams, List.mem_map] at hs
    obtain ⟨x, _, rfl⟩ := hs
    simp only [DDSeriesItem.sub, List.mem_map] at he
    obtain ⟨y, _, rfl⟩ := he
    first | (show Gen.sampleTypeLog ≤ 2; decide) | (show Gen.sampleTypeMetric ≤ 2; decide)
  | otlp d =>
    simp only [Body.streams, otlpStreams, List.mem_flatMap, List.mem_map] at hs
    obtain ⟨r, _, sc, _, rec, _, rfl⟩ := hs
    simp only [List.mem_singleton] at he
    subst he
    first | (show Gen.sampleTypeLog ≤ 2; decide) | (show Gen.sampleTypeMetric ≤ 2; decide)

/-- the calls of a body are well formed and carry exactly its streams' entries -/
theorem Body.calls_spec (env : Env) (fl : Nat → Bool) (now : Int) (b : Body) :
    (∀ c ∈ b.calls fl now, c.WF) ∧
    (b.calls fl now).flatMap (callRows env) = streamsRows env (b.streams now) := by
  have htp := Body.streams_tp now b
  cases b with
  | loki d =>
    have : decodeLoki d = (d.map (fun s => (s.ident, s.sub))).map (fun s => Call.ofEntries s.1 s.2) := by
      simp [decodeLoki]
    simp only [Body.calls, Body.streams, this] at htp ⊢
    exact ⟨ofEntries_calls_WF _ htp, ofEntries_calls_rows env _⟩
  | lokiProto d =>
    have : decodeProto d = (d.map (fun s => (s.ident, s.sub))).map (fun s => Call.ofEntries s.1 s.2) := by
      simp [decodeProto_eq]
    simp only [Body.calls, Body.streams, this] at htp ⊢
    exact ⟨ofEntries_calls_WF _ htp, ofEntries_calls_rows env _⟩
  | prom d =>
    simp only [Body.calls, Body.streams, decodeProm]
    exact ⟨promSeriesList_WF fl d 0, promSeriesList_rows env fl d 0⟩
  | influx d =>
    have : decodeInflux d = (d.flatMap InfluxPoint.streams).map (fun s => Call.ofEntries s.1 s.2) := by
      simp [decodeInflux, List.map_flatMap]
    simp only [Body.calls, Body.streams, this] at htp ⊢
    exact ⟨ofEntries_calls_WF _ htp, ofEntries_calls_rows env _⟩
  | ddLogs d =>
    have : decodeDDLogs now d = (d.map (fun e => (e.ident, e.sub now))).map (fun s => Call.ofEntries s.1 s.2) := by
      simp [decodeDDLogs]
    simp only [Body.calls, Body.streams, this] at htp ⊢
    exact ⟨ofEntries_calls_WF _ htp, ofEntries_calls_rows env _⟩
  | ddSeries d =>
    have : decodeDDSeries d = (d.map (fun s => (s.ident, s.sub))).map (fun s => Call.ofEntries s.1 s.2) := by
      simp [decodeDDSeries_eq]
    simp only [Body.calls, Body.streams, this] at htp ⊢
    exact ⟨ofEntries_calls_WF _ htp, ofEntries_calls_rows env _⟩
  | otlp d =>
    simp only [Body.calls, Body.streams, decodeOtlp] at htp ⊢
    exact ⟨ofEntries_calls_WF _ htp, ofEntries_calls_rows env _⟩

/-- the central statement: for every body, every environment (thresholds, abstract fingerprint), every
    remote-write limit: the parser succeeds and the sample rows of its chunks, concatenated, are the
    entries of the body's streams, each under its own stream's fingerprint -/
theorem Body.run_spec (env : Env) (fl : Nat → Bool) (now : Int) (b : Body) :
    ∃ chunks, b.run env fl now = .ok chunks ∧ (∀ ch ∈ chunks, ChunkOk env ch) ∧
      chunks.flatMap Chunk.rows = streamsRows env (b.streams now) := by
  obtain ⟨hwf, hrows⟩ := Body.calls_spec env fl now b
  obtain ⟨chunks, e, ok, r⟩ := parse_spec env (b.calls fl now) hwf
  exact ⟨chunks, e, ok, by rw [r, hrows]⟩

end Qryn.Ingest
