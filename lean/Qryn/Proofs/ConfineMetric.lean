import Qryn.Proofs.ConfineHoist
import Qryn.LogQL.PlannerMetric
/-! C13 for the LogQL metric planner model (`planMetric`, incl. the metrics_15s shortcut): every plan is
    `confined` to the planner context's window, with slack 0 for the samples scan and < 15 s for the
    metrics_15s scan (whose bounds are the window's ends rounded to the 15 s storage grid). -/
namespace Qryn.Confine
open Qryn Qryn.Sql Qryn.LogQL

/-! ### projections and the builder methods -/
def preOf : Sel → Option Expr
  | .mk _ _ _ _ _ p _ _ _ _ _ => p
def whereOf : Sel → Option Expr
  | .mk _ _ _ _ _ _ w _ _ _ _ => w

@[simp] theorem fromOf_andWhere (s : Sel) (cl : List Expr) : fromOf (s.andWhere cl) = fromOf s := by cases s; rfl
@[simp] theorem preOf_andWhere (s : Sel) (cl : List Expr) : preOf (s.andWhere cl) = preOf s := by cases s; rfl
@[simp] theorem withs_andWhere (s : Sel) (cl : List Expr) : (s.andWhere cl).withs = s.withs := by cases s; rfl
@[simp] theorem fromOf_setWiths (s : Sel) (ws : List (Alias × Sel)) : fromOf (s.setWiths ws) = fromOf s := by cases s; rfl
@[simp] theorem preOf_setWiths (s : Sel) (ws : List (Alias × Sel)) : preOf (s.setWiths ws) = preOf s := by cases s; rfl
@[simp] theorem whereOf_setWiths (s : Sel) (ws : List (Alias × Sel)) : whereOf (s.setWiths ws) = whereOf s := by cases s; rfl
@[simp] theorem withs_setWiths (s : Sel) (ws : List (Alias × Sel)) : (s.setWiths ws).withs = ws := by cases s; rfl
@[simp] theorem fromOf_with_ (s : Sel) (ws : List (Alias × Sel)) : fromOf (s.with_ ws) = fromOf s := by cases s; rfl
@[simp] theorem preOf_with_ (s : Sel) (ws : List (Alias × Sel)) : preOf (s.with_ ws) = preOf s := by cases s; rfl
@[simp] theorem whereOf_with_ (s : Sel) (ws : List (Alias × Sel)) : whereOf (s.with_ ws) = whereOf s := by cases s; rfl
@[simp] theorem withs_setCols (s : Sel) (c : List Expr) : (s.setCols c).withs = s.withs := by cases s; rfl
@[simp] theorem withs_setOrderBy (s : Sel) (c : List Expr) : (s.setOrderBy c).withs = s.withs := by cases s; rfl
@[simp] theorem withs_andHaving (s : Sel) (c : List Expr) : (s.andHaving c).withs = s.withs := by cases s; rfl
@[simp] theorem withs_setLimit (s : Sel) (c : Option Expr) : (s.setLimit c).withs = s.withs := by cases s; rfl
@[simp] theorem withs_addCols (s : Sel) (c : List Expr) : (s.addCols c).withs = s.withs := by cases s; rfl

/-- `bodyConfined` looks at FROM, PREWHERE and WHERE only -/
theorem bodyConfined_congr (cfg : Cfg) (w : Window) (ok : List Alias) (s s' : Sel)
    (hf : fromOf s' = fromOf s) (hp : preOf s' = preOf s) (hw : whereOf s' = whereOf s) :
    bodyConfined cfg w ok s' = bodyConfined cfg w ok s := by
  cases s; cases s'
  simp only [fromOf, preOf, whereOf] at hf hp hw
  subst hf hp hw
  rfl

@[simp] theorem bodyConfined_setWiths (cfg : Cfg) (w : Window) (ok : List Alias) (s : Sel) (ws : List (Alias × Sel)) :
    bodyConfined cfg w ok (s.setWiths ws) = bodyConfined cfg w ok s := by cases s; rfl
@[simp] theorem bodyConfined_with_ (cfg : Cfg) (w : Window) (ok : List Alias) (s : Sel) (ws : List (Alias × Sel)) :
    bodyConfined cfg w ok (s.with_ ws) = bodyConfined cfg w ok s := by cases s; rfl
@[simp] theorem bodyConfined_setCols (cfg : Cfg) (w : Window) (ok : List Alias) (s : Sel) (c : List Expr) :
    bodyConfined cfg w ok (s.setCols c) = bodyConfined cfg w ok s := by cases s; rfl
@[simp] theorem bodyConfined_addCols (cfg : Cfg) (w : Window) (ok : List Alias) (s : Sel) (c : List Expr) :
    bodyConfined cfg w ok (s.addCols c) = bodyConfined cfg w ok s := by cases s; rfl
@[simp] theorem bodyConfined_setOrderBy (cfg : Cfg) (w : Window) (ok : List Alias) (s : Sel) (c : List Expr) :
    bodyConfined cfg w ok (s.setOrderBy c) = bodyConfined cfg w ok s := by cases s; rfl
@[simp] theorem bodyConfined_setLimit (cfg : Cfg) (w : Window) (ok : List Alias) (s : Sel) (c : Option Expr) :
    bodyConfined cfg w ok (s.setLimit c) = bodyConfined cfg w ok s := by cases s; rfl
@[simp] theorem bodyConfined_andHaving (cfg : Cfg) (w : Window) (ok : List Alias) (s : Sel) (c : List Expr) :
    bodyConfined cfg w ok (s.andHaving c) = bodyConfined cfg w ok s := by cases s; rfl

@[simp] theorem isIndexSelection_setWiths (cfg : Cfg) (s : Sel) (ws : List (Alias × Sel)) :
    isIndexSelection cfg (s.setWiths ws) = isIndexSelection cfg s := by cases s; rfl

/-- a select that does not read a base table is confined whatever is known -/
theorem bodyConfined_noTable (cfg : Cfg) (w : Window) (ok : List Alias) (s : Sel) (h : fromTable (fromOf s) = none) :
    bodyConfined cfg w ok s = true := by
  cases s; simp only [fromOf] at h; simp [bodyConfined, h]

/-- a scan of a data table whose conditions hold the two timestamp bounds and the type filter -/
theorem bodyConfined_data (cfg : Cfg) (w : Window) (ok : List Alias) (s : Sel) (t : String)
    (hf : fromTable (fromOf s) = some t) (hk : cfg.kind t = .data)
    (hl : (conjuncts (preOf s) ++ conjuncts (whereOf s)).any (isLowerTs w) = true)
    (hu : (conjuncts (preOf s) ++ conjuncts (whereOf s)).any (isUpperTs w) = true)
    (ht : (conjuncts (preOf s) ++ conjuncts (whereOf s)).any (isTypeFilter w) = true) :
    bodyConfined cfg w ok s = true := by
  cases s
  simp only [fromOf, preOf, whereOf] at hf hl hu ht
  simp [bodyConfined, hf, hk, hl, hu, ht]

/-! ### widening the slack -/
def widen (w : Window) (k : Int) : Window := { w with slackNs := w.slackNs + k }

@[simp] theorem widen_from (w : Window) (k : Int) : (widen w k).fromNs = w.fromNs := rfl
@[simp] theorem widen_to (w : Window) (k : Int) : (widen w k).toNs = w.toNs := rfl
@[simp] theorem widen_slack (w : Window) (k : Int) : (widen w k).slackNs = w.slackNs + k := rfl
@[simp] theorem widen_need (w : Window) (k : Int) : (widen w k).needType = w.needType := rfl
@[simp] theorem widen_tp (w : Window) (k : Int) : (widen w k).tp = w.tp := rfl

theorem isLowerTs_widen (w : Window) (k : Int) (hk : 0 ≤ k) (e : Expr) (h : isLowerTs w e = true) :
    isLowerTs (widen w k) e = true := by
  unfold isLowerTs at h ⊢
  split
  · simp only [Bool.and_eq_true, decide_eq_true_eq, widen_from, widen_slack] at h ⊢
    obtain ⟨h1, h2⟩ := h
    exact ⟨h1, by apply decide_eq_true; omega⟩
  · simp only [Bool.and_eq_true, decide_eq_true_eq, widen_from, widen_slack] at h ⊢
    obtain ⟨h1, h2⟩ := h
    exact ⟨h1, by apply decide_eq_true; omega⟩
  · simp_all

theorem isUpperTs_widen (w : Window) (k : Int) (hk : 0 ≤ k) (e : Expr) (h : isUpperTs w e = true) :
    isUpperTs (widen w k) e = true := by
  unfold isUpperTs at h ⊢
  split
  · simp only [Bool.and_eq_true, decide_eq_true_eq, widen_to, widen_slack] at h ⊢
    obtain ⟨h1, h2⟩ := h
    exact ⟨h1, by apply decide_eq_true; omega⟩
  · simp only [Bool.and_eq_true, decide_eq_true_eq, widen_to, widen_slack] at h ⊢
    obtain ⟨h1, h2⟩ := h
    exact ⟨h1, by apply decide_eq_true; omega⟩
  · simp_all

theorem isTypeFilter_widen (w : Window) (k : Int) (e : Expr) : isTypeFilter (widen w k) e = isTypeFilter w e := rfl

/-- a scan confined with some slack is confined with more -/
theorem bodyConfined_widen (cfg : Cfg) (w : Window) (k : Int) (hk : 0 ≤ k) (ok : List Alias) (s : Sel)
    (hs : bodyConfined cfg w ok s = true) : bodyConfined cfg (widen w k) ok s = true := by
  cases s with
  | mk ws d c f j p wh g hv ob l =>
    simp only [bodyConfined] at hs ⊢
    cases hf : fromTable f with
    | none => simp
    | some t =>
      simp only [hf] at hs ⊢
      have e1 : isTypeFilter (widen w k) = isTypeFilter w := rfl
      rw [e1, widen_need]
      cases hkd : cfg.kind t with
      | other => simp
      | data =>
        simp only [hkd, Bool.or_eq_true, Bool.and_eq_true] at hs ⊢
        rcases hs with hs | hs
        · exact Or.inl ⟨⟨any_imp _ _ _ (isLowerTs_widen w k hk) hs.1.1, any_imp _ _ _ (isUpperTs_widen w k hk) hs.1.2⟩, hs.2⟩
        · exact Or.inr hs
      | index =>
        simp only [hkd] at hs ⊢
        exact hs

/-! ### the fingerprint chain -/
def isSubAlias : Alias → Bool
  | .sub _ => true
  | .named _ => false

/-- the invariant of `ConfineHoist` for statements without set operations; only `subsel_<k>` aliases are relied on -/
abbrev IM (cfg : Cfg) (w : Window) := Inv (BC cfg w) (YC cfg) isSubAlias

/-- the window of a planner context with slack `k` -/
def winK (c : Ctx) (k : Int) : Window := widen (winOf c) k

theorem streamSelect_confinedK (cfg : Cfg) (c : Ctx) (h : LokiCfg cfg c) (k : Int) (hk : 0 ≤ k) (ok : List Alias) (ms : List Matcher) :
    bodyConfined cfg (winK c k) ok (streamSelect c ms) = true :=
  bodyConfined_widen cfg _ k hk ok _ (streamSelect_confined cfg c h ok ms).1

theorem fpChain_inv (cfg : Cfg) (c : Ctx) (h : LokiCfg cfg c) (k : Int) (hk : 0 ≤ k) (conds : List LabelCond) :
    ∀ (cur : Sel) (n : Nat) (seen : List Alias),
      bodyConfined cfg (winK c k) seen cur = true → isIndexSelection cfg cur = true →
      IM cfg (winK c k) seen (fpChain c cur n conds) := by
  induction conds with
  | nil =>
    intro cur n seen hb _
    exact ⟨hb, ⟨(by intro hg; cases hg), trivial⟩⟩
  | cons lc conds ih =>
    intro cur n seen hb hi
    refine ⟨hb, ⟨fun _ => by simp [YC, yieldC, hi], ?_⟩⟩
    have := labelFilter_confined cfg c h (Alias.sub (n + 1) :: seen) (n + 1) lc (by simp)
    exact ih _ _ _ (bodyConfined_widen cfg _ k hk _ _ this.1) this.2

/-- the chain without its last entry, and the select of its last entry (`fp_sel`) -/
def chainInit (c : Ctx) (cur : Sel) (k : Nat) : List LabelCond → List (Alias × Sel)
  | [] => []
  | lc :: rest => (.sub (k + 1), cur) :: chainInit c (labelFilterBody c (k + 1) lc) (k + 1) rest
def chainLast (c : Ctx) (cur : Sel) (k : Nat) : List LabelCond → Sel
  | [] => cur
  | lc :: rest => chainLast c (labelFilterBody c (k + 1) lc) (k + 1) rest

theorem fpChain_split (c : Ctx) (conds : List LabelCond) : ∀ (cur : Sel) (k : Nat),
    fpChain c cur k conds = chainInit c cur k conds ++ [(.named "fp_sel", chainLast c cur k conds)] := by
  induction conds with
  | nil => intro cur k; rfl
  | cons lc rest ih => intro cur k; simp [fpChain, chainInit, chainLast, ih]

theorem fpQuery_eq (c : Ctx) (q : LogQuery) :
    fpQuery c q = (chainLast c (streamSelect c q.matchers) 0 (labelConds q)).setWiths
      (chainInit c (streamSelect c q.matchers) 0 (labelConds q)) := by
  unfold fpQuery
  simp only [fpChain_split, List.getLast?_concat, List.dropLast_concat]

/-- the fingerprint sub-query, as the entry `fp_sel` after its own WITH list, satisfies the invariant -/
theorem fpWith_inv (cfg : Cfg) (c : Ctx) (h : LokiCfg cfg c) (k : Int) (hk : 0 ≤ k) (q : LogQuery) :
    IM cfg (winK c k) [] ((fpWith c q).2.withs ++ [fpWith c q]) := by
  have hch := fpChain_inv cfg c h k hk (labelConds q) (streamSelect c q.matchers) 0 []
    (streamSelect_confinedK cfg c h k hk [] q.matchers) (streamSelect_confined cfg c h [] q.matchers).2
  unfold IM at hch ⊢
  rw [fpChain_split, Inv_append] at hch
  simp only [fpWith, fpQuery_eq, withs_setWiths]
  rw [Inv_append]
  refine ⟨hch.1, ?_⟩
  obtain ⟨h1, _, _⟩ := hch.2
  exact ⟨by simpa [BC] using h1, ⟨(by intro hg; cases hg), trivial⟩⟩

/-! ### selects that are confined whatever is known -/

/-- the statement as a WITH entry of a planner-chosen name: its own WITH list satisfies the invariant and its
    body is confined under every set of known selections -/
structure GoodM (cfg : Cfg) (w : Window) (s : Sel) : Prop where
  withs : IM cfg w [] s.withs
  body : ∀ ok, bodyConfined cfg w ok s = true

theorem GoodM.entry {cfg : Cfg} {w : Window} {s : Sel} (g : GoodM cfg w s) (n : String) :
    IM cfg w [] (s.withs ++ [(.named n, s)]) := by
  unfold IM
  rw [Inv_append]
  exact ⟨g.withs, ⟨g.body _, ⟨(by intro hg; cases hg), trivial⟩⟩⟩

/-- `X.With(entries…)` for a body `X` confined on its own -/
theorem GoodM.with_ {cfg : Cfg} {w : Window} (x : Sel) (hx : ∀ ok, bodyConfined cfg w ok x = true)
    (ws : List (Alias × Sel)) (hall : ∀ e ∈ ws, IM cfg w [] (e.2.withs ++ [e])) : GoodM cfg w (x.with_ ws) :=
  ⟨with_inv _ _ _ (bodyConfined_Mono cfg w) (yieldC_Mono cfg) x ws hall, by simpa using hx⟩

theorem GoodM.setCols {cfg : Cfg} {w : Window} {s : Sel} (g : GoodM cfg w s) (c : List Expr) : GoodM cfg w (s.setCols c) :=
  ⟨by simpa using g.withs, by simpa using g.body⟩
theorem GoodM.setOrderBy {cfg : Cfg} {w : Window} {s : Sel} (g : GoodM cfg w s) (c : List Expr) : GoodM cfg w (s.setOrderBy c) :=
  ⟨by simpa using g.withs, by simpa using g.body⟩
theorem GoodM.andHaving {cfg : Cfg} {w : Window} {s : Sel} (g : GoodM cfg w s) (c : List Expr) : GoodM cfg w (s.andHaving c) :=
  ⟨by simpa using g.withs, by simpa using g.body⟩

/-- the planner context's tables, incl. the 15 s rollup -/
structure MetricCfg (cfg : Cfg) (c : MCtx) : Prop extends LokiCfg cfg c.toCtx where
  m15 : cfg.kind c.metrics15Table = .data

theorem timeSeriesSel_body (cfg : Cfg) (c : Ctx) (h : LokiCfg cfg c) (k : Int) (hk : 0 ≤ k) (ok : List Alias) :
    bodyConfined cfg (winK c k) ok (timeSeriesSel c) = true := by
  apply bodyConfined_widen cfg _ k hk
  have hpre : conjuncts (some (and_ [ge (.raw "time_series.date") (.str (Time.formatFromDate c.fromNs)), getTypes c,
        .isIn (.raw "time_series.fingerprint") [.withRef (.named "fp_sel")]])) =
      [ge (.raw "time_series.date") (.str (Time.formatFromDate c.fromNs)), getTypes c,
        .isIn (.raw "time_series.fingerprint") [.withRef (.named "fp_sel")]] :=
    conjuncts_and_flat _ (by
      intro e he
      simp only [List.mem_cons, List.not_mem_nil, or_false] at he
      rcases he with rfl | rfl | rfl
      · exact splice_logical _ _ (by decide)
      · rfl
      · rfl)
  have h3 : isTypeFilter (winOf c) ((Expr.raw "type").isIn [Expr.int (if c.tp = 0 then 1 else ↑c.tp), Expr.int 0]) = true :=
    getTypes_isTypeFilter c
  simp only [timeSeriesSel, bodyConfined, fromTable, h.tsDist, hpre, conjuncts_none, List.append_nil]
  simp only [Bool.and_eq_true, Bool.or_eq_true]
  refine ⟨?_, Or.inl ⟨?_, Or.inr ?_⟩⟩
  · have h2 := lowerDate_ok c
    simp [List.all, dateLower, dateUpper, mentionsDate, isDateCol, ge, h2, getTypes]
  · simp [List.any, dateLower, isDateCol, ge]
  · simp [List.any, h3, getTypes]

theorem timeSeriesSel_good (cfg : Cfg) (c : Ctx) (h : LokiCfg cfg c) (k : Int) (hk : 0 ≤ k) :
    GoodM cfg (winK c k) (timeSeriesSel c) :=
  ⟨trivial, timeSeriesSel_body cfg c h k hk⟩


/-! ### rounding to a grid with Go's truncating division -/
theorem tdiv_grid (a d : Int) (hd : 0 < d) :
    a - d < a.tdiv d * d ∧ a.tdiv d * d < a + d ∧ (0 ≤ a → a.tdiv d * d ≤ a) := by
  have h := Int.mul_tdiv_add_tmod a d
  rw [Int.mul_comm] at h
  have h1 := Int.tmod_lt_of_pos a hd
  have h3 : 0 ≤ a → 0 ≤ a.tmod d := Int.tmod_nonneg d
  have h2 : -d < a.tmod d := by
    by_cases ha : 0 ≤ a
    · have := h3 ha; omega
    · have e : a.tmod d = -((-a).tmod d) := by rw [Int.neg_tmod]; omega
      have := Int.tmod_lt_of_pos (-a) hd
      omega
  refine ⟨by omega, by omega, fun ha => by have := h3 ha; omega⟩

/-! ### the samples side -/
theorem foldl_andWhere (g : LineFilter → Expr) (fs : List LineFilter) : ∀ (s : Sel),
    fromOf (fs.foldl (fun s f => s.andWhere [g f]) s) = fromOf s ∧
    preOf (fs.foldl (fun s f => s.andWhere [g f]) s) = preOf s ∧
    (fs.foldl (fun s f => s.andWhere [g f]) s).withs = s.withs := by
  induction fs with
  | nil => intro s; exact ⟨rfl, rfl, rfl⟩
  | cons f rest ih =>
    intro s
    obtain ⟨a, b, c⟩ := ih (s.andWhere [g f])
    simp only [List.foldl_cons]
    exact ⟨by simpa using a, by simpa using b, by simpa using c⟩

theorem samplesPre (c : Ctx) :
    conjuncts (some (and_ [ge (.raw "samples.timestamp_ns") (.int c.fromNs), lt (.raw "samples.timestamp_ns") (.int c.toNs), getTypes c])) =
      [ge (.raw "samples.timestamp_ns") (.int c.fromNs), lt (.raw "samples.timestamp_ns") (.int c.toNs), getTypes c] :=
  conjuncts_and_flat _ (by
    intro e he
    simp only [List.mem_cons, List.not_mem_nil, or_false] at he
    rcases he with rfl | rfl | rfl
    · exact splice_logical _ _ (by decide)
    · exact splice_logical _ _ (by decide)
    · rfl)

theorem typeFilterK (c : Ctx) (k : Int) : isTypeFilter (winK c k) (getTypes c) = true := getTypes_isTypeFilter c

/-- `planSpl` for a selector of the fragment: the samples scan with the exact window and the type filter in PREWHERE -/
theorem samplesMain_good (cfg : Cfg) (c : Ctx) (h : LokiCfg cfg c) (k : Int) (hk : 0 ≤ k) (q : LogQuery) :
    GoodM cfg (winK c k) (samplesMain c q) := by
  obtain ⟨e1, e2, e3⟩ := foldl_andWhere lineClause (lineFilters q) (fingerprintFilter c q (samplesInit c))
  constructor
  · unfold samplesMain
    rw [e3]
    simp only [fingerprintFilter, withs_andWhere]
    exact with_inv _ _ _ (bodyConfined_Mono cfg _) (yieldC_Mono cfg) _ _ (by
      intro e he
      simp only [List.mem_singleton] at he
      subst he
      exact fpWith_inv cfg c h k hk q)
  · intro ok
    apply bodyConfined_data cfg _ ok _ c.samplesTable
    · unfold samplesMain; rw [e1]; rfl
    · exact h.samples
    · unfold samplesMain; rw [e2]
      apply List.any_eq_true.mpr
      refine ⟨ge (.raw "samples.timestamp_ns") (.int c.fromNs), ?_, ?_⟩
      · simp only [fingerprintFilter, preOf_andWhere, preOf_with_]
        show _ ∈ conjuncts (some _) ++ _
        rw [samplesInit]
        simp only [preOf, samplesPre]; simp
      · exact isLowerTs_widen (winOf c) k hk _ (by simp [isLowerTs, ge, isTsCol, winOf])
    · unfold samplesMain; rw [e2]
      apply List.any_eq_true.mpr
      refine ⟨lt (.raw "samples.timestamp_ns") (.int c.toNs), ?_, ?_⟩
      · simp only [fingerprintFilter, preOf_andWhere, preOf_with_]
        rw [samplesInit]
        simp only [preOf, samplesPre]; simp
      · exact isUpperTs_widen (winOf c) k hk _ (by simp [isUpperTs, lt, isTsCol, winOf])
    · unfold samplesMain; rw [e2]
      apply List.any_eq_true.mpr
      refine ⟨getTypes c, ?_, typeFilterK c k⟩
      simp only [fingerprintFilter, preOf_andWhere, preOf_with_]
      rw [samplesInit]
      simp only [preOf, samplesPre]; simp


@[simp] theorem whereOf_andWhere (s : Sel) (cl : List Expr) : whereOf (s.andWhere cl) = some (andCond (whereOf s) cl) := by
  cases s; rfl

theorem slot15_val : ((slot15 : Nat) : Int) = 15000000000 := by decide

/-- the metrics_15s scan: both ends of the window rounded to the 15 s grid, the type filter, in WHERE -/
theorem metrics15_good (cfg : Cfg) (c : MCtx) (h : MetricCfg cfg c) (k : Int) (hk : 14999999999 ≤ k) (q : LogQuery)
    (fn : RangeFn) (d : Nat) : GoodM cfg (winK c.toCtx k) (fingerprintFilter c.toCtx q (metrics15Sel c fn d)) := by
  have hk0 : 0 ≤ k := by omega
  have hw : conjuncts (whereOf (fingerprintFilter c.toCtx q (metrics15Sel c fn d))) =
      [ge (.raw "samples.timestamp_ns") (.int (Int.tdiv c.fromNs slot15 * slot15)),
       lt (.raw "samples.timestamp_ns") (.int (Int.tdiv c.toNs slot15 * slot15)), getTypes c.toCtx,
       .isIn (.raw "samples.fingerprint") [.withRef (.named "fp_sel")]] := by
    have e : whereOf (fingerprintFilter c.toCtx q (metrics15Sel c fn d)) = some (and_
        [ge (.raw "samples.timestamp_ns") (.int (Int.tdiv c.fromNs slot15 * slot15)),
         lt (.raw "samples.timestamp_ns") (.int (Int.tdiv c.toNs slot15 * slot15)), getTypes c.toCtx,
         .isIn (.raw "samples.fingerprint") [.withRef (.named "fp_sel")]]) := by
      simp only [fingerprintFilter, whereOf_andWhere, whereOf_with_]
      simp [metrics15Sel, whereOf, andCond, and_]
    rw [e]
    exact conjuncts_and_flat
      [ge (.raw "samples.timestamp_ns") (.int (Int.tdiv c.fromNs slot15 * slot15)),
       lt (.raw "samples.timestamp_ns") (.int (Int.tdiv c.toNs slot15 * slot15)), getTypes c.toCtx,
       .isIn (.raw "samples.fingerprint") [.withRef (.named "fp_sel")]] (by
      intro e he
      simp only [List.mem_cons, List.not_mem_nil, or_false] at he
      rcases he with rfl | rfl | rfl | rfl
      · exact splice_logical _ _ (by decide)
      · exact splice_logical _ _ (by decide)
      · rfl
      · rfl)
  have hp : preOf (fingerprintFilter c.toCtx q (metrics15Sel c fn d)) = none := by
    simp only [fingerprintFilter, preOf_andWhere, preOf_with_]; rfl
  constructor
  · simp only [fingerprintFilter, withs_andWhere]
    exact with_inv _ _ _ (bodyConfined_Mono cfg _) (yieldC_Mono cfg) _ _ (by
      intro e he
      simp only [List.mem_singleton] at he
      subst he
      exact fpWith_inv cfg c.toCtx h.toLokiCfg k hk0 q)
  · intro ok
    obtain ⟨gf1, gf2, _⟩ := tdiv_grid c.fromNs 15000000000 (by decide)
    obtain ⟨gt1, gt2, _⟩ := tdiv_grid c.toNs 15000000000 (by decide)
    apply bodyConfined_data cfg _ ok _ c.metrics15Table
    · simp only [fingerprintFilter, fromOf_andWhere, fromOf_with_]; rfl
    · exact h.m15
    · rw [hp, hw]
      simp only [conjuncts_none, List.nil_append, List.any_cons, Bool.or_eq_true]
      left
      simp only [isLowerTs, ge, isTsCol, winK, widen_from, widen_slack, Bool.and_eq_true, decide_eq_true_eq, slot15_val]
      exact ⟨by decide, by simp only [winOf]; apply decide_eq_true; omega⟩
    · rw [hp, hw]
      simp only [conjuncts_none, List.nil_append, List.any_cons, Bool.or_eq_true]
      right; left
      simp only [isUpperTs, lt, isTsCol, winK, widen_to, widen_slack, Bool.and_eq_true, decide_eq_true_eq, slot15_val]
      exact ⟨by decide, by simp only [winOf]; apply decide_eq_true; omega⟩
    · rw [hp, hw]
      simp only [conjuncts_none, List.nil_append, List.any_cons, Bool.or_eq_true]
      right; right; left
      exact typeFilterK c.toCtx k

/-! ### the matrix functions -/
section Steps
variable {cfg : Cfg} {w : Window}

theorem noTable_body (x : Sel) (hx : fromTable (fromOf x) = none) : ∀ ok, bodyConfined cfg w ok x = true :=
  fun ok => bodyConfined_noTable cfg w ok x hx

theorem lraSel_good (fn : RangeFn) (d : Nat) (wl : Bool) {main : Sel} (g : GoodM cfg w main) : GoodM cfg w (lraSel fn d wl main) := by
  unfold lraSel
  exact GoodM.with_ _ (noTable_body _ rfl) _ (by
    intro e he; simp only [List.mem_singleton] at he; subst he
    exact (g.setCols _).entry "agg_a")

theorem unwrapFnSel_good (fn : UnwrapFn) (d : Nat) {main : Sel} (g : GoodM cfg w main) : GoodM cfg w (unwrapFnSel fn d main) := by
  unfold unwrapFnSel
  exact GoodM.with_ _ (noTable_body _ rfl) _ (by
    intro e he; simp only [List.mem_singleton] at he; subst he
    exact g.entry "unwrap_1")

theorem aggSel_good (fn : AggFn) (wl : Bool) {main : Sel} (g : GoodM cfg w main) : GoodM cfg w (aggSel fn wl main) := by
  unfold aggSel
  exact GoodM.with_ _ (noTable_body _ rfl) _ (by
    intro e he; simp only [List.mem_singleton] at he; subst he
    exact g.entry "lra_main")

theorem topkSel_good (isTop : Bool) (k : Nat) {main : Sel} (g : GoodM cfg w main) : GoodM cfg w (topkSel isTop k main) := by
  unfold topkSel
  have gb : GoodM cfg w ((Sel.mk [] false
      [simpleCol "par_a.timestamp_ns" "timestamp_ns", .col (.topkSlice isTop (hasColumn main.cols "labels") k) "slice"]
      (some (.withRef (.named "par_a"))) [] none none [.raw "timestamp_ns"] none [] none).with_ [(.named "par_a", main)]) :=
    GoodM.with_ _ (noTable_body _ rfl) _ (by
      intro e he; simp only [List.mem_singleton] at he; subst he
      exact g.entry "par_a")
  exact GoodM.with_ _ (noTable_body _ rfl) _ (by
    intro e he; simp only [List.mem_singleton] at he; subst he
    exact gb.entry "par_b")

theorem comparisonSel_good (cm : Comparison) {main : Sel} (g : GoodM cfg w main) : GoodM cfg w (comparisonSel cm main) :=
  g.andHaving _

theorem finalizeMatrix_good {req : Sel} (g : GoodM cfg w req) : GoodM cfg w (finalizeMatrix req) := by
  unfold finalizeMatrix
  exact GoodM.with_ _ (noTable_body _ rfl) _ (by
    intro e he; simp only [List.mem_singleton] at he; subst he
    exact g.entry "prefinal")

theorem byWithoutSimple_good (id : Nat) (gr : Grouping) {main : Sel} (g : GoodM cfg w main) : GoodM cfg w (byWithoutSimple id gr main) := by
  unfold byWithoutSimple
  exact GoodM.with_ _ (noTable_body _ rfl) _ (by
    intro e he; simp only [List.mem_singleton] at he; subst he
    exact g.entry _)

end Steps

section StepsC
variable {cfg : Cfg} {c : MCtx} (h : MetricCfg cfg c) {k : Int} (hk : 0 ≤ k)
include h hk

theorem stepFixSel_good (d : Nat) {main : Sel} (g : GoodM cfg (winK c.toCtx k) main) : GoodM cfg (winK c.toCtx k) (stepFixSel c d main) := by
  unfold stepFixSel
  split
  · exact g
  · exact GoodM.with_ _ (noTable_body _ rfl) _ (by
      intro e he; simp only [List.mem_singleton] at he; subst he
      exact g.entry "pre_step_fix")

theorem byWithoutTS_good (id : Nat) (gr : Grouping) {main : Sel} (g : GoodM cfg (winK c.toCtx k) main) :
    GoodM cfg (winK c.toCtx k) (byWithoutTS c.toCtx id gr main) := by
  unfold byWithoutTS
  exact GoodM.with_ _ (noTable_body _ rfl) _ (by
    intro e he
    simp only [List.mem_cons, List.not_mem_nil, or_false] at he
    rcases he with rfl | rfl
    · exact g.entry _
    · exact ((timeSeriesSel_good cfg c.toCtx h.toLokiCfg k hk).setCols _).entry _)

theorem planByWithout_good (useTS : Bool) (gr : Option Grouping) {s : PState} (g : GoodM cfg (winK c.toCtx k) s.sel) :
    GoodM cfg (winK c.toCtx k) (planByWithout c.toCtx useTS gr s).sel := by
  unfold planByWithout
  cases gr with
  | none => exact g
  | some gr =>
    cases useTS
    · exact byWithoutSimple_good _ _ g
    · exact byWithoutTS_good h hk _ _ g

theorem labelsJoin_good (q : LogQuery) {main : Sel} (g : GoodM cfg (winK c.toCtx k) main) :
    GoodM cfg (winK c.toCtx k) (labelsJoin c.toCtx q main) := by
  unfold labelsJoin
  exact GoodM.with_ _ (noTable_body _ rfl) _ (by
    intro e he
    simp only [List.mem_cons, List.not_mem_nil, or_false] at he
    rcases he with rfl | rfl
    · exact g.entry _
    · have gts : GoodM cfg (winK c.toCtx k) ((timeSeriesSel c.toCtx).with_ [fpWith c.toCtx q]) :=
        GoodM.with_ _ (timeSeriesSel_body cfg c.toCtx h.toLokiCfg k hk) _ (by
          intro e he; simp only [List.mem_singleton] at he; subst he
          exact fpWith_inv cfg c.toCtx h.toLokiCfg k hk q)
      exact gts.entry _)

theorem splSel_good (q : MetricQuery) : GoodM cfg (winK c.toCtx k) (splSel c q) := by
  unfold splSel
  dsimp only
  split
  · exact samplesMain_good cfg c.toCtx h.toLokiCfg k hk _
  · unfold unwrapSel
    exact (labelsJoin_good h hk _ ((samplesMain_good cfg c.toCtx h.toLokiCfg k hk _).setOrderBy _)).setCols _

/-- one matrix function keeps the invariant; the metrics_15s scan needs slack 15 s − 1 ns -/
theorem applyStep_good (q : MetricQuery) (st : Step) (hst : (∃ fn d, st = .shortcut fn d) → 14999999999 ≤ k)
    {s : PState} (g : GoodM cfg (winK c.toCtx k) s.sel) : GoodM cfg (winK c.toCtx k) (applyStep c q s st).sel := by
  cases st with
  | lra fn d => exact lraSel_good fn d _ g
  | shortcut fn d => exact metrics15_good cfg c h k (hst ⟨fn, d, rfl⟩) _ fn d
  | unwrapFn fn d gr => exact unwrapFnSel_good fn d (planByWithout_good h hk _ gr g)
  | agg fn gr => exact aggSel_good fn _ (planByWithout_good h hk _ gr g)
  | topk isTop n => exact topkSel_good isTop n g
  | cmp cm => exact comparisonSel_good cm g

theorem foldl_applyStep_good (q : MetricQuery) (steps : List Step)
    (hst : (∃ fn d, Step.shortcut fn d ∈ steps) → 14999999999 ≤ k) :
    ∀ {s : PState}, GoodM cfg (winK c.toCtx k) s.sel → GoodM cfg (winK c.toCtx k) (steps.foldl (applyStep c q) s).sel := by
  induction steps with
  | nil => intro s g; exact g
  | cons st rest ih =>
    intro s g
    simp only [List.foldl_cons]
    apply ih (fun ⟨fn, d, hm⟩ => hst ⟨fn, d, List.mem_cons_of_mem _ hm⟩)
    exact applyStep_good h hk q st (fun ⟨fn, d, he⟩ => hst ⟨fn, d, by simp [he]⟩) g

/-- every plan of the metric planner model keeps the invariant -/
theorem planMetric_good (q : MetricQuery) (hst : (∃ fn d, Step.shortcut fn d ∈ planSteps q) → 14999999999 ≤ k) :
    GoodM cfg (winK c.toCtx k) (planMetric c q) := by
  unfold planMetric
  apply finalizeMatrix_good
  have g1 := foldl_applyStep_good h hk q (planSteps q) hst (s := ⟨splSel c q, (labelConds q.rangeAgg.sel).length⟩) (splSel_good h hk q)
  have g2 := stepFixSel_good h hk q.rangeAgg.durNs g1
  split
  · exact g2
  · exact labelsJoin_good h hk _ g2

end StepsC

/-! ### when the metrics_15s scan is planned -/
theorem no_shortcut_cmpStep (fn : RangeFn) (d : Nat) (cm : Option Comparison) : Step.shortcut fn d ∉ cmpStep cm := by
  cases cm <;> simp [cmpStep]

theorem no_shortcut_orderRange (fn : RangeFn) (d : Nat) (r : RangeAgg) : Step.shortcut fn d ∉ orderRange r := by
  unfold orderRange
  intro hm
  rcases List.mem_append.mp hm with hm | hm
  · cases hk : r.kind <;> simp [hk] at hm
  · exact no_shortcut_cmpStep fn d _ hm

theorem no_shortcut_orderAgg (fn : RangeFn) (d : Nat) (a : VecAgg) : Step.shortcut fn d ∉ orderAgg a := by
  unfold orderAgg
  intro hm
  rcases List.mem_append.mp hm with hm | hm
  · rcases List.mem_append.mp hm with hm | hm
    · exact no_shortcut_orderRange fn d _ hm
    · simp at hm
  · exact no_shortcut_cmpStep fn d _ hm

theorem no_shortcut_functionOrder (fn : RangeFn) (d : Nat) (q : MetricQuery) : Step.shortcut fn d ∉ functionOrder q := by
  cases q with
  | range r => exact no_shortcut_orderRange fn d r
  | agg a => exact no_shortcut_orderAgg fn d a
  | topk t =>
    unfold functionOrder
    intro hm
    rcases List.mem_append.mp hm with hm | hm
    · rcases List.mem_append.mp hm with hm | hm
      · cases hi : t.inner with
        | range r => rw [hi] at hm; exact no_shortcut_orderRange fn d r hm
        | agg a => rw [hi] at hm; exact no_shortcut_orderAgg fn d a hm
      · simp at hm
    · exact no_shortcut_cmpStep fn d _ hm

/-- the slack a metric plan needs: none, unless the metrics_15s shortcut is taken (then 15 s − 1 ns) -/
def metricSlack (q : MetricQuery) : Int := if takesShortcut q then 14999999999 else 0

/-- the window of the planner context for a metric query -/
def winMetric (c : MCtx) (q : MetricQuery) : Window := winK c.toCtx (metricSlack q)

theorem planMetric_confined (cfg : Cfg) (c : MCtx) (h : MetricCfg cfg c) (q : MetricQuery) :
    confined cfg (winMetric c q) (planMetric c q) = true := by
  have hk : 0 ≤ metricSlack q := by unfold metricSlack; split <;> decide
  have g := planMetric_good h hk q (by
    rintro ⟨fn, d, hm⟩
    unfold metricSlack
    by_cases hs : takesShortcut q = true
    · simp [hs]
    · exfalso
      simp only [planSteps, hs, if_false, Bool.false_eq_true] at hm
      exact no_shortcut_functionOrder fn d q hm)
  exact confined_of_inv cfg _ isSubAlias _ (.named "statement") (g.entry "statement")

end Qryn.Confine
