import Qryn.ReadSide.StageDiscipline
import Qryn.ReadSide.StageExec
import Qryn.Proofs.ReadPipeH
import Qryn.Proofs.ReadPipeHExec
/-! Lemmas for `StageDiscipline.lean`: the invariant at the start of a request over stage codes that keep their input
    consumed; the `Undrained` invariant (counter-pattern). -/
namespace Qryn.ReadSide.Pipe

theorem start_inv_of (n : Nat) (hn : 0 < n) (rows : List Item) (flush : Nat → List Item) (d : Nat → Bool)
    (hd : ∀ i, i < n → d i = true) : Inv (start n rows flush d) := by
  refine ⟨hn, ?_, ?_, ?_, ?_, ?_, ?_⟩ <;> simp [start]
  exact hd

theorem hstart_inv_of (n : Nat) (hn : 0 < n) (rows : List Item) (flush : Nat → List Item) (d : Nat → Bool)
    (hd : ∀ i, i < n → d i = true) (c : OnStop) (sel : Bool) : HInv (hstart n rows flush d c sel) :=
  ⟨start_inv_of n hn rows flush d hd, fun h => by simp [hstart] at h⟩

theorem drainsOf_true (cs : List StageCode) (h : ∀ c ∈ cs, c.keepsConsumed = true) :
    ∀ i, i < cs.length → drainsOf cs i = true := by
  intro i hi
  unfold drainsOf
  have : cs.getD i default = cs[i] := by simp [List.getD, List.getElem?_eq_getElem hi]
  rw [this]
  exact h _ (List.getElem_mem hi)

/-- every regenerated live stage keeps its input consumed (kernel evaluation over `Gen.StageDrains`) -/
theorem live_stages_keep_consumed : ∀ c ∈ liveStages, c.keepsConsumed = true := by decide +kernel

theorem startC_inv (cs : List StageCode) (hn : 0 < cs.length) (h : ∀ c ∈ cs, c ∈ liveStages)
    (rows : List Item) (flush : Nat → List Item) : Inv (startC cs rows flush) :=
  start_inv_of _ hn rows flush _ (drainsOf_true cs (fun c hc => live_stages_keep_consumed c (h c hc)))

theorem hstartC_inv (cs : List StageCode) (hn : 0 < cs.length) (h : ∀ c ∈ cs, c ∈ liveStages)
    (rows : List Item) (flush : Nat → List Item) (c : OnStop) (sel : Bool) : HInv (hstartC cs rows flush c sel) :=
  hstart_inv_of _ hn rows flush _ (drainsOf_true cs (fun c hc => live_stages_keep_consumed c (h c hc))) c sel

/-- a pipeline move keeps "stage 0 stopped without a drainer, source not empty" -/
theorem step_keeps_undrained {S T : Sys} (h : Step S T) (hp : S.src ≠ []) (hs : (S.stg 0).stopped = true)
    (hc : (S.stg 0).drains = false) :
    T.n = S.n ∧ T.src ≠ [] ∧ (T.stg 0).stopped = true ∧ (T.stg 0).drains = false := by
  have hnr : ¬ (S.stg 0).ready := by
    intro hr
    rcases hr.2.2 with h1 | h1
    · rw [hs] at h1; cases h1
    · rw [hc] at h1; cases h1
  cases h with
  | srcSend it rest hsrc hn hr => exact absurd hr hnr
  | cancel k hk =>
    refine ⟨rfl, ?_, hs, hc⟩
    intro he
    have hl : (S.src.take k ++ S.src.drop (S.src.length - 1)).length = 0 := by
      have : (S.src.take k ++ S.src.drop (S.src.length - 1)) = [] := he
      rw [this]; rfl
    simp only [List.length_append, List.length_take, List.length_drop] at hl
    omega
  | srcClose hsrc hcl => exact absurd hsrc hp
  | seeClose i hi hr hu =>
    refine ⟨rfl, hp, ?_, ?_⟩
    · by_cases h0 : (0 : Nat) = i
      · subst h0; exact absurd hr hnr
      · simp only [upd, h0, if_false]; exact hs
    · by_cases h0 : (0 : Nat) = i
      · subst h0; exact absurd hr hnr
      · simp only [upd, h0, if_false]; exact hc
  | send i it rest hi hb hr =>
    have h1 : (0 : Nat) ≠ i + 1 := by omega
    refine ⟨rfl, hp, ?_, ?_⟩
    · by_cases h0 : (0 : Nat) = i
      · subst h0; simp only [upd, h1, if_false, if_true, Stg.setBuf]; exact hs
      · simp only [upd, h1, h0, if_false]; exact hs
    · by_cases h0 : (0 : Nat) = i
      · subst h0; simp only [upd, h1, if_false, if_true, Stg.setBuf]; exact hc
      · simp only [upd, h1, h0, if_false]; exact hc
  | sendLast i it rest hi hb =>
    refine ⟨rfl, hp, ?_, ?_⟩
    · by_cases h0 : (0 : Nat) = i
      · subst h0; simp only [upd, if_true, Stg.setBuf]; exact hs
      · simp only [upd, h0, if_false]; exact hs
    · by_cases h0 : (0 : Nat) = i
      · subst h0; simp only [upd, if_true, Stg.setBuf]; exact hc
      · simp only [upd, h0, if_false]; exact hc
  | close i hi hb hcl hst =>
    refine ⟨rfl, hp, ?_, ?_⟩
    · by_cases h0 : (0 : Nat) = i
      · subst h0; simp only [upd, if_true, Stg.closeOut]; exact hs
      · simp only [upd, h0, if_false]; exact hs
    · by_cases h0 : (0 : Nat) = i
      · subst h0; simp only [upd, if_true, Stg.closeOut]; exact hc
      · simp only [upd, h0, if_false]; exact hc

theorem hstep_undrained {S S' : HSys} (hU : Undrained S) (h : HStep S S') : Undrained S' := by
  cases h with
  | work T hs _ =>
    obtain ⟨hn, hp, hst, hc⟩ := step_keeps_undrained hs hU.pending hU.stopped hU.code
    exact ⟨by simp only [hn]; exact hU.pos, hp, hst, hc, hU.nosel⟩
  | stop hr => exact ⟨hU.pos, hU.pending, hU.stopped, hU.code, hU.nosel⟩
  | envCancel hc => exact ⟨hU.pos, hU.pending, hU.stopped, hU.code, hU.nosel⟩
  | abort i hc hs hi hb => rw [hU.nosel] at hs; cases hs
  | srcAbort hc hs hne => rw [hU.nosel] at hs; cases hs

theorem hrun_undrained {S S' : HSys} (hU : Undrained S) (h : HRun S S') : Undrained S' := by
  induction h with
  | refl => exact hU
  | step hs _ ih => exact ih (hstep_undrained hU hs)

theorem undrained_not_final {S : HSys} (hU : Undrained S) : ¬ HFinal S := fun hF => hU.pending hF.1.1

/-- verdict `blocked` of the stage schedule: the state is an undrained one -/
theorem undrainedB_sound (S : HSys) (h : undrainedB S = true) : Undrained S := by
  simp only [undrainedB, Bool.and_eq_true, Bool.not_eq_true', decide_eq_true_eq] at h
  obtain ⟨⟨⟨⟨hn, hs⟩, hst⟩, hd⟩, hsel⟩ := h
  refine ⟨hn, ?_, hst, hd, hsel⟩
  intro he; rw [he] at hs; simp at hs

end Qryn.ReadSide.Pipe
