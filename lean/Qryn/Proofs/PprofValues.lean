import Qryn.Prof.PprofMerge
import Qryn.Proofs.ProfUpsert
/-! `ProfileMergeV2.Merge` conserves the sample values: per sample type, the values of the merged samples add up to the
    values of the samples `sanitizeProfile` keeps of every merged payload. -/
namespace Qryn.Prof.Pprof
open Qryn.Prof

theorem sum_perm_int {l l' : List Int} (h : l.Perm l') : l.sum = l'.sum := by
  induction h with
  | nil => rfl
  | cons a _ ih => simp only [List.sum_cons, ih]
  | swap a b l => simp only [List.sum_cons]; omega
  | trans _ _ ih₁ ih₂ => exact ih₁.trans ih₂

def valTotal (ss : List PSample) (j : Nat) : Int := (ss.map (fun s => s.vals.getD j 0)).sum

theorem valTotal_cons (s : PSample) (ss : List PSample) (j : Nat) : valTotal (s :: ss) j = s.vals.getD j 0 + valTotal ss j := by
  simp [valTotal]

theorem valTotal_append (a b : List PSample) (j : Nat) : valTotal (a ++ b) j = valTotal a j + valTotal b j := by
  simp [valTotal, List.sum_append]

/-! ### `addVals` -/

theorem zipIdx_map_getD (acc vals : List Int) (k j : Nat) :
    ((acc.zipIdx k).map (fun vi => vi.1 + vals.getD vi.2 0)).getD j 0
      = if j < acc.length then acc.getD j 0 + vals.getD (k + j) 0 else 0 := by
  induction acc generalizing k j with
  | nil => simp
  | cons a acc ih =>
    cases j with
    | zero => simp
    | succ j =>
      simp only [List.zipIdx_cons, List.map_cons, List.getD_cons_succ, List.length_cons, Nat.add_lt_add_iff_right]
      rw [ih (k + 1) j]
      have : k + 1 + j = k + (j + 1) := by omega
      rw [this]

theorem addVals_getD (acc vals : List Int) (j : Nat) :
    (addVals acc vals).getD j 0 = if j < acc.length then acc.getD j 0 + vals.getD j 0 else 0 := by
  unfold addVals
  have := zipIdx_map_getD acc vals 0 j
  simpa using this

theorem addVals_length (acc vals : List Int) : (addVals acc vals).length = acc.length := by
  simp [addVals]

theorem getD_replicate_zero (n j : Nat) : (List.replicate n (0 : Int)).getD j 0 = 0 := by
  simp only [List.getD_eq_getElem?_getD, List.getElem?_replicate]
  split <;> rfl

theorem getD_of_length_le (l : List Int) (j : Nat) (h : l.length ≤ j) : l.getD j 0 = 0 := by
  simp [List.getD_eq_getElem?_getD, List.getElem?_eq_none h]

/-! ### one `sampleTable.Get` + accumulation -/

def mkS (s : PSample) : PSample := { s with vals := addVals (List.replicate s.vals.length 0) s.vals }
def combS (a s : PSample) : PSample := { a with vals := addVals a.vals s.vals }

theorem upsertSample_def (tab : List PSample) (s : PSample) :
    upsertSample tab s = upsertBy sampleKey sampleKey mkS combS tab s := rfl

theorem sampleKeyLaws : KeyLaws sampleKey sampleKey mkS combS := ⟨fun _ => rfl, fun _ _ => rfl⟩

theorem upsertSample_nodup (tab : List PSample) (s : PSample) (h : (tab.map sampleKey).Nodup) :
    ((upsertSample tab s).map sampleKey).Nodup := by
  rw [upsertSample_def]; exact upsertBy_nodup sampleKeyLaws tab s h

theorem combS_getD (n : Nat) (a s : PSample) (ha : a.vals.length = n) (hs : s.vals.length = n) (j : Nat) :
    (combS a s).vals.getD j 0 = a.vals.getD j 0 + s.vals.getD j 0 := by
  simp only [combS, addVals_getD]
  split
  · rfl
  · rw [getD_of_length_le a.vals j (by omega), getD_of_length_le s.vals j (by omega)]; rfl

theorem update_sum (n : Nat) (s : PSample) (hs : s.vals.length = n) (j : Nat) : ∀ (tab : List PSample),
    (tab.map sampleKey).Nodup → (∀ a ∈ tab, a.vals.length = n) → sampleKey s ∈ tab.map sampleKey →
    valTotal (tab.map (fun a => if sampleKey a = sampleKey s then combS a s else a)) j = valTotal tab j + s.vals.getD j 0 := by
  intro tab
  induction tab with
  | nil => intro _ _ h; simp at h
  | cons x xs ih =>
    intro hnd hlen hmem
    simp only [List.map_cons] at hnd hmem
    have hx := List.nodup_cons.mp hnd
    rw [List.map_cons, valTotal_cons, valTotal_cons]
    by_cases e : sampleKey x = sampleKey s
    · rw [if_pos e]
      have hid : xs.map (fun a => if sampleKey a = sampleKey s then combS a s else a) = xs := by
        have : ∀ a ∈ xs, (if sampleKey a = sampleKey s then combS a s else a) = a := by
          intro a ha
          have : sampleKey a ≠ sampleKey s := fun e' => hx.1 (List.mem_map.mpr ⟨a, ha, e'.trans e.symm⟩)
          rw [if_neg this]
        rw [List.map_congr_left this]; simp
      rw [hid, combS_getD n x s (hlen x (by simp)) hs]
      omega
    · rw [if_neg e]
      have hmem' : sampleKey s ∈ xs.map sampleKey := by
        rcases List.mem_cons.mp hmem with h | h
        · exact absurd h.symm e
        · exact h
      rw [ih hx.2 (fun a ha => hlen a (by simp [ha])) hmem']
      omega

/-- the step: all stored samples and the incoming one carry `n` values -/
theorem upsertSample_step (n : Nat) (tab : List PSample) (s : PSample) (hnd : (tab.map sampleKey).Nodup)
    (hlen : ∀ a ∈ tab, a.vals.length = n) (hs : s.vals.length = n) (j : Nat) :
    (∀ a ∈ upsertSample tab s, a.vals.length = n)
      ∧ valTotal (upsertSample tab s) j = valTotal tab j + s.vals.getD j 0 := by
  rw [upsertSample_def]
  unfold upsertBy
  split
  · rename_i hany
    constructor
    · intro a ha
      obtain ⟨a0, ha0, rfl⟩ := List.mem_map.mp ha
      split
      · simp [combS, addVals_length, hlen a0 ha0]
      · exact hlen a0 ha0
    · exact update_sum n s hs j tab hnd hlen ((any_key_iff sampleKey tab (sampleKey s)).mp hany)
  · constructor
    · intro a ha
      rcases List.mem_append.mp ha with ha | ha
      · exact hlen a ha
      · simp only [List.mem_singleton] at ha
        subst ha
        simp [mkS, addVals_length, hs]
    · rw [valTotal_append]
      simp only [valTotal, List.map_cons, List.map_nil, List.sum_cons, List.sum_nil, Int.add_zero]
      simp only [mkS, addVals_getD]
      simp only [List.length_replicate, getD_replicate_zero, Int.zero_add]
      split
      · rfl
      · rw [getD_of_length_le s.vals j (by omega)]

/-- the loop over the samples of one payload -/
theorem foldl_upsertSample (n : Nat) (j : Nat) : ∀ (ss tab : List PSample), (tab.map sampleKey).Nodup →
    (∀ a ∈ tab, a.vals.length = n) → (∀ s ∈ ss, s.vals.length = n) →
    ((ss.foldl upsertSample tab).map sampleKey).Nodup
      ∧ (∀ a ∈ ss.foldl upsertSample tab, a.vals.length = n)
      ∧ valTotal (ss.foldl upsertSample tab) j = valTotal tab j + valTotal ss j := by
  intro ss
  induction ss with
  | nil => intro tab h1 h2 _; exact ⟨h1, h2, by simp [valTotal]⟩
  | cons s ss ih =>
    intro tab h1 h2 h3
    have step := upsertSample_step n tab s h1 h2 (h3 s (by simp)) j
    obtain ⟨i1, i2, i3⟩ := ih (upsertSample tab s) (upsertSample_nodup tab s h1) step.1 (fun x hx => h3 x (by simp [hx]))
    refine ⟨i1, i2, ?_⟩
    simp only [List.foldl_cons]
    rw [i3, step.2, valTotal_cons]
    omega

/-! ### `sanitizeProfile` keeps only samples with one value per sample type -/

theorem sanitize_sample_lens (p : PProfile) :
    ∀ s ∈ (sanitize p).samples, s.vals.length = (sanitize p).sampleTypes.length := by
  intro s hs
  have hs' : s ∈ sanSamples p := hs
  unfold sanSamples at hs'
  obtain ⟨x, _, hx⟩ := List.mem_filterMap.mp hs'
  unfold sanSample at hx
  split at hx
  · cases hx
  · rename_i hlen
    split at hx
    · cases hx
    · cases hx
      show x.vals.length = (sanSampleTypes p).length
      simpa using hlen

/-! ### `Merge` -/

structure ValInv (st : MState) : Prop where
  nodup : (st.samples.map sampleKey).Nodup
  none_empty : st.header = none → st.samples = []
  lens : ∀ h, st.header = some h → ∀ a ∈ st.samples, a.vals.length = h.sampleTypes.length

theorem valInv_empty : ValInv MState.empty := ⟨by simp [MState.empty], fun _ => rfl, fun h hh => by simp [MState.empty] at hh⟩

theorem compatible_len {h : Header} {pt : VT} {sts : List VT} (hc : compatible h pt sts = true) :
    sts.length = h.sampleTypes.length := by
  simp only [compatible, Bool.and_eq_true, decide_eq_true_eq] at hc
  exact hc.1.2

theorem rewriteSample_vals (sx : Int → Int) (lidx : List Nat) (s : PSample) : (rewriteSample sx lidx s).vals = s.vals := rfl

theorem valTotal_map_rewrite (sx : Int → Int) (lidx : List Nat) (ss : List PSample) (j : Nat) :
    valTotal (ss.map (rewriteSample sx lidx)) j = valTotal ss j := by
  simp [valTotal, List.map_map, Function.comp_def, rewriteSample_vals]

/-- one accepted, sanitized payload: the invariant is kept and its samples' values are added -/
theorem mergeSanitized_vals (st st' : MState) (p : PProfile) (hinv : ValInv st)
    (hp : ∀ s ∈ p.samples, s.vals.length = p.sampleTypes.length)
    (hok : mergeSanitized st p = .ok st') (j : Nat) :
    ValInv st' ∧ valTotal st'.samples j = valTotal st.samples j + valTotal p.samples j := by
  unfold mergeSanitized at hok
  simp only [] at hok
  split at hok
  · cases hok
  · rename_i pt0 _
    split at hok
    · cases hok
    · rename_i hcomp
      simp only [Bool.not_eq_true, Bool.not_eq_false'] at hcomp
      have hcomp' : compatible (headerFor st.header (stepStrings st.strings p).2 p
          ⟨(stepStrings st.strings p).2 pt0.type, (stepStrings st.strings p).2 pt0.unit⟩)
          ⟨(stepStrings st.strings p).2 pt0.type, (stepStrings st.strings p).2 pt0.unit⟩
          (p.sampleTypes.map (fun s => (⟨(stepStrings st.strings p).2 s.type, (stepStrings st.strings p).2 s.unit⟩ : VT))) = true := by
        cases hh : compatible _ _ _ <;> simp_all
      have hlen := compatible_len hcomp'
      simp only [List.length_map] at hlen
      cases hok
      -- the number of values every sample carries
      generalize hn : (headerFor st.header (stepStrings st.strings p).2 p
          ⟨(stepStrings st.strings p).2 pt0.type, (stepStrings st.strings p).2 pt0.unit⟩).sampleTypes.length = n at hlen
      have htab : ∀ a ∈ st.samples, a.vals.length = n := by
        intro a ha
        cases hh : st.header with
        | none => rw [hinv.none_empty hh] at ha; simp at ha
        | some h =>
          have := hinv.lens h hh a ha
          rw [this, ← hn, hh]; rfl
      have hnew : ∀ s ∈ p.samples.map (rewriteSample (stepStrings st.strings p).2
          (stepLocations (stepFunctions (stepStrings st.strings p).2 st.functions p).2
            (stepMappings (stepStrings st.strings p).2 st.mappings p).2 st.locations p).2), s.vals.length = n := by
        intro s hs
        obtain ⟨s0, hs0, rfl⟩ := List.mem_map.mp hs
        rw [rewriteSample_vals, hp s0 hs0, hlen]
      obtain ⟨i1, i2, i3⟩ := foldl_upsertSample n j _ st.samples hinv.nodup htab hnew
      refine ⟨⟨i1, fun h => by simp at h, ?_⟩, ?_⟩
      · intro h hh a ha
        simp only [Option.some.injEq] at hh
        subst hh
        simp only [combineHeaders]
        rw [hn]
        exact i2 a ha
      · simp only [stepSamples]
        rw [i3, valTotal_map_rewrite]

/-- the sum of the values the payloads contribute: those `Merge` does not skip, after `sanitizeProfile` -/
def inputTotal (Ps : List PProfile) (j : Nat) : Int :=
  (Ps.map (fun p => if skipped p then 0 else valTotal (sanitize p).samples j)).sum

theorem mergeOne_vals (st st' : MState) (p : PProfile) (hinv : ValInv st) (hok : mergeOne st p = .ok st') (j : Nat) :
    ValInv st' ∧ valTotal st'.samples j = valTotal st.samples j + (if skipped p then 0 else valTotal (sanitize p).samples j) := by
  unfold mergeOne at hok
  split at hok
  · cases hok; rename_i h; simp [h, hinv]
  · rename_i h
    simp only [h]
    exact mergeSanitized_vals st st' (sanitize p) hinv (sanitize_sample_lens p) hok j

theorem mergeAll_vals : ∀ (Ps : List PProfile) (st st' : MState), ValInv st → mergeAll st Ps = .ok st' → ∀ j,
    ValInv st' ∧ valTotal st'.samples j = valTotal st.samples j + inputTotal Ps j := by
  intro Ps
  induction Ps with
  | nil => intro st st' hinv hok j; simp only [mergeAll] at hok; cases hok; simp [inputTotal, hinv]
  | cons p Ps ih =>
    intro st st' hinv hok j
    simp only [mergeAll] at hok
    split at hok
    · rename_i st1 h1
      have s1 := mergeOne_vals st st1 p hinv h1 j
      have s2 := ih st1 st' s1.1 hok j
      refine ⟨s2.1, ?_⟩
      rw [s2.2, s1.2]
      simp only [inputTotal, List.map_cons, List.sum_cons]
      omega
    · cases hok

end Qryn.Prof.Pprof
