import Qryn.Proofs.FpChain
import Qryn.Proofs.Like
import Qryn.Proofs.Sort
/-! Row-level facts for the main, _time_series, prefinal and final selects of `planLog`. -/
namespace Qryn.Sql

theorem evalBody_sorted (o : Oracles) (db : Db) (env : Env) (ws : List (Alias × Sel)) (dist : Bool) (cols : List Expr)
    (f : Expr) (pre wher hv : Option Expr) (e : Expr) (ob : List Expr) :
    evalBody o db env (.mk ws dist cols (some f) [] pre wher [] hv (e :: ob) none) =
      sortBy (rowLe (orderKeys (e :: ob)))
        (((sourceRows db env f).filter (fun r => optB o env r pre && optB o env r wher)).map (project o env cols)) := by
  simp [evalBody]

theorem evalBody_sorted_limit (o : Oracles) (db : Db) (env : Env) (ws : List (Alias × Sel)) (dist : Bool) (cols : List Expr)
    (f : Expr) (pre wher hv : Option Expr) (e : Expr) (ob : List Expr) (n : Int) :
    evalBody o db env (.mk ws dist cols (some f) [] pre wher [] hv (e :: ob) (some (.int n))) =
      (sortBy (rowLe (orderKeys (e :: ob)))
        (((sourceRows db env f).filter (fun r => optB o env r pre && optB o env r wher)).map (project o env cols))).take n.toNat := by
  simp [evalBody]

theorem evalBody_join1 (o : Oracles) (db : Db) (env : Env) (ws : List (Alias × Sel)) (dist : Bool) (cols : List Expr)
    (f : Expr) (tp : String) (a : Alias) (on : Expr) (hv : Option Expr) :
    evalBody o db env (.mk ws dist cols (some f) [(tp, a, on)] none none [] hv [] none) =
      (anyLeftJoin o env (sourceRows db env f) a on).map (project o env cols) := by
  simp only [evalBody, optB, List.foldl_cons, List.foldl_nil, Bool.and_self, List.isEmpty_nil, if_true]
  rw [List.filter_eq_self.mpr (by simp)]

end Qryn.Sql

namespace Qryn.LogQL
open Qryn Qryn.Sql

/-! ### main -/
def mainRow (s : Sample) : Row :=
  [("timestamp_ns", .int s.ts), ("fingerprint", .int s.fp), ("string", .str s.str), ("value", .null)]

section samples
variable (s : Sample)
@[simp] theorem smp_ts : Row.get (qualify "samples" s.row) "samples.timestamp_ns" = .int s.ts := by
  simp [qualify, Sample.row, Row.get, List.lookup]
@[simp] theorem smp_fp : Row.get (qualify "samples" s.row) "samples.fingerprint" = .int s.fp := by
  simp [qualify, Sample.row, Row.get]
@[simp] theorem smp_str : Row.get (qualify "samples" s.row) "samples.string" = .str s.str := by
  simp [qualify, Sample.row, Row.get, List.lookup]
@[simp] theorem smp_str' : Row.get (qualify "samples" s.row) "string" = .str s.str := by
  simp [qualify, Sample.row, Row.get, List.lookup]
@[simp] theorem smp_type : Row.get (qualify "samples" s.row) "type" = .int s.tp := by
  simp [qualify, Sample.row, Row.get, List.lookup]
@[simp] theorem smp_val : Row.get (qualify "samples" s.row) "toFloat64(0)" = .null := by
  simp [qualify, Sample.row, Row.get, List.lookup]
end samples

theorem likeClause_eval (o : Oracles) (env : Env) (s : Sample) (needle : Bytes) :
    evalB o env (qualify "samples" s.row) (likeClause "like" needle) = contains needle s.str := by
  unfold likeClause contains
  rw [evalB_eq, evalE_call_like o env _ _ _ s.str _ (by simp) (evalE_str o env _ _), evalE_int, cmpOp_eq_bool_one,
    Bool.eq_iff_iff, like_contains']
  simp

theorem notLikeClause_eval (o : Oracles) (env : Env) (s : Sample) (needle : Bytes) :
    evalB o env (qualify "samples" s.row) (likeClause "notLike" needle) = !contains needle s.str := by
  have h := likeClause_eval o env s needle
  unfold likeClause at h ⊢
  rw [evalB_eq, evalE_call_like o env _ _ _ s.str _ (by simp) (evalE_str o env _ _), evalE_int, cmpOp_eq_bool_one] at h
  rw [evalB_eq, evalE_call_notLike o env _ _ _ s.str _ (by simp) (evalE_str o env _ _), evalE_int, cmpOp_eq_bool_one, h]

theorem lineClause_eval (o : Oracles) (env : Env) (s : Sample) (f : LineFilter) :
    evalB o env (qualify "samples" s.row) (lineClause f) = lineHolds o f s.str := by
  unfold lineClause lineHolds
  have hmf := evalE_matchFn o env (qualify "samples" s.row) (.raw "string") f.val s.str (by simp)
  cases f.op with
  | contains => exact likeClause_eval o env s _
  | notContains => exact notLikeClause_eval o env s _
  | re =>
    cases f.like with
    | none => simp [hmf]
    | some li =>
      obtain ⟨lit, ins⟩ := li
      cases ins
      · simpa using likeClause_eval o env s lit
      · simp only [if_true]
        unfold likeClause
        rw [evalB_eq, evalE_call_ilike o env _ _ _ s.str _ (by simp) (evalE_str o env _ _), evalE_int, cmpOp_eq_bool_one]
  | nre =>
    cases f.like with
    | none => simp [hmf]
    | some li =>
      obtain ⟨lit, ins⟩ := li
      cases ins
      · simpa using notLikeClause_eval o env s lit
      · simp only [if_true]
        unfold likeClause
        rw [evalB_eq, evalE_call_notILike o env _ _ _ s.str _ (by simp) (evalE_str o env _ _), evalE_int, cmpOp_eq_bool_one]

theorem project_main (o : Oracles) (env : Env) (s : Sample) :
    project o env [simpleCol "samples.timestamp_ns" "timestamp_ns", simpleCol "samples.fingerprint" "fingerprint",
      simpleCol "samples.string" "string", simpleCol "toFloat64(0)" "value"] (qualify "samples" s.row) = mainRow s := by
  simp [project, mainRow, colName, simpleCol]

theorem mainWhere_eval (o : Oracles) (c : Ctx) (d : LokiDb) (q : LogQuery) (env : Env) (T : Table)
    (hT : env.lookup (.named "fp_sel") = some T) (hP : FpTable T (fpSelected o c d q)) (s : Sample) :
    (optB o env (qualify "samples" s.row) (some (and_ [ge (.raw "samples.timestamp_ns") (.int c.fromNs),
                 lt (.raw "samples.timestamp_ns") (.int c.toNs), getTypes c])) &&
     optB o env (qualify "samples" s.row) (some (and_ (.isIn (.raw "samples.fingerprint") [.withRef (.named "fp_sel")] ::
        (lineFilters q).map lineClause)))) = entryMatches o c d q s := by
  simp only [optB, evalB_and, evalAll_cons, evalAll_nil, evalAll_map, lineClause_eval, evalB_ge, evalB_lt, evalE_raw,
    evalE_int, smp_ts, smp_fp, cmpOp_ge_int, cmpOp_lt_int, getTypes_eval o env _ c s.tp (smp_type s), evalB_isIn_ref, hT,
    Option.getD_some, hP.contains, entryMatches, Bool.and_true, Bool.and_assoc]

theorem rowLe_main (c : Ctx) (a b : Sample) :
    rowLe [("timestamp_ns", dirOf c)] (mainRow a) (mainRow b) = tsLe c a b := by
  have ha : Row.get (mainRow a) "timestamp_ns" = .int a.ts := by simp [mainRow, Row.get]
  have hb : Row.get (mainRow b) "timestamp_ns" = .int b.ts := by simp [mainRow, Row.get]
  simp only [rowLe, ha, hb, int_beq, dirOf, tsLe]
  by_cases h : a.ts = b.ts
  · simp [h]
  · cases c.orderAsc <;> simp [h, Val.cmpLe]

theorem main_eval (o : Oracles) (c : Ctx) (d : LokiDb) (q : LogQuery) (env : Env) (T : Table)
    (hT : env.lookup (.named "fp_sel") = some T) (hP : FpTable T (fpSelected o c d q)) :
    evalBody o (d.toDb c) env (mainSel c q) = (limited o c d q).map mainRow := by
  have hsrc : (List.map (project o env [simpleCol "samples.timestamp_ns" "timestamp_ns", simpleCol "samples.fingerprint" "fingerprint",
        simpleCol "samples.string" "string", simpleCol "toFloat64(0)" "value"])
      (List.filter (fun r => optB o env r (some (and_ [ge (.raw "samples.timestamp_ns") (.int c.fromNs),
                 lt (.raw "samples.timestamp_ns") (.int c.toNs), getTypes c])) &&
          optB o env r (some (and_ (.isIn (.raw "samples.fingerprint") [.withRef (.named "fp_sel")] ::
            (lineFilters q).map lineClause))))
        (sourceRows (d.toDb c) env (.col (.raw c.samplesTable) "samples")))) =
      (d.samples.filter (entryMatches o c d q)).map mainRow := by
    simp only [sourceRows, toDb_samples, List.map_map, List.filter_map, Function.comp_def, project_main,
      mainWhere_eval o c d q env T hT hP]
  unfold mainSel limited
  by_cases h0 : c.limit = 0
  · simp only [h0, if_true]
    rw [evalBody_sorted, hsrc, orderKeys, orderKeys, sortBy_map (tsLe c) _ mainRow (rowLe_main c)]
  · simp only [h0, if_false]
    rw [evalBody_sorted_limit, hsrc, orderKeys, orderKeys, sortBy_map (tsLe c) _ mainRow (rowLe_main c), List.map_take]

/-! ### _time_series -/
def tsOk (o : Oracles) (c : Ctx) (d : LokiDb) (q : LogQuery) (t : TsRow) : Bool :=
  decide (fromDate c ≤ t.date) && typeOk c t.tp && fpSelected o c d q t.fp

def tsOut (o : Oracles) (t : TsRow) : Row := [("fingerprint", .int t.fp), ("labels", .map (o.jsonLabels t.labels))]

section ts
variable (t : TsRow)
@[simp] theorem qts_date : Row.get (qualify "time_series" t.row) "time_series.date" = .str t.date := by
  simp [qualify, TsRow.row, Row.get]
@[simp] theorem qts_fp : Row.get (qualify "time_series" t.row) "time_series.fingerprint" = .int t.fp := by
  simp [qualify, TsRow.row, Row.get, List.lookup]
@[simp] theorem qts_labels : Row.get (qualify "time_series" t.row) "time_series.labels" = .str t.labels := by
  simp [qualify, TsRow.row, Row.get, List.lookup]
@[simp] theorem qts_type : Row.get (qualify "time_series" t.row) "type" = .int t.tp := by
  simp [qualify, TsRow.row, Row.get, List.lookup]
end ts

theorem timeSeries_eval (o : Oracles) (c : Ctx) (hn : c.namesOk) (d : LokiDb) (q : LogQuery) (env : Env) (T : Table)
    (hT : env.lookup (.named "fp_sel") = some T) (hP : FpTable T (fpSelected o c d q)) :
    evalBody o (d.toDb c) env (timeSeriesSel c) = (d.ts.filter (tsOk o c d q)).map (tsOut o) := by
  unfold timeSeriesSel
  rw [evalBody_plain]
  simp only [sourceRows, toDb_tsDist d c hn, List.map_map, List.filter_map, Function.comp_def, optB, Bool.and_true,
    evalB_and, evalAll_cons, evalAll_nil, evalB_ge, evalE_raw, evalE_str, qts_date, cmpOp_ge_str,
    getTypes_eval o env _ c _ (qts_type _), evalB_isIn_ref, hT, Option.getD_some, qts_fp, hP.contains]
  have hproj : ∀ t : TsRow, project o env [simpleCol "time_series.fingerprint" "fingerprint", .col .tsLabels "labels"]
      (qualify "time_series" t.row) = tsOut o t := by
    intro t
    simp [project, colName, simpleCol, tsOut, evalE_tsLabels o env _ t.labels (qts_labels t)]
  simp only [hproj]
  refine congrArg _ (List.filter_congr ?_)
  intro t _
  simp only [tsOk, Bool.and_assoc]
  rfl

/-! ### prefinal -/
def tsJoin (o : Oracles) (t : TsRow) : Row :=
  [("_time_series.fingerprint", .int t.fp), ("_time_series.labels", .map (o.jsonLabels t.labels))]

def preRow (o : Oracles) (c : Ctx) (d : LokiDb) (q : LogQuery) (s : Sample) : Row :=
  [("fingerprint", .int s.fp), ("timestamp_ns", .int s.ts), ("labels", labelsOf o c d q s.fp), ("string", .str s.str),
   ("value", .null)]

theorem joinOn_eval (o : Oracles) (env : Env) (s : Sample) (t : TsRow) :
    evalB o env (qualify "main" (mainRow s) ++ tsJoin o t)
      (eq (.raw "main.fingerprint") (.raw "_time_series.fingerprint")) = (t.fp == s.fp) := by
  have h1 : Row.get (qualify "main" (mainRow s) ++ tsJoin o t) "main.fingerprint" = .int s.fp := by
    simp [qualify, mainRow, tsJoin, Row.get, List.lookup]
  have h2 : Row.get (qualify "main" (mainRow s) ++ tsJoin o t) "_time_series.fingerprint" = .int t.fp := by
    simp [qualify, mainRow, tsJoin, Row.get, List.lookup]
  rw [evalB_eq, evalE_raw, evalE_raw, h1, h2, cmpOp_eq_int, Bool.beq_comm]

def preCols : List Expr :=
  [simpleCol "main.fingerprint" "fingerprint", simpleCol "main.timestamp_ns" "timestamp_ns",
   simpleCol "_time_series.labels" "labels", simpleCol "main.string" "string", simpleCol "main.value" "value"]

theorem project_pre_some (o : Oracles) (env : Env) (s : Sample) (t : TsRow) :
    project o env preCols (qualify "main" (mainRow s) ++ tsJoin o t) =
      [("fingerprint", .int s.fp), ("timestamp_ns", .int s.ts), ("labels", .map (o.jsonLabels t.labels)),
       ("string", .str s.str), ("value", .null)] := by
  simp [project, preCols, colName, simpleCol, qualify, mainRow, tsJoin, Row.get, List.lookup]

theorem project_pre_none (o : Oracles) (env : Env) (s : Sample) :
    project o env preCols (qualify "main" (mainRow s)) =
      [("fingerprint", .int s.fp), ("timestamp_ns", .int s.ts), ("labels", .null),
       ("string", .str s.str), ("value", .null)] := by
  simp [project, preCols, colName, simpleCol, qualify, mainRow, Row.get, List.lookup]

def prefixRow (p : String) (r : Row) : Row := r.map (fun (k, v) => (p ++ "." ++ k, v))

theorem anyLeftJoin_eq (o : Oracles) (env : Env) (left : Table) (a : Alias) (on : Expr) :
    anyLeftJoin o env left a on = left.map (fun l =>
      match (((env.lookup a).getD []).map (prefixRow a.text)).find? (fun rr => evalB o env (l ++ rr) on) with
      | some rr => l ++ rr
      | none => l) := rfl

theorem prefix_tsOut (o : Oracles) (t : TsRow) : prefixRow (Alias.named "_time_series").text (tsOut o t) = tsJoin o t := by
  simp [prefixRow, tsOut, tsJoin, Alias.text]

theorem joined_eval (o : Oracles) (c : Ctx) (d : LokiDb) (q : LogQuery) (env : Env) (L : List Sample)
    (hM : env.lookup (.named "main") = some (L.map mainRow))
    (hTS : env.lookup (.named "_time_series") = some ((d.ts.filter (tsOk o c d q)).map (tsOut o))) :
    evalBody o (d.toDb c) env (joinedSel c) = L.map (preRow o c d q) := by
  unfold joinedSel
  rw [evalBody_join1, anyLeftJoin_eq]
  simp only [sourceRows, hM, Option.getD_some, hTS, List.map_map]
  apply List.map_congr_left
  intro s _
  have hfind : List.find? (fun rr => evalB o env (qualify (Alias.named "main").text (mainRow s) ++ rr)
        (eq (.raw "main.fingerprint") (.raw "_time_series.fingerprint")))
      (List.map (prefixRow (Alias.named "_time_series").text ∘ tsOut o) (List.filter (tsOk o c d q) d.ts)) =
      (d.ts.find? (fun t => decide (fromDate c ≤ t.date) && typeOk c t.tp && fpSelected o c d q t.fp && t.fp == s.fp)).map (tsJoin o) := by
    simp only [Function.comp_def, prefix_tsOut, List.find?_map, List.find?_filter]
    refine congrArg (fun p => Option.map (tsJoin o) (List.find? p d.ts)) ?_
    funext t
    have := joinOn_eval o env s t
    simp only [Alias.text, this, tsOk]
    simp
    congr 1
  simp only [Function.comp_apply]
  rw [hfind]
  unfold preRow labelsOf
  cases hf : List.find? (fun t => decide (fromDate c ≤ t.date) && typeOk c t.tp && fpSelected o c d q t.fp && t.fp == s.fp) d.ts with
  | none => exact project_pre_none o env s
  | some t => exact project_pre_some o env s t

/-! ### the final select -/
theorem project_final (o : Oracles) (c : Ctx) (d : LokiDb) (q : LogQuery) (env : Env) (s : Sample) :
    project o env [simpleCol "prefinal.fingerprint" "fingerprint", simpleCol "prefinal.labels" "labels",
      simpleCol "prefinal.string" "string", simpleCol "prefinal.timestamp_ns" "timestamp_ns"]
      (qualify "prefinal" (preRow o c d q s)) = outRow o c d q s := by
  simp [project, colName, simpleCol, qualify, preRow, outRow, Row.get, List.lookup]

end Qryn.LogQL
