import Qryn.Read.SeriesOrder
/-! The comparator of the final `sort.Slice` in `Select` is the non-strict lexicographic order on label sets
    (Prometheus' `labels.Compare(a, b) ≤ 0`): total, transitive, antisymmetric. Hence on pairwise distinct label sets
    (what `ReshuffleSeries` leaves) the sorted `SeriesSet` is strictly ascending. -/
namespace Qryn.Read.SeriesOrder
open Qryn

theorem strLt_irrefl : ∀ a : Bytes, strLt a a = false
  | [] => rfl
  | a :: as => by simp [strLt, strLt_irrefl as]

theorem strLt_trans : ∀ a b c : Bytes, strLt a b = true → strLt b c = true → strLt a c = true
  | [], [], _, h, _ => by simp [strLt] at h
  | [], _ :: _, [], _, h => by simp [strLt] at h
  | [], _ :: _, _ :: _, _, _ => rfl
  | _ :: _, [], _, h, _ => by simp [strLt] at h
  | _ :: _, _ :: _, [], _, h => by simp [strLt] at h
  | a :: as, b :: bs, c :: cs, h1, h2 => by
    simp only [strLt, Bool.or_eq_true, decide_eq_true_eq, Bool.and_eq_true, beq_iff_eq] at h1 h2 ⊢
    rcases h1 with h1 | ⟨e1, h1⟩ <;> rcases h2 with h2 | ⟨e2, h2⟩
    · exact Or.inl (UInt8.lt_trans h1 h2)
    · subst e2; exact Or.inl h1
    · subst e1; exact Or.inl h2
    · subst e1; subst e2; exact Or.inr ⟨rfl, strLt_trans as bs cs h1 h2⟩

theorem strLt_total : ∀ a b : Bytes, a ≠ b → strLt a b = true ∨ strLt b a = true
  | [], [], h => absurd rfl h
  | [], _ :: _, _ => Or.inl rfl
  | _ :: _, [], _ => Or.inr rfl
  | a :: as, b :: bs, h => by
    simp only [strLt, Bool.or_eq_true, decide_eq_true_eq, Bool.and_eq_true, beq_iff_eq]
    by_cases hab : a = b
    · subst hab
      have : as ≠ bs := fun e => h (by rw [e])
      rcases strLt_total as bs this with h' | h'
      · exact Or.inl (Or.inr ⟨rfl, h'⟩)
      · exact Or.inr (Or.inr ⟨rfl, h'⟩)
    · rcases UInt8.lt_or_lt_of_ne hab with h' | h'
      · exact Or.inl (Or.inl h')
      · exact Or.inr (Or.inl h')

theorem strLt_asymm (a b : Bytes) (h : strLt a b = true) : strLt b a = false := by
  cases h' : strLt b a with
  | false => rfl
  | true => have := strLt_trans a b a h h'; rw [strLt_irrefl] at this; cases this

/-- the strict lexicographic order on label sets (name, then value, label by label; a proper prefix is smaller) -/
def labelsLt : Labels → Labels → Prop
  | [], [] => False
  | [], _ :: _ => True
  | _ :: _, [] => False
  | l1 :: r1, l2 :: r2 =>
    strLt l1.1 l2.1 = true ∨ (l1.1 = l2.1 ∧ (strLt l1.2 l2.2 = true ∨ (l1.2 = l2.2 ∧ labelsLt r1 r2)))

/-- **the comparator is the non-strict lexicographic order**: `less a b` ⇔ `a = b` or `a` is strictly smaller -/
theorem lessSeries_iff : ∀ a b : Labels, lessSeries a b = true ↔ (a = b ∨ labelsLt a b)
  | [], [] => by simp [lessSeries]
  | [], _ :: _ => by simp [lessSeries, labelsLt]
  | _ :: _, [] => by simp [lessSeries, labelsLt]
  | l1 :: r1, l2 :: r2 => by
    obtain ⟨n1, v1⟩ := l1
    obtain ⟨n2, v2⟩ := l2
    simp only [lessSeries, labelsLt, List.cons.injEq, Prod.mk.injEq]
    by_cases hn : n1 = n2
    · subst hn
      by_cases hv : v1 = v2
      · subst hv
        simp only [bne_self_eq_false, Bool.false_eq_true, if_false, strLt_irrefl, true_and, false_or]
        rw [lessSeries_iff r1 r2]
      · have hv' : (v1 != v2) = true := by simpa using hv
        simp [hv', hv, strLt_irrefl]
    · have hn' : (n1 != n2) = true := by simpa using hn
      simp [hn', hn]

theorem labelsLt_irrefl : ∀ a : Labels, ¬ labelsLt a a
  | [] => by simp [labelsLt]
  | l :: r => by
    simp only [labelsLt, strLt_irrefl, Bool.false_eq_true, true_and, false_or]
    exact labelsLt_irrefl r

theorem labelsLt_trans : ∀ a b c : Labels, labelsLt a b → labelsLt b c → labelsLt a c
  | [], [], _, h, _ => by simp [labelsLt] at h
  | [], _ :: _, [], _, h => by simp [labelsLt] at h
  | [], _ :: _, _ :: _, _, _ => by simp [labelsLt]
  | _ :: _, [], _, h, _ => by simp [labelsLt] at h
  | _ :: _, _ :: _, [], _, h => by simp [labelsLt] at h
  | l1 :: r1, l2 :: r2, l3 :: r3, h1, h2 => by
    simp only [labelsLt] at h1 h2 ⊢
    rcases h1 with h1 | ⟨e1, h1⟩
    · rcases h2 with h2 | ⟨e2, _⟩
      · exact Or.inl (strLt_trans _ _ _ h1 h2)
      · rw [← e2]; exact Or.inl h1
    · rcases h2 with h2 | ⟨e2, h2⟩
      · rw [e1]; exact Or.inl h2
      · refine Or.inr ⟨e1.trans e2, ?_⟩
        rcases h1 with h1 | ⟨f1, h1⟩
        · rcases h2 with h2 | ⟨f2, _⟩
          · exact Or.inl (strLt_trans _ _ _ h1 h2)
          · rw [← f2]; exact Or.inl h1
        · rcases h2 with h2 | ⟨f2, h2⟩
          · rw [f1]; exact Or.inl h2
          · exact Or.inr ⟨f1.trans f2, labelsLt_trans r1 r2 r3 h1 h2⟩

theorem labelsLt_total : ∀ a b : Labels, a ≠ b → labelsLt a b ∨ labelsLt b a
  | [], [], h => absurd rfl h
  | [], _ :: _, _ => Or.inl (by simp [labelsLt])
  | _ :: _, [], _ => Or.inr (by simp [labelsLt])
  | l1 :: r1, l2 :: r2, h => by
    obtain ⟨n1, v1⟩ := l1
    obtain ⟨n2, v2⟩ := l2
    simp only [labelsLt]
    by_cases hn : n1 = n2
    · subst hn
      by_cases hv : v1 = v2
      · subst hv
        have : r1 ≠ r2 := fun e => h (by rw [e])
        rcases labelsLt_total r1 r2 this with h' | h'
        · exact Or.inl (Or.inr ⟨rfl, Or.inr ⟨rfl, h'⟩⟩)
        · exact Or.inr (Or.inr ⟨rfl, Or.inr ⟨rfl, h'⟩⟩)
      · rcases strLt_total v1 v2 hv with h' | h'
        · exact Or.inl (Or.inr ⟨rfl, Or.inl h'⟩)
        · exact Or.inr (Or.inr ⟨rfl, Or.inl h'⟩)
    · rcases strLt_total n1 n2 hn with h' | h'
      · exact Or.inl (Or.inl h')
      · exact Or.inr (Or.inl h')

theorem lessSeries_total (a b : Labels) : (lessSeries a b || lessSeries b a) = true := by
  by_cases h : a = b
  · subst h; simp [(lessSeries_iff a a).mpr (Or.inl rfl)]
  · rcases labelsLt_total a b h with h' | h'
    · simp [(lessSeries_iff a b).mpr (Or.inr h')]
    · simp [(lessSeries_iff b a).mpr (Or.inr h')]

theorem lessSeries_trans (a b c : Labels) (h1 : lessSeries a b = true) (h2 : lessSeries b c = true) :
    lessSeries a c = true := by
  rw [lessSeries_iff] at h1 h2 ⊢
  rcases h1 with rfl | h1
  · exact h2
  · rcases h2 with rfl | h2
    · exact Or.inr h1
    · exact Or.inr (labelsLt_trans a b c h1 h2)

/-- **the sorted `SeriesSet`**: a permutation of the input, ordered by the comparator; with pairwise distinct label sets
    (after `ReshuffleSeries`) strictly ascending in the lexicographic label order — sorted as `storage.SeriesSet` asks and
    without a label set occurring twice -/
theorem sortSeries_spec (l : List Labels) :
    (sortSeries l).Perm l ∧ (sortSeries l).Pairwise (fun a b => lessSeries a b = true) ∧
    (l.Nodup → (sortSeries l).Pairwise labelsLt) := by
  have hp : (sortSeries l).Perm l := List.mergeSort_perm l lessSeries
  have hs : (sortSeries l).Pairwise (fun a b => lessSeries a b = true) :=
    List.pairwise_mergeSort (fun a b c h1 h2 => lessSeries_trans a b c h1 h2) (fun a b => lessSeries_total a b) l
  refine ⟨hp, hs, fun hnd => ?_⟩
  have hnd' : (sortSeries l).Nodup := hp.nodup_iff.mpr hnd
  have hne : (sortSeries l).Pairwise (· ≠ ·) := hnd'
  refine (hs.and hne).imp ?_
  intro a b ⟨h1, h2⟩
  rcases (lessSeries_iff a b).mp h1 with e | h'
  · exact absurd e h2
  · exact h'

end Qryn.Read.SeriesOrder
