import Qryn.Proofs.ProfCap
/-! `mergeNodes`: sorting the children slices and aligning them (`mergeChildren`). -/
namespace Qryn.Prof

/-! ### `sortAsc` -/

theorem insertAsc_perm (a : Row) (l : List Row) : (insertAsc a l).Perm (a :: l) := by
  induction l with
  | nil => simp [insertAsc]
  | cons b l ih =>
    simp only [insertAsc]
    split
    · exact List.Perm.refl _
    · exact (List.Perm.cons b ih).trans (List.Perm.swap a b l)

theorem sortAsc_perm (l : List Row) : (sortAsc l).Perm l := by
  induction l with
  | nil => simp [sortAsc]
  | cons a l ih =>
    simp only [sortAsc, List.foldr_cons]
    exact (insertAsc_perm a _).trans (List.Perm.cons a ih)

theorem insertAsc_sorted (a : Row) (l : List Row) (h : l.Pairwise (fun x y => x.node ≤ y.node)) :
    (insertAsc a l).Pairwise (fun x y => x.node ≤ y.node) := by
  induction l with
  | nil => simp [insertAsc]
  | cons b l ih =>
    simp only [insertAsc]
    have hb := List.pairwise_cons.mp h
    split
    · rename_i hab
      refine List.pairwise_cons.mpr ⟨?_, h⟩
      intro y hy
      rcases List.mem_cons.mp hy with rfl | hy
      · exact hab
      · exact Nat.le_trans hab (hb.1 y hy)
    · rename_i hab
      refine List.pairwise_cons.mpr ⟨?_, ih hb.2⟩
      intro y hy
      have := (insertAsc_perm a l).subset hy
      rcases List.mem_cons.mp this with rfl | hy'
      · omega
      · exact hb.1 y hy'

theorem sortAsc_sorted (l : List Row) : (sortAsc l).Pairwise (fun x y => x.node ≤ y.node) := by
  induction l with
  | nil => simp [sortAsc]
  | cons a l ih => simp only [sortAsc, List.foldr_cons]; exact insertAsc_sorted a _ ih

/-- ascending and duplicate free = strictly ascending -/
theorem sortAsc_strict (l : List Row) (hnd : (l.map (·.node)).Nodup) :
    (sortAsc l).Pairwise (fun x y => x.node < y.node) := by
  have hs := sortAsc_sorted l
  have hnd' : ((sortAsc l).map (·.node)).Nodup := ((sortAsc_perm l).map _).nodup_iff.mpr hnd
  have hp := List.pairwise_map.mp hnd'
  exact (hs.and hp).imp (fun h => by omega)

theorem sumTotals_perm {l l' : List Row} (h : l.Perm l') : sumTotals l = sumTotals l' := by
  have := fsum_perm h (fun _ => true) (·.total)
  have e : ∀ l : List Row, l.filter (fun _ => true) = l := fun l => List.filter_eq_self.mpr (fun _ _ => rfl)
  unfold fsum at this
  rw [e, e] at this
  exact this

def sumSelfs (rs : List Row) : Int := (rs.map (·.self)).sum

/-! ### `mergeChildren` -/

/-- what holds of every aligned pair, for any inputs -/
structure PairOK (as bs : List Row) (pr : Row × Row) : Prop where
  node : pr.1.node = pr.2.node
  left : pr.1 ∈ as ∨ (pr.2 ∈ bs ∧ pr.1 = emptyOf pr.2)
  right : pr.2 ∈ bs ∨ (pr.1 ∈ as ∧ pr.2 = emptyOf pr.1)

theorem PairOK.mono {as bs as' bs' : List Row} {pr : Row × Row} (h : PairOK as bs pr)
    (ha : ∀ x ∈ as, x ∈ as') (hb : ∀ x ∈ bs, x ∈ bs') : PairOK as' bs' pr :=
  ⟨h.node, h.left.imp (ha _) (fun h => ⟨hb _ h.1, h.2⟩), h.right.imp (hb _) (fun h => ⟨ha _ h.1, h.2⟩)⟩

theorem mergeChildrenF_ok : ∀ (n : Nat) (as bs : List Row), as.length + bs.length ≤ n →
    ∀ pr ∈ mergeChildrenF n as bs, PairOK as bs pr := by
  intro n
  induction n with
  | zero =>
    intro as bs h pr hpr
    simp [mergeChildrenF] at hpr
  | succ n ih =>
    intro as bs h pr hpr
    match as, bs with
    | [], [] => simp [mergeChildrenF] at hpr
    | a :: as, [] =>
      simp only [mergeChildrenF, List.mem_cons] at hpr
      rcases hpr with rfl | hpr
      · exact ⟨rfl, Or.inl (by simp), Or.inr ⟨by simp, rfl⟩⟩
      · exact (ih as [] (by simp at h ⊢; omega) pr hpr).mono (fun x hx => by simp [hx]) (fun x hx => hx)
    | [], b :: bs =>
      simp only [mergeChildrenF, List.mem_cons] at hpr
      rcases hpr with rfl | hpr
      · exact ⟨rfl, Or.inr ⟨by simp, rfl⟩, Or.inl (by simp)⟩
      · exact (ih [] bs (by simp at h ⊢; omega) pr hpr).mono (fun x hx => hx) (fun x hx => by simp [hx])
    | a :: as, b :: bs =>
      simp only [mergeChildrenF] at hpr
      simp only [List.length_cons] at h
      split at hpr
      · rename_i hab
        rcases List.mem_cons.mp hpr with rfl | hpr
        · exact ⟨hab, Or.inl (by simp), Or.inl (by simp)⟩
        · exact (ih as bs (by omega) pr hpr).mono (fun x hx => by simp [hx]) (fun x hx => by simp [hx])
      · split at hpr
        · rcases List.mem_cons.mp hpr with rfl | hpr
          · exact ⟨rfl, Or.inl (by simp), Or.inr ⟨by simp, rfl⟩⟩
          · exact (ih as (b :: bs) (by simp; omega) pr hpr).mono (fun x hx => by simp [hx]) (fun x hx => hx)
        · rcases List.mem_cons.mp hpr with rfl | hpr
          · exact ⟨rfl, Or.inr ⟨by simp, rfl⟩, Or.inl (by simp)⟩
          · exact (ih (a :: as) bs (by simp; omega) pr hpr).mono (fun x hx => hx) (fun x hx => by simp [hx])

theorem emptyOf_total (r : Row) : (emptyOf r).total = 0 := rfl
theorem emptyOf_self (r : Row) : (emptyOf r).self = 0 := rfl
theorem emptyOf_node (r : Row) : (emptyOf r).node = r.node := rfl
theorem emptyOf_parent (r : Row) : (emptyOf r).parent = r.parent := rfl
theorem emptyOf_fn (r : Row) : (emptyOf r).fn = r.fn := rfl

/-- padding adds no weight: both projections keep the sums of their side -/
theorem mergeChildrenF_sums : ∀ (n : Nat) (as bs : List Row), as.length + bs.length ≤ n →
    sumTotals ((mergeChildrenF n as bs).map (·.1)) = sumTotals as
      ∧ sumTotals ((mergeChildrenF n as bs).map (·.2)) = sumTotals bs
      ∧ sumSelfs ((mergeChildrenF n as bs).map (·.1)) = sumSelfs as
      ∧ sumSelfs ((mergeChildrenF n as bs).map (·.2)) = sumSelfs bs := by
  intro n
  induction n with
  | zero =>
    intro as bs h
    have ha : as = [] := List.eq_nil_of_length_eq_zero (by omega)
    have hb : bs = [] := List.eq_nil_of_length_eq_zero (by omega)
    subst ha hb
    simp [mergeChildrenF]
  | succ n ih =>
    intro as bs h
    match as, bs with
    | [], [] => simp [mergeChildrenF]
    | a :: as, [] =>
      have := ih as [] (by simp at h ⊢; omega)
      simp only [mergeChildrenF, List.map_cons, sumTotals, sumSelfs, List.sum_cons] at this ⊢
      simp only [emptyOf_total, emptyOf_self]
      omega
    | [], b :: bs =>
      have := ih [] bs (by simp at h ⊢; omega)
      simp only [mergeChildrenF, List.map_cons, sumTotals, sumSelfs, List.sum_cons] at this ⊢
      simp only [emptyOf_total, emptyOf_self]
      omega
    | a :: as, b :: bs =>
      simp only [List.length_cons] at h
      simp only [mergeChildrenF]
      split
      · have := ih as bs (by omega)
        simp only [List.map_cons, sumTotals, sumSelfs, List.sum_cons] at this ⊢
        omega
      · split
        · have := ih as (b :: bs) (by simp; omega)
          simp only [List.map_cons, sumTotals, sumSelfs, List.sum_cons] at this ⊢
          simp only [emptyOf_total, emptyOf_self]
          omega
        · have := ih (a :: as) bs (by simp; omega)
          simp only [List.map_cons, sumTotals, sumSelfs, List.sum_cons] at this ⊢
          simp only [emptyOf_total, emptyOf_self]
          omega

/-- on strictly ascending inputs the aligned node ids are strictly ascending, are exactly the union of the two sides'
    ids, and a padded entry stands for an id its side does not have -/
theorem mergeChildrenF_strict : ∀ (n : Nat) (as bs : List Row), as.length + bs.length ≤ n →
    as.Pairwise (fun x y => x.node < y.node) → bs.Pairwise (fun x y => x.node < y.node) →
    (∀ pr ∈ mergeChildrenF n as bs,
        (pr.1 ∈ as ∨ ∀ a ∈ as, a.node ≠ pr.1.node) ∧ (pr.2 ∈ bs ∨ ∀ b ∈ bs, b.node ≠ pr.2.node))
      ∧ ((mergeChildrenF n as bs).map (·.1.node)).Pairwise (· < ·)
      ∧ (∀ x, x ∈ (mergeChildrenF n as bs).map (·.1.node) ↔ x ∈ as.map (·.node) ∨ x ∈ bs.map (·.node))
      ∧ (∀ a ∈ as, ∃ pr ∈ mergeChildrenF n as bs, pr.1 = a)
      ∧ (∀ b ∈ bs, ∃ pr ∈ mergeChildrenF n as bs, pr.2 = b) := by
  intro n
  induction n with
  | zero =>
    intro as bs h _ _
    have ha : as = [] := List.eq_nil_of_length_eq_zero (by omega)
    have hb : bs = [] := List.eq_nil_of_length_eq_zero (by omega)
    subst ha hb
    simp [mergeChildrenF]
  | succ n ih =>
    intro as bs h has hbs
    match as, bs with
    | [], [] => simp [mergeChildrenF]
    | a :: as, [] =>
      have hA := List.pairwise_cons.mp has
      obtain ⟨i1, i2, i3, i4, _⟩ := ih as [] (by simp at h ⊢; omega) hA.2 hbs
      simp only [mergeChildrenF]
      refine ⟨?_, ?_, ?_, ?_, by simp⟩
      · intro pr hpr
        rcases List.mem_cons.mp hpr with rfl | hpr
        · exact ⟨Or.inl (by simp), Or.inr (by simp)⟩
        · have := i1 pr hpr
          exact ⟨this.1.elim (fun h => Or.inl (by simp [h])) (fun h => by
              rcases (i3 pr.1.node).mp (List.mem_map.mpr ⟨pr, hpr, rfl⟩) with h' | h'
              · obtain ⟨a', ha', e⟩ := List.mem_map.mp h'
                exact absurd e (h a' ha')
              · simp at h'), Or.inr (by simp)⟩
      · simp only [List.map_cons]
        refine List.pairwise_cons.mpr ⟨?_, i2⟩
        intro x hx
        rcases (i3 x).mp hx with h' | h'
        · obtain ⟨a', ha', rfl⟩ := List.mem_map.mp h'
          exact hA.1 a' ha'
        · simp at h'
      · intro x
        simp only [List.map_cons, List.mem_cons, i3 x, List.map_nil, List.not_mem_nil, or_false]
      · intro a' ha'
        rcases List.mem_cons.mp ha' with rfl | ha'
        · exact ⟨_, List.mem_cons_self, rfl⟩
        · obtain ⟨pr, hpr, e⟩ := i4 a' ha'
          exact ⟨pr, by simp [hpr], e⟩
    | [], b :: bs =>
      have hB := List.pairwise_cons.mp hbs
      obtain ⟨i1, i2, i3, _, i5⟩ := ih [] bs (by simp at h ⊢; omega) has hB.2
      simp only [mergeChildrenF]
      refine ⟨?_, ?_, ?_, by simp, ?_⟩
      · intro pr hpr
        rcases List.mem_cons.mp hpr with rfl | hpr
        · exact ⟨Or.inr (by simp), Or.inl (by simp)⟩
        · have := i1 pr hpr
          exact ⟨Or.inr (by simp), this.2.elim (fun hh => Or.inl (by simp [hh])) (fun hh => by
              have hok := mergeChildrenF_ok n [] bs (by simp at h ⊢; omega) pr hpr
              rcases hok.right with h' | h'
              · exact absurd rfl (hh pr.2 h')
              · simp at h')⟩
      · simp only [List.map_cons, emptyOf_node]
        refine List.pairwise_cons.mpr ⟨?_, i2⟩
        intro x hx
        rcases (i3 x).mp hx with h' | h'
        · simp at h'
        · obtain ⟨b', hb', rfl⟩ := List.mem_map.mp h'
          exact hB.1 b' hb'
      · intro x
        simp only [List.map_cons, List.mem_cons, i3 x, List.map_nil, List.not_mem_nil, false_or, emptyOf_node]
      · intro b' hb'
        rcases List.mem_cons.mp hb' with rfl | hb'
        · exact ⟨_, List.mem_cons_self, rfl⟩
        · obtain ⟨pr, hpr, e⟩ := i5 b' hb'
          exact ⟨pr, by simp [hpr], e⟩
    | a :: as, b :: bs =>
      simp only [List.length_cons] at h
      have hA := List.pairwise_cons.mp has
      have hB := List.pairwise_cons.mp hbs
      simp only [mergeChildrenF]
      split
      · rename_i hab
        obtain ⟨i1, i2, i3, i4, i5⟩ := ih as bs (by omega) hA.2 hB.2
        refine ⟨?_, ?_, ?_, ?_, ?_⟩
        · intro pr hpr
          rcases List.mem_cons.mp hpr with rfl | hpr
          · exact ⟨Or.inl (by simp), Or.inl (by simp)⟩
          · have hgt : a.node < pr.1.node := by
              rcases (i3 pr.1.node).mp (List.mem_map.mpr ⟨pr, hpr, rfl⟩) with h' | h'
              · obtain ⟨a', ha', e⟩ := List.mem_map.mp h'
                rw [← e]; exact hA.1 a' ha'
              · obtain ⟨b', hb', e⟩ := List.mem_map.mp h'
                rw [← e, hab]; exact hB.1 b' hb'
            have hn := (mergeChildrenF_ok n as bs (by omega) pr hpr).node
            have := i1 pr hpr
            refine ⟨this.1.elim (fun h => Or.inl (by simp [h])) (fun h => Or.inr ?_),
                    this.2.elim (fun h => Or.inl (by simp [h])) (fun h => Or.inr ?_)⟩
            · intro a' ha'
              rcases List.mem_cons.mp ha' with rfl | ha'
              · omega
              · exact h a' ha'
            · intro b' hb'
              rcases List.mem_cons.mp hb' with rfl | hb'
              · omega
              · exact h b' hb'
        · simp only [List.map_cons]
          refine List.pairwise_cons.mpr ⟨?_, i2⟩
          intro x hx
          rcases (i3 x).mp hx with h' | h'
          · obtain ⟨a', ha', rfl⟩ := List.mem_map.mp h'
            exact hA.1 a' ha'
          · obtain ⟨b', hb', rfl⟩ := List.mem_map.mp h'
            rw [hab]; exact hB.1 b' hb'
        · intro x
          simp only [List.map_cons, List.mem_cons, i3 x, hab]
          constructor
          · rintro (h' | h' | h')
            · exact Or.inr (Or.inl h')
            · exact Or.inl (Or.inr h')
            · exact Or.inr (Or.inr h')
          · rintro ((h' | h') | (h' | h'))
            · exact Or.inl h'
            · exact Or.inr (Or.inl h')
            · exact Or.inl h'
            · exact Or.inr (Or.inr h')
        · intro a' ha'
          rcases List.mem_cons.mp ha' with rfl | ha'
          · exact ⟨_, List.mem_cons_self, rfl⟩
          · obtain ⟨pr, hpr, e⟩ := i4 a' ha'
            exact ⟨pr, by simp [hpr], e⟩
        · intro b' hb'
          rcases List.mem_cons.mp hb' with rfl | hb'
          · exact ⟨_, List.mem_cons_self, rfl⟩
          · obtain ⟨pr, hpr, e⟩ := i5 b' hb'
            exact ⟨pr, by simp [hpr], e⟩
      · rename_i hab
        split
        · rename_i hlt
          obtain ⟨i1, i2, i3, i4, i5⟩ := ih as (b :: bs) (by simp; omega) hA.2 hbs
          refine ⟨?_, ?_, ?_, ?_, ?_⟩
          · intro pr hpr
            rcases List.mem_cons.mp hpr with rfl | hpr
            · refine ⟨Or.inl (by simp), Or.inr ?_⟩
              intro b' hb'
              simp only [emptyOf_node]
              rcases List.mem_cons.mp hb' with rfl | hb'
              · omega
              · have := hB.1 b' hb'; omega
            · have hgt : a.node < pr.1.node := by
                rcases (i3 pr.1.node).mp (List.mem_map.mpr ⟨pr, hpr, rfl⟩) with h' | h'
                · obtain ⟨a', ha', e⟩ := List.mem_map.mp h'
                  rw [← e]; exact hA.1 a' ha'
                · obtain ⟨b', hb', e⟩ := List.mem_map.mp h'
                  rw [← e]
                  rcases List.mem_cons.mp hb' with rfl | hb'
                  · exact hlt
                  · exact Nat.lt_trans hlt (hB.1 b' hb')
              have := i1 pr hpr
              refine ⟨this.1.elim (fun h => Or.inl (by simp [h])) (fun h => Or.inr ?_), this.2⟩
              intro a' ha'
              rcases List.mem_cons.mp ha' with rfl | ha'
              · omega
              · exact h a' ha'
          · simp only [List.map_cons]
            refine List.pairwise_cons.mpr ⟨?_, i2⟩
            intro x hx
            rcases (i3 x).mp hx with h' | h'
            · obtain ⟨a', ha', rfl⟩ := List.mem_map.mp h'
              exact hA.1 a' ha'
            · obtain ⟨b', hb', rfl⟩ := List.mem_map.mp h'
              rcases List.mem_cons.mp hb' with rfl | hb'
              · exact hlt
              · exact Nat.lt_trans hlt (hB.1 b' hb')
          · intro x
            simp only [List.map_cons, List.mem_cons, i3 x]
            constructor
            · rintro (h' | h' | h')
              · exact Or.inl (Or.inl h')
              · exact Or.inl (Or.inr h')
              · exact Or.inr h'
            · rintro ((h' | h') | h')
              · exact Or.inl h'
              · exact Or.inr (Or.inl h')
              · exact Or.inr (Or.inr h')
          · intro a' ha'
            rcases List.mem_cons.mp ha' with rfl | ha'
            · exact ⟨_, List.mem_cons_self, rfl⟩
            · obtain ⟨pr, hpr, e⟩ := i4 a' ha'
              exact ⟨pr, by simp [hpr], e⟩
          · intro b' hb'
            obtain ⟨pr, hpr, e⟩ := i5 b' hb'
            exact ⟨pr, by simp [hpr], e⟩
        · rename_i hnlt
          have hgt : b.node < a.node := by omega
          obtain ⟨i1, i2, i3, i4, i5⟩ := ih (a :: as) bs (by simp; omega) has hB.2
          refine ⟨?_, ?_, ?_, ?_, ?_⟩
          · intro pr hpr
            rcases List.mem_cons.mp hpr with rfl | hpr
            · refine ⟨Or.inr ?_, Or.inl (by simp)⟩
              intro a' ha'
              simp only [emptyOf_node]
              rcases List.mem_cons.mp ha' with rfl | ha'
              · omega
              · have := hA.1 a' ha'; omega
            · have hgt' : b.node < pr.1.node := by
                rcases (i3 pr.1.node).mp (List.mem_map.mpr ⟨pr, hpr, rfl⟩) with h' | h'
                · obtain ⟨a', ha', e⟩ := List.mem_map.mp h'
                  rw [← e]
                  rcases List.mem_cons.mp ha' with rfl | ha'
                  · exact hgt
                  · exact Nat.lt_trans hgt (hA.1 a' ha')
                · obtain ⟨b', hb', e⟩ := List.mem_map.mp h'
                  rw [← e]; exact hB.1 b' hb'
              have hn := (mergeChildrenF_ok n (a :: as) bs (by simp; omega) pr hpr).node
              have := i1 pr hpr
              refine ⟨this.1, this.2.elim (fun h => Or.inl (by simp [h])) (fun h => Or.inr ?_)⟩
              intro b' hb'
              rcases List.mem_cons.mp hb' with rfl | hb'
              · omega
              · exact h b' hb'
          · simp only [List.map_cons, emptyOf_node]
            refine List.pairwise_cons.mpr ⟨?_, i2⟩
            intro x hx
            rcases (i3 x).mp hx with h' | h'
            · obtain ⟨a', ha', rfl⟩ := List.mem_map.mp h'
              rcases List.mem_cons.mp ha' with rfl | ha'
              · exact hgt
              · exact Nat.lt_trans hgt (hA.1 a' ha')
            · obtain ⟨b', hb', rfl⟩ := List.mem_map.mp h'
              exact hB.1 b' hb'
          · intro x
            simp only [List.map_cons, List.mem_cons, i3 x, emptyOf_node]
            constructor
            · rintro (h' | h' | h')
              · exact Or.inr (Or.inl h')
              · exact Or.inl h'
              · exact Or.inr (Or.inr h')
            · rintro (h' | h' | h')
              · exact Or.inr (Or.inl h')
              · exact Or.inl h'
              · exact Or.inr (Or.inr h')
          · intro a' ha'
            obtain ⟨pr, hpr, e⟩ := i4 a' ha'
            exact ⟨pr, by simp [hpr], e⟩
          · intro b' hb'
            rcases List.mem_cons.mp hb' with rfl | hb'
            · exact ⟨_, List.mem_cons_self, rfl⟩
            · obtain ⟨pr, hpr, e⟩ := i5 b' hb'
              exact ⟨pr, by simp [hpr], e⟩

end Qryn.Prof
