import Qryn.Proofs.ProfDiffMain
/-! Both sides of the diff are weight-conserving flame graphs whose levels nest, when the input trees are. -/
namespace Qryn.Prof

/-- what the theorems need of an input tree: weight is conserved at every node, weights are non-negative
    (`assertPositive` checks the self values; totals follow), parents exist, no node id is the root's -/
structure SideFacts (T : List Row) : Prop where
  cons : ∀ e ∈ T, e.total = e.self + sumTotals (children T e.node)
  nonneg : ∀ e ∈ T, 0 ≤ e.self ∧ 0 ≤ e.total
  closed : ∀ e ∈ T, e.parent ≠ 0 → ∃ e' ∈ T, e'.node = e.parent
  nonzero : ∀ e ∈ T, e.node ≠ 0

theorem sumTotals_reverse (l : List Row) : sumTotals l.reverse = sumTotals l :=
  sumTotals_perm (List.reverse_perm l)

section
variable {T1 T2 : List Row}
variable (F1 : SideFacts T1) (F2 : SideFacts T2) (hc : Compatible T1 T2)
variable (h1 : (T1.map rkey).Nodup) (h2 : (T2.map rkey).Nodup)
include F1 F2 hc h1 h2

/-- the left half of every item conserves weight over the left halves of its children, which are non-negative -/
theorem left_ok : ∀ (i : Nat), ∀ q ∈ itemLevel (kidsL T1 T2) (kidsR T1 T2) i [rootOf T1 T2],
    q.left.total = q.left.self + sumTotals (kidsL T1 T2 q.left.node)
      ∧ 0 ≤ q.left.self ∧ ∀ c ∈ kidsL T1 T2 q.left.node, 0 ≤ c.total := by
  intro i q hq
  have kidsnn : ∀ n, ∀ c ∈ kidsL T1 T2 n, 0 ≤ c.total := by
    intro n c hcm
    obtain ⟨pr, hpr, rfl⟩ := List.mem_map.mp hcm
    rcases ((alignedSpec T1 T2 h1 h2 n).pair pr hpr).2.2.2.1 with h | h
    · exact (F1.nonneg _ (mem_children.mp h).1).2
    · rw [h.1, emptyOf_total]; exact Int.le_refl 0
  obtain ⟨_, _, hor⟩ := level_inv T1 T2 h1 h2 i q hq
  rcases hor with rfl | ⟨p, hp⟩
  · simp only [itemLevel, List.mem_singleton] at hq
    subst hq
    exact ⟨by simp [rootOf, rootItem, ticks], by simp [rootOf, rootItem], kidsnn _⟩
  · have S := alignedSpec T1 T2 h1 h2 p
    obtain ⟨hn, _, _, hL, _⟩ := S.pair _ hp
    simp only [] at hn hL
    rcases hL with h | h
    · have ha := (mem_children.mp h).1
      rw [(alignedSpec T1 T2 h1 h2 q.left.node).sumL]
      exact ⟨F1.cons _ ha, (F1.nonneg _ ha).1, kidsnn _⟩
    · -- a padded node: its side has no node of that id, hence no children there either
      have hno : children T1 q.left.node = [] := by
        apply List.eq_nil_iff_forall_not_mem.mpr
        intro c hcm
        have hcT := mem_children.mp hcm
        obtain ⟨b, hb, hbn⟩ : ∃ b ∈ children T2 p, b.node = q.left.node := by
          rcases (S.ids q.left.node).mp (List.mem_map.mpr ⟨(q.left, q.right), hp, rfl⟩) with h' | h'
          · obtain ⟨a, ha, e⟩ := List.mem_map.mp h'
            exact absurd e (h.2 a ha)
          · obtain ⟨b, hb, e⟩ := List.mem_map.mp h'
            exact ⟨b, hb, e⟩
        have hbT := mem_children.mp hb
        have hnz : q.left.node ≠ 0 := by rw [← hbn]; exact F2.nonzero b hbT.1
        obtain ⟨c', hc', hcn⟩ := F1.closed c hcT.1 (by rw [hcT.2]; exact hnz)
        have := hc c' hc' b hbT.1 (by rw [hcn, hcT.2, hbn])
        exact h.2 c' (mem_children.mpr ⟨hc', by rw [this, hbT.2]⟩) (by rw [hcn, hcT.2])
      rw [(alignedSpec T1 T2 h1 h2 q.left.node).sumL, hno, h.1]
      exact ⟨by simp [emptyOf, sumTotals], by simp [emptyOf], kidsnn _⟩

theorem right_ok : ∀ (i : Nat), ∀ q ∈ itemLevel (kidsL T1 T2) (kidsR T1 T2) i [rootOf T1 T2],
    q.right.total = q.right.self + sumTotals (kidsR T1 T2 q.right.node)
      ∧ 0 ≤ q.right.self ∧ ∀ c ∈ kidsR T1 T2 q.right.node, 0 ≤ c.total := by
  intro i q hq
  have kidsnn : ∀ n, ∀ c ∈ kidsR T1 T2 n, 0 ≤ c.total := by
    intro n c hcm
    obtain ⟨pr, hpr, rfl⟩ := List.mem_map.mp hcm
    rcases ((alignedSpec T1 T2 h1 h2 n).pair pr hpr).2.2.2.2 with h | h
    · exact (F2.nonneg _ (mem_children.mp h).1).2
    · rw [h.1, emptyOf_total]; exact Int.le_refl 0
  obtain ⟨_, _, hor⟩ := level_inv T1 T2 h1 h2 i q hq
  rcases hor with rfl | ⟨p, hp⟩
  · simp only [itemLevel, List.mem_singleton] at hq
    subst hq
    exact ⟨by simp [rootOf, rootItem, ticks], by simp [rootOf, rootItem], kidsnn _⟩
  · have S := alignedSpec T1 T2 h1 h2 p
    obtain ⟨hn, _, _, _, hR⟩ := S.pair _ hp
    simp only [] at hn hR
    rcases hR with h | h
    · have hb := (mem_children.mp h).1
      rw [(alignedSpec T1 T2 h1 h2 q.right.node).sumR]
      exact ⟨F2.cons _ hb, (F2.nonneg _ hb).1, kidsnn _⟩
    · have hno : children T2 q.right.node = [] := by
        apply List.eq_nil_iff_forall_not_mem.mpr
        intro c hcm
        have hcT := mem_children.mp hcm
        obtain ⟨a, ha, han⟩ : ∃ a ∈ children T1 p, a.node = q.right.node := by
          rcases (S.ids q.left.node).mp (List.mem_map.mpr ⟨(q.left, q.right), hp, rfl⟩) with h' | h'
          · obtain ⟨a, ha, e⟩ := List.mem_map.mp h'
            exact ⟨a, ha, by rw [e, hn]⟩
          · obtain ⟨b, hb, e⟩ := List.mem_map.mp h'
            exact absurd (by rw [e, hn]) (h.2 b hb)
        have haT := mem_children.mp ha
        have hnz : q.right.node ≠ 0 := by rw [← han]; exact F1.nonzero a haT.1
        obtain ⟨c', hc', hcn⟩ := F2.closed c hcT.1 (by rw [hcT.2]; exact hnz)
        have := hc a haT.1 c' hc' (by rw [hcn, hcT.2, han])
        exact h.2 c' (mem_children.mpr ⟨hc', by rw [← this, haT.2]⟩) (by rw [hcn, hcT.2])
      rw [(alignedSpec T1 T2 h1 h2 q.right.node).sumR, hno, h.1]
      exact ⟨by simp [emptyOf, sumTotals], by simp [emptyOf], kidsnn _⟩

omit F1 F2 hc in
theorem level_views (i : Nat) :
    (itemLevel (kidsL T1 T2) (kidsR T1 T2) (i + 1) [rootOf T1 T2]).map viewL
        = sideNext (fun n => (kidsL T1 T2 n).reverse) ((itemLevel (kidsL T1 T2) (kidsR T1 T2) i [rootOf T1 T2]).map viewL)
      ∧ (itemLevel (kidsL T1 T2) (kidsR T1 T2) (i + 1) [rootOf T1 T2]).map viewR
        = sideNext (fun n => (kidsR T1 T2 n).reverse) ((itemLevel (kidsL T1 T2) (kidsR T1 T2) i [rootOf T1 T2]).map viewR) := by
  rw [itemLevel_succ]
  unfold nextItems sideNext
  rw [List.map_flatMap, List.map_flatMap, List.flatMap_map, List.flatMap_map]
  constructor
  · apply flatMap_congr'
    intro q hq
    have hs := (level_inv T1 T2 h1 h2 i q hq).1
    rw [(kidItems_aligned T1 T2 q hs).2.1]; rfl
  · apply flatMap_congr'
    intro q hq
    have hs := (level_inv T1 T2 h1 h2 i q hq).1
    rw [(kidItems_aligned T1 T2 q hs).2.2.1]
    show placeFrom q.xr (kidsR T1 T2 q.left.node).reverse = placeFrom q.xr (kidsR T1 T2 q.right.node).reverse
    rw [hs]

/-- every level of the left side is ordered without overlap -/
theorem left_ordered : ∀ (i : Nat), SideOrdered ((itemLevel (kidsL T1 T2) (kidsR T1 T2) i [rootOf T1 T2]).map viewL) := by
  intro i
  induction i with
  | zero => simp [itemLevel, SideOrdered]
  | succ i ih =>
    rw [(level_views h1 h2 i).1]
    refine (sideNext_nest _ _ ih ?_).2
    intro s hs
    obtain ⟨q, hq, rfl⟩ := List.mem_map.mp hs
    have := left_ok F1 F2 hc h1 h2 i q hq
    simp only [viewL, sumTotals_reverse]
    exact ⟨by omega, fun c hcm => this.2.2 c (List.mem_reverse.mp hcm)⟩

theorem right_ordered : ∀ (i : Nat), SideOrdered ((itemLevel (kidsL T1 T2) (kidsR T1 T2) i [rootOf T1 T2]).map viewR) := by
  intro i
  induction i with
  | zero => simp [itemLevel, SideOrdered]
  | succ i ih =>
    rw [(level_views h1 h2 i).2]
    refine (sideNext_nest _ _ ih ?_).2
    intro s hs
    obtain ⟨q, hq, rfl⟩ := List.mem_map.mp hs
    have := right_ok F1 F2 hc h1 h2 i q hq
    simp only [viewR, sumTotals_reverse]
    exact ⟨by omega, fun c hcm => this.2.2 c (List.mem_reverse.mp hcm)⟩

/-- **the levels nest on the left side**: every bar of level i+1 lies inside the left span of a bar of level i that
    is its parent, and the bars of a level do not overlap -/
theorem left_nest (i : Nat) :
    (∀ c ∈ (itemLevel (kidsL T1 T2) (kidsR T1 T2) (i + 1) [rootOf T1 T2]).map viewL,
        ∃ p ∈ (itemLevel (kidsL T1 T2) (kidsR T1 T2) i [rootOf T1 T2]).map viewL,
          c.1.parent = p.1.node ∧ p.2 ≤ c.2 ∧ c.2 + c.1.total ≤ p.2 + p.1.total)
      ∧ SideOrdered ((itemLevel (kidsL T1 T2) (kidsR T1 T2) (i + 1) [rootOf T1 T2]).map viewL) := by
  refine ⟨?_, left_ordered F1 F2 hc h1 h2 (i + 1)⟩
  rw [(level_views h1 h2 i).1]
  have := (sideNext_nest (fun n => (kidsL T1 T2 n).reverse) _ (left_ordered F1 F2 hc h1 h2 i) (by
    intro s hs
    obtain ⟨q, hq, rfl⟩ := List.mem_map.mp hs
    have := left_ok F1 F2 hc h1 h2 i q hq
    simp only [viewL, sumTotals_reverse]
    exact ⟨by omega, fun c hcm => this.2.2 c (List.mem_reverse.mp hcm)⟩)).1
  intro c hcm
  obtain ⟨p, hp, hmem, hlo, hhi⟩ := this c hcm
  refine ⟨p, hp, ?_, hlo, hhi⟩
  simp only [List.mem_reverse, kidsL, List.mem_map] at hmem
  obtain ⟨pr, hpr, e⟩ := hmem
  rw [← e]
  exact ((alignedSpec T1 T2 h1 h2 _).pair pr hpr).2.1

theorem right_nest (i : Nat) :
    (∀ c ∈ (itemLevel (kidsL T1 T2) (kidsR T1 T2) (i + 1) [rootOf T1 T2]).map viewR,
        ∃ p ∈ (itemLevel (kidsL T1 T2) (kidsR T1 T2) i [rootOf T1 T2]).map viewR,
          c.1.parent = p.1.node ∧ p.2 ≤ c.2 ∧ c.2 + c.1.total ≤ p.2 + p.1.total)
      ∧ SideOrdered ((itemLevel (kidsL T1 T2) (kidsR T1 T2) (i + 1) [rootOf T1 T2]).map viewR) := by
  refine ⟨?_, right_ordered F1 F2 hc h1 h2 (i + 1)⟩
  rw [(level_views h1 h2 i).2]
  have := (sideNext_nest (fun n => (kidsR T1 T2 n).reverse) _ (right_ordered F1 F2 hc h1 h2 i) (by
    intro s hs
    obtain ⟨q, hq, rfl⟩ := List.mem_map.mp hs
    have := right_ok F1 F2 hc h1 h2 i q hq
    simp only [viewR, sumTotals_reverse]
    exact ⟨by omega, fun c hcm => this.2.2 c (List.mem_reverse.mp hcm)⟩)).1
  intro c hcm
  obtain ⟨p, hp, hmem, hlo, hhi⟩ := this c hcm
  refine ⟨p, hp, ?_, hlo, hhi⟩
  simp only [List.mem_reverse, kidsR, List.mem_map] at hmem
  obtain ⟨pr, hpr, e⟩ := hmem
  rw [← e]
  exact ((alignedSpec T1 T2 h1 h2 _).pair pr hpr).2.2.1

omit F1 F2 hc in
/-- the bars `computeFlameGraphDiff` files under level `k` are exactly generation `k` of the walk, in order -/
theorem walk_filter_level (n k : Nat) (hk : k < n) :
    (walkItems (kidsL T1 T2) (kidsR T1 T2) n [rootOf T1 T2]).filter (fun q => q.level == k)
      = itemLevel (kidsL T1 T2) (kidsR T1 T2) k [rootOf T1 T2] := by
  have hlev : ∀ i, ∀ q ∈ itemLevel (kidsL T1 T2) (kidsR T1 T2) i [rootOf T1 T2], q.level = i :=
    fun i q hq => (level_inv T1 T2 h1 h2 i q hq).2.1
  have hall : ∀ i, i = k → (itemLevel (kidsL T1 T2) (kidsR T1 T2) i [rootOf T1 T2]).filter (fun q => q.level == k)
      = itemLevel (kidsL T1 T2) (kidsR T1 T2) i [rootOf T1 T2] := by
    intro i e
    exact List.filter_eq_self.mpr (fun q hq => by simp [hlev i q hq, e])
  have hnone : ∀ i, i ≠ k → (itemLevel (kidsL T1 T2) (kidsR T1 T2) i [rootOf T1 T2]).filter (fun q => q.level == k) = [] := by
    intro i e
    exact List.filter_eq_nil_iff.mpr (fun q hq => by simp [hlev i q hq, e])
  unfold walkItems
  induction n with
  | zero => omega
  | succ n ih =>
    rw [List.range_succ, List.map_append, List.flatten_append, List.filter_append]
    simp only [List.map_cons, List.map_nil, List.flatten_cons, List.flatten_nil, List.append_nil]
    by_cases e : k = n
    · subst e
      rw [hall k rfl]
      have : (((List.range k).map (fun i => itemLevel (kidsL T1 T2) (kidsR T1 T2) i [rootOf T1 T2])).flatten).filter
          (fun q => q.level == k) = [] := by
        apply List.filter_eq_nil_iff.mpr
        intro q hq
        obtain ⟨l, hl, hql⟩ := List.mem_flatten.mp hq
        obtain ⟨i, hi, rfl⟩ := List.mem_map.mp hl
        have := List.mem_range.mp hi
        simp [hlev i q hql]; omega
      rw [this]; simp
    · rw [hnone n (fun e' => e e'.symm), ih (by omega)]; simp

end
end Qryn.Prof
