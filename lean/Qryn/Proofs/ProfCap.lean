import Qryn.Proofs.ProfBFSComplete
import Qryn.Prof.Diff
import Qryn.Prof.TypeSel
/-! The caps of `MergeTrie` (nodes, names), `maxSelf`, and the first-by-name projection. -/
namespace Qryn.Prof

/-! ### the node cap: the capped merge is the plain merge of a row prefix -/

theorem upsertBy_rkey_length (T : List Row) (r : Row)
    (h : (T.any fun a => decide ((a.parent, a.node) = (r.parent, r.node))) = true) :
    (upsertBy (fun a : Row => (a.parent, a.node)) (fun r : Row => (r.parent, r.node)) id addRow T r).length = T.length := by
  unfold upsertBy
  rw [if_pos (by simpa using h)]
  simp

theorem mergeTrie_cons (T : List Row) (r : Row) (R : List Row) :
    mergeTrie T (r :: R) = mergeTrie (upsertBy (fun a : Row => (a.parent, a.node)) (fun r : Row => (r.parent, r.node)) id addRow T r) R := by
  simp [mergeTrie, foldUpsert]

/-- **the cut.** `MergeTrie` under the node cap processes a prefix of the rows exactly as without a cap and ignores
    everything after it; the prefix ends at the first row that would add a node when `cap` nodes exist (that row and
    all later ones — also those that would only add weight to nodes already present — are dropped). -/
theorem mergeTrieCap_prefix (cap : Nat) : ∀ (R T : List Row),
    ∃ n, n ≤ R.length ∧ mergeTrieCap cap T T.length R = mergeTrie T (R.take n)
      ∧ (n = R.length ∨ (cap ≤ (mergeTrie T (R.take n)).length
            ∧ ∃ r, R[n]? = some r ∧ ∀ a ∈ mergeTrie T (R.take n), rkey a ≠ rkey r)) := by
  intro R
  induction R with
  | nil => intro T; exact ⟨0, by simp, by simp [mergeTrieCap, mergeTrie, foldUpsert], Or.inl rfl⟩
  | cons r R ih =>
    intro T
    unfold mergeTrieCap
    by_cases hany : (T.any fun a => decide ((a.parent, a.node) = (r.parent, r.node))) = true
    · rw [if_pos hany]
      obtain ⟨n, hn, he, hor⟩ := ih (upsertBy (fun a : Row => (a.parent, a.node)) (fun r : Row => (r.parent, r.node)) id addRow T r)
      rw [upsertBy_rkey_length T r hany] at he
      refine ⟨n + 1, by simp; omega, ?_, ?_⟩
      · rw [he, List.take_succ_cons, mergeTrie_cons]
      · rw [List.take_succ_cons, mergeTrie_cons]
        rcases hor with h | h
        · left; simp [h]
        · right; simpa using h
    · rw [if_neg hany]
      by_cases hcap : T.length ≥ cap
      · rw [if_pos hcap]
        refine ⟨0, by simp, by simp [mergeTrie, foldUpsert], Or.inr ⟨by simpa [mergeTrie, foldUpsert] using hcap, r, by simp, ?_⟩⟩
        intro a ha
        simp only [List.take_zero, mergeTrie, foldUpsert, List.foldl_nil] at ha
        intro e
        apply hany
        simp only [List.any_eq_true, decide_eq_true_eq]
        exact ⟨a, ha, by simpa [rkey] using e⟩
      · rw [if_neg hcap]
        obtain ⟨n, hn, he, hor⟩ := ih (T ++ [r])
        have hup : upsertBy (fun a : Row => (a.parent, a.node)) (fun r : Row => (r.parent, r.node)) id addRow T r = T ++ [r] := by
          unfold upsertBy
          rw [if_neg (by simpa using hany)]; rfl
        rw [List.length_append, List.length_singleton] at he
        refine ⟨n + 1, by simp; omega, ?_, ?_⟩
        · rw [he, List.take_succ_cons, mergeTrie_cons, hup]
        · rw [List.take_succ_cons, mergeTrie_cons, hup]
          rcases hor with h | h
          · left; simp [h]
          · right; simpa using h

/-- rows whose keys are pairwise different and not in the tree are appended one by one until the cap -/
theorem mergeTrieCap_fresh (cap : Nat) : ∀ (R T : List Row),
    ((T ++ R).map rkey).Nodup → mergeTrieCap cap T T.length R = T ++ R.take (cap - T.length) := by
  intro R
  induction R with
  | nil => intro T _; simp [mergeTrieCap]
  | cons r R ih =>
    intro T hnd
    unfold mergeTrieCap
    have hany : ¬ (T.any fun a => decide ((a.parent, a.node) = (r.parent, r.node))) = true := by
      intro h
      simp only [List.any_eq_true, decide_eq_true_eq] at h
      obtain ⟨a, ha, e⟩ := h
      rw [List.map_append, List.nodup_append] at hnd
      exact hnd.2.2 (rkey a) (List.mem_map.mpr ⟨a, ha, rfl⟩) (rkey r) (by simp) (by simpa [rkey] using e)
    rw [if_neg hany]
    by_cases hcap : T.length ≥ cap
    · rw [if_pos hcap]
      have : cap - T.length = 0 := by omega
      simp [this]
    · rw [if_neg hcap]
      have := ih (T ++ [r]) (by simpa using hnd)
      rw [List.length_append, List.length_singleton] at this
      rw [this]
      have h2 : cap - T.length = (cap - (T.length + 1)) + 1 := by omega
      rw [h2, List.take_succ_cons]
      simp

/-- with duplicate-free keys the plain merge leaves the rows as they are -/
theorem mergeTrie_nodup_id (R : List Row) (hnd : (R.map rkey).Nodup) : mergeTrie [] R = R := by
  have := mergeTrieCap_fresh (R.length) R [] (by simpa using hnd)
  rw [show ([] : List Row).length = 0 from rfl] at this
  rw [mergeTrieCap_eq _ R [] 0 (by simp)] at this
  simpa using this

/-- `cap + 1` children of the root, each of weight 1 -/
def capWitness (n : Nat) : List Row := (List.range n).map (fun i => ⟨0, 1, i + 1, 1, 1⟩)

theorem capWitness_nodup (n : Nat) : ((capWitness n).map rkey).Nodup := by
  unfold capWitness
  rw [List.map_map]
  unfold List.Nodup
  rw [List.pairwise_map]
  refine (List.nodup_range (n := n)).imp ?_
  intro a b hne e
  simp only [Function.comp, rkey, Prod.mk.injEq] at e
  omega

theorem capWitness_take (n k : Nat) (h : k ≤ n) : (capWitness n).take k = capWitness k := by
  unfold capWitness
  rw [← List.map_take, List.take_range]
  simp [Nat.min_eq_left h]

theorem capWitness_rootTotal (n : Nat) : rootTotal (capWitness n) = n := by
  unfold rootTotal children sumTotals capWitness
  induction n with
  | zero => simp
  | succ n ih =>
    rw [List.range_succ, List.map_append, List.filter_append, List.map_append, List.sum_append, ih]
    simp

theorem capWitness_cut (cap : Nat) : rootTotal (mergeTrieCap cap [] 0 (capWitness (cap + 1))) = cap := by
  have := mergeTrieCap_fresh cap (capWitness (cap + 1)) [] (by simpa using capWitness_nodup (cap + 1))
  rw [show ([] : List Row).length = 0 from rfl] at this
  rw [this]
  simp only [List.nil_append, Nat.sub_zero]
  rw [capWitness_take _ _ (by omega), capWitness_rootTotal]

theorem capWitness_breaks (cap : Nat) :
    rootTotal (mergeTrieCap cap [] 0 (capWitness (cap + 1)))
      ≠ fsum (capWitness (cap + 1)) (fun r => decide (r.parent = 0)) (·.total) := by
  rw [capWitness_cut]
  have h2 : fsum (capWitness (cap + 1)) (fun r => decide (r.parent = 0)) (·.total) = ((cap + 1 : Nat) : Int) :=
    capWitness_rootTotal _
  rw [h2]
  omega

theorem children_take_drop (R : List Row) (n x : Nat) :
    sumTotals (children R x) = sumTotals (children (R.take n) x) + sumTotals (children (R.drop n) x) := by
  conv => lhs; rw [← List.take_append_drop n R]
  unfold children sumTotals
  rw [List.filter_append, List.map_append, List.sum_append]

/-! ### the name cap -/

theorem mergeNameTab_cons (cap : Nat) (nt : NameTab) (f : Nat × String) (fns : List (Nat × String)) :
    mergeNameTab cap nt (f :: fns)
      = mergeNameTab cap (if nt.length < cap then (if NameTab.has nt f.1 then nt else nt ++ [f]) else nt) fns := by
  simp [mergeNameTab]

theorem mergeNameTab_full (cap : Nat) : ∀ (fns : List (Nat × String)) (nt : NameTab), cap ≤ nt.length →
    mergeNameTab cap nt fns = nt := by
  intro fns
  induction fns with
  | nil => intro nt _; rfl
  | cons f fns ih =>
    intro nt h
    rw [mergeNameTab_cons, if_neg (by omega)]
    exact ih nt h

/-- the uncapped table extends the table it starts from -/
theorem mergeNameTab_prefix (cap : Nat) : ∀ (fns : List (Nat × String)) (nt : NameTab),
    ∃ ext, mergeNameTab cap nt fns = nt ++ ext := by
  intro fns
  induction fns with
  | nil => intro nt; exact ⟨[], by simp [mergeNameTab]⟩
  | cons f fns ih =>
    intro nt
    rw [mergeNameTab_cons]
    split
    · split
      · exact ih nt
      · obtain ⟨ext, he⟩ := ih (nt ++ [f])
        exact ⟨[f] ++ ext, by rw [he]; simp⟩
    · exact ih nt

theorem mergeNameTab_length_le (cap : Nat) : ∀ (fns : List (Nat × String)) (nt : NameTab),
    (mergeNameTab cap nt fns).length ≤ nt.length + fns.length := by
  intro fns
  induction fns with
  | nil => intro nt; simp [mergeNameTab]
  | cons f fns ih =>
    intro nt
    rw [mergeNameTab_cons]
    split
    · split
      · have := ih nt; simp; omega
      · have := ih (nt ++ [f]); simp at this ⊢; omega
    · have := ih nt; simp; omega

/-- **the name cut.** Under the name cap the table is the first `cap` entries of the table built without a cap
    (`big` = any bound that is never reached): functions beyond it get no entry, and `nameIndex` reads 0 for them —
    their bars carry the name index of "total". -/
theorem mergeNameTab_take (cap big : Nat) : ∀ (fns : List (Nat × String)) (nt : NameTab),
    nt.length ≤ cap → nt.length + fns.length ≤ big →
    mergeNameTab cap nt fns = (mergeNameTab big nt fns).take cap := by
  intro fns
  induction fns with
  | nil => intro nt h _; simp [mergeNameTab, List.take_of_length_le h]
  | cons f fns ih =>
    intro nt h hb
    simp only [List.length_cons] at hb
    rw [mergeNameTab_cons, mergeNameTab_cons, if_pos (show nt.length < big by omega)]
    by_cases hc : nt.length < cap
    · rw [if_pos hc]
      split
      · exact ih nt h (by omega)
      · exact ih (nt ++ [f]) (by simp; omega) (by simp; omega)
    · rw [if_neg hc]
      have hlen : nt.length = cap := by omega
      rw [mergeNameTab_full cap fns nt (by omega)]
      split
      · obtain ⟨ext, he⟩ := mergeNameTab_prefix big fns nt
        rw [he, List.take_append_of_le_length (by omega), List.take_of_length_le (by omega)]
      · obtain ⟨ext, he⟩ := mergeNameTab_prefix big fns (nt ++ [f])
        rw [he, List.append_assoc, List.take_append_of_le_length (by omega), List.take_of_length_le (by omega)]

/-! ### `maxSelf` -/

theorem maxSelf_ge_init (m : Int) (rows : List Row) : m ≤ maxSelf m rows := by
  induction rows generalizing m with
  | nil => simp [maxSelf]
  | cons r rows ih =>
    simp only [maxSelf, List.foldl_cons]
    have := ih (if m < r.self then r.self else m)
    simp only [maxSelf] at this
    have h2 : m ≤ (if m < r.self then r.self else m) := by split <;> omega
    omega

theorem maxSelf_ge_row (m : Int) (rows : List Row) : ∀ r ∈ rows, r.self ≤ maxSelf m rows := by
  induction rows generalizing m with
  | nil => intro r hr; simp at hr
  | cons x rows ih =>
    intro r hr
    simp only [maxSelf, List.foldl_cons]
    rcases List.mem_cons.mp hr with rfl | hr'
    · have := maxSelf_ge_init (if m < r.self then r.self else m) rows
      simp only [maxSelf] at this
      have h2 : r.self ≤ (if m < r.self then r.self else m) := by split <;> omega
      omega
    · exact ih _ r hr'

theorem maxSelf_attained (m : Int) (rows : List Row) : maxSelf m rows = m ∨ ∃ r ∈ rows, maxSelf m rows = r.self := by
  induction rows generalizing m with
  | nil => left; rfl
  | cons x rows ih =>
    simp only [maxSelf, List.foldl_cons]
    rcases ih (if m < x.self then x.self else m) with h | ⟨r, hr, h⟩
    · simp only [maxSelf] at h
      rw [h]
      split
      · right; exact ⟨x, by simp, rfl⟩
      · left; rfl
    · right; exact ⟨r, by simp [hr], h⟩

/-! ### first-by-name -/

theorem firstIdx_spec (names : List String) (name : String) :
    (∀ i, i < firstIdx names name → names[i]? ≠ some name)
      ∧ (firstIdx names name < names.length → names[firstIdx names name]? = some name)
      ∧ (name ∉ names → firstIdx names name = names.length) := by
  unfold firstIdx
  induction names with
  | nil => simp
  | cons x xs ih =>
    by_cases hx : x = name
    · subst hx; simp
    · obtain ⟨h1, h2, h3⟩ := ih
      have hne : (x == name) = false := by simpa using hx
      refine ⟨?_, ?_, ?_⟩
      · intro i hi
        rw [List.idxOf_cons, hne] at hi
        simp only [cond_false] at hi
        cases i with
        | zero => simpa using hx
        | succ i => simpa using h1 i (by omega)
      · intro hlt
        rw [List.idxOf_cons, hne] at hlt ⊢
        simp only [cond_false, List.length_cons] at hlt ⊢
        simpa using h2 (by omega)
      · intro hn
        rw [List.idxOf_cons, hne]
        simp only [cond_false, List.length_cons]
        rw [h3 (fun h => hn (by simp [h]))]

end Qryn.Prof
