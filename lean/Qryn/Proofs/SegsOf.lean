import Qryn.Sql.SegsOf
import Qryn.Proofs.Segs
namespace Qryn.Sql
open Qryn

@[simp] theorem renderSegs_nil : renderSegs [] = [] := rfl
@[simp] theorem renderSegs_append (x y : List Seg) : renderSegs (x ++ y) = renderSegs x ++ renderSegs y := by
  simp [renderSegs, List.flatMap_append]
@[simp] theorem renderSegs_cons_raw (x : Bytes) (r : List Seg) : renderSegs (.raw x :: r) = x ++ renderSegs r := by
  simp [renderSegs, Seg.render]
@[simp] theorem renderSegs_cons_str (x : Bytes) (r : List Seg) : renderSegs (.str x :: r) = quote x ++ renderSegs r := by
  simp [renderSegs, Seg.render]

theorem renderSegs_joinS (sep : Bytes) (xs : List (List Seg)) :
    renderSegs (joinS sep xs) = joinB sep (xs.map renderSegs) := by
  induction xs with
  | nil => rfl
  | cons x xs ih =>
    cases xs with
    | nil => simp [joinS, joinB]
    | cons y ys => simp [joinS, joinB, ih]

theorem render_jargSegs (a : JArg) : renderSegs (jargSegs a) = jargText a := by
  cases a <;> simp [jargSegs, jargText]

theorem render_jsonGetSegs (path : List JArg) : renderSegs (jsonGetSegs path) = jsonGetText path := by
  simp [jsonGetSegs, jsonGetText, renderSegs_joinS, List.map_map, Function.comp_def, render_jargSegs]

theorem render_jsonMapSegs (ps : List (Bytes × List JArg)) : renderSegs (jsonMapSegs ps) = jsonMapText ps := by
  simp [jsonMapSegs, jsonMapText, renderSegs_joinS, List.map_map, Function.comp_def, render_jsonGetSegs]

theorem render_regexMapSegs (labels : List Bytes) (re : Bytes) (id : Nat) :
    renderSegs (regexMapSegs labels re id) = regexMapText labels re id := by
  simp [regexMapSegs, regexMapText, regexMid, regexPost, renderSegs_joinS, List.map_map, Function.comp_def]

theorem render_dropClauseSegs (p : Bytes × Bytes) : renderSegs (dropClauseSegs p) = dropClauseText p := by
  by_cases h : p.2.isEmpty <;> simp [dropClauseSegs, dropClauseText, h]

mutual
theorem render_segsExpr : ∀ e : Expr, renderSegs (segsExpr e) = renderExpr e
  | .raw s => by simp [segsExpr, renderExpr]
  | .str s => by simp [segsExpr, renderExpr]
  | .int i => by simp [segsExpr, renderExpr]
  | .col e a => by
    have := render_segsExpr e
    by_cases h : a.isEmpty <;> simp [segsExpr, renderExpr, h, this]
  | .withRef a => by simp [segsExpr, renderExpr]
  | .lit s => by simp [segsExpr, renderExpr]
  | .tsLabels => by simp [segsExpr, renderExpr]
  | .numLit s => by simp [segsExpr, renderExpr]
  | .isIn l r => by
    simp [segsExpr, renderExpr, render_segsExpr l, renderSegs_joinS, render_segsExprs r]
  | .logical fn cs => by
    simp [segsExpr, renderExpr, renderSegs_joinS, render_segsParens cs]
  | .not e => by simp [segsExpr, renderExpr, render_segsExpr e]
  | .notNull e => by simp [segsExpr, renderExpr, render_segsExpr e]
  | .matchFn c p => by simp [segsExpr, renderExpr, render_segsExpr c]
  | .bitSetAnd cs => by simp [segsExpr, renderExpr, renderSegs_joinS, render_segsShift 0 cs]
  | .call fn args => by simp [segsExpr, renderExpr, renderSegs_joinS, render_segsExprs args]
  | .orderBy e d => by cases d <;> simp [segsExpr, renderExpr, render_segsExpr e]
  | .sub s => by simp [segsExpr, renderExpr, render_segsSel s]
  | .callT fn args => by simp [segsExpr, renderExpr, renderSegs_joinS, render_segsExprs args]
  | .bitSet cs a => by simp [segsExpr, renderExpr, renderSegs_joinS, render_segsShiftT 0 cs]
  | .setOp k ss => by simp [segsExpr, renderExpr, renderSegs_joinS, render_segsSels ss]
  | .arrayJoin src arr => by simp [segsExpr, renderExpr, render_segsExpr src, render_segsExpr arr]
  | .anyIfNum k => by simp [segsExpr, renderExpr]
  | .distinct e => by simp [segsExpr, renderExpr, render_segsExpr e]
  | .mulOp x y => by simp [segsExpr, renderExpr, render_segsExpr x, render_segsExpr y]
  | .divOp x y => by simp [segsExpr, renderExpr, render_segsExpr x, render_segsExpr y]
  | .mapFilterKeys keep keys m => by
    by_cases h : (keep && keys.isEmpty) = true <;>
      simp [segsExpr, renderExpr, renderSegs_joinS, render_segsExpr m, Function.comp_def, h]
  | .mapAt m key => by simp [segsExpr, renderExpr, render_segsExpr m]
  | .tupleAt name i => by simp [segsExpr, renderExpr]
  | .topkSlice isTop hasLabels k => by simp [segsExpr, renderExpr, topkText]
  | .arrayJoinFrom src arr => by simp [segsExpr, renderExpr, render_segsExpr src, render_segsExpr arr]
  | .fixedLit units scale => by simp [segsExpr, renderExpr]
  | .jsonMap ps => by simp [segsExpr, renderExpr, render_jsonMapSegs]
  | .regexMap labels re id => by simp [segsExpr, renderExpr, render_regexMapSegs]
  | .mapDrop m ps => by
    simp [segsExpr, renderExpr, renderSegs_joinS, render_segsExpr m, List.map_map, Function.comp_def, render_dropClauseSegs]
  | .labelsFp => by simp [segsExpr, renderExpr]
  | .quantileAgg units scale col => by simp [segsExpr, renderExpr]
theorem render_segsSels : ∀ ss : List Sel, (segsSels ss).map renderSegs = renderSels ss
  | [] => by simp [segsSels, renderSels]
  | s :: ss => by simp [segsSels, renderSels, render_segsSel s, render_segsSels ss]
theorem render_segsExprs : ∀ os : List Expr, (segsExprs os).map renderSegs = renderExprs os
  | [] => by simp [segsExprs, renderExprs]
  | o :: os => by simp [segsExprs, renderExprs, render_segsExpr o, render_segsExprs os]
theorem render_segsParens : ∀ os : List Expr, (segsParens os).map renderSegs = renderParens os
  | [] => by simp [segsParens, renderParens]
  | o :: os => by simp [segsParens, renderParens, render_segsExpr o, render_segsParens os]
theorem render_segsShift : ∀ (i : Nat) (os : List Expr), (segsShift i os).map renderSegs = renderShift i os
  | _, [] => by simp [segsShift, renderShift]
  | i, o :: os => by simp [segsShift, renderShift, render_segsExpr o, render_segsShift (i + 1) os]
theorem render_segsShiftT : ∀ (i : Nat) (os : List Expr), (segsShiftT i os).map renderSegs = renderShiftT i os
  | _, [] => by simp [segsShiftT, renderShiftT]
  | i, o :: os => by simp [segsShiftT, renderShiftT, render_segsExpr o, render_segsShiftT (i + 1) os]
theorem render_segsWiths : ∀ ws : List (Alias × Sel), (segsWiths ws).map renderSegs = renderWiths ws
  | [] => by simp [segsWiths, renderWiths]
  | (a, s) :: ws => by simp [segsWiths, renderWiths, render_segsSelBody s, render_segsWiths ws]
theorem render_segsJoins : ∀ js : List (String × Alias × Expr), renderSegs (segsJoins js) = renderJoins js
  | [] => by simp [segsJoins, renderJoins]
  | (tp, tbl, on) :: js => by simp [segsJoins, renderJoins, render_segsExpr on, render_segsJoins js]
theorem render_segsSelBody : ∀ s : Sel, renderSegs (segsSelBody s) = renderSelBody s
  | .mk ws distinct cols from_ joins pre wher gb having ob limit => by
    have hc := render_segsExprs cols
    have hg := render_segsExprs gb
    have ho := render_segsExprs ob
    have hj := render_segsJoins joins
    have hfrom : ∀ f, from_ = some f → renderSegs (segsExpr f) = renderExpr f := by
      intro f hf
      cases from_ with
      | none => cases hf
      | some g => cases hf; exact render_segsExpr _
    have hpre : ∀ f, pre = some f → renderSegs (segsExpr f) = renderExpr f := by
      intro f hf
      cases pre with
      | none => cases hf
      | some g => cases hf; exact render_segsExpr _
    have hwh : ∀ f, wher = some f → renderSegs (segsExpr f) = renderExpr f := by
      intro f hf
      cases wher with
      | none => cases hf
      | some g => cases hf; exact render_segsExpr _
    have hhav : ∀ f, having = some f → renderSegs (segsExpr f) = renderExpr f := by
      intro f hf
      cases having with
      | none => cases hf
      | some g => cases hf; exact render_segsExpr _
    have hlim : ∀ f, limit = some f → renderSegs (segsExpr f) = renderExpr f := by
      intro f hf
      cases limit with
      | none => cases hf
      | some g => cases hf; exact render_segsExpr _
    unfold segsSelBody renderSelBody
    cases from_ <;> cases pre <;> cases wher <;> cases having <;> cases limit <;>
      by_cases h1 : gb.isEmpty <;> by_cases h2 : ob.isEmpty <;>
      simp [renderSegs_joinS, hc, hg, ho, hj, hfrom, hpre, hwh, hhav, hlim, h1, h2]
theorem render_segsSel : ∀ s : Sel, renderSegs (segsSel s) = renderSel s
  | .mk ws distinct cols from_ joins pre wher gb having ob limit => by
    have hb := render_segsSelBody (.mk ws distinct cols from_ joins pre wher gb having ob limit)
    have hw := render_segsWiths ws
    by_cases h : ws.isEmpty <;> simp [segsSel, renderSel, h, hb, hw, renderSegs_joinS]
end

end Qryn.Sql
