import Qryn.Proofs.InternalAggBridge
import Qryn.Proofs.MetricUnwrap
import Qryn.Proofs.MetricUnion
/-! Glue between C09's cross-engine theorems (right-hand side: C08's `rangePoints` / `aggStage`) and C08's plan-level
    theorems (`evalSelA (planMetric c q)` = `evalMetric`): what it means for a row to be in `evalMetric` in terms of the
    points of the stages, the whole-bucket window is the window every plan reads (also on the metrics_15s path), and the
    data hypotheses do not depend on the order the `samples` table is read in (`sortedDb`). Core only. -/
namespace Qryn.Read
open Qryn Qryn.Sql Qryn.LogQL Qryn.LogQL.Stages

/-- the answer `T` of a metric statement (value column read as a number) has the sample `(l, t, v)`: a matrix row with that
    timestamp and value whose label document, scanned into a Go map, is `l` -/
def MatrixHas (T : Table) (l : Labels) (t : Int) (v : Rat) : Prop :=
  ∃ key lv, ([("fingerprint", key), ("labels", lv), ("value", .rat v), ("timestamp_ns", .int t)] : Row) ∈ T ∧
    canonLabels (asMap lv) = l

theorem mem_evalMetric (o : Oracles) (c : MCtx) (d : LokiDb) (q : MetricQuery) (row : Row) :
    row ∈ evalMetric o c d q ↔ ∃ p ∈ metricPoints o c d q (effWindow c q).1 (effWindow c q).2, row = p.row := by
  simp only [evalMetric, mem_sortBy, List.mem_map]
  constructor
  · rintro ⟨p, hp, rfl⟩; exact ⟨p, hp, rfl⟩
  · rintro ⟨p, hp, rfl⟩; exact ⟨p, hp, rfl⟩

theorem matrixHas_evalMetric (o : Oracles) (c : MCtx) (d : LokiDb) (q : MetricQuery) (l : Labels) (t : Int) (v : Rat) :
    MatrixHas (evalMetric o c d q) l t v ↔
      ∃ p ∈ metricPoints o c d q (effWindow c q).1 (effWindow c q).2, canonLabels (asMap p.labels) = l ∧ p.ts = t ∧ p.value = v := by
  simp only [MatrixHas, mem_evalMetric]
  constructor
  · rintro ⟨key, lv, ⟨p, hp, hrow⟩, hl⟩
    simp only [Pt.row, List.cons.injEq, Prod.mk.injEq, true_and, and_true, Val.rat.injEq, Val.int.injEq] at hrow
    obtain ⟨_, h2, h3, h4⟩ := hrow
    exact ⟨p, hp, by rw [← h2]; exact hl, h4.symm, h3.symm⟩
  · rintro ⟨p, hp, hl, ht, hv⟩
    exact ⟨p.key, p.labels, ⟨p, hp, by simp only [Pt.row, ht, hv]⟩, hl⟩

/-- a window of whole range buckets starting at a multiple of the range is the window the plan reads, also when the
    query takes the metrics_15s shortcut (then the range is a multiple of 15 s, so both bounds are slot starts) -/
theorem effWindow_whole (c : MCtx) (q : MetricQuery) (k n : Nat)
    (hfrom : c.fromNs = (k : Int) * q.rangeAgg.durNs) (hto : c.toNs = c.fromNs + (n : Int) * q.rangeAgg.durNs) :
    effWindow c q = (c.fromNs, c.toNs) := by
  simp only [effWindow]
  split
  · rename_i hs
    have hmod : q.rangeAgg.durNs % slot15 = 0 := by
      simp only [takesShortcut] at hs
      split at hs
      · simp only [Bool.and_eq_true, beq_iff_eq] at hs
        exact hs.1.2
      · cases hs
    obtain ⟨m, hm⟩ := Nat.dvd_of_mod_eq_zero hmod
    have h15 : ((slot15 : Nat) : Int) ≠ 0 := by simp [slot15]
    have h1 : c.fromNs = ((k * m : Nat) : Int) * (slot15 : Nat) := by
      rw [hfrom, hm]; push_cast; rw [Int.mul_comm (slot15 : Int) m, Int.mul_assoc]
    have h2 : c.toNs = (((k + n) * m : Nat) : Int) * (slot15 : Nat) := by
      rw [hto, hfrom, hm]; push_cast
      rw [Int.add_mul, Int.add_mul, Int.mul_comm (slot15 : Int) m, Int.mul_assoc, Int.mul_assoc]
    have e1 : Int.tdiv c.fromNs slot15 * slot15 = c.fromNs := by
      rw [h1, Int.mul_tdiv_cancel _ h15]
    have e2 : Int.tdiv c.toNs slot15 * slot15 = c.toNs := by
      rw [h2, Int.mul_tdiv_cancel _ h15]
    rw [e1, e2]
  · rfl

/-- `fn({sel} filters [d])` alone, step ≤ range: the matrix points are the range points with their stream's labels -/
theorem metricPoints_range (o : Oracles) (c : MCtx) (d : LokiDb) (r : RangeAgg) (hcmp : r.cmp = none)
    (hstep : c.stepNs ≤ (r.durNs : Int)) (lo hi : Int) :
    metricPoints o c d (.range r) lo hi =
      (rangePoints o c.toCtx d r lo hi).map (fun p => { p with labels := ptLabels o c.toCtx d r.sel p }) := by
  simp only [metricPoints, MetricQuery.rangeAgg, MetricQuery.agg?, hcmp, cmpStage, stepStage, hstep, if_true]

/-- under a vector aggregation, no comparison, step ≤ range -/
theorem metricPoints_agg (o : Oracles) (c : MCtx) (d : LokiDb) (a : VecAgg) (hcmp : a.inner.cmp = none) (hcmp2 : a.cmp = none)
    (hstep : c.stepNs ≤ (a.inner.durNs : Int)) (lo hi : Int) :
    metricPoints o c d (.agg a) lo hi =
      (aggStage o c.toCtx d a.inner.sel a (rangePoints o c.toCtx d a.inner lo hi)).map
        (fun p => { p with labels := ptLabels o c.toCtx d a.inner.sel p }) := by
  simp only [metricPoints, MetricQuery.rangeAgg, MetricQuery.agg?, hcmp, hcmp2, cmpStage, stepStage, hstep, if_true]

/-! ### the data hypotheses do not depend on the order `samples` is read in -/
theorem sortedDb_samples_mem (c : LogQL.Ctx) (d : LokiDb) (s : Sample) : s ∈ (sortedDb c d).samples ↔ s ∈ d.samples := by
  simp only [sortedDb, mem_sortBy]

theorem entryMatches_sortedDb (o : Oracles) (c : LogQL.Ctx) (d : LokiDb) (q : LogQuery) :
    entryMatches o c (sortedDb c d) q = entryMatches o c d q := by
  funext s
  simp only [entryMatches]
  rw [fpSelected_congr o c (sortedDb c d) d q rfl rfl]

theorem seriesStoreOk_sortedDb (o : Oracles) (c : LogQL.Ctx) (d : LokiDb) (hd : SeriesStoreOk o c d) :
    SeriesStoreOk o c (sortedDb c d) :=
  { oneDoc := hd.oneDoc
    admissible := hd.admissible
    present := fun s hs => hd.present s ((sortedDb_samples_mem c d s).mp hs)
    fpOfLabels := hd.fpOfLabels
    fpRange := hd.fpRange
    nodupKeys := hd.nodupKeys }

theorem groupHashOk_sortedDb (o : Oracles) (c : LogQL.Ctx) (d : LokiDb) (q0 : LogQuery) (gg : Grouping)
    (h : GroupHashOk o c d q0 gg) : GroupHashOk o c (sortedDb c d) q0 gg := by
  intro s hs s' hs'
  rw [entryMatches_sortedDb] at hs hs'
  rw [labelsOf_congr o c (sortedDb c d) d q0 rfl rfl]
  have hm : ∀ x, x ∈ (sortedDb c d).samples.filter (entryMatches o c d q0) → x ∈ d.samples.filter (entryMatches o c d q0) := by
    intro x hx
    obtain ⟨h1, h2⟩ := List.mem_filter.mp hx
    exact List.mem_filter.mpr ⟨(sortedDb_samples_mem c d x).mp h1, h2⟩
  exact h s (hm s hs) s' (hm s' hs')

/-- the rows of the selector statement are the same multiset whatever order the table is read in -/
theorem baseX_sortedDb_perm (o : Oracles) (c : LogQL.Ctx) (d : LokiDb) (ms : List Matcher) (fs : List Stage) :
    (baseX o c d ms (fs.map .fl)).Perm (baseX o c (sortedDb c d) ms (fs.map .fl)) := by
  simp only [baseX, splitPre_fl, stagesX, List.foldl_nil]
  rw [entryMatches_sortedDb]
  have ht : toX o c (sortedDb c d) ⟨ms, fs⟩ = toX o c d ⟨ms, fs⟩ := by
    funext s
    simp only [toX]
    rw [labelsOf_congr o c (sortedDb c d) d ⟨ms, fs⟩ rfl rfl]
  rw [ht]
  apply List.Perm.map
  apply List.Perm.filter
  simp only [sortedDb]
  exact (sortBy_perm _ _).symm

/-! ### the points of an unwrapped range aggregation carry a label document (under `SeriesStoreOk`) -/
theorem unwrapVal_nil (o : Oracles) (fn : LogQL.UnwrapFn) (dur : Nat) : unwrapVal o fn dur [] = none := by
  cases fn <;> rfl

theorem rangePoints_unwrap_labels (o : Oracles) (c : LogQL.Ctx) (d : LokiDb) (hd : SeriesStoreOk o c d)
    (fn : LogQL.UnwrapFn) (label : String) (q0 : LogQuery) (dur : Nat) (bp bsuf : Option Grouping) (cm : Option Comparison)
    (pt : Pt) (hpt : pt ∈ rangePoints o c d ⟨.unwrap fn label, q0, dur, bp, bsuf, cm⟩ c.fromNs c.toNs) :
    ∃ m, pt.labels = .map m := by
  have hes : d.samples.filter (entryMatchesW o c d q0 c.fromNs c.toNs) = d.samples.filter (entryMatches o c d q0) := rfl
  simp only [rangePoints, hes, List.mem_filterMap] at hpt
  obtain ⟨kk, _, hsome⟩ := hpt
  obtain ⟨v', _, rfl⟩ := Option.map_eq_some_iff.mp hsome
  generalize hgrp : List.filter (fun it : Val × Val × Int × Rat => _) _ = grp at *
  cases hh : grp.head? with
  | none =>
    rw [List.head?_eq_none_iff] at hh
    subst hh
    rename_i hv
    simp [unwrapVal_nil] at hv
  | some it =>
    have hit : it ∈ grp := List.mem_of_mem_head? hh
    rw [← hgrp] at hit
    obtain ⟨hit, _⟩ := List.mem_filter.mp hit
    obtain ⟨s, hs, rfl⟩ := List.mem_map.mp hit
    obtain ⟨m, hm, _, _⟩ := sample_row' (ratOps (fun _ => none)) o c d hd q0 s hs
    simp only [Option.map_some, Option.getD_some]
    cases chosenGrouping bp bsuf with
    | none => exact ⟨m, hm⟩
    | some g => simp only [hm, regroup]; exact ⟨_, rfl⟩

theorem ptLabels_of_map (o : Oracles) (c : LogQL.Ctx) (d : LokiDb) (q : LogQuery) (p : Pt) (m : List (Bytes × Bytes))
    (h : p.labels = .map m) : ptLabels o c d q p = p.labels := by
  simp only [ptLabels, h]

end Qryn.Read
