import Qryn.LogQL.Sem
import Qryn.Proofs.Like
import Qryn.Proofs.Limit
import Qryn.Proofs.StreamSelect
import Qryn.Proofs.PlanRows
/-! The theorems of C07. Supporting lemmas: Proofs/Like, Bits, Sort, Limit, SqlSemLemmas, StreamSelect,
    FpChain, PlanRows. -/
namespace Qryn.Sql
theorem like_contains (s v : Bytes) : like s (37 :: likeEscape v ++ [37]) = true ↔ v <:+: s :=
  like_contains' s v
end Qryn.Sql

namespace Qryn.LogQL
open Qryn Qryn.Sql

theorem streamSelect_eval (o : Oracles) (c : Ctx) (hn : c.namesOk) (d : LokiDb) (ms : List Matcher)
    (hm : ms.length ≤ 63) (env : Env) (v : Val) :
    v ∈ firstCol (evalBody o (d.toDb c) env (streamSelect c ms)) ↔
      ∃ fp, v = .int fp ∧ streamSelected o c d ms fp = true :=
  streamSelect_eval' o c hn d ms hm env v

theorem planLog_correct (o : Oracles) (c : Ctx) (hn : c.namesOk) (d : LokiDb) (q : LogQuery)
    (hlim : 0 ≤ c.limit) (hm : q.matchers.length ≤ 63) :
    evalSel o (d.toDb c) (planLog c q) = evalLog o c d q := by
  have _ := hlim -- not needed: both sides use `c.limit.toNat`
  obtain ⟨T, rest, hchain, hT⟩ := fpChain_eval o c hn d (labelConds q) (streamSelect c q.matchers) 0 []
    (streamSelected o c d q.matchers) (fun v => streamSelect_eval' o c hn d q.matchers hm [] v)
  have hT' : FpTable T (fpSelected o c d q) := hT
  unfold planLog evalSel
  simp only [evalWiths_append, hchain, evalWiths]
  have hmain := main_eval o c d q ((.named "fp_sel", T) :: rest) T (by simp [List.lookup]) hT'
  rw [hmain]
  have hts := timeSeries_eval o c hn d q ((.named "main", (limited o c d q).map mainRow) :: (.named "fp_sel", T) :: rest) T
    (by simp [List.lookup]) hT'
  rw [hts]
  have hj := joined_eval o c d q ((.named "_time_series", (d.ts.filter (tsOk o c d q)).map (tsOut o)) ::
    (.named "main", (limited o c d q).map mainRow) :: (.named "fp_sel", T) :: rest) (limited o c d q)
    (by simp [List.lookup]) (by simp [List.lookup])
  rw [hj, evalBody_sorted]
  simp only [sourceRows, List.lookup, beq_self_eq_true, Option.getD_some, optB, Bool.and_self, filter_true,
    List.map_map, Function.comp_def, Alias.text, project_final, orderKeys, evalLog, finalKeys]

theorem limit_newest (o : Oracles) (c : Ctx) (d : LokiDb) (q : LogQuery) (kept cut : Sample)
    (hk : kept ∈ limited o c d q)
    (hc : cut ∈ d.samples.filter (entryMatches o c d q)) (hcut : cut ∉ limited o c d q) :
    tsLe c kept cut = true :=
  limit_newest' o c d q kept cut hk hc hcut

theorem limited_sound (o : Oracles) (c : Ctx) (d : LokiDb) (q : LogQuery) (s : Sample)
    (h : s ∈ limited o c d q) : s ∈ d.samples ∧ entryMatches o c d q s = true :=
  limited_sound' o c d q s h

theorem unlimited_complete (o : Oracles) (c : Ctx) (d : LokiDb) (q : LogQuery) (h : c.limit = 0) :
    (limited o c d q).Perm (d.samples.filter (entryMatches o c d q)) :=
  unlimited_complete' o c d q h
end Qryn.LogQL
