import Qryn.LogQL.Sem
import Qryn.Proofs.Like
import Qryn.Proofs.Limit
import Qryn.Proofs.StreamSelect
/-! Helper lemmas for C07. -/
namespace Qryn.Sql
theorem like_contains (s v : Bytes) : like s (37 :: likeEscape v ++ [37]) = true ↔ v <:+: s :=
  like_contains' s v
end Qryn.Sql

namespace Qryn.LogQL
open Qryn Qryn.Sql

theorem streamSelect_eval (o : Oracles) (c : Ctx) (hn : c.namesOk) (d : LokiDb) (ms : List Matcher)
    (hm : ms.length ≤ 63) (env : Env) (v : Val) :
    v ∈ firstCol (evalBody o (d.toDb c) env (streamSelect c ms)) ↔
      ∃ fp, v = .int fp ∧ streamSelected o c d ms fp = true :=
  streamSelect_eval' o c hn d ms hm env v

theorem planLog_correct (o : Oracles) (c : Ctx) (hn : c.namesOk) (d : LokiDb) (q : LogQuery)
    (hlim : 0 ≤ c.limit) (hm : q.matchers.length ≤ 63) :
    evalSel o (d.toDb c) (planLog c q) = evalLog o c d q := by
  sorry

theorem limit_newest (o : Oracles) (c : Ctx) (d : LokiDb) (q : LogQuery) (kept cut : Sample)
    (hk : kept ∈ limited o c d q)
    (hc : cut ∈ d.samples.filter (entryMatches o c d q)) (hcut : cut ∉ limited o c d q) :
    tsLe c kept cut = true :=
  limit_newest' o c d q kept cut hk hc hcut

theorem limited_sound (o : Oracles) (c : Ctx) (d : LokiDb) (q : LogQuery) (s : Sample)
    (h : s ∈ limited o c d q) : s ∈ d.samples ∧ entryMatches o c d q s = true :=
  limited_sound' o c d q s h

theorem unlimited_complete (o : Oracles) (c : Ctx) (d : LokiDb) (q : LogQuery) (h : c.limit = 0) :
    (limited o c d q).Perm (d.samples.filter (entryMatches o c d q)) :=
  unlimited_complete' o c d q h
end Qryn.LogQL
