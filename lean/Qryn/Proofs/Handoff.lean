import Qryn.Ingest.Handoff
/-! Invariant of the hand-off machine under the discipline (every reset makes a new object with fresh
    arrays): the parser only ever writes to arrays that no handed-off object refers to, so every
    handed-off object reads, in every later state, as the rows it held when it was sent. -/
namespace Qryn.Ingest.Handoff
open Qryn.Ingest.Batcher (Cell)

def arrs (o : Obj) : List Nat := o.map (·.2.arr)

/-- the object reads as `rows` (field by field, same names, same order) and its slice lengths are the
    lengths of those cell lists -/
def View (h : Nat → List Cell) : Obj → Rows → Prop
  | [], [] => True
  | (k, sl) :: o, (k', r) :: rows => k = k' ∧ readSlice h sl = r ∧ sl.len = r.length ∧ View h o rows
  | _, _ => False

theorem readRows_congr {h h' : Nat → List Cell} {o : Obj} (hag : ∀ a ∈ arrs o, h' a = h a) :
    readRows h' o = readRows h o := by
  unfold readRows
  apply List.map_congr_left
  intro p hp
  have : h' p.2.arr = h p.2.arr := hag _ (List.mem_map.2 ⟨p, hp, rfl⟩)
  simp [readSlice, this]

theorem View.readRows {h : Nat → List Cell} : ∀ {o : Obj} {rows : Rows}, View h o rows → readRows h o = rows
  | [], [], _ => rfl
  | (k, sl) :: o, (k', r) :: rows, hv => by
    obtain ⟨hk, hr, _, ht⟩ := hv
    have := View.readRows ht
    simp only [Handoff.readRows, List.map_cons] at this ⊢
    rw [this, hk, hr]
  | [], _ :: _, hv => hv.elim
  | _ :: _, [], hv => hv.elim

theorem View.congr {h h' : Nat → List Cell} : ∀ {o : Obj} {rows : Rows}, (∀ a ∈ arrs o, h' a = h a) →
    View h o rows → View h' o rows
  | [], [], _, _ => trivial
  | (k, sl) :: o, (k', r) :: rows, hag, hv => by
    obtain ⟨hk, hr, hl, ht⟩ := hv
    refine ⟨hk, ?_, hl, View.congr (fun a ha => hag a (List.mem_cons_of_mem _ ha)) ht⟩
    have : h' sl.arr = h sl.arr := hag _ (by simp [arrs])
    simpa [readSlice, this] using hr
  | [], _ :: _, _, hv => hv.elim
  | _ :: _, [], _, hv => hv.elim

theorem getField_arr_mem : ∀ {o : Obj} {f : String} {sl : Slice}, getField o f = some sl → sl.arr ∈ arrs o
  | [], _, _, h => by simp [getField] at h
  | (k, x) :: t, f, sl, h => by
    unfold getField at h
    split at h
    · cases h; simp [arrs]
    · have := getField_arr_mem h
      simp only [arrs, List.map_cons, List.mem_cons]
      exact Or.inr this

theorem arrs_setField_mem : ∀ {o : Obj} {f : String} {v : Slice} {a : Nat},
    a ∈ arrs (setField o f v) → a = v.arr ∨ a ∈ arrs o
  | [], _, _, _, h => by simp [setField, arrs] at h
  | (k, x) :: t, f, v, a, h => by
    unfold setField at h
    split at h
    · simp only [arrs, List.map_cons, List.mem_cons] at h ⊢
      rcases h with h | h
      · exact Or.inl h
      · exact Or.inr (Or.inr h)
    · simp only [arrs, List.map_cons, List.mem_cons] at h ⊢
      rcases h with h | h
      · exact Or.inr (Or.inl h)
      · rcases arrs_setField_mem (o := t) h with h | h
        · exact Or.inl h
        · exact Or.inr (Or.inr h)

theorem nodup_setField : ∀ {o : Obj} {f : String} {sl : Slice} {b n : Nat}, (arrs o).Nodup → getField o f = some sl →
    (b = sl.arr ∨ b ∉ arrs o) → (arrs (setField o f ⟨b, n⟩)).Nodup
  | [], _, _, _, _, _, h, _ => by simp [getField] at h
  | (k, x) :: t, f, sl, b, n, hnd, hg, hb => by
    have hnd' : x.arr ∉ arrs t ∧ (arrs t).Nodup := by simpa [arrs] using hnd
    unfold getField at hg
    unfold setField
    split at hg
    · cases hg
      rename_i hkf
      simp only [hkf, if_true, arrs, List.map_cons, List.nodup_cons]
      refine ⟨?_, hnd'.2⟩
      rcases hb with hb | hb
      · rw [hb]; exact hnd'.1
      · intro hm; exact hb (by simp only [arrs, List.map_cons, List.mem_cons]; exact Or.inr hm)
    · rename_i hne
      simp only [hne, if_false, arrs, List.map_cons, List.nodup_cons]
      have hsl : sl.arr ∈ arrs t := getField_arr_mem hg
      have hb' : b = sl.arr ∨ b ∉ arrs t := by
        rcases hb with hb | hb
        · exact Or.inl hb
        · exact Or.inr (fun hm => hb (by simp only [arrs, List.map_cons, List.mem_cons]; exact Or.inr hm))
      refine ⟨?_, nodup_setField hnd'.2 hg hb'⟩
      intro hm
      rcases arrs_setField_mem (o := t) hm with hm | hm
      · simp only at hm
        rcases hb with hb | hb
        · rw [hm, hb] at hnd'; exact hnd'.1 hsl
        · exact hb (by simp only [arrs, List.map_cons, List.mem_cons]; exact Or.inl hm.symm)
      · exact hnd'.1 hm

theorem View.field {h : Nat → List Cell} : ∀ {o : Obj} {rows : Rows} {f : String} {sl : Slice}, View h o rows →
    getField o f = some sl → getField rows f = some (readSlice h sl) ∧ (readSlice h sl).length = sl.len
  | [], [], _, _, _, hg => by simp [Handoff.getField] at hg
  | (k, x) :: o, (k', r) :: rows, f, sl, hv, hg => by
    obtain ⟨hk, hr, hl, ht⟩ := hv
    unfold Handoff.getField at hg ⊢
    subst hk
    split at hg
    · cases hg
      rename_i hkf
      simp [hkf, hr, hl]
    · rename_i hkf
      simp only [hkf, if_false]
      exact View.field ht hg
  | [], _ :: _, _, _, hv, _ => hv.elim
  | _ :: _, [], _, _, hv, _ => hv.elim

/-- one field of the object is redirected to `⟨b, n⟩` and only array `b` changes, where `b` is the
    field's old array or an array the object does not use: the view follows -/
theorem View.update {h h' : Nat → List Cell} {b n : Nat} {v : List Cell} (hag : ∀ a, a ≠ b → h' a = h a)
    (hv' : (h' b).take n = v) (hn : n = v.length) :
    ∀ {o : Obj} {rows : Rows} {f : String} {sl : Slice}, (arrs o).Nodup → View h o rows → getField o f = some sl →
      (b = sl.arr ∨ b ∉ arrs o) → View h' (setField o f ⟨b, n⟩) (setField rows f v)
  | [], [], _, _, _, _, hg, _ => by simp [Handoff.getField] at hg
  | (k, x) :: o, (k', r) :: rows, f, sl, hnd, hv, hg, hb => by
    obtain ⟨hk, hr, hl, ht⟩ := hv
    have hnd' : x.arr ∉ arrs o ∧ (arrs o).Nodup := by simpa [arrs] using hnd
    subst hk
    unfold Handoff.getField at hg
    unfold setField
    split at hg
    · cases hg
      rename_i hkf
      simp only [hkf, if_true]
      refine ⟨rfl, by simpa [readSlice] using hv', hn, ?_⟩
      apply View.congr _ ht
      intro a ha
      apply hag
      rcases hb with hb | hb
      · rw [hb]; intro he; exact hnd'.1 (he ▸ ha)
      · intro he; exact hb (by simp only [arrs, List.map_cons, List.mem_cons]; exact Or.inr (he ▸ ha))
    · rename_i hkf
      simp only [hkf, if_false]
      have hsl : sl.arr ∈ arrs o := getField_arr_mem hg
      have hxb : x.arr ≠ b := by
        rcases hb with hb | hb
        · rw [hb]; intro he; exact hnd'.1 (he ▸ hsl)
        · intro he; exact hb (by simp only [arrs, List.map_cons, List.mem_cons]; exact Or.inl he.symm)
      have hb' : b = sl.arr ∨ b ∉ arrs o := by
        rcases hb with hb | hb
        · exact Or.inl hb
        · exact Or.inr (fun hm => hb (by simp only [arrs, List.map_cons, List.mem_cons]; exact Or.inr hm))
      refine ⟨rfl, ?_, hl, View.update hag hv' hn hnd'.2 ht hg hb'⟩
      have : h' x.arr = h x.arr := hag _ hxb
      simpa [readSlice, this] using hr
  | [], _ :: _, _, _, _, hv, _, _ => hv.elim
  | _ :: _, [], _, _, _, hv, _, _ => hv.elim

theorem take_writeAt {a : List Cell} {off : Nat} (xs : List Cell) (h : off ≤ a.length) :
    (writeAt a off xs).take (off + xs.length) = a.take off ++ xs := by
  unfold writeAt
  have h1 : (a.take off ++ xs).length = off + xs.length := by simp [List.length_take, Nat.min_eq_left h]
  rw [List.take_append_of_le_length (by rw [h1]; exact Nat.le_refl _)]
  rw [List.take_of_length_le (by rw [h1]; exact Nat.le_refl _)]

/-- all-fresh reset: consecutive new arrays, all slices empty -/
theorem resetFields_fresh (old : Obj) (h : Nat → List Cell) : ∀ (fs : List (String × FieldReset)) (n : Nat),
    (∀ p ∈ fs, p.2 = .fresh) →
    arrs (resetFields old fs n).1 = List.range' n fs.length ∧ (resetFields old fs n).2 = n + fs.length ∧
    View h (resetFields old fs n).1 (emptyRows fs)
  | [], n, _ => by simp [resetFields, arrs, emptyRows, View]
  | (f, .fresh) :: t, n, hf => by
    obtain ⟨h1, h2, h3⟩ := resetFields_fresh old h t (n + 1) (fun p hp => hf p (List.mem_cons_of_mem _ hp))
    refine ⟨?_, ?_, ?_⟩
    · simp only [resetFields, arrs, List.map_cons, List.length_cons, List.range'_succ]
      exact congrArg _ h1
    · show (resetFields old t (n + 1)).2 = n + (t.length + 1)
      rw [h2, Nat.add_assoc, Nat.add_comm 1 t.length]
    · simp only [resetFields, emptyRows, List.map_cons]
      exact ⟨rfl, by simp [readSlice], rfl, h3⟩
  | (f, .reslice) :: t, n, hf => by
    have := hf (f, .reslice) (by simp)
    cases this

/-! ## the invariant -/

@[simp] theorem upd_same {β : Type} (m : Nat → β) (k : Nat) (v : β) : upd m k v k = v := by simp [upd]
theorem upd_other {β : Type} (m : Nat → β) {k i : Nat} (v : β) (h : i ≠ k) : upd m k v i = m i := by simp [upd, h]

structure Inv (s : St) : Prop where
  /-- every array an object refers to has been allocated -/
  arrsLt : ∀ o, o < s.nextObj → ∀ a ∈ arrs (s.objs o), a < s.nextArr
  curLt : s.cur < s.nextObj
  /-- the fields of the current object use pairwise different arrays -/
  nodup : (arrs (s.objs s.cur)).Nodup
  /-- no other object shares an array with the current one -/
  disj : ∀ o, o < s.nextObj → o ≠ s.cur → ∀ a ∈ arrs (s.objs o), a ∉ arrs (s.objs s.cur)
  /-- the current object reads as what the parser appended since the last reset -/
  view : View s.heap (s.objs s.cur) s.curRows
  /-- every handed-off object still reads as it did when it was sent -/
  chunks : ∀ c ∈ s.chunks, c.obj < s.nextObj ∧ readRows s.heap (s.objs c.obj) = c.rows ∧ (s.filling = true → c.obj ≠ s.cur)
  pushes : ∀ p ∈ s.pushes, ∃ c, s.chunks[p.chunk]? = some c ∧ c.obj = p.obj
  subs : ∀ sub ∈ s.subs, ∃ c, s.chunks[sub.chunk]? = some c ∧ sub.read = c.rows
  ids : ∀ (i : Nat) (sub : Sub), s.subs[i]? = some sub → sub.id = i

theorem inv_write {s : St} (hI : Inv s) (hfill : s.filling = true) {f : String} {sl : Slice}
    (hg : getField (s.objs s.cur) f = some sl) {b nb n : Nat} {c v : List Cell}
    (hb : (b = sl.arr ∧ nb = s.nextArr) ∨ (b = s.nextArr ∧ nb = s.nextArr + 1))
    (hc : c.take n = v) (hn : n = v.length) : Inv (writeField s f b c n v nb) := by
  have hslmem : sl.arr ∈ arrs (s.objs s.cur) := getField_arr_mem hg
  have hsllt : sl.arr < s.nextArr := hI.arrsLt _ hI.curLt _ hslmem
  have hbnb : b < nb := by rcases hb with ⟨h1, h2⟩ | ⟨h1, h2⟩ <;> omega
  have hle : s.nextArr ≤ nb := by rcases hb with ⟨_, h2⟩ | ⟨_, h2⟩ <;> omega
  have hb' : b = sl.arr ∨ b ∉ arrs (s.objs s.cur) := by
    rcases hb with ⟨h1, _⟩ | ⟨h1, _⟩
    · exact Or.inl h1
    · refine Or.inr (fun hm => ?_)
      have := hI.arrsLt _ hI.curLt _ hm
      omega
  -- arrays of the other objects are not `b`
  have hother : ∀ o, o < s.nextObj → o ≠ s.cur → ∀ a ∈ arrs (s.objs o), a ≠ b := by
    intro o ho hne a ha he
    rcases hb with ⟨h1, _⟩ | ⟨h1, _⟩
    · exact hI.disj o ho hne a ha (by rw [he, h1]; exact hslmem)
    · have := hI.arrsLt o ho a ha
      omega
  refine ⟨?_, hI.curLt, ?_, ?_, ?_, ?_, hI.pushes, hI.subs, hI.ids⟩
  · intro o ho a ha
    show a < nb
    by_cases hoc : o = s.cur
    · have ha' : a ∈ arrs (setField (s.objs s.cur) f ⟨b, n⟩) := by simpa [writeField, hoc] using ha
      rcases arrs_setField_mem ha' with h | h
      · simp only at h; omega
      · have := hI.arrsLt _ hI.curLt _ h; omega
    · have ha' : a ∈ arrs (s.objs o) := by simpa [writeField, upd_other _ _ hoc] using ha
      have := hI.arrsLt o ho a ha'; omega
  · show (arrs (upd s.objs s.cur (setField (s.objs s.cur) f ⟨b, n⟩) s.cur)).Nodup
    rw [upd_same]
    exact nodup_setField hI.nodup hg hb'
  · intro o ho hne a ha
    show a ∉ arrs (upd s.objs s.cur (setField (s.objs s.cur) f ⟨b, n⟩) s.cur)
    rw [upd_same]
    have ha' : a ∈ arrs (s.objs o) := by
      have : (writeField s f b c n v nb).objs o = s.objs o := upd_other _ _ hne
      rw [this] at ha; exact ha
    intro hm
    rcases arrs_setField_mem hm with h | h
    · exact hother o ho hne a ha' h
    · exact hI.disj o ho hne a ha' h
  · show View (upd s.heap b c) (upd s.objs s.cur (setField (s.objs s.cur) f ⟨b, n⟩) s.cur) (setField s.curRows f v)
    rw [upd_same]
    exact View.update (fun a ha => upd_other _ _ ha) (by rw [upd_same]; exact hc) hn hI.nodup hI.view hg hb'
  · intro c0 hc0
    obtain ⟨h1, h2, h3⟩ := hI.chunks c0 hc0
    have hne : c0.obj ≠ s.cur := h3 hfill
    refine ⟨h1, ?_, fun _ => hne⟩
    show readRows (upd s.heap b c) (upd s.objs s.cur (setField (s.objs s.cur) f ⟨b, n⟩) c0.obj) = c0.rows
    rw [upd_other _ _ hne, ← h2]
    exact readRows_congr (fun a ha => upd_other _ _ (hother c0.obj h1 hne a ha))

theorem inv_append {s : St} (hI : Inv s) (f : String) (xs : List Cell) (grow : Bool) : Inv (stepAppend s f xs grow) := by
  unfold stepAppend
  cases hfill : s.filling
  · simpa using hI
  · simp only [Bool.not_true, Bool.false_eq_true, if_false]
    cases hg : getField (s.objs s.cur) f with
    | none => exact hI
    | some sl =>
      obtain ⟨hrow, hlen⟩ := View.field hI.view hg
      have hv : appendCells s.curRows f xs = readSlice s.heap sl ++ xs := by simp [appendCells, hrow]
      cases grow
      · simp only [Bool.false_eq_true, if_false]
        have hle : sl.len ≤ (s.heap sl.arr).length := by
          simp only [readSlice, List.length_take] at hlen
          omega
        refine inv_write hI hfill hg (Or.inl ⟨rfl, rfl⟩) ?_ ?_
        · rw [take_writeAt xs hle, hv]; rfl
        · rw [hv]; simp [hlen]
      · simp only [if_true]
        refine inv_write hI hfill hg (Or.inr ⟨rfl, rfl⟩) ?_ ?_
        · rw [hv]; exact List.take_of_length_le (by simp [hlen])
        · rw [hv]; simp [hlen]

theorem inv_assign {s : St} (hI : Inv s) (f : String) (xs : List Cell) : Inv (stepAssign s f xs) := by
  unfold stepAssign
  cases hfill : s.filling
  · simpa using hI
  · simp only [Bool.not_true, Bool.false_eq_true, if_false]
    cases hg : getField (s.objs s.cur) f with
    | none => exact hI
    | some sl => exact inv_write hI hfill hg (Or.inr ⟨rfl, rfl⟩) (List.take_of_length_le (Nat.le_refl _)) rfl

theorem inv_flush {s : St} (hI : Inv s) (attempts : Nat) : Inv (stepFlush attempts s) := by
  unfold stepFlush
  cases hfill : s.filling
  · simpa using hI
  · simp only [Bool.not_true, Bool.false_eq_true, if_false]
    refine ⟨hI.arrsLt, hI.curLt, hI.nodup, hI.disj, hI.view, ?_, ?_, ?_, hI.ids⟩
    · intro c hc
      rcases List.mem_append.1 hc with hc | hc
      · obtain ⟨h1, h2, _⟩ := hI.chunks c hc
        exact ⟨h1, h2, fun h => by cases h⟩
      · simp only [List.mem_singleton] at hc
        subst hc
        exact ⟨hI.curLt, hI.view.readRows, fun h => by cases h⟩
    · intro p hp
      rcases List.mem_append.1 hp with hp | hp
      · obtain ⟨c, h1, h2⟩ := hI.pushes p hp
        exact ⟨c, by rw [List.getElem?_append_left (List.getElem?_eq_some_iff.1 h1).1]; exact h1, h2⟩
      · simp only [List.mem_singleton] at hp
        subst hp
        exact ⟨⟨s.cur, s.curRows⟩, by simp, rfl⟩
    · intro sub hsub
      obtain ⟨c, h1, h2⟩ := hI.subs sub hsub
      exact ⟨c, by rw [List.getElem?_append_left (List.getElem?_eq_some_iff.1 h1).1]; exact h1, h2⟩

/-- what a reset needs of the state before it (also true of the empty state `init` starts from) -/
structure PreInv (s : St) : Prop where
  arrsLt : ∀ o, o < s.nextObj → ∀ a ∈ arrs (s.objs o), a < s.nextArr
  chunks : ∀ c ∈ s.chunks, c.obj < s.nextObj ∧ readRows s.heap (s.objs c.obj) = c.rows
  pushes : ∀ p ∈ s.pushes, ∃ c, s.chunks[p.chunk]? = some c ∧ c.obj = p.obj
  subs : ∀ sub ∈ s.subs, ∃ c, s.chunks[sub.chunk]? = some c ∧ sub.read = c.rows
  ids : ∀ (i : Nat) (sub : Sub), s.subs[i]? = some sub → sub.id = i

theorem Inv.pre {s : St} (hI : Inv s) : PreInv s :=
  ⟨hI.arrsLt, fun c hc => ⟨(hI.chunks c hc).1, (hI.chunks c hc).2.1⟩, hI.pushes, hI.subs, hI.ids⟩

theorem inv_reset {cfg : Cfg} (hd : cfg.disciplined = true) {s : St} (hP : PreInv s) : Inv (doReset cfg s) := by
  have hobj : cfg.obj = .newObj := by
    simp only [Cfg.disciplined, Bool.and_eq_true, beq_iff_eq] at hd; exact hd.1
  have hfresh : ∀ p ∈ cfg.fields, p.2 = .fresh := by
    simp only [Cfg.disciplined, Bool.and_eq_true, List.all_eq_true, beq_iff_eq] at hd; exact hd.2
  obtain ⟨h1, h2, h3⟩ := resetFields_fresh (s.objs s.cur) s.heap cfg.fields s.nextArr hfresh
  unfold doReset
  rw [hobj]
  simp only
  refine ⟨?_, Nat.lt_succ_self _, ?_, ?_, ?_, ?_, hP.pushes, hP.subs, hP.ids⟩
  · intro o ho a ha
    show a < (resetFields (s.objs s.cur) cfg.fields s.nextArr).2
    rw [h2]
    by_cases hoc : o = s.nextObj
    · have ha' : a ∈ arrs (resetFields (s.objs s.cur) cfg.fields s.nextArr).1 := by simpa [hoc] using ha
      rw [h1, List.mem_range'_1] at ha'
      exact ha'.2
    · have ha' : a ∈ arrs (s.objs o) := by simpa [upd_other _ _ hoc] using ha
      have := hP.arrsLt o (by have : o < s.nextObj + 1 := ho; omega) a ha'
      omega
  · show (arrs (upd s.objs s.nextObj _ s.nextObj)).Nodup
    rw [upd_same, h1]
    exact List.nodup_range'
  · intro o ho hne a ha
    show a ∉ arrs (upd s.objs s.nextObj _ s.nextObj)
    rw [upd_same, h1, List.mem_range'_1]
    have hne' : o ≠ s.nextObj := hne
    have ha' : a ∈ arrs (s.objs o) := by
      have : upd s.objs s.nextObj (resetFields (s.objs s.cur) cfg.fields s.nextArr).1 o = s.objs o := upd_other _ _ hne'
      rw [← this]; exact ha
    have := hP.arrsLt o (by have : o < s.nextObj + 1 := ho; omega) a ha'
    omega
  · show View s.heap (upd s.objs s.nextObj _ s.nextObj) (emptyRows cfg.fields)
    rw [upd_same]
    exact h3
  · intro c hc
    obtain ⟨hlt, hr⟩ := hP.chunks c hc
    have hne : c.obj ≠ s.nextObj := by omega
    refine ⟨by show c.obj < s.nextObj + 1; omega, ?_, fun _ => hne⟩
    show readRows s.heap (upd s.objs s.nextObj _ c.obj) = c.rows
    rw [upd_other _ _ hne]
    exact hr

theorem inv_submit {s : St} (hI : Inv s) (j : Nat) : Inv (stepSubmit s j) := by
  unfold stepSubmit
  cases hp : s.pushes[j]? with
  | none => exact hI
  | some p =>
    simp only
    split
    · exact hI
    · have hpm : p ∈ s.pushes := List.mem_of_getElem? hp
      refine ⟨hI.arrsLt, hI.curLt, hI.nodup, hI.disj, hI.view, hI.chunks, ?_, ?_, ?_⟩
      · intro q hq
        rcases List.mem_or_eq_of_mem_set hq with hq | hq
        · exact hI.pushes q hq
        · subst hq; exact hI.pushes p hpm
      · intro sub hsub
        rcases List.mem_append.1 hsub with hsub | hsub
        · exact hI.subs sub hsub
        · simp only [List.mem_singleton] at hsub
          subst hsub
          obtain ⟨c, h1, h2⟩ := hI.pushes p hpm
          refine ⟨c, h1, ?_⟩
          have hcm : c ∈ s.chunks := List.mem_of_getElem? h1
          rw [← h2]
          exact (hI.chunks c hcm).2.1
      · intro i sub hi
        by_cases hlt : i < s.subs.length
        · rw [List.getElem?_append_left hlt] at hi
          exact hI.ids i sub hi
        · have hge : s.subs.length ≤ i := by omega
          rw [List.getElem?_append_right hge] at hi
          have hz : i - s.subs.length = 0 := by
            by_cases h0 : i - s.subs.length = 0
            · exact h0
            · rw [List.getElem?_eq_none (by simp; omega)] at hi; cases hi
          rw [hz] at hi
          simp only [List.getElem?_cons_zero, Option.some.injEq] at hi
          subst hi
          show s.subs.length = i
          omega

theorem inv_result {s : St} (hI : Inv s) (j : Nat) (ok : Bool) : Inv (stepResult s j ok) := by
  unfold stepResult
  cases hp : s.pushes[j]? with
  | none => exact hI
  | some p =>
    simp only
    split
    · exact hI
    · have hpm : p ∈ s.pushes := List.mem_of_getElem? hp
      refine ⟨hI.arrsLt, hI.curLt, hI.nodup, hI.disj, hI.view, hI.chunks, ?_, hI.subs, hI.ids⟩
      intro q hq
      rcases List.mem_or_eq_of_mem_set hq with hq | hq
      · exact hI.pushes q hq
      · subst hq
        cases ok <;> exact hI.pushes p hpm

theorem inv_step {cfg : Cfg} (hd : cfg.disciplined = true) (attempts : Nat) {s : St} (hI : Inv s) (op : HOp) :
    Inv (step cfg attempts s op) := by
  cases op with
  | append f xs g => exact inv_append hI f xs g
  | assign f xs => exact inv_assign hI f xs
  | flush => exact inv_flush hI attempts
  | reset =>
    simp only [step]
    split
    · exact hI
    · exact inv_reset hd hI.pre
  | submit j => exact inv_submit hI j
  | result j ok => exact inv_result hI j ok

theorem inv_init (cfg : Cfg) : Inv (init cfg) := by
  unfold init
  apply inv_reset
  · simp [Cfg.disciplined]
  · exact ⟨by intro o ho; simp at ho, by intro c hc; simp at hc, by intro p hp; simp at hp,
      by intro p hp; simp at hp, by intro i sub h; simp at h⟩

theorem inv_foldl {cfg : Cfg} (hd : cfg.disciplined = true) (attempts : Nat) :
    ∀ (ops : List HOp) (s : St), Inv s → Inv (ops.foldl (step cfg attempts) s)
  | [], _, h => h
  | op :: ops, _, h => inv_foldl hd attempts ops _ (inv_step hd attempts h op)

theorem inv_run {cfg : Cfg} (hd : cfg.disciplined = true) (attempts : Nat) (ops : List HOp) :
    Inv (run cfg attempts ops) := inv_foldl hd attempts ops _ (inv_init cfg)

end Qryn.Ingest.Handoff
