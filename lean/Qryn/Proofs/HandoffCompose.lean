import Qryn.Proofs.Handoff
import Qryn.Proofs.BatcherRect
/-! Hand-off ∘ batcher: under the discipline every block is the concatenation of the rows, *as parsed*, of the
    chunks whose submissions it resolves. -/
namespace Qryn.Ingest.Handoff
open Qryn.Ingest.Batcher

theorem frozen {cfg : Cfg} (hd : cfg.disciplined = true) (attempts : Nat) (ops : List HOp) :
    ∀ c ∈ (run cfg attempts ops).chunks,
      readRows (run cfg attempts ops).heap ((run cfg attempts ops).objs c.obj) = c.rows :=
  fun c hc => ((inv_run hd attempts ops).chunks c hc).2.1

theorem immutable {cfg : Cfg} (hd : cfg.disciplined = true) (attempts : Nat) (ops : List HOp) :
    ∀ sub ∈ (run cfg attempts ops).subs,
      (∃ c, (run cfg attempts ops).chunks[sub.chunk]? = some c) ∧ sub.read = (run cfg attempts ops).chunkOf sub := by
  intro sub hsub
  obtain ⟨c, h1, h2⟩ := (inv_run hd attempts ops).subs sub hsub
  exact ⟨⟨c, h1⟩, by simp [St.chunkOf, h1, h2]⟩

theorem sub_at_id {s : St} (hI : Inv s) {sub : Sub} (hsub : sub ∈ s.subs) : s.subs[sub.id]? = some sub := by
  obtain ⟨i, hi⟩ := List.getElem?_of_mem hsub
  have := hI.ids i sub hi
  rw [this]; exact hi

/-- the payload of promise `id` as the parser produced it -/
def St.parsedReq (s : St) (pt : PType) (id : ReqId) : Req := reqOfRows pt id (s.parsedOf id)

theorem compose {p : Plan} (hp : planOK p = true) {cfg : Cfg} (hd : cfg.disciplined = true) (attempts : Nat)
    (hops : List HOp)
    (hrect : ∀ c ∈ (run cfg attempts hops).chunks, ∀ id, GoodReq p (reqOfRows p.ptype id c.rows))
    (maxQueue svcNum : Nat) (ops : List SysOp)
    (hreq : ∀ op ∈ ops, match op with
      | .request _ _ r => ∃ sub ∈ (run cfg attempts hops).subs, r = sub.req p.ptype
      | _ => True) :
    ∀ b w o, Event.insert b w o ∈ ((Multi.init p maxQueue svcNum).run ops).2 →
      BlockIsConcat p ((run cfg attempts hops).parsedReq p.ptype) b w := by
  have hI := inv_run hd attempts hops
  have hG : ∀ op ∈ ops, GoodSysOp p ((run cfg attempts hops).parsedReq p.ptype) op := by
    intro op hop
    have := hreq op hop
    cases op with
    | request m pick r =>
      obtain ⟨sub, hsub, hr⟩ := this
      obtain ⟨c, h1, h2⟩ := hI.subs sub hsub
      have hparsed : (run cfg attempts hops).parsedOf sub.id = sub.read := by
        simp [St.parsedOf, sub_at_id hI hsub, St.chunkOf, h1, h2]
      subst hr
      refine ⟨?_, ?_⟩
      · show sub.req p.ptype = reqOfRows p.ptype (sub.req p.ptype).id ((run cfg attempts hops).parsedOf (sub.req p.ptype).id)
        have hid : (sub.req p.ptype).id = sub.id := rfl
        rw [hid, hparsed]; rfl
      · show GoodReq p (reqOfRows p.ptype sub.id sub.read)
        rw [h2]
        exact hrect c (List.mem_of_getElem? h1) sub.id
    | sub i op => trivial
    | planFlush => trivial
  intro b w o h
  exact ((multi_run_concat hp ops _ (multi_cinit maxQueue svcNum) hG).2 b w o h).1

end Qryn.Ingest.Handoff
