import Qryn.LogQL.Sem
import Qryn.Proofs.Sort
/-! ORDER BY timestamp + LIMIT on the specification side. -/
namespace Qryn.LogQL
open Qryn Qryn.Sql

theorem tsLe_total (c : Ctx) (a b : Sample) : tsLe c a b = true ∨ tsLe c b a = true := by
  unfold tsLe; cases c.orderAsc <;> simp <;> omega

theorem tsLe_trans (c : Ctx) (a b d : Sample) (h1 : tsLe c a b = true) (h2 : tsLe c b d = true) :
    tsLe c a d = true := by
  unfold tsLe at *; cases h : c.orderAsc <;> simp [h] at * <;> omega

theorem limit_newest' (o : Oracles) (c : Ctx) (d : LokiDb) (q : LogQuery) (kept cut : Sample)
    (hk : kept ∈ limited o c d q)
    (hc : cut ∈ d.samples.filter (entryMatches o c d q)) (hcut : cut ∉ limited o c d q) :
    tsLe c kept cut = true := by
  unfold limited at hk hcut
  have hs : cut ∈ sortBy (tsLe c) (d.samples.filter (entryMatches o c d q)) := (mem_sortBy _ _ _).mpr hc
  by_cases h0 : c.limit = 0
  · simp only [h0, if_true] at hcut
    exact absurd hs hcut
  · simp only [h0, if_false] at hk hcut
    have hd : cut ∈ (sortBy (tsLe c) (d.samples.filter (entryMatches o c d q))).drop c.limit.toNat := by
      rw [← List.take_append_drop c.limit.toNat (sortBy (tsLe c) _), List.mem_append] at hs
      rcases hs with h | h
      · exact absurd h hcut
      · exact h
    exact take_le_drop (tsLe c) _ _ (sortBy_pairwise _ (tsLe_total c) (tsLe_trans c) _) _ _ hk hd

theorem limited_sound' (o : Oracles) (c : Ctx) (d : LokiDb) (q : LogQuery) (s : Sample)
    (h : s ∈ limited o c d q) : s ∈ d.samples ∧ entryMatches o c d q s = true := by
  unfold limited at h
  have hs : s ∈ sortBy (tsLe c) (d.samples.filter (entryMatches o c d q)) := by
    by_cases h0 : c.limit = 0
    · simpa only [h0, if_true] using h
    · simp only [h0, if_false] at h
      exact List.mem_of_mem_take h
  have := (mem_sortBy _ _ _).mp hs
  simpa [List.mem_filter] using this

theorem unlimited_complete' (o : Oracles) (c : Ctx) (d : LokiDb) (q : LogQuery) (h : c.limit = 0) :
    (limited o c d q).Perm (d.samples.filter (entryMatches o c d q)) := by
  unfold limited
  simp only [h, if_true]
  exact sortBy_perm _ _

end Qryn.LogQL
