import Qryn.TraceQL.Sem
/-! C11: the bit-set encoding of `AttrConditionPlanner` — one bit per distinct condition, OR-ed over the
    index rows of a span, the boolean tree read off the bits. -/
namespace Qryn.Sql

theorem testBit_bits (bs : List Bool) (i : Nat) : (bits bs).testBit i = bs.getD i false := by
  induction bs generalizing i with
  | nil => simp [bits]
  | cons b bs ih =>
    cases i with
    | zero => cases b <;> simp [bits, Nat.testBit_zero] <;> omega
    | succ i =>
      have : (b.toNat + 2 * bits bs) / 2 = bits bs := by cases b <;> simp <;> omega
      simp [bits, Nat.testBit_succ, this, ih]

theorem testBit_bits64 (bs : List Bool) (i : Nat) (hi : i < 64) : (bits64 bs).testBit i = bs.getD i false := by
  simp only [bits64, testBit_bits, List.getD_eq_getElem?_getD, List.getElem?_take, hi, if_true]

theorem testBit_foldl_or64 (rows : List (List Bool)) (a i : Nat) (hi : i < 64) :
    (rows.foldl (fun acc r => acc ||| bits64 r) a).testBit i = (a.testBit i || rows.any (fun r => r.getD i false)) := by
  induction rows generalizing a with
  | nil => simp
  | cons r rows ih => simp [ih, Nat.testBit_or, testBit_bits64 _ _ hi, Bool.or_assoc]

/-- bit `i` (< 64) of `groupBitOr(Σ bitShiftLeft(toUInt64(cᵢ), i))`: some row of the group satisfies condition `i` -/
theorem testBit_groupOr (rows : List (List Bool)) (i : Nat) (hi : i < 64) :
    (groupOr rows).testBit i = rows.any (fun r => r.getD i false) := by
  simp [groupOr, testBit_foldl_or64 _ _ _ hi]

theorem and_two_pow_ne_zero (n i : Nat) : ((n &&& 2 ^ i) != 0) = n.testBit i := by
  by_cases h : n.testBit i = true
  · have h1 : (n &&& 2 ^ i).testBit i = true := by simp [Nat.testBit_and, Nat.testBit_two_pow, h]
    have h2 : n &&& 2 ^ i ≠ 0 := by
      intro h0; rw [h0] at h1; simp at h1
    simp [h, h2]
  · have h0 : n &&& 2 ^ i = 0 := by
      apply Nat.eq_of_testBit_eq
      intro j
      simp only [Nat.testBit_and, Nat.testBit_two_pow, Nat.zero_testBit]
      by_cases hj : i = j
      · subst hj; simp at h; simp [h]
      · simp [hj]
    simp at h
    simp [h, h0]

end Qryn.Sql

namespace Qryn.TraceQL
open Qryn Qryn.Sql

theorem u64_shl1 (i : Nat) (hi : i < 64) : u64 (shl1 i) = 2 ^ i := by
  unfold u64 shl1
  by_cases h : i < 63
  · simp only [h, if_true]
    have h1 : ((2 : Int) ^ i) = ((2 ^ i : Nat) : Int) := by simp
    have h2 : (18446744073709551616 : Int) = ((2 ^ 64 : Nat) : Int) := by decide
    rw [h1, h2, ← Int.natCast_emod, Int.toNat_natCast]
    exact Nat.mod_eq_of_lt (Nat.pow_lt_pow_right (by decide) (by omega))
  · have h63 : i = 63 := by omega
    subst h63
    decide

theorem evalHavG_and (o : Oracles) (ao : AggOracles) (env : Env) (g : List Row) (bs : Nat) (cs : List Expr) :
    evalHavG o ao env g bs (and_ cs) = evalHavAllG o ao env g bs cs := by
  simp [and_, evalHavG]
theorem evalHavG_or (o : Oracles) (ao : AggOracles) (env : Env) (g : List Row) (bs : Nat) (cs : List Expr) :
    evalHavG o ao env g bs (or_ cs) = evalHavAnyG o ao env g bs cs := by
  simp [or_, evalHavG]

/-- **the boolean tree on the bit set**: HAVING built by `getCond` holds of a group iff the tree holds of the
    bits, for indices below 64 -/
theorem evalHavG_condSql (o : Oracles) (ao : AggOracles) (env : Env) (g : List Row) (es : List Expr) (bs : Nat)
    (al : Bool) (c : Cond) (hlt : c.bounded 64) :
    evalHavG o ao env g bs (condSql es al c).1 = c.eval (fun i => bs.testBit i) := by
  induction c generalizing al with
  | leaf i =>
    simp only [Cond.bounded] at hlt
    cases al <;>
      simp [condSql, neq, evalHavG, havLeaf, Cond.eval, u64_shl1 i hlt, and_two_pow_ne_zero]
  | node op l r ihl ihr =>
    simp only [Cond.bounded] at hlt
    cases op <;>
      simp [condSql, Cond.eval, bop, evalHavG_and, evalHavG_or, evalHavAllG, evalHavAnyG, ihl _ hlt.1, ihr _ hlt.2]

theorem findBitSet_condSql (es : List Expr) (c : Cond) : findBitSet (condSql es false c).1 = some es := by
  induction c with
  | leaf i => simp [condSql, neq, findBitSet, findBitSetL]
  | node op l r ihl _ =>
    cases op <;> simp [condSql, and_, or_, findBitSet, findBitSetL, ihl]

end Qryn.TraceQL
