import Qryn.LogQL.ProcessMetric
/-! Lemmas for C14 (metric LogQL): the chain of state transformers of `LogQL/ProcessMetric.lean`, started with the
    memo fields cleared, computes `planMetric` — and which states it passes through. -/
namespace Qryn.LogQL
open Qryn Qryn.Sql

def isShortcut : Step → Bool
  | .shortcut _ _ => true
  | _ => false

/-- no `Metrics15ShortcutPlanner` among the steps -/
def NoSC (l : List Step) : Prop := ∀ s ∈ l, isShortcut s = false
theorem NoSC.nil : NoSC [] := by intro s hs; cases hs
theorem NoSC.cons {s : Step} {l : List Step} (hs : isShortcut s = false) (hl : NoSC l) : NoSC (s :: l) := by
  intro x hx
  rcases List.mem_cons.mp hx with h | h
  · rw [h]; exact hs
  · exact hl x h
theorem NoSC.append {a b : List Step} (ha : NoSC a) (hb : NoSC b) : NoSC (a ++ b) := by
  intro x hx
  rcases List.mem_append.mp hx with h | h
  · exact ha x h
  · exact hb x h

/-- the steps that plan a `ByWithoutPlanner` -/
def tsStep : Step → Bool
  | .agg _ (some _) => true
  | .unwrapFn _ _ (some _) => true
  | _ => false

section
variable (c : MCtx) (q : MetricQuery)

/-- the fingerprint sub-query every execution builds: `fp_sel` for the selector of the query -/
abbrev F : With := fpWith c.toCtx q.rangeAgg.sel
/-- ids taken by the simple label filters -/
abbrev nIds : Nat := (labelConds q.rangeAgg.sel).length

/-- either nothing was memoized yet in this execution (and no id taken), or the fingerprint sub-query was -/
def FpOk (st : XState) : Prop :=
  (st.fpCache = none ∧ st.id = 0) ∨ (st.fpCache = some (F c q) ∧ st.id = nIds q)

/-- a planner that, entered with the labels memo empty, returns `sel`, leaves `fp_sel` memoized, the id counter at
    `id` and the labels memo `lc` -/
def Spec (p : Proc) (sel : Sel) (id : Nat) (lc : Option With) : Prop :=
  ∀ st, FpOk c q st → st.labelsCache = none → p st = (⟨some (F c q), lc, id⟩, sel)

theorem withConnector_ok (main : Sel) (st : XState) (h : FpOk c q st) :
    withConnector c.toCtx q.rangeAgg.sel main st = (⟨some (F c q), st.labelsCache, nIds q⟩, main.with_ [F c q], F c q) := by
  rcases h with ⟨h1, h2⟩ | ⟨h1, h2⟩
  · obtain ⟨fp, lc, id⟩ := st
    simp only at h1 h2
    subst h1 h2
    simp only [withConnector, Nat.zero_add]
    rfl
  · obtain ⟨fp, lc, id⟩ := st
    simp only at h1 h2
    subst h1 h2
    simp [withConnector]

theorem fingerprintFilterP_ok (main : Sel) (st : XState) (h : FpOk c q st) :
    fingerprintFilterP c.toCtx q.rangeAgg.sel main st =
      (⟨some (F c q), st.labelsCache, nIds q⟩, fingerprintFilter c.toCtx q.rangeAgg.sel main) := by
  simp [fingerprintFilterP, withConnector_ok c q main st h, fingerprintFilter, fpWith]

theorem samplesMainP_ok (st : XState) (h : FpOk c q st) :
    samplesMainP c.toCtx q.rangeAgg.sel st =
      (⟨some (F c q), st.labelsCache, nIds q⟩, samplesMain c.toCtx q.rangeAgg.sel) := by
  simp [samplesMainP, fingerprintFilterP_ok c q _ st h, samplesMain]

theorem tsReq_eq (c : Ctx) (w : With) :
    ((timeSeriesInit c).with_ [w]).andPreWhere [.isIn (.raw "time_series.fingerprint") [.withRef (.named "fp_sel")]] =
      (timeSeriesSel c).with_ [w] := rfl

theorem mapP_spec {p : Proc} {sel : Sel} {id : Nat} {lc : Option With} (f : Sel → Sel)
    (h : Spec c q p sel id lc) : Spec c q (mapP f p) (f sel) id lc := by
  intro st h1 h2
  simp [mapP, h st h1 h2]

/-- `LabelsJoinPlanner`: the fingerprint sub-query is memoized before `Main` runs -/
theorem labelsJoinP_spec {p : Proc} {sel : Sel} {id : Nat} {lc : Option With} (setLC : Bool)
    (h : Spec c q p sel id lc) :
    Spec c q (labelsJoinP c.toCtx q.rangeAgg.sel setLC p) (labelsJoin c.toCtx q.rangeAgg.sel sel) id
      (if setLC then some (tsWith c.toCtx q.rangeAgg.sel) else lc) := by
  intro st h1 h2
  have hm := h ⟨some (F c q), st.labelsCache, nIds q⟩ (Or.inr ⟨rfl, rfl⟩) h2
  simp only [labelsJoinP, withConnector_ok c q _ st h1, hm]
  cases setLC <;> simp [labelsJoin, tsWith, fpWith, tsReq_eq]

theorem splP_spec : ∃ lc, Spec c q (splP c q) (splSel c q) (nIds q) lc ∧ (q.rangeAgg.isUnwrap = false → lc = none) := by
  cases hk : q.rangeAgg.kind with
  | lra fn =>
    refine ⟨none, ?_, fun _ => rfl⟩
    intro st h1 h2
    simp only [splP, splSel, hk]
    simp [samplesMainP_ok c q st h1, h2]
  | unwrap fn label =>
    refine ⟨some (tsWith c.toCtx q.rangeAgg.sel), ?_, fun h => by simp [RangeAgg.isUnwrap, hk] at h⟩
    have hs : Spec c q (samplesMainP c.toCtx q.rangeAgg.sel) (samplesMain c.toCtx q.rangeAgg.sel) (nIds q) none := by
      intro st h1 h2
      simp [samplesMainP_ok c q st h1, h2]
    have := mapP_spec c q (unwrapSel label) (labelsJoinP_spec c q true
      (mapP_spec c q (fun m => m.setOrderBy [.orderBy (.raw "timestamp_ns") (dirOf c.toCtx)]) hs))
    simpa [splP, splSel, hk] using this

/-- `ByWithoutPlanner.processTSTable` entered with an empty labels memo and `fp_sel` memoized is the pure planner's -/
theorem byWithoutTSP_ok (g : Grouping) (main : Sel) (id : Nat) :
    ∃ w, byWithoutTSP c.toCtx g main ⟨some (F c q), none, id⟩ =
      (⟨some (F c q), some w, id + 2⟩, byWithoutTS c.toCtx id g main) :=
  ⟨_, rfl⟩

theorem planByWithoutP_spec {p : Proc} {sel : Sel} {id : Nat} {lc : Option With} (useTS : Bool) (g : Option Grouping)
    (h : Spec c q p sel id lc) (hlc : useTS = true → g.isSome → lc = none) :
    ∃ lc', Spec c q (planByWithoutP c.toCtx useTS g p) (planByWithout c.toCtx useTS g ⟨sel, id⟩).sel
      (planByWithout c.toCtx useTS g ⟨sel, id⟩).id lc' ∧ (lc'.isSome → lc.isSome ∨ (useTS = true ∧ g.isSome)) := by
  cases g with
  | none => exact ⟨lc, h, fun h => Or.inl h⟩
  | some g =>
    cases useTS with
    | false =>
      refine ⟨lc, ?_, fun h => Or.inl h⟩
      intro st h1 h2
      simp [planByWithoutP, planByWithout, h st h1 h2]
    | true =>
      have : lc = none := hlc rfl rfl
      subst this
      obtain ⟨w, hw⟩ := byWithoutTSP_ok c q g sel id
      refine ⟨some w, ?_, fun _ => Or.inr ⟨rfl, rfl⟩⟩
      intro st h1 h2
      simp [planByWithoutP, planByWithout, h st h1 h2, hw]

/-- the matrix functions wrapped around a planner that meets its specification meet theirs, as long as no second
    `ByWithoutPlanner` over the time-series table follows one that already memoized its labels -/
theorem fold_spec (steps : List Step) :
    ∀ (p : Proc) (ps : PState) (lc : Option With), Spec c q p ps.sel ps.id lc →
      NoSC steps →
      (q.rangeAgg.isUnwrap = false → steps.countP tsStep + (if lc.isSome then 1 else 0) ≤ 1) →
      ∃ lc', Spec c q (steps.foldl (stepP c q) p) (steps.foldl (applyStep c q) ps).sel
        (steps.foldl (applyStep c q) ps).id lc' := by
  induction steps with
  | nil => intro p ps lc h _ _; exact ⟨lc, h⟩
  | cons s rest ih =>
    intro p ps lc h hns hts
    have hns1 : isShortcut s = false := hns s (List.mem_cons_self ..)
    have hns2 : NoSC rest := fun x hx => hns x (List.mem_cons_of_mem _ hx)
    simp only [List.foldl_cons]
    have hrest : ∀ lc2 : Option With, (lc2.isSome → lc.isSome ∨ tsStep s = true ∧ q.rangeAgg.isUnwrap = false) →
        (q.rangeAgg.isUnwrap = false → rest.countP tsStep + (if lc2.isSome then 1 else 0) ≤ 1) := by
      intro lc2 h2 hu
      have h3 := hts hu
      rw [List.countP_cons] at h3
      by_cases h2s : lc2.isSome = true
      · rcases h2 h2s with hl | ⟨ht, _⟩
        · rw [if_pos hl] at h3; rw [if_pos h2s]; omega
        · rw [if_pos ht] at h3; rw [if_pos h2s]; omega
      · rw [if_neg h2s]; omega
    -- one planner around `p`
    have step : ∃ lc2, Spec c q (stepP c q p s) (applyStep c q ps s).sel (applyStep c q ps s).id lc2 ∧
        (lc2.isSome → lc.isSome ∨ tsStep s = true ∧ q.rangeAgg.isUnwrap = false) := by
      have hbw : ∀ g : Option Grouping, tsStep s = g.isSome →
          ∃ lc', Spec c q (planByWithoutP c.toCtx (!q.rangeAgg.isUnwrap) g p)
            (planByWithout c.toCtx (!q.rangeAgg.isUnwrap) g ⟨ps.sel, ps.id⟩).sel
            (planByWithout c.toCtx (!q.rangeAgg.isUnwrap) g ⟨ps.sel, ps.id⟩).id lc' ∧
            (lc'.isSome → lc.isSome ∨ tsStep s = true ∧ q.rangeAgg.isUnwrap = false) := by
        intro g hg
        have hlc : (!q.rangeAgg.isUnwrap) = true → g.isSome → lc = none := by
          intro hu hgs
          have hu' : q.rangeAgg.isUnwrap = false := by simpa using hu
          have h4 := hts hu'
          rw [List.countP_cons, hg, hgs] at h4
          cases lc with
          | none => rfl
          | some w => exfalso; simp at h4
        obtain ⟨lc', h1, h2⟩ := planByWithoutP_spec c q (!q.rangeAgg.isUnwrap) g h hlc
        refine ⟨lc', h1, fun hs => ?_⟩
        rcases h2 hs with hl | ⟨hu, hgs⟩
        · exact Or.inl hl
        · exact Or.inr ⟨by rw [hg, hgs], by simpa using hu⟩
      cases s with
      | lra fn d => exact ⟨lc, mapP_spec c q _ h, fun h => Or.inl h⟩
      | shortcut fn d => simp [isShortcut] at hns1
      | unwrapFn fn d g =>
        obtain ⟨lc', h1, h2⟩ := hbw g (by cases g <;> rfl)
        exact ⟨lc', mapP_spec c q _ h1, h2⟩
      | agg fn g =>
        obtain ⟨lc', h1, h2⟩ := hbw g (by cases g <;> rfl)
        exact ⟨lc', mapP_spec c q _ h1, h2⟩
      | topk isTop k => exact ⟨lc, mapP_spec c q _ h, fun h => Or.inl h⟩
      | cmp cm => exact ⟨lc, mapP_spec c q _ h, fun h => Or.inl h⟩
    obtain ⟨lc2, hs2, hl2⟩ := step
    exact ih _ _ lc2 hs2 hns2 (hrest lc2 hl2)

end

/-! ### the step lists `plan()` builds -/
theorem cmpStep_noShortcut (x : Option Comparison) : NoSC (cmpStep x) := by
  cases x with
  | none => exact NoSC.nil
  | some cm => exact NoSC.cons rfl NoSC.nil
theorem cmpStep_count (x : Option Comparison) : (cmpStep x).countP tsStep = 0 := by
  cases x <;> rfl

theorem orderRange_noShortcut (r : RangeAgg) : NoSC (orderRange r) := by
  unfold orderRange
  cases r.kind with
  | lra fn => exact NoSC.append (NoSC.cons rfl NoSC.nil) (cmpStep_noShortcut _)
  | unwrap fn l => exact NoSC.append (NoSC.cons rfl NoSC.nil) (cmpStep_noShortcut _)

theorem orderRange_count (r : RangeAgg) (h : r.isUnwrap = false) : (orderRange r).countP tsStep = 0 := by
  unfold orderRange
  unfold RangeAgg.isUnwrap at h
  cases hk : r.kind with
  | lra fn => simp [cmpStep_count, tsStep]
  | unwrap fn l => simp [hk] at h

theorem orderAgg_noShortcut (a : VecAgg) : NoSC (orderAgg a) :=
  NoSC.append (NoSC.append (orderRange_noShortcut _) (NoSC.cons rfl NoSC.nil)) (cmpStep_noShortcut _)

theorem count_one (s : Step) : [s].countP tsStep ≤ 1 := by
  simp only [List.countP_cons, List.countP_nil]
  split <;> omega

theorem orderAgg_count (a : VecAgg) (h : a.inner.isUnwrap = false) : (orderAgg a).countP tsStep ≤ 1 := by
  have := count_one (Step.agg a.fn (some (aggGrouping a)))
  simp only [orderAgg, List.countP_append, orderRange_count a.inner h, cmpStep_count]
  omega

theorem functionOrder_noShortcut (q : MetricQuery) : NoSC (functionOrder q) := by
  cases q with
  | range r => exact orderRange_noShortcut r
  | agg a => exact orderAgg_noShortcut a
  | topk t =>
    obtain ⟨isTop, k, inner, cm⟩ := t
    cases inner with
    | range r =>
      exact NoSC.append (NoSC.append (orderRange_noShortcut r) (NoSC.cons rfl NoSC.nil)) (cmpStep_noShortcut _)
    | agg a =>
      exact NoSC.append (NoSC.append (orderAgg_noShortcut a) (NoSC.cons rfl NoSC.nil)) (cmpStep_noShortcut _)

theorem functionOrder_count (q : MetricQuery) (h : q.rangeAgg.isUnwrap = false) :
    (functionOrder q).countP tsStep ≤ 1 := by
  cases q with
  | range r => simp [functionOrder, orderRange_count r h]
  | agg a => exact orderAgg_count a h
  | topk t =>
    cases hi : t.inner with
    | range r =>
      have h' : r.isUnwrap = false := by simpa [MetricQuery.rangeAgg, TopInner.rangeAgg, hi] using h
      simp [functionOrder, hi, List.countP_append, orderRange_count r h', cmpStep_count, tsStep]
    | agg a =>
      have h' : a.inner.isUnwrap = false := by simpa [MetricQuery.rangeAgg, TopInner.rangeAgg, hi] using h
      have := orderAgg_count a h'
      simp only [functionOrder, hi, List.countP_append, cmpStep_count]
      simp [tsStep]
      omega

/-- the shortcut is taken only by `rate`/`count_over_time` without unwrap -/
theorem takesShortcut_lra (q : MetricQuery) (h : takesShortcut q = true) :
    ∃ fn, q.rangeAgg.kind = .lra fn := by
  unfold takesShortcut at h
  cases hk : q.rangeAgg.kind with
  | lra fn => exact ⟨fn, rfl⟩
  | unwrap fn l => simp [hk] at h

theorem shortcutRange_lra (r : RangeAgg) (fn : RangeFn) (h : r.kind = .lra fn) :
    shortcutRange r = .shortcut fn r.durNs :: cmpStep r.cmp := by
  simp [shortcutRange, h]

/-- `planMetrics15Shortcut`: the shortcut's select first, then planners that are no shortcut, at most one by/without -/
theorem shortcutOrder_shape (q : MetricQuery) (fn : RangeFn) (h : q.rangeAgg.kind = .lra fn) :
    ∃ rest, shortcutOrder q = .shortcut fn q.rangeAgg.durNs :: rest ∧ NoSC rest ∧ rest.countP tsStep ≤ 1 := by
  cases q with
  | range r =>
    refine ⟨cmpStep r.cmp, ?_, cmpStep_noShortcut _, by simp [cmpStep_count]⟩
    simpa [shortcutOrder, MetricQuery.rangeAgg] using shortcutRange_lra r fn h
  | agg a =>
    have hr := shortcutRange_lra a.inner fn h
    refine ⟨cmpStep a.inner.cmp ++ [Step.agg a.fn (some (aggGrouping a))] ++ cmpStep a.cmp, ?_, ?_, ?_⟩
    · simp [shortcutOrder, shortcutAgg, hr, MetricQuery.rangeAgg]
    · exact NoSC.append (NoSC.append (cmpStep_noShortcut _) (NoSC.cons rfl NoSC.nil)) (cmpStep_noShortcut _)
    · have := count_one (Step.agg a.fn (some (aggGrouping a)))
      simp only [List.countP_append, cmpStep_count]
      omega
  | topk t =>
    cases hi : t.inner with
    | range r =>
      have h' : r.kind = .lra fn := by simpa [MetricQuery.rangeAgg, TopInner.rangeAgg, hi] using h
      have hr := shortcutRange_lra r fn h'
      refine ⟨cmpStep r.cmp ++ [Step.topk t.isTop t.k] ++ cmpStep t.cmp, ?_, ?_, ?_⟩
      · simp [shortcutOrder, hi, hr, MetricQuery.rangeAgg, TopInner.rangeAgg]
      · exact NoSC.append (NoSC.append (cmpStep_noShortcut _) (NoSC.cons rfl NoSC.nil)) (cmpStep_noShortcut _)
      · simp [List.countP_append, cmpStep_count, tsStep]
    | agg a =>
      have h' : a.inner.kind = .lra fn := by simpa [MetricQuery.rangeAgg, TopInner.rangeAgg, hi] using h
      have hr := shortcutRange_lra a.inner fn h'
      refine ⟨cmpStep a.inner.cmp ++ [Step.agg a.fn (some (aggGrouping a))] ++ cmpStep a.cmp ++
        [Step.topk t.isTop t.k] ++ cmpStep t.cmp, ?_, ?_, ?_⟩
      · simp [shortcutOrder, shortcutAgg, hi, hr, MetricQuery.rangeAgg, TopInner.rangeAgg]
      · exact NoSC.append (NoSC.append (NoSC.append (NoSC.append (cmpStep_noShortcut _) (NoSC.cons rfl NoSC.nil))
          (cmpStep_noShortcut _)) (NoSC.cons rfl NoSC.nil)) (cmpStep_noShortcut _)
      · have := count_one (Step.agg a.fn (some (aggGrouping a)))
        have h2 : [Step.topk t.isTop t.k].countP tsStep = 0 := rfl
        simp only [List.countP_append, cmpStep_count, h2]
        omega

/-- the matrix functions of a plan, wrapped around `planSpl`, meet the specification of the pure fold -/
theorem steps_spec (c : MCtx) (q : MetricQuery) :
    ∃ lc, Spec c q ((planSteps q).foldl (stepP c q) (splP c q))
      ((planSteps q).foldl (applyStep c q) ⟨splSel c q, nIds q⟩).sel
      ((planSteps q).foldl (applyStep c q) ⟨splSel c q, nIds q⟩).id lc := by
  unfold planSteps
  cases hs : takesShortcut q with
  | false =>
    obtain ⟨lc0, h0, hl0⟩ := splP_spec c q
    simp only [Bool.false_eq_true, if_false]
    refine fold_spec c q (functionOrder q) (splP c q) ⟨splSel c q, nIds q⟩ lc0 h0 (functionOrder_noShortcut q) ?_
    intro hu
    have := functionOrder_count q hu
    simp [hl0 hu]
    exact this
  | true =>
    obtain ⟨fn, hk⟩ := takesShortcut_lra q hs
    obtain ⟨rest, hso, hns, hct⟩ := shortcutOrder_shape q fn hk
    simp only [if_true, hso, List.foldl_cons]
    have h1 : Spec c q (stepP c q (splP c q) (.shortcut fn q.rangeAgg.durNs))
        (applyStep c q ⟨splSel c q, nIds q⟩ (.shortcut fn q.rangeAgg.durNs)).sel
        (applyStep c q ⟨splSel c q, nIds q⟩ (.shortcut fn q.rangeAgg.durNs)).id none := by
      intro st hf hl
      simp [stepP, applyStep, fingerprintFilterP_ok c q _ st hf, hl]
    refine fold_spec c q rest _ _ none h1 hns ?_
    intro _
    simpa using hct

/-- **the chain below `cacheResetPlanner`, entered with both memo fields empty, returns `planMetric`** -/
theorem metricChainP_fresh (c : MCtx) (q : MetricQuery) :
    (metricChainP c q ⟨none, none, 0⟩).2 = planMetric c q := by
  obtain ⟨lc, hs⟩ := steps_spec c q
  have hi := mapP_spec c q (stepFixSel c q.rangeAgg.durNs) hs
  unfold metricChainP planMetric
  cases hm : matrixLabels q with
  | true =>
    have := mapP_spec c q finalizeMatrix hi ⟨none, none, 0⟩ (Or.inl ⟨rfl, rfl⟩) rfl
    simp only [if_true]
    rw [this]
  | false =>
    have := mapP_spec c q finalizeMatrix (labelsJoinP_spec c q false hi) ⟨none, none, 0⟩ (Or.inl ⟨rfl, rfl⟩) rfl
    simp only [Bool.false_eq_true, if_false]
    rw [this]

end Qryn.LogQL
