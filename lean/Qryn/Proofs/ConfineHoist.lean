import Qryn.Proofs.Confine
import Qryn.Sql.Build
/-! C13, generic part: how confinement of a WITH list survives `Select.With` / `AddWith` (hoisting of the
    added query's own WITH list in front of it, entries whose alias is already present dropped).

    `Inv B Y G seen ws` walks a flat WITH list the way `withsConfined` / `withsDeep` do: every entry passes the
    per-entry check `B` under the aliases `seen` so far, and every entry whose alias is in the set `G` (the
    aliases later entries rely on) yields ids of a confined selection (`Y`); only `G`-aliases enter `seen`.
    Because a `G`-alias yields wherever it is defined, dropping a later definition of an alias already present
    keeps the invariant (`hoist_inv`, `with_inv`). The two realisations (`withsConfined_of_inv`, and the fuel
    version in `ConfineDeep`) turn the invariant into the predicates of `Read/Confine.lean`. -/
namespace Qryn.Confine
open Qryn Qryn.Sql

theorem any_imp {α} (l : List α) (p q : α → Bool) (h : ∀ x, p x = true → q x = true)
    (hp : l.any p = true) : l.any q = true := by
  obtain ⟨x, hx, hpx⟩ := List.any_eq_true.mp hp
  exact List.any_eq_true.mpr ⟨x, hx, h x hpx⟩

theorem contains_mono (ok ok' : List Alias) (h : ∀ a, a ∈ ok → a ∈ ok') (a : Alias)
    (ha : ok.contains a = true) : ok'.contains a = true := by
  rw [List.contains_iff_mem] at ha ⊢
  exact h a ha

/-- more known selections never un-confine a select -/
theorem bodyConfined_mono (cfg : Cfg) (w : Window) (ok ok' : List Alias) (h : ∀ a, a ∈ ok → a ∈ ok') (s : Sel)
    (hs : bodyConfined cfg w ok s = true) : bodyConfined cfg w ok' s = true := by
  cases s with
  | mk ws d c f j p wh g hv ob l =>
    simp only [bodyConfined] at hs ⊢
    cases hf : fromTable f with
    | none => simp
    | some t =>
      simp only [hf] at hs ⊢
      cases hk : cfg.kind t with
      | other => simp
      | data =>
        simp only [hk, Bool.or_eq_true, Bool.and_eq_true] at hs ⊢
        rcases hs with hs | hs
        · exact Or.inl hs
        · refine Or.inr ⟨hs.1, any_imp _ _ _ ?_ hs.2⟩
          intro e he
          cases hi : idIn e with
          | none => simp [hi] at he
          | some a => simp only [hi] at he ⊢; exact contains_mono ok ok' h a he
      | index =>
        simp only [hk, Bool.or_eq_true, Bool.and_eq_true] at hs ⊢
        refine ⟨hs.1, ?_⟩
        rcases hs.2 with h2 | h2
        · exact Or.inl h2
        · refine Or.inr (any_imp _ _ _ ?_ h2)
          intro e he
          cases hi : fpIn e with
          | none => simp [hi] at he
          | some a => simp only [hi] at he ⊢; exact contains_mono ok ok' h a he

theorem derivesFrom_mono (ok ok' : List Alias) (h : ∀ a, a ∈ ok → a ∈ ok') (s : Sel)
    (hs : derivesFrom ok s = true) : derivesFrom ok' s = true := by
  unfold derivesFrom at hs ⊢
  split at hs
  · exact contains_mono ok ok' h _ hs
  · exact contains_mono ok ok' h _ hs
  · cases hs

/-! ### the invariant -/
section Hoist
variable (B Y : List Alias → Sel → Prop) (G : Alias → Bool)

def Mono (P : List Alias → Sel → Prop) : Prop :=
  ∀ ok ok' s, (∀ a, a ∈ ok → a ∈ ok') → P ok s → P ok' s

def Inv : List Alias → List (Alias × Sel) → Prop
  | _, [] => True
  | seen, (a, s) :: rest =>
    B seen s ∧ (G a = true → Y seen s) ∧ Inv (if G a then a :: seen else seen) rest

/-- the `G`-aliases a list defines, on top of `seen` -/
def seenAfter : List Alias → List (Alias × Sel) → List Alias
  | seen, [] => seen
  | seen, (a, _) :: rest => seenAfter (if G a then a :: seen else seen) rest

theorem mem_seenAfter (seen : List Alias) (ws : List (Alias × Sel)) (x : Alias) :
    x ∈ seenAfter G seen ws ↔ x ∈ seen ∨ (G x = true ∧ hasAlias ws x = true) := by
  induction ws generalizing seen with
  | nil => simp [seenAfter, hasAlias]
  | cons e rest ih =>
    obtain ⟨a, s⟩ := e
    simp only [seenAfter, ih, hasAlias, List.any_cons, Bool.or_eq_true, beq_iff_eq]
    by_cases hg : G a = true
    · simp only [hg, if_true, List.mem_cons]
      constructor
      · rintro ((rfl | h) | ⟨h1, h2⟩)
        · exact Or.inr ⟨hg, Or.inl rfl⟩
        · exact Or.inl h
        · exact Or.inr ⟨h1, Or.inr (by simpa [hasAlias] using h2)⟩
      · rintro (h | ⟨h1, h2 | h2⟩)
        · exact Or.inl (Or.inr h)
        · exact Or.inl (Or.inl h2.symm)
        · exact Or.inr ⟨h1, by simpa [hasAlias] using h2⟩
    · simp only [hg, if_false, Bool.false_eq_true]
      constructor
      · rintro (h | ⟨h1, h2⟩)
        · exact Or.inl h
        · exact Or.inr ⟨h1, Or.inr (by simpa [hasAlias] using h2)⟩
      · rintro (h | ⟨h1, h2 | h2⟩)
        · exact Or.inl h
        · subst h2; exact absurd h1 hg
        · exact Or.inr ⟨h1, by simpa [hasAlias] using h2⟩

theorem Inv_mono (hB : Mono B) (hY : Mono Y) (ws : List (Alias × Sel)) :
    ∀ (seen seen' : List Alias), (∀ a, a ∈ seen → a ∈ seen') → Inv B Y G seen ws → Inv B Y G seen' ws := by
  induction ws with
  | nil => intros; trivial
  | cons e rest ih =>
    obtain ⟨a, s⟩ := e
    intro seen seen' hsub h
    obtain ⟨h1, h2, h3⟩ := h
    refine ⟨hB _ _ _ hsub h1, fun hg => hY _ _ _ hsub (h2 hg), ?_⟩
    apply ih _ _ _ h3
    intro x hx
    by_cases hg : G a = true
    · simp only [hg, if_true, List.mem_cons] at hx ⊢
      rcases hx with rfl | hx
      · exact Or.inl rfl
      · exact Or.inr (hsub x hx)
    · simp only [hg, if_false, Bool.false_eq_true] at hx ⊢
      exact hsub x hx

theorem Inv_append (xs ys : List (Alias × Sel)) :
    ∀ seen, Inv B Y G seen (xs ++ ys) ↔ Inv B Y G seen xs ∧ Inv B Y G (seenAfter G seen xs) ys := by
  induction xs with
  | nil => intro seen; simp [Inv, seenAfter]
  | cons e rest ih =>
    obtain ⟨a, s⟩ := e
    intro seen
    simp only [List.cons_append, Inv, seenAfter, ih, and_assoc]

/-- `AddWith` of the inner list of an added query: entries whose alias is present are skipped -/
def hoistInto (cur inner : List (Alias × Sel)) : List (Alias × Sel) :=
  inner.foldl (fun acc w' => if hasAlias acc w'.1 then acc else acc ++ [w']) cur

theorem hasAlias_append (xs ys : List (Alias × Sel)) (a : Alias) :
    hasAlias (xs ++ ys) a = (hasAlias xs a || hasAlias ys a) := by
  simp [hasAlias, List.any_append]

theorem hasAlias_hoistInto (inner : List (Alias × Sel)) :
    ∀ (cur : List (Alias × Sel)) (a : Alias), (hasAlias cur a = true ∨ hasAlias inner a = true) → hasAlias (hoistInto cur inner) a = true := by
  induction inner with
  | nil => intro cur a h; rcases h with h | h
           · exact h
           · simp [hasAlias] at h
  | cons e rest ih =>
    intro cur a h
    simp only [hoistInto, List.foldl_cons]
    by_cases hc : hasAlias cur e.1 = true
    · simp only [hc, if_true]
      apply ih
      rcases h with h | h
      · exact Or.inl h
      · simp only [hasAlias, List.any_cons, Bool.or_eq_true, beq_iff_eq] at h
        rcases h with h | h
        · left; rw [← h]; exact hc
        · right; simpa [hasAlias] using h
    · simp only [hc, if_false, Bool.false_eq_true]
      apply ih
      rcases h with h | h
      · left; rw [hasAlias_append]; simp [h]
      · simp only [hasAlias, List.any_cons, Bool.or_eq_true, beq_iff_eq] at h
        rcases h with h | h
        · left; rw [hasAlias_append]; simp [hasAlias, h]
        · right; simpa [hasAlias] using h

theorem hoist_inv (hB : Mono B) (hY : Mono Y) (inner : List (Alias × Sel)) :
    ∀ (acc : List (Alias × Sel)) (seen : List Alias), Inv B Y G [] acc → Inv B Y G seen inner →
      (∀ a, a ∈ seen → a ∈ seenAfter G [] acc) → Inv B Y G [] (hoistInto acc inner) := by
  induction inner with
  | nil => intro acc seen h _ _; exact h
  | cons e rest ih =>
    obtain ⟨a, s⟩ := e
    intro acc seen hacc hin hsub
    obtain ⟨h1, h2, h3⟩ := hin
    simp only [hoistInto, List.foldl_cons]
    by_cases hc : hasAlias acc a = true
    · simp only [hc, if_true]
      apply ih acc _ hacc h3
      intro x hx
      by_cases hg : G a = true
      · simp only [hg, if_true, List.mem_cons] at hx
        rcases hx with rfl | hx
        · exact (mem_seenAfter G [] acc x).mpr (Or.inr ⟨hg, hc⟩)
        · exact hsub x hx
      · simp only [hg, if_false, Bool.false_eq_true] at hx
        exact hsub x hx
    · simp only [hc, if_false, Bool.false_eq_true]
      have hacc' : Inv B Y G [] (acc ++ [(a, s)]) := by
        rw [Inv_append]
        exact ⟨hacc, hB _ _ _ hsub h1, fun hg => hY _ _ _ hsub (h2 hg), trivial⟩
      apply ih (acc ++ [(a, s)]) _ hacc' h3
      intro x hx
      rw [mem_seenAfter, hasAlias_append]
      by_cases hg : G a = true
      · simp only [hg, if_true, List.mem_cons] at hx
        rcases hx with rfl | hx
        · exact Or.inr ⟨hg, by simp [hasAlias]⟩
        · have := (mem_seenAfter G [] acc x).mp (hsub x hx)
          rcases this with h | ⟨h, h'⟩
          · cases h
          · exact Or.inr ⟨h, by simp [h']⟩
      · simp only [hg, if_false, Bool.false_eq_true] at hx
        have := (mem_seenAfter G [] acc x).mp (hsub x hx)
        rcases this with h | ⟨h, h'⟩
        · cases h
        · exact Or.inr ⟨h, by simp [h']⟩

theorem addWith1_eq (cur : List (Alias × Sel)) (w : Alias × Sel) :
    addWith1 cur w = if hasAlias cur w.1 then cur else hoistInto cur w.2.withs ++ [w] := rfl

/-- one `AddWith`: the invariant of the list so far and of the added query seen as an entry after its own WITH list -/
theorem addWith1_inv (hB : Mono B) (hY : Mono Y) (cur : List (Alias × Sel)) (w : Alias × Sel)
    (hcur : Inv B Y G [] cur) (hw : Inv B Y G [] (w.2.withs ++ [w])) : Inv B Y G [] (addWith1 cur w) := by
  rw [addWith1_eq]
  by_cases hc : hasAlias cur w.1 = true
  · simp only [hc, if_true]; exact hcur
  · simp only [hc, if_false, Bool.false_eq_true]
    rw [Inv_append] at hw ⊢
    obtain ⟨hin, hB1, hY1, _⟩ := hw
    refine ⟨hoist_inv B Y G hB hY _ cur [] hcur hin (by intro a ha; cases ha), ?_⟩
    have hsub : ∀ a, a ∈ seenAfter G [] w.2.withs → a ∈ seenAfter G [] (hoistInto cur w.2.withs) := by
      intro a ha
      rcases (mem_seenAfter G [] _ a).mp ha with h | ⟨h, h'⟩
      · cases h
      · exact (mem_seenAfter G [] _ a).mpr (Or.inr ⟨h, hasAlias_hoistInto _ _ _ (Or.inr h')⟩)
    exact ⟨hB _ _ _ hsub hB1, fun hg => hY _ _ _ hsub (hY1 hg), trivial⟩

theorem foldl_addWith1_inv (hB : Mono B) (hY : Mono Y) (ws : List (Alias × Sel)) :
    ∀ cur, Inv B Y G [] cur → (∀ w ∈ ws, Inv B Y G [] (w.2.withs ++ [w])) → Inv B Y G [] (ws.foldl addWith1 cur) := by
  induction ws with
  | nil => intro cur h _; exact h
  | cons w rest ih =>
    intro cur h hall
    simp only [List.foldl_cons]
    exact ih _ (addWith1_inv B Y G hB hY cur w h (hall w (by simp))) (fun w' hw' => hall w' (by simp [hw']))

theorem withs_with_ (s : Sel) (ws : List (Alias × Sel)) : (s.with_ ws).withs = ws.foldl addWith1 [] := by
  cases s; rfl

/-- **`Select.With(ws…)`**: the new WITH list satisfies the invariant when every added query does -/
theorem with_inv (hB : Mono B) (hY : Mono Y) (s : Sel) (ws : List (Alias × Sel))
    (hall : ∀ w ∈ ws, Inv B Y G [] (w.2.withs ++ [w])) : Inv B Y G [] (s.with_ ws).withs := by
  rw [withs_with_]
  exact foldl_addWith1_inv B Y G hB hY ws [] trivial hall

/-- an alias added by `With` is present afterwards -/
theorem hasAlias_addWith1 (cur : List (Alias × Sel)) (w : Alias × Sel) (a : Alias)
    (h : hasAlias cur a = true ∨ w.1 = a) : hasAlias (addWith1 cur w) a = true := by
  rw [addWith1_eq]
  by_cases hc : hasAlias cur w.1 = true
  · simp only [hc, if_true]
    rcases h with h | h
    · exact h
    · rw [← h]; exact hc
  · simp only [hc, if_false, Bool.false_eq_true]
    rw [hasAlias_append]
    rcases h with h | h
    · simp [hasAlias_hoistInto _ _ _ (Or.inl h)]
    · simp [hasAlias, h]

theorem hasAlias_foldl_addWith1 (ws : List (Alias × Sel)) (a : Alias) :
    ∀ cur, (hasAlias cur a = true ∨ ∃ w ∈ ws, w.1 = a) → hasAlias (ws.foldl addWith1 cur) a = true := by
  induction ws with
  | nil => intro cur h; rcases h with h | ⟨w, hw, _⟩
           · exact h
           · cases hw
  | cons w rest ih =>
    intro cur h
    simp only [List.foldl_cons]
    apply ih
    rcases h with h | ⟨w', hw', ha⟩
    · exact Or.inl (hasAlias_addWith1 cur w a (Or.inl h))
    · rcases List.mem_cons.mp hw' with rfl | hm
      · exact Or.inl (hasAlias_addWith1 cur w' a (Or.inr ha))
      · exact Or.inr ⟨w', hm, ha⟩

theorem hasAlias_with_ (s : Sel) (ws : List (Alias × Sel)) (a : Alias) (h : ∃ w ∈ ws, w.1 = a) :
    hasAlias (s.with_ ws).withs a = true := by
  rw [withs_with_]; exact hasAlias_foldl_addWith1 ws a [] (Or.inr h)

/-! #### entries of one `With(…)` call may refer to the entries before them (siblings) -/

/-- the entries of one `With(ws…)` call, each judged after its own WITH list under the `G`-aliases of the
    entries before it -/
def Sib : List Alias → List (Alias × Sel) → Prop
  | _, [] => True
  | S, w :: rest => Inv B Y G S (w.2.withs ++ [w]) ∧ Sib (if G w.1 then w.1 :: S else S) rest

theorem addWith1_inv' (hB : Mono B) (hY : Mono Y) (cur : List (Alias × Sel)) (w : Alias × Sel) (S : List Alias)
    (hcur : Inv B Y G [] cur) (hS : ∀ a, a ∈ S → a ∈ seenAfter G [] cur) (hw : Inv B Y G S (w.2.withs ++ [w])) :
    Inv B Y G [] (addWith1 cur w) := by
  rw [addWith1_eq]
  by_cases hc : hasAlias cur w.1 = true
  · simp only [hc, if_true]; exact hcur
  · simp only [hc, if_false, Bool.false_eq_true]
    rw [Inv_append] at hw ⊢
    obtain ⟨hin, hB1, hY1, _⟩ := hw
    refine ⟨hoist_inv B Y G hB hY _ cur S hcur hin hS, ?_⟩
    have hsub : ∀ a, a ∈ seenAfter G S w.2.withs → a ∈ seenAfter G [] (hoistInto cur w.2.withs) := by
      intro a ha
      rcases (mem_seenAfter G S _ a).mp ha with h | ⟨h, h'⟩
      · rcases (mem_seenAfter G [] _ a).mp (hS a h) with h0 | ⟨h1, h2⟩
        · cases h0
        · exact (mem_seenAfter G [] _ a).mpr (Or.inr ⟨h1, hasAlias_hoistInto _ _ _ (Or.inl h2)⟩)
      · exact (mem_seenAfter G [] _ a).mpr (Or.inr ⟨h, hasAlias_hoistInto _ _ _ (Or.inr h')⟩)
    exact ⟨hB _ _ _ hsub hB1, fun hg => hY _ _ _ hsub (hY1 hg), trivial⟩

theorem foldl_addWith1_sib (hB : Mono B) (hY : Mono Y) (ws : List (Alias × Sel)) :
    ∀ (cur : List (Alias × Sel)) (S : List Alias), Inv B Y G [] cur → (∀ a, a ∈ S → a ∈ seenAfter G [] cur) →
      Sib B Y G S ws → Inv B Y G [] (ws.foldl addWith1 cur) := by
  induction ws with
  | nil => intro cur S h _ _; exact h
  | cons w rest ih =>
    intro cur S h hS hsib
    obtain ⟨hw, hrest⟩ := hsib
    simp only [List.foldl_cons]
    refine ih _ _ (addWith1_inv' B Y G hB hY cur w S h hS hw) ?_ hrest
    intro a ha
    rw [mem_seenAfter]
    right
    by_cases hg : G w.1 = true
    · simp only [hg, if_true, List.mem_cons] at ha
      rcases ha with rfl | ha
      · exact ⟨hg, hasAlias_addWith1 cur w _ (Or.inr rfl)⟩
      · rcases (mem_seenAfter G [] _ a).mp (hS a ha) with h0 | ⟨h1, h2⟩
        · cases h0
        · exact ⟨h1, hasAlias_addWith1 cur w a (Or.inl h2)⟩
    · simp only [hg, if_false, Bool.false_eq_true] at ha
      rcases (mem_seenAfter G [] _ a).mp (hS a ha) with h0 | ⟨h1, h2⟩
      · cases h0
      · exact ⟨h1, hasAlias_addWith1 cur w a (Or.inl h2)⟩

/-- **`Select.With(ws…)`** with sibling references -/
theorem with_sib (hB : Mono B) (hY : Mono Y) (s : Sel) (ws : List (Alias × Sel))
    (h : Sib B Y G [] ws) : Inv B Y G [] (s.with_ ws).withs := by
  rw [withs_with_]
  exact foldl_addWith1_sib B Y G hB hY ws [] [] trivial (by intro a ha; cases ha) h

/-- a `G`-alias added by `With` is among the aliases the new WITH list defines -/
theorem mem_seenAfter_with_ (s : Sel) (ws : List (Alias × Sel)) (a : Alias) (hg : G a = true) (h : ∃ w ∈ ws, w.1 = a) :
    a ∈ seenAfter G [] (s.with_ ws).withs :=
  (mem_seenAfter G [] _ a).mpr (Or.inr ⟨hg, hasAlias_with_ s ws a h⟩)

end Hoist

/-! ### realisation for `confined` (statements without set operations) -/

/-- what `withsConfined` / `okAfter` use to decide whether an alias names a confined selection -/
def yieldC (cfg : Cfg) (ok : List Alias) (s : Sel) : Bool := isIndexSelection cfg s || derivesFrom ok s

/-- the two as predicates -/
abbrev BC (cfg : Cfg) (w : Window) : List Alias → Sel → Prop := fun ok s => bodyConfined cfg w ok s = true
abbrev YC (cfg : Cfg) : List Alias → Sel → Prop := fun ok s => yieldC cfg ok s = true

theorem bodyConfined_Mono (cfg : Cfg) (w : Window) : Mono (BC cfg w) :=
  fun ok ok' s h hs => bodyConfined_mono cfg w ok ok' h s hs

theorem yieldC_Mono (cfg : Cfg) : Mono (YC cfg) := by
  intro ok ok' s h hs
  simp only [YC, yieldC, Bool.or_eq_true] at hs ⊢
  rcases hs with hs | hs
  · exact Or.inl hs
  · exact Or.inr (derivesFrom_mono ok ok' h s hs)

theorem withsConfined_of_inv (cfg : Cfg) (w : Window) (G : Alias → Bool) (ws : List (Alias × Sel)) :
    ∀ (seen ok : List Alias), (∀ a, a ∈ seen → a ∈ ok) → Inv (BC cfg w) (YC cfg) G seen ws →
      withsConfined cfg w ok ws = true ∧ (∀ a, a ∈ seenAfter G seen ws → a ∈ okAfter cfg ok ws) := by
  induction ws with
  | nil => intro seen ok hsub _; exact ⟨rfl, hsub⟩
  | cons e rest ih =>
    obtain ⟨a, s⟩ := e
    intro seen ok hsub h
    obtain ⟨h1, h2, h3⟩ := h
    have hsub' : ∀ x, x ∈ (if G a then a :: seen else seen) →
        x ∈ (if isIndexSelection cfg s || derivesFrom ok s then a :: ok else ok) := by
      intro x hx
      by_cases hg : G a = true
      · have hy : (isIndexSelection cfg s || derivesFrom ok s) = true := yieldC_Mono cfg _ _ _ hsub (h2 hg)
        simp only [hg, if_true, List.mem_cons] at hx
        simp only [hy, if_true, List.mem_cons]
        rcases hx with rfl | hx
        · exact Or.inl rfl
        · exact Or.inr (hsub x hx)
      · simp only [hg, if_false, Bool.false_eq_true] at hx
        split
        · exact List.mem_cons_of_mem _ (hsub x hx)
        · exact hsub x hx
    obtain ⟨r1, r2⟩ := ih _ _ hsub' h3
    refine ⟨?_, ?_⟩
    · simp only [withsConfined, Bool.and_eq_true]
      exact ⟨bodyConfined_mono cfg w _ _ hsub s h1, r1⟩
    · simpa only [seenAfter, okAfter] using r2

/-- a statement whose WITH list, followed by the statement itself, satisfies the invariant is `confined` -/
theorem confined_of_inv (cfg : Cfg) (w : Window) (G : Alias → Bool) (s : Sel) (a : Alias)
    (h : Inv (BC cfg w) (YC cfg) G [] (s.withs ++ [(a, s)])) : confined cfg w s = true := by
  rw [Inv_append] at h
  obtain ⟨h1, h2, _⟩ := h
  obtain ⟨r1, r2⟩ := withsConfined_of_inv cfg w G s.withs [] [] (fun _ h => h) h1
  cases s with
  | mk ws d c f j p wh g hv ob l =>
    simp only [confined, Bool.and_eq_true]
    exact ⟨r1, bodyConfined_mono cfg w _ _ r2 _ h2⟩

end Qryn.Confine
