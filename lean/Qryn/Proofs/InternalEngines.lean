import Qryn.Proofs.InternalSpec
import Qryn.Proofs.Sort
/-! Stable insertion sort commutes with filtering; the split between ClickHouse and the in-process engine
    (spec side: `LogQL.Sem`); the fingerprint's hashed text is injective; `GetBreakpoint`. Core only. -/
namespace Qryn
open Qryn.Sql Qryn.LogQL

/-! ### `sortBy` and `filter` -/
def SortedBy {α : Type} (le : α → α → Bool) (l : List α) : Prop := l.Pairwise (fun a b => le a b = true)

theorem mem_insertBy {α : Type} (le : α → α → Bool) (x : α) (l : List α) : ∀ z, z ∈ insertBy le x l ↔ z = x ∨ z ∈ l := by
  induction l with
  | nil => intro z; simp [insertBy]
  | cons y ys ih =>
    intro z
    simp only [insertBy]
    split
    · simp only [List.mem_cons, ih]
      constructor
      · rintro (h | h | h)
        · exact Or.inr (Or.inl h)
        · exact Or.inl h
        · exact Or.inr (Or.inr h)
      · rintro (h | h | h)
        · exact Or.inr (Or.inl h)
        · exact Or.inl h
        · exact Or.inr (Or.inr h)
    · simp [List.mem_cons]

theorem insertBy_sorted {α : Type} (le : α → α → Bool) (htot : ∀ a b, le a b = true ∨ le b a = true)
    (htr : ∀ a b c, le a b = true → le b c = true → le a c = true) (x : α) (l : List α) (hs : SortedBy le l) :
    SortedBy le (insertBy le x l) := by
  induction l with
  | nil => simp [insertBy, SortedBy]
  | cons y ys ih =>
    have hs' := List.pairwise_cons.mp hs
    simp only [insertBy]
    split
    · rename_i hyx
      refine List.pairwise_cons.mpr ⟨?_, ih hs'.2⟩
      intro z hz
      rcases (mem_insertBy le x ys z).mp hz with h | h
      · rw [h]; exact hyx
      · exact hs'.1 z h
    · rename_i hyx
      have hxy : le x y = true := by
        rcases htot x y with h | h
        · exact h
        · exact absurd h hyx
      refine List.pairwise_cons.mpr ⟨?_, hs⟩
      intro z hz
      rcases List.mem_cons.mp hz with h | h
      · rw [h]; exact hxy
      · exact htr x y z hxy (hs'.1 z h)

theorem sortBy_sorted {α : Type} (le : α → α → Bool) (htot : ∀ a b, le a b = true ∨ le b a = true)
    (htr : ∀ a b c, le a b = true → le b c = true → le a c = true) (l : List α) : SortedBy le (sortBy le l) := by
  induction l with
  | nil => simp [sortBy, SortedBy]
  | cons x xs ih => exact insertBy_sorted le htot htr x _ ih

theorem filter_insertBy {α : Type} (le : α → α → Bool)
    (htr : ∀ a b c, le a b = true → le b c = true → le a c = true) (p : α → Bool) (x : α) (l : List α)
    (hs : SortedBy le l) :
    (insertBy le x l).filter p = if p x then insertBy le x (l.filter p) else l.filter p := by
  induction l with
  | nil => by_cases h : p x <;> simp [insertBy, h]
  | cons y ys ih =>
    have hs' := List.pairwise_cons.mp hs
    simp only [insertBy]
    by_cases hyx : le y x = true
    · simp only [hyx, if_true, List.filter_cons, ih hs'.2]
      by_cases hy : p y = true <;> by_cases hx : p x = true <;> simp [hy, hx, insertBy, hyx]
    · simp only [hyx, Bool.false_eq_true, if_false]
      by_cases hx : p x = true
      · simp only [List.filter_cons, hx, if_true]
        -- the first kept element of y :: ys is not below x
        have hhead : ∀ z rest, (y :: ys).filter p = z :: rest → ¬ le z x = true := by
          intro z rest hz hzx
          have hzmem : z ∈ y :: ys := by
            have : z ∈ (y :: ys).filter p := by rw [hz]; exact List.mem_cons_self
            exact (List.mem_filter.mp this).1
          rcases List.mem_cons.mp hzmem with h | h
          · rw [h] at hzx; exact hyx hzx
          · exact hyx (htr y z x (hs'.1 z h) hzx)
        cases hf : (y :: ys).filter p with
        | nil =>
          simp only [List.filter_cons] at hf
          simp [hf, insertBy]
        | cons z rest =>
          have := hhead z rest hf
          simp only [List.filter_cons] at hf
          simp [hf, insertBy, this]
      · simp [List.filter_cons, hx]

theorem filter_sortBy {α : Type} (le : α → α → Bool) (htot : ∀ a b, le a b = true ∨ le b a = true)
    (htr : ∀ a b c, le a b = true → le b c = true → le a c = true) (p : α → Bool) (l : List α) :
    (sortBy le l).filter p = sortBy le (l.filter p) := by
  induction l with
  | nil => rfl
  | cons x xs ih =>
    have hs := sortBy_sorted le htot htr xs
    show (insertBy le x (sortBy le xs)).filter p = _
    rw [filter_insertBy le htr p x _ hs, ih]
    by_cases hx : p x = true
    · simp [hx, List.filter_cons, sortBy]
    · simp [hx, List.filter_cons]

namespace Read

/-! ### the split: what ClickHouse returns for the prefix, then the in-process stage -/
theorem tsLe_total (c : LogQL.Ctx) (a b : Sample) : tsLe c a b = true ∨ tsLe c b a = true := by
  simp only [tsLe]
  split <;> simp <;> omega

theorem tsLe_trans (c : LogQL.Ctx) (a b d : Sample) : tsLe c a b = true → tsLe c b d = true → tsLe c a d = true := by
  simp only [tsLe]
  split <;> simp <;> omega

variable {V : Type}

/-- the label map the getter scans for a row: the series' labels, or nothing when the join found none -/
def labelsOfVal : Val → Labels
  | .map m => m
  | _ => []

/-- a row of the ClickHouse result as the getter hands it to the in-process engine -/
def toEntry (N : NumOps V) (o : Oracles) (c : LogQL.Ctx) (d : LokiDb) (q : LogQuery) (s : Sample) : Entry V :=
  ⟨s.ts, UInt64.ofNat s.fp.toNat, labelsOfVal (labelsOf o c d q s.fp), s.str, N.zero, none⟩

/-- entries of the log query `q` in the order ClickHouse returns them when it is *not* the final engine
    (`Plan(chScript, finalize = false)`): ORDER BY timestamp, no LIMIT -/
def matching (o : Oracles) (c : LogQL.Ctx) (d : LokiDb) (q : LogQuery) : List Sample :=
  sortBy (tsLe c) (d.samples.filter (entryMatches o c d q))

def upstream (N : NumOps V) (o : Oracles) (c : LogQL.Ctx) (d : LokiDb) (q : LogQuery) : List (Entry V) :=
  (matching o c d q).map (toEntry N o c d q)

def withStage (q : LogQuery) (s : Stage) : LogQuery := ⟨q.matchers, q.stages ++ [s]⟩

theorem labelConds_line (q : LogQuery) (f : LineFilter) : labelConds (withStage q (.line f)) = labelConds q := by
  simp [labelConds, withStage, List.filterMap_append]

theorem lineFilters_line (q : LogQuery) (f : LineFilter) : lineFilters (withStage q (.line f)) = lineFilters q ++ [f] := by
  simp [lineFilters, withStage, List.filterMap_append]

theorem fpSelected_line (o : Oracles) (c : LogQL.Ctx) (d : LokiDb) (q : LogQuery) (f : LineFilter) :
    fpSelected o c d (withStage q (.line f)) = fpSelected o c d q := by
  simp only [fpSelected, labelConds_line]
  rfl

theorem entryMatches_line (o : Oracles) (c : LogQL.Ctx) (d : LokiDb) (q : LogQuery) (f : LineFilter) (s : Sample) :
    entryMatches o c d (withStage q (.line f)) s = (entryMatches o c d q s && lineHolds o f s.str) := by
  simp only [entryMatches, fpSelected_line, lineFilters_line, List.all_append, List.all_cons, List.all_nil,
    Bool.and_true, Bool.and_assoc]

theorem toEntry_line (N : NumOps V) (o : Oracles) (c : LogQL.Ctx) (d : LokiDb) (q : LogQuery) (f : LineFilter) :
    toEntry N o c d (withStage q (.line f)) = toEntry N o c d q := by
  funext s
  simp only [toEntry, labelsOf, fpSelected_line]

/-- **line filter.** The in-process line filter applied to the rows ClickHouse returns for the pipeline
    prefix gives the rows of the pipeline extended by that filter — for every prefix, i.e. every split point. -/
theorem upstream_line (N : NumOps V) (o : Oracles) (c : LogQL.Ctx) (d : LokiDb) (q : LogQuery) (f : LineFilter) :
    (upstream N o c d q).filter (fun e : Entry V => lineHolds o f e.msg) = upstream N o c d (withStage q (.line f)) := by
  simp only [upstream, matching, toEntry_line]
  have hm : d.samples.filter (entryMatches o c d (withStage q (.line f))) =
      (d.samples.filter (entryMatches o c d q)).filter (fun s => lineHolds o f s.str) := by
    rw [List.filter_filter]
    apply List.filter_congr
    intro s _
    rw [entryMatches_line, Bool.and_comm]
  rw [hm, ← filter_sortBy (tsLe c) (tsLe_total c) (tsLe_trans c) (fun s => lineHolds o f s.str)
    (d.samples.filter (entryMatches o c d q)), List.filter_map]
  rfl

/-- **limit.** Taking the first `limit` rows of the prefix result (0 = all) is `LogQL.limited`, the meaning of
    the limit on the ClickHouse path. -/
theorem upstream_limit (N : NumOps V) (o : Oracles) (c : LogQL.Ctx) (d : LokiDb) (q : LogQuery) :
    LogQL.Stages.limitStage c.limit (upstream N o c d q) = (limited o c d q).map (toEntry N o c d q) := by
  simp only [LogQL.Stages.limitStage, upstream, matching, limited]
  split
  · rfl
  · rw [List.map_take]

end Read

/-! ### hash.go: the hashed text determines the label -/
namespace Read

theorem le64_length (n : Nat) : (le64 n).length = 8 := by simp [le64]

theorem le64_inj (n m : Nat) (hn : n < 2 ^ 64) (hm : m < 2 ^ 64) (h : le64 n = le64 m) : n = m := by
  have hr : List.range 8 = [0, 1, 2, 3, 4, 5, 6, 7] := by decide
  simp only [le64, hr, List.map_cons, List.map_nil, List.cons.injEq, and_true] at h
  obtain ⟨h0, h1, h2, h3, h4, h5, h6, h7⟩ := h
  have t : ∀ a b : Nat, UInt8.ofNat (a % 256) = UInt8.ofNat (b % 256) → a % 256 = b % 256 := by
    intro a b hab
    have := congrArg UInt8.toNat hab
    simpa [UInt8.toNat_ofNat'] using this
  have e0 := t _ _ h0
  have e1 := t _ _ h1
  have e2 := t _ _ h2
  have e3 := t _ _ h3
  have e4 := t _ _ h4
  have e5 := t _ _ h5
  have e6 := t _ _ h6
  have e7 := t _ _ h7
  simp only [Nat.reducePow, Nat.div_one] at e0 e1 e2 e3 e4 e5 e6 e7
  omega

/-- **the text handed to CityHash for a label is injective in (name, value)** -/
theorem encodePair_inj (a b : Bytes × Bytes) (ha : a.1.length < 2 ^ 64) (hb : b.1.length < 2 ^ 64)
    (h : encodePair a = encodePair b) : a = b := by
  simp only [encodePair, List.append_assoc] at h
  have h1 := List.append_inj h (by simp [le64_length])
  have hlen := le64_inj _ _ ha hb h1.1
  have h2 := List.append_inj h1.2 hlen
  exact Prod.ext h2.1 h2.2

/-- the hashing before the fix: name and value concatenated -/
def encodePairOld (kv : Bytes × Bytes) : Bytes := kv.1 ++ kv.2

theorem perm_of_map_perm {α β : Type} [DecidableEq α] (f : α → β) (a b : List α)
    (hinj : ∀ x ∈ a, ∀ y ∈ b, f x = f y → x = y) (h : (a.map f).Perm (b.map f)) : a.Perm b := by
  induction a generalizing b with
  | nil =>
    have := h.length_eq
    simp at this
    have : b = [] := List.length_eq_zero_iff.mp (by omega)
    rw [this]
  | cons x xs ih =>
    have hx : f x ∈ b.map f := h.subset (by simp)
    obtain ⟨y, hy, hfy⟩ := List.mem_map.mp hx
    have hxy : x = y := hinj x List.mem_cons_self y hy hfy.symm
    subst hxy
    have hb : b.Perm (x :: b.erase x) := List.perm_cons_erase hy
    have h' : (f x :: xs.map f).Perm (f x :: (b.erase x).map f) := by
      have := h.trans (hb.map f)
      simpa using this
    have h'' := List.Perm.cons_inv h'
    have := ih (b.erase x) (fun u hu v hv => hinj u (List.mem_cons_of_mem _ hu) v (List.mem_of_mem_erase hv)) h''
    exact (List.Perm.cons x this).trans hb.symm

end Read

/-! ### planner.go: the split point -/
namespace Read

theorem breakIndex_spec (tags : List StageTag) (i : Nat) :
    (breakIndex tags i = -1 ∧ ∀ t ∈ tags, t.breaks = false) ∨
    (∃ k t, k < tags.length ∧ breakIndex tags i = ((i + k : Nat) : Int) ∧ tags[k]? = some t ∧ t.breaks = true ∧
      ∀ u ∈ tags.take k, u.breaks = false) := by
  induction tags generalizing i with
  | nil => left; simp [breakIndex]
  | cons t rest ih =>
    simp only [breakIndex]
    by_cases ht : t.breaks = true
    · right
      exact ⟨0, t, by simp, by simp [ht], by simp, ht, by simp⟩
    · have htf : t.breaks = false := by simpa using ht
      simp only [htf, Bool.false_eq_true, if_false]
      rcases ih (i + 1) with ⟨h1, h2⟩ | ⟨k, u, hk, h1, h2, h3, h4⟩
      · left
        refine ⟨h1, ?_⟩
        intro x hx
        rcases List.mem_cons.mp hx with h | h
        · rw [h]; exact htf
        · exact h2 x h
      · right
        refine ⟨k + 1, u, by simp; omega, ?_, by simpa using h2, h3, ?_⟩
        · rw [h1]; congr 1; omega
        · intro x hx
          simp only [List.take_succ_cons, List.mem_cons] at hx
          rcases hx with h | h
          · rw [h]; exact htf
          · exact h4 x h

end Read
end Qryn

namespace Qryn
open Qryn.Sql Qryn.LogQL

namespace Read
variable {V : Type}

/-! ### the label filter across the split -/
theorem chainSelected_snoc (o : Oracles) (d : LokiDb) (base : Int → Bool) (cs : List LabelCond) (lc : LabelCond) :
    chainSelected o d base (cs ++ [lc]) =
      fun fp => d.ts.any (fun t => t.fp == fp && chainSelected o d base cs t.fp && labelCondHolds o (o.jsonLabels t.labels) lc) := by
  induction cs generalizing base with
  | nil => rfl
  | cons c cs ih => simp only [List.cons_append, chainSelected]; exact ih _

theorem labelConds_label (q : LogQuery) (lc : LabelCond) : labelConds (withStage q (.label lc)) = labelConds q ++ [lc] := by
  simp [labelConds, withStage, List.filterMap_append]

theorem lineFilters_label (q : LogQuery) (lc : LabelCond) : lineFilters (withStage q (.label lc)) = lineFilters q := by
  simp [lineFilters, withStage, List.filterMap_append]

theorem fpSelected_label (o : Oracles) (c : LogQL.Ctx) (d : LokiDb) (q : LogQuery) (lc : LabelCond) (fp : Int) :
    fpSelected o c d (withStage q (.label lc)) fp =
      d.ts.any (fun t => t.fp == fp && fpSelected o c d q t.fp && labelCondHolds o (o.jsonLabels t.labels) lc) := by
  simp only [fpSelected, labelConds_label, chainSelected_snoc]
  rfl

/-- what the series table has to look like for the two engines to see the same labels: one label document per
    fingerprint, every row inside the index window and of the queried signal, a row for every sample's stream -/
structure SeriesTableOk (c : LogQL.Ctx) (d : LokiDb) : Prop where
  oneDoc : ∀ t ∈ d.ts, ∀ t' ∈ d.ts, t.fp = t'.fp → t.labels = t'.labels
  admissible : ∀ t ∈ d.ts, (decide (fromDate c ≤ t.date) && typeOk c t.tp) = true
  present : ∀ s ∈ d.samples, ∃ t ∈ d.ts, t.fp = s.fp

theorem labelsOf_of_row (o : Oracles) (c : LogQL.Ctx) (d : LokiDb) (hd : SeriesTableOk c d) (q : LogQuery) (fp : Int)
    (hsel : fpSelected o c d q fp = true) (t : TsRow) (ht : t ∈ d.ts) (hfp : t.fp = fp) :
    labelsOf o c d q fp = .map (o.jsonLabels t.labels) := by
  simp only [labelsOf]
  have hpred : (decide (fromDate c ≤ t.date) && typeOk c t.tp && fpSelected o c d q t.fp && t.fp == fp) = true := by
    simp [hd.admissible t ht, hfp, hsel]
  cases hf : d.ts.find? (fun t => decide (fromDate c ≤ t.date) && typeOk c t.tp && fpSelected o c d q t.fp && t.fp == fp) with
  | none =>
    have := List.find?_eq_none.mp hf t ht
    simp [hpred] at this
  | some t0 =>
    have h0 := List.find?_some hf
    have hm := List.mem_of_find?_eq_some hf
    have hfp0 : t0.fp = fp := by
      have : (t0.fp == fp) = true := by
        simp only [Bool.and_eq_true] at h0
        exact h0.2
      simpa using this
    simp only
    rw [hd.oneDoc t0 hm t ht (by rw [hfp0, hfp])]

theorem fpSelected_label_eq (o : Oracles) (c : LogQL.Ctx) (d : LokiDb) (hd : SeriesTableOk c d) (q : LogQuery)
    (lc : LabelCond) (s : Sample) (hs : s ∈ d.samples) :
    fpSelected o c d (withStage q (.label lc)) s.fp =
      (fpSelected o c d q s.fp && labelCondHolds o (labelsOfVal (labelsOf o c d q s.fp)) lc) := by
  rw [fpSelected_label]
  obtain ⟨t1, ht1, hfp1⟩ := hd.present s hs
  by_cases hsel : fpSelected o c d q s.fp = true
  · rw [labelsOf_of_row o c d hd q s.fp hsel t1 ht1 hfp1]
    simp only [hsel, Bool.true_and, labelsOfVal]
    apply Bool.eq_iff_iff.mpr
    constructor
    · intro h
      obtain ⟨t, ht, hp⟩ := List.any_eq_true.mp h
      simp only [Bool.and_eq_true, beq_iff_eq] at hp
      rw [hd.oneDoc t1 ht1 t ht (by rw [hfp1, hp.1.1])]
      exact hp.2
    · intro h
      exact List.any_eq_true.mpr ⟨t1, ht1, by simp [hfp1, hsel, h]⟩
  · have hsel' : fpSelected o c d q s.fp = false := by simpa using hsel
    simp only [hsel', Bool.false_and]
    apply Bool.eq_false_iff.mpr
    intro h
    obtain ⟨t, _, hp⟩ := List.any_eq_true.mp h
    simp only [Bool.and_eq_true, beq_iff_eq] at hp
    rw [hp.1.1, hsel'] at hp
    exact Bool.noConfusion hp.1.2

theorem entryMatches_label (o : Oracles) (c : LogQL.Ctx) (d : LokiDb) (hd : SeriesTableOk c d) (q : LogQuery)
    (lc : LabelCond) (s : Sample) (hs : s ∈ d.samples) :
    entryMatches o c d (withStage q (.label lc)) s =
      (entryMatches o c d q s && labelCondHolds o (labelsOfVal (labelsOf o c d q s.fp)) lc) := by
  simp only [entryMatches, lineFilters_label, fpSelected_label_eq o c d hd q lc s hs]
  cases decide (c.fromNs ≤ s.ts) <;> cases decide (s.ts < c.toNs) <;> cases typeOk c s.tp <;>
    cases fpSelected o c d q s.fp <;> cases labelCondHolds o (labelsOfVal (labelsOf o c d q s.fp)) lc <;> simp

theorem toEntry_label (N : NumOps V) (o : Oracles) (c : LogQL.Ctx) (d : LokiDb) (q : LogQuery) (lc : LabelCond) (s : Sample)
    (h1 : fpSelected o c d q s.fp = true) (h2 : fpSelected o c d (withStage q (.label lc)) s.fp = true) :
    toEntry N o c d (withStage q (.label lc)) s = toEntry N o c d q s := by
  simp only [toEntry, labelsOf]
  have : (fun t : TsRow => decide (fromDate c ≤ t.date) && typeOk c t.tp && fpSelected o c d (withStage q (.label lc)) t.fp && t.fp == s.fp) =
         (fun t : TsRow => decide (fromDate c ≤ t.date) && typeOk c t.tp && fpSelected o c d q t.fp && t.fp == s.fp) := by
    funext t
    by_cases ht : t.fp = s.fp
    · rw [ht, h1, h2]
    · have : (t.fp == s.fp) = false := by simpa using ht
      simp [this]
  rw [this]

/-- **label filter.** Under `SeriesTableOk`, filtering the prefix result by the label condition in process
    gives the rows of the pipeline extended by that label filter. -/
theorem upstream_label (N : NumOps V) (o : Oracles) (c : LogQL.Ctx) (d : LokiDb) (hd : SeriesTableOk c d) (q : LogQuery)
    (lc : LabelCond) :
    (upstream N o c d q).filter (fun e : Entry V => labelCondHolds o e.labels lc) = upstream N o c d (withStage q (.label lc)) := by
  simp only [upstream, matching]
  have hm : d.samples.filter (entryMatches o c d (withStage q (.label lc))) =
      (d.samples.filter (entryMatches o c d q)).filter (fun s => labelCondHolds o (labelsOfVal (labelsOf o c d q s.fp)) lc) := by
    rw [List.filter_filter]
    apply List.filter_congr
    intro s hs
    rw [entryMatches_label o c d hd q lc s hs, Bool.and_comm]
  rw [List.filter_map]
  have hcomp : ((fun e : Entry V => labelCondHolds o e.labels lc) ∘ toEntry N o c d q) =
      (fun s => labelCondHolds o (labelsOfVal (labelsOf o c d q s.fp)) lc) := rfl
  rw [hcomp, filter_sortBy (tsLe c) (tsLe_total c) (tsLe_trans c), ← hm]
  apply List.map_congr_left
  intro s hs
  have hs' := (mem_sortBy _ _ s).mp hs
  obtain ⟨hsm, hmatch⟩ := List.mem_filter.mp hs'
  have h2 : fpSelected o c d (withStage q (.label lc)) s.fp = true := by
    simp only [entryMatches, Bool.and_eq_true] at hmatch
    exact hmatch.1.2
  have h1 : fpSelected o c d q s.fp = true := by
    rw [fpSelected_label_eq o c d hd q lc s hsm] at h2
    simp only [Bool.and_eq_true] at h2
    exact h2.1
  exact (toEntry_label N o c d q lc s h1 h2).symm

end Read
end Qryn
