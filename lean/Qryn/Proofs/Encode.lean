import Qryn.Read.Encode
import Qryn.Proofs.JsonNum
/-! Lemmas relating the chunk machines of `Qryn.Encode` to the compact printer. Core-only. -/
namespace Qryn.Encode
open Qryn Qryn.Json

/-! ### printer pieces -/
def commaVals (vs : List JVal) : Bytes := vs.flatMap (fun y => 44 :: print y)

theorem printElems_cons (x : JVal) (r : List JVal) : printElems (x :: r) = print x ++ commaVals r := by
  induction r generalizing x with
  | nil => simp [printElems, commaVals]
  | cons y r ih => simp [printElems, commaVals, ih y]

theorem print_respDoc (rt : Bytes) (xs : List JVal) :
    print (respDoc rt (.arr xs)) = preamble rt ++ printElems xs ++ [93, 125, 125] := by
  simp [respDoc, print, printMembers, preamble]

/-! ### grouping into maximal runs of equal fingerprint -/
/-- maximal runs of consecutive entries with the same fingerprint -/
def runs : List Entry → List (List Entry)
  | [] => []
  | e :: es =>
    match runs es with
    | [] => [[e]]
    | g :: gs => if g.head?.map (·.fp) = some e.fp then (e :: g) :: gs else [e] :: g :: gs

theorem runs_flatten (es : List Entry) : (runs es).flatten = es := by
  induction es with
  | nil => rfl
  | cons e es ih =>
    simp only [runs]
    cases h : runs es with
    | nil => simp [h] at ih; simp [ih]
    | cons g gs =>
      rw [h] at ih
      simp only
      split <;> simp [← ih]

theorem runs_ne_nil (es : List Entry) : ∀ g ∈ runs es, g ≠ [] := by
  induction es with
  | nil => intro g hg; cases hg
  | cons e es ih =>
    simp only [runs]
    cases h : runs es with
    | nil => intro g hg; simp at hg; simp [hg]
    | cons g0 gs =>
      rw [h] at ih
      simp only
      split
      · intro g hg
        rcases List.mem_cons.mp hg with rfl | hg
        · simp
        · exact ih g (by simp [hg])
      · intro g hg
        rcases List.mem_cons.mp hg with rfl | hg
        · simp
        · exact ih g hg

/-- the first run of `e :: es` starts with `e` -/
theorem runs_cons_head (e : Entry) (es : List Entry) : ∃ g gs, runs (e :: es) = (e :: g) :: gs := by
  simp only [runs]
  cases runs es with
  | nil => exact ⟨[], [], rfl⟩
  | cons g0 gs =>
    simp only
    split
    · exact ⟨g0, gs, rfl⟩
    · exact ⟨[], g0 :: gs, rfl⟩

/-- all entries of a run have the fingerprint of its first entry -/
theorem runs_const (es : List Entry) : ∀ g ∈ runs es, ∀ e ∈ g, some e.fp = g.head?.map (·.fp) := by
  induction es with
  | nil => intro g hg; cases hg
  | cons e0 es ih =>
    simp only [runs]
    cases h : runs es with
    | nil => intro g hg e he; simp at hg; subst hg; simp at he; subst he; simp
    | cons g0 gs =>
      rw [h] at ih
      simp only
      split
      · rename_i hfp
        intro g hg e he
        rcases List.mem_cons.mp hg with rfl | hg
        · rcases List.mem_cons.mp he with rfl | he
          · simp
          · have := ih g0 (by simp) e he
            simp [this, hfp]
        · exact ih g (by simp [hg]) e he
      · intro g hg e he
        rcases List.mem_cons.mp hg with rfl | hg
        · simp at he; subst he; simp
        · exact ih g hg e he

/-- fingerprints of the first entries of the runs -/
def runFps (es : List Entry) : List Nat := (runs es).filterMap (fun g => g.head?.map (·.fp))

/-- neighbours differ -/
def AdjDiff : List Nat → Prop
  | [] => True
  | [_] => True
  | a :: b :: r => a ≠ b ∧ AdjDiff (b :: r)

/-- consecutive runs have different fingerprints (the runs are maximal) -/
theorem runs_adjacent (es : List Entry) : AdjDiff (runFps es) := by
  induction es with
  | nil => simp [runFps, runs, AdjDiff]
  | cons e es ih =>
    simp only [runFps, runs] at ih ⊢
    cases h : runs es with
    | nil => simp [AdjDiff]
    | cons g0 gs =>
      rw [h] at ih
      have hne := runs_ne_nil es g0 (by simp [h])
      cases g0 with
      | nil => exact absurd rfl hne
      | cons f g0' =>
        simp only [List.head?_cons, Option.map_some, Option.some.injEq]
        simp only [List.filterMap_cons, List.head?_cons, Option.map_some] at ih
        split
        · rename_i hfp
          simpa [List.filterMap_cons, hfp] using ih
        · rename_i hfp
          simp only [List.filterMap_cons, List.head?_cons, Option.map_some]
          exact ⟨fun h => hfp h.symm, ih⟩

/-! ### `%f` is a JSON number -/
theorem step_dot : NumSt.step .zero 46 = .dot ∧ NumSt.step .int 46 = .dot := by decide

theorem isNumTok_fixed6 (neg : Bool) (q : Nat) : isNumTok (fixed6 neg q) = true := by
  have hd : ∀ n, NumSt.step .dot (digit n) = .frac ∧ NumSt.step .frac (digit n) = .frac := fun n =>
    ⟨(step_digit_int (n % 10) (Nat.mod_lt _ (by decide))).2.1, (step_digit_int (n % 10) (Nat.mod_lt _ (by decide))).2.2⟩
  have hint : ∀ st, (st = NumSt.start ∨ st = NumSt.minus) →
      ((decNat (q / 1000000) ++ [46, digit (q / 100000), digit (q / 10000), digit (q / 1000), digit (q / 100),
        digit (q / 10), digit q]).foldl NumSt.step st).accept = true := by
    intro st hst
    rw [foldl_step_append, decNat_run st hst]
    have : NumSt.step (if q / 1000000 = 0 then NumSt.zero else NumSt.int) 46 = .dot := by
      split
      · exact step_dot.1
      · exact step_dot.2
    simp only [List.foldl_cons, List.foldl_nil, this, (hd _).1, (hd _).2]
    rfl
  cases neg with
  | false => simpa [fixed6, isNumTok] using hint .start (Or.inl rfl)
  | true =>
    have h45 : NumSt.step .start 45 = .minus := by decide
    simpa [fixed6, isNumTok, h45] using hint .minus (Or.inr rfl)

theorem isNumTok_tsF6 (ts : Int) : isNumTok (tsF6 ts) = true := isNumTok_fixed6 _ _
theorem isNumTok_msF6 (t : Int) : isNumTok (msF6 t) = true := isNumTok_fixed6 _ _

/-! ### the series machine writes the compact text of the runs -/
/-- one series object: the labels of the run's first entry, all its values in order -/
def seriesObj (sh : Shape) (g : List Entry) : JVal :=
  match g with
  | [] => .obj []
  | e :: _ => .obj [(sh.key, labelsObj e.labels), (kValues, .arr (g.map sh.value))]

def commaObjs (sh : Shape) (gs : List (List Entry)) : Bytes := commaVals (gs.map (seriesObj sh))

theorem print_seriesObj (sh : Shape) (e : Entry) (g : List Entry) :
    print (seriesObj sh (e :: g)) =
      openObj sh e ++ print (sh.value e) ++ commaVals (g.map sh.value) ++ [93, 125] := by
  simp [seriesObj, print, printMembers, openObj, printElems_cons]

/-- what remains to be written when an object for `fp` is open and `es` are still to come -/
def cont (sh : Shape) (tail : Bytes) (fp : Nat) (es : List Entry) : Bytes :=
  match runs es with
  | [] => [93, 125] ++ tail
  | g :: gs =>
    if g.head?.map (·.fp) = some fp then commaVals (g.map sh.value) ++ [93, 125] ++ commaObjs sh gs ++ tail
    else [93, 125] ++ commaObjs sh (g :: gs) ++ tail

/-- the text of all series objects of `es`, then `tail` -/
def whole (sh : Shape) (tail : Bytes) (es : List Entry) : Bytes :=
  printElems ((runs es).map (seriesObj sh)) ++ tail

theorem whole_cons (sh : Shape) (tail : Bytes) (e : Entry) (es : List Entry) :
    whole sh tail (e :: es) = openObj sh e ++ print (sh.value e) ++ cont sh tail e.fp es := by
  simp only [whole, cont, runs]
  cases runs es with
  | nil => simp [printElems, print_seriesObj, commaVals]
  | cons g gs =>
    simp only
    split
    · simp [printElems_cons, print_seriesObj, commaObjs]
    · simp [printElems_cons, print_seriesObj, commaObjs, commaVals]

theorem cont_same (sh : Shape) (tail : Bytes) (e : Entry) (es : List Entry) :
    cont sh tail e.fp (e :: es) = 44 :: print (sh.value e) ++ cont sh tail e.fp es := by
  simp only [cont, runs]
  cases runs es with
  | nil => simp [commaVals, commaObjs]
  | cons g gs =>
    by_cases hh : g.head?.map (·.fp) = some e.fp
    · simp [hh, commaVals]
    · simp [hh, commaVals, commaObjs]

theorem cont_other (sh : Shape) (tail : Bytes) (fp : Nat) (e : Entry) (es : List Entry) (h : fp ≠ e.fp) :
    cont sh tail fp (e :: es) = [93, 125, 44] ++ whole sh tail (e :: es) := by
  obtain ⟨g, gs, hr⟩ := runs_cons_head e es
  have h' : ¬ (some e.fp = some fp) := by simpa using fun h' => h h'.symm
  simp [cont, whole, hr, h', commaObjs, commaVals, printElems_cons]

def NoErr (es : List Entry) : Prop := ∀ e ∈ es, e.err = .none

theorem go_open (sh : Shape) (tail : Bytes) (fp : Nat) (es : List Entry) (h : NoErr es) :
    (go sh tail (some fp) es).flatten = cont sh tail fp es := by
  induction es generalizing fp with
  | nil => simp [go, cont, runs]
  | cons e es ih =>
    have he : e.err = .none := h e (by simp)
    have hes : NoErr es := fun x hx => h x (by simp [hx])
    simp only [go, he]
    by_cases hfp : fp = e.fp
    · subst hfp
      simp only [if_true, List.flatten_cons]
      rw [ih _ hes, cont_same]
      simp
    · have : ¬ (some fp = some e.fp) := by simpa using hfp
      simp only [this, if_false, Option.isSome_some, if_true, List.flatten_append, List.flatten_cons,
        List.flatten_nil]
      rw [ih _ hes, cont_other sh tail fp e es hfp, whole_cons]
      simp

theorem go_none (sh : Shape) (tail : Bytes) (es : List Entry) (h : NoErr es) :
    (go sh tail none es).flatten = whole sh tail es := by
  cases es with
  | nil => simp [go, whole, runs, printElems]
  | cons e es =>
    have he : e.err = .none := h e (by simp)
    have hes : NoErr es := fun x hx => h x (by simp [hx])
    simp only [go, he]
    simp only [show ¬ ((none : Option Nat) = some e.fp) by simp, if_false, Option.isSome_none,
      Bool.false_eq_true, List.nil_append, List.flatten_cons]
    rw [go_open sh tail e.fp es hes, whole_cons]

/-- rows among the entries (markers dropped) -/
def rowsOf (es : List Entry) : List Entry := es.filter (fun e => e.err = .none)

def NoFail (es : List Entry) : Prop := ∀ e ∈ es, e.err ≠ .fail

theorem noErr_rowsOf (es : List Entry) : NoErr (rowsOf es) := by
  intro e he
  simpa using (List.mem_filter.mp he).2

/-- EOF marker entries are skipped by the streams loop -/
theorem go_rowsOf (sh : Shape) (tail : Bytes) (st : Option Nat) (es : List Entry) (h : NoFail es) :
    go sh tail st es = go sh tail st (rowsOf es) := by
  induction es generalizing st with
  | nil => rfl
  | cons e es ih =>
    have hes : NoFail es := fun x hx => h x (by simp [hx])
    have he := h e (by simp)
    cases herr : e.err with
    | fail => exact absurd herr he
    | eof =>
      have : rowsOf (e :: es) = rowsOf es := by simp [rowsOf, herr]
      rw [this, ← ih st hes]
      simp [go, herr]
    | none =>
      have : rowsOf (e :: es) = e :: rowsOf es := by simp [rowsOf, herr]
      rw [this]
      simp only [go, herr]
      split
      · rw [ih st hes]
      · rw [ih (some e.fp) hes]

/-! ### well-formedness of the expected documents (number tokens are JSON numbers) -/
theorem wfList_of_forall (xs : List JVal) (h : ∀ x ∈ xs, x.wf = true) : wfList xs = true := by
  induction xs with
  | nil => rfl
  | cons x r ih =>
    simp only [wfList, Bool.and_eq_true]
    exact ⟨h x (by simp), ih (fun y hy => h y (by simp [hy]))⟩

theorem wfMembers_of_forall (kvs : List (Bytes × JVal)) (h : ∀ p ∈ kvs, p.2.wf = true) : wfMembers kvs = true := by
  induction kvs with
  | nil => rfl
  | cons x r ih =>
    obtain ⟨k, v⟩ := x
    simp only [wfMembers, Bool.and_eq_true]
    exact ⟨h (k, v) (by simp), ih (fun y hy => h y (by simp [hy]))⟩

theorem labelsObj_wf (ls : List (Bytes × Bytes)) : (labelsObj ls).wf = true := by
  simp only [labelsObj, JVal.wf]
  apply wfMembers_of_forall
  intro p hp
  obtain ⟨q, _, rfl⟩ := List.mem_map.mp hp
  rfl

theorem seriesObj_wf (sh : Shape) (hv : ∀ e, (sh.value e).wf = true) (g : List Entry) :
    (seriesObj sh g).wf = true := by
  cases g with
  | nil => rfl
  | cons e g =>
    simp only [seriesObj, JVal.wf, wfMembers, labelsObj_wf, Bool.true_and, Bool.and_true]
    apply wfList_of_forall
    intro x hx
    obtain ⟨y, _, rfl⟩ := List.mem_map.mp hx
    exact hv y

theorem respDoc_wf (rt : Bytes) (xs : List JVal) (h : ∀ x ∈ xs, x.wf = true) :
    (respDoc rt (.arr xs)).wf = true := by
  simp [respDoc, JVal.wf, wfMembers, wfList_of_forall xs h]

theorem streamsShape_wf (e : Entry) : (streamsShape.value e).wf = true := rfl
theorem matrixShape_wf (e : Entry) : (matrixShape.value e).wf = true := by
  simp [matrixShape, JVal.wf, wfList, isNumTok_tsF6]

/-- the series response document for a list of rows -/
def seriesDoc (rt : Bytes) (sh : Shape) (rows : List Entry) : JVal :=
  respDoc rt (.arr ((runs rows).map (seriesObj sh)))

theorem seriesDoc_wf (rt : Bytes) (sh : Shape) (hv : ∀ e, (sh.value e).wf = true) (rows : List Entry) :
    (seriesDoc rt sh rows).wf = true := by
  apply respDoc_wf
  intro x hx
  obtain ⟨g, _, rfl⟩ := List.mem_map.mp hx
  exact seriesObj_wf sh hv g

/-- the chunks `preamble :: go …` concatenate to the compact text of the series document -/
theorem series_text (rt : Bytes) (sh : Shape) (rows : List Entry) (h : NoErr rows) :
    (preamble rt :: go sh [93, 125, 125] none rows).flatten = print (seriesDoc rt sh rows) := by
  rw [List.flatten_cons, go_none sh _ rows h, seriesDoc, print_respDoc, whole]
  simp

/-! ### matrix: `break` at EOF -/
theorem mem_takeWhile_prop {α} (p : α → Bool) (l : List α) : ∀ x ∈ l.takeWhile p, p x = true := by
  induction l with
  | nil => intro x hx; cases hx
  | cons a l ih =>
    intro x hx
    by_cases ha : p a = true
    · simp only [List.takeWhile_cons, ha, if_true] at hx
      rcases List.mem_cons.mp hx with rfl | hx
      · exact ha
      · exact ih x hx
    · simp [List.takeWhile_cons, ha] at hx

theorem cutEof_noEof (b : List Entry) : ∀ e ∈ cutEof b, e.err ≠ .eof := by
  intro e he
  have := mem_takeWhile_prop _ _ e he
  simpa using this

/-- when EOF markers only stand at the end of a batch (what the getter delivers), `break` drops nothing -/
theorem cutEof_eq_filter (b : List Entry) (h : ∀ pre e post, b = pre ++ e :: post → e.err = .eof → post = []) :
    cutEof b = b.filter (fun e => e.err ≠ .eof) := by
  induction b with
  | nil => rfl
  | cons e b ih =>
    by_cases he : e.err = .eof
    · have : b = [] := h [] e b rfl he
      subst this
      simp [cutEof, he]
    · have ih' := ih (fun pre x post hb hx => h (e :: pre) x post (by simp [hb]) hx)
      simp only [cutEof] at ih' ⊢
      simp only [List.takeWhile_cons, List.filter_cons, ne_eq, he, not_false_eq_true, decide_true, if_true]
      rw [ih']

theorem noErr_of_noFail_noEof (es : List Entry) (h1 : NoFail es) (h2 : ∀ e ∈ es, e.err ≠ .eof) : NoErr es := by
  intro e he
  have a := h1 e he
  have b := h2 e he
  cases h : e.err <;> simp_all

theorem flatMap_cutEof_noEof (batches : List (List Entry)) : ∀ e ∈ batches.flatMap cutEof, e.err ≠ .eof := by
  intro e he
  obtain ⟨b, _, hb⟩ := List.mem_flatMap.mp he
  exact cutEof_noEof b e hb

/-! ### vector -/
theorem emitComma_flatten (ts : List Bytes) :
    (emitComma 0 ts).flatten = joinTexts ts := by
  have key : ∀ (i : Nat) (ts : List Bytes), 0 < i → (emitComma i ts).flatten = ts.flatMap (fun t => 44 :: t) := by
    intro i ts
    induction ts generalizing i with
    | nil => intro _; rfl
    | cons t r ih =>
      intro hi
      simp [emitComma, hi, ih (i + 1) (by omega)]
  cases ts with
  | nil => rfl
  | cons t r =>
    simp only [emitComma, Nat.lt_irrefl, if_false, List.nil_append, List.flatten_cons]
    rw [key 1 r (by omega)]
    clear key
    induction r generalizing t with
    | nil => simp [joinTexts_single]
    | cons u r ih => rw [joinTexts_cons2, ← ih u]; simp

theorem printElems_map (xs : List JVal) : printElems xs = joinTexts (xs.map print) := printElems_eq xs

/-- the vector response document: one object per visited fingerprint -/
def vectorDoc (es : List Entry) : JVal := respDoc kVector (.arr (es.map vecObj))

theorem vecObj_wf (e : Entry) : (vecObj e).wf = true := by
  simp [vecObj, JVal.wf, wfMembers, wfList, labelsObj_wf, isNumTok_decInt]

theorem vectorDoc_wf (es : List Entry) : (vectorDoc es).wf = true := by
  apply respDoc_wf
  intro x hx
  obtain ⟨e, _, rfl⟩ := List.mem_map.mp hx
  exact vecObj_wf e

theorem vector_text (es : List Entry) :
    (preamble kVector :: emitComma 0 (es.map (fun e => print (vecObj e))) ++ [[93, 125, 125]]).flatten =
      print (vectorDoc es) := by
  rw [vectorDoc, print_respDoc, printElems_map]
  simp [emitComma_flatten, List.map_map, Function.comp_def]

/-! ### element lists -/
theorem listChunks_body_flatten (items : List Bytes) :
    (listChunks.body 0 items).flatten = joinTexts items := by
  have key : ∀ (i : Nat) (ts : List Bytes), i ≠ 0 → (listChunks.body i ts).flatten = ts.flatMap (fun t => 44 :: t) := by
    intro i ts
    induction ts generalizing i with
    | nil => intro _; rfl
    | cons t r ih =>
      intro hi
      simp [listChunks.body, hi, ih (i + 1) (by omega)]
  cases items with
  | nil => rfl
  | cons t r =>
    simp only [listChunks.body, ne_eq, not_true_eq_false, if_false, List.flatten_append, List.flatten_cons,
      List.flatten_nil, List.append_nil]
    rw [key 1 r (by omega)]
    clear key
    induction r generalizing t with
    | nil => simp [joinTexts_single]
    | cons u r ih => rw [joinTexts_cons2, ← ih u]; simp

theorem listChunks_flatten (pre : Bytes) (items : List Bytes) :
    (listChunks pre items).flatten = pre ++ joinTexts items ++ [93, 125] := by
  simp [listChunks, listChunks_body_flatten]

/-! ### documents of the element-list encoders -/
theorem jstr_kStatus : jstr kStatus = [34, 115, 116, 97, 116, 117, 115, 34] := by decide
theorem jstr_kSuccess : jstr kSuccess = [34, 115, 117, 99, 99, 101, 115, 115, 34] := by decide
theorem jstr_kData : jstr kData = [34, 100, 97, 116, 97, 34] := by decide
theorem jstr_kTagNames : jstr kTagNames = [34, 116, 97, 103, 78, 97, 109, 101, 115, 34] := by decide
theorem jstr_kTagValues : jstr kTagValues = [34, 116, 97, 103, 86, 97, 108, 117, 101, 115, 34] := by decide

theorem allWs_sp : allWs [32] := by intro c hc; simp at hc; subst hc; rfl

/-- `{"status": "success","data": [` items `]}` and `{"status":"success", "data":[` items `]}` -/
def statusDataDoc (vals : List JVal) : JVal := .obj [(kStatus, .str kSuccess), (kData, .arr vals)]

theorem labels_repr (items : List (Bytes × JVal)) (h : ∀ p ∈ items, Repr p.1 p.2) :
    Repr (labelsPre ++ joinTexts (items.map (·.1)) ++ [93, 125]) (statusDataDoc (items.map (·.2))) := by
  have harr := repr_arr items h
  let m1 : Mem := ⟨[], jstr kStatus, kStatus, [32] ++ jstr kSuccess, .str kSuccess⟩
  let m2 : Mem := ⟨[], jstr kData, kData, [32] ++ (91 :: joinTexts (items.map (·.1)) ++ [93]), .arr (items.map (·.2))⟩
  have h1 : m1.ok := ⟨allWs_nil, strTok_jstr _, repr_ws allWs_sp (repr_jstr _)⟩
  have h2 : m2.ok := ⟨allWs_nil, strTok_jstr _, repr_ws allWs_sp harr⟩
  have := repr_obj [m1, m2] (by intro m hm; simp at hm; rcases hm with rfl | rfl <;> assumption)
  have htxt : 123 :: joinTexts ([m1, m2].map Mem.text) ++ [125] =
      labelsPre ++ joinTexts (items.map (·.1)) ++ [93, 125] := by
    simp [m1, m2, joinTexts_cons2, joinTexts_single, Mem.text, labelsPre, jstr_kStatus, jstr_kSuccess, jstr_kData]
  rw [htxt] at this
  simpa [m1, m2, Mem.kv, statusDataDoc] using this

theorem series_repr (items : List (Bytes × JVal)) (h : ∀ p ∈ items, Repr p.1 p.2) :
    Repr (seriesPre ++ joinTexts (items.map (·.1)) ++ [93, 125]) (statusDataDoc (items.map (·.2))) := by
  have harr := repr_arr items h
  let m1 : Mem := ⟨[], jstr kStatus, kStatus, jstr kSuccess, .str kSuccess⟩
  let m2 : Mem := ⟨[32], jstr kData, kData, 91 :: joinTexts (items.map (·.1)) ++ [93], .arr (items.map (·.2))⟩
  have h1 : m1.ok := ⟨allWs_nil, strTok_jstr _, repr_jstr _⟩
  have h2 : m2.ok := ⟨allWs_sp, strTok_jstr _, harr⟩
  have := repr_obj [m1, m2] (by intro m hm; simp at hm; rcases hm with rfl | rfl <;> assumption)
  have htxt : 123 :: joinTexts ([m1, m2].map Mem.text) ++ [125] =
      seriesPre ++ joinTexts (items.map (·.1)) ++ [93, 125] := by
    simp [m1, m2, joinTexts_cons2, joinTexts_single, Mem.text, seriesPre, jstr_kStatus, jstr_kSuccess, jstr_kData]
  rw [htxt] at this
  simpa [m1, m2, Mem.kv, statusDataDoc] using this

/-- `{"<key>": [` items `]}` -/
def oneKeyDoc (key : Bytes) (vals : List JVal) : JVal := .obj [(key, .arr vals)]

theorem tags_repr (items : List (Bytes × JVal)) (h : ∀ p ∈ items, Repr p.1 p.2) :
    Repr (tagsPre ++ joinTexts (items.map (·.1)) ++ [93, 125]) (oneKeyDoc kTagNames (items.map (·.2))) := by
  have harr := repr_arr items h
  let m : Mem := ⟨[], jstr kTagNames, kTagNames, [32] ++ (91 :: joinTexts (items.map (·.1)) ++ [93]), .arr (items.map (·.2))⟩
  have hm : m.ok := ⟨allWs_nil, strTok_jstr _, repr_ws allWs_sp harr⟩
  have := repr_obj [m] (by intro x hx; simp at hx; subst hx; exact hm)
  have htxt : 123 :: joinTexts ([m].map Mem.text) ++ [125] = tagsPre ++ joinTexts (items.map (·.1)) ++ [93, 125] := by
    simp [m, joinTexts_single, Mem.text, tagsPre, jstr_kTagNames]
  rw [htxt] at this
  simpa [m, Mem.kv, oneKeyDoc] using this

theorem tagValues_repr (items : List (Bytes × JVal)) (h : ∀ p ∈ items, Repr p.1 p.2) :
    Repr (tagValuesPre ++ joinTexts (items.map (·.1)) ++ [93, 125]) (oneKeyDoc kTagValues (items.map (·.2))) := by
  have harr := repr_arr items h
  let m : Mem := ⟨[], jstr kTagValues, kTagValues, [32] ++ (91 :: joinTexts (items.map (·.1)) ++ [93]), .arr (items.map (·.2))⟩
  have hm : m.ok := ⟨allWs_nil, strTok_jstr _, repr_ws allWs_sp harr⟩
  have := repr_obj [m] (by intro x hx; simp at hx; subst hx; exact hm)
  have htxt : 123 :: joinTexts ([m].map Mem.text) ++ [125] = tagValuesPre ++ joinTexts (items.map (·.1)) ++ [93, 125] := by
    simp [m, joinTexts_single, Mem.text, tagValuesPre, jstr_kTagValues]
  rw [htxt] at this
  simpa [m, Mem.kv, oneKeyDoc] using this

/-- items that are `json.Marshal`led strings -/
def stdItems (rows : List Bytes) : List (Bytes × JVal) := rows.map (fun s => (stdstr s, .str (sanitize s)))

theorem stdItems_repr (rows : List Bytes) : ∀ p ∈ stdItems rows, Repr p.1 p.2 := by
  intro p hp
  obtain ⟨s, _, rfl⟩ := List.mem_map.mp hp
  exact repr_stdstr s

theorem stdItems_texts (rows : List Bytes) : (stdItems rows).map (·.1) = rows.map stdstr := by
  simp [stdItems, List.map_map, Function.comp_def]

theorem stdItems_vals (rows : List Bytes) : (stdItems rows).map (·.2) = rows.map (fun s => JVal.str (sanitize s)) := by
  simp [stdItems, List.map_map, Function.comp_def]

/-! ### PromQL scalar -/
/-- bytes that `WriteString` would copy unchanged -/
def plainTok (v : Bytes) : Prop := ∀ c ∈ v, escJByte c = [c]

theorem escJ_plain (v : Bytes) (h : plainTok v) : escJ v = v := by
  induction v with
  | nil => rfl
  | cons c v ih =>
    have hc := h c (by simp)
    have := ih (fun d hd => h d (by simp [hd]))
    simp only [escJ, List.flatMap_cons] at this ⊢
    rw [hc, this]; rfl

theorem scalar_repr (t : Int) (val : Bytes) (h : plainTok val) :
    Repr (scalarChunks t val).flatten (respDoc kScalar (.arr [.num (msF6 t), .str val])) := by
  have hv : Repr ([32] ++ ([34] ++ val ++ [34])) (.str val) := by
    have := repr_ws allWs_sp (repr_jstr val)
    simpa [jstr, escJ_plain val h] using this
  have harr := repr_arr [(msF6 t, .num (msF6 t)), ([32] ++ ([34] ++ val ++ [34]), .str val)] (by
    intro p hp; simp at hp; rcases hp with rfl | rfl
    · exact repr_num (isNumTok_msF6 t)
    · exact hv)
  let m1 : Mem := jmem kResultType (jstr kScalar) (.str kScalar)
  let m2 : Mem := jmem kResult (91 :: joinTexts [msF6 t, [32] ++ ([34] ++ val ++ [34])] ++ [93])
    (.arr [.num (msF6 t), .str val])
  have hdata := repr_obj [m1, m2] (by
    intro m hm; simp at hm; rcases hm with rfl | rfl
    · exact jmem_ok (repr_jstr _)
    · exact jmem_ok (by simpa using harr))
  let n1 : Mem := jmem kStatus (jstr kSuccess) (.str kSuccess)
  let n2 : Mem := jmem kData (123 :: joinTexts ([m1, m2].map Mem.text) ++ [125]) (.obj ([m1, m2].map Mem.kv))
  have hdoc := repr_obj [n1, n2] (by
    intro m hm; simp at hm; rcases hm with rfl | rfl
    · exact jmem_ok (repr_jstr _)
    · exact jmem_ok hdata)
  have htxt : 123 :: joinTexts ([n1, n2].map Mem.text) ++ [125] = (scalarChunks t val).flatten := by
    simp [n1, n2, m1, m2, jmem_text, joinTexts_cons2, joinTexts_single, scalarChunks, preamble]
  rw [htxt] at hdoc
  simpa [n1, n2, m1, m2, Mem.kv, jmem, respDoc] using hdoc

/-! ### `lastValues`: per fingerprint, the first entry with the greatest timestamp -/
/-- the per-fingerprint view of the `lastValues` update -/
def latestStep (fp : Nat) (acc : Option Entry) (e : Entry) : Option Entry :=
  if e.fp = fp then
    match acc with
    | none => some e
    | some old => if old.ts < e.ts then some e else some old
  else acc

def latest (fp : Nat) (rows : List Entry) : Option Entry := rows.foldl (latestStep fp) none

theorem lookupFp_append_single (fp : Nat) (m : List (Nat × Entry)) (k : Nat) (e : Entry) :
    lookupFp fp (m ++ [(k, e)]) = match lookupFp fp m with | some x => some x | none => if k = fp then some e else none := by
  induction m with
  | nil => simp [lookupFp]
  | cons p r ih =>
    simp only [List.cons_append, lookupFp]
    split
    · rfl
    · exact ih

theorem lookupFp_replaceFp (fp : Nat) (e : Entry) (m : List (Nat × Entry)) :
    lookupFp fp (replaceFp e m) =
      if fp = e.fp then (match lookupFp fp m with | some _ => some e | none => none) else lookupFp fp m := by
  induction m with
  | nil => simp [replaceFp, lookupFp]
  | cons p r ih =>
    simp only [replaceFp]
    by_cases h1 : p.1 = e.fp
    · simp only [h1, if_true, lookupFp]
      by_cases h2 : fp = e.fp
      · simp [h2]
      · have : ¬ e.fp = fp := fun h => h2 h.symm
        simp [h2, this]
    · simp only [h1, if_false, lookupFp]
      by_cases h3 : p.1 = fp
      · have : ¬ fp = e.fp := fun h => h1 (h3.trans h)
        simp [h3, this]
      · simp only [h3, if_false]
        exact ih

theorem lookupFp_updLast (fp : Nat) (m : List (Nat × Entry)) (e : Entry) :
    lookupFp fp (updLast m e) = latestStep fp (lookupFp fp m) e := by
  simp only [updLast, latestStep]
  by_cases h : e.fp = fp
  · subst h
    cases hl : lookupFp e.fp m with
    | none => simp [lookupFp_append_single, hl]
    | some old =>
      simp only [if_true]
      split
      · simp [lookupFp_replaceFp, hl]
      · exact hl
  · have h' : ¬ fp = e.fp := fun x => h x.symm
    simp only [h, if_false]
    cases hl : lookupFp e.fp m with
    | none =>
      simp only [lookupFp_append_single, h, if_false]
      cases lookupFp fp m <;> rfl
    | some old =>
      simp only
      split
      · simp [lookupFp_replaceFp, h']
      · rfl

theorem lookupFp_foldl (fp : Nat) (m : List (Nat × Entry)) (rows : List Entry) :
    lookupFp fp (rows.foldl updLast m) = rows.foldl (latestStep fp) (lookupFp fp m) := by
  induction rows generalizing m with
  | nil => rfl
  | cons e r ih => simp only [List.foldl_cons, ih, lookupFp_updLast]

/-- what `lastValues[fp]` holds after the loop is the per-fingerprint fold -/
theorem lookupFp_lastValues (fp : Nat) (rows : List Entry) :
    lookupFp fp (lastValues rows) = latest fp rows := by
  simp [lastValues, latest, lookupFp_foldl, lookupFp]

/-- invariant of the per-fingerprint fold -/
def LatestInv (fp : Nat) (seen : List Entry) (acc : Option Entry) : Prop :=
  match acc with
  | none => ∀ e ∈ seen, e.fp ≠ fp
  | some a => a ∈ seen ∧ a.fp = fp ∧ ∀ e ∈ seen, e.fp = fp → e.ts ≤ a.ts

theorem latestInv_step (fp : Nat) (seen : List Entry) (acc : Option Entry) (e : Entry)
    (h : LatestInv fp seen acc) : LatestInv fp (seen ++ [e]) (latestStep fp acc e) := by
  simp only [latestStep]
  by_cases hfp : e.fp = fp
  · simp only [hfp, if_true]
    cases acc with
    | none =>
      simp only [LatestInv] at h ⊢
      refine ⟨by simp, hfp, ?_⟩
      intro x hx hxfp
      rcases List.mem_append.mp hx with hx | hx
      · exact absurd hxfp (h x hx)
      · simp at hx; subst hx; exact Int.le_refl _
    | some a =>
      simp only [LatestInv] at h
      obtain ⟨ha, hafp, hmax⟩ := h
      by_cases hlt : a.ts < e.ts
      · simp only [hlt, if_true, LatestInv]
        refine ⟨by simp, hfp, ?_⟩
        intro x hx hxfp
        rcases List.mem_append.mp hx with hx | hx
        · have := hmax x hx hxfp; omega
        · simp at hx; subst hx; exact Int.le_refl _
      · simp only [hlt, if_false, LatestInv]
        refine ⟨by simp [ha], hafp, ?_⟩
        intro x hx hxfp
        rcases List.mem_append.mp hx with hx | hx
        · exact hmax x hx hxfp
        · simp at hx; subst hx; omega
  · simp only [hfp, if_false]
    cases acc with
    | none =>
      simp only [LatestInv] at h ⊢
      intro x hx
      rcases List.mem_append.mp hx with hx | hx
      · exact h x hx
      · simp at hx; subst hx; exact hfp
    | some a =>
      simp only [LatestInv] at h ⊢
      obtain ⟨ha, hafp, hmax⟩ := h
      refine ⟨by simp [ha], hafp, ?_⟩
      intro x hx hxfp
      rcases List.mem_append.mp hx with hx | hx
      · exact hmax x hx hxfp
      · simp at hx; subst hx; exact absurd hxfp hfp

theorem latestInv_foldl (fp : Nat) (seen rest : List Entry) (acc : Option Entry) (h : LatestInv fp seen acc) :
    LatestInv fp (seen ++ rest) (rest.foldl (latestStep fp) acc) := by
  induction rest generalizing seen acc with
  | nil => simpa using h
  | cons e r ih =>
    have := ih (seen ++ [e]) _ (latestInv_step fp seen acc e h)
    simpa using this

theorem latest_spec (fp : Nat) (rows : List Entry) : LatestInv fp rows (latest fp rows) := by
  have := latestInv_foldl fp [] rows none (by simp [LatestInv])
  simpa [latest] using this

/-! ### contiguous series ⇒ one run per fingerprint -/
/-- every series' rows are contiguous: after the leading block of `a`s, `a` does not occur again
    (what `ORDER BY fingerprint` delivers; any sorted list is contiguous) -/
def Contig : List Nat → Prop
  | [] => True
  | a :: l => (∀ b ∈ l.dropWhile (· = a), b ≠ a) ∧ Contig l

theorem runFps_cons (e : Entry) (es : List Entry) :
    runFps (e :: es) =
      match es with
      | [] => [e.fp]
      | f :: _ => if f.fp = e.fp then runFps es else e.fp :: runFps es := by
  cases es with
  | nil => simp [runFps, runs]
  | cons f es' =>
    obtain ⟨g, gs, hr⟩ := runs_cons_head f es'
    simp only [runFps, runs] at hr ⊢
    rw [hr]
    simp only [List.head?_cons, Option.map_some, Option.some.injEq]
    split
    · rename_i h; simp [h]
    · rename_i h; simp [h]

theorem runFps_subset (es : List Entry) : ∀ a ∈ runFps es, a ∈ es.map (·.fp) := by
  intro a ha
  simp only [runFps, List.mem_filterMap] at ha
  obtain ⟨g, hg, hh⟩ := ha
  cases g with
  | nil => simp at hh
  | cons x g' =>
    simp at hh
    have : x ∈ (runs es).flatten := List.mem_flatten.mpr ⟨x :: g', hg, by simp⟩
    rw [runs_flatten] at this
    exact List.mem_map.mpr ⟨x, this, hh⟩

/-- **one object per series**: when the rows of each series are contiguous, the runs have pairwise different
    fingerprints -/
theorem runFps_nodup (es : List Entry) (h : Contig (es.map (·.fp))) : (runFps es).Nodup := by
  induction es with
  | nil => simp [runFps, runs]
  | cons e es ih =>
    simp only [List.map_cons, Contig] at h
    have ih' := ih h.2
    rw [runFps_cons]
    cases es with
    | nil => simp
    | cons f es' =>
      simp only
      split
      · exact ih'
      · rename_i hne
        refine List.nodup_cons.mpr ⟨?_, ih'⟩
        intro hmem
        have hsub := runFps_subset (f :: es') e.fp hmem
        have hdw : List.dropWhile (fun x => decide (x = e.fp)) (List.map (fun x => x.fp) (f :: es')) =
            List.map (fun x => x.fp) (f :: es') := by
          simp [List.dropWhile_cons, hne]
        have := h.1 e.fp (by rw [hdw]; exact hsub)
        exact this rfl

/-- a list sorted by fingerprint (ascending) is contiguous -/
theorem contig_of_sorted (l : List Nat) (h : l.Pairwise (· ≤ ·)) : Contig l := by
  induction l with
  | nil => trivial
  | cons a l ih =>
    have hp := List.pairwise_cons.mp h
    refine ⟨?_, ih hp.2⟩
    -- after the leading `a`s everything is > a because the list is sorted
    have key : ∀ (l : List Nat), l.Pairwise (· ≤ ·) → (∀ x ∈ l, a ≤ x) → ∀ b ∈ l.dropWhile (· = a), b ≠ a := by
      intro l
      induction l with
      | nil => intro _ _ b hb; cases hb
      | cons c l ih2 =>
        intro hs hge b hb
        have hs' := List.pairwise_cons.mp hs
        by_cases hc : c = a
        · simp only [List.dropWhile_cons, hc, decide_true, if_true] at hb
          exact ih2 hs'.2 (fun x hx => hge x (by simp [hx])) b hb
        · simp only [List.dropWhile_cons, hc, decide_false] at hb
          have hca : a < c := Nat.lt_of_le_of_ne (hge c (by simp)) (fun h => hc h.symm)
          rcases List.mem_cons.mp hb with rfl | hb
          · omega
          · have := hs'.1 b hb; omega
    exact key l hp.2 hp.1

end Qryn.Encode
