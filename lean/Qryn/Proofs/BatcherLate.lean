import Qryn.Ingest.BatcherLocks
import Qryn.Proofs.BatcherLocks
/-! `Request` whose unlocked `running` check passed before the stop: safety is untouched (`lrun_sound`), the promise
    is stranded (`stopped_never_resolves`). -/
namespace Qryn.Ingest.BatcherLocks
open Qryn.Ingest.Batcher

theorem stepRequestLate_sound {p R} (hp : planOK p = true) (s : Svc) (r : Req) (hI : Inv p R s) (hW : r = R r.id)
    (bs : List Columns) : Inv p R (stepRequestLate s r).1 ∧ Sound p R bs (stepRequestLate s r).2 := by
  have h1 : Inv p R { s with running := true } := Inv.of_same rfl rfl rfl rfl hI
  have h2 := stepRequest_sound hp { s with running := true } r h1 hW bs
  exact ⟨Inv.of_same rfl rfl rfl rfl h2.1, h2.2⟩

theorem lstep_sound {p R} (hp : planOK p = true) (s : Svc) (op : LOp) (hI : Inv p R s) (hW : LWellFormed R op)
    (bs : List Columns) : Inv p R (lstep s op).1 ∧ Sound p R bs (lstep s op).2 := by
  cases op with
  | op o => exact step_sound hp s o hI hW bs
  | late r =>
    simp only [lstep]
    split
    · exact ⟨hI, trivial⟩
    · exact stepRequestLate_sound hp s r hI hW bs

theorem lrun_sound {p R} (hp : planOK p = true) (ops : List LOp) (s : Svc) (hI : Inv p R s)
    (hW : ∀ op ∈ ops, LWellFormed R op) (bs : List Columns) :
    Inv p R (lrun s ops).1 ∧ Sound p R bs (lrun s ops).2 := by
  induction ops generalizing s bs with
  | nil => exact ⟨hI, trivial⟩
  | cons op ops ih =>
    simp only [lrun]
    have hs := lstep_sound hp s op hI (hW op (by simp)) bs
    have hr := ih _ hs.1 (fun o ho => hW o (by simp [ho])) ((okBlocks (lstep s op).2).reverse ++ bs)
    exact ⟨hr.1, Sound.append _ _ _ hs.2 hr.2⟩

/-- the only promise a `Request` step can complete is its own -/
theorem stepRequest_events (s : Svc) (r : Req) :
    ∀ ev ∈ (stepRequest s r).2, ev = .crash ∨ ∃ o, ev = .resolved r.id o := by
  rcases stepRequest_cases s r with ⟨_, he⟩ | ⟨_, f, _, he⟩ | ⟨_, res, _, _, he⟩ | ⟨_, res, _, _, he⟩ <;>
    rw [he] <;> intro ev hev <;> simp at hev
  · exact Or.inr ⟨_, hev⟩
  · exact Or.inl hev
  · exact Or.inr ⟨_, hev⟩

/-- **a stopped sub-service completes nothing that is queued.** Once `Run` has returned (`running = false`, nothing
    in flight) no step — requests (they are refused with "service stopped"), late requests (they are QUEUED), flush
    triggers, connects, swaps, `Do` results, pings, stops — ever completes the promise `id`, unless it is handed out
    again. -/
theorem stopped_never_resolves (ops : List LOp) (s : Svc) (hrun : s.running = false) (hinf : s.inflight = none)
    (id : ReqId) (hid : ∀ op ∈ ops, op.reqId ≠ some id) : ∀ o, Event.resolved id o ∉ (lrun s ops).2 := by
  induction ops generalizing s with
  | nil => intro o h; simp [lrun] at h
  | cons op ops ih =>
    intro o h
    simp only [lrun, List.mem_append] at h
    have key : (lstep s op).1.running = false ∧ (lstep s op).1.inflight = none ∧ Event.resolved id o ∉ (lstep s op).2 := by
      cases op with
      | late r =>
        have hne : r.id ≠ id := by
          have := hid (.late r) (by simp); simpa [LOp.reqId] using this
        simp only [lstep]
        split
        · exact ⟨hrun, hinf, by simp⟩
        · refine ⟨hrun, ?_, ?_⟩
          · simp only [stepRequestLate]
            rw [(stepRequest_keeps _ r).1]; exact hinf
          · intro hm
            rcases stepRequest_events _ r _ hm with h1 | ⟨o', h1⟩
            · cases h1
            · cases h1; exact hne rfl
      | op o' =>
        simp only [lstep]
        by_cases hcr : s.crashed = true
        · rw [step_crashed s o' hcr]; exact ⟨hrun, hinf, by simp⟩
        have hcr' : s.crashed = false := by simpa using hcr
        cases o' with
        | request r =>
          have hne : r.id ≠ id := by
            have := hid (.op (.request r)) (by simp); simpa [LOp.reqId] using this
          rw [step_request s r hcr']
          refine ⟨by rw [(stepRequest_keeps s r).2.1]; exact hrun, by rw [(stepRequest_keeps s r).1]; exact hinf, ?_⟩
          intro hm
          rcases stepRequest_events s r _ hm with h1 | ⟨o', h1⟩
          · cases h1
          · cases h1; exact hne rfl
        | trigger k => rw [step_trigger s k hcr']; exact ⟨hrun, hinf, by simp⟩
        | connect ok => rw [step_connect s ok hcr']; simp [stepConnect, hrun, hinf]
        | swap => rw [step_swap s hcr']; simp [stepSwap, hrun, hinf]
        | doResult o'' => rw [step_doResult s o'' hcr']; simp [stepDoResult, hinf, hrun]
        | ping ok => rw [step_ping s ok hcr']; simp [stepPing, hrun, hinf]
        | stop => rw [step_stop s hcr']; simp [stepStop, hinf]
    rcases h with h | h
    · exact key.2.2 h
    · exact ih _ key.1 key.2.1 (fun op' hop' => hid op' (by simp [hop'])) o h

end Qryn.Ingest.BatcherLocks
