import Qryn.Prom.Bits
/-! The bit-set selection scheme, once, for any row type: WHERE `adm ∧ (c₀ ∨ c₁ …)`, GROUP BY key,
    HAVING groupBitOr(Σ bitShiftLeft(cᵢ, i)) == 2ⁿ−1 selects exactly the keys that have, for every
    condition, an admitted row satisfying it. -/
namespace Qryn.Prom.Bits

theorem mem_bitsetSelect {ρ : Type} (W : Nat) (adm : ρ → Bool) (conds : List (ρ → Bool)) (key : ρ → Nat)
    (tbl : List ρ) (hW : conds.length ≤ W) (f : Nat) :
    f ∈ bitsetSelect W adm conds key tbl ↔
      (∃ r ∈ tbl, key r = f ∧ adm r = true ∧ ∃ c ∈ conds, c r = true) ∧
      ∀ i, (hi : i < conds.length) → ∃ r ∈ tbl, key r = f ∧ adm r = true ∧ conds[i] r = true := by
  unfold bitsetSelect
  simp only [List.mem_filter, List.mem_eraseDups, List.mem_map, beq_iff_eq]
  have hrow : ∀ r, ((adm r && conds.any (fun c => c r)) = true ↔ adm r = true ∧ ∃ c ∈ conds, c r = true) := by
    intro r; simp [List.any_eq_true]
  have hlenr : ∀ v ∈ (List.filter (fun r => key r == f)
        (List.filter (fun r => adm r && conds.any (fun c => c r)) tbl)).map
        (fun r => conds.map (fun c => c r)), v.length = conds.length := by
    intro v hvm; simp only [List.mem_map] at hvm; obtain ⟨r', _, rfl⟩ := hvm; simp
  rw [having_all_bits_w W conds.length _ hlenr hW]
  have hget : ∀ (r : ρ) (i : Nat) (hi : i < conds.length),
      (conds.map (fun c => c r)).getD i false = conds[i] r := by
    intro r i hi
    simp [List.getD, List.getElem?_map, List.getElem?_eq_getElem hi]
  constructor
  · rintro ⟨⟨r, ⟨hr, hw⟩, hf⟩, hb⟩
    refine ⟨⟨r, hr, hf, (hrow r).mp hw⟩, ?_⟩
    intro i hi
    obtain ⟨v, hvmem, hbit⟩ := hb i hi
    simp only [List.mem_map, List.mem_filter, beq_iff_eq] at hvmem
    obtain ⟨r', ⟨⟨hr', hw'⟩, hf'⟩, rfl⟩ := hvmem
    rw [hget r' i hi] at hbit
    exact ⟨r', hr', hf', ((hrow r').mp hw').1, hbit⟩
  · rintro ⟨⟨r, hr, hf, hadm, hsat⟩, hall⟩
    refine ⟨⟨r, ⟨hr, (hrow r).mpr ⟨hadm, hsat⟩⟩, hf⟩, ?_⟩
    intro i hi
    obtain ⟨r', hr', hf', hadm', hsat'⟩ := hall i hi
    refine ⟨conds.map (fun c => c r'), ?_, ?_⟩
    · simp only [List.mem_map, List.mem_filter, beq_iff_eq]
      exact ⟨r', ⟨⟨hr', (hrow r').mpr ⟨hadm', ⟨conds[i], List.getElem_mem hi, hsat'⟩⟩⟩, hf'⟩, rfl⟩
    · rw [hget r' i hi]; exact hsat'

end Qryn.Prom.Bits
