import Qryn.Prom.Bits
/-! The bit-set selection scheme, once, for any row type: WHERE `adm ∧ (c₀ ∨ c₁ …)`, GROUP BY key,
    HAVING groupBitOr(Σ bitShiftLeft(cᵢ, i)) == 2ⁿ−1 selects exactly the keys that have, for every
    condition, an admitted row satisfying it. -/
namespace Qryn.Prom.Bits

theorem mem_bitsetSelect {ρ : Type} (W : Nat) (adm : ρ → Bool) (conds : List (ρ → Bool)) (key : ρ → Nat)
    (tbl : List ρ) (hW : conds.length ≤ W) (f : Nat) :
    f ∈ bitsetSelect W adm conds key tbl ↔
      (∃ r ∈ tbl, key r = f ∧ adm r = true ∧ ∃ c ∈ conds, c r = true) ∧
      ∀ i, (hi : i < conds.length) → ∃ r ∈ tbl, key r = f ∧ adm r = true ∧ conds[i] r = true := by
  unfold bitsetSelect
  simp only [List.mem_filter, List.mem_eraseDups, List.mem_map, beq_iff_eq]
  have hrow : ∀ r, ((adm r && conds.any (fun c => c r)) = true ↔ adm r = true ∧ ∃ c ∈ conds, c r = true) := by
    intro r; simp [List.any_eq_true]
  have hlenr : ∀ v ∈ (List.filter (fun r => key r == f)
        (List.filter (fun r => adm r && conds.any (fun c => c r)) tbl)).map
        (fun r => conds.map (fun c => c r)), v.length = conds.length := by
    intro v hvm; simp only [List.mem_map] at hvm; obtain ⟨r', _, rfl⟩ := hvm; simp
  rw [having_all_bits_w W conds.length _ hlenr hW]
  have hget : ∀ (r : ρ) (i : Nat) (hi : i < conds.length),
      (conds.map (fun c => c r)).getD i false = conds[i] r := by
    intro r i hi
    simp [List.getD, List.getElem?_map, List.getElem?_eq_getElem hi]
  constructor
  · rintro ⟨⟨r, ⟨hr, hw⟩, hf⟩, hb⟩
    refine ⟨⟨r, hr, hf, (hrow r).mp hw⟩, ?_⟩
    intro i hi
    obtain ⟨v, hvmem, hbit⟩ := hb i hi
    simp only [List.mem_map, List.mem_filter, beq_iff_eq] at hvmem
    obtain ⟨r', ⟨⟨hr', hw'⟩, hf'⟩, rfl⟩ := hvmem
    rw [hget r' i hi] at hbit
    exact ⟨r', hr', hf', ((hrow r').mp hw').1, hbit⟩
  · rintro ⟨⟨r, hr, hf, hadm, hsat⟩, hall⟩
    refine ⟨⟨r, ⟨hr, (hrow r).mpr ⟨hadm, hsat⟩⟩, hf⟩, ?_⟩
    intro i hi
    obtain ⟨r', hr', hf', hadm', hsat'⟩ := hall i hi
    refine ⟨conds.map (fun c => c r'), ?_, ?_⟩
    · simp only [List.mem_map, List.mem_filter, beq_iff_eq]
      exact ⟨r', ⟨⟨hr', (hrow r').mpr ⟨hadm', ⟨conds[i], List.getElem_mem hi, hsat'⟩⟩⟩, hf'⟩, rfl⟩
    · rw [hget r' i hi]; exact hsat'

/-- the scheme with required bits (`req i = true`: some admitted row must satisfy condition i) and forbidden bits
    (`req i = false`: no admitted row may satisfy condition i); the OR filter is there iff some bit is required -/
theorem mem_bitsetSelectGen {ρ : Type} (W : Nat) (adm : ρ → Bool) (conds : List (ρ → Bool)) (req : List Bool)
    (useOr : Bool) (having : Nat → Bool) (key : ρ → Nat) (tbl : List ρ) (hW : conds.length ≤ W)
    (hreq : req.length = conds.length) (huse : useOr = req.any id) (hhav : ∀ x, having x = (x == bits req)) (f : Nat) :
    f ∈ bitsetSelectGen W adm conds useOr having key tbl ↔
      (∃ r ∈ tbl, key r = f ∧ adm r = true) ∧
      ∀ i, (hi : i < conds.length) →
        ((∃ r ∈ tbl, key r = f ∧ adm r = true ∧ conds[i] r = true) ↔ req.getD i false = true) := by
  unfold bitsetSelectGen
  simp only [List.mem_filter, List.mem_eraseDups, List.mem_map, hhav, beq_iff_eq]
  have hlenr : ∀ v ∈ (List.filter (fun r => key r == f)
        (List.filter (fun r => adm r && (!useOr || conds.any (fun c => c r))) tbl)).map
        (fun r => conds.map (fun c => c r)), v.length = conds.length := by
    intro v hvm; simp only [List.mem_map] at hvm; obtain ⟨r', _, rfl⟩ := hvm; simp
  rw [groupOrW_eq W conds.length _ hlenr hW, having_bits_eq conds.length _ req hlenr hreq]
  have hget : ∀ (r : ρ) (i : Nat) (hi : i < conds.length),
      (conds.map (fun c => c r)).getD i false = conds[i] r := by
    intro r i hi
    simp [List.getD, List.getElem?_map, List.getElem?_eq_getElem hi]
  -- a row satisfying a condition passes the optional OR filter
  have hkeep : ∀ (r : ρ) (i : Nat) (hi : i < conds.length), adm r = true → conds[i] r = true →
      (adm r && (!useOr || conds.any (fun c => c r))) = true := by
    intro r i hi ha hc
    have : conds.any (fun c => c r) = true := List.any_eq_true.mpr ⟨conds[i], List.getElem_mem hi, hc⟩
    simp [ha, this]
  -- bit i of the aggregate ⇔ an admitted row of f satisfies condition i
  have hbit : ∀ i (hi : i < conds.length),
      ((List.filter (fun r => key r == f)
        (List.filter (fun r => adm r && (!useOr || conds.any (fun c => c r))) tbl)).map
        (fun r => conds.map (fun c => c r))).any (fun v => v.getD i false) = true ↔
      ∃ r ∈ tbl, key r = f ∧ adm r = true ∧ conds[i] r = true := by
    intro i hi
    simp only [List.any_map, List.any_eq_true, List.mem_filter, Function.comp, beq_iff_eq]
    constructor
    · rintro ⟨r, ⟨⟨hr, hw⟩, hf⟩, hb⟩
      rw [hget r i hi] at hb
      have ha : adm r = true := by
        simp only [Bool.and_eq_true] at hw; exact hw.1
      exact ⟨r, hr, hf, ha, hb⟩
    · rintro ⟨r, hr, hf, ha, hc⟩
      exact ⟨r, ⟨⟨hr, hkeep r i hi ha hc⟩, hf⟩, by rw [hget r i hi]; exact hc⟩
  constructor
  · rintro ⟨⟨r, ⟨hr, hw⟩, hf⟩, hb⟩
    have ha : adm r = true := by
      simp only [Bool.and_eq_true] at hw; exact hw.1
    refine ⟨⟨r, hr, hf, ha⟩, ?_⟩
    intro i hi
    rw [← hbit i hi, hb i hi]
  · rintro ⟨⟨r, hr, hf, ha⟩, hall⟩
    refine ⟨?_, ?_⟩
    · by_cases hu : useOr = true
      · -- some bit is required: a row satisfying that condition is kept
        rw [huse] at hu
        obtain ⟨b, hb, hbt⟩ := List.any_eq_true.mp hu
        have hbt : b = true := by simpa using hbt
        subst hbt
        obtain ⟨i, hi, hget'⟩ := List.getElem_of_mem hb
        have hi' : i < conds.length := by omega
        have : req.getD i false = true := by simp [List.getD, List.getElem?_eq_getElem hi, hget']
        obtain ⟨r', hr', hf', ha', hc'⟩ := (hall i hi').mpr this
        exact ⟨r', ⟨hr', hkeep r' i hi' ha' hc'⟩, hf'⟩
      · have hu' : useOr = false := by simpa using hu
        exact ⟨r, ⟨hr, by simp [ha, hu']⟩, hf⟩
    · intro i hi
      have h1 := hbit i hi
      have h2 := hall i hi
      cases hr' : req.getD i false with
      | true => rw [hr'] at h2; exact h1.mpr (h2.mpr rfl)
      | false =>
        rw [hr'] at h2
        cases hany : ((List.filter (fun r => key r == f)
          (List.filter (fun r => adm r && (!useOr || conds.any (fun c => c r))) tbl)).map
          (fun r => conds.map (fun c => c r))).any (fun v => v.getD i false) with
        | false => rfl
        | true => exact absurd (h2.mp (h1.mp hany)) (by simp)

end Qryn.Prom.Bits
