import Qryn.Ingest.PromDecoder
import Qryn.Ingest.BatcherSpec
namespace Qryn.Ingest.PromDecoder
open Qryn.Ingest.Batcher

theorem seriesLoop_rect (limit total : Nat) (xs : List Cell) (points : Nat) (buf : List Cell) :
    ∀ c ∈ (seriesLoop limit total true xs points buf).1, c.types = c.rows.length := by
  induction xs generalizing points buf with
  | nil => intro c hc; simp [seriesLoop] at hc
  | cons x xs ih =>
    intro c hc
    simp only [seriesLoop] at hc
    split at hc
    · simp only [List.mem_cons] at hc
      rcases hc with rfl | hc
      · simp
      · exact ih 0 [] c hc
    · exact ih _ _ c hc

theorem decodeSeries_rect (limit : Nat) (xs : List Cell) (points : Nat) :
    ∀ c ∈ (decodeSeries limit true xs points).1, c.types = c.rows.length := by
  intro c hc
  simp only [decodeSeries] at hc
  split at hc
  · rcases List.mem_append.mp hc with hc | hc
    · exact seriesLoop_rect _ _ _ _ _ c hc
    · simp only [List.mem_singleton] at hc; subst hc; rfl
  · exact seriesLoop_rect _ _ _ _ _ c hc

theorem decode_rect (limit : Nat) (series : List (List Cell)) (points : Nat) :
    ∀ c ∈ decode limit true series points, c.types = c.rows.length := by
  induction series generalizing points with
  | nil => intro c hc; simp [decode] at hc
  | cons s rest ih =>
    intro c hc
    simp only [decode] at hc
    rcases List.mem_append.mp hc with hc | hc
    · exact decodeSeries_rect _ _ _ c hc
    · exact ih _ c hc

theorem length_flatMap_replicate (calls : List Call) (f : Call → Nat) (v : Cell) :
    (calls.flatMap (fun c => List.replicate (f c) v)).length = (calls.map f).sum := by
  induction calls with
  | nil => rfl
  | cons c t ih => simp [ih]

theorem length_flatMap_rows (calls : List Call) :
    (calls.flatMap (·.rows)).length = (calls.map (fun c => c.rows.length)).sum := by
  induction calls with
  | nil => rfl
  | cons c t ih => simp [ih]

/-- calls whose type array is as long as their sample arrays accumulate to a rectangular request -/
theorem reqOfCalls_rect (id : ReqId) (fp ty : Cell) (calls : List Call) (h : ∀ c ∈ calls, c.types = c.rows.length) :
    ReqRect samplesPlan (reqOfCalls id fp ty calls) ((calls.map (fun c => c.rows.length)).sum) := by
  have ht : (calls.map (·.types)).sum = (calls.map (fun c => c.rows.length)).sum := by
    congr 1
    exact List.map_congr_left h
  intro st hst
  simp only [samplesPlan, List.mem_cons, List.not_mem_nil, or_false] at hst
  rcases hst with rfl | rfl | rfl | rfl | rfl <;>
    simp [reqOfCalls, Req.arr, lookupD, length_flatMap_rows, length_flatMap_replicate, ht]

end Qryn.Ingest.PromDecoder
