import Qryn.Base.Base64
/-! Lemmas about the base64 model: the decoder inverts the encoder, and on input the *strict* decoder
accepts and that contains no CR/LF the encoder inverts the decoder. Core-only. -/
namespace Qryn.B64

theorem decChar_encChar : ∀ n, n < 64 → decChar (encChar n) = some n := by decide +kernel

private def invChk (n : Nat) : Bool :=
  match decChar (UInt8.ofNat n) with
  | some d => decide (d < 64) && (encChar d == UInt8.ofNat n)
  | none => true

private theorem invChk_all : ∀ n, n < 256 → invChk n = true := by decide +kernel

theorem encChar_decChar {c : UInt8} {d : Nat} (h : decChar c = some d) : d < 64 ∧ encChar d = c := by
  have := invChk_all c.toNat (UInt8.toNat_lt c)
  simpa [invChk, h] using this

theorem isNL_encChar : ∀ n, n < 64 → isNL (encChar n) = false := by decide +kernel

theorem decChar_pad : decChar padChar = none := by decide
theorem isNL_pad : isNL padChar = false := by decide

theorem decChar_nl {c : UInt8} (h : isNL c = true) : decChar c = none := by
  have : ∀ n, n < 256 → isNL (UInt8.ofNat n) = true → decChar (UInt8.ofNat n) = none := by decide +kernel
  have := this c.toNat (UInt8.toNat_lt c)
  simpa [h] using this

theorem skipNL_of_not_nl {c : UInt8} {r : Bytes} (h : isNL c = false) : skipNL (c :: r) = c :: r := by
  simp [skipNL, h]

theorem skipNL_noNL : ∀ (e : Bytes), (∀ c ∈ e, isNL c = false) → skipNL e = e
  | [], _ => rfl
  | c :: r, h => by simp [skipNL, h c (by simp)]

private theorem ofNat_toNat (a : UInt8) : UInt8.ofNat a.toNat = a := by simp

theorem go_digit {strict : Bool} {c : UInt8} {d : Nat} (rest : Bytes) {ds : List Nat}
    (h : decChar c = some d) (hl : ds.length ≠ 3) : go strict (c :: rest) ds = go strict rest (ds ++ [d]) := by
  simp [go, h, hl]

theorem go_digit4 {strict : Bool} {c : UInt8} {d : Nat} (rest : Bytes) {ds : List Nat}
    (h : decChar c = some d) (hl : ds.length = 3) :
    go strict (c :: rest) ds = (emit (ds ++ [d]) 4 ++ (go strict rest []).1, (go strict rest []).2) := by
  simp [go, h, hl]

theorem go_nl {strict : Bool} {c : UInt8} (rest : Bytes) (ds : List Nat) (h : isNL c = true) :
    go strict (c :: rest) ds = go strict rest ds := by
  simp [go, decChar_nl h, h]

theorem go_pad (strict : Bool) (rest : Bytes) (ds : List Nat) :
    go strict (padChar :: rest) ds = padEnd strict ds rest := by
  simp [go, decChar_pad, isNL_pad]

theorem go_bad {strict : Bool} {c : UInt8} (rest : Bytes) (ds : List Nat)
    (h : decChar c = none) (hn : isNL c = false) (hp : c ≠ padChar) : go strict (c :: rest) ds = ([], true) := by
  simp [go, h, hn, hp]

theorem val_split (v : Nat) :
    v / 262144 * 262144 + v / 4096 % 64 * 4096 + v / 64 % 64 * 64 + v % 64 = v := by omega

theorem byte_split (v : Nat) : v / 65536 * 65536 + v / 256 % 256 * 256 + v % 256 = v := by omega

theorem emit4 (a b c : UInt8) :
    let v := a.toNat * 65536 + b.toNat * 256 + c.toNat
    emit [v / 262144, v / 4096 % 64, v / 64 % 64, v % 64] 4 = [a, b, c] := by
  have ha := UInt8.toNat_lt a; have hb := UInt8.toNat_lt b; have hc := UInt8.toNat_lt c
  intro v
  have e : v / 262144 * 262144 + v / 4096 % 64 * 4096 + v / 64 % 64 * 64 + v % 64 = v := by omega
  have e0 : v / 65536 = a.toNat := by omega
  have e1 : v / 256 % 256 = b.toNat := by omega
  have e2 : v % 256 = c.toNat := by omega
  simp [emit, val, e, e0, e1, e2]

/-- one full quantum: the four characters of three bytes decode to those bytes -/
theorem go_quantum (strict : Bool) (a b c : UInt8) (rest : Bytes) :
    go strict (encChar ((a.toNat * 65536 + b.toNat * 256 + c.toNat) / 262144) ::
               encChar ((a.toNat * 65536 + b.toNat * 256 + c.toNat) / 4096 % 64) ::
               encChar ((a.toNat * 65536 + b.toNat * 256 + c.toNat) / 64 % 64) ::
               encChar ((a.toNat * 65536 + b.toNat * 256 + c.toNat) % 64) :: rest) [] =
      (a :: b :: c :: (go strict rest []).1, (go strict rest []).2) := by
  have ha := UInt8.toNat_lt a; have hb := UInt8.toNat_lt b; have hc := UInt8.toNat_lt c
  have h4 := emit4 a b c
  generalize hv : a.toNat * 65536 + b.toNat * 256 + c.toNat = v at h4 ⊢
  have h0 : v / 262144 < 64 := by omega
  have h1 : v / 4096 % 64 < 64 := by omega
  have h2 : v / 64 % 64 < 64 := by omega
  have h3 : v % 64 < 64 := by omega
  rw [go_digit _ (decChar_encChar _ h0) (by simp), go_digit _ (decChar_encChar _ h1) (by simp),
    go_digit _ (decChar_encChar _ h2) (by simp), go_digit4 _ (decChar_encChar _ h3) (by simp)]
  simp only [List.nil_append, List.cons_append] at h4 ⊢
  rw [h4]; rfl

/-- **decode ∘ encode = id** (for `StdEncoding` and for `StdEncoding.Strict()`), no error. -/
theorem decode_encode (strict : Bool) : ∀ s : Bytes, decode strict (encode s) = (s, false)
  | a :: b :: c :: rest => by
    have ih := decode_encode strict rest
    simp only [decode] at ih ⊢
    simp only [encode]
    rw [go_quantum, ih]
  | [a, b] => by
    have ha := UInt8.toNat_lt a; have hb := UInt8.toNat_lt b
    simp only [decode, encode]
    generalize hv : a.toNat * 65536 + b.toNat * 256 = v
    have h0 : v / 262144 < 64 := by omega
    have h1 : v / 4096 % 64 < 64 := by omega
    have h2 : v / 64 % 64 < 64 := by omega
    rw [go_digit _ (decChar_encChar _ h0) (by simp), go_digit _ (decChar_encChar _ h1) (by simp),
      go_digit _ (decChar_encChar _ h2) (by simp), go_pad]
    have e : v / 262144 * 262144 + v / 4096 % 64 * 4096 + v / 64 % 64 * 64 + 0 = v := by
      have h : v % 64 = 0 := by omega
      have := val_split v
      rw [h] at this; exact this
    have e0 : v / 65536 = a.toNat := by omega
    have e1 : v / 256 % 256 = b.toNat := by omega
    have e2 : v % 256 = 0 := by omega
    simp [padEnd, strictBad, emit, val, skipNL, e, e0, e1, e2]
  | [a] => by
    have ha := UInt8.toNat_lt a
    simp only [decode, encode]
    generalize hv : a.toNat * 65536 = v
    have h0 : v / 262144 < 64 := by omega
    have h1 : v / 4096 % 64 < 64 := by omega
    rw [go_digit _ (decChar_encChar _ h0) (by simp), go_digit _ (decChar_encChar _ h1) (by simp), go_pad]
    have e : v / 262144 * 262144 + v / 4096 % 64 * 4096 + 0 * 64 + 0 = v := by
      have h : v % 64 = 0 := by omega
      have h2 : v / 64 % 64 = 0 := by omega
      have := val_split v
      rw [h, h2] at this; exact this
    have e0 : v / 65536 = a.toNat := by omega
    have e2 : v % 65536 = 0 := by omega
    simp [padEnd, strictBad, emit, val, skipNL, isNL_pad, e, e0, e2]
  | [] => rfl

theorem decodeOk_encode (s : Bytes) : decodeOk (encode s) = some s := by
  simp [decodeOk, decode_encode]

/-- the encoder is injective (two different credentials never share an encoding) -/
theorem encode_injective {s t : Bytes} (h : encode s = encode t) : s = t := by
  have := decodeOk_encode s
  rw [h, decodeOk_encode] at this
  exact (Option.some.inj this).symm

/-! ### the strict decoder on CR/LF-free input is inverted by the encoder -/

theorem go_cons_ok {strict : Bool} {c : UInt8} {rest : Bytes} {ds : List Nat} {s : Bytes}
    (hn : isNL c = false) (h : go strict (c :: rest) ds = (s, false)) :
    (∃ d, decChar c = some d ∧ d < 64 ∧ encChar d = c) ∨ (c = padChar ∧ padEnd strict ds rest = (s, false)) := by
  cases hd : decChar c with
  | some d => exact .inl ⟨d, rfl, encChar_decChar hd⟩
  | none =>
    by_cases hp : c = padChar
    · subst hp; rw [go_pad] at h; exact .inr ⟨rfl, h⟩
    · rw [go_bad _ _ hd hn hp] at h; simp at h

private theorem toNat_ofNat_lt {x : Nat} (h : x < 256) : (UInt8.ofNat x).toNat = x := by
  simp [UInt8.toNat_ofNat', Nat.mod_eq_of_lt h]

theorem enc_emit4 {d0 d1 d2 d3 : Nat} (h0 : d0 < 64) (h1 : d1 < 64) (h2 : d2 < 64) (h3 : d3 < 64) (t : Bytes) :
    encode (emit [d0, d1, d2, d3] 4 ++ t) = encChar d0 :: encChar d1 :: encChar d2 :: encChar d3 :: encode t := by
  simp only [emit, val, List.getD_cons_zero, List.getD_cons_succ]
  generalize hv : d0 * 262144 + d1 * 4096 + d2 * 64 + d3 = v
  have hlt : v < 16777216 := by omega
  have b0 : v / 65536 < 256 := by omega
  have b1 : v / 256 % 256 < 256 := by omega
  have b2 : v % 256 < 256 := by omega
  simp only [show (4 : Nat) - 1 = 3 from rfl, List.take_succ_cons, List.take_zero, List.cons_append, List.nil_append,
    encode, toNat_ofNat_lt b0, toNat_ofNat_lt b1, toNat_ofNat_lt b2]
  have e : v / 65536 * 65536 + v / 256 % 256 * 256 + v % 256 = v := byte_split v
  rw [e]
  have e0 : v / 262144 = d0 := by omega
  have e1 : v / 4096 % 64 = d1 := by omega
  have e2 : v / 64 % 64 = d2 := by omega
  have e3 : v % 64 = d3 := by omega
  rw [e0, e1, e2, e3]

theorem enc_emit3 {d0 d1 d2 : Nat} (h0 : d0 < 64) (h1 : d1 < 64) (h2 : d2 < 64)
    (hz : val [d0, d1, d2] % 256 = 0) :
    encode (emit [d0, d1, d2] 3) = [encChar d0, encChar d1, encChar d2, padChar] := by
  simp only [emit, val, List.getD_cons_zero, List.getD_cons_succ, List.getD_nil] at hz ⊢
  generalize hv : d0 * 262144 + d1 * 4096 + d2 * 64 + 0 = v at hz ⊢
  have hlt : v < 16777216 := by omega
  have b0 : v / 65536 < 256 := by omega
  have b1 : v / 256 % 256 < 256 := by omega
  simp only [show (3 : Nat) - 1 = 2 from rfl, List.take_succ_cons, List.take_zero,
    encode, toNat_ofNat_lt b0, toNat_ofNat_lt b1]
  have e : v / 65536 * 65536 + v / 256 % 256 * 256 = v := by
    have := byte_split v
    rw [hz, Nat.add_zero] at this; exact this
  rw [e]
  have e0 : v / 262144 = d0 := by omega
  have e1 : v / 4096 % 64 = d1 := by omega
  have e2 : v / 64 % 64 = d2 := by omega
  rw [e0, e1, e2]

theorem enc_emit2 {d0 d1 : Nat} (h0 : d0 < 64) (h1 : d1 < 64) (hz : val [d0, d1] % 65536 = 0) :
    encode (emit [d0, d1] 2) = [encChar d0, encChar d1, padChar, padChar] := by
  simp only [emit, val, List.getD_cons_zero, List.getD_cons_succ, List.getD_nil] at hz ⊢
  generalize hv : d0 * 262144 + d1 * 4096 + 0 * 64 + 0 = v at hz ⊢
  have hlt : v < 16777216 := by omega
  have b0 : v / 65536 < 256 := by omega
  simp only [show (2 : Nat) - 1 = 1 from rfl, List.take_succ_cons, List.take_zero, encode, toNat_ofNat_lt b0]
  have e : v / 65536 * 65536 = v := by
    have := Nat.div_add_mod v 65536
    rw [hz, Nat.add_zero, Nat.mul_comm] at this; exact this
  rw [e]
  have e0 : v / 262144 = d0 := by omega
  have e1 : v / 4096 % 64 = d1 := by omega
  rw [e0, e1]

/-- **canonical form.** If `StdEncoding.Strict()` decodes `e` to `s` without error and `e` contains no
    CR/LF, then `e` is exactly `EncodeToString(s)`. -/
theorem strict_canonical : ∀ (e s : Bytes), decode true e = (s, false) → (∀ c ∈ e, isNL c = false) → e = encode s
  | [], s, h, _ => by
    simp [decode, go] at h; subst h; rfl
  | [c0], s, h, hn => by
    exfalso
    rcases go_cons_ok (hn c0 (by simp)) h with ⟨d0, hd0, _, _⟩ | ⟨_, hp⟩
    · rw [decode, go_digit _ hd0 (by simp)] at h; simp [go] at h
    · simp [padEnd] at hp
  | [c0, c1], s, h, hn => by
    exfalso
    rcases go_cons_ok (hn c0 (by simp)) h with ⟨d0, hd0, _, _⟩ | ⟨_, hp⟩
    · rw [decode, go_digit _ hd0 (by simp)] at h
      rcases go_cons_ok (hn c1 (by simp)) h with ⟨d1, hd1, _, _⟩ | ⟨_, hp⟩
      · rw [go_digit _ hd1 (by simp)] at h; simp [go] at h
      · simp [padEnd] at hp
    · simp [padEnd] at hp
  | [c0, c1, c2], s, h, hn => by
    exfalso
    rcases go_cons_ok (hn c0 (by simp)) h with ⟨d0, hd0, _, _⟩ | ⟨_, hp⟩
    · rw [decode, go_digit _ hd0 (by simp)] at h
      rcases go_cons_ok (hn c1 (by simp)) h with ⟨d1, hd1, _, _⟩ | ⟨_, hp⟩
      · rw [go_digit _ hd1 (by simp)] at h
        rcases go_cons_ok (hn c2 (by simp)) h with ⟨d2, hd2, _, _⟩ | ⟨_, hp⟩
        · rw [go_digit _ hd2 (by simp)] at h; simp [go] at h
        · simp [padEnd, skipNL] at hp
      · simp [padEnd] at hp
    · simp [padEnd] at hp
  | c0 :: c1 :: c2 :: c3 :: r, s, h, hn => by
    have hr : ∀ c ∈ r, isNL c = false := fun c hc => hn c (by simp [hc])
    rcases go_cons_ok (hn c0 (by simp)) h with ⟨d0, hd0, l0, e0⟩ | ⟨_, hp⟩
    · rw [decode, go_digit _ hd0 (by simp)] at h
      rcases go_cons_ok (hn c1 (by simp)) h with ⟨d1, hd1, l1, e1⟩ | ⟨_, hp⟩
      · rw [go_digit _ hd1 (by simp)] at h
        rcases go_cons_ok (hn c2 (by simp)) h with ⟨d2, hd2, l2, e2⟩ | ⟨hc2, hp⟩
        · rw [go_digit _ hd2 (by simp)] at h
          rcases go_cons_ok (hn c3 (by simp)) h with ⟨d3, hd3, l3, e3⟩ | ⟨hc3, hp⟩
          · -- a full quantum, then the rest
            rw [go_digit4 _ hd3 (by simp)] at h
            simp only [List.nil_append, List.cons_append, Prod.mk.injEq] at h
            have ih := strict_canonical r (go true r []).1 (by rw [decode, ← h.2]) hr
            rw [← h.1, enc_emit4 l0 l1 l2 l3, ← ih, e0, e1, e2, e3]
          · -- three digits and one `=`: must be the end
            simp only [List.nil_append, List.cons_append, padEnd, List.length_cons, List.length_nil,
              skipNL_noNL r hr] at hp
            simp only [show ¬ (0 + 1 + 1 + 1 < 2) by omega, show ¬ (0 + 1 + 1 + 1 = 2) by omega, if_false] at hp
            by_cases hb : strictBad true [d0, d1, d2] 3 = true
            · simp [hb] at hp
            · simp only [hb, Bool.false_eq_true, if_false, Prod.mk.injEq, Bool.not_eq_false', List.isEmpty_iff] at hp
              have hz : val [d0, d1, d2] % 256 = 0 := by simpa [strictBad] using hb
              rw [← hp.1, enc_emit3 l0 l1 l2 hz, e0, e1, e2, hc3, hp.2]
        · -- two digits and `==`: must be the end
          have n3 := hn c3 (by simp)
          simp only [List.nil_append, List.cons_append, padEnd, List.length_cons, List.length_nil,
            skipNL_of_not_nl n3, skipNL_noNL r hr] at hp
          simp only [show ¬ (0 + 1 + 1 < 2) by omega, if_false, if_true] at hp
          by_cases hc3 : c3 = padChar
          · by_cases hb : strictBad true [d0, d1] 2 = true
            · simp [hc3, hb] at hp
            · simp only [hc3, ne_eq, not_true_eq_false, hb, Bool.false_eq_true, if_false, Prod.mk.injEq,
                Bool.not_eq_false', List.isEmpty_iff] at hp
              have hz : val [d0, d1] % 65536 = 0 := by simpa [strictBad] using hb
              rw [← hp.1, enc_emit2 l0 l1 hz, e0, e1, hc2, hc3, hp.2]
          · simp [hc3] at hp
      · simp [padEnd] at hp
    · simp [padEnd] at hp

/-- whatever the strict decoder accepts, `StdEncoding` decodes to the same bytes -/
theorem strict_imp_lenient : ∀ (e : Bytes) (ds : List Nat) (s : Bytes),
    go true e ds = (s, false) → go false e ds = (s, false)
  | [], ds, s, h => by simpa [go] using h
  | c :: r, ds, s, h => by
    cases hd : decChar c with
    | some d =>
      by_cases hl : ds.length = 3
      · rw [go_digit4 _ hd hl] at h ⊢
        simp only [Prod.mk.injEq] at h
        have ih := strict_imp_lenient r [] (go true r []).1 (by rw [← h.2])
        rw [ih]; simp [h.1]
      · rw [go_digit _ hd hl] at h ⊢
        exact strict_imp_lenient r _ s h
    | none =>
      by_cases hn : isNL c = true
      · rw [go_nl _ _ hn] at h ⊢; exact strict_imp_lenient r ds s h
      · have hn' : isNL c = false := by simpa using hn
        by_cases hp : c = padChar
        · subst hp; rw [go_pad] at h ⊢
          revert h
          simp only [padEnd, strictBad, Bool.true_and, Bool.false_and, Bool.false_eq_true, if_false]
          repeat' split
          all_goals simp_all
        · rw [go_bad _ _ hd hn' hp] at h; simp at h

/-- **injectivity on canonical strings**: two CR/LF-free strings that `StdEncoding.Strict()` accepts and
    that `StdEncoding` decodes to the same bytes are the same string. -/
theorem canonical_injective {e₁ e₂ s₁ s₂ : Bytes}
    (h₁ : decode true e₁ = (s₁, false)) (h₂ : decode true e₂ = (s₂, false))
    (n₁ : ∀ c ∈ e₁, isNL c = false) (n₂ : ∀ c ∈ e₂, isNL c = false)
    (h : decodeOk e₁ = decodeOk e₂) : e₁ = e₂ := by
  have l₁ := strict_imp_lenient e₁ [] s₁ h₁
  have l₂ := strict_imp_lenient e₂ [] s₂ h₂
  simp only [decodeOk, decode, l₁, l₂, Option.some.injEq] at h
  rw [strict_canonical e₁ s₁ h₁ n₁, strict_canonical e₂ s₂ h₂ n₂, h]

end Qryn.B64
