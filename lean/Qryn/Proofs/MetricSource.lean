import Qryn.Proofs.MetricBase
/-! C08 plan-level proofs, part 1: the fingerprint side (`fp_sel`) and the samples side (`planSpl`) of a metric plan
    evaluate to C07's stream selection and entry filter. -/
namespace Qryn.Sql

theorem evalBody_db_raw (o : Oracles) (db db' : Db) (env : Env) (ws : List (Alias × Sel)) (dist : Bool) (cols : List Expr)
    (t : String) (j : List (String × Alias × Expr)) (pre wher : Option Expr) (gb : List Expr) (hv : Option Expr)
    (ob : List Expr) (l : Option Expr) (h : db t = db' t) :
    evalBody o db env (.mk ws dist cols (some (.raw t)) j pre wher gb hv ob l) =
      evalBody o db' env (.mk ws dist cols (some (.raw t)) j pre wher gb hv ob l) := by
  simp only [evalBody, sourceRows, h]

/-- a plain select (no alias in the select list, no grouping) means the same under both readings -/
theorem evalBodyA_plain_raw (o : Oracles) (db : Db) (env : Env) (ws : List (Alias × Sel)) (n t : String) (wher : Option Expr) :
    evalBodyA o db env (.mk ws false [.raw n] (some (.raw t)) [] none wher [] none [] none) =
      evalBody o db env (.mk ws false [.raw n] (some (.raw t)) [] none wher [] none [] none) := by
  simp [evalBodyA, evalBody, sourceRowsA, hasAgg, projectA, project, scope, aliasVals, colName]

end Qryn.Sql

namespace Qryn.LogQL
open Qryn Qryn.Sql

/-! ### the database with the `metrics_15s` view -/
theorem toDbM_samples (d : LokiDb) (c : MCtx) (hn : c.namesOk) : d.toDbM c c.samplesTable = d.samples.map Sample.row := by
  unfold LokiDb.toDbM
  rw [if_neg (fun e => hn.2.1 e.symm), toDb_samples]

theorem toDbM_gin (d : LokiDb) (c : MCtx) (hn : c.namesOk) : d.toDbM c c.ginTable = d.toDb c.toCtx c.ginTable := by
  unfold LokiDb.toDbM
  rw [if_neg (fun e => hn.2.2.1 e.symm)]

theorem toDbM_ts (d : LokiDb) (c : MCtx) (hn : c.namesOk) : d.toDbM c c.tsTable = d.toDb c.toCtx c.tsTable := by
  unfold LokiDb.toDbM
  rw [if_neg (fun e => hn.2.2.2.1 e.symm)]

theorem toDbM_tsDist (d : LokiDb) (c : MCtx) (hn : c.namesOk) : d.toDbM c c.tsDistTable = d.ts.map TsRow.row := by
  unfold LokiDb.toDbM
  rw [if_neg (fun e => hn.2.2.2.2 e.symm), toDb_tsDist d c.toCtx hn.1]

theorem toDbM_m15 (d : LokiDb) (c : MCtx) : d.toDbM c c.metrics15Table = metrics15Rows d := by
  unfold LokiDb.toDbM
  rw [if_pos rfl]

/-! ### `fp_sel` -/
theorem streamSelectM_eval (o : Oracles) (c : MCtx) (hn : c.namesOk) (d : LokiDb) (ms : List Matcher)
    (hm : ms.length ≤ 63) (env : Env) :
    FpTable (evalBodyM o (d.toDbM c) env (streamSelect c.toCtx ms)) (streamSelected o c.toCtx d ms) := by
  intro v
  have hb : isBitSetSel (streamSelect c.toCtx ms) = true := by
    unfold streamSelect isBitSetSel and_ eq; rfl
  unfold evalBodyM
  rw [if_pos hb]
  have := streamSelect_eval' o c.toCtx hn.1 d ms hm env v
  unfold streamSelect at this ⊢
  rw [evalBody_db_raw o (d.toDbM c) (d.toDb c.toCtx) env _ _ _ _ _ _ _ _ _ _ _ (toDbM_gin d c hn)]
  exact this

theorem labelFilterM_eval (o : Oracles) (c : MCtx) (hn : c.namesOk) (d : LokiDb) (env : Env) (k : Nat) (lc : LabelCond)
    (T : Table) (P : Int → Bool) (hT : env.lookup (.sub k) = some T) (hP : FpTable T P) :
    FpTable (evalBodyM o (d.toDbM c) env (labelFilterBody c.toCtx k lc))
      (fun fp => d.ts.any (fun t => t.fp == fp && P t.fp && labelCondHolds o (o.jsonLabels t.labels) lc)) := by
  have hb : isBitSetSel (labelFilterBody c.toCtx k lc) = false := by
    unfold labelFilterBody isBitSetSel; rfl
  unfold evalBodyM
  rw [if_neg (by simp [hb])]
  have := labelFilter_eval o c.toCtx hn.1 d env k lc T P hT hP
  unfold labelFilterBody at this ⊢
  rw [evalBodyA_plain_raw, evalBody_db_raw o (d.toDbM c) (d.toDb c.toCtx) env _ _ _ _ _ _ _ _ _ _ _ (toDbM_ts d c hn)]
  exact this

theorem fpChainM_eval (o : Oracles) (c : MCtx) (hn : c.namesOk) (d : LokiDb) (conds : List LabelCond) :
    ∀ (cur : Sel) (k : Nat) (env : Env) (P : Int → Bool), FpTable (evalBodyM o (d.toDbM c) env cur) P →
      ∃ T rest, evalWithsA o (d.toDbM c) env (fpChain c.toCtx cur k conds) = (.named "fp_sel", T) :: rest ∧
        FpTable T (chainSelected o d P conds) := by
  induction conds with
  | nil => intro cur k env P h; exact ⟨_, env, rfl, h⟩
  | cons lc rest ih =>
    intro cur k env P h
    simp only [fpChain, evalWithsA, chainSelected]
    apply ih
    exact labelFilterM_eval o c hn d _ (k + 1) lc _ P (by simp [List.lookup]) h

/-- aliases of the chain: `subsel_<j>` with `j > k`, then `fp_sel` -/
theorem fpChain_als (c : Ctx) (conds : List LabelCond) : ∀ (cur : Sel) (k : Nat),
    (als (fpChain c cur k conds)).Nodup ∧
    ∀ a ∈ als (fpChain c cur k conds), a = .named "fp_sel" ∨ ∃ j, k < j ∧ a = .sub j := by
  induction conds with
  | nil => intro cur k; simp [fpChain, als]
  | cons lc rest ih =>
    intro cur k
    obtain ⟨h1, h2⟩ := ih (labelFilterBody c (k + 1) lc) (k + 1)
    simp only [fpChain, als, List.map_cons, List.nodup_cons, List.mem_cons] at h1 h2 ⊢
    refine ⟨⟨?_, h1⟩, ?_⟩
    · intro hm
      rcases h2 _ hm with h | ⟨j, hj, h⟩
      · cases h
      · cases h; omega
    · intro a ha
      rcases ha with rfl | ha
      · exact Or.inr ⟨k + 1, by omega, rfl⟩
      · rcases h2 a ha with h | ⟨j, hj, h⟩
        · exact Or.inl h
        · exact Or.inr ⟨j, by omega, h⟩

theorem fpChain_last (c : Ctx) (conds : List LabelCond) : ∀ (cur : Sel) (k : Nat),
    ∃ s, (fpChain c cur k conds).getLast? = some (.named "fp_sel", s) := by
  induction conds with
  | nil => intro cur k; exact ⟨cur, rfl⟩
  | cons lc rest ih =>
    intro cur k
    obtain ⟨s, hs⟩ := ih (labelFilterBody c (k + 1) lc) (k + 1)
    refine ⟨s, ?_⟩
    simp only [fpChain]
    rw [List.getLast?_cons, hs]
    rfl

/-- the WITH list `FingerprintFilterPlanner` puts in front of a select -/
def fpWiths (c : Ctx) (q : LogQuery) : List (Alias × Sel) := (fpQuery c q).withs ++ [fpWith c q]

theorem fpWiths_chain (c : Ctx) (q : LogQuery) :
    ∃ s, fpChain c (streamSelect c q.matchers) 0 (labelConds q) = (fpQuery c q).withs ++ [(.named "fp_sel", s)] ∧
      fpQuery c q = s.setWiths (fpQuery c q).withs := by
  obtain ⟨s, hs⟩ := fpChain_last c (labelConds q) (streamSelect c q.matchers) 0
  refine ⟨s, ?_, ?_⟩
  · have hne : fpChain c (streamSelect c q.matchers) 0 (labelConds q) ≠ [] := by
      intro e; rw [e] at hs; simp at hs
    have hl : (fpChain c (streamSelect c q.matchers) 0 (labelConds q)).getLast hne = (.named "fp_sel", s) := by
      have := List.getLast?_eq_some_getLast hne
      rw [hs] at this
      exact (Option.some.inj this).symm
    have := List.dropLast_concat_getLast hne
    rw [hl] at this
    rw [← this]
    unfold fpQuery
    simp only [hs, withs_setWiths]
  · unfold fpQuery
    simp only [hs, withs_setWiths]

theorem fpWiths_als (c : Ctx) (q : LogQuery) :
    (als (fpWiths c q)).Nodup ∧ ∀ a ∈ als (fpWiths c q), a = .named "fp_sel" ∨ ∃ j, a = .sub j := by
  obtain ⟨s, hs, _⟩ := fpWiths_chain c q
  have h := fpChain_als c (labelConds q) (streamSelect c q.matchers) 0
  rw [hs] at h
  have e : als (fpWiths c q) = als ((fpQuery c q).withs ++ [(Alias.named "fp_sel", s)]) := by
    simp [als, fpWiths, fpWith]
  rw [e]
  refine ⟨h.1, fun a ha => ?_⟩
  rcases h.2 a ha with h' | ⟨j, _, h'⟩
  · exact Or.inl h'
  · exact Or.inr ⟨j, h'⟩

theorem fpQuery_withs_nodup (c : Ctx) (q : LogQuery) : (als (fpQuery c q).withs).Nodup := by
  have := (fpWiths_als c q).1
  simp only [fpWiths, als, List.map_append] at this ⊢
  exact (List.nodup_append.mp this).1

/-- **the fingerprint side.** Evaluating the WITH list `fp_sel` brings binds `fp_sel` to a table whose first column
    holds exactly the fingerprints of the selected streams (C07's `fpSelected`). -/
theorem fpWiths_eval (o : Oracles) (c : MCtx) (hn : c.namesOk) (d : LokiDb) (q : LogQuery) (hm : q.matchers.length ≤ 63) :
    ∃ T rest, evalWithsA o (d.toDbM c) [] (fpWiths c.toCtx q) = (.named "fp_sel", T) :: rest ∧
      FpTable T (fpSelected o c.toCtx d q) := by
  obtain ⟨s, hs, hq⟩ := fpWiths_chain c.toCtx q
  obtain ⟨T, rest, h1, h2⟩ := fpChainM_eval o c hn d (labelConds q) (streamSelect c.toCtx q.matchers) 0 []
    (streamSelected o c.toCtx d q.matchers) (streamSelectM_eval o c hn d q.matchers hm [])
  refine ⟨T, rest, ?_, h2⟩
  rw [← h1, hs]
  unfold fpWiths fpWith
  rw [evalWithsA_append, evalWithsA_append]
  simp only [evalWithsA]
  generalize (fpQuery c.toCtx q).withs = W at hq
  rw [hq, evalBodyM_setWiths]

end Qryn.LogQL

namespace Qryn.LogQL
open Qryn Qryn.Sql

/-! ### the samples side (`planSpl`) -/
def fpIn : Expr := .isIn (.raw "samples.fingerprint") [.withRef (.named "fp_sel")]

theorem fingerprintFilter_withs (c : Ctx) (q : LogQuery) (main : Sel) :
    (fingerprintFilter c q main).withs = fpWiths c q := by
  unfold fingerprintFilter fpWiths fpWith
  rw [with_one _ _ _ (fpQuery_withs_nodup c q)]
  cases main; rfl

theorem foldl_andWhere (fs : List LineFilter) (ws : List (Alias × Sel)) (cols : List Expr) (f : Option Expr) (pre : Option Expr)
    (acc : List Expr) :
    fs.foldl (fun (s : Sel) f => s.andWhere [lineClause f]) (Sel.mk ws false cols f [] pre (some (and_ acc)) [] none [] none) =
      Sel.mk ws false cols f [] pre (some (and_ (acc ++ fs.map lineClause))) [] none [] none := by
  induction fs generalizing acc with
  | nil => simp
  | cons x fs ih =>
    simp only [List.foldl_cons, Sel.andWhere, andCond, and_, if_true, List.map_cons]
    have := ih (acc ++ [lineClause x])
    simp only [and_, List.append_assoc, List.singleton_append] at this
    exact this

/-- `planSpl` for a selector of the fragment, spelled out -/
theorem samplesMain_eq (c : Ctx) (q : LogQuery) :
    samplesMain c q = .mk (fpWiths c q) false samplesCols (some (.col (.raw c.samplesTable) "samples")) []
      (some (windowCond c)) (some (and_ (fpIn :: (lineFilters q).map lineClause))) [] none [] none := by
  unfold samplesMain
  have h0 : fingerprintFilter c q (samplesInit c) =
      .mk (fpWiths c q) false samplesCols (some (.col (.raw c.samplesTable) "samples")) []
        (some (windowCond c)) (some (and_ [fpIn])) [] none [] none := by
    have hw := fingerprintFilter_withs c q (samplesInit c)
    unfold fingerprintFilter at hw ⊢
    unfold samplesInit at hw ⊢
    generalize hW : (Sel.mk [] false
        [simpleCol "samples.timestamp_ns" "timestamp_ns", simpleCol "samples.fingerprint" "fingerprint",
          simpleCol "samples.string" "string", simpleCol "toFloat64(0)" "value"]
        (some ((Expr.raw c.samplesTable).col "samples")) []
        (some (and_ [ge (Expr.raw "samples.timestamp_ns") (Expr.int c.fromNs),
              lt (Expr.raw "samples.timestamp_ns") (Expr.int c.toNs), getTypes c])) none [] none [] none).with_ [fpWith c q] = W at hw ⊢
    unfold Sel.with_ at hW
    simp only [Sel.setWiths] at hW
    subst hW
    simp only [Sel.andWhere, Sel.withs] at hw ⊢
    rw [hw]
    rfl
  rw [h0, foldl_andWhere]
  rfl

theorem samplesMain_withs (c : Ctx) (q : LogQuery) : (samplesMain c q).withs = fpWiths c q := by
  rw [samplesMain_eq]; rfl

/-- a row of `main`/`agg_a`: the entry under the column names of `SqlMainInitPlanner`; `strName` = `string` or `_string` -/
def sampleRow (strName : String) (s : Sample) : Row :=
  [("timestamp_ns", .int s.ts), ("fingerprint", .int s.fp), (strName, .str s.str), ("value", .null)]

theorem projectA_samples (o : Oracles) (env : Env) (s : Sample) (strName : String) (hs : strName = "string" ∨ strName = "_string") :
    projectA o env [simpleCol "samples.timestamp_ns" "timestamp_ns", simpleCol "samples.fingerprint" "fingerprint",
      simpleCol "samples.string" strName, simpleCol "toFloat64(0)" "value"] (qualify "samples" s.row) = sampleRow strName s := by
  rcases hs with rfl | rfl <;>
    simp [projectA, sampleRow, colName, simpleCol, scope, aliasVals, hasAgg, qualify, Sample.row, Row.get, List.lookup]

theorem entryMatchesW_window (o : Oracles) (c : Ctx) (d : LokiDb) (q : LogQuery) :
    entryMatchesW o c d q c.fromNs c.toNs = entryMatches o c d q := rfl

/-- **the samples side.** With `fp_sel` bound to the selected fingerprints, the samples select (`planSpl`, with the
    line column under either name) returns exactly the entries the direct reading takes part: inside `[from, to)`,
    of the logs signal, of a selected stream, passing every line filter — in table order. -/
theorem samplesMain_eval (o : Oracles) (c : MCtx) (hn : c.namesOk) (d : LokiDb) (q : LogQuery) (env : Env) (T : Table)
    (hT : env.lookup (.named "fp_sel") = some T) (hP : FpTable T (fpSelected o c.toCtx d q)) (ws : List (Alias × Sel))
    (strName : String) (hs : strName = "string" ∨ strName = "_string") :
    evalBodyA o (d.toDbM c) env (.mk ws false
        [simpleCol "samples.timestamp_ns" "timestamp_ns", simpleCol "samples.fingerprint" "fingerprint",
         simpleCol "samples.string" strName, simpleCol "toFloat64(0)" "value"]
        (some (.col (.raw c.samplesTable) "samples")) []
        (some (windowCond c.toCtx)) (some (and_ (fpIn :: (lineFilters q).map lineClause))) [] none [] none) =
      (d.samples.filter (entryMatches o c.toCtx d q)).map (sampleRow strName) := by
  have hagg : ([simpleCol "samples.timestamp_ns" "timestamp_ns", simpleCol "samples.fingerprint" "fingerprint",
         simpleCol "samples.string" strName, simpleCol "toFloat64(0)" "value"].any hasAgg) = false := by
    simp [simpleCol, hasAgg]
  simp only [evalBodyA, List.isEmpty_nil, hagg, Bool.not_false, Bool.and_self, if_true, List.foldl_nil, sourceRowsA, sourceRows,
    toDbM_samples d c hn, List.map_map, List.filter_map, Function.comp_def, projectA_samples o env _ strName hs]
  congr 1
  apply List.filter_congr
  intro s _
  exact mainWhere_eval o c.toCtx d q env T hT hP s

end Qryn.LogQL
