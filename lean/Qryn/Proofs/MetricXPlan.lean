import Qryn.Proofs.MetricXQuantile
/-! C08 ext, part 5: the stages above the range aggregation on the labelled path (every stage carries the labels, no labels
    join at the end), and the plan-level theorem `planMetricX = evalMetricX`. -/
namespace Qryn.LogQL
open Qryn Qryn.Sql

/-- the names later planners add are not among the WITH names `L` of the statement so far (`id` = ids handed out) -/
def FreshFor (L : List Alias) (id : Nat) : Prop :=
  ∀ x : String, x ≠ "main" → x ≠ "_time_series" → x ≠ "agg_a" → x ≠ "unwrap_1" → x ≠ "quant_a" →
    (∀ k, k ≤ id → x ≠ "pre_by_without_" ++ toString k) → Alias.named x ∉ L

/-- the direct reading above the range stage -/
def upperX (o : Oracles) (agg : Option VecOp) (topk : Option TopOp) (p0 : List Pt) : List Pt :=
  let p1 := match agg with
    | some a => cmpStage a.cmp (aggStageX o a p0)
    | none => p0
  match topk with
  | some t => cmpStage t.cmp (topkStage t.isTop t.k p1)
  | none => p1

theorem regroupP_eq : regroupP = regroupL := rfl

theorem aggStageX_eq (o : Oracles) (a : VecOp) (pts : List Pt) :
    aggStageX o a pts = aggCore o a.fn (pts.map (regroupL o a.grouping)) := by
  unfold aggStageX aggCore groupsBy
  simp only [regroupP_eq, List.filterMap_map, Function.comp_def]

theorem metricPointsX_eq (o : Oracles) (c : MCtx) (d : LokiDb) (q : MetricQueryX) :
    metricPointsX o c d q = stepStage c.stepNs q.range.durNs (upperX o q.agg q.topk
      (cmpStage q.range.cmp (rangePointsX o c.toCtx d q.range))) := by
  unfold metricPointsX upperX
  cases q.agg <;> cases q.topk <;> rfl

theorem pbw_ne (x : String) (k : Nat) (h : x ≠ "pre_by_without_" ++ toString k) :
    Alias.named x ≠ Alias.named ("pre_by_without_" ++ toString k) := fun e => h (Alias.named.inj e)

/-- **every stage above the range aggregation, on the labelled path.** -/
theorem tailX_ok (o : Oracles) (c : MCtx) (d : LokiDb) (q0 : LogQuery) (dur : Nat) (agg : Option VecOp) (topk : Option TopOp)
    (s : PState) (p0 : List Pt) (L : List Alias) (hr : PStage o c d q0 s.sel p0 L) (hfresh : FreshFor L s.id)
    (hat : ∀ p ∈ p0, PtAtomic p) (hcol : hasColumn s.sel.cols "labels" = true) :
    (evalSelA o (d.toDbM c) (finalizeMatrix (stepFixSel c dur (topkPhaseX topk (aggPhaseX c agg s).sel)))).map normRow =
      sortBy (rowLe matrixKeys) ((stepStage c.stepNs dur (upperX o agg topk p0)).map Pt.row) := by
  have fr : ∀ x : String, x ≠ "main" → x ≠ "_time_series" → x ≠ "agg_a" → x ≠ "unwrap_1" → x ≠ "quant_a" →
      (∀ k : Nat, x ≠ "pre_by_without_" ++ toString k) → Alias.named x ∉ L :=
    fun x h1 h2 h3 h4 h5 h6 => hfresh x h1 h2 h3 h4 h5 (fun k _ => h6 k)
  cases agg with
  | none =>
    simp only [aggPhaseX, upperX]
    cases topk with
    | none =>
      simp only [topkPhaseX]
      have h3 := hr.stepFix dur true hcol (fun hw => by cases hw)
        (fr _ (by decide) (by decide) (by decide) (by decide) (by decide) (by intro k; str_ne))
      rw [h3.final (notin_append (fr _ (by decide) (by decide) (by decide) (by decide) (by decide) (by intro k; str_ne))
        (by unfold stepAls; split <;> simp))]
    | some t =>
      simp only [topkPhaseX, optCmp_eq]
      have h2 := hr.topk t.isTop t.k t.cmp true hcol hat (fun hw => by cases hw)
        (fr _ (by decide) (by decide) (by decide) (by decide) (by decide) (by intro k; str_ne))
        (fr _ (by decide) (by decide) (by decide) (by decide) (by decide) (by intro k; str_ne))
      have h3 := h2.stepFix dur true (by
          rw [cols_cmpOpt, topkSel_eq, cols_with, hcol]
          simp [topOuterBody, topOuterCols, Sel.cols, hasColumn, simpleCol, emptyStr]) (fun hw => by cases hw)
        (notin_append (fr _ (by decide) (by decide) (by decide) (by decide) (by decide) (by intro k; str_ne)) (by decide))
      rw [h3.final (notin_append (notin_append (fr _ (by decide) (by decide) (by decide) (by decide) (by decide)
        (by intro k; str_ne)) (by decide)) (by unfold stepAls; split <;> simp))]
  | some a =>
    obtain ⟨g, hg⟩ : ∃ g, a.grouping = g := ⟨_, rfl⟩
    have hA : (aggPhaseX c (some a) s).sel = cmpOpt a.cmp (aggSel a.fn true (byWithoutSimple s.id g s.sel)) := by
      simp only [aggPhaseX, hg, planByWithout, Bool.false_eq_true, if_false, optCmp_eq]
    have hU : (match (some a : Option VecOp) with
        | some a => cmpStage a.cmp (aggStageX o a p0)
        | none => p0) = cmpStage a.cmp (aggCore o a.fn (p0.map (regroupL o g))) := by
      simp only [aggStageX_eq, hg]
    rw [hA, byWithoutSimple_eq]
    have hbw : Alias.named ("pre_by_without_" ++ toString (s.id + 1)) ∉ L := by
      apply hfresh _ (by str_ne) (by str_ne) (by str_ne) (by str_ne) (by str_ne)
      intro k hk e
      have := pbw_inj _ _ e
      omega
    have h2 := hr.wrap ("pre_by_without_" ++ toString (s.id + 1)) (by str_ne) hbw
      (bwsBody ("pre_by_without_" ++ toString (s.id + 1)) g) (by rfl) _
      (bws_eval o _ _ _ g _ _ hr.rep (by simp [List.lookup]))
    have h3 := h2.agg a.fn a.cmp (notin_append (fr _ (by decide) (by decide) (by decide) (by decide) (by decide)
      (by intro k; str_ne)) (by simp only [List.mem_singleton, Alias.named.injEq]; apply Ne.symm; str_ne))
    have hreg : ∀ p ∈ cmpStage a.cmp (aggCore o a.fn (p0.map (regroupL o g))), Regrouped p := by
      apply cmpStage_labels
      apply aggCore_regrouped
      intro p hp
      obtain ⟨x, _, rfl⟩ := List.mem_map.mp hp
      exact regroupL_regrouped o g x
    have hfreshL3 : ∀ n : String, n ≠ "main" → n ≠ "_time_series" → n ≠ "agg_a" → n ≠ "unwrap_1" → n ≠ "quant_a" →
        n ≠ "lra_main" → (∀ k : Nat, n ≠ "pre_by_without_" ++ toString k) →
        Alias.named n ∉ L ++ [Alias.named ("pre_by_without_" ++ toString (s.id + 1))] ++ [Alias.named "lra_main"] := by
      intro n h1 h2 h3 h4 h5 h6 h7
      refine notin_append (notin_append (fr n h1 h2 h3 h4 h5 h7) ?_) ?_
      · simp only [List.mem_singleton, Alias.named.injEq]; exact h7 _
      · simp only [List.mem_singleton, Alias.named.injEq]; exact h6
    simp only [upperX, hU]
    cases topk with
    | none =>
      simp only [topkPhaseX]
      have h5 := h3.stepFix dur true (hasLabels_agg _ _ _) (fun hw => by cases hw)
        (hfreshL3 _ (by decide) (by decide) (by decide) (by decide) (by decide) (by decide) (by intro k; str_ne))
      rw [h5.final (notin_append (hfreshL3 _ (by decide) (by decide) (by decide) (by decide) (by decide) (by decide)
        (by intro k; str_ne)) (by unfold stepAls; split <;> simp))]
    | some t =>
      simp only [topkPhaseX, optCmp_eq]
      have h4 := h3.topk t.isTop t.k t.cmp true (hasLabels_agg _ _ _) (fun p hp => (hreg p hp).atomic) (fun hw => by cases hw)
        (hfreshL3 _ (by decide) (by decide) (by decide) (by decide) (by decide) (by decide) (by intro k; str_ne))
        (hfreshL3 _ (by decide) (by decide) (by decide) (by decide) (by decide) (by decide) (by intro k; str_ne))
      have h5 := h4.stepFix dur true (by
          rw [cols_cmpOpt, topkSel_eq, cols_with, hasLabels_agg]
          simp [topOuterBody, topOuterCols, Sel.cols, hasColumn, simpleCol, emptyStr]) (fun hw => by cases hw)
        (notin_append (hfreshL3 _ (by decide) (by decide) (by decide) (by decide) (by decide) (by decide) (by intro k; str_ne))
          (by decide))
      rw [h5.final (notin_append (notin_append (hfreshL3 _ (by decide) (by decide) (by decide) (by decide) (by decide)
        (by decide) (by intro k; str_ne)) (by decide)) (by unfold stepAls; split <;> simp))]


/-! ### the range phase -/
theorem splitPre_fst_nil (ss : List StageX) (h : (splitPre ss).1 = []) : ss = [] ∨ ∃ ch more, ss = .ch ch :: more := by
  cases ss with
  | nil => exact Or.inl rfl
  | cons s rest =>
    cases s with
    | ch c => exact Or.inr ⟨c, rest, rfl⟩
    | fl f => simp [splitPre] at h

theorem rangePointsX_lra (o : Oracles) (c : Ctx) (d : LokiDb) (r : RangeAggX) (fn : RangeFn) (hk : r.kind = .lra fn) :
    rangePointsX o c d r = lraPtsX fn r.durNs (entriesX o c d r) := by
  unfold rangePointsX lraPtsX groupsBy lraKeyX
  simp only [hk, List.map_map, Function.comp_def]
  rfl

/-- the entry points an unwrapped / quantile range aggregation buckets, regrouped when it carries a grouping clause -/
def itemsX (o : Oracles) (c : Ctx) (d : LokiDb) (r : RangeAggX) (label : String) : List Pt :=
  match chosenGrouping r.byPrefix r.bySuffix with
  | some g => (entryPtsX o c d r label).map (regroupL o g)
  | none => entryPtsX o c d r label

theorem rangePointsX_unwrap (o : Oracles) (c : Ctx) (d : LokiDb) (r : RangeAggX) (fn : UnwrapFn) (label : String)
    (hk : r.kind = .unwrap fn label) :
    rangePointsX o c d r = unwrapCore o fn r.durNs (itemsX o c d r label) := by
  unfold rangePointsX itemsX
  simp only [hk, groupRange_eq, unwrapCore_rangeCore, regroupP_eq]
  rfl

theorem rangePointsX_quantile (o : Oracles) (c : Ctx) (d : LokiDb) (r : RangeAggX) (phi : NumLit) (label : String)
    (hk : r.kind = .quantile phi label) :
    rangePointsX o c d r = rangeCore (quantileVal o phi) r.durNs (itemsX o c d r label) := by
  unfold rangePointsX itemsX
  simp only [hk, groupRange_eq, regroupP_eq]
  rfl

theorem rangeCore_kl (val : List (Int × Rat) → Option Rat) (d : Nat) (pts : List Pt) :
    ∀ p ∈ rangeCore val d pts, ∃ x ∈ pts, p.key = x.key ∧ p.labels = x.labels := by
  intro p hp
  unfold rangeCore at hp
  obtain ⟨g, hg, hgp⟩ := List.mem_filterMap.mp hp
  obtain ⟨⟨a, rest, hgr, hk⟩, hall⟩ := groupsBy_head _ pts g hg
  cases hv : val (g.2.map (fun p => (p.ts, p.value))) with
  | none => rw [hv] at hgp; cases hgp
  | some v =>
    rw [hv] at hgp
    simp only [Option.map_some, Option.some.injEq] at hgp
    subst hgp
    refine ⟨a, (hall a (by rw [hgr]; simp)).1, ?_, ?_⟩
    · simp only [← hk, uwKey]
    · simp only [hgr, List.head?_cons, Option.map_some, Option.getD_some]

theorem entryPtsX_atomic (o : Oracles) (c : Ctx) (d : LokiDb) (r : RangeAggX) (label : String) :
    ∀ p ∈ entryPtsX o c d r label, PtAtomic p := by
  intro p hp
  unfold entryPtsX at hp
  cases hpost : r.post with
  | nil =>
    rw [hpost] at hp
    obtain ⟨s, _, rfl⟩ := List.mem_map.mp hp
    refine ⟨rfl, ?_⟩
    simp only
    unfold labelsOf
    split <;> rfl
  | cons x xs =>
    rw [hpost] at hp
    obtain ⟨e, _, rfl⟩ := List.mem_map.mp hp
    exact ⟨rfl, rfl⟩

theorem itemsX_atomic (o : Oracles) (c : Ctx) (d : LokiDb) (r : RangeAggX) (label : String) :
    ∀ p ∈ itemsX o c d r label, PtAtomic p := by
  intro p hp
  unfold itemsX at hp
  cases hg : chosenGrouping r.byPrefix r.bySuffix with
  | none => rw [hg] at hp; exact entryPtsX_atomic o c d r label p hp
  | some g =>
    rw [hg] at hp
    obtain ⟨x, _, rfl⟩ := List.mem_map.mp hp
    exact (regroupL_regrouped o g x).atomic

theorem lraPtsX_atomic (fn : RangeFn) (d : Nat) (E : List EntryX) : ∀ p ∈ lraPtsX fn d E, PtAtomic p := by
  intro p hp
  unfold lraPtsX at hp
  obtain ⟨g, _, rfl⟩ := List.mem_map.mp hp
  refine ⟨rfl, ?_⟩
  simp only
  cases g.2.head? <;> rfl

theorem quantileSel_eq (phi : NumLit) (d : Nat) (cm : Option Comparison) (main : Sel)
    (h : hasColumn main.cols "labels" = true) :
    cmpOpt cm (quantileSel phi d main) = (quantBody phi d (cmpHaving cm)).with_ [(.named "quant_a", main)] := by
  have : quantileSel phi d main = (quantBody phi d none).with_ [(.named "quant_a", main)] := by
    unfold quantileSel quantBody quantCols
    simp only [h, if_true]
    rfl
  rw [this]
  unfold quantBody Sel.with_
  simp only [Sel.setWiths]
  rw [cmpOpt_eq]


theorem quantileSel_hasLabels (phi : NumLit) (d : Nat) (cm : Option Comparison) (main : Sel) :
    hasColumn (cmpOpt cm (quantileSel phi d main)).cols "labels" = hasColumn main.cols "labels" := by
  rw [cols_cmpOpt]
  unfold quantileSel
  rw [cols_with]
  cases h : hasColumn main.cols "labels" <;>
    simp [Sel.cols, hasColumn, bucketCol, simpleCol, quantileCol]

theorem freshFor_src (id0 n id : Nat) (extra : List Alias)
    (hex : ∀ x : String, x ≠ "agg_a" → x ≠ "unwrap_1" → x ≠ "quant_a" → (∀ k, k ≤ id → x ≠ "pre_by_without_" ++ toString k) →
      Alias.named x ∉ extra) :
    FreshFor (srcAls id0 n ++ extra) id := by
  intro x h1 h2 h3 h4 h5 h6
  exact notin_append (named_notin_srcAls id0 n x h1 h2) (hex x h3 h4 h5 h6)

theorem cols_optCmp (cm : Option Comparison) (s : Sel) : (optCmp cm s).cols = s.cols := cols_cmpOpt cm s

/-- **the range phase of the labelled path**: after `planSpl` and the planners of the range node, the statement holds the
    points of the direct reading's range stage (and comparison), every point with the labels of its series -/
theorem rangePhaseX_ok (o : Oracles) (c : MCtx) (hn : c.namesOk) (d : LokiDb) (r : RangeAggX)
    (hpost : r.post = [] ∨ ∃ ch more, r.post = .ch ch :: more)
    (hplain : ∀ fn, r.kind = .lra fn → r.post ≠ [])
    (hm : r.sel.matchers.length ≤ 63) (hd : 0 < r.durNs) :
    ∃ L, PStage o c d r.sel (rangePhaseX c r).sel (cmpStage r.cmp (rangePointsX o c.toCtx d r)) L ∧
      FreshFor L (rangePhaseX c r).id ∧ (∀ p ∈ cmpStage r.cmp (rangePointsX o c.toCtx d r), PtAtomic p) ∧
      hasColumn (rangePhaseX c r).sel.cols "labels" = true := by
  cases hk : r.kind with
  | lra fn =>
    obtain ⟨ch, more, hp⟩ : ∃ ch more, r.post = .ch ch :: more := by
      rcases hpost with h | h
      · exact absurd h (hplain fn hk)
      · exact h
    obtain ⟨n, hid, hps⟩ := lraXPhase_ok o c hn d r hm fn hk ch more hp hd
    have hsel : (rangePhaseX c r).sel = optCmp r.cmp (lraSel fn r.durNs true (runsSource c.toCtx r).sel) := by
      simp only [rangePhaseX, hk, sourceX, hp, RangeKindX.label?]
    have hid' : (rangePhaseX c r).id = (labelConds r.sel).length + n := by
      simp only [rangePhaseX, hk, sourceX, hp, RangeKindX.label?]; exact hid
    refine ⟨_, by rw [hsel, rangePointsX_lra o c.toCtx d r fn hk]; exact hps, ?_, ?_, ?_⟩
    · apply freshFor_src
      intro x h3 _ _ _
      simp only [List.mem_singleton, Alias.named.injEq]; exact h3
    · rw [rangePointsX_lra o c.toCtx d r fn hk]
      exact cmpStage_labels _ _ _ (lraPtsX_atomic fn r.durNs _)
    · rw [hsel, cols_optCmp]
      unfold lraSel
      rw [cols_with]
      cases fn <;> simp [Sel.cols, hasColumn, bucketCol, simpleCol, emptyStr]
  | unwrap fn label =>
    have hl : r.kind.label? = some label := by rw [hk]; rfl
    obtain ⟨n, hid, h0, hcol0⟩ := uwSource_ok o c hn d r hm label hl hpost
    rw [rangePointsX_unwrap o c.toCtx d r fn label hk]
    have hat : ∀ p ∈ cmpStage r.cmp (unwrapCore o fn r.durNs (itemsX o c.toCtx d r label)), PtAtomic p := by
      apply cmpStage_labels
      intro p hp
      obtain ⟨x, hx, h1, h2⟩ := rangeCore_kl _ _ _ p hp
      have := itemsX_atomic o c.toCtx d r label x hx
      exact ⟨by rw [h1]; exact this.1, by rw [h2]; exact this.2⟩
    cases hg : chosenGrouping r.byPrefix r.bySuffix with
    | none =>
      have hsel : (rangePhaseX c r).sel = cmpOpt r.cmp (unwrapFnSel fn r.durNs (sourceX c.toCtx r).sel) := by
        simp only [rangePhaseX, hk, hg, planByWithout, optCmp_eq]
      have hid' : (rangePhaseX c r).id = (sourceX c.toCtx r).id := by simp only [rangePhaseX, hk, hg, planByWithout]
      refine ⟨srcAls (labelConds r.sel).length n ++ [.named "unwrap_1"], ?_, ?_, hat, ?_⟩
      · rw [hsel, unwrapFnSel_eq]
        have := h0.wrap "unwrap_1" (by decide) (named_notin_srcAls _ _ _ (by decide) (by decide))
          (uwBody fn r.durNs (cmpHaving r.cmp)) (cmpHaving_notBitSet _) _
          (uw_eval o _ _ fn _ hd _ _ h0.rep (by simp [List.lookup]) r.cmp)
        simpa [itemsX, hg] using this
      · apply freshFor_src
        intro x _ h4 _ _
        simp only [List.mem_singleton, Alias.named.injEq]; exact h4
      · rw [hsel, cols_cmpOpt]
        show hasColumn ((uwBody fn r.durNs none).with_ _).cols "labels" = true
        rw [cols_with]
        simp [uwBody, uwCols, Sel.cols, hasColumn, bucketCol, emptyStr]
    | some g =>
      have hsel : (rangePhaseX c r).sel =
          cmpOpt r.cmp (unwrapFnSel fn r.durNs (byWithoutSimple (sourceX c.toCtx r).id g (sourceX c.toCtx r).sel)) := by
        simp only [rangePhaseX, hk, hg, planByWithout, Bool.false_eq_true, if_false, optCmp_eq]
      have hid' : (rangePhaseX c r).id = (sourceX c.toCtx r).id + 1 := by
        simp only [rangePhaseX, hk, hg, planByWithout, Bool.false_eq_true, if_false]
      refine ⟨srcAls (labelConds r.sel).length n ++ [.named ("pre_by_without_" ++ toString ((sourceX c.toCtx r).id + 1))] ++
          [.named "unwrap_1"], ?_, ?_, hat, ?_⟩
      · rw [hsel, unwrapFnSel_eq, byWithoutSimple_eq]
        have h1 := h0.wrap ("pre_by_without_" ++ toString ((sourceX c.toCtx r).id + 1)) (by str_ne)
          (named_notin_srcAls _ _ _ (by str_ne) (by str_ne))
          (bwsBody ("pre_by_without_" ++ toString ((sourceX c.toCtx r).id + 1)) g) (by rfl) _
          (bws_eval o _ _ _ g _ _ h0.rep (by simp [List.lookup]))
        have := h1.wrap "unwrap_1" (by decide)
          (notin_append (named_notin_srcAls _ _ _ (by decide) (by decide))
            (by simp only [List.mem_singleton, Alias.named.injEq]; apply Ne.symm; str_ne))
          (uwBody fn r.durNs (cmpHaving r.cmp)) (cmpHaving_notBitSet _) _
          (uw_eval o _ _ fn _ hd _ _ h1.rep (by simp [List.lookup]) r.cmp)
        simpa [itemsX, hg] using this
      · rw [hid', List.append_assoc]
        apply freshFor_src
        intro x _ h4 _ h6
        simp only [List.mem_append, List.mem_cons, List.not_mem_nil, or_false, Alias.named.injEq, not_or]
        exact ⟨h6 _ (Nat.le_refl _), h4⟩
      · rw [hsel, cols_cmpOpt]
        show hasColumn ((uwBody fn r.durNs none).with_ _).cols "labels" = true
        rw [cols_with]
        simp [uwBody, uwCols, Sel.cols, hasColumn, bucketCol, emptyStr]
  | quantile phi label =>
    have hl : r.kind.label? = some label := by rw [hk]; rfl
    obtain ⟨n, hid, h0, hcol0⟩ := uwSource_ok o c hn d r hm label hl hpost
    rw [rangePointsX_quantile o c.toCtx d r phi label hk]
    have hat : ∀ p ∈ cmpStage r.cmp (rangeCore (quantileVal o phi) r.durNs (itemsX o c.toCtx d r label)), PtAtomic p := by
      apply cmpStage_labels
      intro p hp
      obtain ⟨x, hx, h1, h2⟩ := rangeCore_kl _ _ _ p hp
      have := itemsX_atomic o c.toCtx d r label x hx
      exact ⟨by rw [h1]; exact this.1, by rw [h2]; exact this.2⟩
    cases hg : chosenGrouping r.byPrefix r.bySuffix with
    | none =>
      have hsel : (rangePhaseX c r).sel = cmpOpt r.cmp (quantileSel phi r.durNs (sourceX c.toCtx r).sel) := by
        simp only [rangePhaseX, hk, hg, planByWithout, optCmp_eq]
      have hid' : (rangePhaseX c r).id = (sourceX c.toCtx r).id := by simp only [rangePhaseX, hk, hg, planByWithout]
      refine ⟨srcAls (labelConds r.sel).length n ++ [.named "quant_a"], ?_, ?_, hat, ?_⟩
      · rw [hsel, quantileSel_eq _ _ _ _ hcol0]
        have := h0.wrap "quant_a" (by decide) (named_notin_srcAls _ _ _ (by decide) (by decide))
          (quantBody phi r.durNs (cmpHaving r.cmp)) (cmpHaving_notBitSet _) _
          (quant_eval o _ _ phi _ hd _ _ h0.rep (by simp [List.lookup]) r.cmp)
        simpa [itemsX, hg] using this
      · apply freshFor_src
        intro x _ _ h5 _
        simp only [List.mem_singleton, Alias.named.injEq]; exact h5
      · rw [hsel, quantileSel_hasLabels]; exact hcol0
    | some g =>
      have hsel : (rangePhaseX c r).sel =
          cmpOpt r.cmp (quantileSel phi r.durNs (byWithoutSimple (sourceX c.toCtx r).id g (sourceX c.toCtx r).sel)) := by
        simp only [rangePhaseX, hk, hg, planByWithout, Bool.false_eq_true, if_false, optCmp_eq]
      have hid' : (rangePhaseX c r).id = (sourceX c.toCtx r).id + 1 := by
        simp only [rangePhaseX, hk, hg, planByWithout, Bool.false_eq_true, if_false]
      have hbcol : hasColumn (byWithoutSimple (sourceX c.toCtx r).id g (sourceX c.toCtx r).sel).cols "labels" = true := by
        rw [byWithoutSimple_eq, cols_with]
        simp [bwsBody, bwsCols, Sel.cols, hasColumn, simpleCol]
      refine ⟨srcAls (labelConds r.sel).length n ++ [.named ("pre_by_without_" ++ toString ((sourceX c.toCtx r).id + 1))] ++
          [.named "quant_a"], ?_, ?_, hat, ?_⟩
      · rw [hsel, quantileSel_eq _ _ _ _ hbcol, byWithoutSimple_eq]
        have h1 := h0.wrap ("pre_by_without_" ++ toString ((sourceX c.toCtx r).id + 1)) (by str_ne)
          (named_notin_srcAls _ _ _ (by str_ne) (by str_ne))
          (bwsBody ("pre_by_without_" ++ toString ((sourceX c.toCtx r).id + 1)) g) (by rfl) _
          (bws_eval o _ _ _ g _ _ h0.rep (by simp [List.lookup]))
        have := h1.wrap "quant_a" (by decide)
          (notin_append (named_notin_srcAls _ _ _ (by decide) (by decide))
            (by simp only [List.mem_singleton, Alias.named.injEq]; apply Ne.symm; str_ne))
          (quantBody phi r.durNs (cmpHaving r.cmp)) (cmpHaving_notBitSet _) _
          (quant_eval o _ _ phi _ hd _ _ h1.rep (by simp [List.lookup]) r.cmp)
        simpa [itemsX, hg] using this
      · rw [hid', List.append_assoc]
        apply freshFor_src
        intro x _ _ h5 h6
        simp only [List.mem_append, List.mem_cons, List.not_mem_nil, or_false, Alias.named.injEq, not_or]
        exact ⟨h6 _ (Nat.le_refl _), h5⟩
      · rw [hsel, quantileSel_hasLabels]; exact hbcol


/-! ### the plan-level theorem of the labelled path -/
theorem supportedX_spec (q : MetricQueryX) (h : supportedX q = true) :
    (q.range.post = [] ∨ ∃ ch more, q.range.post = .ch ch :: more) ∧
    (∀ fn, q.range.kind = .lra fn → q.range.post ≠ []) ∧
    (∀ fn l, q.range.kind = .unwrap fn l → q.range.post ≠ []) ∧
    0 < q.range.durNs ∧ q.range.sel.matchers.length ≤ 63 := by
  unfold supportedX at h
  simp only [Bool.and_eq_true, decide_eq_true_eq] at h
  obtain ⟨⟨⟨h1, h2⟩, h5⟩, h6⟩ := h
  refine ⟨splitPre_fst_nil _ h1, ?_, ?_, h5, h6⟩
  · intro fn hk; rw [hk] at h2; intro he; rw [he] at h2; simp at h2
  · intro fn l hk; rw [hk] at h2; intro he; rw [he] at h2; simp at h2

/-- **plan_metric_correct_ext.** For every metric query of the labelled path that `supportedX` admits, every context and
    every database: the generated statement, under `Sql.SemAgg`, returns exactly the matrix of the direct reading
    `evalMetricX`. -/
theorem planMetricX_correct (o : Oracles) (c : MCtx) (hn : c.namesOk) (d : LokiDb) (q : MetricQueryX)
    (hsup : supportedX q = true) :
    (evalSelA o (d.toDbM c) (planMetricX c q)).map normRow = evalMetricX o c d q := by
  obtain ⟨hpost, hplain, _, hd, hm⟩ := supportedX_spec q hsup
  obtain ⟨L, hps, hfresh, hat, hcol⟩ := rangePhaseX_ok o c hn d q.range hpost hplain hm hd
  unfold planMetricX evalMetricX
  rw [tailX_ok o c d q.range.sel q.range.durNs q.agg q.topk (rangePhaseX c q.range) _ L hps hfresh hat hcol,
    metricPointsX_eq]

end Qryn.LogQL
