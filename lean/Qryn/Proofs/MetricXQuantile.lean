import Qryn.Proofs.MetricXRange
import Qryn.Gen.QuantileOps
/-! C08 ext, part 4: `QuantilePlanner`. ClickHouse's `quantile(φ)(x)` is the oracle `Oracles.quantile φ` applied to the
    values of the group (`Sql.SemAgg`); what is proved of the plan does not depend on it: the rows of every group are exactly
    the entry points of one (series, range bucket), φ is the written parameter, the labels are those of the series. -/
namespace Qryn.LogQL
open Qryn Qryn.Sql

/-- one point per (series, range bucket) of the entry points, in order of first occurrence, valued by `val` -/
def rangeCore (val : List (Int × Rat) → Option Rat) (d : Nat) (pts : List Pt) : List Pt :=
  (groupsBy (uwKey d) pts).filterMap (fun g =>
    (val (g.2.map (fun p => (p.ts, p.value)))).map (fun v => ⟨g.1.1, (g.2.head?.map (·.labels)).getD .null, g.1.2, v⟩))

theorem unwrapCore_rangeCore (o : Oracles) (fn : UnwrapFn) (d : Nat) (pts : List Pt) :
    unwrapCore o fn d pts = rangeCore (unwrapVal o fn d) d pts := rfl

theorem groupRange_eq (d : Nat) (val : List (Int × Rat) → Option Rat) (pts : List Pt) :
    groupRange d val pts = rangeCore val d pts := by
  unfold groupRange rangeCore groupsBy uwKey
  simp only [List.filterMap_map, Function.comp_def]

/-- φ as the number the `%f` literal denotes -/
def phiRat (phi : NumLit) : Rat := numOf phi

def quantValD (o : Oracles) (phi : NumLit) (grp : List (Int × Rat)) : Rat := o.quantile (numOf phi) (grp.map (·.2))

theorem quantileVal_some (o : Oracles) (phi : NumLit) (grp : List (Int × Rat)) (hne : grp ≠ []) :
    quantileVal o phi grp = some (quantValD o phi grp) := by
  cases grp with
  | nil => exact absurd rfl hne
  | cons p ps => rfl

theorem quantCore_eq (o : Oracles) (phi : NumLit) (d : Nat) (pts : List Pt) :
    rangeCore (quantileVal o phi) d pts = (groupsBy (uwKey d) pts).map (fun g =>
      ⟨g.1.1, (g.2.head?.map (·.labels)).getD .null, g.1.2, quantValD o phi (g.2.map (fun p => (p.ts, p.value)))⟩) := by
  unfold rangeCore
  apply filterMap_eq_map_of
  intro g hg
  obtain ⟨⟨a, rest, hgr, _⟩, _⟩ := groupsBy_head _ pts g hg
  rw [quantileVal_some o phi _ (by rw [hgr]; simp)]
  rfl

/-! ### `QuantilePlanner`'s select (over a select that carries labels) -/
def quantCols (phi : NumLit) (d : Nat) : List Expr :=
  [simpleCol "quant_a.fingerprint" "fingerprint", bucketCol "quant_a.timestamp_ns" d, .col (quantileCol phi) "value",
   .col (.call "any" [.raw "quant_a.labels"]) "labels"]

def quantBody (phi : NumLit) (d : Nat) (hv : Option Expr) : Sel :=
  .mk [] false (quantCols phi d) (some (.withRef (.named "quant_a"))) [] none none
    [.raw "timestamp_ns", .raw "fingerprint"] hv [] none

theorem quant_aliasVals (o : Oracles) (env : Env) (phi : NumLit) (d : Nat) (hd : 0 < d) (r : Row) (h : StdRow r) :
    aliasVals o env (quantCols phi d) (qualify "quant_a" r) =
      [("fingerprint", r.get "fingerprint"), ("timestamp_ns", bucketVal d (r.get "timestamp_ns"))] := by
  have hd0 : d ≠ 0 := by omega
  have e1 := get_q "quant_a" "fingerprint" "quant_a.fingerprint" rfl r h
  have e2 := get_q "quant_a" "timestamp_ns" "quant_a.timestamp_ns" rfl r h
  have hb : evalE o env (qualify "quant_a" r) (.mulOp (.call "intDiv" [.raw "quant_a.timestamp_ns", .int d]) (.int d)) =
      bucketVal d (r.get "timestamp_ns") := by
    cases hv : r.get "timestamp_ns" <;>
      simp [e2, evalE, evalEs, hv, hd0, mulVal, bucketVal, bucketOf, Val.toRat?]
  simp only [quantCols, aliasVals, bucketCol, simpleCol, quantileCol, List.filterMap_cons, List.filterMap_nil, hasAgg, hb]
  simp [aggNames, evalE, e1]

/-- the value `QuantilePlanner` computes over the value cells of a group: the oracle at the written φ -/
theorem quant_value_num (o : Oracles) (env : Env) (rows : List Row) (first : Row) (grp : List (Int × Rat)) (phi : NumLit)
    (h : rows.map (fun r => numOf? (r.get "value")) = grp.map (fun p => some p.2)) (hne : grp ≠ []) :
    numOf? (evalAgg o env rows first (.col (quantileCol phi) "value")) = some (quantValD o phi grp) := by
  have hr : ratsOf (rows.map (fun r => r.get "value")) = some (grp.map (·.2)) := by
    apply ratsOf_of_numOf
    simpa [List.map_map, Function.comp_def] using h
  obtain ⟨p, ps, rfl⟩ : ∃ p ps, grp = p :: ps := by
    cases grp with
    | nil => exact absurd rfl hne
    | cons p ps => exact ⟨p, ps, rfl⟩
  simp only [quantileCol, evalAgg, quantileAggV, hr, List.map_cons]
  simp [numOf?, quantValD, numOf]


theorem quant_cell_fp (o : Oracles) (env : Env) (phi : NumLit) (d : Nat) (hd : 0 < d) (r0 : Row) (h0 : StdRow r0) (rest : List Row) :
    growCell o env (quantCols phi d) (qualify "quant_a" r0 :: rest) (simpleCol "quant_a.fingerprint" "fingerprint") =
      ("fingerprint", r0.get "fingerprint") := by
  have e1 := get_q "quant_a" "fingerprint" "quant_a.fingerprint" rfl r0 h0
  unfold growCell scope
  rw [List.headD_cons, quant_aliasVals o env phi d hd r0 h0]
  simp [colName, simpleCol, evalAgg, evalE, get_cons, e1]

theorem quant_cell_ts (o : Oracles) (env : Env) (phi : NumLit) (d : Nat) (hd : 0 < d) (r0 : Row) (h0 : StdRow r0) (rest : List Row) :
    growCell o env (quantCols phi d) (qualify "quant_a" r0 :: rest) (bucketCol "quant_a.timestamp_ns" d) =
      ("timestamp_ns", bucketVal d (r0.get "timestamp_ns")) := by
  have hd0 : d ≠ 0 := by omega
  have e2 := get_q "quant_a" "timestamp_ns" "quant_a.timestamp_ns" rfl r0 h0
  unfold growCell scope
  rw [List.headD_cons, quant_aliasVals o env phi d hd r0 h0]
  cases hv : r0.get "timestamp_ns" <;>
    simp [colName, bucketCol, evalAgg, aggCall, evalE, evalEs, get_cons, e2, hv, hd0, mulVal, bucketVal, bucketOf, Val.toRat?]

theorem quant_cell_lab (o : Oracles) (env : Env) (phi : NumLit) (d : Nat) (hd : 0 < d) (r0 : Row) (h0 : StdRow r0) (rest : List Row) :
    growCell o env (quantCols phi d) (qualify "quant_a" r0 :: rest) (.col (.call "any" [.raw "quant_a.labels"]) "labels") =
      ("labels", r0.get "labels") := by
  have e3 := get_q "quant_a" "labels" "quant_a.labels" rfl r0 h0
  unfold growCell
  simp only [List.map_cons, colName, evalAgg, aggCall, anyAgg, List.head?_cons, Option.getD_some, evalE_raw]
  rw [quant_aliasVals o env phi d hd r0 h0]
  simp [get_cons, e3]

theorem quant_group_row (o : Oracles) (env : Env) (phi : NumLit) (d : Nat) (hd : 0 < d)
    (A : List Row) (hstd : ∀ r ∈ A, StdRow r) (B : List Pt) (hne : A ≠ []) (hAB : A.map rview = B.map Pt.view) :
    rview (grow o env (quantCols phi d) (A.map (qualify "quant_a"))) =
      Pt.view ⟨(B.head?.map (·.key)).getD .null, (B.head?.map (·.labels)).getD .null,
        (B.head?.map (fun p => bucketOf d p.ts)).getD 0, quantValD o phi (B.map (fun p => (p.ts, p.value)))⟩ := by
  obtain ⟨r0, A', rfl⟩ : ∃ r0 A', A = r0 :: A' := by
    cases A with
    | nil => exact absurd rfl hne
    | cons r0 A' => exact ⟨r0, A', rfl⟩
  obtain ⟨p0, B', rfl⟩ : ∃ p0 B', B = p0 :: B' := by
    cases B with
    | nil => simp at hAB
    | cons p0 B' => exact ⟨p0, B', rfl⟩
  have h0 : rview r0 = p0.view := by simpa using (List.cons.inj hAB).1
  have hs0 : StdRow r0 := hstd r0 (by simp)
  simp only [rview, Pt.view, Prod.mk.injEq] at h0
  obtain ⟨k1, k2, k3, k4⟩ := h0
  have hval := quant_value_num o env (((r0 :: A').map (qualify "quant_a")).map (fun r => aliasVals o env (quantCols phi d) r ++ r))
    (scope o env (quantCols phi d) "value" (((r0 :: A').map (qualify "quant_a")).headD []))
    ((p0 :: B').map (fun p => (p.ts, p.value))) phi (by
      rw [List.map_map, List.map_map, List.map_map]
      apply map_rel rview Pt.view _ _ _ _ hAB
      intro r hr p _ hv
      simp only [Function.comp_apply]
      rw [quant_aliasVals o env phi d hd r (hstd r hr)]
      have e1 := get_unqualified "quant_a" "value" r (by simp [Std5])
      simp only [rview, Pt.view, Prod.mk.injEq] at hv
      simp [get_cons, e1, hv.2.2.1]) (by simp)
  rw [grow_eq]
  have hcols : quantCols phi d = [simpleCol "quant_a.fingerprint" "fingerprint", bucketCol "quant_a.timestamp_ns" d,
      .col (quantileCol phi) "value", .col (.call "any" [.raw "quant_a.labels"]) "labels"] := rfl
  conv => lhs; arg 1; arg 2; rw [hcols]
  simp only [List.map_cons, List.map_nil]
  rw [quant_cell_fp o env phi d hd r0 hs0, quant_cell_ts o env phi d hd r0 hs0, quant_cell_lab o env phi d hd r0 hs0]
  have c4 : growCell o env (quantCols phi d) (qualify "quant_a" r0 :: List.map (qualify "quant_a") A')
      (.col (quantileCol phi) "value") =
      ("value", evalAgg o env (((r0 :: A').map (qualify "quant_a")).map (fun r => aliasVals o env (quantCols phi d) r ++ r))
        (scope o env (quantCols phi d) "value" (((r0 :: A').map (qualify "quant_a")).headD []))
        (.col (quantileCol phi) "value")) := rfl
  rw [c4]
  simp only [List.map_cons, List.map_map, List.headD_cons] at hval
  simp only [rview, get_cons, Pt.view, List.head?_cons, Option.map_some, Option.getD_some]
  simp [k1, k2, k4, hval, bucketVal]

/-- **`quantile_over_time` (QuantilePlanner).** Over the entry points of `quant_a`, one row per (series, range bucket) in
    order of first occurrence: `quantile(φ)` — φ the written parameter — of exactly the group's unwrapped values, in the
    order of the entries, and the labels of the group's first member; then the optional HAVING. -/
theorem quant_eval (o : Oracles) (db : Db) (env : Env) (phi : NumLit) (d : Nat) (hd : 0 < d) (T : Table) (pts : List Pt)
    (h : Rep T pts) (hT : env.lookup (.named "quant_a") = some T) (cm : Option Comparison) :
    Rep (evalBodyA o db env (quantBody phi d (cmpHaving cm))) (cmpStage cm (rangeCore (quantileVal o phi) d pts)) := by
  unfold quantBody
  rw [evalBodyA_grouped o db env _ (quantCols phi d) _ (T.map (qualify "quant_a"))
    (by simp [sourceRowsA, sourceRows, hT, Alias.text]) _ rfl]
  apply having_rep
  rw [groupsBy_map]
  have hkey : ∀ r ∈ T, gkey o env (quantCols phi d) [.raw "timestamp_ns", .raw "fingerprint"] (qualify "quant_a" r) =
      (fun (k : Val × Val) => [k.2, k.1]) ((fun (v : Val × Val × Option Rat × Val) => (v.1, bucketVal d v.2.1)) (rview r)) := by
    intro r hr
    unfold gkey
    rw [quant_aliasVals o env phi d hd r (h.std r hr)]
    simp [evalE, get_cons, rview]
  rw [groupsBy_congr _ _ T hkey]
  simp only [List.map_map, Function.comp_def]
  refine ⟨?_, ?_⟩
  · have := groups_rel rview Pt.view (fun (v : Val × Val × Option Rat × Val) => (v.1, bucketVal d v.2.1))
      (fun (k : Val × Val) => [k.2, k.1])
      (by intro a b hab; simp at hab; exact Prod.ext hab.2 hab.1) T pts h.view
      (fun A => rview (grow o env (quantCols phi d) (A.map (qualify "quant_a"))))
      (fun B => Pt.view ⟨(B.head?.map (·.key)).getD .null, (B.head?.map (·.labels)).getD .null,
        (B.head?.map (fun p => bucketOf d p.ts)).getD 0, quantValD o phi (B.map (fun p => (p.ts, p.value)))⟩)
      (fun A B hne hA _ _ hAB => quant_group_row o env phi d hd A (fun r hr => h.std r (hA r hr)) B hne hAB)
    rw [List.map_map]
    simp only [Function.comp_def] at this ⊢
    rw [this, quantCore_eq o phi]
    have henc := groupsBy_enc (uwKey d) (fun (k : Val × Int) => (k.1, Val.int k.2))
      (by intro a b hab; simp at hab; exact Prod.ext hab.1 hab.2) pts
    simp only [Pt.view, uwKey, bucketVal] at henc ⊢
    rw [henc]
    simp only [List.map_map, Function.comp_def]
    apply List.map_congr_left
    intro g hg
    obtain ⟨⟨a, rest, hgr, hk⟩, _⟩ := groupsBy_head _ pts g hg
    simp only [hgr, List.head?_cons, Option.map_some, Option.getD_some, ← hk]
    rfl
  · intro r hr
    obtain ⟨g, _, rfl⟩ := List.mem_map.mp hr
    apply grow_std
    intro c hc
    simp only [quantCols, List.mem_cons, List.not_mem_nil, or_false] at hc
    rcases hc with rfl | rfl | rfl | rfl <;> simp [colName, bucketCol, simpleCol, Std5]


/-! ### the texts of planner_quantile.go (regenerated fact `Gen.QuantileOps`) are those of the model -/
/-- text of a column expression of the model's `QuantilePlanner` select with the Go format holes (`%d` range, `%f` φ) -/
def quantColText : Expr → String
  | .col (.raw s) _ => s
  | .col (.mulOp (.call "intDiv" [.raw src, _]) _) _ => "intDiv(" ++ src ++ ", %d) * %[1]d"
  | .col (.quantileAgg _ _ c) _ => "quantile(%f)(" ++ c ++ ")"
  | .col (.call fn [.raw a]) _ => fn ++ "(" ++ a ++ ")"
  | _ => "?"

/-- what `QuantilePlanner.Process` writes, in source order, read off the model: WITH alias, the looked-up column, then every
    column text and alias, the GROUP BY keys, the labels column -/
def quantileTextsModel : List String :=
  let cols := quantCols ⟨0, []⟩ 1
  let main3 := cols.take 3
  ["quant_a", "labels"] ++ main3.flatMap (fun c => [quantColText c, colName c]) ++ ["timestamp_ns", "fingerprint"] ++
    (cols.drop 3).flatMap (fun c => [quantColText c, colName c])

theorem quantileTexts_eq : quantileTextsModel = Gen.QuantileOps.texts := by decide

/-- the range goes into the bucket column, the parsed parameter into `quantile(%f)`; `planQuantileOverTime` takes them from
    the script's range and parameter -/
theorem quantileArgs_eq :
    Gen.QuantileOps.fmtArgs = [("intDiv(quant_a.timestamp_ns, %d) * %[1]d", "p.Duration.Nanoseconds()"), ("quantile(%f)(value)", "p.Param")] ∧
    Gen.QuantileOps.wiring = [("Main", "p.samplesPlanner"), ("Param", "strconv.ParseFloat(script.Param, 64)"),
      ("Duration", "time.ParseDuration(script.Time + script.TimeUnit)")] := by decide

end Qryn.LogQL
