import Qryn.Gen.ReadSide
import Qryn.Proofs.ReadParams
/-! The code variants the C12 theorems talk about (constants regenerated from source) and the response-class
    lemmas for the Loki service path. -/
namespace Qryn.ReadSide
open Qryn.Gen

/-- the code as it is now (the fixes A24, A21, A35 … applied), with the constants regenerated from source -/
def code : Code := ⟨FixCode.fixed, AggCode.fixed, ReadSide.maxFixPeriodPoints, ReadSide.aggStreamCap⟩
/-- the tree as found -/
def pinned : Code := ⟨FixCode.pinned, AggCode.pinned, ReadSide.maxFixPeriodPoints, ReadSide.aggStreamCap⟩

theorem innerSync_answered (a b : Int) (pl : Plan) (db : DbScript) : (innerSync code a b pl db).answered = true := by
  unfold innerSync
  split
  · split <;> rfl
  · split
    · rfl
    · rfl
    · split
      · rfl
      · split
        · rfl
        · split <;> rfl

theorem afterSync_answered (p : FixParams) (rows : List Entry) (inner : Resp)
    (hg : fixGuard ReadSide.maxFixPeriodPoints p = true) (hi : inner.answered = true) :
    (afterSync code p rows inner).answered = true := by
  obtain ⟨out, ho⟩ := fixGoroutine_ok (M := ReadSide.maxFixPeriodPoints) (by decide) hg rows
  unfold afterSync
  cases inner <;> simp_all [code, Resp.answered]

theorem lokiService_answered (fromNs toNs stepMs : Int) (pl : Plan) (db : DbScript) :
    (lokiService code fromNs toNs stepMs pl db).answered = true := by
  unfold lokiService
  split
  · rfl
  · split
    · rfl
    · simp only []
      split
      · split <;> rfl
      · split
        · rfl
        · rename_i hguard
          apply afterSync_answered
          · simp [code, FixCode.fixed] at hguard
            exact hguard
          · exact innerSync_answered _ _ _ _

end Qryn.ReadSide
