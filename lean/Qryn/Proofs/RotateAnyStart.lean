import Qryn.Proofs.RotateRun
/-! What a fault-free run of `Rotate` does from ANY database — no hypothesis on the settings records: a group whose
    record differs from the configuration is redone (all its tables end at the configured value), a group whose record
    already equals it is not touched at all — whether or not its tables carry that value. -/
set_option linter.unusedSimpArgs false
namespace Qryn.Ctrl.Rotate
open Qryn

/-- one acting group, no fault -/
theorem runGroup_any_start (c : Cfg) (g : GroupDef) (x : Ctx) (hact : active c g = true) :
    (runGroup none c g x).1.st.marker g.fp = desired c g ∧
    (x.st.marker g.fp = desired c g → (runGroup none c g x).1.st = x.st) ∧
    (x.st.marker g.fp ≠ desired c g → ∀ t ∈ g.tables, attr g.kind (runGroup none c g x).1.st t = desired c g) := by
  by_cases hskip : x.st.marker g.fp = desired c g
  · have h := runGroup_skip (f := none) (c := c) (g := g) (x := x) (Or.inr hskip)
    have hst : (runGroup none c g x).1.st = x.st := by rw [h]; exact read_st none c g x
    exact ⟨by rw [hst]; exact hskip, fun _ => hst, fun hne => absurd hskip hne⟩
  · have hres := runGroup_result none c g x
    have hok := runGroup_none_ok c g x
    rw [hok] at hres
    obtain ⟨s, hs⟩ : ∃ s, (runGroup none c g x).1.st = s := ⟨_, rfl⟩
    rw [hs] at hres ⊢
    cases hres with
    | untouched _ hsk =>
      rcases hsk rfl with h | h
      · rw [hact] at h; cases h
      · exact absurd h hskip
    | done _ _ _ hd =>
      exact ⟨hd.marker_g, fun h => absurd h hskip, fun _ => hd.attr_g⟩

theorem runGroups_any_start {defs : List GroupDef} (hwf : WF defs) (c : Cfg) :
    ∀ (gs : List GroupDef), (∀ g ∈ gs, g ∈ defs) → gs.Nodup → ∀ x : Ctx, ∀ g ∈ gs, active c g = true →
      (runGroups none c gs x).1.st.marker g.fp = desired c g ∧
      (x.st.marker g.fp = desired c g → ∀ t ∈ g.tables, attr g.kind (runGroups none c gs x).1.st t = attr g.kind x.st t) ∧
      (x.st.marker g.fp ≠ desired c g → ∀ t ∈ g.tables, attr g.kind (runGroups none c gs x).1.st t = desired c g) := by
  intro gs
  induction gs with
  | nil => intro _ _ x g hg; cases hg
  | cons g0 gs ih =>
    intro hsub hnd x g hg hact
    have hg0 : g0 ∈ defs := hsub g0 (by simp)
    have hsub' : ∀ g ∈ gs, g ∈ defs := fun g' hg' => hsub g' (List.mem_cons_of_mem _ hg')
    have hnd' := List.nodup_cons.mp hnd
    obtain ⟨_, hfp, hdisj⟩ := hwf
    rw [runGroups_cons]
    simp only [runGroup_none_ok, if_true]
    have hfr := runGroups_frame none c gs (runGroup none c g0 x).1
    rcases List.mem_cons.mp hg with e | hmem
    · subst e
      have h1 := runGroup_any_start c g x hact
      have hm : (runGroups none c gs (runGroup none c g x).1).1.st.marker g.fp = (runGroup none c g x).1.st.marker g.fp := by
        apply hfr.1
        intro g' hg' _ hfe
        have : g' = g := hfp g' (hsub' g' hg') g hg0 hfe
        subst this; exact hnd'.1 hg'
      have ha : ∀ t ∈ g.tables, attr g.kind (runGroups none c gs (runGroup none c g x).1).1.st t =
          attr g.kind (runGroup none c g x).1.st t := by
        intro t ht
        apply hfr.2
        intro g' hg' _ hk htg'
        have hne : g ≠ g' := fun e => by subst e; exact hnd'.1 hg'
        exact hdisj g hg0 g' (hsub' g' hg') hne hk.symm t ht htg'
      refine ⟨by rw [hm]; exact h1.1, ?_, ?_⟩
      · intro he t ht; rw [ha t ht, h1.2.1 he]
      · intro hne t ht; rw [ha t ht]; exact h1.2.2 hne t ht
    · -- g is a later group: the head group leaves its record and its tables alone
      have hgd : g ∈ defs := hsub' g hmem
      have hne : g ≠ g0 := fun e => by subst e; exact hnd'.1 hmem
      have hres := (runGroup_result none c g0 x).frame
      have hm0 : (runGroup none c g0 x).1.st.marker g.fp = x.st.marker g.fp := by
        cases ha : active c g0
        · rw [hres.2.2 ha]
        · exact hres.1 g.fp (fun e => hne (hfp g hgd g0 hg0 e))
      have ha0 : ∀ t ∈ g.tables, attr g.kind (runGroup none c g0 x).1.st t = attr g.kind x.st t := by
        intro t ht
        cases ha : active c g0
        · rw [hres.2.2 ha]
        · apply hres.2.1
          by_cases hk : g.kind = g0.kind
          · right; exact fun ht0 => hdisj g hgd g0 hg0 hne hk t ht ht0
          · left; exact hk
      have := ih hsub' hnd'.2 (runGroup none c g0 x).1 g hmem hact
      rw [hm0] at this
      refine ⟨this.1, ?_, this.2.2⟩
      intro he t ht
      rw [this.2.1 he t ht, ha0 t ht]

end Qryn.Ctrl.Rotate
