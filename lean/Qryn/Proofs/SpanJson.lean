import Qryn.Ingest.SpanJson
import Qryn.Proofs.SpanZipkin
import Qryn.Proofs.SpanFlatten
import Qryn.Ingest.SpanCfg
/-! Lemmas about the text level of the span model: texts ↔ typed documents, the line scanner, reading a list of rows,
    the trace-by-id statement. -/
namespace Qryn.Span

/-! ### texts and typed documents -/

theorem runSpans_congr {σ ρ} (c : Cfg) (pt : Int) (dec dec' : σ → ρ → Except Reject (σ × Args)) :
    ∀ (rs : List ρ) (s : σ) (b : Builder), (∀ r ∈ rs, ∀ s, dec s r = dec' s r) →
      runSpans c pt dec s b rs = runSpans c pt dec' s b rs := by
  intro rs
  induction rs with
  | nil => intro s b _; rfl
  | cons r rs ih =>
    intro s b h
    unfold runSpans
    rw [h r (by simp) s]
    cases dec' s r with
    | error e => rfl
    | ok p =>
      obtain ⟨s', a⟩ := p
      simp only
      cases onSpan c pt b a with
      | error e => rfl
      | ok b' => exact ih s' b' (fun x hx => h x (by simp [hx]))

theorem runSpans_map {σ ρ τ} (c : Cfg) (pt : Int) (dec : σ → τ → Except Reject (σ × Args)) (g : ρ → τ) :
    ∀ (rs : List ρ) (s : σ) (b : Builder),
      runSpans c pt (fun s r => dec s (g r)) s b rs = runSpans c pt dec s b (rs.map g) := by
  intro rs
  induction rs with
  | nil => intro s b; rfl
  | cons r rs ih =>
    intro s b
    simp only [List.map_cons]
    unfold runSpans
    cases dec s (g r) with
    | error e => rfl
    | ok p =>
      obtain ⟨s', a⟩ := p
      simp only
      cases onSpan c pt b a with
      | error e => rfl
      | ok b' => exact ih s' b'

/-- the typed document of a text (the empty document when the text is not an object) -/
def docOf (t : ZText) : ZSpan := (docOfTrees t).getD { fields := [], rawLen := 0 }

/-- every text of the body is a JSON object for the writer's parser -/
def TextsAreObjects (texts : List ZText) : Prop := ∀ t ∈ texts, (docOfTrees t).isSome

theorem decodeSpanJ_eq (c : Cfg) (d : ZDec) (t : ZText) (h : (docOfTrees t).isSome) :
    decodeSpanJ c d t = decodeSpan c d (docOf t) := by
  unfold decodeSpanJ docOf
  obtain ⟨z, hz⟩ := Option.isSome_iff_exists.mp h
  rw [hz]; rfl

/-- a body whose texts are all objects and whose framing is intact is written as the list of their typed documents -/
theorem writeZipkinJ_eq (c : Cfg) (f : Framing) (texts : List ZText) (h : TextsAreObjects texts) :
    writeZipkinJ c f texts true = writeZipkin c f (texts.map docOf) := by
  have key : ∀ pt, runSpans c pt (decodeSpanJ c) {} {} texts = runSpans c pt (decodeSpan c) {} {} (texts.map docOf) := by
    intro pt
    rw [← runSpans_map c pt (decodeSpan c) docOf texts]
    exact runSpans_congr c pt _ _ texts _ _ (fun t ht s => decodeSpanJ_eq c s t (h t ht))
  cases f <;> simp [writeZipkinJ, writeZipkin, key]

/-- a text that is not an object refuses the request -/
theorem decodeSpanJ_not_object (c : Cfg) (d : ZDec) (t : ZText) (h : docOfTrees t = none) :
    decodeSpanJ c d t = .error .reject := by
  unfold decodeSpanJ; rw [h]

/-! ### endpoints with at most one `serviceName` member -/

/-- no endpoint object of the span has more than one `serviceName` member -/
def nestedUnique (fs : List ZField) : Bool :=
  fs.all (fun f => match f with
    | .localEndpoint (some e) => decide (e.svcs.length ≤ 1)
    | .remoteEndpoint (some e) => decide (e.svcs.length ≤ 1)
    | _ => true)

theorem epSvc_eq_reader (n : String) (e : Option Endpoint) (h : ∀ x, e = some x → x.svcs.length ≤ 1) :
    epSvc e = ((epAttrs n e).2).getD [] := by
  cases e with
  | none => rfl
  | some e =>
    have hl := h e rfl
    obtain ⟨svcs, v4, v6, port⟩ := e
    match svcs, hl with
    | [], _ => rfl
    | [o], _ => cases o <;> rfl
    | _ :: _ :: _, hl => simp at hl

/-! ### reading rows -/

/-- the span a row decodes to, if it does -/
def rowSpan (c : Cfg) (fbits : Bytes → Nat) (r : TraceRow) : Option RSpan :=
  match readRow c fbits r with
  | .span s => some s
  | _ => none

theorem readRows_all_spans (c : Cfg) (fbits : Bytes → Nat) :
    ∀ (rows : List TraceRow), (∀ r ∈ rows, ∃ s, readRow c fbits r = .span s) →
      readRows c fbits rows = (rows.map (rowSpan c fbits), .done) := by
  intro rows
  induction rows with
  | nil => intro _; rfl
  | cons r rs ih =>
    intro h
    obtain ⟨s, hs⟩ := h r (by simp)
    have ih' := ih (fun x hx => h x (by simp [hx]))
    simp only [readRows, hs, ih', List.map_cons, rowSpan]

/-! ### the trace-by-id statement -/

theorem traceQuery_unbounded (tbl : List TraceRow) (tid : Bytes) :
    traceQuery tbl tid 0 0 = ((tbl.filter (fun r => r.traceId == tid)).mergeSort (fun a b => decide (a.ts ≤ b.ts))).take 2000 := by
  unfold traceQuery
  simp

theorem traceQuery_perm (tbl : List TraceRow) (tid : Bytes) (h : (tbl.filter (fun r => r.traceId == tid)).length ≤ 2000) :
    (traceQuery tbl tid 0 0).Perm (tbl.filter (fun r => r.traceId == tid)) := by
  rw [traceQuery_unbounded]
  rw [List.take_of_length_le (by rw [List.length_mergeSort]; exact h)]
  exact List.mergeSort_perm _ _

/-! ### the line scanner -/

theorem scanLinesAux_line (l : Bytes) (hl : 10 ∉ l) : ∀ (acc : Bytes) (rest : Bytes),
    scanLinesAux (l ++ 10 :: rest) acc = dropCR (acc.reverse ++ l) :: scanLinesAux rest [] := by
  induction l with
  | nil => intro acc rest; simp [scanLinesAux]
  | cons c l ih =>
    intro acc rest
    have hc : c ≠ 10 := fun h => hl (by simp [h])
    have hl' : 10 ∉ l := fun h => hl (by simp [h])
    simp only [List.cons_append, scanLinesAux, hc, if_false]
    rw [ih hl' (c :: acc) rest]
    simp

theorem scanLinesAux_last (l : Bytes) (hl : 10 ∉ l) : ∀ (acc : Bytes),
    scanLinesAux l acc = if acc.reverse ++ l = [] then [] else [dropCR (acc.reverse ++ l)] := by
  induction l with
  | nil => intro acc; simp [scanLinesAux]
  | cons c l ih =>
    intro acc
    have hc : c ≠ 10 := fun h => hl (by simp [h])
    have hl' : 10 ∉ l := fun h => hl (by simp [h])
    simp only [scanLinesAux, hc, if_false]
    rw [ih hl' (c :: acc)]
    simp

/-- the body the newline-delimited framing expects: the texts joined by line feeds -/
def joinLines : List Bytes → Bytes
  | [] => []
  | [l] => l
  | l :: rest => l ++ 10 :: joinLines rest

/-- a text that can stand on a line of its own: no line feed inside, not empty, no trailing carriage return -/
def LineText (l : Bytes) : Prop := 10 ∉ l ∧ l ≠ [] ∧ l.getLast? ≠ some 13

theorem dropCR_of_lineText {l : Bytes} (h : LineText l) : dropCR l = l := by
  unfold dropCR; simp [h.2.2]

/-- **every line comes out whole, whatever its length**: scanning the texts joined by line feeds yields the texts -/
theorem scanLines_joinLines : ∀ (texts : List Bytes), (∀ l ∈ texts, LineText l) → scanLines (joinLines texts) = texts
  | [], _ => rfl
  | [l], h => by
    have hl := h l (by simp)
    simp only [scanLines, joinLines]
    rw [scanLinesAux_last l hl.1 []]
    simp [hl.2.1, dropCR_of_lineText hl]
  | l :: l' :: rest, h => by
    have hl := h l (by simp)
    simp only [scanLines, joinLines]
    rw [scanLinesAux_line l hl.1 [] _]
    have ih := scanLines_joinLines (l' :: rest) (fun x hx => h x (by simp [hx]))
    simp only [scanLines] at ih
    simp [dropCR_of_lineText hl, ih]


/-! ### pushes and the table they leave -/

/-- no member name that one of the two sides consults occurs twice in the span object -/
def TextUnique (ms : List (Str × JVal)) : Prop := ((ms.map absField).filterMap ZField.slot).Nodup

instance (ms : List (Str × JVal)) : Decidable (TextUnique ms) := by unfold TextUnique; infer_instance


/-- one accepted push: a Zipkin body (either framing) or an OTLP request -/
inductive Push where
  | zipkin (f : Framing) (texts : List ZText)
  | otlp (td : TracesData)

/-- the rows a push leaves in `tempo_traces` (nothing when it is refused) -/
def Push.rows (plen : OSpan → Nat) : Push → List TraceRow
  | .zipkin f texts => if (writeZipkinJ cfg f texts true).ok then (writeZipkinJ cfg f texts true).traces else []
  | .otlp td => if (writeOTLP cfg plen td).ok then (writeOTLP cfg plen td).traces else []

/-- the texts of a Zipkin push satisfy the hypotheses of `roundtrip_zipkin_partial` -/
def Push.Good : Push → Prop
  | .zipkin _ texts => ∀ t ∈ texts, ∃ ms, t.wtree = some (.obj ms) ∧ t.rtree = t.wtree ∧ TextUnique ms ∧
      nestedUnique (ms.map absField) = true
  | .otlp _ => True

/-- the table after a sequence of pushes -/
def store (plen : OSpan → Nat) (ps : List Push) : List TraceRow := ps.flatMap (Push.rows plen)


theorem toU64_wrap64 (i : Int) : toU64 (wrap64 i) = (i % 18446744073709551616).toNat := by
  unfold toU64 wrap64
  simp only
  split <;> omega


end Qryn.Span
