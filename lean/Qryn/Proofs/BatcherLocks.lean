import Qryn.Ingest.BatcherLocks
import Qryn.Proofs.BatcherRect
import Qryn.Proofs.BatcherCount
/-! `swapBuffers` hold by hold refines the atomic `stepSwap` exactly when the whole swap sits in ONE hold
    (`atomicProg`): stutter simulation `Rel`, `mstep_refines`, `mrun_refines`, and what carries over. -/
namespace Qryn.Ingest.BatcherLocks
open Qryn.Ingest.Batcher

/-! ### one hold -/

theorem effective_false {m : Move} (h : m.effective = false) : m = .other := by
  cases m <;> simp [Move.effective] at h ⊢

theorem execMoves_inert (h : List Move) (s : Svc) (l : Local) (hi : inertHold h = true) :
    execMoves h s l = .cont s l := by
  induction h with
  | nil => rfl
  | cons m t ih =>
    simp only [inertHold, List.all_cons, Bool.and_eq_true, Bool.not_eq_true'] at hi
    rw [effective_false hi.1]
    simp only [execMoves]
    exact ih (by simpa [inertHold] using hi.2)

theorem execMoves_filter (h : List Move) (s : Svc) (l : Local) :
    execMoves h s l = execMoves (h.filter Move.effective) s l := by
  induction h generalizing s l with
  | nil => rfl
  | cons m t ih =>
    cases m with
    | other => simp only [List.filter, Move.effective, execMoves]; exact ih _ _
    | renew => simp only [List.filter, Move.effective, execMoves]; exact ih _ _
    | takeSize => simp only [List.filter, Move.effective, execMoves]; exact ih _ _
    | takeResults => simp only [List.filter, Move.effective, execMoves]; exact ih _ _
    | checkEmpty =>
      simp only [List.filter, Move.effective, execMoves]
      split
      · rfl
      · exact ih _ _
    | takeCols =>
      simp only [List.filter, Move.effective, execMoves]
      cases s.cols with
      | none => rfl
      | some cs => exact ih _ _

/-- what the hold that does the whole swap computes, whatever the order of the three takes -/
theorem execMoves_main (h : List Move) (hm : mainHold h = true) (s : Svc) :
    (s.size = 0 → execMoves h s {} = .ret { s with flushPlanned := false }) ∧
    (s.size ≠ 0 → s.cols = none → ∃ s', execMoves h s {} = .crash s' ∧ s'.crashed = true) ∧
    (s.size ≠ 0 → ∀ cs, s.cols = some cs →
      execMoves h s {} = .cont { s with flushPlanned := false, cols := some (acquire s.plan), size := 0, pending := [] }
                               ⟨some (some cs), some s.pending, some s.size⟩) := by
  rw [execMoves_filter]
  unfold mainHold at hm
  generalize h.filter Move.effective = f at hm
  match f, hm with
  | .renew :: .checkEmpty :: rest, hm =>
    simp only [Bool.and_eq_true, beq_iff_eq, List.contains_eq_mem, decide_eq_true_eq] at hm
    obtain ⟨⟨⟨hl, h1⟩, h2⟩, h3⟩ := hm
    match rest, hl with
    | [a, b, c], _ =>
      refine ⟨?_, ?_, ?_⟩
      · intro hz; simp [execMoves, hz]
      · intro hz hc
        simp only [execMoves, hz, if_false]
        cases a <;> cases b <;> cases c <;> simp_all [execMoves]
      · intro hz cs hc
        simp only [execMoves, hz, if_false]
        cases a <;> cases b <;> cases c <;> simp_all [execMoves]

/-! ### the shape of an atomic program -/

/-- `prog` is inert holds, then the hold that swaps at index `n`, then inert holds -/
structure ShapeAt (prog : List (List Move)) (n : Nat) : Prop where
  len : n < prog.length
  at_pre : ∀ k, k < n → ∃ h, prog[k]? = some h ∧ inertHold h = true
  at_main : ∃ main, prog[n]? = some main ∧ mainHold main = true
  at_post : ∀ k, n < k → k < prog.length → ∃ h, prog[k]? = some h ∧ inertHold h = true

theorem shapeAt_append (pre : List (List Move)) (main : List Move) (post : List (List Move))
    (hpre : ∀ h ∈ pre, inertHold h = true) (hmain : mainHold main = true) (hpost : ∀ h ∈ post, inertHold h = true) :
    ShapeAt (pre ++ main :: post) pre.length := by
  refine ⟨by simp, ?_, ⟨main, by simp, hmain⟩, ?_⟩
  · intro k hk
    exact ⟨pre[k], by rw [List.getElem?_append_left hk, List.getElem?_eq_getElem hk], hpre _ (List.getElem_mem hk)⟩
  · intro k h1 h2
    simp only [List.length_append, List.length_cons] at h2
    obtain ⟨j, hj⟩ : ∃ j, k - pre.length = j + 1 := ⟨k - pre.length - 1, by omega⟩
    have hk : j < post.length := by omega
    refine ⟨post[j], ?_, hpost _ (List.getElem_mem hk)⟩
    rw [List.getElem?_append_right (by omega), hj, List.getElem?_cons_succ, List.getElem?_eq_getElem hk]

abbrev Shape (prog : List (List Move)) : Prop := ShapeAt prog (mainIdx prog)

theorem shape_of_atomic (prog : List (List Move)) (h : atomicProg prog = true) : Shape prog := by
  unfold atomicProg at h
  cases hd : prog.dropWhile inertHold with
  | nil => simp [hd] at h
  | cons main post =>
    simp only [hd, Bool.and_eq_true, List.all_eq_true] at h
    have hpre : ∀ x ∈ prog.takeWhile inertHold, inertHold x = true := by
      have := List.all_takeWhile (l := prog) (p := inertHold)
      rw [List.all_eq_true] at this
      exact this
    have key := shapeAt_append (prog.takeWhile inertHold) main post hpre h.1 h.2
    have heq : prog.takeWhile inertHold ++ main :: post = prog := by
      rw [← hd]; exact List.takeWhile_append_dropWhile
    rw [heq] at key
    exact key

/-! ### requests and triggers do not look at the portion in flight -/

theorem stepRequest_inflight (s : Svc) (r : Req) (q : Option Portion) :
    stepRequest { s with inflight := q } r = ({ (stepRequest s r).1 with inflight := q }, (stepRequest s r).2) := by
  unfold stepRequest
  cases hr : s.running with
  | false => simp [hr]
  | true =>
    simp only [hr, Bool.not_true, Bool.false_eq_true, if_false]
    cases processRequest s.plan r s.cols with
    | error f => rfl
    | ok res => by_cases hz : (res.err || res.inserted == 0) = true <;> simp [hz]

theorem stepRequest_keeps (s : Svc) (r : Req) :
    (stepRequest s r).1.inflight = s.inflight ∧ (stepRequest s r).1.running = s.running ∧
    (stepRequest s r).1.client = s.client ∧ (s.flushPlanned = true → (stepRequest s r).1.flushPlanned = true) := by
  rcases stepRequest_cases s r with ⟨_, he⟩ | ⟨_, f, _, he⟩ | ⟨_, res, _, _, he⟩ | ⟨_, res, _, _, he⟩ <;>
    rw [he] <;> simp_all

theorem swapEnabled_request (s : Svc) (r : Req) (h : swapEnabled s = true) : swapEnabled (stepRequest s r).1 = true := by
  obtain ⟨h1, h2, h3, h4⟩ := stepRequest_keeps s r
  simp only [swapEnabled, Bool.and_eq_true] at h ⊢
  rw [h1, h2, h3]
  exact ⟨⟨⟨h.1.1.1, h4 h.1.1.2⟩, h.1.2⟩, h.2⟩

/-! ### the simulation -/

/-- micro state `m` stands for atomic state `a` -/
inductive Rel (prog : List (List Move)) : MSvc → Svc → Prop
  /-- outside `swapBuffers` -/
  | idle (s : Svc) : Rel prog ⟨s, none, {}⟩ s
  /-- inside, before the hold that swaps: nothing has happened yet, and the guard of the swap still holds -/
  | pre (s : Svc) (k : Nat) (h0 : 0 < k) (hk : k ≤ mainIdx prog) (hen : swapEnabled s = true) : Rel prog ⟨s, some k, {}⟩ s
  /-- inside, after it: the atomic machine already has the portion in flight, the micro one carries it in locals -/
  | post (s : Svc) (k : Nat) (cs : Columns) (w : List ReqId) (z : Nat) (h1 : mainIdx prog < k) (h2 : k < prog.length)
      (hinf : s.inflight = none) :
      Rel prog ⟨s, some k, ⟨some (some cs), some w, some z⟩⟩ { s with inflight := some ⟨cs, w, z⟩ }
  /-- both crashed: nothing happens any more on either side -/
  | dead (m : MSvc) (a : Svc) (hm : m.s.crashed = true) (ha : a.crashed = true) : Rel prog m a

theorem run_single (a : Svc) (op : Op) : run a [op] = step a op := by
  simp [run]

theorem run_nil (a : Svc) : run a [] = (a, []) := rfl

theorem step_of_crashed (a : Svc) (op : Op) (h : a.crashed = true) : step a op = (a, []) := by simp [step, h]

theorem run_of_crashed (a : Svc) (ops : List Op) (h : a.crashed = true) : run a ops = (a, []) := by
  induction ops with
  | nil => rfl
  | cons op ops ih => simp [run, step_of_crashed a op h, ih]

/-- taking the hold that swaps, from a state where the guard holds, is `stepSwap` -/
theorem main_hold_refines {prog} (sh : Shape prog) (main : List Move) (hm : mainHold main = true) (s : Svc)
    (hc : s.crashed = false) (hen : swapEnabled s = true) :
    (afterHold prog (mainIdx prog) (execMoves main s {})).2 = (step s .swap).2 ∧
    Rel prog (afterHold prog (mainIdx prog) (execMoves main s {})).1 (step s .swap).1 := by
  have hstep : step s .swap = stepSwap s := by simp [step, hc]
  have hen' : (s.running && s.flushPlanned && s.client && s.inflight.isNone) = true := hen
  obtain ⟨e1, e2, e3⟩ := execMoves_main main hm s
  rw [hstep]
  unfold stepSwap
  simp only [hen', if_true]
  by_cases hz : s.size = 0
  · rw [e1 hz]; simp only [hz, if_true, afterHold]
    exact ⟨trivial, Rel.idle _⟩
  · simp only [hz, if_false]
    cases hcols : s.cols with
    | none =>
      obtain ⟨s', hs', hcr⟩ := e2 hz hcols
      rw [hs']
      simp only [afterHold]
      exact ⟨trivial, Rel.dead _ _ hcr rfl⟩
    | some cs =>
      rw [e3 hz cs hcols]
      have hinf : s.inflight = none := by
        simp only [Bool.and_eq_true, Option.isNone_iff_eq_none] at hen'
        exact hen'.2
      by_cases hlen : mainIdx prog + 1 < prog.length
      · simp only [afterHold, hlen, if_true]
        refine ⟨trivial, ?_⟩
        exact Rel.post (prog := prog) { s with flushPlanned := false, cols := some (acquire s.plan), size := 0, pending := [] }
          (mainIdx prog + 1) cs s.pending s.size (by omega) hlen hinf
      · simp only [afterHold, hlen, if_false, finish, Option.getD_some]
        exact ⟨trivial, Rel.idle _⟩

theorem mstep_idle {prog : List (List Move)} (sh : Shape prog) (s : Svc) (hcr : s.crashed = false) (op : MOp) :
    (mstep prog ⟨s, none, {}⟩ op).2 = (run s (absStep prog ⟨s, none, {}⟩ op)).2 ∧
    Rel prog (mstep prog ⟨s, none, {}⟩ op).1 (run s (absStep prog ⟨s, none, {}⟩ op)).1 := by
  cases op with
  | request r =>
    simp only [mstep, absStep, hcr, run_single, step_request s r hcr, Bool.false_eq_true, if_false]
    exact ⟨trivial, Rel.idle _⟩
  | trigger k =>
    simp only [mstep, absStep, hcr, run_single, step_trigger s k hcr, Bool.false_eq_true, if_false]
    exact ⟨trivial, Rel.idle _⟩
  | connect ok =>
    simp only [mstep, absStep, hcr, run_single, step_connect s ok hcr, Bool.false_eq_true, if_false, Option.isNone_none, if_true]
    exact ⟨trivial, Rel.idle _⟩
  | doResult o =>
    simp only [mstep, absStep, hcr, run_single, step_doResult s o hcr, Bool.false_eq_true, if_false, Option.isNone_none, if_true]
    exact ⟨trivial, Rel.idle _⟩
  | ping ok =>
    simp only [mstep, absStep, hcr, run_single, step_ping s ok hcr, Bool.false_eq_true, if_false, Option.isNone_none, if_true]
    exact ⟨trivial, Rel.idle _⟩
  | stop =>
    simp only [mstep, absStep, hcr, run_single, step_stop s hcr, Bool.false_eq_true, if_false, Option.isNone_none, if_true]
    exact ⟨trivial, Rel.idle _⟩
  | hold =>
    simp only [mstep, absStep, hcr, Bool.false_eq_true, if_false, mstepHold, Option.isNone_none, Bool.true_and,
      Option.getD_none]
    by_cases hen : swapEnabled s = true
    · simp only [hen, Bool.not_true, Bool.false_eq_true, if_false]
      by_cases h0 : 0 = mainIdx prog
      · simp only [h0, if_true, run_single]
        obtain ⟨main, hmain, hm⟩ := sh.at_main
        rw [hmain]
        exact main_hold_refines sh main hm s hcr hen
      · simp only [h0, if_false, run_nil]
        obtain ⟨h, hh, hi⟩ := sh.at_pre 0 (by omega)
        rw [hh]
        simp only [execMoves_inert h s {} hi, afterHold]
        have : 0 + 1 < prog.length := by have := sh.len; omega
        simp only [this, if_true]
        exact ⟨trivial, Rel.pre s 1 (by omega) (by omega) hen⟩
    · have hen' : swapEnabled s = false := by simpa using hen
      simp only [hen', Bool.not_false, if_true, run_nil]
      exact ⟨trivial, Rel.idle _⟩

theorem mstep_pre {prog : List (List Move)} (sh : Shape prog) (s : Svc) (k : Nat) (h0 : 0 < k) (hk : k ≤ mainIdx prog)
    (hen : swapEnabled s = true) (hcr : s.crashed = false) (op : MOp) :
    (mstep prog ⟨s, some k, {}⟩ op).2 = (run s (absStep prog ⟨s, some k, {}⟩ op)).2 ∧
    Rel prog (mstep prog ⟨s, some k, {}⟩ op).1 (run s (absStep prog ⟨s, some k, {}⟩ op)).1 := by
  cases op with
  | request r =>
    simp only [mstep, absStep, hcr, run_single, step_request s r hcr, Bool.false_eq_true, if_false]
    exact ⟨trivial, Rel.pre _ k h0 hk (swapEnabled_request s r hen)⟩
  | trigger t =>
    simp only [mstep, absStep, hcr, run_single, step_trigger s t hcr, Bool.false_eq_true, if_false]
    refine ⟨trivial, Rel.pre _ k h0 hk ?_⟩
    simp only [swapEnabled, Bool.and_eq_true] at hen ⊢
    simp [hen.1.1.1, hen.1.2, hen.2]
  | connect ok => simp only [mstep, absStep, hcr, Bool.false_eq_true, if_false, Option.isNone_some, run_nil]; exact ⟨trivial, Rel.pre s k h0 hk hen⟩
  | doResult o => simp only [mstep, absStep, hcr, Bool.false_eq_true, if_false, Option.isNone_some, run_nil]; exact ⟨trivial, Rel.pre s k h0 hk hen⟩
  | ping ok => simp only [mstep, absStep, hcr, Bool.false_eq_true, if_false, Option.isNone_some, run_nil]; exact ⟨trivial, Rel.pre s k h0 hk hen⟩
  | stop => simp only [mstep, absStep, hcr, Bool.false_eq_true, if_false, Option.isNone_some, run_nil]; exact ⟨trivial, Rel.pre s k h0 hk hen⟩
  | hold =>
    simp only [mstep, absStep, hcr, Bool.false_eq_true, if_false, mstepHold, Option.isNone_some, Bool.false_and,
      Option.getD_some]
    by_cases hkm : k = mainIdx prog
    · simp only [hkm, if_true, run_single]
      obtain ⟨main, hmain, hm⟩ := sh.at_main
      rw [hmain]
      exact main_hold_refines sh main hm s hcr hen
    · simp only [hkm, if_false, run_nil]
      obtain ⟨h, hh, hi⟩ := sh.at_pre k (by omega)
      rw [hh]
      simp only [execMoves_inert h s {} hi, afterHold]
      have : k + 1 < prog.length := by have := sh.len; omega
      simp only [this, if_true]
      exact ⟨trivial, Rel.pre s (k + 1) (by omega) (by omega) hen⟩

theorem mstep_post {prog : List (List Move)} (sh : Shape prog) (s : Svc) (k : Nat) (cs : Columns) (w : List ReqId) (z : Nat)
    (h1 : mainIdx prog < k) (h2 : k < prog.length) (hinf : s.inflight = none) (hcr : s.crashed = false) (op : MOp)
    (a : Svc) (ha : a = { s with inflight := some ⟨cs, w, z⟩ }) :
    (mstep prog ⟨s, some k, ⟨some (some cs), some w, some z⟩⟩ op).2 =
      (run a (absStep prog ⟨s, some k, ⟨some (some cs), some w, some z⟩⟩ op)).2 ∧
    Rel prog (mstep prog ⟨s, some k, ⟨some (some cs), some w, some z⟩⟩ op).1
      (run a (absStep prog ⟨s, some k, ⟨some (some cs), some w, some z⟩⟩ op)).1 := by
  have hacr : a.crashed = false := by rw [ha]; exact hcr
  have hpost : ∀ s' : Svc, s'.inflight = none → ∀ k', mainIdx prog < k' → k' < prog.length →
      Rel prog ⟨s', some k', ⟨some (some cs), some w, some z⟩⟩ { s' with inflight := some ⟨cs, w, z⟩ } :=
    fun s' hi k' hk1 hk2 => Rel.post s' k' cs w z hk1 hk2 hi
  cases op with
  | request r =>
    simp only [mstep, absStep, hcr, run_single, step_request a r hacr, Bool.false_eq_true, if_false]
    rw [ha, stepRequest_inflight s r (some ⟨cs, w, z⟩)]
    exact ⟨rfl, hpost _ (by rw [(stepRequest_keeps s r).1]; exact hinf) k h1 h2⟩
  | trigger t =>
    simp only [mstep, absStep, hcr, run_single, step_trigger a t hacr, Bool.false_eq_true, if_false]
    rw [ha]
    refine ⟨trivial, ?_⟩
    have := hpost { s with flushPlanned := true } hinf k h1 h2
    simp only [hcr] at this ⊢
    exact this
  | connect ok => simp only [mstep, absStep, hcr, Bool.false_eq_true, if_false, Option.isNone_some, run_nil]; exact ⟨trivial, ha ▸ hpost s hinf k h1 h2⟩
  | doResult o => simp only [mstep, absStep, hcr, Bool.false_eq_true, if_false, Option.isNone_some, run_nil]; exact ⟨trivial, ha ▸ hpost s hinf k h1 h2⟩
  | ping ok => simp only [mstep, absStep, hcr, Bool.false_eq_true, if_false, Option.isNone_some, run_nil]; exact ⟨trivial, ha ▸ hpost s hinf k h1 h2⟩
  | stop => simp only [mstep, absStep, hcr, Bool.false_eq_true, if_false, Option.isNone_some, run_nil]; exact ⟨trivial, ha ▸ hpost s hinf k h1 h2⟩
  | hold =>
    simp only [mstep, absStep, hcr, Bool.false_eq_true, if_false, mstepHold, Option.isNone_some, Bool.false_and,
      Option.getD_some]
    have hkm : ¬ k = mainIdx prog := by omega
    simp only [hkm, if_false, run_nil]
    obtain ⟨h, hh, hi⟩ := sh.at_post k h1 h2
    rw [hh]
    simp only [execMoves_inert h s _ hi, afterHold]
    by_cases hlen : k + 1 < prog.length
    · simp only [hlen, if_true]
      exact ⟨trivial, ha ▸ hpost s hinf (k + 1) (by omega) hlen⟩
    · simp only [hlen, if_false, finish, Option.getD_some]
      rw [ha]
      exact ⟨trivial, Rel.idle _⟩

/-- **one micro step = the atomic ops it stands for** (events equal, states related) -/
theorem mstep_refines {prog : List (List Move)} (sh : Shape prog) (m : MSvc) (a : Svc) (hR : Rel prog m a) (op : MOp) :
    (mstep prog m op).2 = (run a (absStep prog m op)).2 ∧ Rel prog (mstep prog m op).1 (run a (absStep prog m op)).1 := by
  by_cases hcr : m.s.crashed = true
  · simp only [mstep, absStep, hcr, if_true, run_nil]
    exact ⟨trivial, hR⟩
  have hcr' : m.s.crashed = false := by simpa using hcr
  cases hR
  case dead hm _ => exact absurd hm hcr
  case idle => exact mstep_idle sh _ hcr' op
  case pre k h0 hk hen => exact mstep_pre sh _ k h0 hk hen hcr' op
  case post s k cs w z h1 h2 hinf => exact mstep_post sh s k cs w z h1 h2 hinf hcr' op _ rfl

theorem run_append' (s : Svc) (a b : List Op) :
    run s (a ++ b) = ((run (run s a).1 b).1, (run s a).2 ++ (run (run s a).1 b).2) := by
  induction a generalizing s with
  | nil => simp [run]
  | cons op a ih => simp [run, ih, List.append_assoc]

/-- **mrun_refines.** For a program whose swap sits in ONE hold, every micro run — any interleaving of requests
    and triggers with the holds of any number of flushes — has exactly the events of the atomic run `absRun` of
    the same requests, triggers, connects, `Do` results, pings and stops, and ends in a related state. -/
theorem mrun_refines {prog : List (List Move)} (sh : Shape prog) (ops : List MOp) (m : MSvc) (a : Svc)
    (hR : Rel prog m a) :
    (mrun prog m ops).2 = (run a (absRun prog m ops)).2 ∧ Rel prog (mrun prog m ops).1 (run a (absRun prog m ops)).1 := by
  induction ops generalizing m a with
  | nil => exact ⟨rfl, hR⟩
  | cons op ops ih =>
    simp only [mrun, absRun, run_append']
    obtain ⟨h1, h2⟩ := mstep_refines sh m a hR op
    obtain ⟨h3, h4⟩ := ih _ _ h2
    exact ⟨by rw [h1, h3], h4⟩

/-! ### what the abstraction keeps -/

theorem absStep_requests (prog : List (List Move)) (m : MSvc) (op : MOp) :
    ∀ o ∈ absStep prog m op, (∃ r, o = .request r ∧ op = .request r) ∨ (∀ r, o ≠ .request r) := by
  intro o ho
  unfold absStep at ho
  split at ho
  · simp at ho
  · cases op <;> simp only at ho
    case request r => simp at ho; exact Or.inl ⟨r, ho, rfl⟩
    case trigger k => simp at ho; subst ho; exact Or.inr (fun r => by simp)
    case hold =>
      split at ho
      · simp at ho
      · split at ho
        · simp at ho; subst ho; exact Or.inr (fun r => by simp)
        · simp at ho
    all_goals
      split at ho
      · simp at ho; subst ho; exact Or.inr (fun r => by simp)
      · simp at ho

theorem absRun_mem (prog : List (List Move)) (ops : List MOp) (m : MSvc) :
    ∀ o ∈ absRun prog m ops, (∃ r, o = .request r ∧ MOp.request r ∈ ops) ∨ (∀ r, o ≠ .request r) := by
  induction ops generalizing m with
  | nil => intro o ho; simp [absRun] at ho
  | cons op ops ih =>
    intro o ho
    simp only [absRun, List.mem_append] at ho
    rcases ho with ho | ho
    · rcases absStep_requests prog m op o ho with ⟨r, h1, h2⟩ | h
      · exact Or.inl ⟨r, h1, by simp [h2]⟩
      · exact Or.inr h
    · rcases ih _ o ho with ⟨r, h1, h2⟩ | h
      · exact Or.inl ⟨r, h1, List.mem_cons_of_mem _ h2⟩
      · exact Or.inr h

theorem absRun_wellFormed {prog} {R : ReqId → Req} (ops : List MOp) (m : MSvc) (hW : ∀ op ∈ ops, MWellFormed R op) :
    ∀ o ∈ absRun prog m ops, WellFormed R o := by
  intro o ho
  rcases absRun_mem prog ops m o ho with ⟨r, rfl, hr⟩ | h
  · exact hW _ hr
  · cases o with
    | request r => exact absurd rfl (h r)
    | _ => trivial

/-- `GoodOp` on the micro side -/
def MGoodOp (p : Plan) (R : ReqId → Req) : MOp → Prop
  | .request r => r = R r.id ∧ GoodReq p r
  | _ => True

theorem absRun_good {prog} {p : Plan} {R : ReqId → Req} (ops : List MOp) (m : MSvc) (hG : ∀ op ∈ ops, MGoodOp p R op) :
    ∀ o ∈ absRun prog m ops, GoodOp p R o := by
  intro o ho
  rcases absRun_mem prog ops m o ho with ⟨r, rfl, hr⟩ | h
  · exact hG _ hr
  · cases o with
    | request r => exact absurd rfl (h r)
    | _ => trivial

end Qryn.Ingest.BatcherLocks
