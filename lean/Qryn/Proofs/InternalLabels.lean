import Qryn.Read.Getter
import Qryn.Proofs.InternalParams
/-! Label maps as sorted association lists: `Labels.set` keeps the keys strictly increasing, two such lists with the same
    lookups are the same list; a ClickHouse `Map` scanned into a Go map (`canonLabels`); `mapUpdate`, `mapFilter` on the
    scanned form. Core only. -/
namespace Qryn.Read
open Qryn Qryn.Sql Qryn.LogQL

/-- keys strictly increasing -/
def KeysSorted (l : Labels) : Prop := l.Pairwise (fun a b => a.1 < b.1)

theorem lookup_set (l : Labels) (k k2 x : Bytes) :
    (l.set k x).lookup k2 = if k2 = k then some x else l.lookup k2 := by
  induction l with
  | nil =>
    by_cases h : k2 = k
    · simp [Labels.set, List.lookup, h]
    · have : (k2 == k) = false := by simpa using h
      simp [Labels.set, List.lookup, h, this]
  | cons p rest ih =>
    obtain ⟨k', v'⟩ := p
    simp only [Labels.set]
    by_cases h1 : k' = k
    · subst h1
      by_cases h : k2 = k'
      · simp [List.lookup, h]
      · have : (k2 == k') = false := by simpa using h
        simp [List.lookup, h, this]
    · by_cases h2 : k < k'
      · by_cases h : k2 = k
        · simp [h1, h2, List.lookup, h]
        · have : (k2 == k) = false := by simpa using h
          simp [h1, h2, List.lookup, h, this]
      · simp only [h1, h2, if_false, List.lookup]
        cases hk : k2 == k' with
        | true =>
          have e : k2 = k' := by simpa using hk
          have : ¬ k2 = k := fun e' => h1 (e ▸ e')
          simp [this]
        | false => exact ih

theorem mem_set (l : Labels) (k x : Bytes) (p : Bytes × Bytes) (hp : p ∈ l.set k x) : p = (k, x) ∨ p ∈ l := by
  induction l with
  | nil => simp only [Labels.set, List.mem_singleton] at hp; exact Or.inl hp
  | cons q rest ih =>
    obtain ⟨k', v'⟩ := q
    simp only [Labels.set] at hp
    by_cases h1 : k' = k
    · simp only [h1, if_true, List.mem_cons] at hp
      rcases hp with h | h
      · exact Or.inl h
      · exact Or.inr (List.mem_cons_of_mem _ h)
    · by_cases h2 : k < k'
      · simp only [h1, h2, if_true, if_false, List.mem_cons] at hp
        rcases hp with h | h | h
        · exact Or.inl h
        · exact Or.inr (by rw [h]; exact List.mem_cons_self)
        · exact Or.inr (List.mem_cons_of_mem _ h)
      · simp only [h1, h2, if_false, List.mem_cons] at hp
        rcases hp with h | h
        · exact Or.inr (by rw [h]; exact List.mem_cons_self)
        · rcases ih h with h' | h'
          · exact Or.inl h'
          · exact Or.inr (List.mem_cons_of_mem _ h')

theorem set_sorted (l : Labels) (k x : Bytes) (hs : KeysSorted l) : KeysSorted (l.set k x) := by
  induction l with
  | nil => simp [Labels.set, KeysSorted]
  | cons q rest ih =>
    obtain ⟨k', v'⟩ := q
    have hs' := List.pairwise_cons.mp hs
    simp only [Labels.set]
    by_cases h1 : k' = k
    · subst h1
      simp only [if_true]
      exact List.pairwise_cons.mpr ⟨fun b hb => hs'.1 b hb, hs'.2⟩
    · by_cases h2 : k < k'
      · simp only [h1, h2, if_true, if_false]
        refine List.pairwise_cons.mpr ⟨?_, hs⟩
        intro b hb
        rcases List.mem_cons.mp hb with h | h
        · rw [h]; exact h2
        · exact List.lt_trans h2 (hs'.1 b h)
      · simp only [h1, h2, if_false]
        refine List.pairwise_cons.mpr ⟨?_, ih hs'.2⟩
        intro b hb
        rcases mem_set rest k x b hb with h | h
        · rw [h]
          exact bytes_lt_total k k' (fun e => h1 e.symm) h2
        · exact hs'.1 b h

theorem lookup_none_of_lt (l : Labels) (k : Bytes) (h : ∀ p ∈ l, k < p.1) : l.lookup k = none := by
  induction l with
  | nil => rfl
  | cons q rest ih =>
    have hq := h q List.mem_cons_self
    have : (k == q.1) = false := by
      have : k ≠ q.1 := fun e => by rw [e] at hq; exact List.lt_irrefl _ hq
      simpa using this
    obtain ⟨k', v'⟩ := q
    simp only [List.lookup, this]
    exact ih (fun p hp => h p (List.mem_cons_of_mem _ hp))

/-- two label maps with strictly increasing keys and the same lookups are the same list -/
theorem sorted_ext (a b : Labels) (ha : KeysSorted a) (hb : KeysSorted b) (h : ∀ k, a.lookup k = b.lookup k) : a = b := by
  induction a generalizing b with
  | nil =>
    cases b with
    | nil => rfl
    | cons q bs =>
      have := h q.1
      simp [List.lookup] at this
  | cons p as ih =>
    obtain ⟨k, v⟩ := p
    have ha' := List.pairwise_cons.mp ha
    cases b with
    | nil =>
      have := h k
      simp [List.lookup] at this
    | cons q bs =>
      obtain ⟨k', v'⟩ := q
      have hb' := List.pairwise_cons.mp hb
      have hkk : k = k' := by
        apply Classical.byContradiction
        intro hne
        by_cases hlt : k < k'
        · have h1 := h k
          have hne' : (k == k') = false := by simpa using hne
          simp only [List.lookup, beq_self_eq_true, hne'] at h1
          rw [lookup_none_of_lt bs k (fun p hp => List.lt_trans hlt (hb'.1 p hp))] at h1
          cases h1
        · have hgt : k' < k := bytes_lt_total k k' hne hlt
          have h1 := h k'
          have hne' : (k' == k) = false := by simpa using fun e : k' = k => hne e.symm
          simp only [List.lookup, beq_self_eq_true, hne'] at h1
          rw [lookup_none_of_lt as k' (fun p hp => List.lt_trans hgt (ha'.1 p hp))] at h1
          cases h1
      subst hkk
      have hv : v = v' := by
        have h1 := h k
        simp only [List.lookup, beq_self_eq_true] at h1
        exact Option.some.inj h1
      subst hv
      congr 1
      apply ih bs ha'.2 hb'.2
      intro k2
      by_cases h2 : k2 = k
      · subst h2
        rw [lookup_none_of_lt as k2 ha'.1, lookup_none_of_lt bs k2 hb'.1]
      · have h1 := h k2
        have : (k2 == k) = false := by simpa using h2
        simpa only [List.lookup, this] using h1

/-! ### a ClickHouse Map scanned into a Go map -/
/-- the value a key ends with when the pairs are assigned in order -/
def lookupLast : List (Bytes × Bytes) → Bytes → Option Bytes
  | [], _ => none
  | p :: rest, k =>
    match lookupLast rest k with
    | some x => some x
    | none => if p.1 = k then some p.2 else none

theorem foldl_set_sorted (m : List (Bytes × Bytes)) (acc : Labels) (hs : KeysSorted acc) :
    KeysSorted (m.foldl (fun acc kv => acc.set kv.1 kv.2) acc) := by
  induction m generalizing acc with
  | nil => exact hs
  | cons p rest ih => exact ih _ (set_sorted acc p.1 p.2 hs)

theorem lookup_foldl_set (m : List (Bytes × Bytes)) (acc : Labels) (k : Bytes) :
    (m.foldl (fun acc kv => acc.set kv.1 kv.2) acc).lookup k =
      (match lookupLast m k with | some x => some x | none => acc.lookup k) := by
  induction m generalizing acc with
  | nil => rfl
  | cons p rest ih =>
    simp only [List.foldl_cons, ih, lookupLast, lookup_set]
    cases lookupLast rest k with
    | some x => rfl
    | none =>
      by_cases h : p.1 = k
      · simp [h]
      · have : ¬ k = p.1 := fun e => h e.symm
        simp [h, this]

theorem canon_sorted (m : List (Bytes × Bytes)) : KeysSorted (canonLabels m) :=
  foldl_set_sorted m [] (by simp [KeysSorted])

theorem lookup_canon (m : List (Bytes × Bytes)) (k : Bytes) : (canonLabels m).lookup k = lookupLast m k := by
  simp only [canonLabels, lookup_foldl_set, List.lookup]
  cases lookupLast m k <;> rfl

/-- scanning again changes nothing -/
theorem canon_of_sorted (l : Labels) (hs : KeysSorted l) : canonLabels l = l := by
  apply sorted_ext _ _ (canon_sorted l) hs
  intro k
  rw [lookup_canon]
  induction l with
  | nil => rfl
  | cons p rest ih =>
    have hs' := List.pairwise_cons.mp hs
    simp only [lookupLast, ih hs'.2]
    obtain ⟨k', v'⟩ := p
    by_cases h : k' = k
    · subst h
      rw [lookup_none_of_lt rest k' hs'.1]
      simp [List.lookup]
    · have : (k == k') = false := by simpa using fun e : k = k' => h e.symm
      simp only [h, if_false, List.lookup, this]
      cases rest.lookup k <;> rfl

theorem lookupLast_append (a b : List (Bytes × Bytes)) (k : Bytes) :
    lookupLast (a ++ b) k = match lookupLast b k with | some x => some x | none => lookupLast a k := by
  induction a with
  | nil => simp only [List.nil_append, lookupLast]; cases lookupLast b k <;> rfl
  | cons p rest ih =>
    simp only [List.cons_append, lookupLast, ih]
    cases lookupLast b k <;> rfl

theorem lookupLast_none_iff (m : List (Bytes × Bytes)) (k : Bytes) : lookupLast m k = none ↔ ∀ p ∈ m, p.1 ≠ k := by
  induction m with
  | nil => simp [lookupLast]
  | cons p rest ih =>
    simp only [lookupLast, List.mem_cons, forall_eq_or_imp]
    cases hl : lookupLast rest k with
    | some x =>
      simp only [reduceCtorEq, false_iff, not_and]
      intro _ hall
      have := ih.mpr hall
      rw [hl] at this
      cases this
    | none =>
      have := ih.mp hl
      by_cases h : p.1 = k
      · simp [h]
      · simp only [h, if_false, ne_eq, not_false_eq_true, true_and, true_iff]
        exact this

theorem lookupLast_filter (m : List (Bytes × Bytes)) (f : Bytes × Bytes → Bool) (k : Bytes) :
    lookupLast (m.filter f) k = lookupLast (m.filter (fun p => f p && p.1 == k)) k := by
  induction m with
  | nil => rfl
  | cons p rest ih =>
    simp only [List.filter_cons]
    by_cases hf : f p = true
    · by_cases hk : p.1 = k
      · simp [hf, hk, lookupLast, ih]
      · have : (p.1 == k) = false := by simpa using hk
        simp only [hf, this, if_true, Bool.and_false, Bool.false_eq_true, if_false, lookupLast, ih, hk]
        cases lookupLast (rest.filter (fun p => f p && p.1 == k)) k <;> rfl
    · simp [hf, ih]

end Qryn.Read
