import Qryn.Proofs.PprofStacks2
/-! On a payload whose references resolve (what pprof's `CheckValid` demands and the writer stores), `sanitizeProfile`
    drops no sample: the input side of `merge_conserves_values` is then the plain sum of the payload's values. -/
namespace Qryn.Prof.Pprof
open Qryn.Prof

/-- every sample has one value per sample type and names locations of the payload; every location names a mapping of
    the payload (or none) and functions of the payload -/
structure WellFormed (p : PProfile) : Prop where
  vals : ∀ s ∈ p.samples, s.vals.length = p.sampleTypes.length
  locs : ∀ s ∈ p.samples, ∀ x ∈ s.locs, ∃ l ∈ p.locations, l.id = x
  mapping : ∀ l ∈ p.locations, l.mapping = 0 ∨ ∃ m ∈ p.mappings, m.id = l.mapping
  fns : ∀ l ∈ p.locations, ∀ ln ∈ l.lines, ∃ f ∈ p.functions, f.id = ln.fn

theorem renumber_get_mem {α : Type} (getId : α → Nat) (setId : α → Nat → α) : ∀ (xs : List α) (j : Nat) (t : IdMap),
    1 ≤ j → ∀ x ∈ xs, (renumber getId setId xs j t).2.get (getId x) ≠ 0 := by
  intro xs
  induction xs with
  | nil => intro j t _ x hx; simp at hx
  | cons y ys ih =>
    intro j t hj x hx
    simp only [renumber]
    rcases List.mem_cons.mp hx with rfl | hx
    · rcases (renumber_spec getId setId ys (j + 1) (t.set (getId x) j)).2.2 (getId x) with h | h
      · rw [h]
        simp only [IdMap.set, IdMap.get, List.find?_cons, beq_self_eq_true]
        omega
      · omega
    · exact ih (j + 1) _ (by omega) x hx

theorem locPass1_keeps (t : IdMap) (synth : Nat) : ∀ (ls : List PLocation), ∀ l ∈ ls,
    (l.mapping = 0 ∨ t.get l.mapping ≠ 0) → ∃ y ∈ (locPass1 t synth ls).1, y.id = l.id ∧ y.lines = l.lines := by
  intro ls
  induction ls with
  | nil => intro l hl; simp at hl
  | cons x xs ih =>
    intro l hl hok
    simp only [locPass1]
    rcases List.mem_cons.mp hl with rfl | hl
    · rcases hok with h0 | hne
      · rw [if_pos h0]; exact ⟨{ l with mapping := synth }, by simp, rfl, rfl⟩
      · by_cases h0 : l.mapping = 0
        · rw [if_pos h0]; exact ⟨{ l with mapping := synth }, by simp, rfl, rfl⟩
        · rw [if_neg h0, if_neg hne]; exact ⟨{ l with mapping := t.get l.mapping }, by simp, rfl, rfl⟩
    · obtain ⟨y, hy, h1, h2⟩ := ih l hl hok
      split
      · exact ⟨y, by simp [hy], h1, h2⟩
      · split
        · exact ⟨y, hy, h1, h2⟩
        · exact ⟨y, by simp [hy], h1, h2⟩

theorem locPass2_keeps (t : IdMap) (ls : List PLocation) : ∀ y ∈ ls, (∀ ln ∈ y.lines, t.get ln.fn ≠ 0) →
    ∃ z ∈ locPass2 t ls, z.id = y.id := by
  intro y hy hok
  unfold locPass2
  refine ⟨{ y with lines := y.lines.map (fun l => { l with fn := t.get l.fn }) }, ?_, rfl⟩
  apply List.mem_filterMap.mpr
  refine ⟨y, hy, ?_⟩
  rw [if_neg]
  intro hany
  simp only [List.any_eq_true, beq_iff_eq] at hany
  obtain ⟨ln, hln, e⟩ := hany
  exact hok ln hln e

/-- every location id of a well-formed payload survives `sanitizeProfile`'s renumbering -/
theorem sanLoc_get_ne (p : PProfile) (w : WellFormed p) : ∀ l ∈ p.locations, (sanLoc p).2.get l.id ≠ 0 := by
  intro l hl
  have hm : l.mapping = 0 ∨ (sanMap p).2.get l.mapping ≠ 0 := by
    rcases w.mapping l hl with h | ⟨m, hm, e⟩
    · exact Or.inl h
    · right
      unfold sanMap
      have := renumber_get_mem (·.id) (fun (m : PMapping) j => { m with id := j })
        (p.mappings.map (fun m => { m with buildId := sanStr p m.buildId, filename := sanStr p m.filename })) 1 [] (Nat.le_refl 1)
        { m with buildId := sanStr p m.buildId, filename := sanStr p m.filename } (List.mem_map.mpr ⟨m, hm, rfl⟩)
      rw [← e]; exact this
  obtain ⟨y, hy, hyid, hylines⟩ := locPass1_keeps (sanMap p).2 ((sanMap p).1.length + 1) p.locations l hl hm
  have hf : ∀ ln ∈ y.lines, (sanFun p).2.get ln.fn ≠ 0 := by
    intro ln hln
    rw [hylines] at hln
    obtain ⟨f, hf, e⟩ := w.fns l hl ln hln
    unfold sanFun
    have := renumber_get_mem (·.id) (fun (f : PFunction) j => { f with id := j })
      (p.functions.map (fun f => { f with name := sanStr p f.name, sysName := sanStr p f.sysName, filename := sanStr p f.filename })) 1 [] (Nat.le_refl 1)
      { f with name := sanStr p f.name, sysName := sanStr p f.sysName, filename := sanStr p f.filename } (List.mem_map.mpr ⟨f, hf, rfl⟩)
    rw [← e]; exact this
  obtain ⟨z, hz, hzid⟩ := locPass2_keeps (sanFun p).2 (sanLoc1 p).1 y hy hf
  unfold sanLoc
  have := renumber_get_mem (·.id) (fun (l : PLocation) j => { l with id := j }) _ 1 [] (Nat.le_refl 1) z hz
  rw [← hyid, ← hzid]; exact this

/-- `sanitizeProfile` keeps every sample of a well-formed payload, with its values -/
theorem sanitize_keeps_values (p : PProfile) (w : WellFormed p) (j : Nat) :
    valTotal (sanitize p).samples j = valTotal p.samples j := by
  show valTotal (sanSamples p) j = _
  unfold sanSamples
  have hsome : ∀ s ∈ p.samples, ∃ s', sanSample (sanStr p) (sanLoc p).2 (sanSampleTypes p).length s = some s' ∧ s'.vals = s.vals := by
    intro s hs
    unfold sanSample
    rw [if_neg (by simp [sanSampleTypes, w.vals s hs])]
    rw [if_neg]
    · exact ⟨_, rfl, rfl⟩
    · intro hany
      simp only [List.any_eq_true, beq_iff_eq] at hany
      obtain ⟨x, hx, e⟩ := hany
      obtain ⟨l, hl, rfl⟩ := w.locs s hs x hx
      exact sanLoc_get_ne p w l hl e
  generalize p.samples = ss at hsome
  induction ss with
  | nil => rfl
  | cons s ss ih =>
    obtain ⟨s', h1, h2⟩ := hsome s (by simp)
    rw [List.filterMap_cons, h1, valTotal_cons, valTotal_cons, h2, ih (fun x hx => hsome x (by simp [hx]))]

end Qryn.Prof.Pprof
