import Qryn.Proofs.ProfWriter
/-! Reader side of C16: `MergeTrie` sums rows per (parent, node), does not depend on the order of the rows,
    and (`mergeTrieCap`) its node cap is not reached below the cap. -/
namespace Qryn.Prof

abbrev rkey (a : Row) : Nat × Nat := (a.parent, a.node)

theorem mergeKeyLaws : KeyLaws rkey rkey (id : Row → Row) addRow := ⟨fun _ => rfl, fun _ _ => rfl⟩

theorem mergeTotalLaws (P : Nat × Nat → Bool) :
    ObsLaws (id : Row → Row) addRow (·.total) (·.total) (fun a => P (rkey a)) (fun b => P (rkey b)) :=
  ⟨fun _ => rfl, fun _ _ => rfl, fun _ => rfl, fun _ _ => rfl⟩

theorem mergeSelfLaws (P : Nat × Nat → Bool) :
    ObsLaws (id : Row → Row) addRow (·.self) (·.self) (fun a => P (rkey a)) (fun b => P (rkey b)) :=
  ⟨fun _ => rfl, fun _ _ => rfl, fun _ => rfl, fun _ _ => rfl⟩

theorem mergeTrie_def (T R : List Row) : mergeTrie T R = foldUpsert rkey rkey id addRow T R := rfl

theorem mergeTrie_nodup (R : List Row) : ((mergeTrie [] R).map rkey).Nodup :=
  foldUpsert_nodup mergeKeyLaws [] R (by simp)

theorem mergeTrie_keys (R : List Row) (k : Nat × Nat) : k ∈ (mergeTrie [] R).map rkey ↔ k ∈ R.map rkey := by
  have := foldUpsert_keys_mem mergeKeyLaws [] R k
  simpa [mergeTrie_def] using this

theorem mergeTrie_append (T R₁ R₂ : List Row) : mergeTrie T (R₁ ++ R₂) = mergeTrie (mergeTrie T R₁) R₂ := by
  simp [mergeTrie, foldUpsert, List.foldl_append]

theorem mergeTrie_total (R : List Row) (P : Nat × Nat → Bool) :
    fsum (mergeTrie [] R) (fun a => P (rkey a)) (·.total) = fsum R (fun a => P (rkey a)) (·.total) := by
  have := fsum_foldUpsert_key mergeKeyLaws P (mergeTotalLaws P) [] R (by simp)
  simpa [mergeTrie_def] using this

theorem mergeTrie_self (R : List Row) (P : Nat × Nat → Bool) :
    fsum (mergeTrie [] R) (fun a => P (rkey a)) (·.self) = fsum R (fun a => P (rkey a)) (·.self) := by
  have := fsum_foldUpsert_key mergeKeyLaws P (mergeSelfLaws P) [] R (by simp)
  simpa [mergeTrie_def] using this

/-- a merged entry's values are the sums over the rows with its key -/
theorem mergeTrie_entry (R : List Row) {e : Row} (he : e ∈ mergeTrie [] R) :
    e.total = fsum R (fun r => decide (rkey r = rkey e)) (·.total)
      ∧ e.self = fsum R (fun r => decide (rkey r = rkey e)) (·.self) := by
  have hnd := mergeTrie_nodup R
  constructor
  · rw [← mergeTrie_total R (fun k => decide (k = rkey e))]
    exact (fsum_key_of_mem hnd he _).symm
  · rw [← mergeTrie_self R (fun k => decide (k = rkey e))]
    exact (fsum_key_of_mem hnd he _).symm

/-- a merged entry's function id is that of some row with its key -/
theorem mergeTrie_fn (R : List Row) : ∀ e ∈ mergeTrie [] R, ∃ r ∈ R, rkey r = rkey e ∧ r.fn = e.fn := by
  suffices H : ∀ (R' : List Row) (m : List Row), (∀ a ∈ m, ∃ r ∈ R, rkey r = rkey a ∧ r.fn = a.fn) →
      (∀ r ∈ R', r ∈ R) → ∀ e ∈ foldUpsert rkey rkey id addRow m R', ∃ r ∈ R, rkey r = rkey e ∧ r.fn = e.fn from
    H R [] (by simp) (fun _ h => h)
  intro R'
  induction R' with
  | nil => intro m hm _; simpa [foldUpsert] using hm
  | cons b bs ih =>
    intro m hm hsub
    simp only [foldUpsert, List.foldl_cons]
    apply ih
    · intro a ha
      unfold upsertBy at ha
      split at ha
      · obtain ⟨a0, ha0, rfl⟩ := List.mem_map.mp ha
        obtain ⟨r, hr, h1, h2⟩ := hm a0 ha0
        refine ⟨r, hr, ?_⟩
        by_cases e : rkey a0 = rkey b
        · rw [if_pos e]; exact ⟨h1, h2⟩
        · rw [if_neg e]; exact ⟨h1, h2⟩
      · rcases List.mem_append.mp ha with ha | ha
        · exact hm a ha
        · have hab : a = b := by simpa using ha
          rw [hab]
          exact ⟨b, hsub b (by simp), rfl, rfl⟩
    · intro v hv; exact hsub v (by simp [hv])

/-- rows with the same (parent, node) name the same function (true of rows stored by the writer when node ids
    do not collide) -/
def FnConsistent (R : List Row) : Prop := ∀ r ∈ R, ∀ r' ∈ R, rkey r = rkey r' → r.fn = r'.fn

theorem Row.ext' {a b : Row} (h1 : rkey a = rkey b) (h2 : a.fn = b.fn) (h3 : a.self = b.self) (h4 : a.total = b.total) :
    a = b := by
  cases a; cases b
  simp only [rkey, Prod.mk.injEq] at h1
  simp_all

/-- membership in the merged tree, in terms of the row multiset only -/
theorem mem_mergeTrie_iff (R : List Row) (hc : FnConsistent R) (a : Row) :
    a ∈ mergeTrie [] R ↔ (∃ r ∈ R, rkey r = rkey a ∧ r.fn = a.fn)
      ∧ a.total = fsum R (fun r => decide (rkey r = rkey a)) (·.total)
      ∧ a.self = fsum R (fun r => decide (rkey r = rkey a)) (·.self) := by
  constructor
  · intro ha
    exact ⟨mergeTrie_fn R a ha, mergeTrie_entry R ha⟩
  · rintro ⟨⟨r, hr, hk, hfn⟩, ht, hs⟩
    have : rkey a ∈ (mergeTrie [] R).map rkey :=
      (mergeTrie_keys R _).mpr (List.mem_map.mpr ⟨r, hr, hk⟩)
    obtain ⟨a', ha', hk'⟩ := List.mem_map.mp this
    obtain ⟨r', hr', hk'', hfn'⟩ := mergeTrie_fn R a' ha'
    have e := mergeTrie_entry R ha'
    have : a' = a := by
      apply Row.ext' hk'
      · rw [← hfn', ← hfn]; exact hc r' hr' r hr (hk''.trans (hk'.trans hk.symm))
      · rw [e.2, hs, hk']
      · rw [e.1, ht, hk']
    exact this ▸ ha'

theorem FnConsistent.perm {R R' : List Row} (h : R.Perm R') (hc : FnConsistent R) : FnConsistent R' :=
  fun r hr r' hr' e => hc r (h.symm.subset hr) r' (h.symm.subset hr') e

/-- **order independence.** Permuting the rows (hence: the profiles, and the rows inside each profile)
    gives the same merged entries; only the order of the children lists differs. -/
theorem mergeTrie_perm {R R' : List Row} (h : R.Perm R') (hc : FnConsistent R) :
    (mergeTrie [] R).Perm (mergeTrie [] R') := by
  have nd : ∀ R : List Row, (mergeTrie [] R).Nodup := fun R =>
    (List.pairwise_map.mp (mergeTrie_nodup R)).imp (fun hne e => hne (by rw [e]))
  rw [List.perm_ext_iff_of_nodup (nd R) (nd R')]
  intro a
  rw [mem_mergeTrie_iff R hc, mem_mergeTrie_iff R' (hc.perm h)]
  rw [fsum_perm h, fsum_perm h]
  constructor
  · rintro ⟨⟨r, hr, h1⟩, h2⟩; exact ⟨⟨r, h.subset hr, h1⟩, h2⟩
  · rintro ⟨⟨r, hr, h1⟩, h2⟩; exact ⟨⟨r, h.symm.subset hr, h1⟩, h2⟩

/-! ### canonical order (what `mergeNodes` establishes for the diff view: children sorted by node id) -/

def keyLe (a b : Row) : Bool := decide (a.parent < b.parent ∨ (a.parent = b.parent ∧ a.node ≤ b.node))

/-- the merged tree with its entries sorted by (parent, node id) -/
def canonTree (T : List Row) : List Row := T.mergeSort keyLe

theorem keyLe_trans (a b c : Row) : keyLe a b = true → keyLe b c = true → keyLe a c = true := by
  simp only [keyLe, decide_eq_true_eq]; omega

theorem keyLe_total (a b : Row) : (keyLe a b || keyLe b a) = true := by
  simp only [keyLe, Bool.or_eq_true, decide_eq_true_eq]; omega

theorem canonTree_perm (T : List Row) : (canonTree T).Perm T := List.mergeSort_perm _ _

theorem canonTree_eq_of_perm {T T' : List Row} (h : T.Perm T') (hnd : (T.map rkey).Nodup) :
    canonTree T = canonTree T' := by
  have p1 := canonTree_perm T
  have p2 := canonTree_perm T'
  apply List.Perm.eq_of_pairwise (le := fun a b => keyLe a b = true)
  · intro a b ha hb hab hba
    have ha' : a ∈ T := p1.subset ha
    have hb' : b ∈ T := h.symm.subset (p2.subset hb)
    have hk : rkey a = rkey b := by
      simp only [keyLe, decide_eq_true_eq] at hab hba
      simp only [rkey, Prod.mk.injEq]; omega
    -- equal keys in a list with duplicate-free keys: the same entry
    have := List.pairwise_map.mp hnd
    by_cases e : a = b
    · exact e
    · exfalso
      have hp : T.Pairwise (fun x y => rkey x ≠ rkey y) := this
      have hsym : ∀ {x y : Row}, rkey x ≠ rkey y → rkey y ≠ rkey x := fun h e => h e.symm
      rcases List.mem_iff_append.mp ha' with ⟨s, t, rfl⟩
      rcases List.mem_append.mp hb' with hb'' | hb''
      · have := (List.pairwise_append.mp hp).2.2 b hb'' a (by simp)
        exact this hk.symm
      · rcases List.mem_cons.mp hb'' with rfl | hb'''
        · exact e rfl
        · have := (List.pairwise_append.mp hp).2.1
          exact (List.rel_of_pairwise_cons this hb''') hk
  · exact List.pairwise_mergeSort keyLe_trans keyLe_total T
  · exact List.pairwise_mergeSort keyLe_trans keyLe_total T'
  · exact p1.trans (h.trans p2.symm)

/-! ### the ClickHouse-side GROUP BY in front of `MergeTrie` is transparent -/

abbrev key3 (a : Row) : Nat × Nat × Nat := (a.parent, a.fn, a.node)

theorem groupKeyLaws : KeyLaws key3 key3 (id : Row → Row) addRow := ⟨fun _ => rfl, fun _ _ => rfl⟩

theorem key3_eq_iff (a b : Row) : key3 a = key3 b ↔ rkey a = rkey b ∧ a.fn = b.fn := by
  simp only [key3, rkey, Prod.mk.injEq]
  constructor
  · rintro ⟨h1, h2, h3⟩; exact ⟨⟨h1, h3⟩, h2⟩
  · rintro ⟨⟨h1, h3⟩, h2⟩; exact ⟨h1, h2, h3⟩

theorem sqlGroup_keys (R : List Row) (k : Nat × Nat × Nat) : k ∈ (sqlGroup R).map key3 ↔ k ∈ R.map key3 := by
  have := foldUpsert_keys_mem groupKeyLaws [] R k
  simpa [sqlGroup] using this

theorem sqlGroup_fsum (R : List Row) (P : Nat × Nat → Bool) (f : Row → Int)
    (hf : ∀ a b, f (addRow a b) = f a + f b) :
    fsum (sqlGroup R) (fun a => P (rkey a)) f = fsum R (fun a => P (rkey a)) f := by
  have := fsum_foldUpsert_key groupKeyLaws (fun k3 => P (k3.1, k3.2.2))
    (f := f) (g := f) ⟨fun _ => rfl, hf, fun _ => rfl, fun _ _ => rfl⟩ [] R (by simp)
  simpa [sqlGroup] using this

/-- grouping the rows by (parent, function, node) and summing, in whatever order the groups come back, gives
    `MergeTrie` the same tree as the ungrouped rows -/
theorem mergeTrie_sqlGroup {R G : List Row} (hc : FnConsistent R) (hG : G.Perm (sqlGroup R)) :
    (mergeTrie [] G).Perm (mergeTrie [] R) := by
  have hmem : ∀ a : Row, (∃ r ∈ sqlGroup R, rkey r = rkey a ∧ r.fn = a.fn) ↔ (∃ r ∈ R, rkey r = rkey a ∧ r.fn = a.fn) := by
    intro a
    have h := sqlGroup_keys R (key3 a)
    simp only [List.mem_map, key3_eq_iff] at h
    exact h
  have hcG : FnConsistent (sqlGroup R) := by
    intro g hg g' hg' e
    obtain ⟨r, hr, h1, h2⟩ := (hmem g).mp ⟨g, hg, rfl, rfl⟩
    obtain ⟨r', hr', h1', h2'⟩ := (hmem g').mp ⟨g', hg', rfl, rfl⟩
    rw [← h2, ← h2']
    exact hc r hr r' hr' (h1.trans (e.trans h1'.symm))
  have nd : ∀ R : List Row, (mergeTrie [] R).Nodup := fun R =>
    (List.pairwise_map.mp (mergeTrie_nodup R)).imp (fun hne e => hne (by rw [e]))
  refine (mergeTrie_perm hG (hcG.perm hG.symm)).trans ?_
  rw [List.perm_ext_iff_of_nodup (nd _) (nd R)]
  intro a
  rw [mem_mergeTrie_iff _ hcG, mem_mergeTrie_iff R hc, hmem a]
  have e1 := sqlGroup_fsum R (fun k => decide (k = rkey a)) (·.total) (fun _ _ => rfl)
  have e2 := sqlGroup_fsum R (fun k => decide (k = rkey a)) (·.self) (fun _ _ => rfl)
  rw [e1, e2]

/-! ### the node cap -/

theorem mergeTrieCap_eq (cap : Nat) : ∀ (R T : List Row) (num : Nat), num + R.length ≤ cap →
    mergeTrieCap cap T num R = mergeTrie T R := by
  intro R
  induction R with
  | nil => intro T num _; simp [mergeTrieCap, mergeTrie, foldUpsert]
  | cons r R ih =>
    intro T num h
    simp only [List.length_cons] at h
    unfold mergeTrieCap
    by_cases hany : (T.any fun a => decide ((a.parent, a.node) = (r.parent, r.node))) = true
    · rw [if_pos hany, ih _ _ (by omega)]
      simp [mergeTrie, foldUpsert]
    · rw [if_neg hany, if_neg (by omega), ih _ _ (by omega)]
      simp only [mergeTrie, foldUpsert, List.foldl_cons]
      congr 1
      unfold upsertBy
      rw [if_neg hany]; rfl

end Qryn.Prof
