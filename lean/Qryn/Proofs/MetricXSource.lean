import Qryn.Proofs.MetricXRuns
/-! C08 ext, part 2: the statement `planSpl` builds for a selector with label-rewriting stages (`runsSource`), evaluated. -/
namespace Qryn.LogQL
open Qryn Qryn.Sql

theorem mainOrdered_eq (c : Ctx) (q : LogQuery) : mainOrdered c q = mainSorted c q := by
  unfold mainOrdered
  rw [samplesMain_eq]
  rfl

theorem fpWithsM_eq (c : Ctx) (q : LogQuery) : fpWithsM c q = fpWiths c q := rfl

/-- the WITH entries every statement of the labelled path starts with -/
def baseWiths (c : Ctx) (q : LogQuery) : List (Alias × Sel) :=
  fpWiths c q ++ [(.named "main", mainSorted c q), (.named "_time_series", (timeSeriesSel c).setWiths (fpWiths c q))]

/-- the matching entries in timestamp order -/
def sortedMatches (o : Oracles) (c : Ctx) (d : LokiDb) (q : LogQuery) : List Sample :=
  sortBy (tsLe c) (d.samples.filter (entryMatches o c d q))

theorem baseWiths_eval (o : Oracles) (c : MCtx) (hn : c.namesOk) (d : LokiDb) (q : LogQuery) (hm : q.matchers.length ≤ 63) :
    ∃ T rest, evalWithsA o (d.toDbM c) [] (baseWiths c.toCtx q) =
      (.named "_time_series", (d.ts.filter (tsOk o c.toCtx d q)).map (tsOut o)) ::
      (.named "main", (sortedMatches o c.toCtx d q).map (sampleRow "string")) :: (.named "fp_sel", T) :: rest ∧
      FpTable T (fpSelected o c.toCtx d q) := by
  obtain ⟨T, rest, hE, hT⟩ := fpWiths_eval o c hn d q hm
  refine ⟨T, rest, ?_, hT⟩
  unfold baseWiths
  rw [evalWithsA_append, hE]
  simp only [evalWithsA]
  rw [evalBodyM_eq_A _ _ _ (mainSorted c.toCtx q) (by rfl),
    mainSorted_eval o c hn d q _ T (by simp [List.lookup]) hT,
    evalBodyM_eq_A _ _ _ ((timeSeriesSel c.toCtx).setWiths (fpWiths c.toCtx q)) (by rfl),
    timeSeriesA_eval o c hn d q _ T (by simp [List.lookup]) hT]
  rfl

theorem fpChain_als_le (c : Ctx) (conds : List LabelCond) : ∀ (cur : Sel) (k : Nat),
    ∀ a ∈ als (fpChain c cur k conds), a = .named "fp_sel" ∨ ∃ j, j ≤ k + conds.length ∧ a = .sub j := by
  induction conds with
  | nil => intro cur k; simp [fpChain, als]
  | cons lc rest ih =>
    intro cur k a ha
    simp only [fpChain, als, List.map_cons, List.mem_cons] at ha
    rcases ha with rfl | ha
    · exact Or.inr ⟨k + 1, by simp, rfl⟩
    · rcases ih (labelFilterBody c (k + 1) lc) (k + 1) a ha with h | ⟨j, hj, h⟩
      · exact Or.inl h
      · exact Or.inr ⟨j, by simp only [List.length_cons]; omega, h⟩

theorem fpWiths_als_le (c : Ctx) (q : LogQuery) :
    ∀ a ∈ als (fpWiths c q), a = .named "fp_sel" ∨ ∃ j, j ≤ (labelConds q).length ∧ a = .sub j := by
  obtain ⟨s, hs, _⟩ := fpWiths_chain c q
  have h := fpChain_als_le c (labelConds q) (streamSelect c q.matchers) 0
  rw [hs] at h
  have e : als (fpWiths c q) = als ((fpQuery c q).withs ++ [(Alias.named "fp_sel", s)]) := by
    simp [als, fpWiths, fpWith]
  rw [e]
  intro a ha
  rcases h a ha with h' | ⟨j, hj, h'⟩
  · exact Or.inl h'
  · exact Or.inr ⟨j, by omega, h'⟩

theorem baseWiths_als (c : Ctx) (q : LogQuery) :
    (als (baseWiths c q)).Nodup ∧
    ∀ a ∈ als (baseWiths c q), a = .named "fp_sel" ∨ a = .named "main" ∨ a = .named "_time_series" ∨
      ∃ j, j ≤ (labelConds q).length ∧ a = .sub j := by
  unfold baseWiths
  rw [als_append]
  constructor
  · refine List.nodup_append.mpr ⟨(fpWiths_als c q).1, by simp [als], ?_⟩
    intro x hx y hy
    simp only [als, List.map_cons, List.map_nil, List.mem_cons, List.not_mem_nil, or_false] at hy
    rcases hy with rfl | rfl
    · exact fun e => named_notin_fp _ _ "main" (by decide) (e ▸ hx)
    · exact fun e => named_notin_fp _ _ "_time_series" (by decide) (e ▸ hx)
  · intro a ha
    rcases List.mem_append.mp ha with h | h
    · rcases fpWiths_als_le c q a h with h' | h'
      · exact Or.inl h'
      · exact Or.inr (Or.inr (Or.inr h'))
    · simp only [als, List.map_cons, List.map_nil, List.mem_cons, List.not_mem_nil, or_false] at h
      rcases h with rfl | rfl
      · exact Or.inr (Or.inl rfl)
      · exact Or.inr (Or.inr (Or.inl rfl))


/-! ### the runs of a metric selector -/
theorem applyRuns_append (o : Oracles) (a b : List Run) (E : List EntryX) :
    applyRuns o (a ++ b) E = applyRuns o b (applyRuns o a E) := by
  induction a generalizing E with
  | nil => rfl
  | cons r a ih => simp only [List.cons_append, applyRuns_cons, ih]

theorem allCh_append (a b : List Run) (ha : AllChNonempty a) (hb : AllChNonempty b) : AllChNonempty (a ++ b) := by
  intro cs hm
  rcases List.mem_append.mp hm with h | h
  · exact ha cs h
  · exact hb cs h

theorem limited0 (o : Oracles) (c : Ctx) (d : LokiDb) (q : LogQuery) :
    limited o { c with limit := 0 } d q = sortedMatches o c d q := by
  unfold limited sortedMatches
  simp only [if_true]
  rfl

theorem entriesAtJoin_eq (o : Oracles) (c : Ctx) (d : LokiDb) (q : LogQuery) :
    entriesAtJoin o c d q = (sortedMatches o c d q).map (joinEntry o c d q) := by
  unfold entriesAtJoin
  rw [limited0]
  rfl

/-- the runs `planSpl` makes of the stages after the join -/
def runsOf (r : RangeAggX) : List Run := runsM r.post r.kind.label?.isSome

theorem runsM_spec (o : Oracles) (post : List StageX) (uw : Bool) (ch : Changer) (more : List StageX)
    (hpost : post = .ch ch :: more) :
    (∃ cs rest, runsM post uw = .ch (ch :: cs) :: rest) ∧ AllChNonempty (runsM post uw) ∧
    (∀ E, applyRuns o (runsM post uw) E = stagesX o post E) ∧
    (uw = true → ∃ init fs, runsM post uw = init ++ [.fl fs]) := by
  subst hpost
  obtain ⟨cs, rest, hg⟩ := group_head_ch ch more
  have hall := allCh_group (.ch ch :: more)
  have happ := applyRuns_group o (.ch ch :: more)
  unfold runsM
  cases uw with
  | false =>
    simp only [Bool.false_eq_true, if_false]
    exact ⟨⟨cs, rest, hg⟩, hall, happ, fun h => by cases h⟩
  | true =>
    simp only [if_true]
    cases hl : (groupRuns (.ch ch :: more)).getLast? with
    | none => rw [hg] at hl; simp at hl
    | some rl =>
      cases rl with
      | fl fs =>
        simp only
        refine ⟨⟨cs, rest, hg⟩, hall, happ, fun _ => ?_⟩
        have hne : groupRuns (.ch ch :: more) ≠ [] := by rw [hg]; simp
        have h1 := List.dropLast_concat_getLast hne
        have h2 : (groupRuns (.ch ch :: more)).getLast hne = .fl fs := by
          have := List.getLast?_eq_some_getLast hne
          rw [hl] at this
          exact (Option.some.inj this).symm
        rw [h2] at h1
        exact ⟨_, fs, h1.symm⟩
      | ch cs' =>
        simp only
        refine ⟨⟨cs, rest ++ [.fl []], by rw [hg]; rfl⟩, ?_, ?_, fun _ => ⟨_, [], rfl⟩⟩
        · exact allCh_append _ _ hall (by intro cs hm; simp at hm)
        · intro E
          rw [applyRuns_append, happ]
          simp


theorem subAls_nodup : ∀ (n id : Nat), (subAls id n).Nodup := by
  intro n
  induction n with
  | zero => intro id; simp [subAls]
  | succ n ih =>
    intro id
    rw [subAls_succ, List.nodup_cons]
    refine ⟨?_, ih (id + 1)⟩
    intro hm
    obtain ⟨i, _, he⟩ := (mem_subAls _ _ _).mp hm
    have := Alias.sub.inj he
    omega

/-! ### the source statement -/
def runsPlan (c : Ctx) (r : RangeAggX) : List (Alias × Sel) × Sel × Nat :=
  planRunsM c none (labelConds r.sel).length 1 (runsOf r)

def srcWiths (c : Ctx) (r : RangeAggX) : List (Alias × Sel) := baseWiths c r.sel ++ (runsPlan c r).1

theorem runsSource_eq (c : Ctx) (r : RangeAggX) :
    runsSource c r = ⟨(runsPlan c r).2.1.setWiths (srcWiths c r), (runsPlan c r).2.2⟩ := by
  unfold runsSource srcWiths baseWiths
  simp only [fpWithsM_eq, mainOrdered_eq, List.append_assoc]
  rfl

/-- what is known of the source statement of a selector with label-rewriting stages -/
structure SourceFacts (o : Oracles) (c : MCtx) (d : LokiDb) (r : RangeAggX) (init : List Run) (rlast : Run)
    (src' : Option Nat) (rid' : Nat) : Prop where
  runs : runsOf r = init ++ [rlast]
  last : (runsPlan c.toCtx r).2.1 = (runSelM c.toCtx src' rid' rlast).1
  id : (runsPlan c.toCtx r).2.2 = (labelConds r.sel).length + init.length
  alsEq : Sql.als (srcWiths c.toCtx r) = Sql.als (baseWiths c.toCtx r.sel) ++ subAls (labelConds r.sel).length init.length
  nodup : (Sql.als (srcWiths c.toCtx r)).Nodup
  src : SrcOK o c.toCtx d r.sel (evalWithsA o (d.toDbM c) [] (srcWiths c.toCtx r)) src'
    (applyRuns o init (entriesAtJoin o c.toCtx d r.sel))
  first : src' = none → rlast.isCh = true
  chne : ∀ cs, rlast = .ch cs → cs ≠ []
  entries : applyRun o rlast (applyRuns o init (entriesAtJoin o c.toCtx d r.sel)) = entriesX o c.toCtx d r
  uw : r.kind.label?.isSome = true → rlast.isCh = false
  fp : ∃ T, (evalWithsA o (d.toDbM c) [] (srcWiths c.toCtx r)).lookup (.named "fp_sel") = some T ∧
    FpTable T (fpSelected o c.toCtx d r.sel)

theorem source_facts (o : Oracles) (c : MCtx) (hn : c.namesOk) (d : LokiDb) (r : RangeAggX) (hm : r.sel.matchers.length ≤ 63)
    (ch : Changer) (more : List StageX) (hpost : r.post = .ch ch :: more) :
    ∃ init rlast src' rid', SourceFacts o c d r init rlast src' rid' := by
  obtain ⟨⟨cs, rest, hhead⟩, hall, happ, huw⟩ := runsM_spec o r.post r.kind.label?.isSome ch more hpost
  obtain ⟨T, rest0, hbase, hT⟩ := baseWiths_eval o c hn d r.sel hm
  have hsrc0 : SrcOK o c.toCtx d r.sel (evalWithsA o (d.toDbM c) [] (baseWiths c.toCtx r.sel)) none
      (entriesAtJoin o c.toCtx d r.sel) := by
    rw [hbase, entriesAtJoin_eq]
    exact ⟨sortedMatches o c.toCtx d r.sel, by simp [List.lookup], by simp [List.lookup], rfl⟩
  obtain ⟨init, rlast, src', rid', h1, h2, h3, h4, h5, h6, h7⟩ := planRunsM_eval o c.toCtx (d.toDbM c) d r.sel (runsOf r)
    (by unfold runsOf; rw [hhead]; simp) hall none (labelConds r.sel).length 1 _ _ hsrc0
    (fun _ => ⟨_, _, hhead⟩)
  have hals : als (srcWiths c.toCtx r) = als (baseWiths c.toCtx r.sel) ++ subAls (labelConds r.sel).length init.length := by
    unfold srcWiths runsPlan
    rw [als_append, h4]
  have hfresh : ∀ a ∈ subAls (labelConds r.sel).length init.length, a ∉ als (baseWiths c.toCtx r.sel) := by
    intro a ha hb
    obtain ⟨i, _, rfl⟩ := (mem_subAls _ _ _).mp ha
    rcases (baseWiths_als c.toCtx r.sel).2 _ hb with h | h | h | ⟨j, hj, h⟩
    · cases h
    · cases h
    · cases h
    · cases h; omega
  refine ⟨init, rlast, src', rid', ⟨h1, h2, h3, hals, ?_, ?_, h6, h7, ?_, ?_, ?_⟩⟩
  · rw [hals]
    refine List.nodup_append.mpr ⟨(baseWiths_als c.toCtx r.sel).1, ?_, fun x hx y hy e => hfresh y hy (e ▸ hx)⟩
    exact subAls_nodup _ _
  · unfold srcWiths runsPlan
    rw [evalWithsA_append]
    exact h5
  · have := happ (entriesAtJoin o c.toCtx d r.sel)
    unfold runsOf at h1
    rw [h1, applyRuns_append] at this
    simpa [entriesX] using this
  · intro hu
    obtain ⟨init', fs, he⟩ := huw hu
    unfold runsOf at h1
    rw [h1] at he
    have := List.append_inj_right' he (by simp)
    simp only [List.cons.injEq, and_true] at this
    rw [this]; rfl
  · refine ⟨T, ?_, hT⟩
    unfold srcWiths runsPlan
    rw [evalWithsA_append, hbase, lookup_evalWithsA_notin]
    · simp [List.lookup]
    · rw [h4]
      intro hmem
      obtain ⟨i, _, he⟩ := (mem_subAls _ _ _).mp hmem
      cases he

end Qryn.LogQL
