import Qryn.LogQL.SemMetric
import Qryn.LogQL.PostMetric
import Qryn.LogQL.OpsText
import Qryn.Gen.LogQLOps
/-! Helper definitions and lemmas for C08 (LogQL metric queries). -/
namespace Qryn.LogQL
open Qryn Qryn.Sql

theorem lraOps_eq : lraOpsModel = Gen.LogQLOps.lraOps := by decide
theorem unwrapOps_eq : unwrapOpsModel = Gen.LogQLOps.unwrapOps := by decide
theorem aggOps_eq : aggOpsModel = Gen.LogQLOps.aggOps := by decide
theorem shortcutOps_eq : shortcutOpsModel = Gen.LogQLOps.shortcutOps := by decide
theorem cmpOps_eq : cmpOpsModel = Gen.LogQLOps.cmpOps := by decide

end Qryn.LogQL

namespace Qryn.LogQL
open Qryn Qryn.Sql

/-! ### buckets -/
theorem bucketOf_spec (d ts : Int) (hts : 0 ≤ ts) (hd : 0 < d) :
    bucketOf d ts ≤ ts ∧ ts < bucketOf d ts + d ∧ d ∣ bucketOf d ts := by
  unfold bucketOf
  rw [Int.tdiv_eq_ediv_of_nonneg hts]
  refine ⟨?_, ?_, ?_⟩
  · have := Int.ediv_mul_le ts (Int.ne_of_gt hd); omega
  · have := Int.lt_ediv_add_one_mul_self ts hd
    rw [Int.add_mul] at this; omega
  · exact Int.dvd_mul_left _ _

theorem ediv_unique (d ts k : Int) (hd : 0 < d) (h1 : d * k ≤ ts) (h2 : ts < d * k + d) : ts / d = k := by
  have e : ts = (ts - d * k) + d * k := by omega
  rw [e, Int.add_mul_ediv_left _ _ (Int.ne_of_gt hd), Int.ediv_eq_zero_of_lt (by omega) (by omega)]
  omega

theorem bucketOf_unique (d ts m : Int) (hts : 0 ≤ ts) (hd : 0 < d) (hm : d ∣ m) (h1 : m ≤ ts) (h2 : ts < m + d) :
    m = bucketOf d ts := by
  obtain ⟨k, rfl⟩ := hm
  unfold bucketOf
  rw [Int.tdiv_eq_ediv_of_nonneg hts, ediv_unique d ts k hd h1 h2, Int.mul_comm]

theorem evalE_bucketCol (o : Oracles) (env : Env) (r : Row) (src : String) (d ts : Int) (hd : d ≠ 0)
    (h : r.get src = .int ts) : evalE o env r (bucketCol src d) = .int (bucketOf d ts) := by
  simp [bucketCol, evalE, evalEs, h, hd, mulVal, bucketOf]

/-! ### the divisor literal -/
/-- seconds denoted by the divisor literal: whole milliseconds over 1000 -/
def secOfMs (ms : Nat) : Rat := ((ms : Int) : Rat) / 1000

theorem evalAgg_secLit (o : Oracles) (env : Env) (rows : List Row) (first : Row) (d : Nat) :
    evalAgg o env rows first (secLit d) = .rat (secOfMs (d / 1000000)) := by
  simp [secLit, evalAgg, evalE, secOfMs]

/-- for a range of whole milliseconds the literal denotes the range in seconds -/
theorem secOfMs_eq_secondsOf (d : Nat) (h : 1000000 ∣ d) : secOfMs (d / 1000000) = secondsOf d := by
  obtain ⟨k, rfl⟩ := h
  simp only [secOfMs, secondsOf, Nat.mul_div_cancel_left k (by decide : 0 < 1000000)]
  rw [Rat.div_def, Rat.div_def]
  have : (((1000000 * k : Nat) : Int) : Rat) = 1000000 * ((k : Int) : Rat) := by
    simp [Int.natCast_mul, Rat.intCast_mul]
  rw [this]
  have h2 : (1000000000 : Rat)⁻¹ = (1000000 : Rat)⁻¹ * (1000 : Rat)⁻¹ := by decide +kernel
  have h3 : (1000000 : Rat) * (1000000 : Rat)⁻¹ = 1 := by decide +kernel
  rw [h2, ← Rat.mul_assoc, Rat.mul_comm (1000000 : Rat), Rat.mul_assoc ((k : Int) : Rat), h3, Rat.mul_one]

/-- `x * 1000000000 / d` is `x` per second of a range of `d` nanoseconds, for every `d` -/
theorem perSecond_rat (x : Rat) (d : Nat) : x * 1000000000 / ((d : Int) : Rat) = x / secondsOf d := by
  unfold secondsOf
  rw [Rat.div_def, Rat.div_def, Rat.div_def, Rat.inv_mul_rev, Rat.inv_inv, Rat.mul_assoc]

theorem natCast_ne_zero_rat (d : Nat) (hd : 0 < d) : (((d : Int)) : Rat) ≠ 0 := by
  intro h
  have : ((d : Int)) = 0 := by exact_mod_cast h
  omega

/-- the value of `perSecond x (durNs)` once `x` evaluates to the number `q` -/
theorem evalAgg_perSecond (o : Oracles) (env : Env) (rows : List Row) (first : Row) (x : Expr) (q : Rat) (d : Nat) (hd : 0 < d)
    (hx : evalAgg o env rows first x = .rat q) :
    evalAgg o env rows first (perSecond x (.int d)) = .rat (q / secondsOf d) := by
  have hne := natCast_ne_zero_rat d hd
  simp only [perSecond, evalAgg, hx, evalE]
  simp [mulVal, divVal, Val.toRat?, hne, perSecond_rat]

/-! ### aggregates over lists of values -/
theorem ratsOf_map_rat {α} (l : List α) (f : α → Rat) : ratsOf (l.map (fun a => Val.rat (f a))) = some (l.map f) := by
  induction l with
  | nil => rfl
  | cons a l ih =>
    simp only [ratsOf, List.map_cons, List.mapM_cons] at ih ⊢
    simp [ih, Val.toRat?]

theorem ratsOf_map_int {α} (l : List α) (f : α → Int) :
    ratsOf (l.map (fun a => Val.int (f a))) = some (l.map (fun a => ((f a : Int) : Rat))) := by
  induction l with
  | nil => rfl
  | cons a l ih =>
    simp only [ratsOf, List.map_cons, List.mapM_cons] at ih ⊢
    simp [ih, Val.toRat?]

theorem foldl_add_cast (l : List Int) (acc : Int) :
    (l.map (fun (i : Int) => ((i : Int) : Rat))).foldl (· + ·) (acc : Rat) = ((l.foldl (· + ·) acc : Int) : Rat) := by
  induction l generalizing acc with
  | nil => rfl
  | cons a l ih => simp only [List.map_cons, List.foldl_cons]; rw [← Rat.intCast_add, ih]

theorem ratSum_cast (l : List Int) : ratSum (l.map (fun (i : Int) => ((i : Int) : Rat))) = ((l.foldl (· + ·) 0 : Int) : Rat) := by
  have := foldl_add_cast l 0
  simpa [ratSum] using this

theorem secondsOf_ne_zero (d : Nat) (hd : 0 < d) : secondsOf d ≠ 0 := by
  unfold secondsOf
  intro h
  rw [Rat.div_def] at h
  have := Rat.mul_eq_zero.mp h
  rcases this with h1 | h1
  · have : ((d : Int)) = 0 := by exact_mod_cast h1
    omega
  · revert h1; decide +kernel

/-! ### range functions -/
/-- the rows of one (stream, bucket) group of `agg_a`, as the arguments of the LRA aggregates see them, carry the lines of `grp` -/
def LraRows (rows : List Row) (grp : List Sample) : Prop :=
  rows.map (fun r => r.get "_string") = grp.map (fun s => Val.str s.str)

theorem LraRows.length {rows grp} (h : LraRows rows grp) : rows.length = grp.length := by
  have := congrArg List.length h; simpa using this

theorem LraRows.lens {rows grp} (o : Oracles) (env : Env) (h : LraRows rows grp) :
    rows.map (fun r => evalE o env r (.call "length" [.raw "_string"])) = grp.map (fun s => Val.int (s.str.length : Int)) := by
  induction rows generalizing grp with
  | nil => cases grp with
    | nil => rfl
    | cons a l => simp [LraRows] at h
  | cons r rows ih =>
    cases grp with
    | nil => simp [LraRows] at h
    | cons a l =>
      simp only [LraRows, List.map_cons, List.cons.injEq] at h
      simp only [List.map_cons, List.cons.injEq]
      exact ⟨by simp [evalE, evalEs, h.1], ih h.2⟩

theorem evalAgg_countF (o : Oracles) (env : Env) (rows : List Row) (first : Row) :
    evalAgg o env rows first countF = .rat (rows.length : Int) := by
  simp [countF, evalAgg, aggCall, Val.toRat?]

theorem evalAgg_bytesF (o : Oracles) (env : Env) (rows : List Row) (first : Row) (grp : List Sample)
    (h : LraRows rows grp) :
    evalAgg o env rows first bytesF = .rat (((grp.map (fun s => (s.str.length : Int))).foldl (· + ·) 0 : Int) : Rat) := by
  simp only [bytesF, evalAgg, aggCall, h.lens o env]
  rw [show grp.map (fun s => Val.int (s.str.length : Int)) = grp.map (fun s => Val.int ((fun s : Sample => (s.str.length : Int)) s)) from rfl]
  simp only [sumAgg, ratsOf_map_int]
  have := ratSum_cast (grp.map (fun s => (s.str.length : Int)))
  simp only [List.map_map] at this
  simp [Val.toRat?, Function.comp_def] at this ⊢
  exact this

/-- **range functions without unwrap**: the value column of `LRAPlanner`'s select, over the rows of one
    (stream, bucket) group, is the range function of the direct reading on the entries of that group -/
theorem range_fn_lra (o : Oracles) (env : Env) (rows : List Row) (first : Row) (grp : List Sample) (fn : RangeFn)
    (d : Nat) (h : LraRows rows grp) (hd : 0 < d) :
    evalAgg o env rows first (.col (lraValue fn (.int d)) "value") = .rat (lraVal fn d grp) := by
  cases fn <;>
    simp [lraValue, lraVal, evalAgg, evalAgg_perSecond o env rows first _ _ d hd (evalAgg_countF o env rows first),
      evalAgg_perSecond o env rows first _ _ d hd (evalAgg_bytesF o env rows first grp h),
      evalAgg_countF, evalAgg_bytesF o env rows first grp h, h.length]


/-- the rows of one (series, bucket) group of `unwrap_1` carry the (timestamp, unwrapped value) pairs `grp` -/
def UnwrapRows (rows : List Row) (grp : List (Int × Rat)) : Prop :=
  rows.map (fun r => (r.get "unwrap_1.value", r.get "unwrap_1.timestamp_ns")) = grp.map (fun p => (Val.rat p.2, Val.int p.1))

theorem UnwrapRows.vals {rows grp} (o : Oracles) (env : Env) (h : UnwrapRows rows grp) :
    rows.map (fun r => evalE o env r (.raw "unwrap_1.value")) = grp.map (fun p => Val.rat p.2) := by
  have := congrArg (List.map Prod.fst) h
  simpa [evalE, List.map_map, Function.comp_def] using this

theorem UnwrapRows.pairs {rows grp} (o : Oracles) (env : Env) (h : UnwrapRows rows grp) :
    rows.map (fun r => (evalE o env r (.raw "unwrap_1.value"), evalE o env r (.raw "unwrap_1.timestamp_ns"))) =
      grp.map (fun p => (Val.rat p.2, Val.int p.1)) := by
  simpa [evalE, UnwrapRows] using h

theorem ratsOf_cons_rat (q : Rat) (vs : List Val) : ratsOf (Val.rat q :: vs) = (ratsOf vs).map (q :: ·) := by
  simp only [ratsOf, List.mapM_cons, Val.toRat?]
  cases List.mapM Val.toRat? vs <;> rfl

theorem argMinAgg_pairs (grp : List (Int × Rat)) :
    argMinAgg (grp.map (fun p => (Val.rat p.2, Val.int p.1))) = ((firstBy grp).map Val.rat).getD .null := by
  cases grp with
  | nil => rfl
  | cons p ps =>
    simp only [List.map_cons, argMinAgg, firstBy, Option.map_some, Option.getD_some]
    suffices h : ∀ (best : Int × Rat),
        (ps.map (fun p => (Val.rat p.2, Val.int p.1))).foldl (fun best q => if keyInt q.2 < keyInt best.2 then q else best)
          (Val.rat best.2, Val.int best.1) =
        (fun b : Int × Rat => (Val.rat b.2, Val.int b.1)) (ps.foldl (fun best q => if q.1 < best.1 then q else best) best) by
      rw [h p]
    induction ps with
    | nil => intro best; rfl
    | cons q qs ih =>
      intro best
      simp only [List.map_cons, List.foldl_cons, keyInt]
      by_cases hq : q.1 < best.1
      · simp only [hq, if_true]; exact ih q
      · simp only [hq, if_false]; exact ih best

theorem argMaxAgg_pairs (grp : List (Int × Rat)) :
    argMaxAgg (grp.map (fun p => (Val.rat p.2, Val.int p.1))) = ((lastBy grp).map Val.rat).getD .null := by
  cases grp with
  | nil => rfl
  | cons p ps =>
    simp only [List.map_cons, argMaxAgg, lastBy, Option.map_some, Option.getD_some]
    suffices h : ∀ (best : Int × Rat),
        (ps.map (fun p => (Val.rat p.2, Val.int p.1))).foldl (fun best q => if keyInt best.2 < keyInt q.2 then q else best)
          (Val.rat best.2, Val.int best.1) =
        (fun b : Int × Rat => (Val.rat b.2, Val.int b.1)) (ps.foldl (fun best q => if best.1 < q.1 then q else best) best) by
      rw [h p]
    induction ps with
    | nil => intro best; rfl
    | cons q qs ih =>
      intro best
      simp only [List.map_cons, List.foldl_cons, keyInt]
      by_cases hq : best.1 < q.1
      · simp only [hq, if_true]; exact ih q
      · simp only [hq, if_false]; exact ih best

/-- **range functions over unwrapped values**: the value column of `UnwrapFunctionPlanner`'s select over the rows of
    one (series, bucket) group is the range function of the direct reading on that group's (timestamp, value) pairs -/
theorem range_fn_unwrap (o : Oracles) (env : Env) (rows : List Row) (first : Row) (grp : List (Int × Rat))
    (fn : UnwrapFn) (d : Nat) (h : UnwrapRows rows grp) (hne : grp ≠ []) (hd : 0 < d) :
    evalAgg o env rows first (.col (unwrapValue fn (.int d)) "value") = ((unwrapVal o fn d grp).map Val.rat).getD .null := by
  obtain ⟨p, ps, rfl⟩ : ∃ p ps, grp = p :: ps := by
    cases grp with
    | nil => exact absurd rfl hne
    | cons p ps => exact ⟨p, ps, rfl⟩
  cases fn
  case rate =>
    have hx : evalAgg o env rows first (.call "sum" [.raw "unwrap_1.value"]) = .rat (ratSumL ((p :: ps).map (·.2))) := by
      simp [evalAgg, aggCall, h.vals o env, sumAgg, ratsOf_cons_rat, ratsOf_map_rat, ratSum, ratSumL]
    simp only [unwrapValue, evalAgg]
    rw [evalAgg_perSecond o env rows first _ _ d hd hx]
    simp [unwrapVal]
  all_goals
    simp [unwrapValue, unwrapVal, evalAgg, aggCall, h.vals o env, h.pairs o env, sumAgg, avgAgg, minAgg, maxAgg,
      varPopAgg, stddevPopAgg, ratsOf_cons_rat, ratsOf_map_rat, divVal, Val.toRat?, ratSum, ratSumL]
  · exact argMinAgg_pairs (p :: ps)
  · exact argMaxAgg_pairs (p :: ps)


/-! ### what the folds of the direct reading compute -/
theorem rat_max_def (a b : Rat) : max a b = if a ≤ b then b else a := by
  rfl
theorem rat_left_le_max (a b : Rat) : a ≤ max a b := by
  rw [rat_max_def]; split
  · assumption
  · exact Rat.le_refl
theorem rat_right_le_max (a b : Rat) : b ≤ max a b := by
  rw [rat_max_def]; split
  · exact Rat.le_refl
  · rename_i h; exact Rat.le_of_lt (Rat.not_le.mp h)
theorem rat_max_eq_or (a b : Rat) : max a b = a ∨ max a b = b := by
  rw [rat_max_def]; split <;> simp

theorem foldl_min_spec (q : Rat) (qs : List Rat) :
    qs.foldl min q ∈ q :: qs ∧ ∀ x ∈ q :: qs, qs.foldl min q ≤ x := by
  induction qs generalizing q with
  | nil => simp
  | cons a qs ih =>
    simp only [List.foldl_cons]
    obtain ⟨hm, hle⟩ := ih (min q a)
    refine ⟨?_, ?_⟩
    · rcases List.mem_cons.mp hm with h | h
      · rw [h]; rcases Std.MinEqOr.min_eq_or q a with e | e <;> simp [e]
      · simp [h]
    · intro x hx
      have hmin := hle (min q a) (List.mem_cons_self ..)
      rcases List.mem_cons.mp hx with h | h
      · subst h; exact Rat.le_trans hmin Std.min_le_left
      · rcases List.mem_cons.mp h with h | h
        · subst h; exact Rat.le_trans hmin Std.min_le_right
        · exact hle x (List.mem_cons_of_mem _ h)

theorem foldl_max_spec (q : Rat) (qs : List Rat) :
    qs.foldl max q ∈ q :: qs ∧ ∀ x ∈ q :: qs, x ≤ qs.foldl max q := by
  induction qs generalizing q with
  | nil => simp
  | cons a qs ih =>
    simp only [List.foldl_cons]
    obtain ⟨hm, hle⟩ := ih (max q a)
    refine ⟨?_, ?_⟩
    · rcases List.mem_cons.mp hm with h | h
      · rw [h]; rcases rat_max_eq_or q a with e | e <;> simp [e]
      · simp [h]
    · intro x hx
      have hmax := hle (max q a) (List.mem_cons_self ..)
      rcases List.mem_cons.mp hx with h | h
      · subst h; exact Rat.le_trans (rat_left_le_max _ _) hmax
      · rcases List.mem_cons.mp h with h | h
        · subst h; exact Rat.le_trans (rat_right_le_max _ _) hmax
        · exact hle x (List.mem_cons_of_mem _ h)

/-- `first_over_time`: the value of an entry of the group with the least timestamp -/
theorem firstBy_spec (grp : List (Int × Rat)) (v : Rat) (h : firstBy grp = some v) :
    ∃ t, (t, v) ∈ grp ∧ ∀ p ∈ grp, t ≤ p.1 := by
  cases grp with
  | nil => simp [firstBy] at h
  | cons p ps =>
    simp only [firstBy, Option.some.injEq] at h
    suffices key : ∀ (best : Int × Rat) (ps : List (Int × Rat)),
        let r := ps.foldl (fun best q => if q.1 < best.1 then q else best) best
        r ∈ best :: ps ∧ ∀ x ∈ best :: ps, r.1 ≤ x.1 by
      obtain ⟨hm, hle⟩ := key p ps
      exact ⟨_, by rw [← h]; exact hm, hle⟩
    intro best ps
    induction ps generalizing best with
    | nil => simp
    | cons a ps ih =>
      simp only [List.foldl_cons]
      by_cases ha : a.1 < best.1
      · simp only [ha, if_true]
        obtain ⟨hm, hle⟩ := ih a
        refine ⟨?_, ?_⟩
        · rcases List.mem_cons.mp hm with e | e
          · simp [e]
          · exact List.mem_cons_of_mem _ (List.mem_cons_of_mem _ e)
        · intro x hx
          have h0 := hle a (List.mem_cons_self ..)
          rcases List.mem_cons.mp hx with e | e
          · subst e; omega
          · rcases List.mem_cons.mp e with e | e
            · subst e; exact h0
            · exact hle x (List.mem_cons_of_mem _ e)
      · simp only [ha, if_false]
        obtain ⟨hm, hle⟩ := ih best
        refine ⟨?_, ?_⟩
        · rcases List.mem_cons.mp hm with e | e
          · simp [e]
          · exact List.mem_cons_of_mem _ (List.mem_cons_of_mem _ e)
        · intro x hx
          have h0 := hle best (List.mem_cons_self ..)
          rcases List.mem_cons.mp hx with e | e
          · subst e; exact h0
          · rcases List.mem_cons.mp e with e | e
            · subst e; omega
            · exact hle x (List.mem_cons_of_mem _ e)

/-- `last_over_time`: the value of an entry of the group with the greatest timestamp -/
theorem lastBy_spec (grp : List (Int × Rat)) (v : Rat) (h : lastBy grp = some v) :
    ∃ t, (t, v) ∈ grp ∧ ∀ p ∈ grp, p.1 ≤ t := by
  cases grp with
  | nil => simp [lastBy] at h
  | cons p ps =>
    simp only [lastBy, Option.some.injEq] at h
    suffices key : ∀ (best : Int × Rat) (ps : List (Int × Rat)),
        let r := ps.foldl (fun best q => if best.1 < q.1 then q else best) best
        r ∈ best :: ps ∧ ∀ x ∈ best :: ps, x.1 ≤ r.1 by
      obtain ⟨hm, hle⟩ := key p ps
      exact ⟨_, by rw [← h]; exact hm, hle⟩
    intro best ps
    induction ps generalizing best with
    | nil => simp
    | cons a ps ih =>
      simp only [List.foldl_cons]
      by_cases ha : best.1 < a.1
      · simp only [ha, if_true]
        obtain ⟨hm, hle⟩ := ih a
        refine ⟨?_, ?_⟩
        · rcases List.mem_cons.mp hm with e | e
          · simp [e]
          · exact List.mem_cons_of_mem _ (List.mem_cons_of_mem _ e)
        · intro x hx
          have h0 := hle a (List.mem_cons_self ..)
          rcases List.mem_cons.mp hx with e | e
          · subst e; omega
          · rcases List.mem_cons.mp e with e | e
            · subst e; exact h0
            · exact hle x (List.mem_cons_of_mem _ e)
      · simp only [ha, if_false]
        obtain ⟨hm, hle⟩ := ih best
        refine ⟨?_, ?_⟩
        · rcases List.mem_cons.mp hm with e | e
          · simp [e]
          · exact List.mem_cons_of_mem _ (List.mem_cons_of_mem _ e)
        · intro x hx
          have h0 := hle best (List.mem_cons_self ..)
          rcases List.mem_cons.mp hx with e | e
          · subst e; exact h0
          · rcases List.mem_cons.mp e with e | e
            · subst e; omega
            · exact hle x (List.mem_cons_of_mem _ e)


/-! ### vector aggregation -/
/-- the rows of one (series, timestamp) group of `lra_main` carry the values `vs` -/
def AggRows (rows : List Row) (vs : List Rat) : Prop :=
  rows.map (fun r => r.get "lra_main.value") = vs.map Val.rat

theorem AggRows.vals {rows vs} (o : Oracles) (env : Env) (h : AggRows rows vs) :
    rows.map (fun r => evalE o env r (.raw "lra_main.value")) = vs.map (fun v => Val.rat v) := by
  simpa [evalE, AggRows] using h

theorem AggRows.length {rows vs} (h : AggRows rows vs) : rows.length = vs.length := by
  have := congrArg List.length h; simpa using this

/-- **vector aggregation**: the value column of `AggOpPlanner`'s select over the rows of one group, read as a number,
    is the aggregate of the direct reading over the values of that group -/
theorem vector_agg_value (o : Oracles) (env : Env) (rows : List Row) (first : Row) (vs : List Rat) (fn : AggFn)
    (h : AggRows rows vs) (hne : vs ≠ []) :
    (evalAgg o env rows first (.col (aggValue fn) "value")).toRat? = aggVal o fn vs := by
  obtain ⟨v, rest, rfl⟩ : ∃ v rest, vs = v :: rest := by
    cases vs with
    | nil => exact absurd rfl hne
    | cons v rest => exact ⟨v, rest, rfl⟩
  have hl := h.length
  cases fn <;>
    simp [aggValue, aggVal, evalAgg, aggCall, h.vals o env, sumAgg, avgAgg, minAgg, maxAgg, varPopAgg, stddevPopAgg,
      ratsOf_cons_rat, ratsOf_map_rat (f := fun v : Rat => v), Val.toRat?, ratSum, ratSumL, hl]


/-! ### comparison -/
theorem toRat_rat (q : Rat) : (Val.rat q).toRat? = some q := rfl
theorem evalE_cmpLit (o : Oracles) (env : Env) (r : Row) (n : NumLit) :
    evalE o env r (cmpLit n) = .rat (numOf n) := by
  simp [cmpLit, numOf, evalE]

/-- **comparison**: the HAVING clause `ComparisonPlanner` adds keeps an output row iff its value satisfies the
    written comparison with the written number -/
theorem comparison_holds (o : Oracles) (env : Env) (out : Row) (x : Rat) (cm : Comparison)
    (h : (out.get "value").toRat? = some x) :
    havingA o env out (and_ [cmpExpr cm]) = cmpHoldsR cm.op x (numOf cm.val) := by
  obtain ⟨op, val⟩ := cm
  cases op <;>
    simp [and_, cmpExpr, havingA, cmpHolds, evalE_cmpLit, evalE, h, toRat_rat, ratCmp, cmpHoldsR, gt, lt, ge, le, eq, neq]

/-- a second comparison extends the conjunction (`AndHaving`) -/
theorem comparison_holds_two (o : Oracles) (env : Env) (out : Row) (x : Rat) (c1 c2 : Comparison)
    (h : (out.get "value").toRat? = some x) :
    havingA o env out (andCond (some (and_ [cmpExpr c1])) [cmpExpr c2]) =
      (cmpHoldsR c1.op x (numOf c1.val) && cmpHoldsR c2.op x (numOf c2.val)) := by
  obtain ⟨op1, v1⟩ := c1
  obtain ⟨op2, v2⟩ := c2
  cases op1 <;> cases op2 <;>
    simp [and_, andCond, cmpExpr, havingA, cmpHolds, evalE_cmpLit, evalE, h, toRat_rat, ratCmp, cmpHoldsR, gt, lt, ge, le, eq, neq]


/-! ### by / without -/
/-- the label set a grouping keeps -/
def keptLabels (g : Grouping) (m : List (Bytes × Bytes)) : List (Bytes × Bytes) :=
  m.filter (fun p => (groupingKeys g).contains p.1 == g.isBy)

theorem mem_keptLabels (g : Grouping) (m : List (Bytes × Bytes)) (p : Bytes × Bytes) :
    p ∈ keptLabels g m ↔ p ∈ m ∧ ((groupingKeys g).contains p.1 = g.isBy) := by
  simp [keptLabels, List.mem_filter]

theorem evalE_byWithoutCol (o : Oracles) (env : Env) (r : Row) (g : Grouping) (e : Expr) (m : List (Bytes × Bytes))
    (h : evalE o env r e = .map m) : evalE o env r (byWithoutCol g e) = .map (keptLabels g m) := by
  simp [byWithoutCol, evalE, h, keptLabels]

/-- the select list of the `labels_<id>` sub-query of `ByWithoutPlanner.processTSTable` -/
def byWithoutLabelCols (g : Grouping) : List Expr :=
  [simpleCol "time_series.fingerprint" "fingerprint", .col (byWithoutCol g .tsLabels) "labels",
   .col hashLabels "new_fingerprint"]

theorem byWithoutTS_labels_cols (c : Ctx) (g : Grouping) :
    patchCol (timeSeriesSel c).cols "labels" (byWithoutCol g) ++ [.col hashLabels "new_fingerprint"] = byWithoutLabelCols g := by
  simp [timeSeriesSel, Sel.cols, patchCol, byWithoutLabelCols, simpleCol]

/-- **grouping fingerprint recomputed from the filtered label map**: a row of `labels_<id>` carries the stream's
    fingerprint, the labels kept by the grouping, and cityHash64 of exactly those kept labels -/
theorem byWithoutTS_row (o : Oracles) (env : Env) (g : Grouping) (r : Row) (doc : Bytes) (fp : Val)
    (hdoc : r.get "time_series.labels" = .str doc) (hfp : r.get "time_series.fingerprint" = fp) :
    projectA o env (byWithoutLabelCols g) r =
      [("fingerprint", fp), ("labels", .map (keptLabels g (o.jsonLabels doc))),
       ("new_fingerprint", .int (o.cityHash (keptLabels g (o.jsonLabels doc))))] := by
  have hdoc' : (List.lookup "time_series.labels" r).getD Val.null = .str doc := hdoc
  have hfp' : (List.lookup "time_series.fingerprint" r).getD Val.null = fp := hfp
  simp [projectA, byWithoutLabelCols, scope, aliasVals, hasAgg, simpleCol, colName, hashLabels, aggNames,
    evalE, evalEs, byWithoutCol, Row.get, List.lookup, keptLabels, hdoc', hfp']

/-- **output series identified by exactly the grouped label set**: when cityHash64 separates the label sets at hand,
    two streams get the same recomputed fingerprint iff the grouping keeps the same labels of both -/
theorem grouped_identity (o : Oracles) (g : Grouping) (m1 m2 : List (Bytes × Bytes))
    (hinj : o.cityHash (keptLabels g m1) = o.cityHash (keptLabels g m2) → keptLabels g m1 = keptLabels g m2) :
    o.cityHash (keptLabels g m1) = o.cityHash (keptLabels g m2) ↔ keptLabels g m1 = keptLabels g m2 :=
  ⟨hinj, fun h => by rw [h]⟩

/-- the select list of `ByWithoutPlanner.processSimple`; `lc` = `pre_by_without_<id>.labels` -/
def byWithoutSimpleCols (lc : String) (g : Grouping) : List Expr :=
  [simpleCol "timestamp_ns" "timestamp_ns", .col hashLabels "fingerprint",
   .col (byWithoutCol g (.raw lc)) "labels", simpleCol "string" "string", simpleCol "value" "value"]

/-- the same for the joined-labels path (unwrap): fingerprint = cityHash64 of the kept labels -/
theorem byWithoutSimple_row (o : Oracles) (env : Env) (g : Grouping) (lc : String) (r : Row) (m : List (Bytes × Bytes))
    (h1 : lc ≠ "timestamp_ns") (h2 : lc ≠ "fingerprint") (h3 : lc ≠ "string") (h4 : lc ≠ "value")
    (hm : r.get lc = .map m) :
    (projectA o env (byWithoutSimpleCols lc g) r).lookup "fingerprint" = some (.int (o.cityHash (keptLabels g m))) ∧
    (projectA o env (byWithoutSimpleCols lc g) r).lookup "labels" = some (.map (keptLabels g m)) := by
  have hm' : (List.lookup lc r).getD Val.null = .map m := hm
  have e1 : (lc == "timestamp_ns") = false := by simpa using h1
  have e2 : (lc == "fingerprint") = false := by simpa using h2
  have e3 : (lc == "string") = false := by simpa using h3
  have e4 : (lc == "value") = false := by simpa using h4
  simp [projectA, byWithoutSimpleCols, scope, aliasVals, hasAgg, simpleCol, colName, hashLabels, aggNames,
    evalE, evalEs, byWithoutCol, Row.get, List.lookup, keptLabels, hm', e1, e2, e3, e4]


/-! ### sorting and top/bottom-k -/
theorem insertBy_perm {α} (le : α → α → Bool) (x : α) (l : List α) : (insertBy le x l).Perm (x :: l) := by
  induction l with
  | nil => exact List.Perm.refl _
  | cons y ys ih =>
    simp only [insertBy]
    split
    · exact (List.Perm.cons y ih).trans (List.Perm.swap x y ys)
    · exact List.Perm.refl _

theorem sortBy_perm {α} (le : α → α → Bool) (l : List α) : (sortBy le l).Perm l := by
  induction l with
  | nil => exact List.Perm.refl _
  | cons x xs ih =>
    simp only [sortBy, List.foldr_cons] at ih ⊢
    exact (insertBy_perm le x _).trans (List.Perm.cons x ih)

theorem insertBy_sorted {α} (le : α → α → Bool) (total : ∀ a b, le a b = true ∨ le b a = true)
    (trans : ∀ a b c, le a b = true → le b c = true → le a c = true) (x : α) (l : List α)
    (h : l.Pairwise (fun a b => le a b = true)) : (insertBy le x l).Pairwise (fun a b => le a b = true) := by
  induction l with
  | nil => simp [insertBy]
  | cons y ys ih =>
    rw [List.pairwise_cons] at h
    simp only [insertBy]
    split
    · rename_i hyx
      rw [List.pairwise_cons]
      refine ⟨?_, ih h.2⟩
      intro z hz
      have := (insertBy_perm le x ys).mem_iff.mp hz
      rcases List.mem_cons.mp this with e | e
      · subst e; exact hyx
      · exact h.1 z e
    · rename_i hyx
      have hxy : le x y = true := by
        rcases total x y with t | t
        · exact t
        · exact absurd t hyx
      rw [List.pairwise_cons]
      refine ⟨?_, List.pairwise_cons.mpr h⟩
      intro z hz
      rcases List.mem_cons.mp hz with e | e
      · subst e; exact hxy
      · exact trans x y z hxy (h.1 z e)

theorem sortBy_sorted {α} (le : α → α → Bool) (total : ∀ a b, le a b = true ∨ le b a = true)
    (trans : ∀ a b c, le a b = true → le b c = true → le a c = true) (l : List α) :
    (sortBy le l).Pairwise (fun a b => le a b = true) := by
  induction l with
  | nil => simp [sortBy]
  | cons x xs ih =>
    simp only [sortBy, List.foldr_cons] at ih ⊢
    exact insertBy_sorted le total trans x _ ih

/-- the first k of a sorted list are at least as good as everything that was cut -/
theorem take_best {α} (le : α → α → Bool) (total : ∀ a b, le a b = true ∨ le b a = true)
    (trans : ∀ a b c, le a b = true → le b c = true → le a c = true) (l : List α) (k : Nat) (x y : α)
    (hx : x ∈ (sortBy le l).take k) (hy : y ∈ (sortBy le l).drop k) : le x y = true := by
  have hs := sortBy_sorted le total trans l
  rw [← List.take_append_drop k (sortBy le l), List.pairwise_append] at hs
  exact hs.2.2 x hx y hy

theorem rat_trichotomy (a b : Rat) : a < b ∨ a = b ∨ b < a := by
  by_cases h : a ≤ b
  · by_cases h2 : b ≤ a
    · right; left; exact Rat.le_antisymm h h2
    · left; exact Rat.not_le.mp h2
  · right; right; exact Rat.not_le.mp h

theorem topLe_total (a b : List Atom) : topLe a b = true ∨ topLe b a = true := by
  simp only [topLe, Bool.or_eq_true, Bool.and_eq_true, decide_eq_true_eq, beq_iff_eq]
  rcases rat_trichotomy (tupleValue a) (tupleValue b) with h | h | h
  · right; left; exact h
  · rcases Int.le_total (tupleFp a) (tupleFp b) with f | f
    · left; right; exact ⟨h, f⟩
    · right; right; exact ⟨h.symm, f⟩
  · left; left; exact h

theorem topLe_trans (a b c : List Atom) (h1 : topLe a b = true) (h2 : topLe b c = true) : topLe a c = true := by
  simp only [topLe, Bool.or_eq_true, Bool.and_eq_true, decide_eq_true_eq, beq_iff_eq] at *
  generalize tupleValue a = va at *
  generalize tupleValue b = vb at *
  generalize tupleValue c = vc at *
  generalize tupleFp a = fa at *
  generalize tupleFp b = fb at *
  generalize tupleFp c = fc at *
  grind

theorem bottomLe_total (a b : List Atom) : bottomLe a b = true ∨ bottomLe b a = true := by
  simp only [bottomLe, Bool.or_eq_true, Bool.and_eq_true, decide_eq_true_eq, beq_iff_eq]
  rcases rat_trichotomy (tupleValue a) (tupleValue b) with h | h | h
  · left; left; exact h
  · rcases Int.le_total (tupleFp a) (tupleFp b) with f | f
    · left; right; exact ⟨h, f⟩
    · right; right; exact ⟨h.symm, f⟩
  · right; left; exact h

theorem bottomLe_trans (a b c : List Atom) (h1 : bottomLe a b = true) (h2 : bottomLe b c = true) : bottomLe a c = true := by
  simp only [bottomLe, Bool.or_eq_true, Bool.and_eq_true, decide_eq_true_eq, beq_iff_eq] at *
  generalize tupleValue a = va at *
  generalize tupleValue b = vb at *
  generalize tupleValue c = vc at *
  generalize tupleFp a = fa at *
  generalize tupleFp b = fb at *
  generalize tupleFp c = fc at *
  grind


/-! ### the window -/
def samplesCols : List Expr :=
  [simpleCol "samples.timestamp_ns" "timestamp_ns", simpleCol "samples.fingerprint" "fingerprint",
   simpleCol "samples.string" "string", simpleCol "toFloat64(0)" "value"]

def windowCond (c : Ctx) : Expr :=
  and_ [ge (.raw "samples.timestamp_ns") (.int c.fromNs), lt (.raw "samples.timestamp_ns") (.int c.toNs), getTypes c]

/-- `planSpl` only adds to WHERE: columns, source and the PREWHERE window of `SqlMainInitPlanner` stay -/
theorem samplesMain_shape (c : Ctx) (q : LogQuery) :
    ∃ ws w, samplesMain c q =
      .mk ws false samplesCols (some (.col (.raw c.samplesTable) "samples")) [] (some (windowCond c)) (some w) [] none [] none := by
  unfold samplesMain
  suffices h : ∀ (fs : List LineFilter) (s : Sel),
      (∃ ws w, s = .mk ws false samplesCols (some (.col (.raw c.samplesTable) "samples")) [] (some (windowCond c)) (some w) [] none [] none) →
      ∃ ws w, fs.foldl (fun s f => s.andWhere [lineClause f]) s =
        .mk ws false samplesCols (some (.col (.raw c.samplesTable) "samples")) [] (some (windowCond c)) (some w) [] none [] none by
    apply h
    exact ⟨_, _, by simp [fingerprintFilter, samplesInit, Sel.with_, Sel.setWiths, Sel.andWhere, samplesCols, windowCond]; exact ⟨rfl, rfl⟩⟩
  intro fs
  induction fs with
  | nil => intro s h; exact h
  | cons f fs ih =>
    intro s ⟨ws, w, hs⟩
    simp only [List.foldl_cons]
    apply ih
    subst hs
    exact ⟨ws, _, by simp [Sel.andWhere]; rfl⟩

theorem cmpLe_int_left (a : Int) (v : Val) (h : Val.cmpLe (.int a) v = true) : ∃ t, v = .int t ∧ a ≤ t := by
  cases v <;> simp [Val.cmpLe] at h
  exact ⟨_, rfl, h⟩

theorem cmpLe_int_right (a : Int) (v : Val) (h : Val.cmpLe v (.int a) = true) : ∃ t, v = .int t ∧ t ≤ a := by
  cases v <;> simp [Val.cmpLe] at h
  exact ⟨_, rfl, h⟩

/-- a row passing a conjunction that starts with `name >= lo` and `name < hi` carries an integer in `[lo, hi)` there -/
theorem bounds_confine (o : Oracles) (env : Env) (r : Row) (name : String) (lo hi : Int) (rest : List Expr)
    (h : evalB o env r (and_ (ge (.raw name) (.int lo) :: lt (.raw name) (.int hi) :: rest)) = true) :
    ∃ t, r.get name = .int t ∧ lo ≤ t ∧ t < hi := by
  have key : (cmpOp o ">=" (r.get name) (Val.int lo) = true) ∧ (cmpOp o "<" (r.get name) (Val.int hi) = true) := by
    cases rest with
    | nil =>
      simp [evalB, and_, ge, lt, evalE, evalAll, Val.truthy, boolVal] at h
      constructor
      · by_cases hc : cmpOp o ">=" (r.get name) (Val.int lo) = true
        · exact hc
        · simp [hc] at h
      · by_cases hc : cmpOp o "<" (r.get name) (Val.int hi) = true
        · exact hc
        · simp [hc] at h
    | cons z zs =>
      simp [evalB, and_, ge, lt, evalE, evalAll, Val.truthy, boolVal] at h
      constructor
      · by_cases hc : cmpOp o ">=" (r.get name) (Val.int lo) = true
        · exact hc
        · simp [hc] at h
      · by_cases hc : cmpOp o "<" (r.get name) (Val.int hi) = true
        · exact hc
        · simp [hc] at h
  obtain ⟨h1', h2'⟩ := key
  cases hv : r.get name <;> simp [cmpOp, Val.cmpLe, Val.cmpLt, hv] at h1' h2'
  exact ⟨_, rfl, h1', h2'⟩

/-- a row that passes the PREWHERE of `SqlMainInitPlanner` has its timestamp inside `[from, to)` -/
theorem windowCond_confines (o : Oracles) (env : Env) (c : Ctx) (r : Row)
    (h : optB o env r (some (windowCond c)) = true) :
    ∃ t, r.get "samples.timestamp_ns" = .int t ∧ c.fromNs ≤ t ∧ t < c.toNs :=
  bounds_confine o env r "samples.timestamp_ns" c.fromNs c.toNs [getTypes c] h

/-- the WHERE of the metrics_15s shortcut (after `FingerprintFilterPlanner` added its clause) -/
def shortcutWhere (c : MCtx) : Expr :=
  and_ [ge (.raw "samples.timestamp_ns") (.int (Int.tdiv c.fromNs slot15 * slot15)),
        lt (.raw "samples.timestamp_ns") (.int (Int.tdiv c.toNs slot15 * slot15)), getTypes c.toCtx,
        .isIn (.raw "samples.fingerprint") [.withRef (.named "fp_sel")]]

theorem shortcut_where (c : MCtx) (q : LogQuery) (fn : RangeFn) (d : Nat) :
    ∃ ws cols gb, fingerprintFilter c.toCtx q (metrics15Sel c fn d) =
      .mk ws false cols (some (.col (.raw c.metrics15Table) "samples")) [] none (some (shortcutWhere c)) gb none [] none := by
  exact ⟨_, _, _, by simp [fingerprintFilter, metrics15Sel, Sel.with_, Sel.setWiths, Sel.andWhere, shortcutWhere, andCond, and_]; exact ⟨rfl, rfl, rfl⟩⟩

/-- a `metrics_15s` slot read by the shortcut starts inside `[from, to)` rounded down to whole 15 s slots -/
theorem shortcut_confines (o : Oracles) (env : Env) (c : MCtx) (r : Row)
    (h : optB o env r (some (shortcutWhere c)) = true) :
    ∃ t, r.get "samples.timestamp_ns" = .int t ∧ Int.tdiv c.fromNs slot15 * slot15 ≤ t ∧ t < Int.tdiv c.toNs slot15 * slot15 :=
  bounds_confine o env r "samples.timestamp_ns" _ _ _ h

/-- **no entry outside the window contributes**: every row the range aggregation reads from `samples`
    (the `agg_a` sub-query of the plan) has its timestamp inside the planner's window `[from, to)` -/
theorem window_confined (o : Oracles) (db : Db) (env : Env) (c : Ctx) (q : LogQuery) (out : Row)
    (h : out ∈ evalBodyA o db env (samplesMain c q)) :
    ∃ t, out.get "timestamp_ns" = .int t ∧ c.fromNs ≤ t ∧ t < c.toNs := by
  obtain ⟨ws, w, hs⟩ := samplesMain_shape c q
  rw [hs] at h
  have hagg : (samplesCols.any hasAgg) = false := by decide
  simp only [evalBodyA, List.isEmpty_nil, hagg, Bool.not_false, Bool.and_self, if_true, List.foldl_nil] at h
  obtain ⟨r, hr, rfl⟩ := List.mem_map.mp h
  have hf := (List.mem_filter.mp hr).2
  simp only [Bool.and_eq_true] at hf
  obtain ⟨t, ht, h1, h2⟩ := windowCond_confines o env c r hf.1
  refine ⟨t, ?_, h1, h2⟩
  have ht' : (List.lookup "samples.timestamp_ns" r).getD Val.null = .int t := ht
  simp [projectA, samplesCols, scope, aliasVals, hasAgg, simpleCol, colName, evalE, Row.get, List.lookup, ht']


/-! ### order of the stages -/
/-- a stage as written in the query text -/
inductive StageTag
  | range (unwrapped : Bool) (fn : String)      -- the range function
  | group (g : Grouping)                        -- by / without, attached to the function written after it in this list
  | agg (fn : AggFn)
  | topk (isTop : Bool) (k : Nat)
  | cmp (c : Comparison)
deriving DecidableEq, Repr

def cmpTag : Option Comparison → List StageTag
  | none => []
  | some c => [.cmp c]

def groupTag : Option Grouping → List StageTag
  | none => []
  | some g => [.group g]

/-- the stages of a range aggregation as written, innermost first. A grouping clause written on a range
    aggregation without unwrap is not LogQL and is ignored (also by the direct reading) -/
def rangeStages (r : RangeAgg) : List StageTag :=
  (match r.kind with
   | .lra fn => [.range false fn.name]
   | .unwrap fn _ => groupTag (chosenGrouping r.byPrefix r.bySuffix) ++ [.range true fn.name]) ++ cmpTag r.cmp

def aggStages (a : VecAgg) : List StageTag :=
  rangeStages a.inner ++ [.group (aggGrouping a)] ++ [.agg a.fn] ++ cmpTag a.cmp   -- no grouping clause written = `by ()`

/-- the matrix stages of a query in the order of the text (innermost first); no duration occurs in it -/
def writtenStages : MetricQuery → List StageTag
  | .range r => rangeStages r
  | .agg a => aggStages a
  | .topk t => (match t.inner with | .range r => rangeStages r | .agg a => aggStages a) ++ [.topk t.isTop t.k] ++ cmpTag t.cmp

/-- what a planned step stands for -/
def Step.tags : Step → List StageTag
  | .lra fn _ => [.range false fn.name]
  | .shortcut fn _ => [.range false fn.name]
  | .unwrapFn fn _ g => groupTag g ++ [.range true fn.name]
  | .agg fn g => groupTag g ++ [.agg fn]
  | .topk isTop k => [.topk isTop k]
  | .cmp c => [.cmp c]

theorem cmpStep_tags (c : Option Comparison) : (cmpStep c).flatMap Step.tags = cmpTag c := by
  cases c <;> rfl

theorem orderRange_tags (r : RangeAgg) : (orderRange r).flatMap Step.tags = rangeStages r := by
  unfold orderRange rangeStages
  cases r.kind <;> simp [List.flatMap_append, cmpStep_tags, Step.tags]

theorem shortcutRange_tags (r : RangeAgg) : (shortcutRange r).flatMap Step.tags = rangeStages r := by
  unfold shortcutRange rangeStages
  cases r.kind <;> simp [List.flatMap_append, cmpStep_tags, Step.tags]

theorem orderAgg_tags (a : VecAgg) : (orderAgg a).flatMap Step.tags = aggStages a := by
  simp [orderAgg, aggStages, List.flatMap_append, orderRange_tags, cmpStep_tags, Step.tags, groupTag]

theorem shortcutAgg_tags (a : VecAgg) : (shortcutAgg a).flatMap Step.tags = aggStages a := by
  simp [shortcutAgg, aggStages, List.flatMap_append, shortcutRange_tags, cmpStep_tags, Step.tags, groupTag]

theorem functionOrder_tags (q : MetricQuery) : (functionOrder q).flatMap Step.tags = writtenStages q := by
  cases q with
  | range r => exact orderRange_tags r
  | agg a => exact orderAgg_tags a
  | topk t =>
    simp only [functionOrder, writtenStages, List.flatMap_append, cmpStep_tags]
    cases t.inner <;> simp [orderRange_tags, orderAgg_tags, Step.tags]

theorem shortcutOrder_tags (q : MetricQuery) : (shortcutOrder q).flatMap Step.tags = writtenStages q := by
  cases q with
  | range r => exact shortcutRange_tags r
  | agg a => exact shortcutAgg_tags a
  | topk t =>
    simp only [shortcutOrder, writtenStages, List.flatMap_append, cmpStep_tags]
    cases t.inner <;> simp [shortcutRange_tags, shortcutAgg_tags, Step.tags]

theorem planSteps_tags (q : MetricQuery) : (planSteps q).flatMap Step.tags = writtenStages q := by
  unfold planSteps
  split
  · exact shortcutOrder_tags q
  · exact functionOrder_tags q

/-- the same query with another range duration -/
def RangeAgg.setDur (r : RangeAgg) (d : Nat) : RangeAgg := { r with durNs := d }
def MetricQuery.setDur : MetricQuery → Nat → MetricQuery
  | .range r, d => .range (r.setDur d)
  | .agg a, d => .agg { a with inner := a.inner.setDur d }
  | .topk t, d => .topk { t with inner := match t.inner with
      | .range r => .range (r.setDur d)
      | .agg a => .agg { a with inner := a.inner.setDur d } }

theorem writtenStages_setDur (q : MetricQuery) (d : Nat) : writtenStages (q.setDur d) = writtenStages q := by
  cases q with
  | range r => rfl
  | agg a => rfl
  | topk t =>
    simp only [MetricQuery.setDur, writtenStages]
    cases t.inner <;> rfl

/-! ### what the shortcut leaves out -/
theorem contains_nil (line : Bytes) : contains [] line = true := by
  simp [contains]

/-- a line filter the shortcut drops passes every line (empty needle, positive operator; an empty regular
    expression is no literal for `re2Like` and matches everything) -/
theorem trivial_filter_passes (o : Oracles) (hre : ∀ s, o.reMatch [] s = true) (f : LineFilter)
    (ht : lineFilterTrivial f = true) (hlike : f.like = none) (line : Bytes) : lineHolds o f line = true := by
  obtain ⟨op, val, like⟩ := f
  simp only [lineFilterTrivial, Bool.and_eq_true, List.isEmpty_iff, Bool.or_eq_true, beq_iff_eq] at ht
  obtain ⟨hv, hop⟩ := ht
  simp only at hlike hv hop
  subst hv hlike
  rcases hop with h | h <;> subst h <;> simp [lineHolds, contains_nil, hre]

theorem takesShortcut_filters (q : MetricQuery) (h : takesShortcut q = true) :
    ∀ f ∈ lineFilters q.rangeAgg.sel, lineFilterTrivial f = true := by
  unfold takesShortcut at h
  cases hk : q.rangeAgg.kind with
  | lra fn =>
    simp only [hk, Bool.and_eq_true, List.all_eq_true] at h
    exact h.2
  | unwrap fn l => simp [hk] at h

/-- the label filters of the selector are planned on the fingerprint side in both modes: `fp_sel` is built
    from all of them, whatever the duration -/
theorem fpChain_length (c : Ctx) (s : Sel) (k : Nat) (cs : List LabelCond) : (fpChain c s k cs).length = cs.length + 1 := by
  induction cs generalizing s k with
  | nil => rfl
  | cons x xs ih => simp [fpChain, ih]

theorem fpQuery_withs (c : Ctx) (q : LogQuery) : (fpQuery c q).withs.length = (labelConds q).length := by
  unfold fpQuery
  have hl := fpChain_length c (streamSelect c q.matchers) 0 (labelConds q)
  cases hc : (fpChain c (streamSelect c q.matchers) 0 (labelConds q)).getLast? with
  | none =>
    rw [List.getLast?_eq_none_iff] at hc
    rw [hc] at hl; simp at hl
  | some p =>
    obtain ⟨a, s⟩ := p
    cases s with
    | mk ws d cols f j pw w g hv ob l =>
      simp only [hc, Sel.setWiths, Sel.withs, List.length_dropLast, hl]
      omega


/-! ### step re-bucketing in SQL (StepFixPlanner) -/
theorem stepFix_identity (c : MCtx) (d : Nat) (main : Sel) (h : c.stepNs ≤ (d : Int)) : stepFixSel c d main = main := by
  simp [stepFixSel, h]

/-- the rows of one (step bucket, series) group of `pre_step_fix` carry the (range bucket start, value) pairs `grp` -/
def StepRows (rows : List Row) (grp : List (Int × Rat)) : Prop :=
  rows.map (fun r => (r.get "pre_step_fix.value", r.get "pre_step_fix.timestamp_ns")) = grp.map (fun p => (Val.rat p.2, Val.int p.1))

/-- with a step larger than the range, the value of a step bucket is the value of its earliest range bucket -/
theorem stepFix_value (o : Oracles) (env : Env) (rows : List Row) (first : Row) (grp : List (Int × Rat))
    (h : StepRows rows grp) :
    evalAgg o env rows first (.col (.call "argMin" [.raw "pre_step_fix.value", .raw "pre_step_fix.timestamp_ns"]) "value") =
      ((firstBy grp).map Val.rat).getD .null := by
  have hp : rows.map (fun r => (evalE o env r (.raw "pre_step_fix.value"), evalE o env r (.raw "pre_step_fix.timestamp_ns"))) =
      grp.map (fun p => (Val.rat p.2, Val.int p.1)) := by simpa [evalE, StepRows] using h
  simp [evalAgg, aggCall, hp, argMinAgg_pairs]

/-! ### the Go post-processors -/
theorem fixWindow_spec (fromNs toNs d : Int) (hf : 0 ≤ fromNs) (ht : 0 ≤ toNs) (hd : 0 < d) :
    let w := fixWindow fromNs toNs d
    d ∣ w.1 ∧ d ∣ w.2 ∧ w.1 ≤ fromNs ∧ fromNs < w.1 + d ∧ w.2 - d ≤ toNs ∧ toNs < w.2 := by
  have h1 := bucketOf_spec d fromNs hf hd
  have h2 := bucketOf_spec d toNs ht hd
  simp only [fixWindow, hd, if_true]
  unfold bucketOf at h1 h2
  refine ⟨h1.2.2, ?_, h1.1, h1.2.1, by omega, by omega⟩
  exact Int.dvd_add h2.2.2 (Int.dvd_refl d)

theorem zeroEater_spec (es : List MEntry) (e : MEntry) : e ∈ zeroEater es ↔ e ∈ es ∧ e.value ≠ 0 := by
  simp [zeroEater, List.mem_filter]

theorem fillRange_length (vs : List Int) (i j : Nat) (v : Int) : (fillRange vs i j v).length = vs.length := by
  simp [fillRange]

theorem exportRun_mem (fromNs step : Int) (s : FixState) (e : MEntry) (h : e ∈ exportRun fromNs step s) :
    ∃ i : Nat, i < s.values.length ∧ e.ts = fromNs + (i : Int) * step ∧ e.value ≠ 0 ∧ e.fp = s.fp ∧ e.lbl = s.lbl := by
  simp only [exportRun, List.mem_filterMap] at h
  obtain ⟨p, hp, he⟩ := h
  have hi := List.mem_zipIdx hp
  split at he
  · exact absurd he (by simp)
  · rename_i hne
    simp only [Option.some.injEq] at he
    subst he
    exact ⟨p.2, by simpa using hi.2.1, rfl, hne, rfl, rfl⟩

/-- an output entry lies on the step grid of the request window and is not zero -/
def GridOk (fromNs toNs step : Int) (e : MEntry) : Prop :=
  ∃ i : Nat, i < (Int.tdiv (toNs - fromNs) step + 1).toNat ∧ e.ts = fromNs + (i : Int) * step ∧ e.value ≠ 0

def FixInv (fromNs toNs step : Int) (s : FixState) : Prop :=
  s.values.length ≤ (Int.tdiv (toNs - fromNs) step + 1).toNat ∧ ∀ x ∈ s.out, GridOk fromNs toNs step x

theorem exportRun_grid (fromNs toNs step : Int) (s : FixState) (h : FixInv fromNs toNs step s) :
    ∀ x ∈ exportRun fromNs step s, GridOk fromNs toNs step x := by
  intro x hx
  obtain ⟨i, hi, hts, hv, _, _⟩ := exportRun_mem fromNs step s x hx
  exact ⟨i, Nat.lt_of_lt_of_le hi h.1, hts, hv⟩

theorem fixStep_inv (fromNs toNs step d : Int) (s : FixState) (e : MEntry) (h : FixInv fromNs toNs step s) :
    FixInv fromNs toNs step (fixStep fromNs toNs step d s e) := by
  have h' : FixInv fromNs toNs step (fixReset fromNs toNs step s e) := by
    unfold fixReset
    split
    · refine ⟨by simp, ?_⟩
      intro x hx
      rcases List.mem_append.mp hx with hx | hx
      · exact h.2 x hx
      · exact exportRun_grid fromNs toNs step s h x hx
    · exact h
  unfold fixStep fixFill
  generalize fixReset fromNs toNs step s e = s' at h' ⊢
  simp only
  split
  · exact h'
  · exact ⟨by simpa [fillRange_length] using h'.1, h'.2⟩

theorem foldl_fixStep_inv (fromNs toNs step d : Int) (es : List MEntry) (s : FixState) (h : FixInv fromNs toNs step s) :
    FixInv fromNs toNs step (es.foldl (fixStep fromNs toNs step d) s) := by
  induction es generalizing s with
  | nil => exact h
  | cons e es ih => exact ih _ (fixStep_inv fromNs toNs step d s e h)

/-- **step grid**: every entry `FixPeriodPlanner` emits is non-zero and lies on `from + i·step` with
    `0 ≤ i ≤ (to − from)/step`, whatever the relation between step and range -/
theorem fixPeriod_grid (fromNs toNs step d : Int) (es : List MEntry) :
    ∀ e ∈ fixPeriod fromNs toNs step d es, GridOk fromNs toNs step e := by
  intro e he
  have hinv := foldl_fixStep_inv fromNs toNs step d es ⟨false, 0, 0, [], []⟩ ⟨by simp, by simp⟩
  simp only [fixPeriod] at he
  rcases List.mem_append.mp he with h | h
  · exact hinv.2 e h
  · exact exportRun_grid fromNs toNs step _ hinv e h


theorem fillRange_get (vs : List Int) (i j : Nat) (v : Int) (k : Nat) (x : Int)
    (h : (fillRange vs i j v)[k]? = some x) : (i ≤ k ∧ k ≤ j ∧ x = v) ∨ vs[k]? = some x := by
  simp only [fillRange, List.getElem?_map, List.getElem?_zipIdx, Option.map_eq_some_iff] at h
  obtain ⟨p, ⟨a, ha, rfl⟩, hx⟩ := h
  simp only [Nat.zero_add] at hx
  split at hx
  · rename_i hc; left; exact ⟨hc.1, hc.2, hx.symm⟩
  · right; rw [ha, hx]

theorem exportRun_mem' (fromNs step : Int) (s : FixState) (e : MEntry) (h : e ∈ exportRun fromNs step s) :
    ∃ i : Nat, s.values[i]? = some e.value ∧ e.ts = fromNs + (i : Int) * step ∧ e.value ≠ 0 ∧ e.fp = s.fp := by
  simp only [exportRun, List.mem_filterMap] at h
  obtain ⟨p, hp, he⟩ := h
  have hi := List.mem_zipIdx hp
  split at he
  · exact absurd he (by simp)
  · rename_i hne
    simp only [Option.some.injEq] at he
    subst he
    refine ⟨p.2, ?_, rfl, hne, rfl⟩
    have := hi.2.2
    simp only [Nat.sub_zero] at this
    simp [this, hi.2.1]

/-- the range bucket of an input row, widened by one step point at its end, covers index k of the step grid -/
def covers (fromNs step d : Int) (e : MEntry) (k : Nat) : Prop :=
  Int.tdiv (Int.tdiv e.ts d * d - fromNs) step ≤ (k : Int) ∧
  (k : Int) ≤ Int.tdiv ((Int.tdiv e.ts d + 1) * d - fromNs) step

def ProvInv (fromNs step d : Int) (src : MEntry → Prop) (s : FixState) : Prop :=
  (∀ k v, s.values[k]? = some v → v ≠ 0 → ∃ e', src e' ∧ e'.fp = s.fp ∧ e'.value = v ∧ covers fromNs step d e' k) ∧
  (∀ x ∈ s.out, ∃ e', ∃ k : Nat, src e' ∧ e'.fp = x.fp ∧ e'.value = x.value ∧ x.ts = fromNs + (k : Int) * step ∧
    covers fromNs step d e' k)

theorem exportRun_prov (fromNs step d : Int) (src : MEntry → Prop) (s : FixState) (h : ProvInv fromNs step d src s) :
    ∀ x ∈ exportRun fromNs step s, ∃ e', ∃ k : Nat, src e' ∧ e'.fp = x.fp ∧ e'.value = x.value ∧ x.ts = fromNs + (k : Int) * step ∧
      covers fromNs step d e' k := by
  intro x hx
  obtain ⟨i, hv, hts, hne, hfp⟩ := exportRun_mem' fromNs step s x hx
  obtain ⟨e', hs, hf, hval, hc⟩ := h.1 i x.value hv hne
  exact ⟨e', i, hs, by rw [hf, hfp], hval, hts, hc⟩

theorem fixStep_prov (fromNs toNs step d : Int) (src src' : MEntry → Prop) (s : FixState) (e : MEntry)
    (h : ProvInv fromNs step d src s) (hsub : ∀ x, src x → src' x) (he : src' e) :
    ProvInv fromNs step d src' (fixStep fromNs toNs step d s e) := by
  have lift : ∀ s0, ProvInv fromNs step d src s0 → ProvInv fromNs step d src' s0 := by
    intro s0 h0
    refine ⟨?_, ?_⟩
    · intro k v hk hv
      obtain ⟨e', a, b⟩ := h0.1 k v hk hv
      exact ⟨e', hsub _ a, b⟩
    · intro x hx
      obtain ⟨e', k, a, b⟩ := h0.2 x hx
      exact ⟨e', k, hsub _ a, b⟩
  have h' : ProvInv fromNs step d src' (fixReset fromNs toNs step s e) ∧ (fixReset fromNs toNs step s e).fp = e.fp := by
    unfold fixReset
    split
    · refine ⟨⟨?_, ?_⟩, rfl⟩
      · intro k v hk hv
        simp only [List.getElem?_replicate] at hk
        split at hk
        · simp only [Option.some.injEq] at hk; exact absurd hk.symm hv
        · exact absurd hk (by simp)
      · intro x hx
        rcases List.mem_append.mp hx with hx | hx
        · exact (lift s h).2 x hx
        · exact exportRun_prov fromNs step d src' s (lift s h) x hx
    · rename_i hc
      refine ⟨lift s h, ?_⟩
      simp only [not_or, Decidable.not_not] at hc
      exact hc.2.symm
  unfold fixStep fixFill
  generalize fixReset fromNs toNs step s e = s' at h' ⊢
  obtain ⟨hinv, hfp⟩ := h'
  simp only
  split
  · exact hinv
  · rename_i hcond
    refine ⟨?_, hinv.2⟩
    intro k v hk hv
    have hlen : k < s'.values.length := by
      have := (List.getElem?_eq_some_iff.mp hk).1
      simpa [fillRange_length] using this
    rcases fillRange_get _ _ _ _ _ _ hk with ⟨h1, h2, h3⟩ | hold
    · refine ⟨e, he, hfp.symm, h3.symm, ?_⟩
      simp only [not_or, Int.not_lt, Int.not_le] at hcond
      unfold covers
      constructor
      · split at h1 <;> omega
      · split at h2 <;> omega
    · exact hinv.1 k v hold hv

theorem foldl_fixStep_prov (fromNs toNs step d : Int) (es : List MEntry) (src : MEntry → Prop) (s : FixState)
    (h : ProvInv fromNs step d src s) :
    ProvInv fromNs step d (fun x => src x ∨ x ∈ es) (es.foldl (fixStep fromNs toNs step d) s) := by
  induction es generalizing src s with
  | nil =>
    refine ⟨?_, ?_⟩
    · intro k v hk hv; obtain ⟨e', a, b⟩ := h.1 k v hk hv; exact ⟨e', Or.inl a, b⟩
    · intro x hx; obtain ⟨e', k, a, b⟩ := h.2 x hx; exact ⟨e', k, Or.inl a, b⟩
  | cons e es ih =>
    simp only [List.foldl_cons]
    have h1 := fixStep_prov fromNs toNs step d src (fun x => src x ∨ x = e) s e h (fun _ a => Or.inl a) (Or.inr rfl)
    have h2 := ih _ _ h1
    refine ⟨?_, ?_⟩
    · intro k v hk hv
      obtain ⟨e', a, b⟩ := h2.1 k v hk hv
      refine ⟨e', ?_, b⟩
      rcases a with (a | a) | a
      · exact Or.inl a
      · exact Or.inr (by simp [a])
      · exact Or.inr (List.mem_cons_of_mem _ a)
    · intro x hx
      obtain ⟨e', k, a, b⟩ := h2.2 x hx
      refine ⟨e', k, ?_, b⟩
      rcases a with (a | a) | a
      · exact Or.inl a
      · exact Or.inr (by simp [a])
      · exact Or.inr (List.mem_cons_of_mem _ a)

/-- **step re-bucketing**: every value `FixPeriodPlanner` emits at `from + k·step` is the value of an input row of
    the same series whose range bucket `[b, b + d]` (b = start of the row's range bucket) covers that point -/
theorem fixPeriod_provenance (fromNs toNs step d : Int) (es : List MEntry) :
    ∀ x ∈ fixPeriod fromNs toNs step d es, ∃ e', ∃ k : Nat, e' ∈ es ∧ e'.fp = x.fp ∧ e'.value = x.value ∧
      x.ts = fromNs + (k : Int) * step ∧ covers fromNs step d e' k := by
  intro x hx
  have hinv := foldl_fixStep_prov fromNs toNs step d es (fun _ => False) ⟨false, 0, 0, [], []⟩
    ⟨by intro k v hk; simp at hk, by intro x hx; simp at hx⟩
  simp only [fixPeriod] at hx
  have : ∃ e', ∃ k : Nat, (False ∨ e' ∈ es) ∧ e'.fp = x.fp ∧ e'.value = x.value ∧ x.ts = fromNs + (k : Int) * step ∧
      covers fromNs step d e' k := by
    rcases List.mem_append.mp hx with h | h
    · exact hinv.2 x h
    · exact exportRun_prov fromNs step d _ _ hinv x h
  obtain ⟨e', k, a, b⟩ := this
  exact ⟨e', k, by simpa using a, b⟩


/-- the series identity and timestamp `AggOpPlanner` groups by -/
def aggKey (r : Row) : List Val := [r.get "fingerprint", r.get "lra_main.timestamp_ns"]

theorem aggSel_keyOf (o : Oracles) (env : Env) (fn : AggFn) (wl : Bool) (r : Row) :
    let cols := [simpleCol "fingerprint" "fingerprint", Expr.col (aggValue fn) "value",
      simpleCol "lra_main.timestamp_ns" "timestamp_ns", emptyStr] ++
      (if wl then [Expr.col (.call "any" [.raw "lra_main.labels"]) "labels"] else [])
    [Expr.raw "fingerprint", Expr.raw "timestamp_ns"].map (fun g => evalE o env (aliasVals o env cols r ++ r) g) = aggKey r := by
  cases fn <;> cases wl <;>
    simp [aliasVals, hasAgg, aggNames, aggValue, simpleCol, emptyStr, evalE, Row.get, List.lookup, aggKey]

/-- **one output series per (grouped identity, timestamp)**: `AggOpPlanner`'s select returns exactly one row for
    every distinct (fingerprint, timestamp) of its input, in order of first occurrence -/
theorem aggSel_groups (o : Oracles) (db : Db) (env : Env) (fn : AggFn) (wl : Bool) (main : Sel) (T : Table) :
    (evalBodyA o db ((.named "lra_main", T) :: env) (aggSel fn wl main)).length =
      ((T.map (qualify "lra_main")).map aggKey).eraseDups.length := by
  have hk := aggSel_keyOf o ((.named "lra_main", T) :: env) fn wl
  simp only [aggSel, Sel.with_, Sel.setWiths, evalBodyA, sourceRowsA, sourceRows, List.lookup, beq_self_eq_true,
    Option.getD_some, Alias.text, List.foldl_nil, optB, Bool.and_self, List.isEmpty_cons,
    Bool.false_and, Bool.false_eq_true, if_false, List.isEmpty_nil, if_true, List.length_map]
  congr 2
  have hf : List.filter (fun _ => true) (List.map (qualify "lra_main") T) = List.map (qualify "lra_main") T := by simp
  rw [hf]
  apply List.map_congr_left
  intro r _
  exact hk r

/-- the stream and window `LRAPlanner` groups by: the fingerprint and the start of the range bucket of the timestamp -/
def lraKey (o : Oracles) (env : Env) (d : Nat) (r : Row) : List Val :=
  [r.get "fingerprint", evalE o env r (.mulOp (.call "intDiv" [.raw "time_series.timestamp_ns", .int d]) (.int d))]

theorem lraSel_keyOf (o : Oracles) (env : Env) (fn : RangeFn) (d : Nat) (r : Row) :
    let cols := [bucketCol "time_series.timestamp_ns" d, simpleCol "fingerprint" "fingerprint", emptyStr,
      Expr.col (lraValue fn (.int d)) "value"]
    [Expr.raw "fingerprint", Expr.raw "timestamp_ns"].map (fun g => evalE o env (aliasVals o env cols r ++ r) g) = lraKey o env d r := by
  cases fn <;>
    simp [aliasVals, hasAgg, aggNames, lraValue, perSecond, countF, bytesF, bucketCol, simpleCol, emptyStr, evalE, evalEs, Row.get,
      List.lookup, lraKey]

/-- **one point per (stream, range bucket)**: `LRAPlanner`'s select returns exactly one row for every distinct
    (fingerprint, `intDiv(ts, d) * d`) of the rows it reads, in order of first occurrence -/
theorem lraSel_groups (o : Oracles) (db : Db) (env : Env) (fn : RangeFn) (d : Nat) (main : Sel) (T : Table) :
    (evalBodyA o db ((.named "agg_a", T) :: env) (lraSel fn d false main)).length =
      ((T.map (qualify "time_series")).map (lraKey o ((.named "agg_a", T) :: env) d)).eraseDups.length := by
  have hk := lraSel_keyOf o ((.named "agg_a", T) :: env) fn d
  simp only [lraSel, Sel.with_, Sel.setWiths, evalBodyA, sourceRowsA, List.lookup, beq_self_eq_true,
    Option.getD_some, List.foldl_nil, optB, Bool.and_self, List.isEmpty_cons,
    Bool.false_and, Bool.false_eq_true, if_false, List.isEmpty_nil, if_true, List.length_map, List.append_nil]
  congr 2
  have hf : List.filter (fun _ => true) (List.map (qualify "time_series") T) = List.map (qualify "time_series") T := by simp
  rw [hf]
  apply List.map_congr_left
  intro r _
  exact hk r

def nullOracles : Oracles where
  reMatch := fun _ _ => false
  jsonLabels := fun _ => []
  isNum := fun _ => false
  numCmp := fun _ _ _ => false
  lower := id

/-- two streams, one point each at the same timestamp -/
def twoSeries : Table :=
  [[("fingerprint", .int 1), ("timestamp_ns", .int 0), ("value", .rat 1)],
   [("fingerprint", .int 2), ("timestamp_ns", .int 0), ("value", .rat 1)]]

/-- LogQL: a vector aggregation without `by`/`without` merges all series of a timestamp into one -/
def vector_agg_ungrouped_full : Prop :=
  ∀ (o : Oracles) (db : Db) (env : Env) (fn : AggFn) (main : Sel) (T : Table) (t : Val),
    (∀ r ∈ T, r.get "timestamp_ns" = t) →
    (evalBodyA o db ((.named "lra_main", T) :: env) (aggSel fn false main)).length ≤ 1

theorem vector_agg_ungrouped_counterexample : ¬ vector_agg_ungrouped_full := by
  intro h
  have := h nullOracles (fun _ => []) [] .sum emptySel twoSeries (.int 0) (by decide)
  revert this
  decide +kernel

end Qryn.LogQL

namespace Qryn.LogQL
open Qryn Qryn.Sql

/-! ### top/bottom-k over the rows of one timestamp -/
/-- the `(value, fingerprint[, labels])` tuples `groupArray` collects from the rows of one timestamp of `par_a` -/
def topTuples (hasLabels : Bool) (grp : List Row) : List (List Atom) :=
  grp.map (fun r =>
    [(r.get "par_a.value").toAtom, (r.get "par_a.fingerprint").toAtom] ++
      (if hasLabels then [(r.get "par_a.labels").toAtom] else []))

theorem topkAgg_eq (isTop hasLabels : Bool) (k : Nat) (grp : List Row) :
    topkAgg isTop hasLabels k grp =
      .tuples ((sortBy (if isTop then topLe else bottomLe) (topTuples hasLabels grp)).take k) := rfl

/-- `ARRAY JOIN par_b.slice AS arr_b`: one output row per tuple of the slice, carrying its components as `arr_b.1`, `arr_b.2`, … -/
theorem arrayJoin_rows (o : Oracles) (db : Db) (env : Env) (T : Table) :
    sourceRowsA o db ((.named "par_b", T) :: env)
        (.arrayJoinFrom (.withRef (.named "par_b")) (simpleCol "par_b.slice" "arr_b")) =
      (T.map (qualify "par_b")).flatMap (fun r =>
        match r.get "par_b.slice" with
        | .tuples ts => ts.map (fun t => r ++ tupleCols "arr_b" t)
        | _ => []) := by
  simp [sourceRowsA, sourceRows, List.lookup, Alias.text, simpleCol, evalE, colName]
  congr 1

end Qryn.LogQL
