import Qryn.Proofs.MetricXCorollaries
/-! C08: what depends on the physical order of the `samples` table, and what does not.
    `first_over_time` / `last_over_time` are `argMin` / `argMax` over the timestamp: among entries of one series with EQUAL
    timestamps the engine returns the value of whichever row it reads first (ClickHouse leaves it open; the table has no
    tie-breaker column). With pairwise distinct timestamps nothing depends on the row order. -/
namespace Qryn.LogQL
open Qryn Qryn.Sql

/-! ### first / last of a group -/
theorem firstBy_ne_nil (l : List (Int × Rat)) (h : l ≠ []) : ∃ v, firstBy l = some v := by
  cases l with
  | nil => exact absurd rfl h
  | cons p ps => exact ⟨_, rfl⟩

theorem lastBy_ne_nil (l : List (Int × Rat)) (h : l ≠ []) : ∃ v, lastBy l = some v := by
  cases l with
  | nil => exact absurd rfl h
  | cons p ps => exact ⟨_, rfl⟩

/-- two groups with the same members, timestamps pairwise distinct: the same `first_over_time` -/
theorem firstBy_same_members (l l' : List (Int × Rat)) (hmem : ∀ x, x ∈ l ↔ x ∈ l')
    (hdist : ∀ p ∈ l, ∀ q ∈ l, p.1 = q.1 → p = q) : firstBy l = firstBy l' := by
  cases hl : l with
  | nil =>
    cases hl' : l' with
    | nil => rfl
    | cons x xs => have := (hmem x).mpr (by rw [hl']; simp); rw [hl] at this; simp at this
  | cons a as =>
    have hne : l ≠ [] := by rw [hl]; simp
    have hne' : l' ≠ [] := by
      intro h; have := (hmem a).mp (by rw [hl]; simp); rw [h] at this; simp at this
    obtain ⟨v, hv⟩ := firstBy_ne_nil l hne
    obtain ⟨v', hv'⟩ := firstBy_ne_nil l' hne'
    rw [← hl, hv, hv']
    obtain ⟨t, ht, hmin⟩ := firstBy_spec l v hv
    obtain ⟨t', ht', hmin'⟩ := firstBy_spec l' v' hv'
    have h1 := hmin (t', v') ((hmem _).mpr ht')
    have h2 := hmin' (t, v) ((hmem _).mp ht)
    have : (t, v) = (t', v') := hdist _ ht _ ((hmem _).mpr ht') (by simp only at h1 h2 ⊢; omega)
    rw [(Prod.mk.inj this).2]

theorem lastBy_same_members (l l' : List (Int × Rat)) (hmem : ∀ x, x ∈ l ↔ x ∈ l')
    (hdist : ∀ p ∈ l, ∀ q ∈ l, p.1 = q.1 → p = q) : lastBy l = lastBy l' := by
  cases hl : l with
  | nil =>
    cases hl' : l' with
    | nil => rfl
    | cons x xs => have := (hmem x).mpr (by rw [hl']; simp); rw [hl] at this; simp at this
  | cons a as =>
    have hne : l ≠ [] := by rw [hl]; simp
    have hne' : l' ≠ [] := by
      intro h; have := (hmem a).mp (by rw [hl]; simp); rw [h] at this; simp at this
    obtain ⟨v, hv⟩ := lastBy_ne_nil l hne
    obtain ⟨v', hv'⟩ := lastBy_ne_nil l' hne'
    rw [← hl, hv, hv']
    obtain ⟨t, ht, hmax⟩ := lastBy_spec l v hv
    obtain ⟨t', ht', hmax'⟩ := lastBy_spec l' v' hv'
    have h1 := hmax (t', v') ((hmem _).mpr ht')
    have h2 := hmax' (t, v) ((hmem _).mp ht)
    have : (t, v) = (t', v') := hdist _ ht _ ((hmem _).mpr ht') (by simp only at h1 h2 ⊢; omega)
    rw [(Prod.mk.inj this).2]

/-- with a tie the order decides: the definition (`firstBy`, first such entry) and ClickHouse's `argMin` as modelled (first such
    row) alike follow the order the rows are read in -/
theorem first_over_time_tie_follows_row_order :
    firstBy [(5, 1), (5, 2)] = some 1 ∧ firstBy [(5, 2), (5, 1)] = some 2 ∧
    argMinAgg [(.rat 1, .int 5), (.rat 2, .int 5)] = .rat 1 ∧ argMinAgg [(.rat 2, .int 5), (.rat 1, .int 5)] = .rat 2 := by
  decide +kernel


/-! ### sorting is a function of the set of rows when no two of them tie -/
theorem sorted_unique {α} (le : α → α → Bool) :
    ∀ (l1 l2 : List α), l1.Pairwise (fun a b => le a b = true) → l2.Pairwise (fun a b => le a b = true) →
      l1.Nodup → l2.Nodup → (∀ x, x ∈ l1 ↔ x ∈ l2) →
      (∀ a ∈ l1, ∀ b ∈ l1, le a b = true → le b a = true → a = b) → l1 = l2 := by
  intro l1
  induction l1 with
  | nil =>
    intro l2 _ _ _ _ hmem _
    cases l2 with
    | nil => rfl
    | cons b t => have := (hmem b).mpr (by simp); simp at this
  | cons a t1 ih =>
    intro l2 hp1 hp2 hn1 hn2 hmem hanti
    cases l2 with
    | nil => have := (hmem a).mp (by simp); simp at this
    | cons b t2 =>
      have hp1' := List.pairwise_cons.mp hp1
      have hp2' := List.pairwise_cons.mp hp2
      have hn1' := List.nodup_cons.mp hn1
      have hn2' := List.nodup_cons.mp hn2
      have hab : a = b := by
        have hb1 : b ∈ a :: t1 := (hmem b).mpr (by simp)
        have ha2 : a ∈ b :: t2 := (hmem a).mp (by simp)
        rcases List.mem_cons.mp hb1 with h | h
        · exact h.symm
        · rcases List.mem_cons.mp ha2 with h' | h'
          · exact h'
          · exact hanti a (by simp) b hb1 (hp1'.1 b h) (hp2'.1 a h')
      subst hab
      congr 1
      apply ih t2 hp1'.2 hp2'.2 hn1'.2 hn2'.2
      · intro x
        constructor
        · intro hx
          have := (hmem x).mp (List.mem_cons_of_mem _ hx)
          rcases List.mem_cons.mp this with h | h
          · subst h; exact absurd hx hn1'.1
          · exact h
        · intro hx
          have := (hmem x).mpr (List.mem_cons_of_mem _ hx)
          rcases List.mem_cons.mp this with h | h
          · subst h; exact absurd hx hn2'.1
          · exact h
      · intro x hx y hy
        exact hanti x (List.mem_cons_of_mem _ hx) y (List.mem_cons_of_mem _ hy)

theorem sortBy_same_members {α} (le : α → α → Bool) (total : ∀ a b, le a b = true ∨ le b a = true)
    (trans : ∀ a b c, le a b = true → le b c = true → le a c = true) (l l' : List α)
    (hn : l.Nodup) (hn' : l'.Nodup) (hmem : ∀ x, x ∈ l ↔ x ∈ l')
    (hanti : ∀ a ∈ l, ∀ b ∈ l, le a b = true → le b a = true → a = b) : sortBy le l = sortBy le l' := by
  apply sorted_unique le _ _ (sortBy_pairwise le total trans l) (sortBy_pairwise le total trans l')
    ((sortBy_perm le l).nodup_iff.mpr hn) ((sortBy_perm le l').nodup_iff.mpr hn')
  · intro x; rw [mem_sortBy, mem_sortBy]; exact hmem x
  · intro a ha b hb
    exact hanti a ((mem_sortBy le l a).mp ha) b ((mem_sortBy le l b).mp hb)

/-- two tables with the same rows in any order, no two rows sharing a timestamp -/
structure Reordered (d d' : LokiDb) : Prop where
  gin : d.gin = d'.gin
  ts : d.ts = d'.ts
  nodup : d.samples.Nodup
  nodup' : d'.samples.Nodup
  mem : ∀ s, s ∈ d.samples ↔ s ∈ d'.samples
  distinct : ∀ s ∈ d.samples, ∀ s' ∈ d.samples, s.ts = s'.ts → s = s'

theorem tsLe_antisymm (c : Ctx) (a b : Sample) (h1 : tsLe c a b = true) (h2 : tsLe c b a = true) : a.ts = b.ts := by
  unfold tsLe at h1 h2
  cases hc : c.orderAsc <;> simp [hc] at h1 h2 <;> omega

theorem sortedSamples_reordered (c : Ctx) (d d' : LokiDb) (h : Reordered d d') (P : Sample → Bool) :
    sortBy (tsLe c) (d.samples.filter P) = sortBy (tsLe c) (d'.samples.filter P) := by
  apply sortBy_same_members (tsLe c) (tsLe_total c) (tsLe_trans c) _ _ (h.nodup.filter _) (h.nodup'.filter _)
  · intro x
    simp only [List.mem_filter]
    rw [h.mem x]
  · intro a ha b hb h1 h2
    exact h.distinct a (List.mem_filter.mp ha).1 b (List.mem_filter.mp hb).1 (tsLe_antisymm c a b h1 h2)

theorem sortedDb_reordered (c : Ctx) (d d' : LokiDb) (h : Reordered d d') : sortedDb c d = sortedDb c d' := by
  have hs := sortedSamples_reordered c d d' h (fun _ => true)
  have hf : ∀ l : List Sample, l.filter (fun _ => true) = l := fun l => by simp
  rw [hf, hf] at hs
  cases d; cases d'
  simp only [sortedDb] at hs ⊢
  have h1 := h.gin; have h2 := h.ts
  simp only at h1 h2
  rw [h1, h2, hs]

/-- **unwrapped range aggregations do not depend on the physical order of the table** when no two entries share a
    timestamp (first/last_over_time included) -/
theorem planMetric_unwrap_reordered (o : Oracles) (c : MCtx) (hn : c.namesOk) (d d' : LokiDb) (q : MetricQuery)
    (hsup : supportedU q = true) (h : Reordered d d') :
    (evalSelA o (d.toDbM c) (planMetric c q)).map normRow = (evalSelA o (d'.toDbM c) (planMetric c q)).map normRow := by
  rw [planMetric_unwrap_supported o c hn d q hsup, planMetric_unwrap_supported o c hn d' q hsup,
    sortedDb_reordered c.toCtx d d' h]

theorem sortedMatches_reordered (o : Oracles) (c : Ctx) (d d' : LokiDb) (q : LogQuery) (h : Reordered d d') :
    sortedMatches o c d q = sortedMatches o c d' q := by
  unfold sortedMatches
  have hm : entryMatches o c d q = entryMatches o c d' q := by
    funext s; unfold entryMatches; rw [fpSelected_congr o c d d' q h.gin h.ts]
  rw [hm]
  exact sortedSamples_reordered c d d' h _

theorem evalMetricX_reordered (o : Oracles) (c : MCtx) (d d' : LokiDb) (q : MetricQueryX) (h : Reordered d d') :
    evalMetricX o c d q = evalMetricX o c d' q := by
  have hl := labelsOf_congr o c.toCtx d d' q.range.sel h.gin h.ts
  have hj : entriesAtJoin o c.toCtx d q.range.sel = entriesAtJoin o c.toCtx d' q.range.sel := by
    rw [entriesAtJoin_eq, entriesAtJoin_eq, sortedMatches_reordered o c.toCtx d d' q.range.sel h]
    unfold joinEntry; rw [hl]
  have he : entriesX o c.toCtx d q.range = entriesX o c.toCtx d' q.range := by unfold entriesX; rw [hj]
  have hp : ∀ label, entryPtsX o c.toCtx d q.range label = entryPtsX o c.toCtx d' q.range label := by
    intro label
    unfold entryPtsX
    rw [he, limited0, limited0, sortedMatches_reordered o c.toCtx d d' q.range.sel h, hl]
  have hr : rangePointsX o c.toCtx d q.range = rangePointsX o c.toCtx d' q.range := by
    unfold rangePointsX
    simp only [he, hp]
  unfold evalMetricX metricPointsX
  rw [hr]

/-- the same for the labelled path -/
theorem planMetricX_reordered (o : Oracles) (c : MCtx) (hn : c.namesOk) (d d' : LokiDb) (q : MetricQueryX)
    (hsup : supportedX q = true) (h : Reordered d d') :
    (evalSelA o (d.toDbM c) (planMetricX c q)).map normRow = (evalSelA o (d'.toDbM c) (planMetricX c q)).map normRow := by
  rw [planMetricX_correct o c hn d q hsup, planMetricX_correct o c hn d' q hsup, evalMetricX_reordered o c d d' q h]

end Qryn.LogQL
