import Qryn.Proofs.Closed
import Qryn.Proofs.TextBytes
/-! C10: closedness (`rawC` / `rawE`) of the raw atoms the planners compute: decimal numbers, `%f` literals,
    names built from a fixed word and a counter (`subsel_<k>`, `labels_<k>`, `_<k>_pre_`), and compositions of
    fixed keyword fragments with such atoms. With these the hypotheses "the numbers render as closed text" of the
    per-planner theorems are discharged for ALL numbers. -/
namespace Qryn.Sql
open Qryn Qryn.Lex

theorem rawC_iff (x : Bytes) :
    rawC x = true ↔ x.head? ≠ some 39 ∧ ∀ q : St, q.entry = true → (run q x).1.ground = true := by
  constructor
  · intro h
    simp [rawC] at h
    refine ⟨h.2.2.1, ?_⟩
    intro q hq
    cases q <;> simp [St.entry] at hq
    · exact h.1
    · exact h.2.1
    · exact h.2.2.2
  · intro h
    simp [rawC]
    exact ⟨h.2 .normal rfl, h.2 .word rfl, h.1, h.2 .strQ rfl⟩

theorem rawE_iff (x : Bytes) : rawE x = true ↔ ∀ q : St, q.ground = true → (run q x).1.entry = true := by
  constructor
  · intro h q hq
    simp [rawE] at h
    cases q <;> simp [St.ground] at hq
    · exact h.1
    · exact h.2
  · intro h
    simp [rawE]
    exact ⟨h .normal rfl, h .word rfl⟩

theorem rawC_ne_nil {x : Bytes} (h : rawC x = true) : x ≠ [] := by
  rintro rfl
  have := ((rawC_iff _).mp h).2 .strQ rfl
  simp [run, St.ground] at this

theorem head?_append_of_ne_nil {x : Bytes} (y : Bytes) (h : x ≠ []) : (x ++ y).head? = x.head? := by
  cases x with
  | nil => exact absurd rfl h
  | cons c x => rfl

theorem rawC_toE {x : Bytes} (h : rawC x = true) : rawE x = true :=
  (rawE_iff x).mpr (fun q hq => ground_entry (((rawC_iff x).mp h).2 q (ground_entry hq)))

/-- keyword ++ keyword -/
theorem rawC_append {x y : Bytes} (hx : rawC x = true) (hy : rawC y = true) : rawC (x ++ y) = true := by
  rw [rawC_iff] at hx hy ⊢
  refine ⟨by rw [head?_append_of_ne_nil y (rawC_ne_nil ((rawC_iff x).mpr hx))]; exact hx.1, ?_⟩
  intro q hq
  rw [run_append]
  exact hy.2 _ (ground_entry (hx.2 q hq))

/-- keyword ++ atom -/
theorem rawC_appE {x y : Bytes} (hx : rawC x = true) (hy : rawE y = true) : rawE (x ++ y) = true := by
  rw [rawE_iff] at hy ⊢
  intro q hq
  rw [run_append]
  exact hy _ (((rawC_iff x).mp hx).2 q (ground_entry hq))

/-- keyword ++ atom ++ keyword -/
theorem rawC_wrap {x y z : Bytes} (hx : rawC x = true) (hy : rawE y = true) (hz : rawC z = true) :
    rawC (x ++ y ++ z) = true := by
  have hxne := rawC_ne_nil hx
  rw [rawC_iff] at hx hz ⊢
  rw [rawE_iff] at hy
  refine ⟨by rw [List.append_assoc, head?_append_of_ne_nil _ hxne]; exact hx.1, ?_⟩
  intro q hq
  rw [run_append, run_append]
  exact hz.2 _ (hy _ (hx.2 q hq))

/-- atom ++ keyword, from a ground state -/
theorem rawE_appC {x y : Bytes} (hx : rawE x = true) (hy : rawC y = true) : rawE (x ++ y) = true := by
  rw [rawE_iff] at hx ⊢
  intro q hq
  rw [run_append]
  exact ground_entry (((rawC_iff y).mp hy).2 _ (hx q hq))

/-! ### words -/
def allWord (w : Bytes) : Bool := w.all isWordByte

theorem step_entry_word (q : St) (hq : q.entry = true) (c : UInt8) (hc : isWordByte c = true) : (step q c).1 = .word := by
  have hs := wordByte_not_special c hc
  cases q <;> simp [St.entry] at hq <;> simp [step, stepNormal, hc, hs.1, hs.2.1, hs.2.2.1, hs.2.2.2.1, hs.2.2.2.2]

theorem run_fst_cons (q : St) (c : UInt8) (s : Bytes) : (run q (c :: s)).1 = (run (step q c).1 s).1 := by
  simp [run]

theorem run_word_fst (s : Bytes) (h : allWord s = true) : (run .word s).1 = .word := by
  have := run_word s (by simpa [allWord] using h)
  rw [this]

/-- a non-empty word read from an entry state leaves the lexer inside a bareword -/
theorem run_entry_word (q : St) (hq : q.entry = true) (w : Bytes) (hw : allWord w = true) (hne : w ≠ []) :
    (run q w).1 = .word := by
  cases w with
  | nil => exact absurd rfl hne
  | cons c s =>
    simp [allWord] at hw
    rw [run_fst_cons, step_entry_word q hq c hw.1]
    exact run_word_fst s (by simpa [allWord] using hw.2)

theorem rawC_word {w : Bytes} (hw : allWord w = true) (hne : w ≠ []) : rawC w = true := by
  rw [rawC_iff]
  constructor
  · cases w with
    | nil => exact absurd rfl hne
    | cons c s =>
      simp [allWord] at hw
      have := (wordByte_not_special c hw.1).1
      simpa using this
  · intro q hq
    rw [run_entry_word q hq w hw hne]; rfl

theorem rawE_word {w : Bytes} (hw : allWord w = true) : rawE w = true := by
  cases w with
  | nil => decide
  | cons c s => exact rawC_toE (rawC_word hw (by simp))

theorem allWord_append {x y : Bytes} (hx : allWord x = true) (hy : allWord y = true) : allWord (x ++ y) = true := by
  simp [allWord] at *
  exact ⟨hx, hy⟩

theorem isDigitB_word : ∀ c : UInt8, isDigitB c = true → isWordByte c = true := by
  apply forall_byte_of_lt; decide +kernel

theorem allWord_natDigits (n : Nat) : allWord (natDigits n) = true := by
  simp only [allWord, List.all_eq_true]
  exact fun c hc => isDigitB_word c (natDigits_digits n c hc)

/-- **every natural number renders as closed text** -/
theorem rawE_natDigits (n : Nat) : rawE (natDigits n) = true := rawE_word (allWord_natDigits n)
theorem rawC_natDigits (n : Nat) : rawC (natDigits n) = true := rawC_word (allWord_natDigits n) (natDigits_ne_nil n)

theorem step_minus_word (c : UInt8) (hc : isWordByte c = true) : (step .minus c).1 = .word := by
  have hs := wordByte_not_special c hc
  simp [step, stepNormal, hc, hs.1, hs.2.1, hs.2.2.1, hs.2.2.2.1, hs.2.2.2.2]

theorem rawE_minus_word {w : Bytes} (hw : allWord w = true) (hne : w ≠ []) : rawE (45 :: w) = true := by
  rw [rawE_iff]
  intro q hq
  cases w with
  | nil => exact absurd rfl hne
  | cons c s =>
    simp [allWord] at hw
    have h1 : (step q 45).1 = .minus := by cases q <;> simp [St.ground] at hq <;> simp [step, stepNormal, isWordByte]
    rw [run_fst_cons, h1, run_fst_cons, step_minus_word c hw.1, run_word_fst s (by simpa [allWord] using hw.2)]
    rfl

/-- **every integer renders as closed text** (a `-` and digits; read from a ground state) -/
theorem rawE_intText (i : Int) : rawE (intText i) = true := by
  rw [intText_eq]
  by_cases h : i < 0
  · simp only [h, if_true]
    exact rawE_minus_word (allWord_natDigits _) (natDigits_ne_nil _)
  · simp only [h, if_false]
    exact rawE_natDigits _

/-- a non-negative integer is a word (it may be glued to a preceding word: `subsel_` ++ k) -/
theorem allWord_intText_nonneg (i : Int) (h : 0 ≤ i) : allWord (intText i) = true := by
  rw [intText_eq]
  have : ¬ i < 0 := by omega
  simp only [this, if_false]
  exact allWord_natDigits _

/-! ### texts built with `toString` and `++` -/
theorem allWord_b_toStringNat (n : Nat) : allWord (b (toString n)) = true := allWord_natDigits n

theorem b_join : ∀ (acc : String) (l : List String), b (l.foldl (fun r s => r ++ s) acc) = b acc ++ (l.map b).flatten
  | acc, [] => by simp
  | acc, s :: l => by
    simp only [List.foldl_cons, List.map_cons, List.flatten_cons]
    rw [b_join (acc ++ s) l, b_append, List.append_assoc]

theorem allWord_flatten : ∀ l : List Bytes, (∀ x ∈ l, allWord x = true) → allWord l.flatten = true
  | [], _ => rfl
  | x :: l, h => by
    simp only [List.flatten_cons]
    exact allWord_append (h x (by simp)) (allWord_flatten l (fun y hy => h y (by simp [hy])))

/-- `String.join (ds.map toString)` for naturals -/
theorem allWord_joinNats (ds : List Nat) : allWord (b (String.join (ds.map toString))) = true := by
  rw [String.join, b_join, b_empty, List.nil_append]
  apply allWord_flatten
  intro x hx
  simp only [List.map_map, List.mem_map, Function.comp] at hx
  rcases hx with ⟨n, _, rfl⟩
  exact allWord_natDigits n

theorem b_replicate_zero (n : Nat) : b (String.ofList (List.replicate n '0')) = List.replicate n 48 := by
  rw [b_ofList]
  induction n with
  | zero => rfl
  | succ n ih =>
    rw [List.replicate_succ, List.flatMap_cons, ih, List.replicate_succ]
    have : String.utf8EncodeChar '0' = [48] := by decide +kernel
    rw [this]; rfl

theorem allWord_replicate_zero (n : Nat) : allWord (List.replicate n 48) = true := by
  simp [allWord, isWordByte]

theorem b_dot : b "." = [46] := by decide +kernel

/-- **every `%f` literal the planners print (`fixedText`) is one word: digits and a point** -/
theorem allWord_fixedText (units scale : Nat) : allWord (b (fixedText units scale)) = true := by
  unfold fixedText
  simp only [b_append]
  refine allWord_append (allWord_append (allWord_append (allWord_natDigits _) (by rw [b_dot]; decide)) ?_) ?_
  · by_cases h : scale = 0
    · simp only [h, if_true, b_empty]; rfl
    · simp only [h, if_false, b_append]
      exact allWord_append (by rw [b_replicate_zero]; exact allWord_replicate_zero _) (allWord_natDigits _)
  · rw [b_replicate_zero]; exact allWord_replicate_zero _

theorem fixedText_ne_nil (units scale : Nat) : b (fixedText units scale) ≠ [] := by
  unfold fixedText
  simp only [b_append, b_dot]
  simp

theorem rawE_fixedText (units scale : Nat) : rawE (b (fixedText units scale)) = true :=
  rawE_word (allWord_fixedText units scale)

theorem kw_asOpen : rawC (b " as (") = true := by decide +kernel

end Qryn.Sql
