import Qryn.Read.ConfineSearch
import Qryn.Tempo.Legacy
import Qryn.Proofs.ConfineRead
import Qryn.Proofs.Sort
/-! C13 for the legacy Tempo search: every plan of `Tempo.planSearch` — any tags, limit, durations, window, version
    state — is `searchConfined`, and what it returns lies in the window. -/
namespace Qryn.Confine
open Qryn Qryn.Sql Qryn.Tempo

/-- the classification the theorems need of the tables the request names -/
structure SearchCfg (cfg : Cfg) (r : SearchReq) : Prop where
  traces : cfg.kind r.tracesTable = .data
  tracesDist : cfg.kind r.tracesDistTable = .data
  attrs : cfg.kind (attrsTable r) = .index

/-! ### the conjuncts of a per-tag sub-select -/

/-- a comparison leaf: stays one conjunct -/
def Leaf (e : Expr) : Prop := splice e = [e]

theorem leaf_logical (fn : String) (cs : List Expr) (h : fn ≠ "and") : Leaf (.logical fn cs) := splice_logical fn cs h

theorem tagCond_leaf (op : TagOp) (v : Bytes) : Leaf (tagCond op v) := by
  cases op <;> exact leaf_logical _ _ (by decide)

theorem tagBase_leaf (t : Tag) : ∀ e ∈ tagBase t, Leaf e := by
  intro e he
  simp only [tagBase, List.mem_cons, List.not_mem_nil, or_false] at he
  rcases he with rfl | rfl
  · exact leaf_logical _ _ (by decide)
  · exact tagCond_leaf _ _

theorem fromPart_leaf (r : SearchReq) (v2 : Bool) : ∀ e ∈ fromPart r v2, Leaf e := by
  intro e he
  unfold fromPart at he
  split at he
  · cases v2 <;> simp at he <;> (try rcases he with rfl | rfl) <;> (try subst he) <;> exact leaf_logical _ _ (by decide)
  · cases he

theorem toPart_leaf (r : SearchReq) (v2 : Bool) : ∀ e ∈ toPart r v2, Leaf e := by
  intro e he
  unfold toPart at he
  split at he
  · cases v2 <;> simp at he <;> (try rcases he with rfl | rfl) <;> (try subst he) <;> exact leaf_logical _ _ (by decide)
  · cases he

theorem durPart_leaf (r : SearchReq) (v2 : Bool) : ∀ e ∈ durPart r v2, Leaf e := by
  intro e he
  unfold durPart at he
  rcases List.mem_append.mp he with h | h
  · split at h
    · simp only [List.mem_singleton] at h; subst h; exact leaf_logical _ _ (by decide)
    · cases h
  · split at h
    · simp only [List.mem_singleton] at h; subst h; exact leaf_logical _ _ (by decide)
    · cases h

theorem tagConds_leaf (r : SearchReq) (ver : VersionInfo) (t : Tag) : ∀ e ∈ tagConds r ver t, Leaf e := by
  intro e he
  simp only [tagConds, List.mem_append] at he
  rcases he with ((h | h) | h) | h
  · exact tagBase_leaf t e h
  · exact fromPart_leaf r _ e h
  · exact toPart_leaf r _ e h
  · exact durPart_leaf r _ e h

theorem conjuncts_tagSel (r : SearchReq) (ver : VersionInfo) (t : Tag) :
    conjuncts (selWhere (tagSel r ver t)) = tagConds r ver t := by
  simp only [tagSel, selWhere]
  exact conjuncts_and_flat _ (tagConds_leaf r ver t)

/-- the check `bodyConfined` makes of every conjunct of an index scan -/
def dateFine (w : Window) (e : Expr) : Bool :=
  !mentionsDate e ||
    (match dateLower e with
     | some d => (lowerInstants w).any (fun t => Time.formatDate t == d)
     | none => match dateUpper e with
       | some d => (upperInstants w).any (fun t => Time.formatDate t == d)
       | none => false)

theorem tagCond_dateFine (w : Window) (op : TagOp) (v : Bytes) : dateFine w (tagCond op v) = true := by
  cases op <;> simp [dateFine, tagCond, mentionsDate, eq, neq, matchVal, isDateCol]

theorem tagBase_dateFine (w : Window) (t : Tag) : (tagBase t).all (dateFine w) = true := by
  simp only [tagBase, List.all_cons, List.all_nil, Bool.and_true, Bool.and_eq_true]
  exact ⟨by simp [dateFine, mentionsDate, eq, isDateCol], tagCond_dateFine w _ _⟩

theorem fromPart_dateFine (r : SearchReq) (v2 : Bool) : (fromPart r v2).all (dateFine (winSearch r)) = true := by
  unfold fromPart
  split
  · cases v2 <;>
      simp [dateFine, mentionsDate, ge, isDateCol, dateLower, dateOf, lowerInstants, winSearch, secOf]
  · rfl

theorem toPart_dateFine (r : SearchReq) (v2 : Bool) : (toPart r v2).all (dateFine (winSearch r)) = true := by
  unfold toPart
  split
  · cases v2 <;>
      simp [dateFine, mentionsDate, le, isDateCol, dateLower, dateUpper, dateOf, upperInstants, winSearch, secOf]
  · rfl

theorem durPart_dateFine (w : Window) (r : SearchReq) (v2 : Bool) : (durPart r v2).all (dateFine w) = true := by
  unfold durPart
  rw [List.all_append]
  have h1 : (if (decide (r.minDurNs > 0) && v2) = true then [ge (.raw "duration") (.int r.minDurNs)] else []).all (dateFine w) = true := by
    split <;> simp [dateFine, mentionsDate, ge, isDateCol]
  have h2 : (if (decide (r.maxDurNs > 0) && v2) = true then [lt (.raw "duration") (.int r.maxDurNs)] else []).all (dateFine w) = true := by
    split <;> simp [dateFine, mentionsDate, lt, isDateCol]
  simp only [h1, h2, Bool.and_self]

/-- **every per-tag sub-select is a confined index scan**: lower date bound = the UTC day of `from`, upper = the UTC day
    of `to`, nothing else on the date column -/
theorem tagSel_confined (cfg : Cfg) (r : SearchReq) (ver : VersionInfo) (h : SearchCfg cfg r) (hf : 0 < r.fromNs) (t : Tag) :
    bodyConfined cfg (winSearch r) [] (tagSel r ver t) = true := by
  have hc := conjuncts_tagSel r ver t
  simp only [tagSel, selWhere] at hc
  simp only [tagSel, bodyConfined, fromTable, h.attrs, conjuncts_none, List.nil_append, hc]
  simp only [Bool.and_eq_true, Bool.or_eq_true]
  refine ⟨?_, Or.inl ⟨?_, by simp [winSearch]⟩⟩
  · have : (tagConds r ver t).all (dateFine (winSearch r)) = true := by
      simp only [tagConds, List.all_append, Bool.and_eq_true]
      exact ⟨⟨⟨tagBase_dateFine _ t, fromPart_dateFine r _⟩, toPart_dateFine r _⟩, durPart_dateFine _ r _⟩
    exact this
  · simp only [tagConds, List.any_append, Bool.or_eq_true]
    refine Or.inl (Or.inl (Or.inr ?_))
    unfold fromPart
    simp [hf, dateLower, ge, isDateCol, dateOf]

end Qryn.Confine

namespace Qryn.Confine
open Qryn Qryn.Sql Qryn.Tempo

/-! ### the span read -/
theorem filterMap_plain (l : List Expr) :
    List.filterMap ((fun c => match c with | SCond.plain e => some e | SCond.inIdx _ _ => none) ∘ SCond.plain) l = l := by
  induction l with
  | nil => rfl
  | cons x xs ih => simp [ih]

theorem filterMap_plain_idx (l : List Expr) :
    List.filterMap ((fun c => match c with | SCond.inIdx _ q => some q | SCond.plain _ => none) ∘ SCond.plain) l = [] := by
  induction l with
  | nil => rfl
  | cons x xs ih => simp [ih]

theorem plainConds_planSearch (r : SearchReq) (ver : VersionInfo) : (planSearch r ver).plainConds = spanConds r := by
  unfold planSearch SearchStmt.plainConds
  cases r.tags <;> simp [List.filterMap_map] <;> exact filterMap_plain _

theorem idxs_planSearch (r : SearchReq) (ver : VersionInfo) :
    (planSearch r ver).idxs = (match r.tags with | some tags => [idxQuery r ver tags] | none => []) := by
  unfold planSearch SearchStmt.idxs
  cases r.tags <;> simp [List.filterMap_map] <;> exact filterMap_plain_idx _

theorem spanTimeConds_pos (r : SearchReq) (hf : 0 < r.fromNs) (ht : 0 < r.toNs) :
    spanTimeConds r = [gt (.raw "start_time_unix_nano") (.int r.fromNs), le (.raw "start_time_unix_nano") (.int r.toNs)] := by
  simp [spanTimeConds, hf, ht]

theorem unalias_start (fn : String) (v : Expr) :
    unalias searchCols (.logical fn [.raw "start_time_unix_nano", v]) = .logical fn [.raw "timestamp_ns", v] := by
  have : (aliasList searchCols).lookup "start_time_unix_nano" = some (.raw "timestamp_ns") := by
    simp [aliasList, searchCols, List.lookup]
  simp [unalias, this, isTsCol]

/-- the span scan of every plan carries both timestamp bounds, exactly the window `(from, to]` -/
theorem planSearch_spanBounded (r : SearchReq) (ver : VersionInfo) (hf : 0 < r.fromNs) (ht : 0 < r.toNs) :
    spanBounded (winSearch r) (planSearch r ver) = true := by
  unfold spanBounded
  rw [plainConds_planSearch]
  have hcols : (planSearch r ver).cols = searchCols := rfl
  simp only [hcols, spanConds, spanTimeConds_pos r hf ht, List.cons_append, List.nil_append, List.flatMap_cons, List.map_append,
    List.map_cons, gt, le, splice_logical ">" _ (by decide), splice_logical "<=" _ (by decide), List.singleton_append, unalias_start,
    List.any_cons, Bool.and_eq_true, Bool.or_eq_true]
  constructor
  · exact Or.inl (by simp [isLowerTs, isTsCol, winSearch]; omega)
  · exact Or.inr (Or.inl (by simp [isUpperTs, isTsCol, winSearch]))

/-- **planSearch_confined.** -/
theorem planSearch_confined (cfg : Cfg) (r : SearchReq) (ver : VersionInfo) (h : SearchCfg cfg r)
    (hf : 0 < r.fromNs) (ht : 0 < r.toNs) : searchConfined cfg (winSearch r) (planSearch r ver) = true := by
  unfold searchConfined
  simp only [Bool.and_eq_true, Bool.or_eq_true]
  refine ⟨⟨?_, ?_⟩, Or.inl (planSearch_spanBounded r ver hf ht)⟩
  · unfold planSearch
    cases r.cluster <;> simp [h.traces, h.tracesDist]
  · rw [idxs_planSearch]
    cases r.tags with
    | none => rfl
    | some tags =>
      simp only [List.all_cons, List.all_nil, Bool.and_true, idxDatesOk, idxQuery, List.all_map, List.all_eq_true]
      intro t _
      exact tagSel_confined cfg r ver h hf t

end Qryn.Confine

namespace Qryn.Confine
open Qryn Qryn.Sql Qryn.Tempo

/-! ### what the statement returns -/
/-- a returned row is a span row (with its alias columns) that passes every conjunct -/
theorem searchRows_sub (o : Oracles) (db : SearchDb) (st : SearchStmt) (row : Row) (h : row ∈ searchRows o db st) :
    (∃ s ∈ db.spans, row = aliasRow o st.cols s) ∧ st.conds.all (scondHolds o db row) = true := by
  have hk : row ∈ (db.spans.map (aliasRow o st.cols)).filter (fun r => st.conds.all (scondHolds o db r)) := by
    unfold searchRows at h
    simp only at h
    have ho : ∀ l : Table, row ∈ (if st.orderBy.isEmpty then l else sortBy (rowLe (rawOrderKeys st.orderBy)) l) → row ∈ l := by
      intro l hl
      split at hl
      · exact hl
      · exact (mem_sortBy _ _ _).mp hl
    split at h
    · exact ho _ (List.mem_of_mem_take h)
    · exact ho _ h
  obtain ⟨hm, hc⟩ := List.mem_filter.mp hk
  obtain ⟨s, hs, rfl⟩ := List.mem_map.mp hm
  exact ⟨⟨s, hs, rfl⟩, hc⟩

theorem cmp_gt_int (o : Oracles) (r : Row) (c : String) (f : Int)
    (h : condHolds o r (gt (.raw c) (.int f)) = true) : ∃ t, r.get c = .int t ∧ f < t := by
  have hn : normDate (gt (.raw c) (.int f)) = gt (.raw c) (.int f) := rfl
  simp only [condHolds, hn, evalB, evalE_gt, evalE_raw, evalE_int, truthy_boolVal] at h
  cases hv : r.get c <;> simp_all [cmpOp, Val.cmpLt]

theorem cmp_le_int (o : Oracles) (r : Row) (c : String) (f : Int)
    (h : condHolds o r (le (.raw c) (.int f)) = true) : ∃ t, r.get c = .int t ∧ t ≤ f := by
  have hn : normDate (le (.raw c) (.int f)) = le (.raw c) (.int f) := rfl
  simp only [condHolds, hn, evalB, evalE_le, evalE_raw, evalE_int, truthy_boolVal] at h
  cases hv : r.get c <;> simp_all [cmpOp, Val.cmpLe]

/-- the alias column WHERE compares is the span's own timestamp (unless the table had a column of that name) -/
theorem aliasRow_start (o : Oracles) (s : Row) (h : s.lookup "start_time_unix_nano" = none) :
    (aliasRow o searchCols s).get "start_time_unix_nano" = s.get "timestamp_ns" := by
  simp [aliasRow, aliasList, searchCols, Row.get, List.lookup_append, h, List.lookup]

/-- **planSearch_rows_in_window.** Every row the statement of any request returns, in any version state, over any
    database: its `start_time_unix_nano` is an integer in `(from, to]`. -/
theorem planSearch_rows_in_window (o : Oracles) (db : SearchDb) (r : SearchReq) (ver : VersionInfo)
    (hf : 0 < r.fromNs) (ht : 0 < r.toNs) (row : Row) (h : row ∈ searchRows o db (planSearch r ver)) :
    (∃ s ∈ db.spans, row = aliasRow o searchCols s) ∧
    ∃ ts, row.get "start_time_unix_nano" = .int ts ∧ r.fromNs < ts ∧ ts ≤ r.toNs := by
  obtain ⟨hs, hc⟩ := searchRows_sub o db _ row h
  refine ⟨hs, ?_⟩
  have hall := List.all_eq_true.mp hc
  have hmem : ∀ e ∈ spanTimeConds r, SCond.plain e ∈ (planSearch r ver).conds := by
    intro e he
    unfold planSearch
    simp only [List.mem_append, List.mem_map, spanConds]
    exact Or.inr ⟨e, Or.inl he, rfl⟩
  rw [spanTimeConds_pos r hf ht] at hmem
  have h1 := hall _ (hmem (gt (.raw "start_time_unix_nano") (.int r.fromNs)) (by simp))
  have h2 := hall _ (hmem (le (.raw "start_time_unix_nano") (.int r.toNs)) (by simp))
  simp only [scondHolds] at h1 h2
  obtain ⟨t1, e1, l1⟩ := cmp_gt_int o row _ _ h1
  obtain ⟨t2, e2, l2⟩ := cmp_le_int o row _ _ h2
  rw [e1] at e2
  injection e2 with e2
  subst e2
  exact ⟨t1, e1, l1, l2⟩

end Qryn.Confine

namespace Qryn.Confine
open Qryn Qryn.Sql Qryn.Tempo

/-! ### which version states put timestamp bounds into the index request -/
theorem tagConds_ts_bounded (r : SearchReq) (ver : VersionInfo) (t : Tag) (hf : 0 < r.fromNs) (ht : 0 < r.toNs) :
    ((tagConds r ver t).any (isLowerTs (winSearch r)) && (tagConds r ver t).any (isUpperTs (winSearch r))) =
      isVersionSupported ver v2name r.fromNs := by
  cases hv : isVersionSupported ver v2name r.fromNs <;> cases hop : t.op <;>
    simp [tagConds, hv, hop, tagBase, fromPart, toPart, durPart, hf, ht, tagCond, matchVal, isLowerTs, isUpperTs, eq, neq, ge, le, lt,
      isTsCol, winSearch, dateOf] <;>
    (by_cases h1 : 0 < r.minDurNs <;> by_cases h2 : 0 < r.maxDurNs <;> simp [h1, h2, isLowerTs, isUpperTs, ge, lt, isTsCol])

/-- the index request alone confines (one of its sub-selects has both timestamp bounds) exactly when there is a tag and
    tempo_v2 is supported for the window -/
theorem idxBounded_iff (r : SearchReq) (ver : VersionInfo) (tags : List Tag) (hf : 0 < r.fromNs) (ht : 0 < r.toNs) :
    idxBounded (winSearch r) (idxQuery r ver tags) = (!tags.isEmpty && isVersionSupported ver v2name r.fromNs) := by
  unfold idxBounded idxQuery
  simp only [List.any_map]
  have : ∀ t : Tag, ((fun s => (conjuncts (selWhere s)).any (isLowerTs (winSearch r)) && (conjuncts (selWhere s)).any (isUpperTs (winSearch r))) ∘
      tagSel r ver) t = isVersionSupported ver v2name r.fromNs := by
    intro t
    simp only [Function.comp, conjuncts_tagSel]
    exact tagConds_ts_bounded r ver t hf ht
  rw [funext this]
  cases tags with
  | nil => rfl
  | cons t ts => cases hv : isVersionSupported ver v2name r.fromNs <;> simp

end Qryn.Confine

namespace Qryn.Confine
open Qryn Qryn.Sql Qryn.Tempo

/-! ### the counter-pattern: span time bounds dropped when an index request is given -/
theorem spanDurConds_unbounded (w : Window) (r : SearchReq) :
    (((spanDurConds r).flatMap splice).map (unalias searchCols)).any (isLowerTs w) = false := by
  unfold spanDurConds
  by_cases h1 : 0 < r.minDurNs <;> by_cases h2 : 0 < r.maxDurNs <;>
    simp [h1, h2, gt, le, splice_logical, unalias, aliasList, searchCols, isTsCol, isLowerTs, List.lookup]

theorem idx_only_confined (cfg : Cfg) (r : SearchReq) (ver : VersionInfo) (tags : List Tag) (h : SearchCfg cfg r)
    (htags : r.tags = some tags) (hf : 0 < r.fromNs) (ht : 0 < r.toNs) :
    searchConfined cfg (winSearch r) (planSearchIdxOnly r ver) =
      (!tags.isEmpty && isVersionSupported ver v2name r.fromNs) := by
  have hp : (planSearchIdxOnly r ver).plainConds = spanDurConds r := by
    simp only [planSearchIdxOnly, htags, SearchStmt.plainConds, List.filterMap_append, List.filterMap_cons, List.filterMap_nil,
      List.nil_append, List.filterMap_map]
    exact filterMap_plain _
  have hi : (planSearchIdxOnly r ver).idxs = [idxQuery r ver tags] := by
    simp only [planSearchIdxOnly, htags, SearchStmt.idxs, List.filterMap_append, List.filterMap_cons, List.filterMap_nil,
      List.filterMap_map]
    have := filterMap_plain_idx (spanDurConds r)
    simp only [List.cons_append, List.nil_append] at *
    exact congrArg _ this
  have hc : (planSearchIdxOnly r ver).cols = searchCols := by simp [planSearchIdxOnly, htags, planSearch]
  have ht' : cfg.kind (planSearchIdxOnly r ver).table = .data := by
    simp only [planSearchIdxOnly, htags, planSearch]
    cases r.cluster <;> simp [h.traces, h.tracesDist]
  have hd : idxDatesOk cfg (winSearch r) (idxQuery r ver tags) = true := by
    simp only [idxDatesOk, idxQuery, List.all_map, List.all_eq_true]
    intro t _
    exact tagSel_confined cfg r ver h hf t
  unfold searchConfined spanBounded
  rw [hp, hi, hc, ht']
  simp only [spanDurConds_unbounded, Bool.false_and, Bool.false_or]
  simp [hd, idxBounded_iff r ver tags hf ht]

end Qryn.Confine

namespace Qryn.Tempo
open Qryn

/-! ### the decision function of the version state -/
theorem foldl_lookup (name : Bytes) (rows : List (Bytes × Bytes)) : ∀ m : VersionInfo,
    (rows.foldl verStep m).lookup name =
      (match lastParsed name rows with | some t => some t | none => m.lookup name) := by
  induction rows with
  | nil => intro m; rfl
  | cons r rs ih =>
    intro m
    simp only [List.foldl_cons, ih, lastParsed]
    cases hl : lastParsed name rs with
    | some t => rfl
    | none =>
      cases hp : parseInt64 r.2 with
      | none => simp [verStep, hp]
      | some t =>
        simp only [verStep, hp, List.lookup]
        cases hn : name == r.1 <;> simp

/-- **which windows a feature is supported for**: the last settings row of that name whose value parses as an int64 decides,
    through `fromNS >= value * 1000000000` in int64 arithmetic; no such row — not supported for any window. (`v5` is the
    one name `GetVersionInfo` may add by itself.) -/
theorem isVersionSupported_versionInfo (rows : List (Bytes × Bytes)) (tables : List Bytes) (name : Bytes) (fromNs : Int)
    (hn : (name == asciiB "v5") = false) :
    isVersionSupported (versionInfo rows tables) name fromNs =
      (match lastParsed name rows with
       | some t => decide (wrap64 (t * 1000000000) ≤ fromNs)
       | none => false) := by
  have hl : (versionInfo rows tables).lookup name = lastParsed name rows := by
    unfold versionInfo
    simp only
    split
    · rw [foldl_lookup]; cases lastParsed name rows <;> rfl
    · simp only [List.lookup, hn]
      rw [foldl_lookup]; cases lastParsed name rows <;> rfl
  unfold isVersionSupported
  rw [hl]
  cases lastParsed name rows <;> rfl

end Qryn.Tempo

namespace Qryn.Confine
open Qryn Qryn.Sql Qryn.Tempo

/-! ### trace by id -/
/-- the window a trace-by-id request asks for: `[start, end)` -/
def winQuery (q : QueryReq) : Window := ⟨q.startNs, q.endNs, 0, false, 0⟩

theorem queryConds_leaf (q : QueryReq) : ∀ e ∈ queryConds q, Leaf e := by
  intro e he
  simp only [queryConds, List.mem_append, List.mem_singleton] at he
  rcases he with (rfl | h) | h
  · exact leaf_logical _ _ (by decide)
  · split at h
    · simp only [List.mem_singleton] at h; subst h; exact leaf_logical _ _ (by decide)
    · cases h
  · split at h
    · simp only [List.mem_singleton] at h; subst h; exact leaf_logical _ _ (by decide)
    · cases h

theorem queryInner_confined (cfg : Cfg) (q : QueryReq) (ok : List Alias)
    (h1 : cfg.kind q.tracesTable = .data) (h2 : cfg.kind q.tracesDistTable = .data)
    (hs : q.startNs ≠ 0) (he : q.endNs ≠ 0) : bodyConfined cfg (winQuery q) ok (queryInner q) = true := by
  have hc : conjuncts (some (and_ (queryConds q))) = queryConds q := conjuncts_and_flat _ (queryConds_leaf q)
  have hk : cfg.kind (if q.cluster then q.tracesDistTable else q.tracesTable) = .data := by cases q.cluster <;> simp [h1, h2]
  simp only [queryInner, bodyConfined, fromTable, hk, conjuncts_none, List.nil_append, hc]
  simp only [Bool.or_eq_true, Bool.and_eq_true]
  refine Or.inl ⟨⟨?_, ?_⟩, by simp [winQuery]⟩
  · simp [queryConds, hs, he, isLowerTs, isTsCol, ge, winQuery]
  · simp [queryConds, hs, he, isUpperTs, isTsCol, lt, eq, ge, winQuery]

/-- **queryRequest_confined.** -/
theorem queryRequest_confined (cfg : Cfg) (q : QueryReq)
    (h1 : cfg.kind q.tracesTable = .data) (h2 : cfg.kind q.tracesDistTable = .data)
    (hs : q.startNs ≠ 0) (he : q.endNs ≠ 0) : confined cfg (winQuery q) (queryRequest q) = true := by
  have hb := queryInner_confined cfg q [] h1 h2 hs he
  unfold queryRequest confined
  simp only [withsConfined, hb, Bool.true_and, Bool.and_true]
  simp [bodyConfined, fromTable]

end Qryn.Confine

namespace Qryn.Confine
open Qryn Qryn.Sql Qryn.Tempo

/-! ### soundness of the span-scan rule for ANY statement of the shape (the one the driver applies to the statements the
    real code sends) -/
theorem lookup_mapSnd {α β : Type} (l : List (String × α)) (f : α → β) (k : String) :
    (l.map (fun p => (p.1, f p.2))).lookup k = (l.lookup k).map f := by
  induction l with
  | nil => rfl
  | cons p rest ih =>
    simp only [List.map_cons, List.lookup]
    split <;> simp_all

theorem aliasRow_get_base (o : Oracles) (cols : List Expr) (s : Row) (c : String) (v : Val) (h : s.lookup c = some v) :
    (aliasRow o cols s).get c = v := by
  simp [aliasRow, Row.get, List.lookup_append, h]

theorem aliasRow_get_alias (o : Oracles) (cols : List Expr) (s : Row) (c : String) (e : Expr)
    (hs : s.lookup c = none) (ha : (aliasList cols).lookup c = some e) : (aliasRow o cols s).get c = evalE o [] s e := by
  simp [aliasRow, Row.get, List.lookup_append, hs, lookup_mapSnd, ha]

/-- what `unalias` can turn into a comparison of a column with an integer -/
theorem unalias_shape (cols : List Expr) (e : Expr) (fn c : String) (f : Int)
    (h : unalias cols e = .logical fn [.raw c, .int f]) :
    e = .logical fn [.raw c, .int f] ∨
    ∃ c0, e = .logical fn [.raw c0, .int f] ∧ (aliasList cols).lookup c0 = some (.raw c) ∧ isTsCol c = true := by
  unfold unalias at h
  split at h
  · next fn' c0 v =>
    split at h
    · next c' hl =>
      split at h
      · next hts =>
        injection h with h1 h2
        injection h2 with h2 h3
        injection h2 with h2
        injection h3 with h3 _
        subst h1 h2 h3
        exact Or.inr ⟨c0, rfl, hl, hts⟩
      · exact Or.inl h
    · exact Or.inl h
  · exact Or.inl h

theorem normDate_int (fn c : String) (f : Int) : normDate (.logical fn [.raw c, .int f]) = .logical fn [.raw c, .int f] := rfl

theorem normDate_and (cs : List Expr) : normDate (.logical "and" cs) = .logical "and" cs := by
  unfold normDate
  split
  · next fn l d heq =>
    injection heq with h1 h2
    subst h1 h2
    simp
  · rfl

theorem lookup_some_key {β : Type} (l : List (String × β)) (k : String) (v : β) (h : l.lookup k = some v) : k ∈ l.map (·.1) := by
  induction l with
  | nil => cases h
  | cons e rest ih =>
    obtain ⟨k', v'⟩ := e
    simp only [List.lookup] at h
    split at h
    · next heq => simp [eq_of_beq heq]
    · simp [ih h]

/-- a conjunct a row passes: each of its spliced parts that is a column-vs-integer comparison holds of the row -/
theorem condHolds_splice (o : Oracles) (row : Row) (e0 : Expr) (h : condHolds o row e0 = true)
    (fn c : String) (f : Int) (he : .logical fn [.raw c, .int f] ∈ splice e0) :
    evalB o [] row (.logical fn [.raw c, .int f]) = true := by
  by_cases hx : ∃ cs, e0 = .logical "and" cs
  · obtain ⟨cs, rfl⟩ := hx
    simp only [condHolds, normDate_and] at h
    exact splice_holds o [] row _ h _ he
  · have hs : splice e0 = [e0] := by
      unfold splice
      split
      · rename_i cs; exact absurd ⟨cs, rfl⟩ hx
      · rfl
    rw [hs, List.mem_singleton] at he
    subst he
    simpa [condHolds, normDate_int] using h

/-- one recognised bound of the span scan, carried from the alias row to a timestamp column of that row -/
theorem bound_carried {P : Int → Prop} (o : Oracles) (cols : List Expr) (s : Row) (p : Expr → Bool) (e0 e : Expr)
    (hA : ∀ a ∈ (aliasList cols).map (·.1), s.lookup a = none)
    (hshape : ∀ x, p x = true → ∃ fn c f, x = .logical fn [.raw c, .int f] ∧ fn ≠ "and" ∧ fn ≠ "or")
    (hsound : ∀ (r : Row) (x : Expr), p x = true → evalB o [] r x = true → ∃ c ts, isTsCol c = true ∧ r.get c = .int ts ∧ P ts)
    (hh : condHolds o (aliasRow o cols s) e0 = true) (he : e ∈ splice e0) (hp : p (unalias cols e) = true) :
    ∃ c ts, isTsCol c = true ∧ (aliasRow o cols s).get c = .int ts ∧ P ts := by
  obtain ⟨fn, c, f, hu, h1, h2⟩ := hshape _ hp
  rcases unalias_shape cols e fn c f hu with rfl | ⟨c0, rfl, hl, _⟩
  · -- written on the column itself
    have hev := condHolds_splice o _ e0 hh fn c f he
    rw [hu] at hp
    exact hsound _ _ hp hev
  · -- written on an alias of a timestamp column: the alias column of the row is that column of the span
    have hev := condHolds_splice o _ e0 hh fn c0 f he
    have hnone : s.lookup c0 = none := hA _ (lookup_some_key (aliasList cols) c0 _ hl)
    have hget : (aliasRow o cols s).get c0 = s.get c := by
      rw [aliasRow_get_alias o cols s c0 _ hnone hl]; simp
    have hev' : evalB o [] s (.logical fn [.raw c, .int f]) = true := by
      have e1 := evalE_cmp (o := o) (env := []) (r := aliasRow o cols s) fn (.raw c0) (.int f) h1 h2
      have e2 := evalE_cmp (o := o) (env := []) (r := s) fn (.raw c) (.int f) h1 h2
      simp only [evalB, e1, e2, evalE_raw, evalE_int, hget] at hev ⊢
      exact hev
    rw [hu] at hp
    obtain ⟨c', ts, hc', hg', hP⟩ := hsound s _ hp hev'
    refine ⟨c', ts, hc', ?_, hP⟩
    cases hlk : s.lookup c' with
    | none => simp [Row.get, hlk] at hg'
    | some v =>
      rw [aliasRow_get_base o cols s c' v hlk]
      simpa [Row.get, hlk] using hg'

theorem isLowerTs_shape (w : Window) (x : Expr) (h : isLowerTs w x = true) :
    ∃ fn c f, x = .logical fn [.raw c, .int f] ∧ fn ≠ "and" ∧ fn ≠ "or" := by
  unfold isLowerTs at h
  split at h
  · exact ⟨_, _, _, rfl, by decide, by decide⟩
  · exact ⟨_, _, _, rfl, by decide, by decide⟩
  · cases h

theorem isUpperTs_shape (w : Window) (x : Expr) (h : isUpperTs w x = true) :
    ∃ fn c f, x = .logical fn [.raw c, .int f] ∧ fn ≠ "and" ∧ fn ≠ "or" := by
  unfold isUpperTs at h
  split at h
  · exact ⟨_, _, _, rfl, by decide, by decide⟩
  · exact ⟨_, _, _, rfl, by decide, by decide⟩
  · cases h

/-- **spanBounded_sound.** For ANY statement of the shape: if the span scan is bounded (`spanBounded`), every row it
    returns has an integer timestamp column not below `from − slack` and one not above `to + slack` — provided the span
    table has no column named like an alias of the SELECT list (so that an alias in WHERE means the aliased column). -/
theorem spanBounded_sound (o : Oracles) (w : Window) (db : SearchDb) (st : SearchStmt) (hb : spanBounded w st = true)
    (hA : ∀ s ∈ db.spans, ∀ a ∈ (aliasList st.cols).map (·.1), s.lookup a = none)
    (row : Row) (h : row ∈ searchRows o db st) :
    (∃ c ts, isTsCol c = true ∧ row.get c = .int ts ∧ w.fromNs - w.slackNs ≤ ts) ∧
    (∃ c ts, isTsCol c = true ∧ row.get c = .int ts ∧ ts ≤ w.toNs + w.slackNs) := by
  obtain ⟨⟨s, hs, rfl⟩, hc⟩ := searchRows_sub o db st row h
  have hall := List.all_eq_true.mp hc
  simp only [spanBounded, Bool.and_eq_true, List.any_map, List.any_eq_true, Function.comp] at hb
  obtain ⟨⟨e1, he1, hp1⟩, ⟨e2, he2, hp2⟩⟩ := hb
  have pick : ∀ e, e ∈ st.plainConds.flatMap splice → ∃ e0, condHolds o (aliasRow o st.cols s) e0 = true ∧ e ∈ splice e0 := by
    intro e he
    obtain ⟨e0, he0, hes⟩ := List.mem_flatMap.mp he
    refine ⟨e0, ?_, hes⟩
    simp only [SearchStmt.plainConds, List.mem_filterMap] at he0
    obtain ⟨cnd, hcm, hce⟩ := he0
    cases cnd with
    | inIdx l q => cases hce
    | plain e' =>
      injection hce with hce; subst hce
      exact hall _ hcm
  obtain ⟨a1, ha1, hs1⟩ := pick e1 he1
  obtain ⟨a2, ha2, hs2⟩ := pick e2 he2
  exact ⟨bound_carried o st.cols s (isLowerTs w) a1 e1 (hA s hs) (isLowerTs_shape w)
      (fun r x hx hev => lower_sound o [] r w x hx hev) ha1 hs1 hp1,
    bound_carried o st.cols s (isUpperTs w) a2 e2 (hA s hs) (isUpperTs_shape w)
      (fun r x hx hev => upper_sound o [] r w x hx hev) ha2 hs2 hp2⟩

end Qryn.Confine
