import Qryn.Proofs.PlanClosed
import Qryn.Proofs.WfBuild
import Qryn.LogQL.PlannerX
import Qryn.LogQL.PlannerSeries
import Qryn.Proofs.PlanLogXSplit
/-! C10: the atoms of the extended LogQL log planner model `planLogX` / `planScript` (the SQL-side pipeline stages
    `| json l="path"`, `| regexp`, `| drop` and the filters placed after them) and of the series / label-values
    planners are well formed (`wfSel`), for every context with closed table names and EVERY query: labels and path parts
    of the json parser, group names and pattern of the regexp parser, names and values of drop, needles, regexes and
    label-filter values are string leaves. -/
namespace Qryn.LogQL
open Qryn Qryn.Sql Qryn.Lex

/-! ### the objects of the label-rewriting stages -/

theorem kw_reMid1 : rawC (b "] as re_lbls_") = true := by decide +kernel
theorem kw_reMid2 : rawC (b ",  arrayMap(x -> x[length(x)], extractAllGroupsHorizontal(string, ") = true := by decide +kernel
theorem kw_rePost1 : rawC (b ")) as re_vals_") = true := by decide +kernel
theorem kw_rePost2 : rawC (b "),arrayFilter((x,y) -> x != '' AND y != '', re_vals_") = true := by decide +kernel
theorem kw_rePost3 : rawC (b ", re_lbls_") = true := by decide +kernel
theorem kw_rePost4 : rawC (b "))") = true := by decide +kernel

/-- the raw text between the label list and the pattern of `regexMap.String` is closed for EVERY id -/
theorem rawC_regexMid (id : Nat) : rawC (regexMid id) = true := by
  unfold regexMid
  exact rawC_append (rawC_append kw_reMid1 (rawC_natDigits id)) kw_reMid2

theorem rawC_regexPost (id : Nat) : rawC (regexPost id) = true := by
  unfold regexPost
  exact rawC_append (rawC_append (rawC_append (rawC_append (rawC_append (rawC_append kw_rePost1 (rawC_natDigits id)) kw_rePost2)
    (rawC_natDigits id)) kw_rePost3) (rawC_natDigits id)) kw_rePost4

theorem wf_regexMap (names : List Bytes) (re : Bytes) (id : Nat) : wfExpr (.regexMap names re id) = true := by
  simp only [wfExpr, rawC_regexMid, rawC_regexPost, Bool.and_self]

theorem wf_jsonMap (ps : List (Bytes × List JArg)) : wfExpr (.jsonMap ps) = true := by
  simp only [wfExpr, List.all_eq_true]
  intro p _ a _
  cases a with
  | key k => rfl
  | idx i => exact rawE_intText i

theorem kw_mapUpdate : rawC (b "mapUpdate" ++ b "(") = true := by decide +kernel

/-- `chExpr`: the labels expression after any list of label-rewriting stages -/
theorem wf_chExpr : ∀ (cs : List Changer) (rid : Nat) (base : Expr), wfExpr base = true → wfExpr (chExpr rid base cs).1 = true
  | [], _, _, h => by simpa [chExpr] using h
  | .json ps :: rest, rid, base, h => by
    simp only [chExpr]
    exact wf_chExpr rest rid _ (by simp only [wfExpr, wfExprs, kw_mapUpdate, h, wf_jsonMap ps, Bool.and_self])
  | .regexp names re :: rest, rid, base, h => by
    simp only [chExpr]
    exact wf_chExpr rest (rid + 1) _ (by simp only [wfExpr, wfExprs, kw_mapUpdate, h, rawC_regexMid, rawC_regexPost, Bool.and_self])
  | .drop ps :: rest, rid, base, h => by
    simp only [chExpr]
    exact wf_chExpr rest rid _ (by simpa only [wfExpr] using h)

/-! ### filters after a label-rewriting stage: the label getter is `labels[<name>]` -/

theorem kw_labelsRaw : rawE (b "labels") = true := by decide +kernel

theorem wf_labelCondMap : ∀ lc : LabelCond, wfExpr (labelCondSql labelGetterMap lc) = true
  | .str l op v => by
    cases op <;>
      simp only [labelCondSql, labelGetterMap, eq, neq, wfExpr, wfExprs, Bool.and_eq_true, Bool.and_true, kw_labelsRaw] <;> decide +kernel
  | .num l op v => by
    have hn : rawE (b (numText v)) = true := rawE_word (allWord_numText v)
    cases op <;>
      simp only [labelCondSql, labelGetterMap, and_, eq, neq, gt, ge, lt, le, wfExpr, wfExprs, Bool.and_eq_true, Bool.and_true,
        kw_labelsRaw, hn] <;>
      decide +kernel
  | .and l r => by
    simp only [labelCondSql, and_, wfExpr, wfExprs, Bool.and_true, wf_labelCondMap l, wf_labelCondMap r]
    decide +kernel
  | .or l r => by
    simp only [labelCondSql, or_, wfExpr, wfExprs, Bool.and_true, wf_labelCondMap l, wf_labelCondMap r]
    decide +kernel

theorem wf_stageClause (s : Stage) : wfExpr (stageClause s) = true := by
  cases s with
  | line f => exact wf_lineClause f
  | label lc => exact wf_labelCondMap lc

theorem wf_stageClauses : ∀ fs : List Stage, wfExprs (fs.map stageClause) = true
  | [] => by simp [wfExprs]
  | f :: fs => by simp [wfExprs, wf_stageClause f, wf_stageClauses fs]

/-! ### one run = one SELECT -/

theorem wfJoins_joinSpec (c : Ctx) : wfJoins [joinSpec c] = true := by
  cases hcl : c.isCluster <;>
    simp only [joinSpec, eq, wfJoins, wfExpr, wfExprs, hcl, if_true, if_false, Bool.and_eq_true, Bool.and_true, Alias.text] <;>
    decide +kernel

/-- ORDER BY / LIMIT handed to the last run -/
def TailOK (ob : List Expr) (lim : Option Expr) : Prop :=
  wfExprs ob = true ∧ ∀ l, lim = some l → wfExpr l = true

theorem wf_runSel (c : Ctx) (src : Option Nat) (rid : Nat) (r : Run) (ob : List Expr) (lim : Option Expr) (ht : TailOK ob lim) :
    wfSelBody (runSel c src rid r ob lim).1 = true := by
  have ho := ht.1
  cases lim with
  | none =>
    cases src with
    | none =>
      cases r with
      | ch cs =>
        have h1 := wf_chExpr cs rid (.raw "_time_series.labels") (by simp only [wfExpr]; decide +kernel)
        simp only [runSel, wfSelBody, wfExprs, wfExpr, simpleCol, wfJoins_joinSpec, h1, ho, Bool.and_eq_true, Bool.and_true, Alias.text]
        decide +kernel
      | fl fs =>
        have h1 := wf_stageClauses fs
        simp only [runSel, wfSelBody, wfExprs, wfExpr, simpleCol, wfJoins_joinSpec, and_, h1, ho, Bool.and_eq_true, Bool.and_true,
          Alias.text]
        decide +kernel
    | some k =>
      have hk : rawE (b (Alias.sub k).text) = true := rawE_word (allWord_subText k)
      cases r with
      | ch cs =>
        have h1 := wf_chExpr cs rid (.raw "samples.labels") (by simp only [wfExpr]; decide +kernel)
        simp only [runSel, wfSelBody, wfExprs, wfExpr, simpleCol, wfJoins, h1, hk, ho, Bool.and_eq_true, Bool.and_true]
        decide +kernel
      | fl fs =>
        have h1 := wf_stageClauses fs
        simp only [runSel, wfSelBody, wfExprs, wfExpr, simpleCol, wfJoins, and_, h1, hk, ho, Bool.and_eq_true, Bool.and_true]
        decide +kernel
  | some l =>
    have hl := ht.2 l rfl
    cases src with
    | none =>
      cases r with
      | ch cs =>
        have h1 := wf_chExpr cs rid (.raw "_time_series.labels") (by simp only [wfExpr]; decide +kernel)
        simp only [runSel, wfSelBody, wfExprs, wfExpr, simpleCol, wfJoins_joinSpec, h1, ho, hl, Bool.and_eq_true, Bool.and_true, Alias.text]
        decide +kernel
      | fl fs =>
        have h1 := wf_stageClauses fs
        simp only [runSel, wfSelBody, wfExprs, wfExpr, simpleCol, wfJoins_joinSpec, and_, h1, ho, hl, Bool.and_eq_true, Bool.and_true,
          Alias.text]
        decide +kernel
    | some k =>
      have hk : rawE (b (Alias.sub k).text) = true := rawE_word (allWord_subText k)
      cases r with
      | ch cs =>
        have h1 := wf_chExpr cs rid (.raw "samples.labels") (by simp only [wfExpr]; decide +kernel)
        simp only [runSel, wfSelBody, wfExprs, wfExpr, simpleCol, wfJoins, h1, hk, ho, hl, Bool.and_eq_true, Bool.and_true]
        decide +kernel
      | fl fs =>
        have h1 := wf_stageClauses fs
        simp only [runSel, wfSelBody, wfExprs, wfExpr, simpleCol, wfJoins, and_, h1, hk, ho, hl, Bool.and_eq_true, Bool.and_true]
        decide +kernel

theorem tailOK_nil : TailOK [] none := ⟨by simp [wfExprs], fun _ h => by cases h⟩

theorem kw_prefinalAs : rawC (b (Alias.named "prefinal").text ++ b " as (") = true := by decide +kernel

theorem wf_planRuns (c : Ctx) (ob : List Expr) (lim : Option Expr) (ht : TailOK ob lim) :
    ∀ (rs : List Run) (src : Option Nat) (k rid : Nat), wfWiths (planRuns c ob lim src k rid rs) = true
  | [], _, _, _ => by simp [planRuns, wfWiths]
  | [r], src, k, rid => by
    simp only [planRuns, wfWiths, wf_runSel c src rid r ob lim ht, kw_prefinalAs, Bool.and_self]
  | r :: r' :: rest, src, k, rid => by
    have hk : rawC (b (Alias.sub k).text ++ b " as (") = true :=
      rawC_append (rawC_word (allWord_subText k) (subText_ne_nil k)) kw_asOpen
    have ih := wf_planRuns c ob lim ht (r' :: rest) (some k) (k + 1) (runSel c src rid r [] none).2
    simp only [planRuns, wfWiths, wf_runSel c src rid r [] none tailOK_nil, ih, hk, Bool.and_self]

/-! ### the whole plan -/

theorem tablesOK_limCtx (c : Ctx) (fin : Bool) (h : TablesOK c) : TablesOK (limCtx c fin) := ⟨h.gin, h.samples, h.ts, h.tsDist⟩
theorem tablesOK_lim0 (c : Ctx) (h : TablesOK c) : TablesOK { c with limit := 0 } := ⟨h.gin, h.samples, h.ts, h.tsDist⟩

theorem wf_finalCols : wfExprs finalCols = true := by
  simp only [finalCols, simpleCol, wfExprs, wfExpr, Bool.and_eq_true, Bool.and_true]
  decide +kernel

theorem wf_finalOrder (c : Ctx) (fin : Bool) : wfExprs (finalOrder c fin) = true := by
  cases fin <;> cases hd : c.orderAsc <;>
    simp only [finalOrder, dirOf, hd, wfExprs, wfExpr, if_true, Bool.and_eq_true, Bool.and_true, Bool.false_eq_true, if_false] <;>
    decide +kernel

theorem tailOK_runs (c : Ctx) (fin : Bool) :
    TailOK [.orderBy (.raw "timestamp_ns") (dirOf c)]
      (if (limCtx c fin).limit = 0 then none else some (.int (limCtx c fin).limit)) := by
  refine ⟨?_, ?_⟩
  · simp only [wfExprs, wfExpr, Bool.and_true]; decide +kernel
  · intro l hl
    split at hl
    · cases hl
    · injection hl with hl
      subst hl
      simp only [wfExpr]
      exact rawE_intText _

/-- the pre-stages of the query (those before the first label-rewriting stage) as a `LogQuery` -/
def preQuery (q : LogQueryX) : LogQuery := ⟨q.matchers, (splitPre q.stages).1⟩

/-- **`planLogX`**: for every context with closed table names, every `finalize` flag and every query whose label
    filters placed BEFORE the first parser / drop (decided on the series table with `JSONExtractString(labels, 'name')`)
    have `LabelName` tokens as names, the statement is well formed for its leaves. -/
theorem wf_planLogX (c : Ctx) (fin : Bool) (q : LogQueryX) (ht : TablesOK c)
    (hn : ∀ lc ∈ labelConds (preQuery q), condNamesOK lc) : wfSel (planLogX c fin q) = true := by
  have ha := atomsOK_of_tables c (preQuery q) ht
  have hq := queryOK_of_names (preQuery q) hn
  have hchain := wf_fpChain c ha.ts (labelConds (preQuery q)) 0 _ (wf_streamSelect c (preQuery q) ha) hq.conds hq.subs
  have hts := wf_timeSeriesSel c (preQuery q) ha
  have hfc := wf_finalCols
  have hfo := wf_finalOrder c fin
  rw [planLogX_eq_split]
  unfold planLogXSplit
  simp only
  cases hpost : (splitPre q.stages).2 with
  | nil =>
    have hm := wf_mainSel (limCtx c fin) (preQuery q) (atomsOK_of_tables _ _ (tablesOK_limCtx c fin ht))
    have h2 : wfWiths [(.named "main", mainSel (limCtx c fin) (preQuery q)), (.named "_time_series", timeSeriesSel c),
        (.named "prefinal", joinedSel c)] = true := by
      simp only [wfWiths, hm, hts, wf_joinedSel c, Bool.and_true, Bool.and_eq_true, Alias.text]
      decide +kernel
    have hw := wfWiths_append _ _ hchain h2
    simp only [preQuery] at hw
    simp only [wfSel, wfSelBody, wfExprs, wfExpr, wfJoins, hw, hfc, hfo, Bool.and_eq_true, Bool.and_true, Alias.text]
    decide +kernel
  | cons st rest =>
    have hm := wf_mainSel { c with limit := 0 } (preQuery q) (atomsOK_of_tables _ _ (tablesOK_lim0 c ht))
    have h2 : wfWiths [(.named "main", mainSel { c with limit := 0 } (preQuery q)), (.named "_time_series", timeSeriesSel c)] = true := by
      simp only [wfWiths, hm, hts, Bool.and_true, Bool.and_eq_true, Alias.text]
      decide +kernel
    have h3 := wf_planRuns c _ _ (tailOK_runs c fin) (groupRuns (st :: rest)) none
      ((labelConds (preQuery q)).length + 1) 1
    have hw := wfWiths_append _ _ (wfWiths_append _ _ hchain h2) h3
    simp only [preQuery] at hw
    simp only [wfSel, wfSelBody, wfExprs, wfExpr, wfJoins, hw, hfc, hfo, Bool.and_eq_true, Bool.and_true, Alias.text]
    decide +kernel

/-- **`planScript`**: what `logql_transpiler_v2.Plan` hands to ClickHouse for a script (the stages before the first
    in-process-only one; LIMIT iff none) -/
theorem wf_planScript (c : Ctx) (matchers : List Matcher) (ss : List ScriptStage) (ht : TablesOK c)
    (hn : ∀ lc ∈ labelConds (preQuery ⟨matchers, sqlPrefix ss⟩), condNamesOK lc) :
    wfSel (planScript c matchers ss) = true :=
  wf_planLogX c (finalizes ss) ⟨matchers, sqlPrefix ss⟩ ht hn

/-! ### series and label values (`match[]`, the label name of the URL path) -/

theorem wf_fpSelWith (c : Ctx) (ms : List Matcher) (ht : TablesOK c) : withOK (fpSelWith c ms) := by
  have ha := atomsOK_of_tables c ⟨ms, []⟩ ht
  have hb := wf_streamSelect c ⟨ms, []⟩ ha
  refine ⟨by simp only [fpSelWith]; decide +kernel, ?_⟩
  simp only [fpSelWith, wfSel_eq, hb, Bool.and_true]
  simp [streamSelect, Sel.withs, wfWiths]

theorem wf_limitOf (c : Ctx) : ∀ l, limitOf c = some l → wfExpr l = true := by
  intro l h
  unfold limitOf at h
  split at h
  · injection h with h; subst h; simp only [wfExpr]; exact rawE_intText _
  · cases h

theorem wfSel_setLimitOpt (s : Sel) (l : Option Expr) (hs : wfSel s = true) (hl : ∀ x, l = some x → wfExpr x = true) :
    wfSel (s.setLimit l) = true := by
  cases l with
  | some x => exact wfSel_setLimit s x hs (hl x rfl)
  | none =>
    cases s with
    | mk ws d c f j p w g h o l =>
      simp only [Sel.setLimit, wfSel, wfSelBody, Bool.and_eq_true] at hs ⊢
      cases f <;> cases p <;> cases w <;> cases h <;> cases l <;> simp_all [wfSelBody]

/-- **`planSeries`** (`/loki/api/v1/series`, `/api/v1/series`: the `match[]` selectors) -/
theorem wf_planSeries (c : Ctx) (ms : List Matcher) (ht : TablesOK c) : wfSel (planSeries c ms) = true := by
  unfold planSeries
  refine wfSel_setLimitOpt _ _ ?_ (wf_limitOf c)
  refine wfSel_with_ _ _ ?_ (fun w hw => by simp only [List.mem_singleton] at hw; subst hw; exact wf_fpSelWith c ms ht)
  have hg := wf_getTypes c (rawE_intText _)
  cases hcl : c.isCluster <;>
    simp only [wfSelBody, wfExprs, wfExpr, wfJoins, simpleCol, and_, ge, le, hcl, if_true, hg, ht.ts, ht.tsDist, Bool.and_eq_true, Bool.and_true,
      Alias.text, Bool.false_eq_true, if_false] <;>
    decide +kernel

theorem wf_valuesBase (c : Ctx) (key : Bytes) (ht : TablesOK c) : wfSel (valuesBase c key) = true := by
  have hg := wf_getTypes c (rawE_intText _)
  simp only [valuesBase, wfSel, wfWiths, wfSelBody, wfExprs, wfExpr, wfJoins, and_, ge, le, eq, hg, ht.gin, Bool.and_eq_true, Bool.and_true]
  decide +kernel

/-- **`planValues`** (`/loki/api/v1/label/{name}/values`, `/api/v1/label/{name}/values`): the label name of the URL is a
    leaf (ANY bytes), the optional `match[]` selector as in `planSeries` -/
theorem wf_planValues (c : Ctx) (key : Bytes) (ms : Option (List Matcher)) (ht : TablesOK c) :
    wfSel (planValues c key ms) = true := by
  unfold planValues
  refine wfSel_setLimitOpt _ _ ?_ (wf_limitOf c)
  cases ms with
  | none => exact wf_valuesBase c key ht
  | some ms =>
    simp only
    refine wfSel_andWhere _ _ ?_ (by simp only [wfExprs, wfExpr, Bool.and_true, Alias.text]; decide +kernel)
    exact wfSel_with_ _ _ (wfSel_body (wf_valuesBase c key ht))
      (fun w hw => by simp only [List.mem_singleton] at hw; subst hw; exact wf_fpSelWith c ms ht)

end Qryn.LogQL

namespace Qryn.LogQL
open Qryn Qryn.Sql Qryn.Lex

/-- a byte of the LogQL `LabelName` class is not rewritten by the escape (decided over the regenerated table and classes) -/
theorem esc1_labelClass : ∀ c : UInt8,
    (inRanges Gen.logqlLabelName c = true ∨ inRanges Gen.logqlMacrosFunction c = true) → esc1 c = [c] := by
  apply forall_byte_of_lt; decide +kernel

theorem escapeBody_labelClass : ∀ s : Bytes,
    (∀ d ∈ s, inRanges Gen.logqlLabelName d = true ∨ inRanges Gen.logqlMacrosFunction d = true) → escapeBody s = s
  | [], _ => escapeBody_nil
  | c :: s, h => by
    rw [escapeBody_cons, esc1_labelClass c (h c (by simp)), escapeBody_labelClass s (fun d hd => h d (by simp [hd]))]
    rfl

/-- The label getter of a label filter placed after a parser / drop: the code writes `labels['<name>']` with
    `fmt.Sprintf("labels['%s']", name)` — NOT escaped; the model writes the name as a leaf. For a `LabelName` token (the
    only thing the LogQL grammar admits there) the two texts are the same bytes. -/
theorem labelGetterMap_text (name : String) (h : LabelClass name) :
    renderExpr (labelGetterMap name) = b "labels['" ++ b name ++ b "']" := by
  have hq : quote (b name) = 39 :: b name ++ [39] := by
    unfold quote
    rw [escapeBody_labelClass (b name) h]
  have e1 : b "labels['" = b "labels" ++ b "[" ++ [39] := by decide +kernel
  have e2 : b "']" = [39] ++ b "]" := by decide +kernel
  simp only [labelGetterMap, renderExpr]
  show b "labels" ++ b "[" ++ quote (b name) ++ b "]" = _
  rw [hq, e1, e2]
  simp [List.append_assoc]

end Qryn.LogQL
