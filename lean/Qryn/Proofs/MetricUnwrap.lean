import Qryn.Proofs.MetricUnion
/-! C08 plan-level proofs: range aggregations over unwrapped values (`LabelsJoinPlanner` + `UnwrapPlanner` on the samples
    side, `ByWithoutPlanner.processSimple`, `UnwrapFunctionPlanner`). -/
namespace Qryn.LogQL
open Qryn Qryn.Sql

theorem argMax_fold_rel (l : List (Val × Val)) (l' : List (Int × Rat)) (b : Val × Val) (b' : Int × Rat)
    (hb : numOf? b.1 = some b'.2 ∧ b.2 = .int b'.1)
    (h : l.map (fun x => (numOf? x.1, x.2)) = l'.map (fun y => (some y.2, Val.int y.1))) :
    numOf? (l.foldl (fun best q => if keyInt best.2 < keyInt q.2 then q else best) b).1 =
      some (l'.foldl (fun best q => if best.1 < q.1 then q else best) b').2 := by
  induction l generalizing l' b b' with
  | nil =>
    cases l' with
    | nil => exact hb.1
    | cons y l' => simp at h
  | cons x l ih =>
    cases l' with
    | nil => simp at h
    | cons y l' =>
      simp only [List.map_cons, List.cons.injEq, Prod.mk.injEq] at h
      simp only [List.foldl_cons]
      have hk : keyInt x.2 = y.1 := by rw [h.1.2]; rfl
      have hkb : keyInt b.2 = b'.1 := by rw [hb.2]; rfl
      rw [hk, hkb]
      by_cases hc : b'.1 < y.1
      · simp only [hc, if_true]; exact ih l' x y ⟨h.1.1, h.1.2⟩ h.2
      · simp only [hc, if_false]; exact ih l' b b' hb h.2

theorem argMax_rel (l : List (Val × Val)) (l' : List (Int × Rat))
    (h : l.map (fun x => (numOf? x.1, x.2)) = l'.map (fun y => (some y.2, Val.int y.1))) :
    numOf? (argMaxAgg l) = lastBy l' := by
  cases l with
  | nil =>
    cases l' with
    | nil => rfl
    | cons y l' => simp at h
  | cons x l =>
    cases l' with
    | nil => simp at h
    | cons y l' =>
      simp only [List.map_cons, List.cons.injEq, Prod.mk.injEq] at h
      simp only [argMaxAgg, lastBy]
      exact argMax_fold_rel l l' x y ⟨h.1.1, h.1.2⟩ h.2

/-! ### the direct reading's range stage over unwrapped values, on points -/
def uwKey (d : Nat) (p : Pt) : Val × Int := (p.key, bucketOf d p.ts)

/-- one point per (series, range bucket) of the entry points, in order of first occurrence -/
def unwrapCore (fn : UnwrapFn) (d : Nat) (pts : List Pt) : List Pt :=
  (groupsBy (uwKey d) pts).filterMap (fun g =>
    (unwrapVal fn d (g.2.map (fun p => (p.ts, p.value)))).map (fun v =>
      ⟨g.1.1, (g.2.head?.map (·.labels)).getD .null, g.1.2, v⟩))

def unwrapValD (fn : UnwrapFn) (d : Nat) (grp : List (Int × Rat)) : Rat := (unwrapVal fn d grp).getD 0

theorem unwrapVal_some (fn : UnwrapFn) (d : Nat) (grp : List (Int × Rat)) (hne : grp ≠ [])
    (hfn : fn ≠ .stdvarOT ∧ fn ≠ .stddevOT) : unwrapVal fn d grp = some (unwrapValD fn d grp) := by
  cases grp with
  | nil => exact absurd rfl hne
  | cons p ps => cases fn <;> simp_all [unwrapVal, unwrapValD, firstBy, lastBy]

theorem unwrapCore_eq (fn : UnwrapFn) (hfn : fn ≠ .stdvarOT ∧ fn ≠ .stddevOT) (d : Nat) (pts : List Pt) :
    unwrapCore fn d pts = (groupsBy (uwKey d) pts).map (fun g =>
      ⟨g.1.1, (g.2.head?.map (·.labels)).getD .null, g.1.2, unwrapValD fn d (g.2.map (fun p => (p.ts, p.value)))⟩) := by
  unfold unwrapCore
  apply filterMap_eq_map_of
  intro g hg
  obtain ⟨⟨a, rest, hgr, _⟩, _⟩ := groupsBy_head _ pts g hg
  rw [unwrapVal_some fn d _ (by rw [hgr]; simp) hfn]
  rfl

/-! ### `UnwrapFunctionPlanner`'s select -/
def uwCols (fn : UnwrapFn) (d : Nat) : List Expr :=
  [bucketCol "timestamp_ns" d, .raw "fingerprint", emptyStr, .col (unwrapValue fn (secLit d)) "value",
   .col (.call "any" [.raw "labels"]) "labels"]

def uwBody (fn : UnwrapFn) (d : Nat) (hv : Option Expr) : Sel :=
  .mk [] false (uwCols fn d) (some (.withRef (.named "unwrap_1"))) [] none none
    [.raw "fingerprint", .raw "timestamp_ns"] hv [] none

theorem uw_aliasVals (o : Oracles) (env : Env) (fn : UnwrapFn) (d : Nat) (hd : 0 < d) (r : Row) :
    aliasVals o env (uwCols fn d) (qualify "unwrap_1" r) =
      [("timestamp_ns", bucketVal d (r.get "timestamp_ns")), ("string", .str [])] := by
  have hd0 : d ≠ 0 := by omega
  have e2 := get_unqualified "unwrap_1" "timestamp_ns" r (by simp [Std5])
  have hag : hasAgg (unwrapValue fn (secLit d)) = true := by cases fn <;> rfl
  have hb : evalE o env (qualify "unwrap_1" r) (.mulOp (.call "intDiv" [.raw "timestamp_ns", .int d]) (.int d)) =
      bucketVal d (r.get "timestamp_ns") := by
    cases hv : r.get "timestamp_ns" <;>
      simp [e2, evalE, evalEs, hv, hd0, mulVal, bucketVal, bucketOf, Val.toRat?]
  simp only [uwCols, aliasVals, bucketCol, emptyStr, List.filterMap_cons, List.filterMap_nil, hasAgg, hag, hb]
  simp [aggNames, evalE]

/-- the value `UnwrapFunctionPlanner` computes over the (value, timestamp) cells of a group -/
theorem uw_value_num (o : Oracles) (env : Env) (rows : List Row) (first : Row) (grp : List (Int × Rat)) (fn : UnwrapFn)
    (d : Nat) (h : rows.map (fun r => (numOf? (r.get "unwrap_1.value"), r.get "unwrap_1.timestamp_ns")) =
      grp.map (fun p => (some p.2, Val.int p.1))) (hne : grp ≠ [])
    (hms : 1000000 ∣ d) (hd : 0 < d) (hfn : fn ≠ .stdvarOT ∧ fn ≠ .stddevOT) :
    numOf? (evalAgg o env rows first (.col (unwrapValue fn (secLit d)) "value")) = some (unwrapValD fn d grp) := by
  have hr : ratsOf (rows.map (fun r => r.get "unwrap_1.value")) = some (grp.map (·.2)) := by
    apply ratsOf_of_numOf
    have := congrArg (List.map Prod.fst) h
    simpa [List.map_map, Function.comp_def] using this
  have hfirst := argMin_rel (rows.map (fun r => (r.get "unwrap_1.value", r.get "unwrap_1.timestamp_ns"))) grp
    (by simpa [List.map_map, Function.comp_def] using h)
  have hlast := argMax_rel (rows.map (fun r => (r.get "unwrap_1.value", r.get "unwrap_1.timestamp_ns"))) grp
    (by simpa [List.map_map, Function.comp_def] using h)
  have hsec := secOfMs_eq_secondsOf d hms
  have hsne := secondsOf_ne_zero d hd
  obtain ⟨p, ps, rfl⟩ : ∃ p ps, grp = p :: ps := by
    cases grp with
    | nil => exact absurd rfl hne
    | cons p ps => exact ⟨p, ps, rfl⟩
  cases fn
  case firstOT =>
    simp only [unwrapValue, evalAgg, aggCall, evalE_raw]
    rw [hfirst]; rfl
  case lastOT =>
    simp only [unwrapValue, evalAgg, aggCall, evalE_raw]
    rw [hlast]; rfl
  all_goals
    simp [unwrapValue, unwrapVal, unwrapValD, evalAgg, aggCall, hr, sumAgg, avgAgg, minAgg, maxAgg, numOf?, ratSum,
      ratSumL, evalAgg_secLit, hsec, hsne, divVal, Val.toRat?] at hfn ⊢

theorem uw_cell_ts (o : Oracles) (env : Env) (fn : UnwrapFn) (d : Nat) (hd : 0 < d) (r0 : Row) (rest : List Row) :
    growCell o env (uwCols fn d) (qualify "unwrap_1" r0 :: rest) (bucketCol "timestamp_ns" d) =
      ("timestamp_ns", bucketVal d (r0.get "timestamp_ns")) := by
  have hd0 : d ≠ 0 := by omega
  have e2 := get_unqualified "unwrap_1" "timestamp_ns" r0 (by simp [Std5])
  unfold growCell scope
  rw [List.headD_cons, uw_aliasVals o env fn d hd r0]
  cases hv : r0.get "timestamp_ns" <;>
    simp [colName, bucketCol, evalAgg, aggCall, evalE, evalEs, get_cons, e2, hv, hd0, mulVal, bucketVal, bucketOf, Val.toRat?]

theorem uw_cell_fp (o : Oracles) (env : Env) (fn : UnwrapFn) (d : Nat) (hd : 0 < d) (r0 : Row) (rest : List Row) :
    growCell o env (uwCols fn d) (qualify "unwrap_1" r0 :: rest) (.raw "fingerprint") = ("fingerprint", r0.get "fingerprint") := by
  have e1 := get_unqualified "unwrap_1" "fingerprint" r0 (by simp [Std5])
  unfold growCell scope
  rw [List.headD_cons, uw_aliasVals o env fn d hd r0]
  simp [colName, evalAgg, evalE, get_cons, e1]

theorem uw_cell_lab (o : Oracles) (env : Env) (fn : UnwrapFn) (d : Nat) (hd : 0 < d) (r0 : Row) (rest : List Row) :
    growCell o env (uwCols fn d) (qualify "unwrap_1" r0 :: rest) (.col (.call "any" [.raw "labels"]) "labels") =
      ("labels", r0.get "labels") := by
  have e3 := get_unqualified "unwrap_1" "labels" r0 (by simp [Std5])
  unfold growCell
  simp only [List.map_cons, colName, evalAgg, aggCall, anyAgg, List.head?_cons, Option.getD_some, evalE_raw]
  rw [uw_aliasVals o env fn d hd r0]
  simp [get_cons, e3]

theorem uw_group_row (o : Oracles) (env : Env) (fn : UnwrapFn) (hfn : fn ≠ .stdvarOT ∧ fn ≠ .stddevOT) (d : Nat)
    (hms : 1000000 ∣ d) (hd : 0 < d)
    (A : List Row) (hstd : ∀ r ∈ A, StdRow r) (B : List Pt) (hne : A ≠ []) (hAB : A.map rview = B.map Pt.view) :
    rview (grow o env (uwCols fn d) (A.map (qualify "unwrap_1"))) =
      Pt.view ⟨(B.head?.map (·.key)).getD .null, (B.head?.map (·.labels)).getD .null,
        (B.head?.map (fun p => bucketOf d p.ts)).getD 0, unwrapValD fn d (B.map (fun p => (p.ts, p.value)))⟩ := by
  obtain ⟨r0, A', rfl⟩ : ∃ r0 A', A = r0 :: A' := by
    cases A with
    | nil => exact absurd rfl hne
    | cons r0 A' => exact ⟨r0, A', rfl⟩
  obtain ⟨p0, B', rfl⟩ : ∃ p0 B', B = p0 :: B' := by
    cases B with
    | nil => simp at hAB
    | cons p0 B' => exact ⟨p0, B', rfl⟩
  have h0 : rview r0 = p0.view := by simpa using (List.cons.inj hAB).1
  simp only [rview, Pt.view, Prod.mk.injEq] at h0
  obtain ⟨k1, k2, k3, k4⟩ := h0
  have hval := uw_value_num o env (((r0 :: A').map (qualify "unwrap_1")).map (fun r => aliasVals o env (uwCols fn d) r ++ r))
    (scope o env (uwCols fn d) "value" (((r0 :: A').map (qualify "unwrap_1")).headD []))
    ((p0 :: B').map (fun p => (p.ts, p.value))) fn d (by
      rw [List.map_map, List.map_map, List.map_map]
      apply map_rel rview Pt.view _ _ _ _ hAB
      intro r hr p _ hv
      simp only [Function.comp_apply]
      rw [uw_aliasVals o env fn d hd r]
      have e1 := get_q "unwrap_1" "value" "unwrap_1.value" rfl r (hstd r hr)
      have e2 := get_q "unwrap_1" "timestamp_ns" "unwrap_1.timestamp_ns" rfl r (hstd r hr)
      simp only [rview, Pt.view, Prod.mk.injEq] at hv
      simp [get_cons, e1, e2, hv.2.1, hv.2.2.1]) (by simp) hms hd hfn
  rw [grow_eq]
  have hcols : uwCols fn d = [bucketCol "timestamp_ns" d, .raw "fingerprint", emptyStr,
      .col (unwrapValue fn (secLit d)) "value", .col (.call "any" [.raw "labels"]) "labels"] := rfl
  conv => lhs; arg 1; arg 2; rw [hcols]
  simp only [List.map_cons, List.map_nil]
  rw [uw_cell_ts o env fn d hd r0, uw_cell_fp o env fn d hd r0, step_cell_str, uw_cell_lab o env fn d hd r0]
  have c4 : growCell o env (uwCols fn d) (qualify "unwrap_1" r0 :: List.map (qualify "unwrap_1") A')
      (.col (unwrapValue fn (secLit d)) "value") =
      ("value", evalAgg o env (((r0 :: A').map (qualify "unwrap_1")).map (fun r => aliasVals o env (uwCols fn d) r ++ r))
        (scope o env (uwCols fn d) "value" (((r0 :: A').map (qualify "unwrap_1")).headD []))
        (.col (unwrapValue fn (secLit d)) "value")) := rfl
  rw [c4]
  simp only [List.map_cons, List.map_map, List.headD_cons] at hval
  simp only [rview, get_cons, Pt.view, List.head?_cons, Option.map_some, Option.getD_some]
  simp [k1, k2, k4, hval, bucketVal]

/-- **range stage over unwrapped values (UnwrapFunctionPlanner).** Over the entry points of `unwrap_1`, one row per
    (series, range bucket) in order of first occurrence, carrying the range function of the direct reading over the
    group's (timestamp, value) pairs and the labels of its first member; then the optional HAVING. -/
theorem uw_eval (o : Oracles) (db : Db) (env : Env) (fn : UnwrapFn) (hfn : fn ≠ .stdvarOT ∧ fn ≠ .stddevOT) (d : Nat)
    (hms : 1000000 ∣ d) (hd : 0 < d) (T : Table) (pts : List Pt) (h : Rep T pts)
    (hT : env.lookup (.named "unwrap_1") = some T) (cm : Option Comparison) :
    Rep (evalBodyA o db env (uwBody fn d (cmpHaving cm))) (cmpStage cm (unwrapCore fn d pts)) := by
  unfold uwBody
  rw [evalBodyA_grouped o db env _ (uwCols fn d) _ (T.map (qualify "unwrap_1"))
    (by simp [sourceRowsA, sourceRows, hT, Alias.text]) _ rfl]
  apply having_rep
  rw [groupsBy_map]
  have hkey : ∀ r ∈ T, gkey o env (uwCols fn d) [.raw "fingerprint", .raw "timestamp_ns"] (qualify "unwrap_1" r) =
      (fun (k : Val × Val) => [k.1, k.2]) ((fun (v : Val × Val × Option Rat × Val) => (v.1, bucketVal d v.2.1)) (rview r)) := by
    intro r _
    unfold gkey
    rw [uw_aliasVals o env fn d hd r]
    have e1 := get_unqualified "unwrap_1" "fingerprint" r (by simp [Std5])
    simp [evalE, get_cons, rview, e1]
  rw [groupsBy_congr _ _ T hkey]
  simp only [List.map_map, Function.comp_def]
  refine ⟨?_, ?_⟩
  · have := groups_rel rview Pt.view (fun (v : Val × Val × Option Rat × Val) => (v.1, bucketVal d v.2.1))
      (fun (k : Val × Val) => [k.1, k.2])
      (by intro a b hab; simp at hab; exact Prod.ext hab.1 hab.2) T pts h.view
      (fun A => rview (grow o env (uwCols fn d) (A.map (qualify "unwrap_1"))))
      (fun B => Pt.view ⟨(B.head?.map (·.key)).getD .null, (B.head?.map (·.labels)).getD .null,
        (B.head?.map (fun p => bucketOf d p.ts)).getD 0, unwrapValD fn d (B.map (fun p => (p.ts, p.value)))⟩)
      (fun A B hne hA _ _ hAB => uw_group_row o env fn hfn d hms hd A (fun r hr => h.std r (hA r hr)) B hne hAB)
    rw [List.map_map]
    simp only [Function.comp_def] at this ⊢
    rw [this, unwrapCore_eq fn hfn]
    have henc := groupsBy_enc (uwKey d) (fun (k : Val × Int) => (k.1, Val.int k.2))
      (by intro a b hab; simp at hab; exact Prod.ext hab.1 hab.2) pts
    simp only [Pt.view, uwKey, bucketVal] at henc ⊢
    rw [henc]
    simp only [List.map_map, Function.comp_def]
    apply List.map_congr_left
    intro g hg
    obtain ⟨⟨a, rest, hgr, hk⟩, _⟩ := groupsBy_head _ pts g hg
    simp only [hgr, List.head?_cons, Option.map_some, Option.getD_some, ← hk]
    rfl
  · intro r hr
    obtain ⟨g, _, rfl⟩ := List.mem_map.mp hr
    apply grow_std
    intro c hc
    simp only [uwCols, List.mem_cons, List.not_mem_nil, or_false] at hc
    rcases hc with rfl | rfl | rfl | rfl | rfl <;> simp [colName, bucketCol, emptyStr, Std5]

/-! ### `ByWithoutPlanner.processSimple` (labels already joined) -/
/-- regroup a point that carries its labels -/
def regroupL (o : Oracles) (g : Grouping) (p : Pt) : Pt :=
  let kl := regroup o g p.labels
  ⟨kl.1, kl.2, p.ts, p.value⟩

def bwsCols (p : String) (g : Grouping) : List Expr :=
  [simpleCol "timestamp_ns" "timestamp_ns", .col hashLabels "fingerprint",
   .col (byWithoutCol g (.raw (p ++ ".labels"))) "labels", simpleCol "string" "string", simpleCol "value" "value"]

def bwsBody (p : String) (g : Grouping) : Sel :=
  .mk [] false (bwsCols p g) (some (.withRef (.named p))) [] none none [] none [] none

theorem regroup_snd (o : Oracles) (g : Grouping) (v : Val) :
    (match v with
      | .map kv => Val.map (kv.filter (fun p => (groupingKeys g).contains p.1 == g.isBy))
      | _ => Val.null) = (regroup o g v).2 := by
  cases v <;> rfl

theorem hash_regroup (o : Oracles) (env : Env) (g : Grouping) (v : Val) (Y : Row) (h : Y.get "labels" = (regroup o g v).2) :
    evalE o env Y hashLabels = (regroup o g v).1 := by
  cases v <;> simp [hashLabels, evalE, evalEs, h, regroup]

theorem bws_project (o : Oracles) (env : Env) (p : String) (g : Grouping) (r : Row) (h : StdRow r) :
    projectA o env (bwsCols p g) (qualify p r) =
      [("timestamp_ns", r.get "timestamp_ns"), ("fingerprint", (regroup o g (r.get "labels")).1),
       ("labels", (regroup o g (r.get "labels")).2), ("string", r.get "string"), ("value", r.get "value")] := by
  have n1 : p ++ ".labels" = p ++ "." ++ "labels" := dot_name p "labels"
  have e1 := get_unqualified p "timestamp_ns" r (by simp [Std5])
  have e2 := get_unqualified p "string" r (by simp [Std5])
  have e3 := get_unqualified p "value" r (by simp [Std5])
  have e4 := get_qualified p "labels" r h
  have d1 := dotted_ne_std p "labels" "timestamp_ns" (by simp [Std5])
  have d2 := dotted_ne_std p "labels" "fingerprint" (by simp [Std5])
  have d3 := dotted_ne_std p "labels" "string" (by simp [Std5])
  have d4 := dotted_ne_std p "labels" "value" (by simp [Std5])
  -- the filtered map, wherever `p.labels` is read
  have hL : ∀ Y : Row, Y.get (p ++ "." ++ "labels") = r.get "labels" →
      evalE o env Y (byWithoutCol g (.raw (p ++ ".labels"))) = (regroup o g (r.get "labels")).2 := by
    intro Y hY
    rw [n1]
    simp only [byWithoutCol, evalE, hY]
    exact regroup_snd o g _
  have hav : aliasVals o env (bwsCols p g) (qualify p r) =
      [("timestamp_ns", r.get "timestamp_ns"), ("fingerprint", evalE o env (qualify p r) hashLabels),
       ("labels", (regroup o g (r.get "labels")).2), ("string", r.get "string"), ("value", r.get "value")] := by
    have hag1 : hasAgg hashLabels = false := by simp [hashLabels, hasAgg, aggNames]
    have hag2 : hasAgg (byWithoutCol g (.raw (p ++ ".labels"))) = false := by simp [byWithoutCol, hasAgg]
    simp only [bwsCols, aliasVals, simpleCol, List.filterMap_cons, List.filterMap_nil, hasAgg, hag1, hag2, Bool.false_eq_true,
      if_false, evalE_raw, e1, e2, e3, hL _ e4]
  unfold projectA scope
  rw [hav]
  simp only [bwsCols, List.map_cons, List.map_nil, colName, simpleCol, evalE_col, evalE_raw]
  have c1 : Row.get (List.filter (fun p => p.1 != "timestamp_ns")
      [("timestamp_ns", r.get "timestamp_ns"), ("fingerprint", evalE o env (qualify p r) hashLabels),
        ("labels", (regroup o g (r.get "labels")).2), ("string", r.get "string"), ("value", r.get "value")] ++ qualify p r)
      "timestamp_ns" = r.get "timestamp_ns" := by simp [get_cons, e1]
  have c2 : Row.get (List.filter (fun p => p.1 != "fingerprint")
      [("timestamp_ns", r.get "timestamp_ns"), ("fingerprint", evalE o env (qualify p r) hashLabels),
        ("labels", (regroup o g (r.get "labels")).2), ("string", r.get "string"), ("value", r.get "value")] ++ qualify p r)
      "labels" = (regroup o g (r.get "labels")).2 := by simp [get_cons]
  have c3 : Row.get (List.filter (fun p => p.1 != "labels")
      [("timestamp_ns", r.get "timestamp_ns"), ("fingerprint", evalE o env (qualify p r) hashLabels),
        ("labels", (regroup o g (r.get "labels")).2), ("string", r.get "string"), ("value", r.get "value")] ++ qualify p r)
      (p ++ "." ++ "labels") = r.get "labels" := by simp [get_cons, d1, d2, d3, d4, e4]
  have c4 : Row.get (List.filter (fun p => p.1 != "string")
      [("timestamp_ns", r.get "timestamp_ns"), ("fingerprint", evalE o env (qualify p r) hashLabels),
        ("labels", (regroup o g (r.get "labels")).2), ("string", r.get "string"), ("value", r.get "value")] ++ qualify p r)
      "string" = r.get "string" := by simp [get_cons, e2]
  have c5 : Row.get (List.filter (fun p => p.1 != "value")
      [("timestamp_ns", r.get "timestamp_ns"), ("fingerprint", evalE o env (qualify p r) hashLabels),
        ("labels", (regroup o g (r.get "labels")).2), ("string", r.get "string"), ("value", r.get "value")] ++ qualify p r)
      "value" = r.get "value" := by simp [get_cons, e3]
  rw [c1, c4, c5, hash_regroup o env g (r.get "labels") _ c2, hL _ c3]

/-- **by / without after the labels join.** Every point moves to the series of what the grouping keeps of its labels. -/
theorem bws_eval (o : Oracles) (db : Db) (env : Env) (p : String) (g : Grouping) (T : Table) (pts : List Pt) (h : Rep T pts)
    (hT : env.lookup (.named p) = some T) :
    Rep (evalBodyA o db env (bwsBody p g)) (pts.map (regroupL o g)) := by
  have hagg : ((bwsCols p g).any hasAgg) = false := by
    simp [bwsCols, simpleCol, hashLabels, byWithoutCol, hasAgg, aggNames]
  simp only [bwsBody, evalBodyA, List.isEmpty_nil, hagg, Bool.not_false, Bool.and_self, if_true, List.foldl_nil,
    sourceRowsA, sourceRows, hT, Option.getD_some, optB, filter_true, Alias.text, List.map_map]
  refine ⟨?_, ?_⟩
  · rw [List.map_map, List.map_map]
    apply map_rel rview Pt.view _ _ T pts h.view
    intro r hr x _ hv
    simp only [Function.comp_apply]
    rw [bws_project o env p g r (h.std r hr)]
    simp only [rview, Pt.view, Prod.mk.injEq] at hv
    obtain ⟨h1, h2, h3, h4⟩ := hv
    simp [rview, Pt.view, regroupL, get_cons, h2, h3, h4]
  · intro r hr
    obtain ⟨r0, _, rfl⟩ := List.mem_map.mp hr
    simp only [Function.comp_apply]
    intro kv hkv
    simp only [projectA, bwsCols, List.map_cons, List.map_nil, colName, simpleCol, List.mem_cons, List.not_mem_nil, or_false] at hkv
    rcases hkv with rfl | rfl | rfl | rfl | rfl <;> simp [Std5]

/-! ### sorting and filtering commute (transitive order) -/
theorem filter_insertBy {α} (le : α → α → Bool) (trans : ∀ a b c, le a b = true → le b c = true → le a c = true)
    (P : α → Bool) (x : α) (l : List α) (hs : l.Pairwise (fun a b => le a b = true)) :
    (insertBy le x l).filter P = if P x then insertBy le x (l.filter P) else l.filter P := by
  induction l with
  | nil => cases hp : P x <;> simp [insertBy, hp]
  | cons y ys ih =>
    rw [List.pairwise_cons] at hs
    have ih' := ih hs.2
    by_cases hyx : le y x = true
    · simp only [insertBy, hyx, if_true, List.filter_cons]
      rw [ih']
      cases hp : P x <;> cases hy : P y <;> simp [insertBy, hyx]
    · have hyx' : le y x = false := by simpa using hyx
      have e0 : insertBy le x (y :: ys) = x :: y :: ys := by simp [insertBy, hyx']
      rw [e0]
      cases hp : P x with
      | false => simp [List.filter_cons, hp]
      | true =>
        simp only [if_true]
        cases hy : P y with
        | true => simp [List.filter_cons, hp, hy, insertBy, hyx']
        | false =>
          -- `x` kept, `y` dropped: no kept element after `y` goes in front of `x`
          have hnone : ∀ z ∈ ys.filter P, le z x = false := by
            intro z hz
            cases hzx : le z x with
            | false => rfl
            | true => exact absurd (trans y z x (hs.1 z (List.mem_filter.mp hz).1) hzx) hyx
          simp only [List.filter_cons, hp, hy, if_true, Bool.false_eq_true, if_false]
          generalize ys.filter P = zs at hnone
          cases zs with
          | nil => rfl
          | cons z zs => simp [insertBy, hnone z (List.mem_cons_self ..)]

theorem filter_sortBy {α} (le : α → α → Bool) (total : ∀ a b, le a b = true ∨ le b a = true)
    (trans : ∀ a b c, le a b = true → le b c = true → le a c = true) (P : α → Bool) (l : List α) :
    (sortBy le l).filter P = sortBy le (l.filter P) := by
  induction l with
  | nil => rfl
  | cons x l ih =>
    rw [sortBy_cons, filter_insertBy le trans P x _ (sortBy_pairwise le total trans l), ih]
    cases hp : P x <;> simp [List.filter_cons, hp, sortBy_cons]

/-! ### the samples side of an unwrapped range aggregation: ordered `main`, labels join, `UnwrapPlanner` -/
def uwSrc (label : String) : Expr :=
  if label = "_entry" then .raw "main.string" else .mapAt (.raw "_time_series.labels") label.toUTF8.toList

def uwJoinCols (label : String) : List Expr :=
  [simpleCol "main.fingerprint" "fingerprint", simpleCol "main.timestamp_ns" "timestamp_ns",
   simpleCol "_time_series.labels" "labels", simpleCol "main.string" "string",
   .col (.call "toFloat64OrZero" [uwSrc label]) "value"]

def uwJoinBody (c : Ctx) (label : String) (ws : List (Alias × Sel)) : Sel :=
  .mk ws false (uwJoinCols label) (some (.withRef (.named "main")))
    [(joinType c, .named "_time_series", eq (.raw "main.fingerprint") (.raw "_time_series.fingerprint"))]
    none none [] none [] none

/-- an entry as a point: its stream, the stream's labels, its timestamp, its unwrapped value -/
def entryPt (o : Oracles) (c : Ctx) (d : LokiDb) (q : LogQuery) (label : String) (s : Sample) : Pt :=
  ⟨.int s.fp, labelsOf o c d q s.fp, s.ts, unwrapOf o label (labelsOf o c d q s.fp) s⟩

theorem main_ts_names : ∀ k k', "main" ++ "." ++ k ≠ "_time_series" ++ "." ++ k' := by
  intro k k' h
  have := congrArg String.toList h
  simp at this

theorem sampleRow_std (s : Sample) : StdRow (sampleRow "string" s) := by
  intro p hp
  simp only [sampleRow, List.mem_cons, List.not_mem_nil, or_false] at hp
  rcases hp with rfl | rfl | rfl | rfl <;> simp [Std5]

/-- a column of the joined right row (absent: null) -/
def rightGet (right : Option Row) (k : String) : Val :=
  match right with
  | some rr => rr.get k
  | none => .null

theorem uw_project (o : Oracles) (env : Env) (label : String) (s : Sample) (right : Option Row) :
    projectA o env (uwJoinCols label) (joinedRow "main" "_time_series" (sampleRow "string" s) right) =
      [("fingerprint", .int s.fp), ("timestamp_ns", .int s.ts), ("labels", rightGet right "labels"), ("string", .str s.str),
       ("value", .rat (unwrapOf o label (rightGet right "labels") s))] := by
  have hc : ∀ c ∈ uwJoinCols label, ∀ e a, c = .col e a → Std5 a := by
    intro c hc e a he
    simp only [uwJoinCols, simpleCol, List.mem_cons, List.not_mem_nil, or_false] at hc
    rcases hc with rfl | rfl | rfl | rfl | rfl <;> cases he <;> simp [Std5]
  have hs := sampleRow_std s
  have g : ∀ self k, (scope o env (uwJoinCols label) self (joinedRow "main" "_time_series" (sampleRow "string" s) right)).get
      ("main" ++ "." ++ k) = (sampleRow "string" s).get k := by
    intro self k
    rw [scope_get_dotted o env _ self _ "main" k hc, joinedRow_get_left "main" "_time_series" k _ right hs main_ts_names]
  have gl : ∀ self, (scope o env (uwJoinCols label) self (joinedRow "main" "_time_series" (sampleRow "string" s) right)).get
      ("_time_series" ++ "." ++ "labels") = rightGet right "labels" := by
    intro self
    rw [scope_get_dotted o env _ self _ "_time_series" "labels" hc,
      joinedRow_get_right "main" "_time_series" "labels" _ right hs main_ts_names]
    rfl
  have e1 := g "fingerprint" "fingerprint"
  have e2 := g "timestamp_ns" "timestamp_ns"
  have e3 := gl "labels"
  have e4 := g "string" "string"
  have e5 := g "value" "string"
  have e6 := gl "value"
  simp only [show "main" ++ "." ++ "fingerprint" = "main.fingerprint" from rfl,
    show "main" ++ "." ++ "timestamp_ns" = "main.timestamp_ns" from rfl,
    show "main" ++ "." ++ "string" = "main.string" from rfl,
    show "_time_series" ++ "." ++ "labels" = "_time_series.labels" from rfl] at e1 e2 e3 e4 e5 e6
  have r1 : (sampleRow "string" s).get "fingerprint" = .int s.fp := by simp [sampleRow, get_cons]
  have r2 : (sampleRow "string" s).get "timestamp_ns" = .int s.ts := by simp [sampleRow, get_cons]
  have r3 : (sampleRow "string" s).get "string" = .str s.str := by simp [sampleRow, get_cons]
  have hval : evalE o env (scope o env (uwJoinCols label) "value" (joinedRow "main" "_time_series" (sampleRow "string" s) right))
      (.call "toFloat64OrZero" [uwSrc label]) = .rat (unwrapOf o label (rightGet right "labels") s) := by
    unfold uwSrc unwrapOf
    by_cases hl : label = "_entry"
    · subst hl
      simp only [if_true, evalE, evalEs]
      rw [e5, r3]
      simp
    · simp only [hl, if_false, evalE, evalEs]
      rw [e6]
      cases rightGet right "labels" <;> simp
  unfold projectA
  simp only [uwJoinCols, List.map_cons, List.map_nil, colName, simpleCol, evalE_col, evalE_raw] at e1 e2 e3 e4 hval ⊢
  rw [e1, e2, e3, e4, r1, r2, r3, hval]

theorem labelsOf_find (o : Oracles) (c : Ctx) (d : LokiDb) (q : LogQuery) (fp : Int) :
    rightGet (((d.ts.filter (tsOk o c d q)).find? (fun t => Val.int fp == .int t.fp)).map (tsOut o)) "labels" =
      labelsOf o c d q fp := by
  unfold labelsOf
  rw [List.find?_filter]
  have : (List.find? (fun t => decide (tsOk o c d q t = true ∧ (Val.int fp == Val.int t.fp) = true)) d.ts) =
      List.find? (fun t => decide (fromDate c ≤ t.date) && typeOk c t.tp && fpSelected o c d q t.fp && t.fp == fp) d.ts := by
    congr 1
    funext t
    rw [Bool.eq_iff_iff]
    simp only [tsOk, int_beq, Bool.and_eq_true, beq_iff_eq, decide_eq_true_eq]
    constructor <;> (rintro ⟨a, b⟩; exact ⟨a, b.symm⟩)
  rw [this]
  cases List.find? (fun t => decide (fromDate c ≤ t.date) && typeOk c t.tp && fpSelected o c d q t.fp && t.fp == fp) d.ts with
  | none => rfl
  | some t => simp [rightGet, tsOut, get_cons]

/-- **the samples side of an unwrapped range aggregation.** `main ANY LEFT JOIN _time_series` with the value column
    `toFloat64OrZero(labels['x'])` (or of the line, for `_entry`) holds one row per entry of `main`, in its order: the
    stream, the stream's labels, the timestamp, the unwrapped value. -/
theorem uwJoin_eval (o : Oracles) (c : MCtx) (d : LokiDb) (q : LogQuery) (env : Env) (label : String) (es : List Sample)
    (ws : List (Alias × Sel))
    (hM : env.lookup (.named "main") = some (es.map (sampleRow "string")))
    (hTS : env.lookup (.named "_time_series") = some ((d.ts.filter (tsOk o c.toCtx d q)).map (tsOut o))) :
    Rep (evalBodyA o (d.toDbM c) env (uwJoinBody c.toCtx label ws)) (es.map (entryPt o c.toCtx d q label)) := by
  have hagg : ((uwJoinCols label).any hasAgg) = false := by
    have : hasAgg (.call "toFloat64OrZero" [uwSrc label]) = false := by
      unfold uwSrc
      by_cases hl : label = "_entry" <;> simp [hl, hasAgg, aggNames]
    have h1 : ∀ n a, hasAgg (.col (.raw n) a) = false := fun _ _ => rfl
    have h5 : hasAgg (.col (.call "toFloat64OrZero" [uwSrc label]) "value") = false := this
    simp only [uwJoinCols, simpleCol, List.any_cons, List.any_nil, h1, h5, Bool.or_self]
  simp only [uwJoinBody, evalBodyA, List.isEmpty_nil, hagg, Bool.not_false, Bool.and_self, if_true,
    List.foldl_cons, List.foldl_nil, sourceRowsA, sourceRows, hM, Option.getD_some, optB, filter_true, Alias.text]
  rw [show (eq (Expr.raw "main.fingerprint") (Expr.raw "_time_series.fingerprint")) =
      eq (.raw ("main" ++ "." ++ "fingerprint")) (.raw ("_time_series" ++ "." ++ "fingerprint")) from rfl]
  rw [anyLeftJoin_fp o env "main" "_time_series" main_ts_names _ (by
      intro r hr; obtain ⟨s, _, rfl⟩ := List.mem_map.mp hr; exact sampleRow_std s)
    (d.ts.filter (tsOk o c.toCtx d q)) (tsOut o) (fun t => t.fp) (fun t => by simp [tsOut, get_cons]) hTS]
  simp only [List.map_map]
  have hrow : ∀ s ∈ es, (projectA o env (uwJoinCols label) ∘ (fun r => joinedRow "main" "_time_series" r
        (Option.map (tsOut o) (List.find? (fun t => r.get "fingerprint" == Val.int t.fp) (List.filter (tsOk o c.toCtx d q) d.ts)))) ∘
        sampleRow "string") s =
      [("fingerprint", .int s.fp), ("timestamp_ns", .int s.ts), ("labels", labelsOf o c.toCtx d q s.fp), ("string", .str s.str),
       ("value", .rat (unwrapOf o label (labelsOf o c.toCtx d q s.fp) s))] := by
    intro s _
    simp only [Function.comp_apply]
    rw [uw_project]
    have r1 : (sampleRow "string" s).get "fingerprint" = .int s.fp := by simp [sampleRow, get_cons]
    rw [r1, labelsOf_find]
  rw [List.map_congr_left hrow]
  refine ⟨?_, ?_⟩
  · rw [List.map_map, List.map_map]
    apply List.map_congr_left
    intro s _
    simp [rview, Pt.view, entryPt, get_cons, numOf?]
  · intro r hr
    obtain ⟨s, _, rfl⟩ := List.mem_map.mp hr
    intro p hp
    simp only [List.mem_cons, List.not_mem_nil, or_false] at hp
    rcases hp with rfl | rfl | rfl | rfl | rfl <;> simp [Std5]

end Qryn.LogQL
