import Qryn.Proofs.MetricUnion
/-! C08 plan-level proofs: range aggregations over unwrapped values (`LabelsJoinPlanner` + `UnwrapPlanner` on the samples
    side, `ByWithoutPlanner.processSimple`, `UnwrapFunctionPlanner`). -/
namespace Qryn.LogQL
open Qryn Qryn.Sql

theorem argMax_fold_rel (l : List (Val × Val)) (l' : List (Int × Rat)) (b : Val × Val) (b' : Int × Rat)
    (hb : numOf? b.1 = some b'.2 ∧ b.2 = .int b'.1)
    (h : l.map (fun x => (numOf? x.1, x.2)) = l'.map (fun y => (some y.2, Val.int y.1))) :
    numOf? (l.foldl (fun best q => if keyInt best.2 < keyInt q.2 then q else best) b).1 =
      some (l'.foldl (fun best q => if best.1 < q.1 then q else best) b').2 := by
  induction l generalizing l' b b' with
  | nil =>
    cases l' with
    | nil => exact hb.1
    | cons y l' => simp at h
  | cons x l ih =>
    cases l' with
    | nil => simp at h
    | cons y l' =>
      simp only [List.map_cons, List.cons.injEq, Prod.mk.injEq] at h
      simp only [List.foldl_cons]
      have hk : keyInt x.2 = y.1 := by rw [h.1.2]; rfl
      have hkb : keyInt b.2 = b'.1 := by rw [hb.2]; rfl
      rw [hk, hkb]
      by_cases hc : b'.1 < y.1
      · simp only [hc, if_true]; exact ih l' x y ⟨h.1.1, h.1.2⟩ h.2
      · simp only [hc, if_false]; exact ih l' b b' hb h.2

theorem argMax_rel (l : List (Val × Val)) (l' : List (Int × Rat))
    (h : l.map (fun x => (numOf? x.1, x.2)) = l'.map (fun y => (some y.2, Val.int y.1))) :
    numOf? (argMaxAgg l) = lastBy l' := by
  cases l with
  | nil =>
    cases l' with
    | nil => rfl
    | cons y l' => simp at h
  | cons x l =>
    cases l' with
    | nil => simp at h
    | cons y l' =>
      simp only [List.map_cons, List.cons.injEq, Prod.mk.injEq] at h
      simp only [argMaxAgg, lastBy]
      exact argMax_fold_rel l l' x y ⟨h.1.1, h.1.2⟩ h.2

/-! ### the direct reading's range stage over unwrapped values, on points -/
def uwKey (d : Nat) (p : Pt) : Val × Int := (p.key, bucketOf d p.ts)

/-- one point per (series, range bucket) of the entry points, in order of first occurrence -/
def unwrapCore (o : Oracles) (fn : UnwrapFn) (d : Nat) (pts : List Pt) : List Pt :=
  (groupsBy (uwKey d) pts).filterMap (fun g =>
    (unwrapVal o fn d (g.2.map (fun p => (p.ts, p.value)))).map (fun v =>
      ⟨g.1.1, (g.2.head?.map (·.labels)).getD .null, g.1.2, v⟩))

def unwrapValD (o : Oracles) (fn : UnwrapFn) (d : Nat) (grp : List (Int × Rat)) : Rat := (unwrapVal o fn d grp).getD 0

theorem unwrapVal_some (o : Oracles) (fn : UnwrapFn) (d : Nat) (grp : List (Int × Rat)) (hne : grp ≠ [])
    : unwrapVal o fn d grp = some (unwrapValD o fn d grp) := by
  cases grp with
  | nil => exact absurd rfl hne
  | cons p ps => cases fn <;> simp_all [unwrapVal, unwrapValD, firstBy, lastBy]

theorem unwrapCore_eq (o : Oracles) (fn : UnwrapFn) (d : Nat) (pts : List Pt) :
    unwrapCore o fn d pts = (groupsBy (uwKey d) pts).map (fun g =>
      ⟨g.1.1, (g.2.head?.map (·.labels)).getD .null, g.1.2, unwrapValD o fn d (g.2.map (fun p => (p.ts, p.value)))⟩) := by
  unfold unwrapCore
  apply filterMap_eq_map_of
  intro g hg
  obtain ⟨⟨a, rest, hgr, _⟩, _⟩ := groupsBy_head _ pts g hg
  rw [unwrapVal_some o fn d _ (by rw [hgr]; simp)]
  rfl

/-! ### `UnwrapFunctionPlanner`'s select -/
def uwCols (fn : UnwrapFn) (d : Nat) : List Expr :=
  [bucketCol "timestamp_ns" d, .raw "fingerprint", emptyStr, .col (unwrapValue fn (.int d)) "value",
   .col (.call "any" [.raw "labels"]) "labels"]

def uwBody (fn : UnwrapFn) (d : Nat) (hv : Option Expr) : Sel :=
  .mk [] false (uwCols fn d) (some (.withRef (.named "unwrap_1"))) [] none none
    [.raw "fingerprint", .raw "timestamp_ns"] hv [] none

theorem uw_aliasVals (o : Oracles) (env : Env) (fn : UnwrapFn) (d : Nat) (hd : 0 < d) (r : Row) :
    aliasVals o env (uwCols fn d) (qualify "unwrap_1" r) =
      [("timestamp_ns", bucketVal d (r.get "timestamp_ns")), ("string", .str [])] := by
  have hd0 : d ≠ 0 := by omega
  have e2 := get_unqualified "unwrap_1" "timestamp_ns" r (by simp [Std5])
  have hag : hasAgg (unwrapValue fn (.int d)) = true := by cases fn <;> rfl
  have hb : evalE o env (qualify "unwrap_1" r) (.mulOp (.call "intDiv" [.raw "timestamp_ns", .int d]) (.int d)) =
      bucketVal d (r.get "timestamp_ns") := by
    cases hv : r.get "timestamp_ns" <;>
      simp [e2, evalE, evalEs, hv, hd0, mulVal, bucketVal, bucketOf, Val.toRat?]
  simp only [uwCols, aliasVals, bucketCol, emptyStr, List.filterMap_cons, List.filterMap_nil, hasAgg, hag, hb]
  simp [aggNames, evalE]

/-- the value `UnwrapFunctionPlanner` computes over the (value, timestamp) cells of a group -/
theorem uw_value_num (o : Oracles) (env : Env) (rows : List Row) (first : Row) (grp : List (Int × Rat)) (fn : UnwrapFn)
    (d : Nat) (h : rows.map (fun r => (numOf? (r.get "unwrap_1.value"), r.get "unwrap_1.timestamp_ns")) =
      grp.map (fun p => (some p.2, Val.int p.1))) (hne : grp ≠ [])
    (hd : 0 < d) :
    numOf? (evalAgg o env rows first (.col (unwrapValue fn (.int d)) "value")) = some (unwrapValD o fn d grp) := by
  have hr : ratsOf (rows.map (fun r => r.get "unwrap_1.value")) = some (grp.map (·.2)) := by
    apply ratsOf_of_numOf
    have := congrArg (List.map Prod.fst) h
    simpa [List.map_map, Function.comp_def] using this
  have hfirst := argMin_rel (rows.map (fun r => (r.get "unwrap_1.value", r.get "unwrap_1.timestamp_ns"))) grp
    (by simpa [List.map_map, Function.comp_def] using h)
  have hlast := argMax_rel (rows.map (fun r => (r.get "unwrap_1.value", r.get "unwrap_1.timestamp_ns"))) grp
    (by simpa [List.map_map, Function.comp_def] using h)
  obtain ⟨p, ps, rfl⟩ : ∃ p ps, grp = p :: ps := by
    cases grp with
    | nil => exact absurd rfl hne
    | cons p ps => exact ⟨p, ps, rfl⟩
  cases fn
  case firstOT =>
    simp only [unwrapValue, evalAgg, aggCall, evalE_raw]
    rw [hfirst]; rfl
  case lastOT =>
    simp only [unwrapValue, evalAgg, aggCall, evalE_raw]
    rw [hlast]; rfl
  case rate =>
    have hx : evalAgg o env rows first (.call "sum" [.raw "unwrap_1.value"]) = .rat (ratSumL ((p :: ps).map (·.2))) := by
      simp [evalAgg, aggCall, hr, sumAgg, ratSum, ratSumL]
    simp only [unwrapValue, evalAgg]
    rw [evalAgg_perSecond o env rows first _ _ d hd hx]
    simp [unwrapVal, unwrapValD, numOf?]
  all_goals
    simp [unwrapValue, unwrapVal, unwrapValD, evalAgg, aggCall, hr, sumAgg, avgAgg, minAgg, maxAgg, numOf?, ratSum,
      varPopAgg, stddevPopAgg, ratSumL, divVal, Val.toRat?]

theorem uw_cell_ts (o : Oracles) (env : Env) (fn : UnwrapFn) (d : Nat) (hd : 0 < d) (r0 : Row) (rest : List Row) :
    growCell o env (uwCols fn d) (qualify "unwrap_1" r0 :: rest) (bucketCol "timestamp_ns" d) =
      ("timestamp_ns", bucketVal d (r0.get "timestamp_ns")) := by
  have hd0 : d ≠ 0 := by omega
  have e2 := get_unqualified "unwrap_1" "timestamp_ns" r0 (by simp [Std5])
  unfold growCell scope
  rw [List.headD_cons, uw_aliasVals o env fn d hd r0]
  cases hv : r0.get "timestamp_ns" <;>
    simp [colName, bucketCol, evalAgg, aggCall, evalE, evalEs, get_cons, e2, hv, hd0, mulVal, bucketVal, bucketOf, Val.toRat?]

theorem uw_cell_fp (o : Oracles) (env : Env) (fn : UnwrapFn) (d : Nat) (hd : 0 < d) (r0 : Row) (rest : List Row) :
    growCell o env (uwCols fn d) (qualify "unwrap_1" r0 :: rest) (.raw "fingerprint") = ("fingerprint", r0.get "fingerprint") := by
  have e1 := get_unqualified "unwrap_1" "fingerprint" r0 (by simp [Std5])
  unfold growCell scope
  rw [List.headD_cons, uw_aliasVals o env fn d hd r0]
  simp [colName, evalAgg, evalE, get_cons, e1]

theorem uw_cell_lab (o : Oracles) (env : Env) (fn : UnwrapFn) (d : Nat) (hd : 0 < d) (r0 : Row) (rest : List Row) :
    growCell o env (uwCols fn d) (qualify "unwrap_1" r0 :: rest) (.col (.call "any" [.raw "labels"]) "labels") =
      ("labels", r0.get "labels") := by
  have e3 := get_unqualified "unwrap_1" "labels" r0 (by simp [Std5])
  unfold growCell
  simp only [List.map_cons, colName, evalAgg, aggCall, anyAgg, List.head?_cons, Option.getD_some, evalE_raw]
  rw [uw_aliasVals o env fn d hd r0]
  simp [get_cons, e3]

theorem uw_group_row (o : Oracles) (env : Env) (fn : UnwrapFn) (d : Nat)
    (hd : 0 < d)
    (A : List Row) (hstd : ∀ r ∈ A, StdRow r) (B : List Pt) (hne : A ≠ []) (hAB : A.map rview = B.map Pt.view) :
    rview (grow o env (uwCols fn d) (A.map (qualify "unwrap_1"))) =
      Pt.view ⟨(B.head?.map (·.key)).getD .null, (B.head?.map (·.labels)).getD .null,
        (B.head?.map (fun p => bucketOf d p.ts)).getD 0, unwrapValD o fn d (B.map (fun p => (p.ts, p.value)))⟩ := by
  obtain ⟨r0, A', rfl⟩ : ∃ r0 A', A = r0 :: A' := by
    cases A with
    | nil => exact absurd rfl hne
    | cons r0 A' => exact ⟨r0, A', rfl⟩
  obtain ⟨p0, B', rfl⟩ : ∃ p0 B', B = p0 :: B' := by
    cases B with
    | nil => simp at hAB
    | cons p0 B' => exact ⟨p0, B', rfl⟩
  have h0 : rview r0 = p0.view := by simpa using (List.cons.inj hAB).1
  simp only [rview, Pt.view, Prod.mk.injEq] at h0
  obtain ⟨k1, k2, k3, k4⟩ := h0
  have hval := uw_value_num o env (((r0 :: A').map (qualify "unwrap_1")).map (fun r => aliasVals o env (uwCols fn d) r ++ r))
    (scope o env (uwCols fn d) "value" (((r0 :: A').map (qualify "unwrap_1")).headD []))
    ((p0 :: B').map (fun p => (p.ts, p.value))) fn d (by
      rw [List.map_map, List.map_map, List.map_map]
      apply map_rel rview Pt.view _ _ _ _ hAB
      intro r hr p _ hv
      simp only [Function.comp_apply]
      rw [uw_aliasVals o env fn d hd r]
      have e1 := get_q "unwrap_1" "value" "unwrap_1.value" rfl r (hstd r hr)
      have e2 := get_q "unwrap_1" "timestamp_ns" "unwrap_1.timestamp_ns" rfl r (hstd r hr)
      simp only [rview, Pt.view, Prod.mk.injEq] at hv
      simp [get_cons, e1, e2, hv.2.1, hv.2.2.1]) (by simp) hd
  rw [grow_eq]
  have hcols : uwCols fn d = [bucketCol "timestamp_ns" d, .raw "fingerprint", emptyStr,
      .col (unwrapValue fn (.int d)) "value", .col (.call "any" [.raw "labels"]) "labels"] := rfl
  conv => lhs; arg 1; arg 2; rw [hcols]
  simp only [List.map_cons, List.map_nil]
  rw [uw_cell_ts o env fn d hd r0, uw_cell_fp o env fn d hd r0, step_cell_str, uw_cell_lab o env fn d hd r0]
  have c4 : growCell o env (uwCols fn d) (qualify "unwrap_1" r0 :: List.map (qualify "unwrap_1") A')
      (.col (unwrapValue fn (.int d)) "value") =
      ("value", evalAgg o env (((r0 :: A').map (qualify "unwrap_1")).map (fun r => aliasVals o env (uwCols fn d) r ++ r))
        (scope o env (uwCols fn d) "value" (((r0 :: A').map (qualify "unwrap_1")).headD []))
        (.col (unwrapValue fn (.int d)) "value")) := rfl
  rw [c4]
  simp only [List.map_cons, List.map_map, List.headD_cons] at hval
  simp only [rview, get_cons, Pt.view, List.head?_cons, Option.map_some, Option.getD_some]
  simp [k1, k2, k4, hval, bucketVal]

/-- **range stage over unwrapped values (UnwrapFunctionPlanner).** Over the entry points of `unwrap_1`, one row per
    (series, range bucket) in order of first occurrence, carrying the range function of the direct reading over the
    group's (timestamp, value) pairs and the labels of its first member; then the optional HAVING. -/
theorem uw_eval (o : Oracles) (db : Db) (env : Env) (fn : UnwrapFn) (d : Nat)
    (hd : 0 < d) (T : Table) (pts : List Pt) (h : Rep T pts)
    (hT : env.lookup (.named "unwrap_1") = some T) (cm : Option Comparison) :
    Rep (evalBodyA o db env (uwBody fn d (cmpHaving cm))) (cmpStage cm (unwrapCore o fn d pts)) := by
  unfold uwBody
  rw [evalBodyA_grouped o db env _ (uwCols fn d) _ (T.map (qualify "unwrap_1"))
    (by simp [sourceRowsA, sourceRows, hT, Alias.text]) _ rfl]
  apply having_rep
  rw [groupsBy_map]
  have hkey : ∀ r ∈ T, gkey o env (uwCols fn d) [.raw "fingerprint", .raw "timestamp_ns"] (qualify "unwrap_1" r) =
      (fun (k : Val × Val) => [k.1, k.2]) ((fun (v : Val × Val × Option Rat × Val) => (v.1, bucketVal d v.2.1)) (rview r)) := by
    intro r _
    unfold gkey
    rw [uw_aliasVals o env fn d hd r]
    have e1 := get_unqualified "unwrap_1" "fingerprint" r (by simp [Std5])
    simp [evalE, get_cons, rview, e1]
  rw [groupsBy_congr _ _ T hkey]
  simp only [List.map_map, Function.comp_def]
  refine ⟨?_, ?_⟩
  · have := groups_rel rview Pt.view (fun (v : Val × Val × Option Rat × Val) => (v.1, bucketVal d v.2.1))
      (fun (k : Val × Val) => [k.1, k.2])
      (by intro a b hab; simp at hab; exact Prod.ext hab.1 hab.2) T pts h.view
      (fun A => rview (grow o env (uwCols fn d) (A.map (qualify "unwrap_1"))))
      (fun B => Pt.view ⟨(B.head?.map (·.key)).getD .null, (B.head?.map (·.labels)).getD .null,
        (B.head?.map (fun p => bucketOf d p.ts)).getD 0, unwrapValD o fn d (B.map (fun p => (p.ts, p.value)))⟩)
      (fun A B hne hA _ _ hAB => uw_group_row o env fn d hd A (fun r hr => h.std r (hA r hr)) B hne hAB)
    rw [List.map_map]
    simp only [Function.comp_def] at this ⊢
    rw [this, unwrapCore_eq o fn]
    have henc := groupsBy_enc (uwKey d) (fun (k : Val × Int) => (k.1, Val.int k.2))
      (by intro a b hab; simp at hab; exact Prod.ext hab.1 hab.2) pts
    simp only [Pt.view, uwKey, bucketVal] at henc ⊢
    rw [henc]
    simp only [List.map_map, Function.comp_def]
    apply List.map_congr_left
    intro g hg
    obtain ⟨⟨a, rest, hgr, hk⟩, _⟩ := groupsBy_head _ pts g hg
    simp only [hgr, List.head?_cons, Option.map_some, Option.getD_some, ← hk]
    rfl
  · intro r hr
    obtain ⟨g, _, rfl⟩ := List.mem_map.mp hr
    apply grow_std
    intro c hc
    simp only [uwCols, List.mem_cons, List.not_mem_nil, or_false] at hc
    rcases hc with rfl | rfl | rfl | rfl | rfl <;> simp [colName, bucketCol, emptyStr, Std5]

/-! ### `ByWithoutPlanner.processSimple` (labels already joined) -/
/-- regroup a point that carries its labels -/
def regroupL (o : Oracles) (g : Grouping) (p : Pt) : Pt :=
  let kl := regroup o g p.labels
  ⟨kl.1, kl.2, p.ts, p.value⟩

def bwsCols (p : String) (g : Grouping) : List Expr :=
  [simpleCol "timestamp_ns" "timestamp_ns", .col hashLabels "fingerprint",
   .col (byWithoutCol g (.raw (p ++ ".labels"))) "labels", simpleCol "string" "string", simpleCol "value" "value"]

def bwsBody (p : String) (g : Grouping) : Sel :=
  .mk [] false (bwsCols p g) (some (.withRef (.named p))) [] none none [] none [] none

theorem regroup_snd (o : Oracles) (g : Grouping) (v : Val) :
    (match v with
      | .map kv => Val.map (kv.filter (fun p => (groupingKeys g).contains p.1 == g.isBy))
      | _ => Val.null) = (regroup o g v).2 := by
  cases v <;> rfl

theorem hash_regroup (o : Oracles) (env : Env) (g : Grouping) (v : Val) (Y : Row) (h : Y.get "labels" = (regroup o g v).2) :
    evalE o env Y hashLabels = (regroup o g v).1 := by
  cases v <;> simp [hashLabels, evalE, evalEs, h, regroup]

theorem bws_project (o : Oracles) (env : Env) (p : String) (g : Grouping) (r : Row) (h : StdRow r) :
    projectA o env (bwsCols p g) (qualify p r) =
      [("timestamp_ns", r.get "timestamp_ns"), ("fingerprint", (regroup o g (r.get "labels")).1),
       ("labels", (regroup o g (r.get "labels")).2), ("string", r.get "string"), ("value", r.get "value")] := by
  have n1 : p ++ ".labels" = p ++ "." ++ "labels" := dot_name p "labels"
  have e1 := get_unqualified p "timestamp_ns" r (by simp [Std5])
  have e2 := get_unqualified p "string" r (by simp [Std5])
  have e3 := get_unqualified p "value" r (by simp [Std5])
  have e4 := get_qualified p "labels" r h
  have d1 := dotted_ne_std p "labels" "timestamp_ns" (by simp [Std5])
  have d2 := dotted_ne_std p "labels" "fingerprint" (by simp [Std5])
  have d3 := dotted_ne_std p "labels" "string" (by simp [Std5])
  have d4 := dotted_ne_std p "labels" "value" (by simp [Std5])
  -- the filtered map, wherever `p.labels` is read
  have hL : ∀ Y : Row, Y.get (p ++ "." ++ "labels") = r.get "labels" →
      evalE o env Y (byWithoutCol g (.raw (p ++ ".labels"))) = (regroup o g (r.get "labels")).2 := by
    intro Y hY
    rw [n1]
    simp only [byWithoutCol, evalE, hY]
    exact regroup_snd o g _
  have hav : aliasVals o env (bwsCols p g) (qualify p r) =
      [("timestamp_ns", r.get "timestamp_ns"), ("fingerprint", evalE o env (qualify p r) hashLabels),
       ("labels", (regroup o g (r.get "labels")).2), ("string", r.get "string"), ("value", r.get "value")] := by
    have hag1 : hasAgg hashLabels = false := by simp [hashLabels, hasAgg, aggNames]
    have hag2 : hasAgg (byWithoutCol g (.raw (p ++ ".labels"))) = false := by simp [byWithoutCol, hasAgg]
    simp only [bwsCols, aliasVals, simpleCol, List.filterMap_cons, List.filterMap_nil, hasAgg, hag1, hag2, Bool.false_eq_true,
      if_false, evalE_raw, e1, e2, e3, hL _ e4]
  unfold projectA scope
  rw [hav]
  simp only [bwsCols, List.map_cons, List.map_nil, colName, simpleCol, evalE_col, evalE_raw]
  have c1 : Row.get (List.filter (fun p => p.1 != "timestamp_ns")
      [("timestamp_ns", r.get "timestamp_ns"), ("fingerprint", evalE o env (qualify p r) hashLabels),
        ("labels", (regroup o g (r.get "labels")).2), ("string", r.get "string"), ("value", r.get "value")] ++ qualify p r)
      "timestamp_ns" = r.get "timestamp_ns" := by simp [get_cons, e1]
  have c2 : Row.get (List.filter (fun p => p.1 != "fingerprint")
      [("timestamp_ns", r.get "timestamp_ns"), ("fingerprint", evalE o env (qualify p r) hashLabels),
        ("labels", (regroup o g (r.get "labels")).2), ("string", r.get "string"), ("value", r.get "value")] ++ qualify p r)
      "labels" = (regroup o g (r.get "labels")).2 := by simp [get_cons]
  have c3 : Row.get (List.filter (fun p => p.1 != "labels")
      [("timestamp_ns", r.get "timestamp_ns"), ("fingerprint", evalE o env (qualify p r) hashLabels),
        ("labels", (regroup o g (r.get "labels")).2), ("string", r.get "string"), ("value", r.get "value")] ++ qualify p r)
      (p ++ "." ++ "labels") = r.get "labels" := by simp [get_cons, d1, d2, d3, d4, e4]
  have c4 : Row.get (List.filter (fun p => p.1 != "string")
      [("timestamp_ns", r.get "timestamp_ns"), ("fingerprint", evalE o env (qualify p r) hashLabels),
        ("labels", (regroup o g (r.get "labels")).2), ("string", r.get "string"), ("value", r.get "value")] ++ qualify p r)
      "string" = r.get "string" := by simp [get_cons, e2]
  have c5 : Row.get (List.filter (fun p => p.1 != "value")
      [("timestamp_ns", r.get "timestamp_ns"), ("fingerprint", evalE o env (qualify p r) hashLabels),
        ("labels", (regroup o g (r.get "labels")).2), ("string", r.get "string"), ("value", r.get "value")] ++ qualify p r)
      "value" = r.get "value" := by simp [get_cons, e3]
  rw [c1, c4, c5, hash_regroup o env g (r.get "labels") _ c2, hL _ c3]

/-- **by / without after the labels join.** Every point moves to the series of what the grouping keeps of its labels. -/
theorem bws_eval (o : Oracles) (db : Db) (env : Env) (p : String) (g : Grouping) (T : Table) (pts : List Pt) (h : Rep T pts)
    (hT : env.lookup (.named p) = some T) :
    Rep (evalBodyA o db env (bwsBody p g)) (pts.map (regroupL o g)) := by
  have hagg : ((bwsCols p g).any hasAgg) = false := by
    simp [bwsCols, simpleCol, hashLabels, byWithoutCol, hasAgg, aggNames]
  simp only [bwsBody, evalBodyA, List.isEmpty_nil, hagg, Bool.not_false, Bool.and_self, if_true, List.foldl_nil,
    sourceRowsA, sourceRows, hT, Option.getD_some, optB, filter_true, Alias.text, List.map_map]
  refine ⟨?_, ?_⟩
  · rw [List.map_map, List.map_map]
    apply map_rel rview Pt.view _ _ T pts h.view
    intro r hr x _ hv
    simp only [Function.comp_apply]
    rw [bws_project o env p g r (h.std r hr)]
    simp only [rview, Pt.view, Prod.mk.injEq] at hv
    obtain ⟨h1, h2, h3, h4⟩ := hv
    simp [rview, Pt.view, regroupL, get_cons, h2, h3, h4]
  · intro r hr
    obtain ⟨r0, _, rfl⟩ := List.mem_map.mp hr
    simp only [Function.comp_apply]
    intro kv hkv
    simp only [projectA, bwsCols, List.map_cons, List.map_nil, colName, simpleCol, List.mem_cons, List.not_mem_nil, or_false] at hkv
    rcases hkv with rfl | rfl | rfl | rfl | rfl <;> simp [Std5]

/-! ### sorting and filtering commute (transitive order) -/
theorem filter_insertBy {α} (le : α → α → Bool) (trans : ∀ a b c, le a b = true → le b c = true → le a c = true)
    (P : α → Bool) (x : α) (l : List α) (hs : l.Pairwise (fun a b => le a b = true)) :
    (insertBy le x l).filter P = if P x then insertBy le x (l.filter P) else l.filter P := by
  induction l with
  | nil => cases hp : P x <;> simp [insertBy, hp]
  | cons y ys ih =>
    rw [List.pairwise_cons] at hs
    have ih' := ih hs.2
    by_cases hyx : le y x = true
    · simp only [insertBy, hyx, if_true, List.filter_cons]
      rw [ih']
      cases hp : P x <;> cases hy : P y <;> simp [insertBy, hyx]
    · have hyx' : le y x = false := by simpa using hyx
      have e0 : insertBy le x (y :: ys) = x :: y :: ys := by simp [insertBy, hyx']
      rw [e0]
      cases hp : P x with
      | false => simp [List.filter_cons, hp]
      | true =>
        simp only [if_true]
        cases hy : P y with
        | true => simp [List.filter_cons, hp, hy, insertBy, hyx']
        | false =>
          -- `x` kept, `y` dropped: no kept element after `y` goes in front of `x`
          have hnone : ∀ z ∈ ys.filter P, le z x = false := by
            intro z hz
            cases hzx : le z x with
            | false => rfl
            | true => exact absurd (trans y z x (hs.1 z (List.mem_filter.mp hz).1) hzx) hyx
          simp only [List.filter_cons, hp, hy, if_true, Bool.false_eq_true, if_false]
          generalize ys.filter P = zs at hnone
          cases zs with
          | nil => rfl
          | cons z zs => simp [insertBy, hnone z (List.mem_cons_self ..)]

theorem filter_sortBy {α} (le : α → α → Bool) (total : ∀ a b, le a b = true ∨ le b a = true)
    (trans : ∀ a b c, le a b = true → le b c = true → le a c = true) (P : α → Bool) (l : List α) :
    (sortBy le l).filter P = sortBy le (l.filter P) := by
  induction l with
  | nil => rfl
  | cons x l ih =>
    rw [sortBy_cons, filter_insertBy le trans P x _ (sortBy_pairwise le total trans l), ih]
    cases hp : P x <;> simp [List.filter_cons, hp, sortBy_cons]

/-! ### the samples side of an unwrapped range aggregation: ordered `main`, labels join, `UnwrapPlanner` -/
def uwSrc (label : String) : Expr :=
  if label = "_entry" then .raw "main.string" else .mapAt (.raw "_time_series.labels") label.toUTF8.toList

def uwJoinCols (label : String) : List Expr :=
  [simpleCol "main.fingerprint" "fingerprint", simpleCol "main.timestamp_ns" "timestamp_ns",
   simpleCol "_time_series.labels" "labels", simpleCol "main.string" "string",
   .col (.call "toFloat64OrZero" [uwSrc label]) "value"]

def uwJoinBody (c : Ctx) (label : String) (ws : List (Alias × Sel)) : Sel :=
  .mk ws false (uwJoinCols label) (some (.withRef (.named "main")))
    [(joinType c, .named "_time_series", eq (.raw "main.fingerprint") (.raw "_time_series.fingerprint"))]
    none none [] none [] none

/-- an entry as a point: its stream, the stream's labels, its timestamp, its unwrapped value -/
def entryPt (o : Oracles) (c : Ctx) (d : LokiDb) (q : LogQuery) (label : String) (s : Sample) : Pt :=
  ⟨.int s.fp, labelsOf o c d q s.fp, s.ts, unwrapOf o label (labelsOf o c d q s.fp) s⟩

theorem main_ts_names : ∀ k k', "main" ++ "." ++ k ≠ "_time_series" ++ "." ++ k' := by
  intro k k' h
  have := congrArg String.toList h
  simp at this

theorem sampleRow_std (s : Sample) : StdRow (sampleRow "string" s) := by
  intro p hp
  simp only [sampleRow, List.mem_cons, List.not_mem_nil, or_false] at hp
  rcases hp with rfl | rfl | rfl | rfl <;> simp [Std5]

/-- a column of the joined right row (absent: null) -/
def rightGet (right : Option Row) (k : String) : Val :=
  match right with
  | some rr => rr.get k
  | none => .null

theorem uw_project (o : Oracles) (env : Env) (label : String) (s : Sample) (right : Option Row) :
    projectA o env (uwJoinCols label) (joinedRow "main" "_time_series" (sampleRow "string" s) right) =
      [("fingerprint", .int s.fp), ("timestamp_ns", .int s.ts), ("labels", rightGet right "labels"), ("string", .str s.str),
       ("value", .rat (unwrapOf o label (rightGet right "labels") s))] := by
  have hc : ∀ c ∈ uwJoinCols label, ∀ e a, c = .col e a → Std5 a := by
    intro c hc e a he
    simp only [uwJoinCols, simpleCol, List.mem_cons, List.not_mem_nil, or_false] at hc
    rcases hc with rfl | rfl | rfl | rfl | rfl <;> cases he <;> simp [Std5]
  have hs := sampleRow_std s
  have g : ∀ self k, (scope o env (uwJoinCols label) self (joinedRow "main" "_time_series" (sampleRow "string" s) right)).get
      ("main" ++ "." ++ k) = (sampleRow "string" s).get k := by
    intro self k
    rw [scope_get_dotted o env _ self _ "main" k hc, joinedRow_get_left "main" "_time_series" k _ right hs main_ts_names]
  have gl : ∀ self, (scope o env (uwJoinCols label) self (joinedRow "main" "_time_series" (sampleRow "string" s) right)).get
      ("_time_series" ++ "." ++ "labels") = rightGet right "labels" := by
    intro self
    rw [scope_get_dotted o env _ self _ "_time_series" "labels" hc,
      joinedRow_get_right "main" "_time_series" "labels" _ right hs main_ts_names]
    rfl
  have e1 := g "fingerprint" "fingerprint"
  have e2 := g "timestamp_ns" "timestamp_ns"
  have e3 := gl "labels"
  have e4 := g "string" "string"
  have e5 := g "value" "string"
  have e6 := gl "value"
  simp only [show "main" ++ "." ++ "fingerprint" = "main.fingerprint" from rfl,
    show "main" ++ "." ++ "timestamp_ns" = "main.timestamp_ns" from rfl,
    show "main" ++ "." ++ "string" = "main.string" from rfl,
    show "_time_series" ++ "." ++ "labels" = "_time_series.labels" from rfl] at e1 e2 e3 e4 e5 e6
  have r1 : (sampleRow "string" s).get "fingerprint" = .int s.fp := by simp [sampleRow, get_cons]
  have r2 : (sampleRow "string" s).get "timestamp_ns" = .int s.ts := by simp [sampleRow, get_cons]
  have r3 : (sampleRow "string" s).get "string" = .str s.str := by simp [sampleRow, get_cons]
  have hval : evalE o env (scope o env (uwJoinCols label) "value" (joinedRow "main" "_time_series" (sampleRow "string" s) right))
      (.call "toFloat64OrZero" [uwSrc label]) = .rat (unwrapOf o label (rightGet right "labels") s) := by
    unfold uwSrc unwrapOf
    by_cases hl : label = "_entry"
    · subst hl
      simp only [if_true, evalE, evalEs]
      rw [e5, r3]
      simp
    · simp only [hl, if_false, evalE, evalEs]
      rw [e6]
      cases rightGet right "labels" <;> simp
  unfold projectA
  simp only [uwJoinCols, List.map_cons, List.map_nil, colName, simpleCol, evalE_col, evalE_raw] at e1 e2 e3 e4 hval ⊢
  rw [e1, e2, e3, e4, r1, r2, r3, hval]

theorem labelsOf_find (o : Oracles) (c : Ctx) (d : LokiDb) (q : LogQuery) (fp : Int) :
    rightGet (((d.ts.filter (tsOk o c d q)).find? (fun t => Val.int fp == .int t.fp)).map (tsOut o)) "labels" =
      labelsOf o c d q fp := by
  unfold labelsOf
  rw [List.find?_filter]
  have : (List.find? (fun t => decide (tsOk o c d q t = true ∧ (Val.int fp == Val.int t.fp) = true)) d.ts) =
      List.find? (fun t => decide (fromDate c ≤ t.date) && typeOk c t.tp && fpSelected o c d q t.fp && t.fp == fp) d.ts := by
    congr 1
    funext t
    rw [Bool.eq_iff_iff]
    simp only [tsOk, int_beq, Bool.and_eq_true, beq_iff_eq, decide_eq_true_eq]
    constructor <;> (rintro ⟨a, b⟩; exact ⟨a, b.symm⟩)
  rw [this]
  cases List.find? (fun t => decide (fromDate c ≤ t.date) && typeOk c t.tp && fpSelected o c d q t.fp && t.fp == fp) d.ts with
  | none => rfl
  | some t => simp [rightGet, tsOut, get_cons]

/-- **the samples side of an unwrapped range aggregation.** `main ANY LEFT JOIN _time_series` with the value column
    `toFloat64OrZero(labels['x'])` (or of the line, for `_entry`) holds one row per entry of `main`, in its order: the
    stream, the stream's labels, the timestamp, the unwrapped value. -/
theorem uwJoin_eval (o : Oracles) (c : MCtx) (d : LokiDb) (q : LogQuery) (env : Env) (label : String) (es : List Sample)
    (ws : List (Alias × Sel))
    (hM : env.lookup (.named "main") = some (es.map (sampleRow "string")))
    (hTS : env.lookup (.named "_time_series") = some ((d.ts.filter (tsOk o c.toCtx d q)).map (tsOut o))) :
    Rep (evalBodyA o (d.toDbM c) env (uwJoinBody c.toCtx label ws)) (es.map (entryPt o c.toCtx d q label)) := by
  have hagg : ((uwJoinCols label).any hasAgg) = false := by
    have : hasAgg (.call "toFloat64OrZero" [uwSrc label]) = false := by
      unfold uwSrc
      by_cases hl : label = "_entry" <;> simp [hl, hasAgg, aggNames]
    have h1 : ∀ n a, hasAgg (.col (.raw n) a) = false := fun _ _ => rfl
    have h5 : hasAgg (.col (.call "toFloat64OrZero" [uwSrc label]) "value") = false := this
    simp only [uwJoinCols, simpleCol, List.any_cons, List.any_nil, h1, h5, Bool.or_self]
  simp only [uwJoinBody, evalBodyA, List.isEmpty_nil, hagg, Bool.not_false, Bool.and_self, if_true,
    List.foldl_cons, List.foldl_nil, sourceRowsA, sourceRows, hM, Option.getD_some, optB, filter_true, Alias.text]
  rw [show (eq (Expr.raw "main.fingerprint") (Expr.raw "_time_series.fingerprint")) =
      eq (.raw ("main" ++ "." ++ "fingerprint")) (.raw ("_time_series" ++ "." ++ "fingerprint")) from rfl]
  rw [anyLeftJoin_fp o env "main" "_time_series" main_ts_names _ (by
      intro r hr; obtain ⟨s, _, rfl⟩ := List.mem_map.mp hr; exact sampleRow_std s)
    (d.ts.filter (tsOk o c.toCtx d q)) (tsOut o) (fun t => t.fp) (fun t => by simp [tsOut, get_cons]) hTS]
  simp only [List.map_map]
  have hrow : ∀ s ∈ es, (projectA o env (uwJoinCols label) ∘ (fun r => joinedRow "main" "_time_series" r
        (Option.map (tsOut o) (List.find? (fun t => r.get "fingerprint" == Val.int t.fp) (List.filter (tsOk o c.toCtx d q) d.ts)))) ∘
        sampleRow "string") s =
      [("fingerprint", .int s.fp), ("timestamp_ns", .int s.ts), ("labels", labelsOf o c.toCtx d q s.fp), ("string", .str s.str),
       ("value", .rat (unwrapOf o label (labelsOf o c.toCtx d q s.fp) s))] := by
    intro s _
    simp only [Function.comp_apply]
    rw [uw_project]
    have r1 : (sampleRow "string" s).get "fingerprint" = .int s.fp := by simp [sampleRow, get_cons]
    rw [r1, labelsOf_find]
  rw [List.map_congr_left hrow]
  refine ⟨?_, ?_⟩
  · rw [List.map_map, List.map_map]
    apply List.map_congr_left
    intro s _
    simp [rview, Pt.view, entryPt, get_cons, numOf?]
  · intro r hr
    obtain ⟨s, _, rfl⟩ := List.mem_map.mp hr
    intro p hp
    simp only [List.mem_cons, List.not_mem_nil, or_false] at hp
    rcases hp with rfl | rfl | rfl | rfl | rfl <;> simp [Std5]

/-! ### the range phase of an unwrapped range aggregation -/
def mainSorted (c : Ctx) (q : LogQuery) : Sel :=
  .mk (fpWiths c q) false samplesCols (some (.col (.raw c.samplesTable) "samples")) []
    (some (windowCond c)) (some (and_ (fpIn :: (lineFilters q).map lineClause))) [] none
    [.orderBy (.raw "timestamp_ns") (dirOf c)] none

theorem splSel_unwrap (c : MCtx) (q : MetricQuery) (fn : UnwrapFn) (label : String) (hk : q.rangeAgg.kind = .unwrap fn label) :
    splSel c q = uwJoinBody c.toCtx label (fpWiths c.toCtx q.rangeAgg.sel ++
      [(.named "main", mainSorted c.toCtx q.rangeAgg.sel),
       (.named "_time_series", (timeSeriesSel c.toCtx).setWiths (fpWiths c.toCtx q.rangeAgg.sel))]) := by
  unfold splSel
  simp only [hk]
  have hm : (samplesMain c.toCtx q.rangeAgg.sel).setOrderBy [.orderBy (.raw "timestamp_ns") (dirOf c.toCtx)] =
      mainSorted c.toCtx q.rangeAgg.sel := by
    rw [samplesMain_eq]; rfl
  rw [hm]
  unfold labelsJoin
  rw [tsWith_eq, with_two _ _ _ _ _ (by exact (fpWiths_als c.toCtx q.rangeAgg.sel).1)
    (by exact named_notin_fp _ _ _ (by decide)) (by decide)
    (by intro x hx; rw [withs_setWiths] at hx; exact hx)]
  unfold unwrapSel uwJoinBody uwJoinCols uwSrc joinedSel joinType
  by_cases hl : label = "_entry" <;>
    simp [hl, Sel.setWiths, Sel.setCols, Sel.cols, patchCol, getCol, simpleCol, mainSorted, Sel.withs]

theorem evalBodyA_orderBy (o : Oracles) (db : Db) (env : Env) (ws : List (Alias × Sel)) (cols : List Expr) (f : Option Expr)
    (pre wher : Option Expr) (e : Expr) (ob : List Expr) :
    evalBodyA o db env (.mk ws false cols f [] pre wher [] none (e :: ob) none) =
      sortBy (rowLe (orderKeys (e :: ob))) (evalBodyA o db env (.mk ws false cols f [] pre wher [] none [] none)) := by
  simp [evalBodyA]

theorem mainSorted_eval (o : Oracles) (c : MCtx) (hn : c.namesOk) (d : LokiDb) (q : LogQuery) (env : Env) (T : Table)
    (hT : env.lookup (.named "fp_sel") = some T) (hP : FpTable T (fpSelected o c.toCtx d q)) :
    evalBodyA o (d.toDbM c) env (mainSorted c.toCtx q) =
      (sortBy (tsLe c.toCtx) (d.samples.filter (entryMatches o c.toCtx d q))).map (sampleRow "string") := by
  unfold mainSorted samplesCols
  rw [evalBodyA_orderBy, samplesMain_eval o c hn d q env T hT hP _ "string" (Or.inl rfl)]
  simp only [orderKeys]
  exact sortBy_map (tsLe c.toCtx) _ (sampleRow "string") (rowLe_main c.toCtx) _

/-- the entry points an unwrapped range aggregation groups: the matching entries in timestamp order, each with its
    stream's labels and its unwrapped value, regrouped when the range aggregation carries a grouping clause -/
def uwInput (o : Oracles) (c : Ctx) (d : LokiDb) (r : RangeAgg) (label : String) : List Pt :=
  let pts := (sortBy (tsLe c) (d.samples.filter (entryMatches o c d r.sel))).map (entryPt o c d r.sel label)
  match chosenGrouping r.byPrefix r.bySuffix with
  | some g => pts.map (regroupL o g)
  | none => pts

/-- the WITH names of the range phase of an unwrapped range aggregation -/
def uwAls (r : RangeAgg) : List Alias :=
  [.named "main", .named "_time_series"] ++
  (match chosenGrouping r.byPrefix r.bySuffix with
   | some _ => [.named ("pre_by_without_" ++ toString ((labelConds r.sel).length + 1))]
   | none => []) ++ [.named "unwrap_1"]

def uwId (r : RangeAgg) : Nat :=
  (labelConds r.sel).length + (match chosenGrouping r.byPrefix r.bySuffix with | some _ => 1 | none => 0)

theorem unwrapFnSel_eq (fn : UnwrapFn) (d : Nat) (cm : Option Comparison) (main : Sel) :
    cmpOpt cm (unwrapFnSel fn d main) = (uwBody fn d (cmpHaving cm)).with_ [(.named "unwrap_1", main)] := by
  have : unwrapFnSel fn d main = (uwBody fn d none).with_ [(.named "unwrap_1", main)] := rfl
  rw [this]
  unfold uwBody Sel.with_
  simp only [Sel.setWiths]
  rw [cmpOpt_eq]

theorem byWithoutSimple_eq (id : Nat) (g : Grouping) (main : Sel) :
    byWithoutSimple id g main = (bwsBody ("pre_by_without_" ++ toString (id + 1)) g).with_
      [(.named ("pre_by_without_" ++ toString (id + 1)), main)] := rfl

theorem rangeState_unwrap (c : MCtx) (q : MetricQuery) (fn : UnwrapFn) (label : String)
    (hk : q.rangeAgg.kind = .unwrap fn label) :
    rangeState false c q = ⟨cmpOpt q.rangeAgg.cmp (unwrapFnSel fn q.rangeAgg.durNs
      (planByWithout c.toCtx false (chosenGrouping q.rangeAgg.byPrefix q.rangeAgg.bySuffix)
        ⟨splSel c q, (labelConds q.rangeAgg.sel).length⟩).sel),
      uwId q.rangeAgg⟩ := by
  have hu : q.rangeAgg.isUnwrap = true := by unfold RangeAgg.isUnwrap; rw [hk]
  unfold rangeState uwId
  simp only [Bool.false_eq_true, if_false, orderRange, hk, List.foldl_append, List.foldl_cons, List.foldl_nil, applyStep,
    foldl_cmpStep, hu, Bool.not_true]
  cases chosenGrouping q.rangeAgg.byPrefix q.rangeAgg.bySuffix <;> simp [planByWithout]

/-- **range phase over unwrapped values.** After `planSpl` (ordered `main`, labels join, `UnwrapPlanner`), the optional
    `by`/`without`, `UnwrapFunctionPlanner` and the optional comparison, the statement holds the points of the direct
    reading's range stage over the matching entries taken in timestamp order. -/
theorem uwPhase_ok (o : Oracles) (c : MCtx) (hn : c.namesOk) (d : LokiDb) (q : MetricQuery) (fn : UnwrapFn) (label : String)
    (hk : q.rangeAgg.kind = .unwrap fn label)
    (hm : q.rangeAgg.sel.matchers.length ≤ 63) (hd : 0 < q.rangeAgg.durNs) :
    PStage o c d q.rangeAgg.sel (rangeState false c q).sel
      (cmpStage q.rangeAgg.cmp (unwrapCore o fn q.rangeAgg.durNs (uwInput o c.toCtx d q.rangeAgg label))) (uwAls q.rangeAgg) := by
  rw [rangeState_unwrap c q fn label hk, splSel_unwrap c q fn label hk]
  simp only
  obtain ⟨T, rest, hE, hT⟩ := fpWiths_eval o c hn d q.rangeAgg.sel hm
  -- the samples side
  have h0 : PStage o c d q.rangeAgg.sel (uwJoinBody c.toCtx label (fpWiths c.toCtx q.rangeAgg.sel ++
      [(.named "main", mainSorted c.toCtx q.rangeAgg.sel),
       (.named "_time_series", (timeSeriesSel c.toCtx).setWiths (fpWiths c.toCtx q.rangeAgg.sel))]))
      ((sortBy (tsLe c.toCtx) (d.samples.filter (entryMatches o c.toCtx d q.rangeAgg.sel))).map
        (entryPt o c.toCtx d q.rangeAgg.sel label)) [.named "main", .named "_time_series"] := by
    refine ⟨⟨_, rfl, rfl⟩, ?_, ?_⟩
    · simp only [uwJoinBody, Sel.withs, als_append]
      refine List.nodup_append.mpr ⟨(fpWiths_als c.toCtx q.rangeAgg.sel).1, by simp [als], ?_⟩
      intro x hx y hy
      simp only [als, List.map_cons, List.map_nil, List.mem_cons, List.not_mem_nil, or_false] at hy
      rcases hy with rfl | rfl
      · exact fun e => named_notin_fp _ _ "main" (by decide) (e ▸ hx)
      · exact fun e => named_notin_fp _ _ "_time_series" (by decide) (e ▸ hx)
    · rw [evalSelA_eq, evalBodyM_eq_A _ _ _ _ (by rfl)]
      unfold envOf
      simp only [uwJoinBody, Sel.withs]
      rw [evalWithsA_append, hE]
      simp only [evalWithsA]
      rw [evalBodyM_eq_A _ _ _ (mainSorted c.toCtx q.rangeAgg.sel) (by rfl),
        mainSorted_eval o c hn d q.rangeAgg.sel _ T (by simp [List.lookup]) hT,
        evalBodyM_eq_A _ _ _ ((timeSeriesSel c.toCtx).setWiths (fpWiths c.toCtx q.rangeAgg.sel)) (by rfl),
        timeSeriesA_eval o c hn d q.rangeAgg.sel _ T (by simp [List.lookup]) hT]
      exact uwJoin_eval o c d q.rangeAgg.sel _ label _ _ (by simp [List.lookup]) (by simp [List.lookup])
  unfold uwInput uwAls
  cases hg : chosenGrouping q.rangeAgg.byPrefix q.rangeAgg.bySuffix with
  | none =>
    simp only [planByWithout]
    rw [unwrapFnSel_eq]
    have := h0.wrap "unwrap_1" (by decide) (by decide) (uwBody fn q.rangeAgg.durNs (cmpHaving q.rangeAgg.cmp))
      (cmpHaving_notBitSet _) _ (uw_eval o _ _ fn _ hd _ _ h0.rep (by simp [List.lookup]) q.rangeAgg.cmp)
    simpa using this
  | some g =>
    simp only [planByWithout, Bool.false_eq_true, if_false]
    rw [unwrapFnSel_eq, byWithoutSimple_eq]
    have h1 := h0.wrap ("pre_by_without_" ++ toString ((labelConds q.rangeAgg.sel).length + 1)) (by str_ne)
      (by simp only [List.mem_cons, List.not_mem_nil, or_false, Alias.named.injEq, not_or]; constructor <;> str_ne)
      (bwsBody ("pre_by_without_" ++ toString ((labelConds q.rangeAgg.sel).length + 1)) g) (by rfl) _
      (bws_eval o _ _ _ g _ _ h0.rep (by simp [List.lookup]))
    have := h1.wrap "unwrap_1" (by decide)
      (by simp only [List.mem_append, List.mem_cons, List.not_mem_nil, or_false, Alias.named.injEq, not_or]
          refine ⟨⟨by decide, by decide⟩, ?_⟩
          apply Ne.symm; str_ne)
      (uwBody fn q.rangeAgg.durNs (cmpHaving q.rangeAgg.cmp))
      (cmpHaving_notBitSet _) _ (uw_eval o _ _ fn _ hd _ _ h1.rep (by simp [List.lookup]) q.rangeAgg.cmp)
    simpa using this

/-! ### every query shape over an unwrapped range aggregation -/
theorem pbw_inj (a b : Nat) (h : "pre_by_without_" ++ toString a = "pre_by_without_" ++ toString b) : a = b := by
  have := congrArg String.toList h
  simp at this
  have h2 := congrArg (fun l => Nat.ofDigitChars 10 l 0) this
  simpa [Nat.ofDigitChars_ten_toDigits] using h2

theorem uwAls_fresh (r : RangeAgg) (n : String) (h1 : n ≠ "main") (h2 : n ≠ "_time_series") (h3 : n ≠ "unwrap_1")
    (h4 : n ≠ "pre_by_without_" ++ toString ((labelConds r.sel).length + 1)) : Alias.named n ∉ uwAls r := by
  unfold uwAls
  cases chosenGrouping r.byPrefix r.bySuffix
  · simp [h1, h2, h3]
  · simp only [List.mem_append, List.mem_cons, List.not_mem_nil, or_false, Alias.named.injEq, not_or]
    exact ⟨⟨⟨h1, h2⟩, h4⟩, h3⟩

/-- key and labels of a point agree with the direct reading's view of its labels -/
def LabelledKL (o : Oracles) (c : Ctx) (d : LokiDb) (q : LogQuery) (key labels : Val) : Prop :=
  ptLabels o c d q ⟨key, labels, 0, 0⟩ = labels ∧ Atomic key ∧ Atomic labels

theorem labelledKL_ptLabels (o : Oracles) (c : Ctx) (d : LokiDb) (q : LogQuery) (p : Pt)
    (h : LabelledKL o c d q p.key p.labels) : ptLabels o c d q p = p.labels := h.1

theorem entryPt_labelled (o : Oracles) (c : Ctx) (d : LokiDb) (q : LogQuery) (label : String) (s : Sample) :
    LabelledKL o c d q (entryPt o c d q label s).key (entryPt o c d q label s).labels := by
  unfold LabelledKL entryPt ptLabels
  refine ⟨?_, rfl, ?_⟩
  · simp only
    cases hl : labelsOf o c d q s.fp <;> simp [hl]
  · simp only
    unfold labelsOf
    split <;> rfl

theorem regrouped_labelled (o : Oracles) (c : Ctx) (d : LokiDb) (q : LogQuery) (p : Pt) (h : Regrouped p) :
    LabelledKL o c d q p.key p.labels :=
  ⟨ptLabels_of_regrouped o c d q ⟨p.key, p.labels, 0, 0⟩ h, h.atomic.1, h.atomic.2⟩

theorem regroupL_regrouped (o : Oracles) (g : Grouping) (p : Pt) : Regrouped (regroupL o g p) := by
  unfold regroupL regroup
  cases p.labels with
  | map m => exact Or.inl ⟨_, _, rfl, rfl⟩
  | _ => exact Or.inr ⟨rfl, rfl⟩

theorem unwrapCore_kl (fn : UnwrapFn) (d : Nat) (pts : List Pt) :
    ∀ p ∈ unwrapCore o fn d pts, ∃ x ∈ pts, p.key = x.key ∧ p.labels = x.labels := by
  intro p hp
  unfold unwrapCore at hp
  obtain ⟨g, hg, hgp⟩ := List.mem_filterMap.mp hp
  obtain ⟨⟨a, rest, hgr, hk⟩, hall⟩ := groupsBy_head _ pts g hg
  cases hv : unwrapVal o fn d (g.2.map (fun p => (p.ts, p.value))) with
  | none => rw [hv] at hgp; cases hgp
  | some v =>
    rw [hv] at hgp
    simp only [Option.map_some, Option.some.injEq] at hgp
    subst hgp
    refine ⟨a, (hall a (by rw [hgr]; simp)).1, ?_, ?_⟩
    · simp only [← hk, uwKey]
    · simp only [hgr, List.head?_cons, Option.map_some, Option.getD_some]

theorem uwInput_labelled (o : Oracles) (c : Ctx) (d : LokiDb) (r : RangeAgg) (label : String) :
    ∀ p ∈ uwInput o c d r label, LabelledKL o c d r.sel p.key p.labels := by
  intro p hp
  unfold uwInput at hp
  cases hg : chosenGrouping r.byPrefix r.bySuffix with
  | none =>
    rw [hg] at hp
    obtain ⟨s, _, rfl⟩ := List.mem_map.mp hp
    exact entryPt_labelled ..
  | some g =>
    rw [hg] at hp
    obtain ⟨x, _, rfl⟩ := List.mem_map.mp hp
    exact regrouped_labelled o c d r.sel _ (regroupL_regrouped o g x)

theorem regroupPt_eq_regroupL (o : Oracles) (c : Ctx) (d : LokiDb) (q : LogQuery) (g : Grouping) (p : Pt)
    (h : LabelledKL o c d q p.key p.labels) : regroupPt o c d q g p = regroupL o g p := by
  unfold regroupPt regroupL
  rw [labelledKL_ptLabels o c d q p h]

theorem map_ptLabels_labelled (o : Oracles) (c : Ctx) (d : LokiDb) (q : LogQuery) (pts : List Pt)
    (h : ∀ p ∈ pts, LabelledKL o c d q p.key p.labels) : pts.map (fun p => { p with labels := ptLabels o c d q p }) = pts := by
  conv => rhs; rw [← List.map_id pts]
  apply List.map_congr_left
  intro p hp
  rw [labelledKL_ptLabels o c d q p (h p hp)]
  rfl

theorem upperPts_of (o : Oracles) (c : MCtx) (d : LokiDb) (q : MetricQuery) (p0 p1 : List Pt)
    (h : (match q.agg? with
        | some a => cmpStage a.cmp (aggStage o c.toCtx d q.rangeAgg.sel a p0)
        | none => p0) = p1) :
    upperPts o c d q p0 = match q with
      | .topk t => cmpStage t.cmp (topkStage t.isTop t.k p1)
      | _ => p1 := by
  subst h
  cases q <;> rfl

/-- **every query shape over a proved unwrap range phase.** No labels join at the end: every stage carries the labels. -/
theorem planPhases_of_unwrap (o : Oracles) (c : MCtx) (d : LokiDb) (q : MetricQuery)
    (hu : q.rangeAgg.isUnwrap = true) (hok : aggOk q) (p0 : List Pt)
    (hr : PStage o c d q.rangeAgg.sel (rangeState false c q).sel p0 (uwAls q.rangeAgg))
    (hid : (rangeState false c q).id = uwId q.rangeAgg)
    (hlab : ∀ p ∈ p0, LabelledKL o c.toCtx d q.rangeAgg.sel p.key p.labels)
    (hcol : hasColumn (rangeState false c q).sel.cols "labels" = true) :
    (evalSelA o (d.toDbM c) (planPhases false c q)).map normRow = sortBy (rowLe matrixKeys)
      (((stepStage c.stepNs q.rangeAgg.durNs (upperPts o c d q p0)).map
        (fun p => { p with labels := ptLabels o c.toCtx d q.rangeAgg.sel p })).map Pt.row) := by
  unfold planPhases
  have hml : matrixLabelsW false q = true := by unfold matrixLabelsW; simp [hu]
  have hfresh : ∀ n : String, n ≠ "main" → n ≠ "_time_series" → n ≠ "unwrap_1" → (∀ k : Nat, n ≠ "pre_by_without_" ++ toString k) →
      Alias.named n ∉ uwAls q.rangeAgg := fun n h1 h2 h3 h4 => uwAls_fresh _ n h1 h2 h3 (h4 _)
  unfold joinPhase
  rw [hml]
  simp only [if_true]
  cases hagg : q.agg? with
  | none =>
    have hA : aggPhase false c q (rangeState false c q) = (rangeState false c q).sel := by unfold aggPhase; rw [hagg]
    have hU1 : (match q.agg? with
        | some a => cmpStage a.cmp (aggStage o c.toCtx d q.rangeAgg.sel a p0)
        | none => p0) = p0 := by rw [hagg]
    rw [hA, upperPts_of o c d q p0 p0 hU1]
    cases q with
    | topk t =>
      simp only [topkPhase]
      have h2 := hr.topk t.isTop t.k t.cmp true hcol (fun p hp => ⟨(hlab p hp).2.1, (hlab p hp).2.2⟩) (fun hw => by cases hw)
        (hfresh _ (by decide) (by decide) (by decide) (by intro k; str_ne))
        (hfresh _ (by decide) (by decide) (by decide) (by intro k; str_ne))
      have hl2 : ∀ p ∈ cmpStage t.cmp (topkStage t.isTop t.k p0),
          LabelledKL o c.toCtx d (MetricQuery.topk t).rangeAgg.sel p.key p.labels :=
        cmpStage_labels _ _ _ (fun p hp => hlab p (topkStage_sub _ _ _ p hp))
      have h3 := h2.stepFix (MetricQuery.topk t).rangeAgg.durNs true (by
          rw [cols_cmpOpt, topkSel_eq, cols_with, hcol]
          simp [topOuterBody, topOuterCols, Sel.cols, hasColumn, simpleCol, emptyStr]) (fun hw => by cases hw)
        (notin_append (hfresh _ (by decide) (by decide) (by decide) (by intro k; str_ne)) (by decide))
      rw [h3.final (notin_append (notin_append (hfresh _ (by decide) (by decide) (by decide) (by intro k; str_ne)) (by decide))
        (by unfold stepAls; split <;> simp))]
      rw [map_ptLabels_labelled]
      exact stepStage_pred _ _ _ (LabelledKL o c.toCtx d (MetricQuery.topk t).rangeAgg.sel) hl2
    | range r =>
      simp only [topkPhase]
      have h3 := hr.stepFix (MetricQuery.range r).rangeAgg.durNs true hcol (fun hw => by cases hw)
        (hfresh _ (by decide) (by decide) (by decide) (by intro k; str_ne))
      rw [h3.final (notin_append (hfresh _ (by decide) (by decide) (by decide) (by intro k; str_ne))
        (by unfold stepAls; split <;> simp))]
      rw [map_ptLabels_labelled]
      exact stepStage_pred _ _ _ (LabelledKL o c.toCtx d (MetricQuery.range r).rangeAgg.sel) hlab
    | agg a => simp [MetricQuery.agg?] at hagg
  | some a =>
    obtain ⟨g, hg⟩ : ∃ g, aggGrouping a = g := ⟨_, rfl⟩
    have hA : aggPhase false c q (rangeState false c q) =
        cmpOpt a.cmp (aggSel a.fn true (byWithoutSimple (uwId q.rangeAgg) g (rangeState false c q).sel)) := by
      unfold aggPhase
      rw [hagg]
      simp only [hml, hu, Bool.not_true, hg, planByWithout, Bool.false_eq_true, if_false, hid]
    have hU1 : (match q.agg? with
        | some a => cmpStage a.cmp (aggStage o c.toCtx d q.rangeAgg.sel a p0)
        | none => p0) = cmpStage a.cmp (aggCore o a.fn (p0.map (regroupL o g))) := by
      rw [hagg]
      simp only [aggStage_eq]
      congr 2
      apply List.map_congr_left
      intro p hp
      rw [← hg]
      exact regroupPt_eq_regroupL o c.toCtx d q.rangeAgg.sel _ p (hlab p hp)
    rw [hA, upperPts_of o c d q p0 _ hU1, byWithoutSimple_eq]
    have hbw : Alias.named ("pre_by_without_" ++ toString (uwId q.rangeAgg + 1)) ∉ uwAls q.rangeAgg := by
      unfold uwAls uwId
      cases chosenGrouping q.rangeAgg.byPrefix q.rangeAgg.bySuffix with
      | none =>
        simp only [List.append_nil, List.mem_append, List.mem_cons, List.not_mem_nil, or_false, Alias.named.injEq, not_or]
        refine ⟨⟨?_, ?_⟩, ?_⟩ <;> str_ne
      | some _ =>
        simp only [List.mem_append, List.mem_cons, List.not_mem_nil, or_false, Alias.named.injEq, not_or]
        refine ⟨⟨⟨?_, ?_⟩, ?_⟩, ?_⟩
        · str_ne
        · str_ne
        · intro e
          have := pbw_inj _ _ e
          omega
        · str_ne
    have h2 := hr.wrap ("pre_by_without_" ++ toString (uwId q.rangeAgg + 1)) (by str_ne) hbw
      (bwsBody ("pre_by_without_" ++ toString (uwId q.rangeAgg + 1)) g) (by rfl) _
      (bws_eval o _ _ _ g _ _ hr.rep (by simp [List.lookup]))
    have h3 := h2.agg a.fn a.cmp (notin_append (hfresh _ (by decide) (by decide) (by decide) (by intro k; str_ne))
      (by simp only [List.mem_singleton, Alias.named.injEq]; apply Ne.symm; str_ne))
    have hreg : ∀ p ∈ cmpStage a.cmp (aggCore o a.fn (p0.map (regroupL o g))), Regrouped p := by
      apply cmpStage_labels
      apply aggCore_regrouped
      intro p hp
      obtain ⟨x, _, rfl⟩ := List.mem_map.mp hp
      exact regroupL_regrouped o g x
    have hfreshL3 : ∀ n : String, n ≠ "main" → n ≠ "_time_series" → n ≠ "unwrap_1" → n ≠ "lra_main" →
        (∀ k : Nat, n ≠ "pre_by_without_" ++ toString k) →
        Alias.named n ∉ uwAls q.rangeAgg ++ [Alias.named ("pre_by_without_" ++ toString (uwId q.rangeAgg + 1))] ++
          [Alias.named "lra_main"] := by
      intro n h1 h2 h3 h4 h5
      refine notin_append (notin_append (hfresh n h1 h2 h3 h5) ?_) ?_
      · simp only [List.mem_singleton, Alias.named.injEq]; exact h5 _
      · simp only [List.mem_singleton, Alias.named.injEq]; exact h4
    cases q with
    | topk t =>
      simp only [topkPhase]
      have h4 := h3.topk t.isTop t.k t.cmp true (hasLabels_agg _ _ _) (fun p hp => (hreg p hp).atomic) (fun hw => by cases hw)
        (hfreshL3 _ (by decide) (by decide) (by decide) (by decide) (by intro k; str_ne))
        (hfreshL3 _ (by decide) (by decide) (by decide) (by decide) (by intro k; str_ne))
      have hreg2 : ∀ p ∈ cmpStage t.cmp (topkStage t.isTop t.k
          (cmpStage a.cmp (aggCore o a.fn (p0.map (regroupL o g))))), Regrouped p :=
        cmpStage_labels _ _ _ (fun p hp => hreg p (topkStage_sub _ _ _ p hp))
      have h5 := h4.stepFix (MetricQuery.topk t).rangeAgg.durNs true (by
          rw [cols_cmpOpt, topkSel_eq, cols_with, hasLabels_agg]
          simp [topOuterBody, topOuterCols, Sel.cols, hasColumn, simpleCol, emptyStr]) (fun hw => by cases hw)
        (notin_append (hfreshL3 _ (by decide) (by decide) (by decide) (by decide) (by intro k; str_ne)) (by decide))
      rw [h5.final (notin_append (notin_append (hfreshL3 _ (by decide) (by decide) (by decide) (by decide) (by intro k; str_ne))
          (by decide)) (by unfold stepAls; split <;> simp))]
      rw [map_ptLabels_regrouped]
      exact stepStage_pred _ _ _ (fun k l => Regrouped ⟨k, l, 0, 0⟩) hreg2
    | agg a' =>
      simp only [topkPhase]
      have h5 := h3.stepFix (MetricQuery.agg a').rangeAgg.durNs true (hasLabels_agg _ _ _) (fun hw => by cases hw)
        (hfreshL3 _ (by decide) (by decide) (by decide) (by decide) (by intro k; str_ne))
      rw [h5.final (notin_append (hfreshL3 _ (by decide) (by decide) (by decide) (by decide) (by intro k; str_ne))
          (by unfold stepAls; split <;> simp))]
      rw [map_ptLabels_regrouped]
      exact stepStage_pred _ _ _ (fun k l => Regrouped ⟨k, l, 0, 0⟩) hreg
    | range r => simp [MetricQuery.agg?] at hagg

/-! ### the direct reading over the entries in timestamp order -/
theorem rangePoints_unwrap (o : Oracles) (c : Ctx) (d : LokiDb) (r : RangeAgg) (fn : UnwrapFn) (label : String) (lo hi : Int)
    (hk : r.kind = .unwrap fn label) :
    rangePoints o c d r lo hi = unwrapCore o fn r.durNs
      (match chosenGrouping r.byPrefix r.bySuffix with
       | some g => ((d.samples.filter (entryMatchesW o c d r.sel lo hi)).map (entryPt o c d r.sel label)).map (regroupL o g)
       | none => (d.samples.filter (entryMatchesW o c d r.sel lo hi)).map (entryPt o c d r.sel label)) := by
  unfold rangePoints unwrapCore groupsBy uwKey
  simp only [hk]
  cases chosenGrouping r.byPrefix r.bySuffix with
  | none =>
    simp only [entryPt, List.map_map, Function.comp_def, List.filterMap_map, List.filter_map, List.head?_map, Option.map_map]
  | some g =>
    simp only [entryPt, regroupL, List.map_map, Function.comp_def, List.filterMap_map, List.filter_map, List.head?_map,
      Option.map_map]

theorem rangePoints_sorted (o : Oracles) (c : Ctx) (d : LokiDb) (r : RangeAgg) (fn : UnwrapFn) (label : String)
    (hk : r.kind = .unwrap fn label) :
    rangePoints o c (sortedDb c d) r c.fromNs c.toNs = unwrapCore o fn r.durNs (uwInput o c d r label) := by
  rw [rangePoints_unwrap o c (sortedDb c d) r fn label _ _ hk]
  have hm : entryMatchesW o c (sortedDb c d) r.sel c.fromNs c.toNs = entryMatches o c d r.sel := by
    funext s
    unfold entryMatchesW entryMatches
    rw [fpSelected_congr o c (sortedDb c d) d r.sel rfl rfl]
  have hl : entryPt o c (sortedDb c d) r.sel label = entryPt o c d r.sel label := by
    funext s
    unfold entryPt
    rw [labelsOf_congr o c (sortedDb c d) d r.sel rfl rfl]
  have hs : (sortedDb c d).samples.filter (entryMatches o c d r.sel) =
      sortBy (tsLe c) (d.samples.filter (entryMatches o c d r.sel)) :=
    filter_sortBy (tsLe c) (tsLe_total c) (tsLe_trans c) _ _
  rw [hm, hl, hs]
  unfold uwInput
  cases chosenGrouping r.byPrefix r.bySuffix <;> rfl

/-- **plan_metric_correct for unwrapped range aggregations** (rate, sum/avg/min/max/first/last_over_time over
    `| unwrap label`, with or without grouping clause; alone, under a grouped vector aggregation, under topk/bottomk,
    comparisons, any step): the generated statement returns the matrix of the direct reading *over the entries taken in
    timestamp order* — the plan orders `main` by timestamp before it joins the labels and groups. -/
theorem planMetric_unwrap (o : Oracles) (c : MCtx) (hn : c.namesOk) (d : LokiDb) (q : MetricQuery) (fn : UnwrapFn)
    (label : String) (hk : q.rangeAgg.kind = .unwrap fn label) (hok : aggOk q)
    (hm : q.rangeAgg.sel.matchers.length ≤ 63) (hd : 0 < q.rangeAgg.durNs) :
    (evalSelA o (d.toDbM c) (planMetric c q)).map normRow = evalMetric o c (sortedDb c.toCtx d) q := by
  have hu : q.rangeAgg.isUnwrap = true := by unfold RangeAgg.isUnwrap; rw [hk]
  have hs : takesShortcut q = false := by simp only [takesShortcut, hk]
  have hrs := rangeState_unwrap c q fn label hk
  rw [planMetric_phases, hs]
  have hp := uwPhase_ok o c hn d q fn label hk hm hd
  rw [planPhases_of_unwrap o c d q hu hok _ hp (by rw [hrs])
    (by
      apply cmpStage_labels
      intro p hp'
      obtain ⟨x, hx, h1, h2⟩ := unwrapCore_kl _ _ _ p hp'
      rw [h1, h2]
      exact uwInput_labelled o c.toCtx d q.rangeAgg label x hx)
    (by
      rw [hrs]
      simp only
      rw [cols_cmpOpt]
      show hasColumn ((uwBody fn q.rangeAgg.durNs none).with_ _).cols "labels" = true
      rw [cols_with]
      simp [uwBody, uwCols, Sel.cols, hasColumn, bucketCol, emptyStr])]
  rw [evalMetric_matrixPts, matrixPts_eq]
  unfold effWindow
  simp only [hs, Bool.false_eq_true, if_false]
  rw [rangePoints_sorted o c.toCtx d q.rangeAgg fn label hk]
  have hl := labelsOf_congr o c.toCtx (sortedDb c.toCtx d) d q.rangeAgg.sel rfl rfl
  have hpl : ptLabels o c.toCtx (sortedDb c.toCtx d) q.rangeAgg.sel = ptLabels o c.toCtx d q.rangeAgg.sel := by
    funext p; unfold ptLabels; rw [hl]
  have ha : ∀ a pts, aggStage o c.toCtx (sortedDb c.toCtx d) q.rangeAgg.sel a pts = aggStage o c.toCtx d q.rangeAgg.sel a pts := by
    intro a pts; unfold aggStage; rw [hpl]
  rw [hpl]
  unfold upperPts
  simp only [ha]

theorem supportedU_spec (q : MetricQuery) (h : supportedU q = true) :
    (∃ fn label, q.rangeAgg.kind = .unwrap fn label) ∧ aggOk q ∧
      0 < q.rangeAgg.durNs ∧ q.rangeAgg.sel.matchers.length ≤ 63 := by
  unfold supportedU at h
  simp only [Bool.and_eq_true, decide_eq_true_eq] at h
  obtain ⟨⟨h1, h4⟩, h5⟩ := h
  refine ⟨?_, trivial, h4, h5⟩
  · cases hk : q.rangeAgg.kind with
    | lra fn => rw [hk] at h1; cases h1
    | unwrap fn l =>
      exact ⟨fn, l, rfl⟩

theorem planMetric_unwrap_supported (o : Oracles) (c : MCtx) (hn : c.namesOk) (d : LokiDb) (q : MetricQuery)
    (hsup : supportedU q = true) :
    (evalSelA o (d.toDbM c) (planMetric c q)).map normRow = evalMetric o c (sortedDb c.toCtx d) q := by
  obtain ⟨⟨fn, label, hk⟩, hok, hd, hm⟩ := supportedU_spec q hsup
  exact planMetric_unwrap o c hn d q fn label hk hok hm hd

theorem sortedDb_of_sorted (c : Ctx) (d : LokiDb) (h : sortBy (tsLe c) d.samples = d.samples) : sortedDb c d = d := by
  cases d
  simp only [sortedDb] at h ⊢
  rw [h]

end Qryn.LogQL
