<<<<<<< HEAD
import Qryn.Base.JsonStr
/-! Round trip of the jx string/object encoder through the byte-level JSON parser. Core only. -/
namespace Qryn.JsonStr
open Qryn

/-- `\u00XY` written for a byte below 0x20 reads back as that byte -/
theorem hex4_ctl : ∀ n, n < 32 → hex4 48 48 (hexDigit (n / 16)) (hexDigit (n % 16)) = some n := by
  decide

theorem utf8_ascii (n : Nat) (h : n < 128) : utf8 n = [UInt8.ofNat n] := by
  simp [utf8, h]

theorem escByte_length_pos (c : UInt8) : 1 ≤ (escByte c).length := by
  simp only [escByte]
  repeat' split
  all_goals simp

theorem length_le_flatMap (s : Bytes) : s.length ≤ (s.flatMap escByte).length := by
  induction s with
  | nil => simp
  | cons c t ih =>
    have := escByte_length_pos c
    simp only [List.flatMap_cons, List.length_append, List.length_cons]
    omega

/-- one source byte: its escape sequence is consumed with one unit of fuel and yields that byte -/
theorem parseStrBody_step (fuel : Nat) (c : UInt8) (rest : Bytes) :
    parseStrBody (fuel + 1) (escByte c ++ rest) =
      (parseStrBody fuel rest).map (fun p => (c :: p.1, p.2)) := by
  by_cases h34 : c = 34
  · subst h34; simp [escByte, parseStrBody, unescape]
  by_cases h92 : c = 92
  · subst h92; simp [escByte, parseStrBody, unescape]
  by_cases h10 : c = 10
  · subst h10; simp [escByte, parseStrBody, unescape]
  by_cases h13 : c = 13
  · subst h13; simp [escByte, parseStrBody, unescape]
  by_cases h9 : c = 9
  · subst h9; simp [escByte, parseStrBody, unescape]
  by_cases hlt : c < 32
  · have hn : c.toNat < 32 := by simpa using UInt8.lt_iff_toNat_lt.mp hlt
    have hx := hex4_ctl c.toNat hn
    have hc : UInt8.ofNat c.toNat = c := by simp
    have hs1 : ¬ (55296 ≤ c.toNat ∧ c.toNat < 56320) := by omega
    have hs2 : ¬ (56320 ≤ c.toNat ∧ c.toNat < 57344) := by omega
    simp [hs1, hs2, escByte, h34, h92, h10, h13, h9, hlt, parseStrBody, unescape, hx, utf8_ascii _ (by omega : c.toNat < 128), hc]
  · simp [escByte, h34, h92, h10, h13, h9, hlt, parseStrBody]

theorem parseStrBody_enc (s : Bytes) : ∀ (fuel : Nat) (rest : Bytes), s.length < fuel →
    parseStrBody fuel (s.flatMap escByte ++ 34 :: rest) = some (s, rest) := by
  induction s with
  | nil =>
    intro fuel rest h
    cases fuel with
    | zero => omega
    | succ f => simp [parseStrBody]
  | cons c t ih =>
    intro fuel rest h
    cases fuel with
    | zero => omega
    | succ f =>
      simp only [List.flatMap_cons, List.append_assoc]
      rw [parseStrBody_step, ih f rest (by simpa using h)]
      rfl

theorem parseString_enc (s rest : Bytes) : parseString (encodeString s ++ rest) = some (s, rest) := by
  simp only [encodeString, List.cons_append, parseString, if_true, List.append_assoc]
  apply parseStrBody_enc
  have := length_le_flatMap s
  simp only [List.length_append, List.length_cons]
  omega

theorem skipWs_quote (r : Bytes) : skipWs (34 :: r) = 34 :: r := by simp [skipWs, isWs]
theorem skipWs_colon (r : Bytes) : skipWs (58 :: r) = 58 :: r := by simp [skipWs, isWs]
theorem skipWs_comma (r : Bytes) : skipWs (44 :: r) = 44 :: r := by simp [skipWs, isWs]
theorem skipWs_close (r : Bytes) : skipWs (125 :: r) = 125 :: r := by simp [skipWs, isWs]

theorem skipWs_encodeString (s rest : Bytes) : skipWs (encodeString s ++ rest) = encodeString s ++ rest := by
  simp [encodeString, skipWs_quote]

/-- one member followed by `tail` (which starts with `,` or `}`) -/
theorem parseMembers_member (fuel : Nat) (kv : Bytes × Bytes) (d : UInt8) (tail : Bytes)
    (hd : isWs d = false) :
    parseMembers (fuel + 1) (encodeMember kv ++ d :: tail) =
      if d = 44 then (parseMembers fuel tail).map (fun p => (kv :: p.1, p.2))
      else if d = 125 then some ([kv], tail) else none := by
  obtain ⟨k, v⟩ := kv
  have hs : skipWs (d :: tail) = d :: tail := by simp [skipWs, hd]
  simp only [parseMembers, encodeMember, List.append_assoc, List.cons_append]
  rw [skipWs_encodeString, parseString_enc]
  simp only [skipWs_colon, if_true]
  rw [skipWs_encodeString, parseString_enc]
  simp only [hs]

theorem parseMembers_enc : ∀ (ls : List (Bytes × Bytes)) (kv : Bytes × Bytes) (fuel : Nat) (rest : Bytes),
    ls.length < fuel →
    parseMembers fuel (encodeMembers (kv :: ls) ++ 125 :: rest) = some (kv :: ls, rest) := by
  intro ls
  induction ls with
  | nil =>
    intro kv fuel rest h
    cases fuel with
    | zero => omega
    | succ f =>
      simp only [encodeMembers]
      rw [parseMembers_member f kv 125 rest (by decide)]
      simp
  | cons kv' t ih =>
    intro kv fuel rest h
    cases fuel with
    | zero => omega
    | succ f =>
      simp only [encodeMembers, List.append_assoc, List.cons_append]
      rw [parseMembers_member f kv 44 _ (by decide)]
      simp only [if_true]
      rw [ih kv' f rest (by simpa using h)]
      rfl

theorem encodeMember_length (kv : Bytes × Bytes) : 5 ≤ (encodeMember kv).length := by
  simp [encodeMember, encodeString]; omega

theorem encodeMembers_length : ∀ (ls : List (Bytes × Bytes)), ls.length ≤ (encodeMembers ls).length
  | [] => by simp [encodeMembers]
  | [kv] => by have := encodeMember_length kv; simp [encodeMembers]; omega
  | kv :: kv' :: t => by
    have := encodeMember_length kv
    have ih := encodeMembers_length (kv' :: t)
    simp only [encodeMembers, List.length_append, List.length_cons] at ih ⊢
    omega

theorem encodeMembers_head (kv : Bytes × Bytes) (ls : List (Bytes × Bytes)) (rest : Bytes) :
    ∃ t, encodeMembers (kv :: ls) ++ rest = 34 :: t := by
  cases ls <;> simp [encodeMembers, encodeMember, encodeString]

/-- the document written by the encoder parses back to the member list, for every byte content -/
theorem parseObject_enc (ls : List (Bytes × Bytes)) : parseObject (encodeObject ls) = some ls := by
  cases ls with
  | nil => simp [parseObject, encodeObject, encodeMembers, skipWs, isWs]
  | cons kv t =>
    obtain ⟨tl, htl⟩ := encodeMembers_head kv t [125]
    have hlen : t.length < (encodeObject (kv :: t)).length := by
      have := encodeMembers_length (kv :: t)
      simp only [encodeObject, List.length_cons, List.length_append] at this ⊢
      omega
    have hp := parseMembers_enc t kv (encodeObject (kv :: t)).length [] hlen
    simp only [parseObject, encodeObject]
    have h1 : skipWs (123 :: (encodeMembers (kv :: t) ++ [125])) = 123 :: (encodeMembers (kv :: t) ++ [125]) := by
      simp [skipWs, isWs]
    rw [h1]
    simp only [if_true]
    rw [htl, skipWs_quote]
    have h34 : ¬ ((34 : UInt8) = 125) := by decide
    simp only [h34, if_false]
    rw [← htl]
    simp only [encodeObject] at hp
    rw [hp]
    simp [skipWs]

end Qryn.JsonStr
=======
import Qryn.Base.Json
/-! Round trips of the two string writers through the string scanner. Core-only. -/
namespace Qryn.Json
open Qryn

/-! ### one step of the scanner -/
theorem parseStrP_plain (c : UInt8) (t acc : Bytes) (h32 : ¬ c < 32) (h34 : c ≠ 34) (h92 : c ≠ 92) :
    parseStrP none (c :: t) acc = parseStrP none t (acc ++ [c]) := by
  conv => lhs; unfold parseStrP
  simp [h34, h92, h32]

theorem parseStrP_quote (t acc : Bytes) : parseStrP none (34 :: t) acc = some (acc, t) := by
  conv => lhs; unfold parseStrP
  simp

theorem parseStrP_esc2 (e b : UInt8) (t acc : Bytes) (h : unesc e = some b) (he : e ≠ 117) :
    parseStrP none (92 :: e :: t) acc = parseStrP none t (acc ++ [b]) := by
  conv => lhs; unfold parseStrP
  simp [he, h]

theorem parseStrP_u (a b c d : UInt8) (u : Nat) (t acc : Bytes) (h : hex4 a b c d = some u)
    (hs : ¬ (0xD800 ≤ u ∧ u < 0xDC00)) :
    parseStrP none (92 :: 117 :: a :: b :: c :: d :: t) acc = parseStrP none t (acc ++ utf8enc u) := by
  conv => lhs; unfold parseStrP
  simp [h, hs]

/-- `\u00XX` reads back as the byte XX (for ASCII) -/
theorem u00_reads_back : ∀ c : UInt8, c < 128 →
    hex4 48 48 (hexLow (c.toNat / 16)) (hexLow (c.toNat % 16)) = some c.toNat ∧ utf8enc c.toNat = [c] := by
  apply forall_byte_of_lt
  decide +kernel

theorem parseStrP_u00 (c : UInt8) (hc : c < 128) (t acc : Bytes) :
    parseStrP none (u00 c ++ t) acc = parseStrP none t (acc ++ [c]) := by
  have ⟨h1, h2⟩ := u00_reads_back c hc
  have hs : ¬ (0xD800 ≤ c.toNat ∧ c.toNat < 0xDC00) := by
    have := UInt8.toNat_lt c; omega
  simp only [u00, List.cons_append, List.nil_append]
  rw [parseStrP_u _ _ _ _ _ _ _ h1 hs, h2]

/-! ### jsoniter WriteString -/
theorem escJByte_cases : ∀ c : UInt8,
    (escJByte c = [c] ∧ ¬ c < 32 ∧ c ≠ 34 ∧ c ≠ 92) ∨
    (escJByte c = [92, (escJByte c).getD 1 0] ∧ unesc ((escJByte c).getD 1 0) = some c ∧ (escJByte c).getD 1 0 ≠ 117) ∨
    (escJByte c = u00 c ∧ c < 128) := by
  apply forall_byte_of_lt
  decide +kernel

theorem parseStrP_escJByte (c : UInt8) (t acc : Bytes) :
    parseStrP none (escJByte c ++ t) acc = parseStrP none t (acc ++ [c]) := by
  rcases escJByte_cases c with ⟨h, h32, h34, h92⟩ | ⟨h, hu, he⟩ | ⟨h, hc⟩
  · rw [h]; exact parseStrP_plain c t acc h32 h34 h92
  · rw [h]; exact parseStrP_esc2 _ c t acc hu he
  · rw [h]; exact parseStrP_u00 c hc t acc

theorem parseStrP_escJ (s t acc : Bytes) :
    parseStrP none (escJ s ++ t) acc = parseStrP none t (acc ++ s) := by
  induction s generalizing acc with
  | nil => simp [escJ]
  | cons c s ih =>
    have : escJ (c :: s) = escJByte c ++ escJ s := by simp [escJ]
    rw [this, List.append_assoc, parseStrP_escJByte, ih]
    simp

/-- **jsoniter `WriteString` round trip**: for *every* byte string `s` (control bytes, quotes, backslashes,
    DEL, bytes ≥ 0x80 whether or not they form UTF-8), scanning the text `"…"` that `WriteString(s)` produces
    yields exactly the bytes of `s` and stops right after the closing quote. -/
theorem parseStrBody_jstr (s rest : Bytes) : parseStrBody (escJ s ++ 34 :: rest) [] = some (s, rest) := by
  simp [parseStrBody, parseStrP_escJ, parseStrP_quote]

/-! ### encoding/json -/
theorem escStdAscii_cases : ∀ c : UInt8, c < 128 →
    (escStdAscii c = [c] ∧ ¬ c < 32 ∧ c ≠ 34 ∧ c ≠ 92) ∨
    (escStdAscii c = [92, (escStdAscii c).getD 1 0] ∧ unesc ((escStdAscii c).getD 1 0) = some c ∧ (escStdAscii c).getD 1 0 ≠ 117) ∨
    (escStdAscii c = u00 c) := by
  apply forall_byte_of_lt
  decide +kernel

theorem parseStrP_escStdAscii (c : UInt8) (hc : c < 128) (t acc : Bytes) :
    parseStrP none (escStdAscii c ++ t) acc = parseStrP none t (acc ++ [c]) := by
  rcases escStdAscii_cases c hc with ⟨h, h32, h34, h92⟩ | ⟨h, hu, he⟩ | h
  · rw [h]; exact parseStrP_plain c t acc h32 h34 h92
  · rw [h]; exact parseStrP_esc2 _ c t acc hu he
  · rw [h]; exact parseStrP_u00 c hc t acc

/-- a run of bytes ≥ 0x80 is copied by the scanner -/
theorem parseStrP_high (sq t acc : Bytes) (h : ∀ c ∈ sq, 128 ≤ c) :
    parseStrP none (sq ++ t) acc = parseStrP none t (acc ++ sq) := by
  induction sq generalizing acc with
  | nil => simp
  | cons c sq ih =>
    have hc : (128 : UInt8) ≤ c := h c (by simp)
    have h32 : ¬ c < 32 := by
      intro h'; have := UInt8.lt_iff_toNat_lt.mp h'; have := UInt8.le_iff_toNat_le.mp hc; simp at *; omega
    have h34 : c ≠ 34 := by intro h'; subst h'; exact absurd hc (by decide)
    have h92 : c ≠ 92 := by intro h'; subst h'; exact absurd hc (by decide)
    rw [List.cons_append, parseStrP_plain c _ acc h32 h34 h92, ih _ (fun x hx => h x (by simp [hx]))]
    simp


theorem le_of_isCont {c : UInt8} (h : isCont c = true) : (128 : UInt8) ≤ c := by
  simp [isCont] at h; exact h.1

theorem is2_high {c0 c1 : UInt8} (h : is2 c0 c1 = true) : (128 : UInt8) ≤ c0 ∧ (128 : UInt8) ≤ c1 := by
  simp only [is2, Bool.and_eq_true, decide_eq_true_eq] at h
  exact ⟨UInt8.le_trans (by decide) h.1.1, le_of_isCont h.2⟩

theorem lo3_high (c : UInt8) : (128 : UInt8) ≤ lo3 c := by unfold lo3; split <;> decide
theorem lo4_high (c : UInt8) : (128 : UInt8) ≤ lo4 c := by unfold lo4; split <;> decide

theorem is3_high {c0 c1 c2 : UInt8} (h : is3 c0 c1 c2 = true) :
    (128 : UInt8) ≤ c0 ∧ (128 : UInt8) ≤ c1 ∧ (128 : UInt8) ≤ c2 := by
  simp only [is3, Bool.and_eq_true, decide_eq_true_eq] at h
  exact ⟨UInt8.le_trans (by decide) h.1.1.1.1, UInt8.le_trans (lo3_high c0) h.1.1.2, le_of_isCont h.2⟩

theorem is4_high {c0 c1 c2 c3 : UInt8} (h : is4 c0 c1 c2 c3 = true) :
    (128 : UInt8) ≤ c0 ∧ (128 : UInt8) ≤ c1 ∧ (128 : UInt8) ≤ c2 ∧ (128 : UInt8) ≤ c3 := by
  simp only [is4, Bool.and_eq_true, decide_eq_true_eq] at h
  exact ⟨UInt8.le_trans (by decide) h.1.1.1.1.1, UInt8.le_trans (lo4_high c0) h.1.1.1.2,
    le_of_isCont h.1.2, le_of_isCont h.2⟩

/-- every byte of a well-formed multi-byte sequence is ≥ 0x80, and the sequence is present in full -/
theorem utf8Len_high (s : Bytes) (hn : utf8Len s ≠ 0) :
    (∀ x ∈ s.take (utf8Len s), (128 : UInt8) ≤ x) ∧ utf8Len s ≤ s.length ∧ 2 ≤ utf8Len s := by
  match s with
  | [] => simp [utf8Len] at hn
  | [_] => simp [utf8Len] at hn
  | [c0, c1] =>
    simp only [utf8Len] at hn ⊢
    split at hn
    · rename_i h; simp only [h, if_true]
      have := is2_high h
      refine ⟨?_, by simp, by omega⟩
      intro x hx; simp at hx; rcases hx with rfl | rfl <;> simp [this]
    · simp at hn
  | [c0, c1, c2] =>
    simp only [utf8Len] at hn ⊢
    split at hn
    · rename_i h; simp only [h, if_true]
      have := is2_high h
      refine ⟨?_, by simp, by omega⟩
      intro x hx; simp at hx; rcases hx with rfl | rfl <;> simp [this]
    · rename_i h2
      split at hn
      · rename_i h; simp only [h2, h, if_true]
        have := is3_high h
        refine ⟨?_, by simp, by simp⟩
        intro x hx; simp at hx; rcases hx with rfl | rfl | rfl <;> simp [this]
      · simp at hn
  | c0 :: c1 :: c2 :: c3 :: rest =>
    simp only [utf8Len] at hn ⊢
    split at hn
    · rename_i h; simp only [h, if_true]
      have := is2_high h
      refine ⟨?_, by simp, by omega⟩
      intro x hx; simp at hx; rcases hx with rfl | rfl <;> simp [this]
    · rename_i h2
      split at hn
      · rename_i h; simp only [h2, h, if_true]
        have := is3_high h
        refine ⟨?_, by simp, by simp⟩
        intro x hx; simp at hx; rcases hx with rfl | rfl | rfl <;> simp [this]
      · rename_i h3
        split at hn
        · rename_i h; simp only [h2, h3, h, if_true]
          have := is4_high h
          refine ⟨?_, by simp, by simp⟩
          intro x hx; simp at hx; rcases hx with rfl | rfl | rfl | rfl <;> simp [this]
        · simp at hn

/-- one step of `appendString`: the bytes it writes are read back as the bytes it stands for -/
theorem parseStrP_stdStep (c : UInt8) (r t acc : Bytes) :
    parseStrP none ((stdStep (c :: r)).1 ++ t) acc = parseStrP none t (acc ++ (stdStep (c :: r)).2.1) := by
  simp only [stdStep]
  split
  · rename_i hc; exact parseStrP_escStdAscii c hc t acc
  · split
    · exact parseStrP_u 102 102 102 100 0xFFFD t acc (by decide) (by decide)
    · rename_i hc hn
      split
      · rename_i h
        simp only [h]
        exact parseStrP_u 50 48 50 56 0x2028 t acc (by decide) (by decide)
      · split
        · rename_i h
          simp only [h]
          exact parseStrP_u 50 48 50 57 0x2029 t acc (by decide) (by decide)
        · exact parseStrP_high _ t acc (utf8Len_high (c :: r) hn).1

theorem stdStep_consumed (c : UInt8) (r : Bytes) :
    1 ≤ (stdStep (c :: r)).2.2 := by
  simp only [stdStep]
  split
  · simp
  · split
    · simp
    · rename_i hn
      split
      · simp
      · split
        · simp
        · have := (utf8Len_high (c :: r) hn).2.2
          simp only; omega

theorem parseStrP_escStdF (f : Nat) (s t acc : Bytes) (hf : s.length ≤ f) :
    parseStrP none (escStdF f s ++ t) acc = parseStrP none t (acc ++ sanitizeF f s) := by
  induction f generalizing s acc with
  | zero =>
    have : s = [] := List.eq_nil_of_length_eq_zero (by omega)
    subst this; simp [escStdF, sanitizeF]
  | succ f ih =>
    match s with
    | [] => simp [escStdF, sanitizeF]
    | c :: r =>
      have h1 := parseStrP_stdStep c r
      have h2 := stdStep_consumed c r
      simp only [escStdF, sanitizeF]
      generalize stdStep (c :: r) = st at h1 h2 ⊢
      obtain ⟨o, m, n⟩ := st
      simp only at h1 h2 ⊢
      rw [List.append_assoc, h1, ih, List.append_assoc]
      simp only [List.length_drop, List.length_cons] at hf ⊢
      omega

/-- **encoding/json round trip**: for every byte string `s`, scanning the text `json.Marshal(s)` writes
    yields `sanitize s` — `s` itself with each byte that is not part of a well-formed UTF-8 sequence replaced
    by U+FFFD — and stops right after the closing quote. -/
theorem parseStrBody_stdstr (s rest : Bytes) :
    parseStrBody (escStd s ++ 34 :: rest) [] = some (sanitize s, rest) := by
  simp [parseStrBody, escStd, sanitize, parseStrP_escStdF _ s _ _ (Nat.le_refl _), parseStrP_quote]

theorem sanitizeF_valid (f : Nat) (s : Bytes) (hf : s.length ≤ f) (hv : validUtf8F f s = true) :
    sanitizeF f s = s := by
  induction f generalizing s with
  | zero =>
    have : s = [] := List.eq_nil_of_length_eq_zero (by omega)
    subst this; simp [sanitizeF]
  | succ f ih =>
    match s with
    | [] => simp [sanitizeF]
    | c :: r =>
      simp only [validUtf8F] at hv
      simp only [sanitizeF, stdStep]
      split at hv
      · rename_i hc
        simp only [hc, if_true, List.drop_succ_cons, List.drop_zero, List.singleton_append]
        rw [ih r (by simpa using hf) hv]
      · rename_i hc
        simp only [Bool.and_eq_true, bne_iff_ne, ne_eq, decide_eq_true_eq, decide_not, Bool.not_eq_eq_eq_not,
          Bool.not_true] at hv
        have hn : utf8Len (c :: r) ≠ 0 := by simpa using hv.1
        have h2 := (utf8Len_high (c :: r) hn).2.2
        simp only [hc, if_false, hn]
        have hrec := ih ((c :: r).drop (utf8Len (c :: r))) (by simp only [List.length_drop, List.length_cons] at hf ⊢; omega) hv.2
        split
        · rename_i h
          have h3 : utf8Len (c :: r) = 3 := by
            have := congrArg List.length h
            have hl := (utf8Len_high (c :: r) hn).2.1
            simp only [List.length_take, List.length_cons, List.length_nil] at this hl ⊢
            omega
          simp only
          rw [h3] at hrec
          rw [hrec, h3, List.take_append_drop]
        · split
          · rename_i h
            have h3 : utf8Len (c :: r) = 3 := by
              have := congrArg List.length h
              have hl := (utf8Len_high (c :: r) hn).2.1
              simp only [List.length_take, List.length_cons, List.length_nil] at this hl ⊢
              omega
            simp only
            rw [h3] at hrec
            rw [hrec, h3, List.take_append_drop]
          · simp only
            rw [hrec, List.take_append_drop]

/-- on valid UTF-8 `json.Marshal` is lossless -/
theorem sanitize_valid (s : Bytes) (h : validUtf8 s = true) : sanitize s = s :=
  sanitizeF_valid _ s (Nat.le_refl _) h

end Qryn.Json
>>>>>>> wip-C15
