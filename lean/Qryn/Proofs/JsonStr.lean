import Qryn.Base.JsonStr
/-! Round trip of the jx string/object encoder through the byte-level JSON parser. Core only. -/
namespace Qryn.JsonStr
open Qryn

/-- `\u00XY` written for a byte below 0x20 reads back as that byte -/
theorem hex4_ctl : ∀ n, n < 32 → hex4 48 48 (hexDigit (n / 16)) (hexDigit (n % 16)) = some n := by
  decide

theorem utf8_ascii (n : Nat) (h : n < 128) : utf8 n = [UInt8.ofNat n] := by
  simp [utf8, h]

theorem escByte_length_pos (c : UInt8) : 1 ≤ (escByte c).length := by
  simp only [escByte]
  repeat' split
  all_goals simp

theorem length_le_flatMap (s : Bytes) : s.length ≤ (s.flatMap escByte).length := by
  induction s with
  | nil => simp
  | cons c t ih =>
    have := escByte_length_pos c
    simp only [List.flatMap_cons, List.length_append, List.length_cons]
    omega

/-- one source byte: its escape sequence is consumed with one unit of fuel and yields that byte -/
theorem parseStrBody_step (fuel : Nat) (c : UInt8) (rest : Bytes) :
    parseStrBody (fuel + 1) (escByte c ++ rest) =
      (parseStrBody fuel rest).map (fun p => (c :: p.1, p.2)) := by
  by_cases h34 : c = 34
  · subst h34; simp [escByte, parseStrBody, unescape]
  by_cases h92 : c = 92
  · subst h92; simp [escByte, parseStrBody, unescape]
  by_cases h10 : c = 10
  · subst h10; simp [escByte, parseStrBody, unescape]
  by_cases h13 : c = 13
  · subst h13; simp [escByte, parseStrBody, unescape]
  by_cases h9 : c = 9
  · subst h9; simp [escByte, parseStrBody, unescape]
  by_cases hlt : c < 32
  · have hn : c.toNat < 32 := by simpa using UInt8.lt_iff_toNat_lt.mp hlt
    have hx := hex4_ctl c.toNat hn
    have hc : UInt8.ofNat c.toNat = c := by simp
    have hs1 : ¬ (55296 ≤ c.toNat ∧ c.toNat < 56320) := by omega
    have hs2 : ¬ (56320 ≤ c.toNat ∧ c.toNat < 57344) := by omega
    simp [hs1, hs2, escByte, h34, h92, h10, h13, h9, hlt, parseStrBody, unescape, hx, utf8_ascii _ (by omega : c.toNat < 128), hc]
  · simp [escByte, h34, h92, h10, h13, h9, hlt, parseStrBody]

theorem parseStrBody_enc (s : Bytes) : ∀ (fuel : Nat) (rest : Bytes), s.length < fuel →
    parseStrBody fuel (s.flatMap escByte ++ 34 :: rest) = some (s, rest) := by
  induction s with
  | nil =>
    intro fuel rest h
    cases fuel with
    | zero => omega
    | succ f => simp [parseStrBody]
  | cons c t ih =>
    intro fuel rest h
    cases fuel with
    | zero => omega
    | succ f =>
      simp only [List.flatMap_cons, List.append_assoc]
      rw [parseStrBody_step, ih f rest (by simpa using h)]
      rfl

theorem parseString_enc (s rest : Bytes) : parseString (encodeString s ++ rest) = some (s, rest) := by
  simp only [encodeString, List.cons_append, parseString, if_true, List.append_assoc]
  apply parseStrBody_enc
  have := length_le_flatMap s
  simp only [List.length_append, List.length_cons]
  omega

theorem skipWs_quote (r : Bytes) : skipWs (34 :: r) = 34 :: r := by simp [skipWs, isWs]
theorem skipWs_colon (r : Bytes) : skipWs (58 :: r) = 58 :: r := by simp [skipWs, isWs]
theorem skipWs_comma (r : Bytes) : skipWs (44 :: r) = 44 :: r := by simp [skipWs, isWs]
theorem skipWs_close (r : Bytes) : skipWs (125 :: r) = 125 :: r := by simp [skipWs, isWs]

theorem skipWs_encodeString (s rest : Bytes) : skipWs (encodeString s ++ rest) = encodeString s ++ rest := by
  simp [encodeString, skipWs_quote]

/-- one member followed by `tail` (which starts with `,` or `}`) -/
theorem parseMembers_member (fuel : Nat) (kv : Bytes × Bytes) (d : UInt8) (tail : Bytes)
    (hd : isWs d = false) :
    parseMembers (fuel + 1) (encodeMember kv ++ d :: tail) =
      if d = 44 then (parseMembers fuel tail).map (fun p => (kv :: p.1, p.2))
      else if d = 125 then some ([kv], tail) else none := by
  obtain ⟨k, v⟩ := kv
  have hs : skipWs (d :: tail) = d :: tail := by simp [skipWs, hd]
  simp only [parseMembers, encodeMember, List.append_assoc, List.cons_append]
  rw [skipWs_encodeString, parseString_enc]
  simp only [skipWs_colon, if_true]
  rw [skipWs_encodeString, parseString_enc]
  simp only [hs]

theorem parseMembers_enc : ∀ (ls : List (Bytes × Bytes)) (kv : Bytes × Bytes) (fuel : Nat) (rest : Bytes),
    ls.length < fuel →
    parseMembers fuel (encodeMembers (kv :: ls) ++ 125 :: rest) = some (kv :: ls, rest) := by
  intro ls
  induction ls with
  | nil =>
    intro kv fuel rest h
    cases fuel with
    | zero => omega
    | succ f =>
      simp only [encodeMembers]
      rw [parseMembers_member f kv 125 rest (by decide)]
      simp
  | cons kv' t ih =>
    intro kv fuel rest h
    cases fuel with
    | zero => omega
    | succ f =>
      simp only [encodeMembers, List.append_assoc, List.cons_append]
      rw [parseMembers_member f kv 44 _ (by decide)]
      simp only [if_true]
      rw [ih kv' f rest (by simpa using h)]
      rfl

theorem encodeMember_length (kv : Bytes × Bytes) : 5 ≤ (encodeMember kv).length := by
  simp [encodeMember, encodeString]; omega

theorem encodeMembers_length : ∀ (ls : List (Bytes × Bytes)), ls.length ≤ (encodeMembers ls).length
  | [] => by simp [encodeMembers]
  | [kv] => by have := encodeMember_length kv; simp [encodeMembers]; omega
  | kv :: kv' :: t => by
    have := encodeMember_length kv
    have ih := encodeMembers_length (kv' :: t)
    simp only [encodeMembers, List.length_append, List.length_cons] at ih ⊢
    omega

theorem encodeMembers_head (kv : Bytes × Bytes) (ls : List (Bytes × Bytes)) (rest : Bytes) :
    ∃ t, encodeMembers (kv :: ls) ++ rest = 34 :: t := by
  cases ls <;> simp [encodeMembers, encodeMember, encodeString]

/-- the document written by the encoder parses back to the member list, for every byte content -/
theorem parseObject_enc (ls : List (Bytes × Bytes)) : parseObject (encodeObject ls) = some ls := by
  cases ls with
  | nil => simp [parseObject, encodeObject, encodeMembers, skipWs, isWs]
  | cons kv t =>
    obtain ⟨tl, htl⟩ := encodeMembers_head kv t [125]
    have hlen : t.length < (encodeObject (kv :: t)).length := by
      have := encodeMembers_length (kv :: t)
      simp only [encodeObject, List.length_cons, List.length_append] at this ⊢
      omega
    have hp := parseMembers_enc t kv (encodeObject (kv :: t)).length [] hlen
    simp only [parseObject, encodeObject]
    have h1 : skipWs (123 :: (encodeMembers (kv :: t) ++ [125])) = 123 :: (encodeMembers (kv :: t) ++ [125]) := by
      simp [skipWs, isWs]
    rw [h1]
    simp only [if_true]
    rw [htl, skipWs_quote]
    have h34 : ¬ ((34 : UInt8) = 125) := by decide
    simp only [h34, if_false]
    rw [← htl]
    simp only [encodeObject] at hp
    rw [hp]
    simp [skipWs]

end Qryn.JsonStr
