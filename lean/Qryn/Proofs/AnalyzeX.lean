import Qryn.LogQL.PlannerX
/-! `analyzeScript` as modelled in `LogQL.PlannerX` (`simpleOps`, `labelsJoinIdx`, `analyze`, built from the regenerated
    tables `Gen.C07Analyze`): its exact stopping rule, and that the plan's split of the pipeline is the specification's
    (`splitPre`): pushed down = exactly the label filters before the first label-rewriting stage. -/
namespace Qryn.LogQL
open Qryn Qryn.Sql

theorem marksSimple_label (lc : LabelCond) : marksSimple (.fl (.label lc)) = true := rfl
theorem marksSimple_line (f : LineFilter) : marksSimple (.fl (.line f)) = false := rfl
theorem marksSimple_ch (c : Changer) : marksSimple (.ch c) = false := by cases c <;> rfl
theorem stopsPushdown_fl (s : Stage) : stopsPushdown (.fl s) = false := by cases s <;> rfl
theorem stopsPushdown_ch (c : Changer) : stopsPushdown (.ch c) = true := by cases c <;> rfl

theorem joinsAt_ch (c : Changer) (b : Bool) : joinsAt (.ch c) b = true := by cases c <;> cases b <;> rfl
theorem joinsAt_line (f : LineFilter) (b : Bool) : joinsAt (.fl (.line f)) b = false := by cases b <;> rfl
theorem joinsAt_label_simple (lc : LabelCond) : joinsAt (.fl (.label lc)) true = false := rfl
theorem joinsAt_label_kept (lc : LabelCond) : joinsAt (.fl (.label lc)) false = true := rfl

theorem skippedWhenSimple_label (lc : LabelCond) : skippedWhenSimple (.fl (.label lc)) = true := rfl
theorem skippedWhenSimple_line (f : LineFilter) : skippedWhenSimple (.fl (.line f)) = false := rfl

theorem simpleOps_fl (s : Stage) (rest : List StageX) :
    simpleOps (.fl s :: rest) = marksSimple (.fl s) :: simpleOps rest := by
  simp [simpleOps, stopsPushdown_fl]

theorem simpleOps_ch (c : Changer) (rest : List StageX) :
    simpleOps (.ch c :: rest) = false :: rest.map (fun _ => false) := by
  simp [simpleOps, stopsPushdown_ch, marksSimple_ch]

theorem simpleOps_length (ss : List StageX) : (simpleOps ss).length = ss.length := by
  induction ss with
  | nil => rfl
  | cons s rest ih => cases s <;> simp [simpleOps_fl, simpleOps_ch, ih]

/-- a stage before which nothing rewrote the labels and that is a filter passes no test of the second loop -/
theorem joinsAt_fl_marked (s : Stage) : joinsAt (.fl s) (marksSimple (.fl s)) = false := by
  cases s with
  | line f => rw [marksSimple_line]; exact joinsAt_line f false
  | label lc => rw [marksSimple_label]; exact joinsAt_label_simple lc

theorem labelsJoinIdx_fl (s : Stage) (rest : List StageX) :
    labelsJoinIdx (.fl s :: rest) = (labelsJoinIdx rest).map (· + 1) := by
  simp [labelsJoinIdx, simpleOps_fl, List.findIdx?_cons, joinsAt_fl_marked]

theorem labelsJoinIdx_ch (c : Changer) (rest : List StageX) : labelsJoinIdx (.ch c :: rest) = some 0 := by
  simp [labelsJoinIdx, simpleOps_ch, List.findIdx?_cons, joinsAt_ch]

theorem labelsJoinIdx_le (ss : List StageX) : ∀ j, labelsJoinIdx ss = some j → j < ss.length := by
  induction ss with
  | nil => intro j h; simp [labelsJoinIdx] at h
  | cons s rest ih =>
    intro j h
    cases s with
    | ch c => rw [labelsJoinIdx_ch] at h; cases h; simp
    | fl f =>
      rw [labelsJoinIdx_fl] at h
      cases hr : labelsJoinIdx rest with
      | none => simp [hr] at h
      | some k => simp [hr] at h; subst h; simpa using ih k hr

/-- `labelsJoinIdx`, or the length of the pipeline -/
def joinPos (ss : List StageX) : Nat := (labelsJoinIdx ss).getD ss.length

theorem joinPos_fl (s : Stage) (rest : List StageX) : joinPos (.fl s :: rest) = joinPos rest + 1 := by
  unfold joinPos
  rw [labelsJoinIdx_fl]
  cases labelsJoinIdx rest <;> simp

theorem joinPos_ch (c : Changer) (rest : List StageX) : joinPos (.ch c :: rest) = 0 := by
  simp [joinPos, labelsJoinIdx_ch]

theorem pushedOf_false (s : StageX) : pushedOf (s, false) = none := by
  cases s with
  | ch c => rfl
  | fl f => cases f <;> rfl

theorem pushedOf_label (lc : LabelCond) : pushedOf (.fl (.label lc), true) = some lc := rfl
theorem pushedOf_line (f : LineFilter) (b : Bool) : pushedOf (.fl (.line f), b) = none := by cases b <;> rfl

private theorem zip_false_pushed (rest : List StageX) :
    (rest.zip (rest.map (fun _ => false))).filterMap pushedOf = [] := by
  induction rest with
  | nil => rfl
  | cons s r ih => simp [pushedOf_false, ih]

private theorem zip_false_kept (rest : List StageX) :
    (((rest.zip (rest.map (fun _ => false))).filter keptOf).map (·.1)) = rest := by
  induction rest with
  | nil => rfl
  | cons s r ih => simp [keptOf, ih]

theorem analyze_nil : analyze [] = ⟨[], [], []⟩ := by
  simp [analyze, simpleOps, labelsJoinIdx]

theorem analyze_ch (c : Changer) (rest : List StageX) : analyze (.ch c :: rest) = ⟨[], [], .ch c :: rest⟩ := by
  have hj : (labelsJoinIdx (.ch c :: rest)).getD (StageX.ch c :: rest).length = 0 := by simp [labelsJoinIdx_ch]
  have hk : keptOf (StageX.ch c, false) = true := rfl
  simp only [analyze, hj, simpleOps_ch, List.zip_cons_cons, List.take_zero, List.filterMap_nil, List.drop_zero,
    List.filterMap_cons, pushedOf_false, zip_false_pushed, List.filter_cons, hk, if_true, List.map_cons, zip_false_kept]

theorem analyze_fl (s : Stage) (rest : List StageX) :
    analyze (.fl s :: rest) =
      ⟨(match s with | .label lc => [lc] | .line _ => []) ++ (analyze rest).pushed, s :: (analyze rest).pre, (analyze rest).post⟩ := by
  have hj := joinPos_fl s rest
  unfold joinPos at hj
  cases s with
  | line f =>
    simp only [analyze, hj, simpleOps_fl, marksSimple_line, List.zip_cons_cons, List.filterMap_cons, List.take_succ_cons,
      flOf, List.drop_succ_cons, List.nil_append, pushedOf_line]
  | label lc =>
    simp only [analyze, hj, simpleOps_fl, marksSimple_label, List.zip_cons_cons, List.filterMap_cons, List.take_succ_cons,
      flOf, List.drop_succ_cons, pushedOf_label, List.singleton_append]

/-- **the plan's split is the specification's**: `planTS` pushes down exactly the label filters placed before the first
    label-rewriting stage, `main` gets the filters before it, the join everything from it on -/
theorem analyze_eq_splitPre (ss : List StageX) :
    analyze ss = ⟨labelConds ⟨[], (splitPre ss).1⟩, (splitPre ss).1, (splitPre ss).2⟩ := by
  induction ss with
  | nil => simp [analyze_nil, splitPre, labelConds]
  | cons s rest ih =>
    cases s with
    | ch c => simp [analyze_ch, splitPre, labelConds]
    | fl f =>
      rw [analyze_fl, ih]
      cases f <;> simp [splitPre, labelConds]

/-! ### the exact stopping rule -/
/-- **pushdown_exact**: stage `i` is marked as decidable on the stored labels iff it is a label filter — of any shape —
    and no stage before it rewrites the labels (json / regexp / drop) -/
theorem simpleOps_spec (ss : List StageX) (i : Nat) :
    (simpleOps ss)[i]? = some true ↔ (∃ lc, ss[i]? = some (.fl (.label lc))) ∧ changersOf (ss.take i) = [] := by
  induction ss generalizing i with
  | nil => simp [simpleOps]
  | cons s rest ih =>
    cases s with
    | ch c =>
      rw [simpleOps_ch]
      cases i with
      | zero => simp
      | succ k =>
        simp only [List.getElem?_cons_succ, List.take_succ_cons, changersOf]
        constructor
        · intro h
          rw [List.getElem?_map] at h
          cases hr : rest[k]? <;> simp [hr] at h
        · intro ⟨_, h⟩; cases h
    | fl f =>
      rw [simpleOps_fl]
      cases i with
      | zero =>
        cases f with
        | line lf => simp [marksSimple_line, changersOf]
        | label lc => simp [marksSimple_label, changersOf]
      | succ k =>
        simp only [List.getElem?_cons_succ, List.take_succ_cons, changersOf]
        exact ih k

end Qryn.LogQL
