import Qryn.Sql.Sem
/-! Equation lemmas for the SQL evaluator, stated once so that later proofs never unfold the mutual block. -/
namespace Qryn.Sql

@[simp] theorem truthy_boolVal (x : Bool) : (boolVal x).truthy = x := by cases x <;> rfl
@[simp] theorem truthy_null : Val.null.truthy = false := rfl

section
variable (o : Oracles) (env : Env) (r : Row)

@[simp] theorem evalE_raw (s : String) : evalE o env r (.raw s) = r.get s := by rw [evalE.eq_def]
@[simp] theorem evalE_numLit (s : String) : evalE o env r (.numLit s) = .numLit s := by rw [evalE.eq_def]
@[simp] theorem evalE_str (s : Bytes) : evalE o env r (.str s) = .str s := by rw [evalE.eq_def]
@[simp] theorem evalE_int (i : Int) : evalE o env r (.int i) = .int i := by rw [evalE.eq_def]
@[simp] theorem evalE_lit (s : String) : evalE o env r (.lit s) = .str s.toUTF8.toList := by rw [evalE.eq_def]
@[simp] theorem evalE_col (e : Expr) (a : String) : evalE o env r (.col e a) = evalE o env r e := by rw [evalE.eq_def]
@[simp] theorem evalE_simpleCol (n a : String) : evalE o env r (simpleCol n a) = r.get n := by simp [simpleCol]
theorem evalE_tsLabels (d : Bytes) (h : r.get "time_series.labels" = .str d) :
    evalE o env r .tsLabels = .map (o.jsonLabels d) := by rw [evalE, h]
@[simp] theorem evalE_isIn_ref (l : Expr) (a : Alias) : evalE o env r (.isIn l [.withRef a]) =
    boolVal ((firstCol ((env.lookup a).getD [])).contains (evalE o env r l)) := by rw [evalE]
@[simp] theorem evalE_isIn_ints (l : Expr) (a b : Int) : evalE o env r (.isIn l [.int a, .int b]) =
    boolVal (evalE o env r l == .int a || evalE o env r l == .int b) := by
  rw [evalE.eq_def]; simp [evalEs, List.contains, List.elem]
  cases evalE o env r l == Val.int a <;> cases evalE o env r l == Val.int b <;> rfl
@[simp] theorem evalE_and (cs : List Expr) : evalE o env r (and_ cs) = boolVal (evalAll o env r cs) := by
  rw [and_, evalE.eq_def]; simp
@[simp] theorem evalE_or (cs : List Expr) : evalE o env r (or_ cs) = boolVal (evalAny o env r cs) := by
  rw [or_, evalE.eq_def]; simp
theorem evalE_cmp (fn : String) (x y : Expr) (h1 : fn ≠ "and") (h2 : fn ≠ "or") :
    evalE o env r (.logical fn [x, y]) = boolVal (cmpOp o fn (evalE o env r x) (evalE o env r y)) := by
  rw [evalE.eq_def]; simp [h1, h2]
@[simp] theorem evalE_eq (x y : Expr) : evalE o env r (eq x y) = boolVal (cmpOp o "==" (evalE o env r x) (evalE o env r y)) :=
  evalE_cmp o env r _ x y (by decide) (by decide)
@[simp] theorem evalE_neq (x y : Expr) : evalE o env r (neq x y) = boolVal (cmpOp o "!=" (evalE o env r x) (evalE o env r y)) :=
  evalE_cmp o env r _ x y (by decide) (by decide)
@[simp] theorem evalE_lt (x y : Expr) : evalE o env r (lt x y) = boolVal (cmpOp o "<" (evalE o env r x) (evalE o env r y)) :=
  evalE_cmp o env r _ x y (by decide) (by decide)
@[simp] theorem evalE_le (x y : Expr) : evalE o env r (le x y) = boolVal (cmpOp o "<=" (evalE o env r x) (evalE o env r y)) :=
  evalE_cmp o env r _ x y (by decide) (by decide)
@[simp] theorem evalE_gt (x y : Expr) : evalE o env r (gt x y) = boolVal (cmpOp o ">" (evalE o env r x) (evalE o env r y)) :=
  evalE_cmp o env r _ x y (by decide) (by decide)
@[simp] theorem evalE_ge (x y : Expr) : evalE o env r (ge x y) = boolVal (cmpOp o ">=" (evalE o env r x) (evalE o env r y)) :=
  evalE_cmp o env r _ x y (by decide) (by decide)
theorem evalE_notNull_num (e : Expr) (s : Bytes) (h : evalE o env r e = .num s) :
    evalE o env r (.notNull e) = boolVal (o.isNum s) := by rw [evalE, h]
theorem evalE_matchFn (c : Expr) (p s : Bytes) (h : evalE o env r c = .str s) :
    evalE o env r (.matchFn c p) = boolVal (o.reMatch p s) := by rw [evalE, h]
@[simp] theorem evalE_orderBy (e : Expr) (d : Dir) : evalE o env r (.orderBy e d) = evalE o env r e := by rw [evalE.eq_def]

@[simp] theorem evalEs_nil : evalEs o env r [] = [] := by rw [evalEs]
@[simp] theorem evalEs_cons (e : Expr) (es : List Expr) : evalEs o env r (e :: es) = evalE o env r e :: evalEs o env r es := by
  rw [evalEs]
@[simp] theorem evalAll_nil : evalAll o env r [] = true := by rw [evalAll]
@[simp] theorem evalAll_cons (e : Expr) (es : List Expr) :
    evalAll o env r (e :: es) = (evalB o env r e && evalAll o env r es) := by rw [evalAll, evalB]
@[simp] theorem evalAny_nil : evalAny o env r [] = false := by rw [evalAny]
@[simp] theorem evalAny_cons (e : Expr) (es : List Expr) :
    evalAny o env r (e :: es) = (evalB o env r e || evalAny o env r es) := by rw [evalAny, evalB]

theorem evalAll_map {α} (f : α → Expr) (l : List α) :
    evalAll o env r (l.map f) = l.all (fun a => evalB o env r (f a)) := by
  induction l with
  | nil => simp
  | cons a l ih => simp [ih]
theorem evalAny_map {α} (f : α → Expr) (l : List α) :
    evalAny o env r (l.map f) = l.any (fun a => evalB o env r (f a)) := by
  induction l with
  | nil => simp
  | cons a l ih => simp [ih]

theorem evalE_call_like (a b : Expr) (s p : Bytes) (ha : evalE o env r a = .str s) (hb : evalE o env r b = .str p) :
    evalE o env r (.call "like" [a, b]) = boolVal (like s p) := by
  rw [evalE.eq_def]; simp [ha, hb]
theorem evalE_call_notLike (a b : Expr) (s p : Bytes) (ha : evalE o env r a = .str s) (hb : evalE o env r b = .str p) :
    evalE o env r (.call "notLike" [a, b]) = boolVal (!like s p) := by
  rw [evalE.eq_def]; simp [ha, hb]
theorem evalE_call_ilike (a b : Expr) (s p : Bytes) (ha : evalE o env r a = .str s) (hb : evalE o env r b = .str p) :
    evalE o env r (.call "ilike" [a, b]) = boolVal (like (o.lower s) (o.lower p)) := by
  rw [evalE.eq_def]; simp [ha, hb]
theorem evalE_call_notILike (a b : Expr) (s p : Bytes) (ha : evalE o env r a = .str s) (hb : evalE o env r b = .str p) :
    evalE o env r (.call "notILike" [a, b]) = boolVal (!like (o.lower s) (o.lower p)) := by
  rw [evalE.eq_def]; simp [ha, hb]
theorem evalE_call_match (a b : Expr) (s p : Bytes) (ha : evalE o env r a = .str s) (hb : evalE o env r b = .str p) :
    evalE o env r (.call "match" [a, b]) = boolVal (o.reMatch p s) := by
  rw [evalE.eq_def]; simp [ha, hb]
theorem evalE_call_json (a b : Expr) (s p : Bytes) (ha : evalE o env r a = .str s) (hb : evalE o env r b = .str p) :
    evalE o env r (.call "JSONExtractString" [a, b]) = .str (((o.jsonLabels s).lookup p).getD []) := by
  rw [evalE.eq_def]; simp [ha, hb]
theorem evalE_call_toFloat (a : Expr) (s : Bytes) (ha : evalE o env r a = .str s) :
    evalE o env r (.call "toFloat64OrNull" [a]) = .num s := by
  rw [evalE.eq_def]; simp [ha]

@[simp] theorem evalB_def (e : Expr) : (evalE o env r e).truthy = evalB o env r e := rfl

@[simp] theorem evalB_and (cs : List Expr) : evalB o env r (and_ cs) = evalAll o env r cs := by
  rw [evalB, evalE_and, truthy_boolVal]
@[simp] theorem evalB_or (cs : List Expr) : evalB o env r (or_ cs) = evalAny o env r cs := by
  rw [evalB, evalE_or, truthy_boolVal]
@[simp] theorem evalB_eq (x y : Expr) : evalB o env r (eq x y) = cmpOp o "==" (evalE o env r x) (evalE o env r y) := by
  rw [evalB, evalE_eq, truthy_boolVal]
@[simp] theorem evalB_neq (x y : Expr) : evalB o env r (neq x y) = cmpOp o "!=" (evalE o env r x) (evalE o env r y) := by
  rw [evalB, evalE_neq, truthy_boolVal]
@[simp] theorem evalB_lt (x y : Expr) : evalB o env r (lt x y) = cmpOp o "<" (evalE o env r x) (evalE o env r y) := by
  rw [evalB, evalE_lt, truthy_boolVal]
@[simp] theorem evalB_le (x y : Expr) : evalB o env r (le x y) = cmpOp o "<=" (evalE o env r x) (evalE o env r y) := by
  rw [evalB, evalE_le, truthy_boolVal]
@[simp] theorem evalB_gt (x y : Expr) : evalB o env r (gt x y) = cmpOp o ">" (evalE o env r x) (evalE o env r y) := by
  rw [evalB, evalE_gt, truthy_boolVal]
@[simp] theorem evalB_ge (x y : Expr) : evalB o env r (ge x y) = cmpOp o ">=" (evalE o env r x) (evalE o env r y) := by
  rw [evalB, evalE_ge, truthy_boolVal]
@[simp] theorem evalB_isIn_ref (l : Expr) (a : Alias) : evalB o env r (.isIn l [.withRef a]) =
    (firstCol ((env.lookup a).getD [])).contains (evalE o env r l) := by
  rw [evalB, evalE_isIn_ref, truthy_boolVal]
@[simp] theorem evalB_isIn_ints (l : Expr) (a b : Int) : evalB o env r (.isIn l [.int a, .int b]) =
    (evalE o env r l == .int a || evalE o env r l == .int b) := by
  rw [evalB, evalE_isIn_ints, truthy_boolVal]
theorem evalB_notNull_num (e : Expr) (s : Bytes) (h : evalE o env r e = .num s) :
    evalB o env r (.notNull e) = o.isNum s := by rw [evalB, evalE_notNull_num o env r e s h, truthy_boolVal]
end

/-! ### comparisons -/
section
variable (o : Oracles)
@[simp] theorem str_beq (a b : Bytes) : (Val.str a == Val.str b) = (a == b) := by
  by_cases h : a = b
  · subst h; simp
  · have h' : Val.str a ≠ Val.str b := fun e => h (Val.str.inj e)
    rw [beq_eq_false_iff_ne.mpr h, beq_eq_false_iff_ne.mpr h']
@[simp] theorem int_beq (a b : Int) : (Val.int a == Val.int b) = (a == b) := by
  by_cases h : a = b
  · subst h; simp
  · have h' : Val.int a ≠ Val.int b := fun e => h (Val.int.inj e)
    rw [beq_eq_false_iff_ne.mpr h, beq_eq_false_iff_ne.mpr h']
@[simp] theorem cmpOp_eq_bool_one (x : Bool) : cmpOp o "==" (boolVal x) (.int 1) = x := by cases x <;> simp [cmpOp, boolVal]
@[simp] theorem cmpOp_eq_bool_zero (x : Bool) : cmpOp o "==" (boolVal x) (.int 0) = !x := by cases x <;> simp [cmpOp, boolVal]
@[simp] theorem cmpOp_eq_str (a b : Bytes) : cmpOp o "==" (.str a) (.str b) = (a == b) := by
  simp [cmpOp]
@[simp] theorem cmpOp_neq_str (a b : Bytes) : cmpOp o "!=" (.str a) (.str b) = (a != b) := by
  simp [cmpOp, bne]
@[simp] theorem cmpOp_eq_int (a b : Int) : cmpOp o "==" (.int a) (.int b) = (a == b) := by
  simp [cmpOp]
@[simp] theorem cmpOp_ge_str (a b : Bytes) : cmpOp o ">=" (.str a) (.str b) = decide (b ≤ a) := by
  simp [cmpOp, Val.cmpLe]
@[simp] theorem cmpOp_ge_int (a b : Int) : cmpOp o ">=" (.int a) (.int b) = decide (b ≤ a) := by
  simp [cmpOp, Val.cmpLe]
@[simp] theorem cmpOp_lt_int (a b : Int) : cmpOp o "<" (.int a) (.int b) = decide (a < b) := by
  simp [cmpOp, Val.cmpLt]
@[simp] theorem cmpOp_num (fn : String) (s : Bytes) (l : String) :
    cmpOp o fn (.num s) (.numLit l) = (o.isNum s && o.numCmp fn s l) := by
  simp [cmpOp]
end


@[simp] theorem alias_named_beq (a b : String) : (Alias.named a == Alias.named b) = (a == b) := by
  by_cases h : a = b
  · subst h; simp
  · have h' : Alias.named a ≠ Alias.named b := fun e => h (Alias.named.inj e)
    rw [beq_eq_false_iff_ne.mpr h, beq_eq_false_iff_ne.mpr h']

theorem filter_true {α} (l : List α) : l.filter (fun _ => true) = l := List.filter_eq_self.mpr (by simp)

/-! ### select bodies of the shapes the planner emits -/
theorem evalBody_plain (o : Oracles) (db : Db) (env : Env) (ws : List (Alias × Sel)) (dist : Bool) (cols : List Expr)
    (f : Expr) (pre wher hv : Option Expr) :
    evalBody o db env (.mk ws dist cols (some f) [] pre wher [] hv [] none) =
      ((sourceRows db env f).filter (fun r => optB o env r pre && optB o env r wher)).map (project o env cols) := by
  simp [evalBody]

theorem evalBody_group (o : Oracles) (db : Db) (env : Env) (ws : List (Alias × Sel)) (dist : Bool) (cols : List Expr)
    (f : Expr) (pre wher : Option Expr) (g h : Expr) :
    evalBody o db env (.mk ws dist cols (some f) [] pre wher [g] (some h) [] none) =
      let filtered := (sourceRows db env f).filter (fun r => optB o env r pre && optB o env r wher)
      ((distinctVals (filtered.map (fun r => evalE o env r g))).filter (fun k =>
          evalHaving o env (filtered.filter (fun r => evalE o env r g == k)) h)).map (fun k => [(colName g, k)]) := by
  simp [evalBody]

theorem evalHaving_bits (o : Oracles) (env : Env) (grp : List Row) (cs : List Expr) (n : Int) :
    evalHaving o env grp (and_ [eq (.bitSetAnd cs) (.int n)]) =
      ((groupOr (grp.map (fun r => cs.map (evalB o env r))) : Int) == n) := by
  simp [and_, eq, evalHaving]

theorem firstCol_map_single (n : String) (l : List Val) : firstCol (l.map (fun k => [(n, k)])) = l := by
  induction l with
  | nil => rfl
  | cons a l ih => simp only [List.map_cons, firstCol, List.filterMap_cons, List.head?_cons, Option.map_some] at ih ⊢; rw [ih]

end Qryn.Sql
