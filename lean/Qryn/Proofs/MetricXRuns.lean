import Qryn.Proofs.MetricUnwrap
import Qryn.Proofs.LogQLPlanX
import Qryn.LogQL.SupportedX
/-! C08 ext, part 1: the SELECTs of the SQL-side pipeline stages (C07's runs) under `Sql.SemAgg`, the semantics of the
    metric statements. C07 proves them for `Sql.SemX` (aliases visible in WHERE as well); for the runs that occur (the first
    run rewrites the labels; every filter run reads `FROM subsel_<k> as samples`, whose rows carry the columns a WHERE
    clause names) both semantics give the same table. -/
namespace Qryn.LogQL
open Qryn Qryn.Sql

/-- output row of a run SELECT: column order of the SELECT on the join (`j`) or of a renewed one; `sn` = name of the line
    column (`_string` once `LRAPlanner` renamed it), `v` = the value column -/
def rowSN (j : Bool) (sn : String) (v : EntryX → Val) (e : EntryX) : Row :=
  if j then [("fingerprint", .int e.fp), ("timestamp_ns", .int e.ts), ("labels", .map e.labels), (sn, .str e.line), ("value", v e)]
  else [("timestamp_ns", .int e.ts), ("fingerprint", .int e.fp), ("labels", .map e.labels), (sn, .str e.line), ("value", v e)]

def vNull : EntryX → Val := fun _ => .null

theorem rowS_eq (j : Bool) (e : EntryX) : rowS j e = rowSN j "string" vNull e := by cases j <;> rfl

theorem hasAgg_chExpr : ∀ (cs : List Changer) (rid : Nat) (base : Expr), hasAgg base = false →
    hasAgg (chExpr rid base cs).1 = false := by
  intro cs
  induction cs with
  | nil => intro rid base h; simpa [chExpr] using h
  | cons ch rest ih =>
    intro rid base h
    cases ch with
    | json ps => simp only [chExpr]; exact ih _ _ (by simp [hasAgg, aggNames])
    | regexp names re => simp only [chExpr]; exact ih _ _ (by simp [hasAgg, aggNames])
    | drop ps => simp only [chExpr]; exact ih _ _ (by simp [hasAgg])

/-- the scope of a column of a five-column SELECT without aggregates -/
theorem scope5 (o : Oracles) (env : Env) (e1 e2 e3 e4 e5 : Expr) (a1 a2 a3 a4 a5 : String)
    (h1 : hasAgg e1 = false) (h2 : hasAgg e2 = false) (h3 : hasAgg e3 = false) (h4 : hasAgg e4 = false) (h5 : hasAgg e5 = false)
    (self : String) (r : Row) :
    scope o env [.col e1 a1, .col e2 a2, .col e3 a3, .col e4 a4, .col e5 a5] self r =
      ([(a1, evalE o env r e1), (a2, evalE o env r e2), (a3, evalE o env r e3), (a4, evalE o env r e4),
        (a5, evalE o env r e5)].filter (fun p => p.1 != self)) ++ r := by
  simp [scope, aliasVals, h1, h2, h3, h4, h5]

/-! ### column lists of the run SELECTs (`sn`: the name of the line column) -/
def colsJG (lbl : Expr) (sn : String) : List Expr :=
  [.col .labelsFp "fingerprint", .col (.raw "main.timestamp_ns") "timestamp_ns", .col lbl "labels",
   .col (.raw "main.string") sn, .col (.raw "main.value") "value"]
def colsRchG (lbl : Expr) (sn : String) : List Expr :=
  [.col (.raw "samples.timestamp_ns") "timestamp_ns", .col .labelsFp "fingerprint", .col lbl "labels",
   .col (.raw "samples.string") sn, .col (.raw "samples.value") "value"]
def colsRflG (sn : String) (ve : Expr) : List Expr :=
  [.col (.raw "samples.timestamp_ns") "timestamp_ns", .col (.raw "samples.fingerprint") "fingerprint",
   .col (.raw "samples.labels") "labels", .col (.raw "samples.string") sn, .col ve "value"]

section
variable (o : Oracles) (env : Env)

/-- the SELECT on the join, one row -/
theorem projectA_chJ (r : Row) (fp ts : Int) (line : Bytes) (L : Labels) (cs : List Changer) (hcs : cs ≠ []) (rid : Nat)
    (sn : String) (hsn : sn = "string" ∨ sn = "_string")
    (h1 : r.get "main.timestamp_ns" = .int ts) (h2 : r.get "main.string" = .str line) (h3 : r.get "string" = .str line)
    (h4 : r.get "main.value" = .null)
    (hb : r.get "_time_series.labels" = .map L ∨ (r.get "_time_series.labels" = .null ∧ L = [])) :
    projectA o env (colsJG (chExpr rid (.raw "_time_series.labels") cs).1 sn) r =
      rowSN true sn vNull (runCh o cs ⟨fp, ts, L, line⟩) := by
  have hagg := hasAgg_chExpr cs rid (.raw "_time_series.labels") rfl
  have hl1 := chExpr_eval o env r line h3 cs hcs rid (.raw "_time_series.labels") L (by simpa using hb)
  unfold projectA colsJG
  simp only [List.map_cons, List.map_nil, colName]
  have hsc := fun self => scope5 o env .labelsFp (.raw "main.timestamp_ns") (chExpr rid (.raw "_time_series.labels") cs).1
    (.raw "main.string") (.raw "main.value") "fingerprint" "timestamp_ns" "labels" sn "value" rfl rfl hagg rfl rfl self r
  simp only [hsc, evalE_raw, evalE_col, hl1, h1, h2, h4]
  generalize evalE o env r .labelsFp = x
  rcases hsn with rfl | rfl
  · -- line column named `string`
    have g2 : Row.get (List.filter (fun p => p.1 != "fingerprint") [("fingerprint", x), ("timestamp_ns", Val.int ts),
        ("labels", Val.map (cs.foldl (applyChanger o line) L)), ("string", Val.str line), ("value", Val.null)] ++ r) "labels" =
        .map (cs.foldl (applyChanger o line) L) := by simp [List.filter, Row.get_cons]
    have hlab : evalE o env (List.filter (fun p => p.1 != "labels") [("fingerprint", x), ("timestamp_ns", Val.int ts),
        ("labels", Val.map (cs.foldl (applyChanger o line) L)), ("string", Val.str line), ("value", Val.null)] ++ r)
        (chExpr rid (.raw "_time_series.labels") cs).1 = .map (cs.foldl (applyChanger o line) L) := by
      apply chExpr_eval o env _ line _ cs hcs rid (.raw "_time_series.labels") L
      · simpa [List.filter, Row.get_cons, evalE_raw] using hb
      · simp [List.filter, Row.get_cons]
    rw [hlab, evalE_labelsFp o env _ _ g2]
    simp [List.filter, Row.get_cons, h1, h2, h4, rowSN, runCh, vNull]
  · have g2 : Row.get (List.filter (fun p => p.1 != "fingerprint") [("fingerprint", x), ("timestamp_ns", Val.int ts),
        ("labels", Val.map (cs.foldl (applyChanger o line) L)), ("_string", Val.str line), ("value", Val.null)] ++ r) "labels" =
        .map (cs.foldl (applyChanger o line) L) := by simp [List.filter, Row.get_cons]
    have hlab : evalE o env (List.filter (fun p => p.1 != "labels") [("fingerprint", x), ("timestamp_ns", Val.int ts),
        ("labels", Val.map (cs.foldl (applyChanger o line) L)), ("_string", Val.str line), ("value", Val.null)] ++ r)
        (chExpr rid (.raw "_time_series.labels") cs).1 = .map (cs.foldl (applyChanger o line) L) := by
      apply chExpr_eval o env _ line _ cs hcs rid (.raw "_time_series.labels") L
      · simpa [List.filter, Row.get_cons, evalE_raw] using hb
      · simp [List.filter, Row.get_cons, h3]
    rw [hlab, evalE_labelsFp o env _ _ g2]
    simp [List.filter, Row.get_cons, h1, h2, h4, rowSN, runCh, vNull]

/-- what a renewed SELECT (`FROM subsel_<k> as samples`) reads for an entry of the previous one -/
structure IsSrcA (r : Row) (e : EntryX) : Prop where
  ts : r.get "samples.timestamp_ns" = .int e.ts
  fp : r.get "samples.fingerprint" = .int e.fp
  labels : r.get "samples.labels" = .map e.labels
  line : r.get "samples.string" = .str e.line
  value : r.get "samples.value" = .null
  line' : r.get "string" = .str e.line
  labels' : r.get "labels" = .map e.labels

theorem isSrcA_qualify (j : Bool) (e : EntryX) : IsSrcA (qualify "samples" (rowSN j "string" vNull e)) e := by
  cases j <;> constructor <;> simp [rowSN, vNull, qualify, Row.get, List.lookup]

theorem projectA_chR (r : Row) (e : EntryX) (hr : IsSrcA r e) (cs : List Changer) (hcs : cs ≠ []) (rid : Nat)
    (sn : String) (hsn : sn = "string" ∨ sn = "_string") :
    projectA o env (colsRchG (chExpr rid (.raw "samples.labels") cs).1 sn) r = rowSN false sn vNull (runCh o cs e) := by
  have hagg := hasAgg_chExpr cs rid (.raw "samples.labels") rfl
  have hl1 := chExpr_eval o env r e.line hr.line' cs hcs rid (.raw "samples.labels") e.labels (Or.inl (by simp [hr.labels]))
  unfold projectA colsRchG
  simp only [List.map_cons, List.map_nil, colName]
  have hsc := fun self => scope5 o env (.raw "samples.timestamp_ns") .labelsFp (chExpr rid (.raw "samples.labels") cs).1
    (.raw "samples.string") (.raw "samples.value") "timestamp_ns" "fingerprint" "labels" sn "value" rfl rfl hagg rfl rfl self r
  simp only [hsc, evalE_raw, evalE_col, hl1, hr.ts, hr.line, hr.value]
  generalize evalE o env r .labelsFp = x
  rcases hsn with rfl | rfl
  · have g2 : Row.get (List.filter (fun p => p.1 != "fingerprint") [("timestamp_ns", Val.int e.ts), ("fingerprint", x),
        ("labels", Val.map (cs.foldl (applyChanger o e.line) e.labels)), ("string", Val.str e.line), ("value", Val.null)] ++ r) "labels" =
        .map (cs.foldl (applyChanger o e.line) e.labels) := by simp [List.filter, Row.get_cons]
    have hlab : evalE o env (List.filter (fun p => p.1 != "labels") [("timestamp_ns", Val.int e.ts), ("fingerprint", x),
        ("labels", Val.map (cs.foldl (applyChanger o e.line) e.labels)), ("string", Val.str e.line), ("value", Val.null)] ++ r)
        (chExpr rid (.raw "samples.labels") cs).1 = .map (cs.foldl (applyChanger o e.line) e.labels) := by
      apply chExpr_eval o env _ e.line _ cs hcs rid (.raw "samples.labels") e.labels
      · left; simp [List.filter, Row.get_cons, evalE_raw, hr.labels]
      · simp [List.filter, Row.get_cons]
    rw [hlab, evalE_labelsFp o env _ _ g2]
    simp [List.filter, Row.get_cons, hr.ts, hr.line, hr.value, rowSN, runCh, vNull]
  · have g2 : Row.get (List.filter (fun p => p.1 != "fingerprint") [("timestamp_ns", Val.int e.ts), ("fingerprint", x),
        ("labels", Val.map (cs.foldl (applyChanger o e.line) e.labels)), ("_string", Val.str e.line), ("value", Val.null)] ++ r) "labels" =
        .map (cs.foldl (applyChanger o e.line) e.labels) := by simp [List.filter, Row.get_cons]
    have hlab : evalE o env (List.filter (fun p => p.1 != "labels") [("timestamp_ns", Val.int e.ts), ("fingerprint", x),
        ("labels", Val.map (cs.foldl (applyChanger o e.line) e.labels)), ("_string", Val.str e.line), ("value", Val.null)] ++ r)
        (chExpr rid (.raw "samples.labels") cs).1 = .map (cs.foldl (applyChanger o e.line) e.labels) := by
      apply chExpr_eval o env _ e.line _ cs hcs rid (.raw "samples.labels") e.labels
      · left; simp [List.filter, Row.get_cons, evalE_raw, hr.labels]
      · simp [List.filter, Row.get_cons, hr.line']
    rw [hlab, evalE_labelsFp o env _ _ g2]
    simp [List.filter, Row.get_cons, hr.ts, hr.line, hr.value, rowSN, runCh, vNull]

/-- a filter run, with any value column that reads qualified source columns only -/
theorem projectA_flR (r : Row) (e : EntryX) (hr : IsSrcA r e) (sn : String) (hsn : sn = "string" ∨ sn = "_string")
    (ve : Expr) (hve : hasAgg ve = false) (v : EntryX → Val)
    (hv : ∀ ρ : Row, ρ.get "samples.labels" = .map e.labels → ρ.get "samples.string" = .str e.line →
      ρ.get "samples.value" = .null → evalE o env ρ ve = v e) :
    projectA o env (colsRflG sn ve) r = rowSN false sn v e := by
  unfold projectA colsRflG
  simp only [List.map_cons, List.map_nil, colName]
  have hsc := fun self => scope5 o env (.raw "samples.timestamp_ns") (.raw "samples.fingerprint") (.raw "samples.labels")
    (.raw "samples.string") ve "timestamp_ns" "fingerprint" "labels" sn "value" rfl rfl rfl rfl hve self r
  simp only [hsc, evalE_raw, evalE_col, hr.ts, hr.fp, hr.line, hr.labels]
  rcases hsn with rfl | rfl
  · simp [List.filter, Row.get_cons, hr.ts, hr.fp, hr.line, hr.labels, rowSN]
    exact hv _ (by simp [Row.get_cons, hr.labels]) (by simp [Row.get_cons, hr.line]) (by simp [Row.get_cons, hr.value])
  · simp [List.filter, Row.get_cons, hr.ts, hr.fp, hr.line, hr.labels, rowSN]
    exact hv _ (by simp [Row.get_cons, hr.labels]) (by simp [Row.get_cons, hr.line]) (by simp [Row.get_cons, hr.value])
end


theorem evalBodyA_plain (o : Oracles) (db : Db) (env : Env) (ws : List (Alias × Sel)) (cols : List Expr) (f : Expr)
    (joins : List (String × Alias × Expr)) (pre wher : Option Expr) (hagg : cols.any hasAgg = false) :
    evalBodyA o db env (.mk ws false cols (some f) joins pre wher [] none [] none) =
      ((joins.foldl (fun t (j : String × Alias × Expr) => anyLeftJoin o env t j.2.1 j.2.2) (sourceRowsA o db env f)).filter
        (fun r => optB o env r pre && optB o env r wher)).map (projectA o env cols) := by
  simp [evalBodyA, hagg]

theorem colsJG_noAgg (lbl : Expr) (sn : String) (h : hasAgg lbl = false) : (colsJG lbl sn).any hasAgg = false := by
  simp [colsJG, hasAgg, h]
theorem colsRchG_noAgg (lbl : Expr) (sn : String) (h : hasAgg lbl = false) : (colsRchG lbl sn).any hasAgg = false := by
  simp [colsRchG, hasAgg, h]
theorem colsRflG_noAgg (sn : String) (ve : Expr) (h : hasAgg ve = false) : (colsRflG sn ve).any hasAgg = false := by
  simp [colsRflG, hasAgg, h]

/-- **the first run** (it rewrites the labels): `main ANY LEFT JOIN _time_series`, one row per entry of `main`, in its
    order: the entry with its stream's labels run through the stages of the run, in the series of the new label set -/
theorem runChJ_evalA (o : Oracles) (c : Ctx) (db : Db) (d : LokiDb) (q : LogQuery) (env : Env) (L0 : List Sample)
    (cs : List Changer) (hcs : cs ≠ []) (rid : Nat) (sn : String) (hsn : sn = "string" ∨ sn = "_string")
    (ws : List (Alias × Sel))
    (hM : env.lookup (.named "main") = some (L0.map (sampleRow "string")))
    (hTS : env.lookup (.named "_time_series") = some ((d.ts.filter (tsOk o c d q)).map (tsOut o))) :
    evalBodyA o db env (.mk ws false (colsJG (chExpr rid (.raw "_time_series.labels") cs).1 sn)
        (some (.withRef (.named "main"))) [joinSpec c] none none [] none [] none) =
      (L0.map (fun s => runCh o cs (joinEntry o c d q s))).map (rowSN true sn vNull) := by
  rw [evalBodyA_plain _ _ _ _ _ _ _ _ _ (colsJG_noAgg _ _ (hasAgg_chExpr cs rid _ rfl))]
  simp only [List.foldl_cons, List.foldl_nil, joinSpec, optB, Bool.and_self, filter_true, sourceRowsA, sourceRows, hM,
    Option.getD_some, Alias.text]
  rw [show (eq (Expr.raw "main.fingerprint") (Expr.raw "_time_series.fingerprint")) =
      eq (.raw ("main" ++ "." ++ "fingerprint")) (.raw ("_time_series" ++ "." ++ "fingerprint")) from rfl]
  rw [anyLeftJoin_fp o env "main" "_time_series" main_ts_names _ (by
      intro r hr; obtain ⟨s, _, rfl⟩ := List.mem_map.mp hr; exact sampleRow_std s)
    (d.ts.filter (tsOk o c d q)) (tsOut o) (fun t => t.fp) (fun t => by simp [tsOut, get_cons]) hTS]
  simp only [List.map_map]
  apply List.map_congr_left
  intro s _
  simp only [Function.comp_apply]
  have r1 : (sampleRow "string" s).get "fingerprint" = .int s.fp := by simp [sampleRow, get_cons]
  rw [r1]
  have hlab := labelsOf_find o c d q s.fp
  unfold joinEntry
  cases hf : List.find? (fun t => Val.int s.fp == Val.int t.fp) (List.filter (tsOk o c d q) d.ts) with
  | none =>
    rw [hf] at hlab
    simp only [Option.map_none, rightGet] at hlab
    rw [← hlab]
    exact projectA_chJ o env _ s.fp s.ts s.str [] cs hcs rid sn hsn
      (by simp [joinedRow, qualify, sampleRow, Row.get, List.lookup]) (by simp [joinedRow, qualify, sampleRow, Row.get, List.lookup])
      (by simp [joinedRow, qualify, sampleRow, Row.get, List.lookup]) (by simp [joinedRow, qualify, sampleRow, Row.get, List.lookup])
      (Or.inr ⟨by simp [joinedRow, qualify, sampleRow, Row.get, List.lookup], rfl⟩)
  | some t =>
    rw [hf] at hlab
    simp only [Option.map_some, rightGet, tsOut, get_cons] at hlab
    simp only [beq_self_eq_true, if_true] at hlab
    rw [← hlab]
    exact projectA_chJ o env _ s.fp s.ts s.str (o.jsonLabels t.labels) cs hcs rid sn hsn
      (by simp [joinedRow, qualify, sampleRow, tsOut, Row.get, List.lookup])
      (by simp [joinedRow, qualify, sampleRow, tsOut, Row.get, List.lookup])
      (by simp [joinedRow, qualify, sampleRow, tsOut, Row.get, List.lookup])
      (by simp [joinedRow, qualify, sampleRow, tsOut, Row.get, List.lookup])
      (Or.inl (by simp [joinedRow, qualify, sampleRow, tsOut, Row.get, List.lookup]))


/-- **a later run that rewrites the labels**, `FROM subsel_<k> as samples` -/
theorem runChR_evalA (o : Oracles) (db : Db) (env : Env) (k : Nat) (j : Bool) (E : List EntryX)
    (cs : List Changer) (hcs : cs ≠ []) (rid : Nat) (sn : String) (hsn : sn = "string" ∨ sn = "_string")
    (ws : List (Alias × Sel)) (hE : env.lookup (.sub k) = some (E.map (rowSN j "string" vNull))) :
    evalBodyA o db env (.mk ws false (colsRchG (chExpr rid (.raw "samples.labels") cs).1 sn)
        (some (.col (.withRef (.sub k)) "samples")) [] none none [] none [] none) =
      (E.map (runCh o cs)).map (rowSN false sn vNull) := by
  rw [evalBodyA_plain _ _ _ _ _ _ _ _ _ (colsRchG_noAgg _ _ (hasAgg_chExpr cs rid _ rfl))]
  simp only [List.foldl_nil, optB, Bool.and_self, filter_true, sourceRowsA, hE, Option.getD_some, List.map_map]
  apply List.map_congr_left
  intro e _
  exact projectA_chR o env _ e (isSrcA_qualify j e) cs hcs rid sn hsn

/-- the WHERE of a filter run, on the rows of `subsel_<k> as samples` -/
theorem where_flA (o : Oracles) (env : Env) (r : Row) (e : EntryX) (hr : IsSrcA r e) (fs : List Stage) :
    optB o env r (some (and_ (fs.map stageClause))) = fs.all (stageHolds o e) := by
  simp only [optB, evalB_and, evalAll_map, stageClause_row o env r e hr.line hr.line' hr.labels']

/-- **a filter run**, `FROM subsel_<k> as samples`, with the value column `ve` -/
theorem runFlR_evalA (o : Oracles) (db : Db) (env : Env) (k : Nat) (j : Bool) (E : List EntryX)
    (fs : List Stage) (wher : Option Expr)
    (hw : ∀ r e, IsSrcA r e → optB o env r wher = fs.all (stageHolds o e))
    (sn : String) (hsn : sn = "string" ∨ sn = "_string")
    (ve : Expr) (hve : hasAgg ve = false) (v : EntryX → Val)
    (hv : ∀ (e : EntryX) (ρ : Row), ρ.get "samples.labels" = .map e.labels → ρ.get "samples.string" = .str e.line →
      ρ.get "samples.value" = .null → evalE o env ρ ve = v e)
    (ws : List (Alias × Sel)) (hE : env.lookup (.sub k) = some (E.map (rowSN j "string" vNull))) :
    evalBodyA o db env (.mk ws false (colsRflG sn ve) (some (.col (.withRef (.sub k)) "samples")) [] none wher [] none [] none) =
      (E.filter (fun e => fs.all (stageHolds o e))).map (rowSN false sn v) := by
  rw [evalBodyA_plain _ _ _ _ _ _ _ _ _ (colsRflG_noAgg _ _ hve)]
  have h0 : (fun r => optB o env r none && optB o env r wher) = (fun r => optB o env r wher) := by
    funext r; rfl
  simp only [List.foldl_nil, sourceRowsA, hE, Option.getD_some, h0, List.filter_map, List.map_map]
  have h1 : (List.filter ((fun r => optB o env r wher) ∘ qualify "samples" ∘ rowSN j "string" vNull) E) =
      E.filter (fun e => fs.all (stageHolds o e)) := by
    apply List.filter_congr
    intro e _
    exact hw _ e (isSrcA_qualify j e)
  simp only [Function.comp_def] at h1 ⊢
  rw [h1]
  apply List.map_congr_left
  intro e _
  exact projectA_flR o env _ e (isSrcA_qualify j e) sn hsn ve hve v (hv e)


/-! ### the run SELECTs in general form -/
def flWhere (fs : List Stage) : Option Expr := if fs = [] then none else some (and_ (fs.map stageClause))

/-- a run SELECT with the line column named `sn` and, for a filter run, the value column `ve` -/
def runSelG (c : Ctx) (src : Option Nat) (rid : Nat) (r : Run) (sn : String) (ve : Expr) : Sel :=
  match src, r with
  | none, .ch cs =>
    .mk [] false (colsJG (chExpr rid (.raw "_time_series.labels") cs).1 sn) (some (.withRef (.named "main"))) [joinSpec c]
      none none [] none [] none
  | some k, .ch cs =>
    .mk [] false (colsRchG (chExpr rid (.raw "samples.labels") cs).1 sn) (some (.col (.withRef (.sub k)) "samples")) []
      none none [] none [] none
  | some k, .fl fs =>
    .mk [] false (colsRflG sn ve) (some (.col (.withRef (.sub k)) "samples")) [] none (flWhere fs) [] none [] none
  | none, .fl _ => emptySel

def Run.isCh : Run → Bool
  | .ch _ => true
  | .fl _ => false

theorem runSelM_eq (c : Ctx) (src : Option Nat) (rid : Nat) (r : Run) (h : src = none → r.isCh = true) :
    (runSelM c src rid r).1 = runSelG c src rid r "string" (.raw "samples.value") := by
  cases src with
  | none =>
    cases r with
    | ch cs => rfl
    | fl fs => simp [Run.isCh] at h
  | some k =>
    cases r with
    | ch cs => rfl
    | fl fs =>
      cases fs with
      | nil => rfl
      | cons f fs' => simp [runSelM, runSel, runSelG, colsRflG, simpleCol, flWhere]

theorem runSelM_rid (c : Ctx) (src : Option Nat) (rid : Nat) (r : Run) :
    (runSelM c src rid r).2 = (runSel c src rid r [] none).2 := by
  cases src with
  | none => rfl
  | some k =>
    cases r with
    | ch cs => rfl
    | fl fs => cases fs <;> rfl

/-- the state a run starts from: `main` and `_time_series` (first run) or the previous run's table -/
def SrcOK (o : Oracles) (c : Ctx) (d : LokiDb) (q : LogQuery) (env : Env) (src : Option Nat) (E : List EntryX) : Prop :=
  match src with
  | none => ∃ L0 : List Sample, env.lookup (.named "main") = some (L0.map (sampleRow "string")) ∧
      env.lookup (.named "_time_series") = some ((d.ts.filter (tsOk o c d q)).map (tsOut o)) ∧
      E = L0.map (joinEntry o c d q)
  | some k => ∃ j, env.lookup (.sub k) = some (E.map (rowSN j "string" vNull))

/-- **one run SELECT in general form** -/
theorem runSelG_evalA (o : Oracles) (c : Ctx) (db : Db) (d : LokiDb) (q : LogQuery) (env : Env) (src : Option Nat)
    (E : List EntryX) (hsrc : SrcOK o c d q env src E) (rid : Nat) (r : Run) (hfirst : src = none → r.isCh = true)
    (hch : ∀ cs, r = .ch cs → cs ≠ []) (sn : String) (hsn : sn = "string" ∨ sn = "_string")
    (ve : Expr) (hve : hasAgg ve = false) (v : EntryX → Val)
    (hv : ∀ (e : EntryX) (ρ : Row), ρ.get "samples.labels" = .map e.labels → ρ.get "samples.string" = .str e.line →
      ρ.get "samples.value" = .null → evalE o env ρ ve = v e)
    (ws : List (Alias × Sel)) :
    evalBodyA o db env ((runSelG c src rid r sn ve).setWiths ws) =
      (applyRun o r E).map (rowSN (src.isNone) sn (if r.isCh then vNull else v)) := by
  rw [evalBodyA_setWiths]
  cases src with
  | none =>
    cases r with
    | fl fs => simp [Run.isCh] at hfirst
    | ch cs =>
      obtain ⟨L0, hM, hTS, rfl⟩ := hsrc
      simp only [runSelG, applyRun_ch, Run.isCh, if_true, Option.isNone_none, List.map_map]
      rw [runChJ_evalA o c db d q env L0 cs (hch cs rfl) rid sn hsn [] hM hTS, List.map_map]
      rfl
  | some k =>
    obtain ⟨j, hE⟩ := hsrc
    cases r with
    | ch cs =>
      simp only [runSelG, applyRun_ch, Run.isCh, if_true, Option.isNone_some]
      exact runChR_evalA o db env k j E cs (hch cs rfl) rid sn hsn [] hE
    | fl fs =>
      simp only [runSelG, applyRun_fl, Run.isCh, Bool.false_eq_true, if_false, Option.isNone_some]
      apply runFlR_evalA o db env k j E fs (flWhere fs) _ sn hsn ve hve v hv [] hE
      intro r e hr
      unfold flWhere
      by_cases hfs : fs = []
      · subst hfs; rfl
      · rw [if_neg hfs]; exact where_flA o env r e hr fs


/-- a run SELECT as `planRunsM` writes it (line column `string`, value column handed on) -/
theorem runSelM_evalA (o : Oracles) (c : Ctx) (db : Db) (d : LokiDb) (q : LogQuery) (env : Env) (src : Option Nat)
    (E : List EntryX) (hsrc : SrcOK o c d q env src E) (rid : Nat) (r : Run) (hfirst : src = none → r.isCh = true)
    (hch : ∀ cs, r = .ch cs → cs ≠ []) :
    evalBodyM o db env (runSelM c src rid r).1 = (applyRun o r E).map (rowSN (src.isNone) "string" vNull) := by
  rw [runSelM_eq c src rid r hfirst]
  have hb : isBitSetHaving (runSelG c src rid r "string" (.raw "samples.value")).having = false := by
    cases src <;> cases r <;> rfl
  rw [evalBodyM_eq_A _ _ _ _ hb, ← evalBodyA_setWiths o db env _ []]
  rw [runSelG_evalA o c db d q env src E hsrc rid r hfirst hch "string" (Or.inl rfl) (.raw "samples.value") rfl vNull
    (by intro e ρ _ _ h3; simpa [evalE_raw, vNull] using h3) []]
  cases r.isCh <;> rfl

/-- the names `planRunsM` binds: `subsel_<id+1>`, … -/
def subAls (id n : Nat) : List Alias := (List.range n).map (fun i => .sub (id + 1 + i))

theorem subAls_succ (id n : Nat) : subAls id (n + 1) = .sub (id + 1) :: subAls (id + 1) n := by
  unfold subAls
  rw [List.range_succ_eq_map]
  simp only [List.map_cons, List.map_map, Nat.add_zero]
  congr 1
  apply List.map_congr_left
  intro i _
  simp only [Function.comp_apply]
  congr 1
  omega

theorem mem_subAls (id n : Nat) (a : Alias) : a ∈ subAls id n ↔ ∃ i, i < n ∧ a = .sub (id + 1 + i) := by
  unfold subAls
  simp only [List.mem_map, List.mem_range]
  constructor
  · rintro ⟨i, hi, rfl⟩; exact ⟨i, hi, rfl⟩
  · rintro ⟨i, hi, rfl⟩; exact ⟨i, hi, rfl⟩

/-- **the runs of a pipeline, evaluated**: all runs but the last become `subsel_<k>` tables; the last run's SELECT reads the
    entries the runs before it let through -/
theorem planRunsM_eval (o : Oracles) (c : Ctx) (db : Db) (d : LokiDb) (q : LogQuery) :
    ∀ (rs : List Run), rs ≠ [] → AllChNonempty rs → ∀ (src : Option Nat) (id rid : Nat) (E : List EntryX) (env : Env),
      SrcOK o c d q env src E → (src = none → ∃ cs more, rs = .ch cs :: more) →
      ∃ (init : List Run) (rlast : Run) (src' : Option Nat) (rid' : Nat),
        rs = init ++ [rlast] ∧
        (planRunsM c src id rid rs).2.1 = (runSelM c src' rid' rlast).1 ∧
        (planRunsM c src id rid rs).2.2 = id + init.length ∧
        als (planRunsM c src id rid rs).1 = subAls id init.length ∧
        SrcOK o c d q (evalWithsA o db env (planRunsM c src id rid rs).1) src' (applyRuns o init E) ∧
        (src' = none → rlast.isCh = true) ∧ (∀ cs, rlast = .ch cs → cs ≠ []) := by
  intro rs
  induction rs with
  | nil => intro h; exact absurd rfl h
  | cons r rs' ih =>
    intro _ hall src id rid E env hsrc hfirst
    have hfr : src = none → r.isCh = true := by
      intro h; obtain ⟨cs, more, he⟩ := hfirst h; cases he; rfl
    have hchr : ∀ cs, r = .ch cs → cs ≠ [] := fun cs he => hall cs (by rw [he]; simp)
    cases rs' with
    | nil =>
      refine ⟨[], r, src, rid, rfl, rfl, rfl, rfl, ?_, hfr, hchr⟩
      simpa [planRunsM, evalWithsA] using hsrc
    | cons r' rest =>
      have hstep := runSelM_evalA o c db d q env src E hsrc rid r hfr hchr
      have hsrc2 : SrcOK o c d q ((.sub (id + 1), evalBodyM o db env (runSelM c src rid r).1) :: env) (some (id + 1))
          (applyRun o r E) := ⟨src.isNone, by rw [hstep]; simp [List.lookup]⟩
      obtain ⟨init, rlast, src', rid', h1, h2, h3, h4, h5, h6, h7⟩ := ih (by simp)
        (fun cs hm => hall cs (List.mem_cons_of_mem _ hm)) (some (id + 1)) (id + 1) (runSelM c src rid r).2 (applyRun o r E)
        _ hsrc2 (by intro h; cases h)
      refine ⟨r :: init, rlast, src', rid', by rw [h1]; rfl, ?_, ?_, ?_, ?_, h6, h7⟩
      · simp only [planRunsM]; exact h2
      · simp only [planRunsM, List.length_cons]; rw [h3]; omega
      · simp only [planRunsM, List.length_cons, als, List.map_cons]
        rw [subAls_succ]
        congr 1
      · simp only [planRunsM, evalWithsA, applyRuns_cons]
        exact h5

end Qryn.LogQL
