import Qryn.Proofs.ProfUpsert
/-! Writer side of C16: the visits of `postProcessProf`'s loops balance (what enters a node either stays
    there as self weight or is passed to a child visit), and the `tree` map / stored rows carry exactly the
    per-node sums of the visits. -/
namespace Qryn.Prof

/-! ### per-type observables -/

def ntotal (j : Nat) (n : Node) : Int := (n.vals.getD j (0, 0)).2
def nself (j : Nat) (n : Node) : Int := (n.vals.getD j (0, 0)).1
/-- `sample.Value[j]` -/
def vval (j : Nat) (v : Visit) : Int := v.vals.getD j 0
/-- what a visit adds to `self` -/
def vself (j : Nat) (v : Visit) : Int := if v.leaf then v.vals.getD j 0 else 0

theorem addVisit_getD {nt j : Nat} (h : j < nt) (v : Visit) (vals : List (Int × Int)) :
    (addVisit nt v vals).getD j (0, 0)
      = ((vals.getD j (0, 0)).1 + vself j v, (vals.getD j (0, 0)).2 + vval j v) := by
  simp [addVisit, List.getD_eq_getElem?_getD, List.getElem?_map, List.getElem?_range h, vself, vval]

theorem addVisit_length (nt : Nat) (v : Visit) (vals : List (Int × Int)) : (addVisit nt v vals).length = nt := by
  simp [addVisit]

theorem writerKeyLaws (nt : Nat) :
    KeyLaws (fun n : Node => n.node) (fun v : Visit => v.node) (newNode nt) (bumpNode nt) :=
  ⟨fun _ => rfl, fun _ _ => rfl⟩

theorem writerTotalLaws {nt j : Nat} (h : j < nt) (Q : Node → Bool) (Qb : Visit → Bool)
    (hmk : ∀ v, Q (newNode nt v) = Qb v) (hcomb : ∀ a v, Q (bumpNode nt a v) = Q a) :
    ObsLaws (newNode nt) (bumpNode nt) (ntotal j) (vval j) Q Qb :=
  ⟨fun v => by
     show ((addVisit nt v []).getD j (0, 0)).2 = _
     rw [addVisit_getD h]; simp,
   fun a v => by
     show ((addVisit nt v a.vals).getD j (0, 0)).2 = _
     rw [addVisit_getD h]; rfl, hmk, hcomb⟩

theorem writerSelfLaws {nt j : Nat} (h : j < nt) (Q : Node → Bool) (Qb : Visit → Bool)
    (hmk : ∀ v, Q (newNode nt v) = Qb v) (hcomb : ∀ a v, Q (bumpNode nt a v) = Q a) :
    ObsLaws (newNode nt) (bumpNode nt) (nself j) (vself j) Q Qb :=
  ⟨fun v => by
     show ((addVisit nt v []).getD j (0, 0)).1 = _
     rw [addVisit_getD h]; simp,
   fun a v => by
     show ((addVisit nt v a.vals).getD j (0, 0)).1 = _
     rw [addVisit_getD h]; rfl, hmk, hcomb⟩

/-! ### the `tree` map carries the per-node sums of the visits -/

theorem treeMap_nodup (nt : Nat) (V : List Visit) : ((treeMap nt V).map (·.node)).Nodup :=
  foldUpsert_nodup (writerKeyLaws nt) [] V (by simp)

theorem treeMap_keys (nt : Nat) (V : List Visit) (n : Nat) :
    n ∈ (treeMap nt V).map (·.node) ↔ n ∈ V.map (·.node) := by
  have := foldUpsert_keys_mem (writerKeyLaws nt) [] V n
  simpa [treeMap] using this

theorem treeMap_total {nt j : Nat} (h : j < nt) (V : List Visit) (n : Nat) :
    fsum (treeMap nt V) (fun a => decide (a.node = n)) (ntotal j) = fsum V (fun v => decide (v.node = n)) (vval j) := by
  have := fsum_foldUpsert_key (writerKeyLaws nt) (fun k => decide (k = n))
    (writerTotalLaws h _ _ (fun _ => rfl) (fun _ _ => rfl)) [] V (by simp)
  simpa [treeMap] using this

theorem treeMap_self {nt j : Nat} (h : j < nt) (V : List Visit) (n : Nat) :
    fsum (treeMap nt V) (fun a => decide (a.node = n)) (nself j) = fsum V (fun v => decide (v.node = n)) (vself j) := by
  have := fsum_foldUpsert_key (writerKeyLaws nt) (fun k => decide (k = n))
    (writerSelfLaws h _ _ (fun _ => rfl) (fun _ _ => rfl)) [] V (by simp)
  simpa [treeMap] using this

/-- visits of one node id always come from the same parent (what an injective `getNodeId` gives) -/
def ParentConsistent (V : List Visit) : Prop := ∀ v ∈ V, ∀ w ∈ V, v.node = w.node → v.parent = w.parent

theorem treeMap_children {nt j : Nat} (h : j < nt) (V : List Visit) (hc : ParentConsistent V) (n : Nat) :
    fsum (treeMap nt V) (fun a => decide (a.parent = n)) (ntotal j)
      = fsum V (fun v => decide (v.parent = n)) (vval j) := by
  have := fsum_foldUpsert (writerKeyLaws nt)
    (writerTotalLaws h (fun a => decide (a.parent = n)) (fun v => decide (v.parent = n)) (fun _ => rfl) (fun _ _ => rfl))
    [] V (by simp) (by simp) (fun v hv w hw e => by simp [hc v hv w hw e])
  simpa [treeMap] using this

/-- every stored entry has the parent and function of some visit of its node -/
theorem treeMap_attr (nt : Nat) (V : List Visit) :
    ∀ a ∈ treeMap nt V, ∃ v ∈ V, v.node = a.node ∧ v.parent = a.parent ∧ v.fn = a.fn := by
  suffices H : ∀ (m : List Node) (V' : List Visit),
      (∀ a ∈ m, ∃ v ∈ V, v.node = a.node ∧ v.parent = a.parent ∧ v.fn = a.fn) → (∀ v ∈ V', v ∈ V) →
      ∀ a ∈ foldUpsert (fun n : Node => n.node) (fun v : Visit => v.node) (newNode nt) (bumpNode nt) m V',
        ∃ v ∈ V, v.node = a.node ∧ v.parent = a.parent ∧ v.fn = a.fn from
    H [] V (by simp) (fun _ h => h)
  intro m V'
  induction V' generalizing m with
  | nil => intro hm _; simpa [foldUpsert] using hm
  | cons b bs ih =>
    intro hm hsub
    simp only [foldUpsert, List.foldl_cons]
    apply ih
    · intro a ha
      unfold upsertBy at ha
      split at ha
      · obtain ⟨a0, ha0, rfl⟩ := List.mem_map.mp ha
        obtain ⟨v, hv, h1, h2, h3⟩ := hm a0 ha0
        refine ⟨v, hv, ?_⟩
        by_cases e : a0.node = b.node <;> simp [e, bumpNode, h1, h2, h3] <;> omega
      · rcases List.mem_append.mp ha with ha | ha
        · exact hm a ha
        · simp at ha; subst ha
          exact ⟨b, hsub b (by simp), rfl, rfl, rfl⟩
    · intro v hv; exact hsub v (by simp [hv])

/-! ### the walk of one stack balances -/

theorem walk_balance (nid : Nat → Nat → Nat → Nat) (vals : List Int) (j n : Nat) :
    ∀ (fr : List Nat) (parent d : Nat),
      fsum (walk nid vals parent d fr) (fun v => decide (v.node = n)) (vval j)
          + (if fr ≠ [] ∧ parent = n then vals.getD j 0 else 0)
        = fsum (walk nid vals parent d fr) (fun v => decide (v.node = n)) (vself j)
          + fsum (walk nid vals parent d fr) (fun v => decide (v.parent = n)) (vval j) := by
  intro fr
  induction fr with
  | nil => intro parent d; simp [walk]
  | cons f rest ih =>
    intro parent d
    have IH := ih (nid parent f d) (d + 1)
    simp only [walk, fsum_cons, vval, vself] at IH ⊢
    cases rest with
    | nil =>
      simp only [walk, fsum_nil] at IH ⊢
      by_cases h1 : nid parent f d = n <;> by_cases h2 : parent = n <;> simp [h1, h2]
    | cons g rest' =>
      by_cases h1 : nid parent f d = n <;> by_cases h2 : parent = n <;>
        simp [h1, h2] at IH ⊢ <;> omega

theorem walk_node_eq (nid : Nat → Nat → Nat → Nat) (vals : List Int) :
    ∀ (fr : List Nat) (parent d : Nat), ∀ v ∈ walk nid vals parent d fr,
      v.node = nid v.parent v.fn v.depth ∧ d ≤ v.depth ∧ v.vals = vals := by
  intro fr
  induction fr with
  | nil => intro _ _ v hv; simp [walk] at hv
  | cons f rest ih =>
    intro parent d v hv
    simp only [walk, List.mem_cons] at hv
    rcases hv with rfl | hv
    · exact ⟨rfl, Nat.le_refl _, rfl⟩
    · have := ih _ _ v hv
      exact ⟨this.1, by omega, this.2.2⟩

theorem walk_parent_zero_sum (nid : Nat → Nat → Nat → Nat) (vals : List Int) (j : Nat) (fr : List Nat) (d : Nat)
    (hnz : ∀ v ∈ walk nid vals 0 d fr, v.node ≠ 0) :
    fsum (walk nid vals 0 d fr) (fun v => decide (v.parent = 0)) (vval j)
      = if fr ≠ [] then vals.getD j 0 else 0 := by
  have hb := walk_balance nid vals j 0 fr 0 d
  have h0 : ∀ g, fsum (walk nid vals 0 d fr) (fun v => decide (v.node = 0)) g = 0 :=
    fun g => fsum_false g (fun v hv => by simpa using hnz v hv)
  rw [h0, h0] at hb
  simp only [and_true] at hb
  omega

/-! ### all samples -/

/-- the visits of the samples `ss` (any profile's, or several profiles' concatenated) -/
def visitsOf (nid : Nat → Nat → Nat → Nat) (keepEmpty : Bool) (naFn : Nat) (ss : List Sample) : List Visit :=
  ss.flatMap (sampleVisits nid keepEmpty naFn)

theorem visits_eq_visitsOf (nid : Nat → Nat → Nat → Nat) (k : Bool) (na : Nat) (P : Profile) :
    visits nid k na P = visitsOf nid k na P.samples := rfl

/-- **balance of the visits.** For every node id other than the root's 0: the weight entering it
    = the weight that stays (leaf visits) + the weight of the visits whose parent it is. -/
theorem visits_balance (nid : Nat → Nat → Nat → Nat) (k : Bool) (na : Nat) (ss : List Sample) (j n : Nat) (hn : n ≠ 0) :
    fsum (visitsOf nid k na ss) (fun v => decide (v.node = n)) (vval j)
      = fsum (visitsOf nid k na ss) (fun v => decide (v.node = n)) (vself j)
        + fsum (visitsOf nid k na ss) (fun v => decide (v.parent = n)) (vval j) := by
  induction ss with
  | nil => simp [visitsOf]
  | cons s ss ih =>
    simp only [visitsOf, List.flatMap_cons, fsum_append] at ih ⊢
    have hb := walk_balance nid s.vals j n (frames k na s) 0 1
    have : ¬ ((frames k na s) ≠ [] ∧ 0 = n) := fun h => hn h.2.symm
    rw [if_neg this] at hb
    simp only [sampleVisits]
    omega

/-- the weight of the visits under the root = the values of the samples that are walked at all -/
theorem visits_root (nid : Nat → Nat → Nat → Nat) (k : Bool) (na : Nat) (ss : List Sample) (j : Nat)
    (hnz : ∀ v ∈ visitsOf nid k na ss, v.node ≠ 0) :
    fsum (visitsOf nid k na ss) (fun v => decide (v.parent = 0)) (vval j)
      = (ss.map (fun s => if frames k na s ≠ [] then s.vals.getD j 0 else 0)).sum := by
  induction ss with
  | nil => simp [visitsOf]
  | cons s ss ih =>
    have hnz1 : ∀ v ∈ walk nid s.vals 0 1 (frames k na s), v.node ≠ 0 := fun v hv =>
      hnz v (by simp [visitsOf, sampleVisits, hv])
    have hnz2 : ∀ v ∈ visitsOf nid k na ss, v.node ≠ 0 := fun v hv =>
      hnz v (by simp only [visitsOf, List.flatMap_cons, List.mem_append]; exact Or.inr hv)
    simp only [visitsOf, List.flatMap_cons, fsum_append, List.map_cons, List.sum_cons] at ih ⊢
    rw [ih hnz2]
    simp only [sampleVisits]
    rw [walk_parent_zero_sum nid s.vals j _ 1 hnz1]

theorem visitsOf_node_eq (nid : Nat → Nat → Nat → Nat) (k : Bool) (na : Nat) (ss : List Sample) :
    ∀ v ∈ visitsOf nid k na ss, v.node = nid v.parent v.fn v.depth ∧ 1 ≤ v.depth := by
  intro v hv
  simp only [visitsOf, List.mem_flatMap, sampleVisits] at hv
  obtain ⟨s, _, hv⟩ := hv
  have := walk_node_eq nid s.vals _ 0 1 v hv
  exact ⟨this.1, this.2.1⟩

theorem visitsOf_append (nid : Nat → Nat → Nat → Nat) (k : Bool) (na : Nat) (a b : List Sample) :
    visitsOf nid k na (a ++ b) = visitsOf nid k na a ++ visitsOf nid k na b := by
  simp [visitsOf]

/-! ### stored rows -/

theorem insertDesc_perm (a : Node) (l : List Node) : (insertDesc a l).Perm (a :: l) := by
  induction l with
  | nil => exact List.Perm.refl _
  | cons b l ih =>
    simp only [insertDesc]
    split
    · exact List.Perm.refl _
    · exact (List.Perm.cons b ih).trans (List.Perm.swap a b l)

theorem sortRows_perm (m : List Node) : (sortRows m).Perm m := by
  induction m with
  | nil => exact List.Perm.refl _
  | cons a m ih => exact (insertDesc_perm a _).trans (List.Perm.cons a ih)

/-- the stored rows are in descending node-id order -/
theorem insertDesc_sorted (a : Node) (l : List Node) (h : l.Pairwise (fun x y => y.node ≤ x.node)) :
    (insertDesc a l).Pairwise (fun x y => y.node ≤ x.node) := by
  induction l with
  | nil => simp [insertDesc]
  | cons b l ih =>
    simp only [insertDesc]
    have hb := List.pairwise_cons.mp h
    split
    · rename_i hle
      refine List.pairwise_cons.mpr ⟨?_, h⟩
      intro y hy
      rcases List.mem_cons.mp hy with rfl | hy
      · exact hle
      · exact Nat.le_trans (hb.1 y hy) hle
    · rename_i hlt
      refine List.pairwise_cons.mpr ⟨?_, ih hb.2⟩
      intro y hy
      rcases List.mem_cons.mp ((insertDesc_perm a l).subset hy) with rfl | hy
      · omega
      · exact hb.1 y hy

theorem sortRows_sorted (m : List Node) : (sortRows m).Pairwise (fun x y => y.node ≤ x.node) := by
  induction m with
  | nil => simp [sortRows]
  | cons a m ih => exact insertDesc_sorted a _ ih

theorem storedRows_perm (nid : Nat → Nat → Nat → Nat) (k : Bool) (na : Nat) (P : Profile) :
    (storedRows nid k na P).Perm (treeMap P.ntypes (visits nid k na P)) := sortRows_perm _

theorem storedRows_nodup (nid : Nat → Nat → Nat → Nat) (k : Bool) (na : Nat) (P : Profile) :
    ((storedRows nid k na P).map (·.node)).Nodup :=
  ((storedRows_perm nid k na P).map _).nodup_iff.mpr (treeMap_nodup _ _)

end Qryn.Prof
