import Qryn.Base.Json
/-! Round trips of the two string writers through the string scanner. Core-only. -/
namespace Qryn.Json
open Qryn

/-! ### one step of the scanner -/
theorem parseStrP_plain (c : UInt8) (t acc : Bytes) (h32 : ¬ c < 32) (h34 : c ≠ 34) (h92 : c ≠ 92) :
    parseStrP none (c :: t) acc = parseStrP none t (acc ++ [c]) := by
  conv => lhs; unfold parseStrP
  simp [h34, h92, h32]

theorem parseStrP_quote (t acc : Bytes) : parseStrP none (34 :: t) acc = some (acc, t) := by
  conv => lhs; unfold parseStrP
  simp

theorem parseStrP_esc2 (e b : UInt8) (t acc : Bytes) (h : unesc e = some b) (he : e ≠ 117) :
    parseStrP none (92 :: e :: t) acc = parseStrP none t (acc ++ [b]) := by
  conv => lhs; unfold parseStrP
  simp [he, h]

theorem parseStrP_u (a b c d : UInt8) (u : Nat) (t acc : Bytes) (h : hex4 a b c d = some u)
    (hs : ¬ (0xD800 ≤ u ∧ u < 0xDC00)) :
    parseStrP none (92 :: 117 :: a :: b :: c :: d :: t) acc = parseStrP none t (acc ++ utf8enc u) := by
  conv => lhs; unfold parseStrP
  simp [h, hs]

/-- `\u00XX` reads back as the byte XX (for ASCII) -/
theorem u00_reads_back : ∀ c : UInt8, c < 128 →
    hex4 48 48 (hexLow (c.toNat / 16)) (hexLow (c.toNat % 16)) = some c.toNat ∧ utf8enc c.toNat = [c] := by
  apply forall_byte_of_lt
  decide +kernel

theorem parseStrP_u00 (c : UInt8) (hc : c < 128) (t acc : Bytes) :
    parseStrP none (u00 c ++ t) acc = parseStrP none t (acc ++ [c]) := by
  have ⟨h1, h2⟩ := u00_reads_back c hc
  have hs : ¬ (0xD800 ≤ c.toNat ∧ c.toNat < 0xDC00) := by
    have := UInt8.toNat_lt c; omega
  simp only [u00, List.cons_append, List.nil_append]
  rw [parseStrP_u _ _ _ _ _ _ _ h1 hs, h2]

/-! ### jsoniter WriteString -/
theorem escJByte_cases : ∀ c : UInt8,
    (escJByte c = [c] ∧ ¬ c < 32 ∧ c ≠ 34 ∧ c ≠ 92) ∨
    (escJByte c = [92, (escJByte c).getD 1 0] ∧ unesc ((escJByte c).getD 1 0) = some c ∧ (escJByte c).getD 1 0 ≠ 117) ∨
    (escJByte c = u00 c ∧ c < 128) := by
  apply forall_byte_of_lt
  decide +kernel

theorem parseStrP_escJByte (c : UInt8) (t acc : Bytes) :
    parseStrP none (escJByte c ++ t) acc = parseStrP none t (acc ++ [c]) := by
  rcases escJByte_cases c with ⟨h, h32, h34, h92⟩ | ⟨h, hu, he⟩ | ⟨h, hc⟩
  · rw [h]; exact parseStrP_plain c t acc h32 h34 h92
  · rw [h]; exact parseStrP_esc2 _ c t acc hu he
  · rw [h]; exact parseStrP_u00 c hc t acc

theorem parseStrP_escJ (s t acc : Bytes) :
    parseStrP none (escJ s ++ t) acc = parseStrP none t (acc ++ s) := by
  induction s generalizing acc with
  | nil => simp [escJ]
  | cons c s ih =>
    have : escJ (c :: s) = escJByte c ++ escJ s := by simp [escJ]
    rw [this, List.append_assoc, parseStrP_escJByte, ih]
    simp

/-- **jsoniter `WriteString` round trip**: for *every* byte string `s` (control bytes, quotes, backslashes,
    DEL, bytes ≥ 0x80 whether or not they form UTF-8), scanning the text `"…"` that `WriteString(s)` produces
    yields exactly the bytes of `s` and stops right after the closing quote. -/
theorem parseStrBody_jstr (s rest : Bytes) : parseStrBody (escJ s ++ 34 :: rest) [] = some (s, rest) := by
  simp [parseStrBody, parseStrP_escJ, parseStrP_quote]

/-! ### encoding/json -/
theorem escStdAscii_cases : ∀ c : UInt8, c < 128 →
    (escStdAscii c = [c] ∧ ¬ c < 32 ∧ c ≠ 34 ∧ c ≠ 92) ∨
    (escStdAscii c = [92, (escStdAscii c).getD 1 0] ∧ unesc ((escStdAscii c).getD 1 0) = some c ∧ (escStdAscii c).getD 1 0 ≠ 117) ∨
    (escStdAscii c = u00 c) := by
  apply forall_byte_of_lt
  decide +kernel

theorem parseStrP_escStdAscii (c : UInt8) (hc : c < 128) (t acc : Bytes) :
    parseStrP none (escStdAscii c ++ t) acc = parseStrP none t (acc ++ [c]) := by
  rcases escStdAscii_cases c hc with ⟨h, h32, h34, h92⟩ | ⟨h, hu, he⟩ | h
  · rw [h]; exact parseStrP_plain c t acc h32 h34 h92
  · rw [h]; exact parseStrP_esc2 _ c t acc hu he
  · rw [h]; exact parseStrP_u00 c hc t acc

/-- a run of bytes ≥ 0x80 is copied by the scanner -/
theorem parseStrP_high (sq t acc : Bytes) (h : ∀ c ∈ sq, 128 ≤ c) :
    parseStrP none (sq ++ t) acc = parseStrP none t (acc ++ sq) := by
  induction sq generalizing acc with
  | nil => simp
  | cons c sq ih =>
    have hc : (128 : UInt8) ≤ c := h c (by simp)
    have h32 : ¬ c < 32 := by
      intro h'; have := UInt8.lt_iff_toNat_lt.mp h'; have := UInt8.le_iff_toNat_le.mp hc; simp at *; omega
    have h34 : c ≠ 34 := by intro h'; subst h'; exact absurd hc (by decide)
    have h92 : c ≠ 92 := by intro h'; subst h'; exact absurd hc (by decide)
    rw [List.cons_append, parseStrP_plain c _ acc h32 h34 h92, ih _ (fun x hx => h x (by simp [hx]))]
    simp


theorem le_of_isCont {c : UInt8} (h : isCont c = true) : (128 : UInt8) ≤ c := by
  simp [isCont] at h; exact h.1

theorem is2_high {c0 c1 : UInt8} (h : is2 c0 c1 = true) : (128 : UInt8) ≤ c0 ∧ (128 : UInt8) ≤ c1 := by
  simp only [is2, Bool.and_eq_true, decide_eq_true_eq] at h
  exact ⟨UInt8.le_trans (by decide) h.1.1, le_of_isCont h.2⟩

theorem lo3_high (c : UInt8) : (128 : UInt8) ≤ lo3 c := by unfold lo3; split <;> decide
theorem lo4_high (c : UInt8) : (128 : UInt8) ≤ lo4 c := by unfold lo4; split <;> decide

theorem is3_high {c0 c1 c2 : UInt8} (h : is3 c0 c1 c2 = true) :
    (128 : UInt8) ≤ c0 ∧ (128 : UInt8) ≤ c1 ∧ (128 : UInt8) ≤ c2 := by
  simp only [is3, Bool.and_eq_true, decide_eq_true_eq] at h
  exact ⟨UInt8.le_trans (by decide) h.1.1.1.1, UInt8.le_trans (lo3_high c0) h.1.1.2, le_of_isCont h.2⟩

theorem is4_high {c0 c1 c2 c3 : UInt8} (h : is4 c0 c1 c2 c3 = true) :
    (128 : UInt8) ≤ c0 ∧ (128 : UInt8) ≤ c1 ∧ (128 : UInt8) ≤ c2 ∧ (128 : UInt8) ≤ c3 := by
  simp only [is4, Bool.and_eq_true, decide_eq_true_eq] at h
  exact ⟨UInt8.le_trans (by decide) h.1.1.1.1.1, UInt8.le_trans (lo4_high c0) h.1.1.1.2,
    le_of_isCont h.1.2, le_of_isCont h.2⟩

/-- every byte of a well-formed multi-byte sequence is ≥ 0x80, and the sequence is present in full -/
theorem utf8Len_high (s : Bytes) (hn : utf8Len s ≠ 0) :
    (∀ x ∈ s.take (utf8Len s), (128 : UInt8) ≤ x) ∧ utf8Len s ≤ s.length ∧ 2 ≤ utf8Len s := by
  match s with
  | [] => simp [utf8Len] at hn
  | [_] => simp [utf8Len] at hn
  | [c0, c1] =>
    simp only [utf8Len] at hn ⊢
    split at hn
    · rename_i h; simp only [h, if_true]
      have := is2_high h
      refine ⟨?_, by simp, by omega⟩
      intro x hx; simp at hx; rcases hx with rfl | rfl <;> simp [this]
    · simp at hn
  | [c0, c1, c2] =>
    simp only [utf8Len] at hn ⊢
    split at hn
    · rename_i h; simp only [h, if_true]
      have := is2_high h
      refine ⟨?_, by simp, by omega⟩
      intro x hx; simp at hx; rcases hx with rfl | rfl <;> simp [this]
    · rename_i h2
      split at hn
      · rename_i h; simp only [h2, h, if_true]
        have := is3_high h
        refine ⟨?_, by simp, by simp⟩
        intro x hx; simp at hx; rcases hx with rfl | rfl | rfl <;> simp [this]
      · simp at hn
  | c0 :: c1 :: c2 :: c3 :: rest =>
    simp only [utf8Len] at hn ⊢
    split at hn
    · rename_i h; simp only [h, if_true]
      have := is2_high h
      refine ⟨?_, by simp, by omega⟩
      intro x hx; simp at hx; rcases hx with rfl | rfl <;> simp [this]
    · rename_i h2
      split at hn
      · rename_i h; simp only [h2, h, if_true]
        have := is3_high h
        refine ⟨?_, by simp, by simp⟩
        intro x hx; simp at hx; rcases hx with rfl | rfl | rfl <;> simp [this]
      · rename_i h3
        split at hn
        · rename_i h; simp only [h2, h3, h, if_true]
          have := is4_high h
          refine ⟨?_, by simp, by simp⟩
          intro x hx; simp at hx; rcases hx with rfl | rfl | rfl | rfl <;> simp [this]
        · simp at hn

/-- one step of `appendString`: the bytes it writes are read back as the bytes it stands for -/
theorem parseStrP_stdStep (c : UInt8) (r t acc : Bytes) :
    parseStrP none ((stdStep (c :: r)).1 ++ t) acc = parseStrP none t (acc ++ (stdStep (c :: r)).2.1) := by
  simp only [stdStep]
  split
  · rename_i hc; exact parseStrP_escStdAscii c hc t acc
  · split
    · exact parseStrP_u 102 102 102 100 0xFFFD t acc (by decide) (by decide)
    · rename_i hc hn
      split
      · rename_i h
        simp only [h]
        exact parseStrP_u 50 48 50 56 0x2028 t acc (by decide) (by decide)
      · split
        · rename_i h
          simp only [h]
          exact parseStrP_u 50 48 50 57 0x2029 t acc (by decide) (by decide)
        · exact parseStrP_high _ t acc (utf8Len_high (c :: r) hn).1

theorem stdStep_consumed (c : UInt8) (r : Bytes) :
    1 ≤ (stdStep (c :: r)).2.2 := by
  simp only [stdStep]
  split
  · simp
  · split
    · simp
    · rename_i hn
      split
      · simp
      · split
        · simp
        · have := (utf8Len_high (c :: r) hn).2.2
          simp only; omega

theorem parseStrP_escStdF (f : Nat) (s t acc : Bytes) (hf : s.length ≤ f) :
    parseStrP none (escStdF f s ++ t) acc = parseStrP none t (acc ++ sanitizeF f s) := by
  induction f generalizing s acc with
  | zero =>
    have : s = [] := List.eq_nil_of_length_eq_zero (by omega)
    subst this; simp [escStdF, sanitizeF]
  | succ f ih =>
    match s with
    | [] => simp [escStdF, sanitizeF]
    | c :: r =>
      have h1 := parseStrP_stdStep c r
      have h2 := stdStep_consumed c r
      simp only [escStdF, sanitizeF]
      generalize stdStep (c :: r) = st at h1 h2 ⊢
      obtain ⟨o, m, n⟩ := st
      simp only at h1 h2 ⊢
      rw [List.append_assoc, h1, ih, List.append_assoc]
      simp only [List.length_drop, List.length_cons] at hf ⊢
      omega

/-- **encoding/json round trip**: for every byte string `s`, scanning the text `json.Marshal(s)` writes
    yields `sanitize s` — `s` itself with each byte that is not part of a well-formed UTF-8 sequence replaced
    by U+FFFD — and stops right after the closing quote. -/
theorem parseStrBody_stdstr (s rest : Bytes) :
    parseStrBody (escStd s ++ 34 :: rest) [] = some (sanitize s, rest) := by
  simp [parseStrBody, escStd, sanitize, parseStrP_escStdF _ s _ _ (Nat.le_refl _), parseStrP_quote]

theorem sanitizeF_valid (f : Nat) (s : Bytes) (hf : s.length ≤ f) (hv : validUtf8F f s = true) :
    sanitizeF f s = s := by
  induction f generalizing s with
  | zero =>
    have : s = [] := List.eq_nil_of_length_eq_zero (by omega)
    subst this; simp [sanitizeF]
  | succ f ih =>
    match s with
    | [] => simp [sanitizeF]
    | c :: r =>
      simp only [validUtf8F] at hv
      simp only [sanitizeF, stdStep]
      split at hv
      · rename_i hc
        simp only [hc, if_true, List.drop_succ_cons, List.drop_zero, List.singleton_append]
        rw [ih r (by simpa using hf) hv]
      · rename_i hc
        simp only [Bool.and_eq_true, bne_iff_ne, ne_eq, decide_eq_true_eq, decide_not, Bool.not_eq_eq_eq_not,
          Bool.not_true] at hv
        have hn : utf8Len (c :: r) ≠ 0 := by simpa using hv.1
        have h2 := (utf8Len_high (c :: r) hn).2.2
        simp only [hc, if_false, hn]
        have hrec := ih ((c :: r).drop (utf8Len (c :: r))) (by simp only [List.length_drop, List.length_cons] at hf ⊢; omega) hv.2
        split
        · rename_i h
          have h3 : utf8Len (c :: r) = 3 := by
            have := congrArg List.length h
            have hl := (utf8Len_high (c :: r) hn).2.1
            simp only [List.length_take, List.length_cons, List.length_nil] at this hl ⊢
            omega
          simp only
          rw [h3] at hrec
          rw [hrec, h3, List.take_append_drop]
        · split
          · rename_i h
            have h3 : utf8Len (c :: r) = 3 := by
              have := congrArg List.length h
              have hl := (utf8Len_high (c :: r) hn).2.1
              simp only [List.length_take, List.length_cons, List.length_nil] at this hl ⊢
              omega
            simp only
            rw [h3] at hrec
            rw [hrec, h3, List.take_append_drop]
          · simp only
            rw [hrec, List.take_append_drop]

/-- on valid UTF-8 `json.Marshal` is lossless -/
theorem sanitize_valid (s : Bytes) (h : validUtf8 s = true) : sanitize s = s :=
  sanitizeF_valid _ s (Nat.le_refl _) h

end Qryn.Json
