import Qryn.Proofs.Migrate
/-! The calls of a start form a path: every call is issued in the state the previous call left, the first in the
    start state, and the start's result is what the last call left (`Path`). Consequence used by the cluster model:
    the state right after any successful call of a start is again one of the states the start can be stopped in
    (`post_mem_points`). For an arbitrary program. -/
set_option linter.unusedSimpArgs false
namespace Qryn.Ctrl.Migrate

/-- the database right after a call, `none` if the call fails -/
def post (d : Db) : Call → Option Db
  | .boot s => match exec d.cat s with
    | .ok c => some ⟨c, d.vers⟩
    | .error _ => none
  | .query _ => some d
  | .script _ _ s => match exec d.cat s with
    | .ok c => some ⟨c, d.vers⟩
    | .error _ => none
  | .record k v => some ⟨d.cat, d.vers ++ [(k, v)]⟩

def toO {α : Type} : Except Err α → Option α
  | .ok a => some a
  | .error _ => none

inductive Path : Db → List Step → Option Db → Prop
  | nil (d : Db) : Path d [] (some d)
  | fail (d : Db) (c : Call) (h : post d c = none) : Path d [(d, c)] none
  | cons (d : Db) (c : Call) (d' : Db) (r : List Step) (e : Option Db) (h : post d c = some d') (p : Path d' r e) :
      Path d ((d, c) :: r) e

theorem path_append {d m : Db} {A B : List Step} {e : Option Db} (hA : Path d A (some m)) (hB : Path m B e) :
    Path d (A ++ B) e := by
  generalize hs : some m = sm at hA
  induction hA with
  | nil d => cases hs; simpa using hB
  | fail d c h => cases hs
  | cons d c d' r e' h p ih => exact .cons d c d' (r ++ B) e h (ih hs)

theorem path_boot (vs : List (Nat × Nat)) : ∀ (B : List Stmt) (c : Cat),
    Path ⟨c, vs⟩ (bootSteps vs B c) ((toO (execAll B c)).map (fun c' => ⟨c', vs⟩)) := by
  intro B
  induction B with
  | nil => intro c; exact .nil _
  | cons s r ih =>
    intro c
    simp only [bootSteps, execAll]
    cases he : exec c s with
    | error e => simp only [toO, Option.map]; exact .fail _ _ (by simp [post, he])
    | ok c' => simp only []; exact .cons _ _ ⟨c', vs⟩ _ _ (by simp [post, he]) (ih c')

theorem path_loop (k : Nat) : ∀ (l : List Stmt) (i : Nat) (d : Db),
    Path d (loopSteps k l i d) (toO (loopRun k l i d)) := by
  intro l
  induction l with
  | nil => intro i d; exact .nil _
  | cons s r ih =>
    intro i d
    simp only [loopSteps, loopRun]
    cases he : exec d.cat s with
    | error e => simp only [toO]; exact .fail _ _ (by simp [post, he])
    | ok c' =>
      simp only []
      refine .cons _ _ ⟨c', d.vers⟩ _ _ (by simp [post, he]) ?_
      exact .cons _ _ ⟨c', d.vers ++ [(k, i + 1)]⟩ _ _ (by simp [post]) (ih (i + 1) _)

theorem path_phase (ph : Phase) (db : Db) : Path db (phaseSteps ph db) (toO (phaseRun ph db)) := by
  have hb := path_boot db.vers ph.boot db.cat
  simp only [phaseSteps, phaseRun]
  cases he : execAll ph.boot db.cat with
  | error e =>
    rw [he] at hb; simp only [toO, Option.map] at hb ⊢
    simpa using hb
  | ok c =>
    rw [he] at hb; simp only [toO, Option.map] at hb
    cases hs : ph.scripts with
    | none => simp only [List.append_nil]; exact hb
    | some p =>
      obtain ⟨k, ss⟩ := p
      simp only []
      refine path_append hb ?_
      exact .cons _ _ ⟨c, db.vers⟩ _ _ (by simp [post]) (path_loop k _ _ _)

theorem path_steps : ∀ (P : List Phase) (db : Db), Path db (steps P db) (toO (run P db)) := by
  intro P
  induction P with
  | nil => intro db; exact .nil _
  | cons ph r ih =>
    intro db
    have hp := path_phase ph db
    simp only [steps, run]
    cases he : phaseRun ph db with
    | error e => rw [he] at hp; simp only [toO] at hp ⊢; simpa using hp
    | ok d => rw [he] at hp; simp only [toO] at hp; exact path_append hp (ih d)

theorem path_mem {d : Db} {L : List Step} {e : Option Db} (hp : Path d L e) :
    ∀ x c x', (x, c) ∈ L → post x c = some x' → x' ∈ L.map (·.1) ∨ e = some x' := by
  induction hp with
  | nil d => intro x c x' h; cases h
  | fail d c h =>
    intro x c' x' hm hpost
    simp only [List.mem_singleton, Prod.mk.injEq] at hm
    obtain ⟨rfl, rfl⟩ := hm
    rw [h] at hpost; cases hpost
  | cons d c d' r e h p ih =>
    intro x c' x' hm hpost
    rcases List.mem_cons.mp hm with hm | hm
    · simp only [Prod.mk.injEq] at hm
      obtain ⟨rfl, rfl⟩ := hm
      rw [h] at hpost; cases hpost
      cases p with
      | nil _ => right; rfl
      | fail _ c2 _ => left; simp
      | cons _ c2 _ _ _ _ _ => left; simp
    · rcases ih x c' x' hm hpost with h1 | h1
      · left; simp only [List.map_cons, List.mem_cons]; right; exact h1
      · right; exact h1

theorem path_head {d : Db} {L : List Step} {e : Option Db} (hp : Path d L e) :
    d ∈ L.map (·.1) ∨ e = some d := by
  cases hp with
  | nil _ => right; rfl
  | fail _ _ _ => left; simp
  | cons _ _ _ _ _ _ _ => left; simp

/-- the state right after a successful call of a start is a state the start can be stopped in -/
theorem post_mem_points (P : List Phase) (db : Db) (x x' : Db) (c : Call) (hm : (x, c) ∈ steps P db)
    (hpost : post x c = some x') : x' ∈ points P db := by
  have hp := path_steps P db
  rcases path_mem hp x c x' hm hpost with h | h
  · simp only [points, states, List.mem_append]; left; exact h
  · simp only [points, List.mem_append]; right
    cases hr : run P db with
    | error e => rw [hr] at h; simp [toO] at h
    | ok fin => rw [hr] at h; simp only [toO, Option.some.injEq] at h; subst h; simp

theorem state_mem_points (P : List Phase) (db : Db) (x : Db) (c : Call) (hm : (x, c) ∈ steps P db) :
    x ∈ points P db := by
  simp only [points, states, List.mem_append, List.mem_map]
  left; exact ⟨(x, c), hm, rfl⟩

/-- the start state itself is one of them (when the start succeeds) -/
theorem start_mem_points (P : List Phase) (db fin : Db) (h : run P db = .ok fin) : db ∈ points P db := by
  have hp := path_steps P db
  rcases path_head hp with h1 | h1
  · simp only [points, states, List.mem_append]; left; exact h1
  · rw [h] at h1; simp only [toO, Option.some.injEq] at h1; subst h1
    simp [points, h]

theorem fin_mem_points (P : List Phase) (db fin : Db) (h : run P db = .ok fin) : fin ∈ points P db := by
  simp [points, h]

/-- the points of `ph :: r` contain the points of `r` started where `ph` ends -/
theorem points_cons_sub (ph : Phase) (r : List Phase) (db d : Db) (h : phaseRun ph db = .ok d) :
    ∀ x ∈ points r d, x ∈ points (ph :: r) db := by
  intro x hx
  simp only [points, states, steps, run, h, List.map_append, List.mem_append] at hx ⊢
  rcases hx with hx | hx
  · left; right; exact hx
  · right; exact hx

end Qryn.Ctrl.Migrate
