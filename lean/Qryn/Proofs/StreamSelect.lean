import Qryn.LogQL.Sem
import Qryn.Proofs.SqlSemLemmas
import Qryn.Proofs.Bits
/-! The stream-selector sub-query selects the fingerprints of `streamSelected`. -/
namespace Qryn.LogQL
open Qryn Qryn.Sql

/-! ### table lookups -/
theorem toDb_samples (d : LokiDb) (c : Ctx) : d.toDb c c.samplesTable = d.samples.map Sample.row := by
  simp [LokiDb.toDb]
theorem toDb_gin (d : LokiDb) (c : Ctx) (hn : c.namesOk) : d.toDb c c.ginTable = d.gin.map GinRow.row := by
  obtain ⟨h1, -, -, -, -⟩ := hn
  simp [LokiDb.toDb, Ne.symm h1]
theorem toDb_ts (d : LokiDb) (c : Ctx) (hn : c.namesOk) : d.toDb c c.tsTable = d.ts.map TsRow.row := by
  obtain ⟨-, h2, -, h4, -⟩ := hn
  simp [LokiDb.toDb, Ne.symm h2, Ne.symm h4]
theorem toDb_tsDist (d : LokiDb) (c : Ctx) (hn : c.namesOk) : d.toDb c c.tsDistTable = d.ts.map TsRow.row := by
  obtain ⟨-, -, h3, -, h5⟩ := hn
  simp [LokiDb.toDb, Ne.symm h3, Ne.symm h5]

/-! ### columns of an index row -/
@[simp] theorem gin_date (g : GinRow) : Row.get g.row "date" = .str g.date := by simp [Row.get, GinRow.row]
@[simp] theorem gin_key (g : GinRow) : Row.get g.row "key" = .str g.key := by simp [Row.get, GinRow.row, List.lookup]
@[simp] theorem gin_val (g : GinRow) : Row.get g.row "val" = .str g.val := by simp [Row.get, GinRow.row, List.lookup]
@[simp] theorem gin_type (g : GinRow) : Row.get g.row "type" = .int g.tp := by simp [Row.get, GinRow.row, List.lookup]
@[simp] theorem gin_fp (g : GinRow) : Row.get g.row "fingerprint" = .int g.fp := by simp [Row.get, GinRow.row, List.lookup]

theorem getTypes_eval (o : Oracles) (env : Env) (r : Row) (c : Ctx) (tp : Int) (h : r.get "type" = .int tp) :
    evalB o env r (getTypes c) = typeOk c tp := by
  simp only [getTypes, evalB_isIn_ints, evalE_raw, h, int_beq, typeOk]

theorem matcherClause_eval (o : Oracles) (env : Env) (g : GinRow) (m : Matcher) :
    evalB o env g.row (matcherClause m) = matcherHolds o m g.key g.val := by
  unfold matcherClause matcherHolds
  cases m.op <;>
    simp [evalE_matchFn o env g.row (.raw "val") m.val g.val (by simp)]

theorem streamWhere_eval (o : Oracles) (env : Env) (c : Ctx) (ms : List Matcher) (g : GinRow) :
    evalB o env g.row (and_ [ge (.raw "date") (.str (Time.formatFromDate c.fromNs)), getTypes c,
        or_ (ms.map matcherClause)])
      = (ginAdmissible c g && ms.any (fun m => matcherHolds o m g.key g.val)) := by
  simp [evalAny_map, matcherClause_eval, getTypes_eval o env g.row c g.tp, ginAdmissible, fromDate,
    Bool.and_assoc]
  rfl


theorem getD_map_clauses (o : Oracles) (env : Env) (g : GinRow) (ms : List Matcher) (i : Nat) :
    ((ms.map matcherClause).map (evalB o env g.row)).getD i false
      = (match ms[i]? with | some m => matcherHolds o m g.key g.val | none => false) := by
  simp only [List.getD, List.getElem?_map]
  cases h : ms[i]? with
  | none => simp
  | some m => simp [matcherClause_eval]

theorem int_pow_sub_one (N n : Nat) : (((N : Int) == (2 : Int) ^ n - 1) = true) ↔ N = 2 ^ n - 1 := by
  have h1 : 1 ≤ 2 ^ n := Nat.one_le_two_pow
  have h2 : ((2 : Int) ^ n) = ((2 ^ n : Nat) : Int) := by simp
  rw [beq_iff_eq, h2]
  omega

theorem streamSelect_eval' (o : Oracles) (c : Ctx) (hn : c.namesOk) (d : LokiDb) (ms : List Matcher)
    (hm : ms.length ≤ 63) (env : Env) (v : Val) :
    v ∈ firstCol (evalBody o (d.toDb c) env (streamSelect c ms)) ↔
      ∃ fp, v = .int fp ∧ streamSelected o c d ms fp = true := by
  unfold streamSelect
  rw [evalBody_group]
  simp only [firstCol_map_single, sourceRows, toDb_gin d c hn, optB, Bool.true_and, List.filter_map, List.map_map,
    List.mem_filter, distinctVals, List.mem_eraseDups, List.mem_map, evalHaving_bits, Function.comp_def,
    streamWhere_eval, evalE_raw, gin_fp, int_pow_sub_one]
  have hlen : ∀ (fp : Int), ∀ r ∈ (List.map (fun (x : GinRow) => List.map (fun x_1 => evalB o env x.row (matcherClause x_1)) ms)
                (List.filter (fun x => Val.int x.fp == Val.int fp)
                  (List.filter (fun x => ginAdmissible c x && ms.any fun m => matcherHolds o m x.key x.val) d.gin))),
        r.length = (List.map matcherClause ms).length := by
    intro fp r hr; simp only [List.mem_map] at hr; obtain ⟨g, _, rfl⟩ := hr; simp
  have hb := fun fp => having_all_bits (List.map matcherClause ms).length (by simp; omega) _ (hlen fp)
  constructor
  · rintro ⟨⟨g, ⟨hg, hw⟩, rfl⟩, hh⟩
    refine ⟨g.fp, rfl, ?_⟩
    rw [hb g.fp] at hh
    simp only [Bool.and_eq_true] at hw
    unfold streamSelected
    simp only [Bool.and_eq_true, List.any_eq_true, List.all_eq_true, beq_iff_eq]
    refine ⟨⟨g, hg, ⟨rfl, hw.1⟩, List.any_eq_true.mp hw.2⟩, ?_⟩
    intro m hmm
    obtain ⟨i, hi, hmi⟩ := List.getElem_of_mem hmm
    obtain ⟨r, hrmem, hbit⟩ := hh i (by simpa using hi)
    simp only [List.mem_map, List.mem_filter, int_beq, beq_iff_eq, Bool.and_eq_true] at hrmem
    obtain ⟨g', ⟨⟨hg', hw'⟩, hf'⟩, rfl⟩ := hrmem
    have := getD_map_clauses o env g' ms i
    simp only [List.map_map, Function.comp_def] at this
    rw [this, List.getElem?_eq_getElem hi, hmi] at hbit
    exact ⟨g', hg', ⟨hf', hw'.1⟩, hbit⟩
  · rintro ⟨fp, rfl, hs⟩
    unfold streamSelected at hs
    simp only [Bool.and_eq_true, List.any_eq_true, List.all_eq_true, beq_iff_eq] at hs
    obtain ⟨⟨g, hg, ⟨hfp, hadm⟩, hany⟩, hall⟩ := hs
    refine ⟨⟨g, ⟨hg, ?_⟩, by rw [hfp]⟩, ?_⟩
    · simp only [Bool.and_eq_true]; exact ⟨hadm, List.any_eq_true.mpr hany⟩
    · rw [hb fp]
      intro i hi
      have hi' : i < ms.length := by simpa using hi
      obtain ⟨g', hg', ⟨hf', hadm'⟩, hsat'⟩ := hall ms[i] (List.getElem_mem hi')
      refine ⟨List.map (fun x_1 => evalB o env g'.row (matcherClause x_1)) ms, ?_, ?_⟩
      · simp only [List.mem_map, List.mem_filter, int_beq, beq_iff_eq, Bool.and_eq_true]
        exact ⟨g', ⟨⟨hg', hadm', List.any_eq_true.mpr ⟨ms[i], List.getElem_mem hi', hsat'⟩⟩, hf'⟩, rfl⟩
      · have := getD_map_clauses o env g' ms i
        simp only [List.map_map, Function.comp_def] at this
        rw [this, List.getElem?_eq_getElem hi']
        exact hsat'

end Qryn.LogQL
