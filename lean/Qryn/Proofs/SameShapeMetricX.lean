import Qryn.LogQL.SameShapeMetricX
import Qryn.Proofs.SameShapeMetric
/-! C10, two requests of the same shape for the extended metric planner: `shapeS (planMetricX c q) = shapeS (planMetricX c q.skel)`
    — the planner of the labelled path (`| json`, `| regexp`, `| drop` inside a metric selector, `quantile_over_time`) looks at
    a query only through its skeleton; the contents of leaves end up in string leaves only. -/
namespace Qryn.LogQL
open Qryn Qryn.Sql

/-! ### the label-rewriting stages and the filters after them -/

theorem shapeJArg_idem (a : JArg) : shapeJArg (shapeJArg a) = shapeJArg a := by cases a <;> rfl

theorem dropSkel_idem (p : Bytes × Bytes) :
    (([] : Bytes), if (if p.2.isEmpty then ([] : Bytes) else [0]).isEmpty then ([] : Bytes) else [0]) =
      (([] : Bytes), if p.2.isEmpty then ([] : Bytes) else [0]) := by
  cases h : p.2.isEmpty <;> simp

theorem shapeE_chExpr : ∀ (cs : List Changer) (rid : Nat) (base base' : Expr), shapeE base = shapeE base' →
    shapeE (chExpr rid base cs).1 = shapeE (chExpr rid base' (cs.map Changer.skel)).1 ∧
    (chExpr rid base cs).2 = (chExpr rid base' (cs.map Changer.skel)).2
  | [], _, _, _, h => ⟨h, rfl⟩
  | .json ps :: rest, rid, base, base', h => by
    simp only [List.map_cons, Changer.skel, chExpr]
    apply shapeE_chExpr rest
    simp [shapeE, shapeEs, h, List.map_map, Function.comp_def, shapeJArg_idem]
  | .regexp names re :: rest, rid, base, base', h => by
    simp only [List.map_cons, Changer.skel, chExpr]
    apply shapeE_chExpr rest
    simp [shapeE, shapeEs, h, List.map_map, Function.comp_def]
  | .drop ps :: rest, rid, base, base', h => by
    simp only [List.map_cons, Changer.skel, chExpr]
    apply shapeE_chExpr rest
    simp only [shapeE, h, List.map_map, Function.comp_def, dropSkel_idem]

theorem shapeE_stageClause (s : Stage) : shapeE (stageClause s) = shapeE (stageClause s.skel) := by
  cases s with
  | line f => exact shapeE_lineClause f
  | label lc => exact shapeE_labelCondSql _ lc

theorem shapeEs_stageClauses (fs : List Stage) :
    shapeEs (fs.map stageClause) = shapeEs ((fs.map Stage.skel).map stageClause) := by
  simp only [shapeEs_eq_map, List.map_map]
  exact List.map_congr_left (fun s _ => shapeE_stageClause s)

def Run.skel : Run → Run
  | .ch cs => .ch (cs.map Changer.skel)
  | .fl fs => .fl (fs.map Stage.skel)

theorem shapeS_runSel (c : Ctx) (src : Option Nat) (rid : Nat) (r : Run) (ob : List Expr) (lim : Option Expr) :
    shapeS (runSel c src rid r ob lim).1 = shapeS (runSel c src rid r.skel ob lim).1 ∧
    (runSel c src rid r ob lim).2 = (runSel c src rid r.skel ob lim).2 := by
  cases src with
  | none =>
    cases r with
    | ch cs =>
      have h := shapeE_chExpr cs rid (.raw "_time_series.labels") (.raw "_time_series.labels") rfl
      simp only [runSel, Run.skel]
      exact ⟨by simp only [shapeS, shapeEs, shapeE, h.1], h.2⟩
    | fl fs =>
      have h := shapeEs_stageClauses fs
      simp only [runSel, Run.skel]
      exact ⟨by simp only [shapeS, shapeO, and_, shapeE, h], trivial⟩
  | some k =>
    cases r with
    | ch cs =>
      have h := shapeE_chExpr cs rid (.raw "samples.labels") (.raw "samples.labels") rfl
      simp only [runSel, Run.skel]
      exact ⟨by simp only [shapeS, shapeEs, shapeE, h.1], h.2⟩
    | fl fs =>
      have h := shapeEs_stageClauses fs
      simp only [runSel, Run.skel]
      exact ⟨by simp only [shapeS, shapeO, and_, shapeE, h], trivial⟩

theorem consCh_skel (c : Changer) (rs : List Run) : consCh c.skel (rs.map Run.skel) = (consCh c rs).map Run.skel := by
  cases rs with
  | nil => rfl
  | cons r rs => cases r <;> simp [consCh, Run.skel]

theorem consFl_skel (s : Stage) (rs : List Run) : consFl s.skel (rs.map Run.skel) = (consFl s rs).map Run.skel := by
  cases rs with
  | nil => rfl
  | cons r rs => cases r <;> simp [consFl, Run.skel]

theorem groupRuns_skel : ∀ ss : List StageX, groupRuns (ss.map StageX.skel) = (groupRuns ss).map Run.skel
  | [] => rfl
  | .ch c :: rest => by simp only [List.map_cons, StageX.skel, groupRuns, groupRuns_skel rest, consCh_skel]
  | .fl s :: rest => by simp only [List.map_cons, StageX.skel, groupRuns, groupRuns_skel rest, consFl_skel]

theorem runsM_skel (post : List StageX) (uw : Bool) : runsM (post.map StageX.skel) uw = (runsM post uw).map Run.skel := by
  unfold runsM
  simp only [groupRuns_skel]
  cases uw
  · simp
  · simp only [if_true, List.getLast?_map]
    cases (groupRuns post).getLast? with
    | none => simp [Run.skel]
    | some r => cases r <;> simp [Run.skel]

theorem shapeS_runSelM (c : Ctx) (src : Option Nat) (rid : Nat) (r : Run) :
    shapeS (runSelM c src rid r).1 = shapeS (runSelM c src rid r.skel).1 ∧
    (runSelM c src rid r).2 = (runSelM c src rid r.skel).2 := by
  cases src with
  | none => simp only [runSelM]; exact shapeS_runSel c none rid r [] none
  | some k =>
    cases r with
    | ch cs => simp only [runSelM, Run.skel]; exact shapeS_runSel c (some k) rid (.ch cs) [] none
    | fl fs =>
      cases fs with
      | nil => exact ⟨rfl, rfl⟩
      | cons f fs => simp only [runSelM, Run.skel, List.map_cons]; exact shapeS_runSel c (some k) rid (.fl (f :: fs)) [] none

theorem shape_planRunsM (c : Ctx) : ∀ (rs : List Run) (src : Option Nat) (id rid : Nat),
    shapeWs (planRunsM c src id rid rs).1 = shapeWs (planRunsM c src id rid (rs.map Run.skel)).1 ∧
    shapeS (planRunsM c src id rid rs).2.1 = shapeS (planRunsM c src id rid (rs.map Run.skel)).2.1 ∧
    (planRunsM c src id rid rs).2.2 = (planRunsM c src id rid (rs.map Run.skel)).2.2
  | [], _, _, _ => ⟨rfl, rfl, rfl⟩
  | [r], src, id, rid => by
    simp only [List.map_cons, List.map_nil, planRunsM, shapeWs]
    exact ⟨trivial, (shapeS_runSelM c src rid r).1, trivial⟩
  | r :: r' :: rest, src, id, rid => by
    have h := shapeS_runSelM c src rid r
    have ih := shape_planRunsM c (r' :: rest) (some (id + 1)) (id + 1) (runSelM c src rid r).2
    simp only [List.map_cons] at ih ⊢
    simp only [planRunsM, shapeWs, ← h.2, h.1, ih.1, ih.2.1, ih.2.2, and_self]

/-! ### the samples side -/

theorem shapeWs_fpWithsM (c : Ctx) (q : LogQuery) : shapeWs (fpWithsM c q) = shapeWs (fpWithsM c q.skel) := by
  have h := shapeS_fpQuery c q
  unfold fpWithsM fpWith
  rw [shapeWs_append, shapeWs_append, ← shapeS_withs, ← shapeS_withs, h]
  simp only [shapeWs, h]

theorem shapeS_mainOrdered (c : Ctx) (q : LogQuery) : shapeS (mainOrdered c q) = shapeS (mainOrdered c q.skel) := by
  unfold mainOrdered
  rw [shapeS_setOrderBy, shapeS_setOrderBy, shapeS_samplesMain c q]

theorem label?_skel (k : RangeKindX) : k.skel.label? = k.label?.map skelLabel := by cases k <;> rfl

theorem PSim_runsSource (c : Ctx) (r : RangeAggX) : PSim (runsSource c r) (runsSource c r.skel) := by
  obtain ⟨kind, sel, post, d, bp, bs, cmp⟩ := r
  unfold runsSource
  simp only [RangeAggX.skel, label?_skel, Option.isSome_map, runsM_skel, labelConds_skel, List.length_map]
  have hr := shape_planRunsM c (runsM post kind.label?.isSome) none (labelConds sel).length 1
  refine ⟨?_, hr.2.2⟩
  rw [shapeS_setWiths, shapeS_setWiths, hr.2.1]
  congr 1
  simp only [shapeWs_append, shapeWs, shapeWs_fpWithsM c sel, shapeS_mainOrdered c sel, shapeS_setWiths, hr.1]

theorem PSim_sourceX (c : Ctx) (r : RangeAggX) : PSim (sourceX c r) (sourceX c r.skel) := by
  have hrs := PSim_runsSource c r
  obtain ⟨kind, sel, post, d, bp, bs, cmp⟩ := r
  unfold sourceX
  simp only [RangeAggX.skel, label?_skel] at hrs ⊢
  cases post with
  | nil =>
    cases hk : kind.label? with
    | none =>
      simp only [List.map_nil, Option.map_none, labelConds_skel, List.length_map]
      exact ⟨shapeS_samplesMain c sel, rfl⟩
    | some label =>
      simp only [List.map_nil, Option.map_some, labelConds_skel, List.length_map]
      exact ⟨shapeS_unwrapSel _ _ _ (shapeS_labelsJoin c sel _ _ (shapeS_mainOrdered c sel)), rfl⟩
  | cons p post =>
    cases hk : kind.label? with
    | none =>
      simp only [List.map_cons, Option.map_none]
      simpa only [List.map_cons, hk, Option.map_none] using hrs
    | some label =>
      simp only [List.map_cons, Option.map_some]
      have hrs' : PSim (runsSource c ⟨kind, sel, p :: post, d, bp, bs, cmp⟩)
          (runsSource c ⟨kind.skel, sel.skel, p.skel :: post.map StageX.skel, d, bp.map Grouping.skel, bs.map Grouping.skel, cmp⟩) := by
        simpa only [List.map_cons] using hrs
      exact ⟨shapeS_unwrapSel _ _ _ hrs'.1, hrs'.2⟩

/-! ### the matrix functions -/

theorem shapeE_quantileCol (phi : NumLit) : shapeE (quantileCol phi) = quantileCol phi := by simp [quantileCol, shapeE]

theorem shapeS_quantileSel (phi : NumLit) (d : Nat) (main : Sel) :
    shapeS (quantileSel phi d main) = quantileSel phi d (shapeS main) := by
  unfold quantileSel
  rw [shapeS_with1, shapeS_cols, hasColumn_shapeEs]
  cases hasColumn main.cols "labels" <;>
    simp [shapeS, shapeO, shapeE, shapeEs, shapeWs, shapeJs, simpleCol, shapeE_bucketCol, shapeE_quantileCol]

theorem shapeS_optCmp (cm : Option Comparison) (s s' : Sel) (h : shapeS s = shapeS s') :
    shapeS (optCmp cm s) = shapeS (optCmp cm s') := by
  cases cm with
  | none => exact h
  | some c => simp only [optCmp]; rw [shapeS_comparisonSel, shapeS_comparisonSel, h]

theorem PSim_rangePhaseX (c : MCtx) (r : RangeAggX) : PSim (rangePhaseX c r) (rangePhaseX c r.skel) := by
  have hs := PSim_sourceX c.toCtx r
  have hg : chosenGrouping r.skel.byPrefix r.skel.bySuffix = (chosenGrouping r.byPrefix r.bySuffix).map Grouping.skel :=
    chosenGrouping_skel r.byPrefix r.bySuffix
  have hb := PSim_planByWithout c.toCtx false (chosenGrouping r.byPrefix r.bySuffix) _ _ hs
  rw [← hg] at hb
  unfold rangePhaseX
  simp only
  have hk : r.skel.kind = r.kind.skel := rfl
  have hd : r.skel.durNs = r.durNs := rfl
  have hc : r.skel.cmp = r.cmp := rfl
  rw [hk, hd, hc]
  cases r.kind with
  | lra fn =>
    simp only [RangeKindX.skel]
    exact ⟨shapeS_optCmp _ _ _ (by rw [shapeS_lraSel, shapeS_lraSel, hs.1]), hs.2⟩
  | unwrap fn l =>
    simp only [RangeKindX.skel]
    exact ⟨shapeS_optCmp _ _ _ (by rw [shapeS_unwrapFnSel, shapeS_unwrapFnSel, hb.1]), hb.2⟩
  | quantile phi l =>
    simp only [RangeKindX.skel]
    exact ⟨shapeS_optCmp _ _ _ (by rw [shapeS_quantileSel, shapeS_quantileSel, hb.1]), hb.2⟩

theorem grouping_skelX (a : VecOp) : a.skel.grouping = a.grouping.skel := by
  unfold VecOp.grouping
  rw [show a.skel.byPrefix = a.byPrefix.map Grouping.skel from rfl, show a.skel.bySuffix = a.bySuffix.map Grouping.skel from rfl,
    chosenGrouping_skel]
  cases chosenGrouping a.byPrefix a.bySuffix <;> simp [Grouping.skel]

theorem PSim_aggPhaseX (c : MCtx) (a : Option VecOp) (s s' : PState) (h : PSim s s') :
    PSim (aggPhaseX c a s) (aggPhaseX c (a.map VecOp.skel) s') := by
  cases a with
  | none => exact h
  | some a =>
    have hb := PSim_planByWithout c.toCtx false (some a.grouping) s s' h
    simp only [aggPhaseX, Option.map_some, grouping_skelX, show a.skel.fn = a.fn from rfl, show a.skel.cmp = a.cmp from rfl]
    simp only [Option.map_some] at hb
    exact ⟨shapeS_optCmp _ _ _ (by rw [shapeS_aggSel, shapeS_aggSel, hb.1]), hb.2⟩

theorem shapeS_topkPhaseX (t : Option TopOp) (s s' : Sel) (h : shapeS s = shapeS s') :
    shapeS (topkPhaseX t s) = shapeS (topkPhaseX t s') := by
  cases t with
  | none => exact h
  | some t => simp only [topkPhaseX]; exact shapeS_optCmp _ _ _ (by rw [shapeS_topkSel, shapeS_topkSel, h])

/-- **the extended metric planner looks at a query only through its skeleton** (up to the contents of string leaves) -/
theorem shapeS_planMetricX (c : MCtx) (q : MetricQueryX) : shapeS (planMetricX c q) = shapeS (planMetricX c q.skel) := by
  unfold planMetricX
  have h := PSim_aggPhaseX c q.agg _ _ (PSim_rangePhaseX c q.range)
  have ht := shapeS_topkPhaseX q.topk _ _ h.1
  simp only [MetricQueryX.skel, RangeAggX.skel]
  rw [shapeS_finalizeMatrix, shapeS_finalizeMatrix, shapeS_stepFixSel, shapeS_stepFixSel]
  exact congrArg _ (congrArg _ ht)

/-- **two metric queries of the labelled path with the same shape**: equal emptied segment lists of their statements -/
theorem planMetricX_sameShape (c : MCtx) (q1 q2 : MetricQueryX) (h : sameShapeMX q1 q2) :
    SEq (segsSel (planMetricX c q1)) (segsSel (planMetricX c q2)) := by
  unfold SEq
  rw [← shape_segsSel (planMetricX c q1), ← shape_segsSel (planMetricX c q2), shapeS_planMetricX c q1, shapeS_planMetricX c q2]
  unfold sameShapeMX at h
  rw [h]

end Qryn.LogQL
