import Qryn.Ingest.Fingerprint
/-! Lemmas about the fingerprint fold: commutativity of the step, permutation invariance of the fold,
    injectivity of the 24-byte view, a pigeonhole principle on `Nat`, and "equal images under an
    injective-across map ⇒ permutation". Core only. -/
namespace Qryn.Fp
open Qryn

theorem stepAcc_comm (a : Acc) (x y : W) : stepAcc (stepAcc a x) y = stepAcc (stepAcc a y) x := by
  simp only [stepAcc, Acc.mk.injEq]
  refine ⟨?_, ?_, ?_⟩
  · rw [BitVec.add_assoc, BitVec.add_comm x y, ← BitVec.add_assoc]
  · rw [BitVec.xor_assoc, BitVec.xor_comm x y, ← BitVec.xor_assoc]
  · rw [BitVec.mul_assoc, BitVec.mul_comm (_ + _ * x), ← BitVec.mul_assoc]

theorem foldl_perm {l₁ l₂ : List W} (p : l₁.Perm l₂) : ∀ a, l₁.foldl stepAcc a = l₂.foldl stepAcc a := by
  induction p with
  | nil => intro a; rfl
  | cons x _ ih => intro a; simp [List.foldl_cons, ih]
  | swap x y l => intro a; simp [List.foldl_cons, stepAcc_comm]
  | trans _ _ ih₁ ih₂ => intro a; rw [ih₁, ih₂]

theorem determs_perm {l₁ l₂ : List W} (p : l₁.Perm l₂) : determs l₁ = determs l₂ := foldl_perm p _

/-! ### the 24 bytes determine the three words -/

/-- inverse of `le64` on 8-byte lists -/
def de64 : Bytes → W
  | [b0, b1, b2, b3, b4, b5, b6, b7] =>
    BitVec.ofNat 64 (b0.toNat + 256 * (b1.toNat + 256 * (b2.toNat + 256 * (b3.toNat + 256 * (b4.toNat +
      256 * (b5.toNat + 256 * (b6.toNat + 256 * b7.toNat)))))))
  | _ => 0

theorem le64_eq (w : W) : le64 w =
    [UInt8.ofNat (w.toNat % 256), UInt8.ofNat (w.toNat / 256 % 256), UInt8.ofNat (w.toNat / 65536 % 256),
     UInt8.ofNat (w.toNat / 16777216 % 256), UInt8.ofNat (w.toNat / 4294967296 % 256),
     UInt8.ofNat (w.toNat / 1099511627776 % 256), UInt8.ofNat (w.toNat / 281474976710656 % 256),
     UInt8.ofNat (w.toNat / 72057594037927936 % 256)] := by
  simp [le64, List.range, List.range.loop, Nat.shiftRight_eq_div_pow]

theorem le64_length (w : W) : (le64 w).length = 8 := by simp [le64]

theorem de64_le64 (w : W) : de64 (le64 w) = w := by
  rw [le64_eq]
  simp only [de64, UInt8.toNat_ofNat']
  apply BitVec.eq_of_toNat_eq
  have h := w.isLt
  simp only [BitVec.toNat_ofNat]
  omega

theorem le64_inj {a b : W} (h : le64 a = le64 b) : a = b := by
  rw [← de64_le64 a, ← de64_le64 b, h]

theorem accBytes_inj {a b : Acc} (h : accBytes a = accBytes b) : a = b := by
  simp only [accBytes] at h
  have h1 := List.append_inj h (by simp [le64_length])
  have h2 := List.append_inj h1.1 (by simp [le64_length])
  cases a; cases b
  simp only [Acc.mk.injEq]
  exact ⟨le64_inj h2.1, le64_inj h2.2, le64_inj h1.2⟩

/-! ### pigeonhole on `Nat` -/

/-- `n + 1` pigeons `0..n` in `n` holes: two of them share a hole -/
theorem pigeon : ∀ (n : Nat) (f : Nat → Nat), (∀ i, i ≤ n → f i < n) → ∃ i j, i < j ∧ j ≤ n ∧ f i = f j := by
  intro n
  induction n with
  | zero => intro f h; exact absurd (h 0 (Nat.le_refl 0)) (Nat.not_lt_zero _)
  | succ n ih =>
    intro f h
    by_cases hk : ∃ i, i ≤ n ∧ f i = f (n + 1)
    · obtain ⟨i, hi, he⟩ := hk
      exact ⟨i, n + 1, by omega, Nat.le_refl _, he⟩
    · have hne : ∀ i, i ≤ n → f i ≠ f (n + 1) := fun i hi he => hk ⟨i, hi, he⟩
      let g : Nat → Nat := fun i => if f i < f (n + 1) then f i else f i - 1
      have hg : ∀ i, i ≤ n → g i < n := by
        intro i hi
        have h1 := h i (by omega)
        have h2 := h (n + 1) (Nat.le_refl _)
        have h3 := hne i hi
        simp only [g]
        split <;> omega
      obtain ⟨i, j, hij, hj, he⟩ := ih g hg
      refine ⟨i, j, hij, by omega, ?_⟩
      have h3 := hne i (by omega)
      have h4 := hne j hj
      simp only [g] at he
      split at he <;> split at he <;> omega

/-! ### permutations and images -/

/-- if `h` never identifies an element of `l₁` with a different element of `l₂`, a permutation of the
    images is a permutation of the lists -/
theorem perm_of_map_perm {α β : Type} [DecidableEq α] (h : α → β) :
    ∀ (l₁ l₂ : List α), (∀ a, a ∈ l₁ → ∀ b, b ∈ l₂ → h a = h b → a = b) →
      (l₁.map h).Perm (l₂.map h) → l₁.Perm l₂ := by
  intro l₁
  induction l₁ with
  | nil =>
    intro l₂ _ p
    have : l₂.map h = [] := List.Perm.eq_nil (p.symm) |> fun e => by simpa using e
    have : l₂ = [] := by simpa using this
    subst this; exact List.Perm.refl _
  | cons a t ih =>
    intro l₂ hinj p
    have hmem : h a ∈ l₂.map h := p.subset (by simp)
    obtain ⟨b, hb, hab⟩ := List.mem_map.mp hmem
    have hba : a = b := hinj a (by simp) b hb hab.symm
    subst hba
    have p2 : l₂.Perm (a :: l₂.erase a) := List.perm_cons_erase hb
    have p3 : (List.map h t).Perm ((l₂.erase a).map h) := by
      have := p.trans (p2.map h)
      simpa using this
    have := ih (l₂.erase a) (fun x hx y hy => hinj x (List.mem_cons_of_mem _ hx) y (List.mem_of_mem_erase hy)) p3
    exact (List.Perm.cons a this).trans p2.symm

end Qryn.Fp
