import Qryn.Proofs.MetricShortcut
import Qryn.LogQL.Supported
/-! C08 plan-level proofs: the supported class as one decidable predicate, the union theorem, and the clauses of the
    property that are about the composition. -/
namespace Qryn.LogQL
open Qryn Qryn.Sql

theorem supported_spec (q : MetricQuery) (h : supported q = true) :
    (∃ fn, q.rangeAgg.kind = .lra fn) ∧ aggOk q ∧ 0 < q.rangeAgg.durNs ∧
      q.rangeAgg.sel.matchers.length ≤ 63 := by
  unfold supported at h
  simp only [Bool.and_eq_true, decide_eq_true_eq] at h
  obtain ⟨⟨h1, h4⟩, h5⟩ := h
  refine ⟨?_, trivial, h4, h5⟩
  · cases hk : q.rangeAgg.kind with
    | lra fn => exact ⟨fn, rfl⟩
    | unwrap fn l => rw [hk] at h1; cases h1

/-- what the shortcut relies on: no negative timestamp, and the line filters it does not plan pass every stored line -/
def ShortcutOk (o : Oracles) (d : LokiDb) (q : MetricQuery) : Prop :=
  (∀ s ∈ d.samples, 0 ≤ s.ts) ∧
  ∀ s ∈ d.samples, (lineFilters q.rangeAgg.sel).all (fun f => lineHolds o f s.str) = true

theorem shortcutOkB_spec (o : Oracles) (d : LokiDb) (q : MetricQuery) (h : shortcutOkB o d q = true) : ShortcutOk o d q := by
  unfold shortcutOkB at h
  simp only [Bool.and_eq_true] at h
  exact ⟨fun s hs => by simpa using List.all_eq_true.mp h.1 s hs, fun s hs => List.all_eq_true.mp h.2 s hs⟩

/-- **plan_metric_correct.** For every supported metric query, every context and every database, evaluating the
    generated statement (values read as numbers) gives exactly the matrix of the direct reading — on the samples path
    and, where `AnalyzeMetrics15sShortcut` chooses it, on the metrics_15s path. -/
theorem planMetric_correct (o : Oracles) (c : MCtx) (hn : c.namesOk) (d : LokiDb) (q : MetricQuery)
    (hsup : supported q = true) (hsc : takesShortcut q = true → ShortcutOk o d q) :
    (evalSelA o (d.toDbM c) (planMetric c q)).map normRow = evalMetric o c d q := by
  obtain ⟨⟨fn, hk⟩, hok, hd, hm⟩ := supported_spec q hsup
  cases hs : takesShortcut q with
  | false => exact planMetric_lra o c hn d q fn hk hs hok hm hd
  | true => exact planMetric_shortcut o c hn d q hs hok hm (hsc hs).1 (hsc hs).2

/-! ### no entry outside the window contributes -/
/-- two databases with the same index and series tables whose entries inside `[lo, hi)` are the same, in the same order -/
def SameInside (d d' : LokiDb) (lo hi : Int) : Prop :=
  d.gin = d'.gin ∧ d.ts = d'.ts ∧
  d.samples.filter (fun s => decide (lo ≤ s.ts) && decide (s.ts < hi)) =
    d'.samples.filter (fun s => decide (lo ≤ s.ts) && decide (s.ts < hi))

theorem fpSelected_congr (o : Oracles) (c : Ctx) (d d' : LokiDb) (q : LogQuery) (h1 : d.gin = d'.gin) (h2 : d.ts = d'.ts) :
    fpSelected o c d q = fpSelected o c d' q := by
  unfold fpSelected
  have hs : streamSelected o c d q.matchers = streamSelected o c d' q.matchers := by
    funext fp; unfold streamSelected; rw [h1]
  rw [hs]
  generalize streamSelected o c d' q.matchers = base
  induction labelConds q generalizing base with
  | nil => rfl
  | cons lc rest ih =>
    simp only [chainSelected]
    rw [h2]
    exact ih _

theorem matches_inside (o : Oracles) (c : Ctx) (d d' : LokiDb) (q : LogQuery) (lo hi : Int) (h : SameInside d d' lo hi) :
    d.samples.filter (entryMatchesW o c d q lo hi) = d'.samples.filter (entryMatchesW o c d' q lo hi) := by
  obtain ⟨h1, h2, h3⟩ := h
  have hfp := fpSelected_congr o c d d' q h1 h2
  have e : ∀ (dd : LokiDb), dd.samples.filter (entryMatchesW o c dd q lo hi) =
      (dd.samples.filter (fun s => decide (lo ≤ s.ts) && decide (s.ts < hi))).filter
        (fun s => typeOk c s.tp && fpSelected o c dd q s.fp && (lineFilters q).all (fun f => lineHolds o f s.str)) := by
    intro dd
    rw [List.filter_filter]
    apply List.filter_congr
    intro s _
    unfold entryMatchesW
    simp only [Bool.and_assoc]
    cases decide (lo ≤ s.ts) <;> cases decide (s.ts < hi) <;> simp
  rw [e d, e d', h3, hfp]

theorem labelsOf_congr (o : Oracles) (c : Ctx) (d d' : LokiDb) (q : LogQuery) (h1 : d.gin = d'.gin) (h2 : d.ts = d'.ts) :
    labelsOf o c d q = labelsOf o c d' q := by
  funext fp
  unfold labelsOf
  rw [fpSelected_congr o c d d' q h1 h2, h2]

theorem matrixPts_inside (o : Oracles) (c : MCtx) (d d' : LokiDb) (q : MetricQuery) (fn : RangeFn)
    (hk : q.rangeAgg.kind = .lra fn) (lo hi : Int) (h : SameInside d d' lo hi) :
    matrixPts o c d q lo hi = matrixPts o c d' q lo hi := by
  have hl := labelsOf_congr o c.toCtx d d' q.rangeAgg.sel h.1 h.2.1
  have hpl : ptLabels o c.toCtx d q.rangeAgg.sel = ptLabels o c.toCtx d' q.rangeAgg.sel := by
    funext p; unfold ptLabels; rw [hl]
  have hr : rangePoints o c.toCtx d q.rangeAgg lo hi = rangePoints o c.toCtx d' q.rangeAgg lo hi := by
    rw [rangePoints_lra o c.toCtx d q.rangeAgg fn lo hi hk, rangePoints_lra o c.toCtx d' q.rangeAgg fn lo hi hk,
      matches_inside o c.toCtx d d' q.rangeAgg.sel lo hi h]
  have ha : ∀ a pts, aggStage o c.toCtx d q.rangeAgg.sel a pts = aggStage o c.toCtx d' q.rangeAgg.sel a pts := by
    intro a pts; unfold aggStage; rw [hpl]
  rw [matrixPts_eq, matrixPts_eq, hr, hpl]
  unfold upperPts
  simp only [ha]

/-- **no entry outside the window contributes.** For a supported query, changing, adding or removing entries outside the
    window the plan reads (`[from, to)`, rounded down to whole 15 s slots on the metrics_15s path — with
    `FixPeriodPlanner`'s context: whole range buckets, `window_widened_to_whole_buckets`) does not change the result of
    the generated statement. -/
theorem outside_window_irrelevant (o : Oracles) (c : MCtx) (hn : c.namesOk) (d d' : LokiDb) (q : MetricQuery)
    (hsup : supported q = true) (hsc : takesShortcut q = true → ShortcutOk o d q ∧ ShortcutOk o d' q)
    (h : SameInside d d' (effWindow c q).1 (effWindow c q).2) :
    (evalSelA o (d.toDbM c) (planMetric c q)).map normRow = (evalSelA o (d'.toDbM c) (planMetric c q)).map normRow := by
  obtain ⟨⟨fn, hk⟩, _⟩ := supported_spec q hsup
  rw [planMetric_correct o c hn d q hsup (fun hs => (hsc hs).1), planMetric_correct o c hn d' q hsup (fun hs => (hsc hs).2),
    evalMetric_matrixPts, evalMetric_matrixPts]
  exact matrixPts_inside o c d d' q fn hk _ _ h

end Qryn.LogQL

namespace Qryn.LogQL
open Qryn Qryn.Sql

/-! ### output series are identified by exactly the grouped label set -/
/-- key and labels of a series after `by`/`without` `g`: the labels are what `g` keeps of some label set, the key is
    cityHash64 of exactly those (or both are absent: a stream without series row) -/
def GroupedKL (o : Oracles) (g : Grouping) (key labels : Val) : Prop :=
  (∃ m, labels = .map (keptLabels g m) ∧ key = .int (o.cityHash (keptLabels g m))) ∨ (key = .null ∧ labels = .null)

theorem regroupPt_groupedKL (o : Oracles) (c : Ctx) (d : LokiDb) (q : LogQuery) (g : Grouping) (p : Pt) :
    GroupedKL o g (regroupPt o c d q g p).key (regroupPt o c d q g p).labels := by
  unfold regroupPt regroup
  cases ptLabels o c d q p with
  | map m => exact Or.inl ⟨m, rfl, rfl⟩
  | _ => exact Or.inr ⟨rfl, rfl⟩

theorem aggCore_kl (fn : AggFn) (pts : List Pt) : ∀ p ∈ aggCore o fn pts, ∃ x ∈ pts, p.key = x.key ∧ p.labels = x.labels := by
  intro p hp
  unfold aggCore at hp
  obtain ⟨g, hg, hgp⟩ := List.mem_filterMap.mp hp
  obtain ⟨⟨a, rest, hgr, hk⟩, hall⟩ := groupsBy_head _ pts g hg
  cases hv : aggVal o fn (g.2.map (·.value)) with
  | none => rw [hv] at hgp; cases hgp
  | some v =>
    rw [hv] at hgp
    simp only [Option.map_some, Option.some.injEq] at hgp
    subst hgp
    refine ⟨a, (hall a (by rw [hgr]; simp)).1, ?_, ?_⟩
    · simp only [← hk]
    · simp only [hgr, List.head?_cons, Option.map_some, Option.getD_some]

theorem upperPts_grouped (o : Oracles) (c : MCtx) (d : LokiDb) (q : MetricQuery) (a : VecAgg) (g : Grouping)
    (ha : q.agg? = some a) (hg : aggGrouping a = g) (p0 : List Pt) :
    ∀ p ∈ upperPts o c d q p0, GroupedKL o g p.key p.labels := by
  have h1 : ∀ p ∈ cmpStage a.cmp (aggStage o c.toCtx d q.rangeAgg.sel a p0), GroupedKL o g p.key p.labels := by
    apply cmpStage_labels
    intro p hp
    rw [aggStage_eq] at hp
    subst hg
    obtain ⟨x, hx, h1, h2⟩ := aggCore_kl _ _ p hp
    obtain ⟨y, _, rfl⟩ := List.mem_map.mp hx
    rw [h1, h2]
    exact regroupPt_groupedKL ..
  intro p hp
  unfold upperPts at hp
  rw [ha] at hp
  cases q with
  | topk t => exact h1 p (topkStage_sub _ _ _ p (cmpStage_labels _ _ (fun x => x ∈ _) (fun x hx => hx) p hp))
  | agg a' => exact h1 p hp
  | range r => exact h1 p hp

theorem groupedKL_ptLabels (o : Oracles) (c : Ctx) (d : LokiDb) (q : LogQuery) (g : Grouping) (p : Pt)
    (h : GroupedKL o g p.key p.labels) : ptLabels o c d q p = p.labels := by
  unfold ptLabels
  rcases h with ⟨m, h1, h2⟩ | ⟨h1, h2⟩
  · rw [h1, h2]
  · rw [h1, h2]

/-- every row of the direct reading of a grouped vector aggregation (also under topk, comparison, step re-bucketing)
    carries the labels the grouping keeps of some label set and cityHash64 of exactly those as fingerprint -/
theorem evalMetric_grouped (o : Oracles) (c : MCtx) (d : LokiDb) (q : MetricQuery) (a : VecAgg) (g : Grouping)
    (ha : q.agg? = some a) (hg : aggGrouping a = g) :
    ∀ r ∈ evalMetric o c d q, GroupedKL o g (r.get "fingerprint") (r.get "labels") := by
  intro r hr
  rw [evalMetric_matrixPts, matrixPts_eq] at hr
  have hr' := (mem_sortBy _ _ r).mp hr
  obtain ⟨p, hp, rfl⟩ := List.mem_map.mp hr'
  obtain ⟨p', hp', rfl⟩ := List.mem_map.mp hp
  have hkl := stepStage_pred _ _ _ (GroupedKL o g) (upperPts_grouped o c d q a g ha hg _) p' hp'
  rw [groupedKL_ptLabels o c.toCtx d q.rangeAgg.sel g p' hkl]
  simpa [Pt.row, get_cons] using hkl

/-- **output series are identified by exactly the grouped label set.** Every row the generated statement returns for a
    supported query with `aggOp by/without g (…)` carries as labels exactly what `g` keeps of a label set and as
    fingerprint cityHash64 of exactly those labels; so two output rows of one timestamp belong to the same series iff
    their kept label sets hash alike (iff they are equal, where cityHash64 separates them). -/
theorem output_series_grouped (o : Oracles) (c : MCtx) (hn : c.namesOk) (d : LokiDb) (q : MetricQuery) (a : VecAgg)
    (g : Grouping) (hsup : supported q = true) (hsc : takesShortcut q = true → ShortcutOk o d q)
    (ha : q.agg? = some a) (hg : aggGrouping a = g) :
    ∀ r ∈ evalSelA o (d.toDbM c) (planMetric c q), GroupedKL o g (r.get "fingerprint") (r.get "labels") := by
  intro r hr
  have hmem : normRow r ∈ evalMetric o c d q := by
    rw [← planMetric_correct o c hn d q hsup hsc]
    exact List.mem_map_of_mem hr
  have := evalMetric_grouped o c d q a g ha hg _ hmem
  rwa [normRow_get _ _ (by decide), normRow_get _ _ (by decide)] at this


theorem aggGrouping_of_some (a : VecAgg) (g : Grouping) (h : chosenGrouping a.byPrefix a.bySuffix = some g) : aggGrouping a = g := by
  unfold aggGrouping; rw [h]; rfl

theorem aggGrouping_of_none (a : VecAgg) (h : chosenGrouping a.byPrefix a.bySuffix = none) : aggGrouping a = ⟨true, []⟩ := by
  unfold aggGrouping; rw [h]; rfl

theorem keptLabels_by_nil (m : List (Bytes × Bytes)) : keptLabels ⟨true, []⟩ m = [] := by
  unfold keptLabels groupingKeys
  simp

/-- **a vector aggregation without grouping clause merges all series into the one of the empty label set.** -/
theorem ungrouped_one_series (o : Oracles) (c : MCtx) (hn : c.namesOk) (d : LokiDb) (q : MetricQuery) (a : VecAgg)
    (hsup : supported q = true) (hsc : takesShortcut q = true → ShortcutOk o d q)
    (ha : q.agg? = some a) (hnone : chosenGrouping a.byPrefix a.bySuffix = none) :
    ∀ r ∈ evalSelA o (d.toDbM c) (planMetric c q),
      (r.get "labels" = .map [] ∧ r.get "fingerprint" = .int (o.cityHash [])) ∨
      (r.get "fingerprint" = .null ∧ r.get "labels" = .null) := by
  intro r hr
  have := output_series_grouped o c hn d q a ⟨true, []⟩ hsup hsc ha (aggGrouping_of_none a hnone) r hr
  rcases this with ⟨m, h1, h2⟩ | h
  · rw [keptLabels_by_nil] at h1 h2
    exact Or.inl ⟨h1, h2⟩
  · exact Or.inr h

end Qryn.LogQL
