import Qryn.Base.Sort
/-! Lemmas about the stable insertion sort. -/
namespace Qryn

theorem insertBy_perm {α} (le : α → α → Bool) (x : α) (l : List α) : (insertBy le x l).Perm (x :: l) := by
  induction l with
  | nil => exact List.Perm.refl _
  | cons y ys ih =>
    simp only [insertBy]
    split
    · exact ((List.Perm.cons y ih).trans (List.Perm.swap x y ys))
    · exact List.Perm.refl _

theorem sortBy_cons {α} (le : α → α → Bool) (x : α) (l : List α) :
    sortBy le (x :: l) = insertBy le x (sortBy le l) := rfl

theorem sortBy_perm {α} (le : α → α → Bool) (l : List α) : (sortBy le l).Perm l := by
  induction l with
  | nil => exact List.Perm.refl _
  | cons x l ih => exact (insertBy_perm le x _).trans (List.Perm.cons x ih)

theorem mem_sortBy {α} (le : α → α → Bool) (l : List α) (a : α) : a ∈ sortBy le l ↔ a ∈ l :=
  (sortBy_perm le l).mem_iff

theorem insertBy_pairwise {α} (le : α → α → Bool) (total : ∀ a b, le a b = true ∨ le b a = true)
    (trans : ∀ a b c, le a b = true → le b c = true → le a c = true) (x : α) (l : List α)
    (h : l.Pairwise (fun a b => le a b = true)) : (insertBy le x l).Pairwise (fun a b => le a b = true) := by
  induction l with
  | nil => simp [insertBy]
  | cons y ys ih =>
    simp only [insertBy]
    rw [List.pairwise_cons] at h
    split
    · next hyx =>
      rw [List.pairwise_cons]
      refine ⟨?_, ih h.2⟩
      intro z hz
      rcases List.mem_cons.mp ((insertBy_perm le x ys).mem_iff.mp hz) with rfl | hz
      · exact hyx
      · exact h.1 z hz
    · next hyx =>
      have hxy : le x y = true := by
        rcases total x y with h' | h'
        · exact h'
        · exact absurd h' hyx
      rw [List.pairwise_cons]
      refine ⟨?_, List.pairwise_cons.mpr h⟩
      intro z hz
      rcases List.mem_cons.mp hz with rfl | hz
      · exact hxy
      · exact trans _ _ _ hxy (h.1 z hz)

theorem sortBy_pairwise {α} (le : α → α → Bool) (total : ∀ a b, le a b = true ∨ le b a = true)
    (trans : ∀ a b c, le a b = true → le b c = true → le a c = true) (l : List α) :
    (sortBy le l).Pairwise (fun a b => le a b = true) := by
  induction l with
  | nil => simp [sortBy]
  | cons x l ih => exact insertBy_pairwise le total trans x _ ih

theorem insertBy_map {α β} (le : α → α → Bool) (le' : β → β → Bool) (f : α → β)
    (h : ∀ a b, le' (f a) (f b) = le a b) (x : α) (l : List α) :
    insertBy le' (f x) (l.map f) = (insertBy le x l).map f := by
  induction l with
  | nil => rfl
  | cons y ys ih =>
    simp only [List.map_cons, insertBy, h]
    split
    · simp [ih]
    · simp

theorem sortBy_map {α β} (le : α → α → Bool) (le' : β → β → Bool) (f : α → β)
    (h : ∀ a b, le' (f a) (f b) = le a b) (l : List α) :
    sortBy le' (l.map f) = (sortBy le l).map f := by
  induction l with
  | nil => rfl
  | cons x l ih => rw [List.map_cons, sortBy_cons, sortBy_cons, ih, insertBy_map le le' f h]

/-- in a sorted list, everything in a prefix is `le` everything in the rest -/
theorem take_le_drop {α} (le : α → α → Bool) (l : List α) (n : Nat)
    (h : l.Pairwise (fun a b => le a b = true)) (a b : α) (ha : a ∈ l.take n) (hb : b ∈ l.drop n) :
    le a b = true := by
  rw [← List.take_append_drop n l, List.pairwise_append] at h
  exact h.2.2 a ha b hb

end Qryn
