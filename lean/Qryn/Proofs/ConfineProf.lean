import Qryn.Prof.Planners
import Qryn.Proofs.ConfineTempo
import Qryn.Proofs.ProfSelector
/-! C13 for the Pyroscope planner models of `Prof/Planners.lean`: every plan is `confined` to the request window
    (slack 0): the `profiles` scans by `timestamp_ns >= From` and `<= To` / `< To`, every index scan
    (`profiles_series_gin`, `profiles_series`) by `date >= date(From − 30 min)`, `date <= date(To)` and no other comparison
    on the date column. -/
namespace Qryn.Prof
open Qryn Qryn.Sql Qryn.Confine

/-- a selector condition that is not a comparison of the date column (every condition `getMatchers` builds is such:
    `plan_noDate`) -/
def PCond.noDate : PCond → Bool
  | .cmp _ field _ => !isDateCol field
  | .and2 a b => a.noDate && b.noDate
  | _ => true

end Qryn.Prof

namespace Qryn.Confine
open Qryn Qryn.Sql Qryn.Prof Qryn.Prom

structure ProfCfg (cfg : Cfg) (c : PCtx) : Prop where
  gin : cfg.kind c.ginTable = .index
  ginDist : cfg.kind c.ginDistTable = .index
  series : cfg.kind c.seriesTable = .index
  seriesDist : cfg.kind c.seriesDistTable = .index
  profiles : cfg.kind c.profilesDistTable = .data

/-- the window a Pyroscope request asks for -/
def winProf (c : PCtx) : Window := ⟨c.fromNs, c.toNs, 0, false, 0⟩

theorem condExpr_noDate (g : PCond) (h : g.noDate = true) : mentionsDate (condExpr g) = false := by
  cases g with
  | cmp fn field s =>
    simp only [PCond.noDate, Bool.not_eq_true'] at h
    simp [condExpr, mentionsDate, h]
  | cmpMatch fn field pat => simp [condExpr, mentionsDate]
  | arrayExists c => simp [condExpr, mentionsDate]
  | and2 a b => simp [condExpr, mentionsDate]

theorem dateFine_of_noDate (w : Window) (e : Expr) (h : mentionsDate e = false) : dateFine w e = true := by
  simp [dateFine, h]

/-- the conjunct check of an index scan, for a list of selector conditions -/
theorem conds_dateFine (w : Window) (gs : List PCond) (h : ∀ g ∈ gs, g.noDate = true) :
    (gs.map condExpr).all (dateFine w) = true := by
  simp only [List.all_map, List.all_eq_true]
  intro g hg
  exact dateFine_of_noDate w _ (condExpr_noDate g (h g hg))

theorem dateConds_dateFine (c : PCtx) : (dateConds c).all (dateFine (winProf c)) = true := by
  have h1 : (lowerInstants (winProf c)).any (fun t => Time.formatDate t == c.fromDate) = true := by
    simp [lowerInstants, winProf, secOf, PCtx.fromDate, Time.formatFromDate]
  have h2 : (upperInstants (winProf c)).any (fun t => Time.formatDate t == c.toDate) = true := by
    simp [upperInstants, winProf, PCtx.toDate, fdiv_sec]
  simp [dateConds, dateFine, mentionsDate, ge, le, isDateCol, dateLower, dateUpper, h1, h2]

theorem dateConds_lower (c : PCtx) : (dateConds c).any (fun e => (dateLower e).isSome) = true := by
  simp [dateConds, dateLower, ge, isDateCol]

theorem dateConds_leaf (c : PCtx) : ∀ e ∈ dateConds c, Leaf e := by
  intro e he
  simp only [dateConds, List.mem_cons, List.not_mem_nil, or_false] at he
  rcases he with rfl | rfl <;> exact leaf_logical _ _ (by decide)

/-- an index scan whose conjuncts are the two date bounds plus conjuncts that do not touch the date column -/
theorem bodyConfined_index (cfg : Cfg) (w : Window) (ok : List Alias) (s : Sel) (t : String)
    (hf : fromTable (fromOf s) = some t) (hk : cfg.kind t = .index) (hn : w.needType = false)
    (hd : (conjuncts (preOf s) ++ conjuncts (whereOf s)).all (dateFine w) = true)
    (hl : (conjuncts (preOf s) ++ conjuncts (whereOf s)).any (fun e => (dateLower e).isSome) = true) :
    bodyConfined cfg w ok s = true := by
  cases s
  simp only [fromOf, preOf, whereOf] at hf hd hl
  simp only [bodyConfined, hf, hk, hn]
  simp only [Bool.and_eq_true, Bool.or_eq_true]
  exact ⟨hd, Or.inl ⟨hl, by simp⟩⟩

/-- a data scan with both timestamp bounds, for a window that asks for no type filter -/
theorem bodyConfined_dataNT (cfg : Cfg) (w : Window) (ok : List Alias) (s : Sel) (t : String)
    (hf : fromTable (fromOf s) = some t) (hk : cfg.kind t = .data) (hn : w.needType = false)
    (hl : (conjuncts (preOf s) ++ conjuncts (whereOf s)).any (isLowerTs w) = true)
    (hu : (conjuncts (preOf s) ++ conjuncts (whereOf s)).any (isUpperTs w) = true) :
    bodyConfined cfg w ok s = true := by
  cases s
  simp only [fromOf, preOf, whereOf] at hf hl hu
  simp [bodyConfined, hf, hk, hn, hl, hu]

end Qryn.Confine

namespace Qryn.Confine
open Qryn Qryn.Sql Qryn.Prof Qryn.Prom

/-! ### conjunct lists -/
/-- every conjunct a condition contributes passes the date check -/
def Fine (w : Window) (e : Expr) : Prop := ∀ x ∈ splice e, dateFine w x = true

theorem all_conj (w : Window) (cs : List Expr) (h : ∀ e ∈ cs, Fine w e) :
    (conjuncts (some (and_ cs))).all (dateFine w) = true := by
  rw [conjuncts_and, List.all_eq_true]
  intro x hx
  obtain ⟨e, he, hxe⟩ := List.mem_flatMap.mp hx
  exact h e he x hxe

theorem any_conj (p : Expr → Bool) (cs : List Expr) (e : Expr) (he : e ∈ cs) (hl : Leaf e) (hp : p e = true) :
    (conjuncts (some (and_ cs))).any p = true := by
  rw [conjuncts_and]
  exact any_of_mem _ _ e (List.mem_flatMap.mpr ⟨e, he, by rw [hl]; simp⟩) hp

theorem fine_leaf (w : Window) (e : Expr) (hl : Leaf e) (h : dateFine w e = true) : Fine w e := by
  intro x hx; rw [hl, List.mem_singleton] at hx; subst hx; exact h

theorem fine_noDate_leaf (w : Window) (e : Expr) (hl : Leaf e) (h : mentionsDate e = false) : Fine w e :=
  fine_leaf w e hl (dateFine_of_noDate w e h)

theorem fine_condExpr (w : Window) (g : PCond) (h : g.noDate = true) : Fine w (condExpr g) := by
  cases g with
  | and2 a b =>
    simp only [PCond.noDate, Bool.and_eq_true] at h
    intro x hx
    simp only [condExpr, splice, List.mem_cons, List.not_mem_nil, or_false] at hx
    rcases hx with rfl | rfl
    · exact dateFine_of_noDate w _ (condExpr_noDate a h.1)
    · exact dateFine_of_noDate w _ (condExpr_noDate b h.2)
  | cmp fn field s =>
    intro x hx
    have hm := condExpr_noDate (.cmp fn field s) h
    by_cases hf : fn = "and"
    · subst hf
      simp only [condExpr, splice, List.mem_cons, List.not_mem_nil, or_false] at hx
      rcases hx with rfl | rfl <;> simp [dateFine, mentionsDate]
    · rw [show splice (condExpr (.cmp fn field s)) = [condExpr (.cmp fn field s)] from splice_logical _ _ hf,
        List.mem_singleton] at hx
      subst hx; exact dateFine_of_noDate w _ hm
  | cmpMatch fn field pat =>
    intro x hx
    by_cases hf : fn = "and"
    · subst hf
      simp only [condExpr, splice, List.mem_cons, List.not_mem_nil, or_false] at hx
      rcases hx with rfl | rfl <;> simp [dateFine, mentionsDate]
    · rw [show splice (condExpr (.cmpMatch fn field pat)) = [condExpr (.cmpMatch fn field pat)] from splice_logical _ _ hf,
        List.mem_singleton] at hx
      subst hx; exact dateFine_of_noDate w _ (condExpr_noDate _ rfl)
  | arrayExists c =>
    intro x hx
    by_cases hf : fnOf "Eq" = "and"
    · simp only [condExpr, hf, splice, List.mem_cons, List.not_mem_nil, or_false] at hx
      rcases hx with rfl | rfl <;> simp [dateFine, mentionsDate]
    · rw [show splice (condExpr (.arrayExists c)) = [condExpr (.arrayExists c)] from splice_logical _ _ hf,
        List.mem_singleton] at hx
      subst hx; exact dateFine_of_noDate w _ (condExpr_noDate _ rfl)

theorem fine_and_conds (w : Window) (gs : List PCond) (h : ∀ g ∈ gs, g.noDate = true) : Fine w (and_ (gs.map condExpr)) := by
  intro x hx
  simp only [and_, splice, List.mem_map] at hx
  obtain ⟨g, hg, rfl⟩ := hx
  exact dateFine_of_noDate w _ (condExpr_noDate g (h g hg))

theorem fine_or (w : Window) (cs : List Expr) : Fine w (or_ cs) :=
  fine_noDate_leaf w _ (leaf_logical _ _ (by decide)) (by simp [or_, mentionsDate])

theorem fine_isIn (w : Window) (l : Expr) (rs : List Expr) : Fine w (.isIn l rs) :=
  fine_noDate_leaf w _ rfl (by simp [mentionsDate])

theorem fine_dateConds (c : PCtx) : ∀ e ∈ dateConds c, Fine (winProf c) e := by
  intro e he
  exact fine_leaf _ e (dateConds_leaf c e he) (List.all_eq_true.mp (dateConds_dateFine c) e he)

theorem dateLower_ge_date (c : PCtx) : (dateLower (ge (.raw "date") (.str c.fromDate))).isSome = true := by
  simp [dateLower, ge, isDateCol]

/-! ### the selector -/
theorem selectorSel_body (cfg : Cfg) (c : PCtx) (h : ProfCfg cfg c) (q : PQuery) (hg : ∀ g ∈ q.globals, g.noDate = true)
    (ok : List Alias) : bodyConfined cfg (winProf c) ok (selectorSel c q) = true := by
  apply bodyConfined_index cfg _ ok _ c.ginTable rfl h.gin rfl
  · simp only [selectorSel, preOf, whereOf, conjuncts_none, List.nil_append]
    apply all_conj
    intro e he
    simp only [List.mem_append] at he
    rcases he with (he | he) | he
    · exact fine_dateConds c e he
    · split at he
      · cases he
      · simp only [List.mem_singleton] at he; subst he; exact fine_and_conds _ q.globals hg
    · split at he
      · cases he
      · simp only [List.mem_singleton] at he; subst he; exact fine_or _ _
  · simp only [selectorSel, preOf, whereOf, conjuncts_none, List.nil_append]
    exact any_conj _ _ (ge (.raw "date") (.str c.fromDate)) (by simp [dateConds]) (leaf_logical _ _ (by decide)) (dateLower_ge_date c)

theorem selectorSel_good (cfg : Cfg) (c : PCtx) (h : ProfCfg cfg c) (q : PQuery) (hg : ∀ g ∈ q.globals, g.noDate = true) :
    GoodM cfg (winProf c) (selectorSel c q) :=
  ⟨trivial, selectorSel_body cfg c h q hg⟩

end Qryn.Confine

namespace Qryn.Confine
open Qryn Qryn.Sql Qryn.Prof Qryn.Prom

theorem bodyConfined_limited (cfg : Cfg) (w : Window) (ok : List Alias) (c : PCtx) (s : Sel) :
    bodyConfined cfg w ok (limited c s) = bodyConfined cfg w ok s := by
  unfold limited; split <;> simp

/-- the `fp` entry every planner adds: the selector, an index scan confined on its own -/
theorem fpEntry_inv (cfg : Cfg) (c : PCtx) (h : ProfCfg cfg c) (q : PQuery) (hg : ∀ g ∈ q.globals, g.noDate = true) :
    ∀ e ∈ [((Alias.named "fp"), selectorSel c q)], IM cfg (winProf c) [] (e.2.withs ++ [e]) := by
  intro e he
  simp only [List.mem_singleton] at he
  subst he
  exact (selectorSel_good cfg c h q hg).entry "fp"

/-! ### data scans of `profiles` -/
theorem lowerTs_ok (c : PCtx) (col : String) (hc : isTsCol col = true) : isLowerTs (winProf c) (ge (.raw col) (.int c.fromNs)) = true := by
  simp [isLowerTs, ge, hc, winProf]
theorem upperTsLe_ok (c : PCtx) (col : String) (hc : isTsCol col = true) : isUpperTs (winProf c) (le (.raw col) (.int c.toNs)) = true := by
  simp [isUpperTs, le, hc, winProf]
theorem upperTsLt_ok (c : PCtx) (col : String) (hc : isTsCol col = true) : isUpperTs (winProf c) (lt (.raw col) (.int c.toNs)) = true := by
  simp [isUpperTs, lt, hc, winProf]

/-- **mergeProfiles_good.** -/
theorem mergeProfiles_good (cfg : Cfg) (c : PCtx) (h : ProfCfg cfg c) (fp : PQuery) (globals : List PCond)
    (hg : ∀ g ∈ fp.globals, g.noDate = true) : GoodM cfg (winProf c) (mergeProfiles c fp globals) := by
  unfold mergeProfiles
  apply GoodM.with_ _ _ _ (fpEntry_inv cfg c h fp hg)
  intro ok
  rw [bodyConfined_limited]
  apply bodyConfined_dataNT cfg _ ok _ c.profilesDistTable rfl h.profiles rfl
  · simp only [preOf, whereOf, conjuncts_none, List.nil_append]
    exact any_conj _ _ (ge (.raw "timestamp_ns") (.int c.fromNs)) (by simp) (leaf_logical _ _ (by decide)) (lowerTs_ok c _ rfl)
  · simp only [preOf, whereOf, conjuncts_none, List.nil_append]
    exact any_conj _ _ (le (.raw "timestamp_ns") (.int c.toNs)) (by simp) (leaf_logical _ _ (by decide)) (upperTsLe_ok c _ rfl)

/-- `MergeRawPlanner` -/
theorem mergeRaw_good (cfg : Cfg) (c : PCtx) (h : ProfCfg cfg c) (tu : Bytes) (fp : PQuery) (globals : List PCond)
    (hg : ∀ g ∈ fp.globals, g.noDate = true) : GoodM cfg (winProf c) (mergeRaw c tu fp globals) := by
  unfold mergeRaw
  apply GoodM.with_ _ _ _ (fpEntry_inv cfg c h fp hg)
  intro ok
  rw [bodyConfined_limited]
  apply bodyConfined_dataNT cfg _ ok _ c.profilesDistTable rfl h.profiles rfl
  · simp only [preOf, whereOf, conjuncts_none, List.nil_append]
    exact any_conj _ _ (ge (.raw "timestamp_ns") (.int c.fromNs)) (by simp) (leaf_logical _ _ (by decide)) (lowerTs_ok c _ rfl)
  · simp only [preOf, whereOf, conjuncts_none, List.nil_append]
    exact any_conj _ _ (lt (.raw "timestamp_ns") (.int c.toNs)) (by simp) (leaf_logical _ _ (by decide)) (upperTsLt_ok c _ rfl)

/-- a select over WITH entries only -/
theorem noTable_with_good {cfg : Cfg} {w : Window} (x : Sel) (hx : fromTable (fromOf x) = none) (n : String) {inner : Sel}
    (g : GoodM cfg w inner) : GoodM cfg w (x.with_ [(.named n, inner)]) := by
  apply GoodM.with_ x (fun ok => bodyConfined_noTable cfg w ok x hx)
  intro e he
  simp only [List.mem_singleton] at he
  subst he
  exact g.entry n

/-- **mergeTraces_good.** raw → pre_joined → joined → the aggregate: only `raw` reads a table -/
theorem mergeTraces_good (cfg : Cfg) (c : PCtx) (h : ProfCfg cfg c) (tu : Bytes) (fp : PQuery) (globals : List PCond)
    (hg : ∀ g ∈ fp.globals, g.noDate = true) : GoodM cfg (winProf c) (mergeTraces c tu fp globals) := by
  unfold mergeTraces mergeAggregated mergeJoined
  exact noTable_with_good _ rfl "joined" (noTable_with_good _ rfl "pre_joined" (noTable_with_good _ rfl "raw"
    (mergeRaw_good cfg c h tu fp globals hg)))

/-! ### index scans of `profiles_series` -/
theorem indexScan_body (cfg : Cfg) (c : PCtx) (ok : List Alias) (s : Sel) (t : String)
    (hf : fromTable (fromOf s) = some t) (hk : cfg.kind t = .index) (hp : preOf s = none)
    (first : List Expr) (globals : List PCond) (hw : whereOf s = some (and_ (first ++ dateConds c ++ globals.map condExpr)))
    (h1 : ∀ e ∈ first, Fine (winProf c) e) (hg : ∀ g ∈ globals, g.noDate = true) :
    bodyConfined cfg (winProf c) ok s = true := by
  apply bodyConfined_index cfg _ ok _ t hf hk rfl
  · rw [hp, hw, conjuncts_none, List.nil_append]
    apply all_conj
    intro e he
    simp only [List.mem_append, List.mem_map] at he
    rcases he with (he | he) | ⟨g, hgm, rfl⟩
    · exact h1 e he
    · exact fine_dateConds c e he
    · exact fine_condExpr _ g (hg g hgm)
  · rw [hp, hw, conjuncts_none, List.nil_append]
    exact any_conj _ _ (ge (.raw "date") (.str c.fromDate)) (by simp [dateConds]) (leaf_logical _ _ (by decide)) (dateLower_ge_date c)

/-- `GetLabelsPlanner` -/
theorem getLabels_good (cfg : Cfg) (c : PCtx) (h : ProfCfg cfg c) (groupBy : List Bytes) (fp : PQuery) (globals : List PCond)
    (hg : ∀ g ∈ fp.globals, g.noDate = true) (hm : ∀ g ∈ globals, g.noDate = true) :
    GoodM cfg (winProf c) (getLabels c groupBy fp globals) := by
  unfold getLabels
  apply GoodM.with_ _ _ _ (fpEntry_inv cfg c h fp hg)
  intro ok
  exact indexScan_body cfg c ok _ c.seriesTable rfl h.series rfl [.isIn (.raw "fingerprint") [.withRef (.named "fp")]] globals rfl
    (by intro e he; simp only [List.mem_singleton] at he; subst he; exact fine_isIn _ _ _) hm

/-- **selectSeries_good.** -/
theorem selectSeries_good (cfg : Cfg) (c : PCtx) (h : ProfCfg cfg c) (tu : Bytes) (avg : Bool) (step : Int) (groupBy : List Bytes)
    (fp : PQuery) (globals : List PCond) (hg : ∀ g ∈ fp.globals, g.noDate = true) (hm : ∀ g ∈ globals, g.noDate = true) :
    GoodM cfg (winProf c) (selectSeries c tu avg step (getLabels c groupBy fp globals) globals) := by
  unfold selectSeries
  apply GoodM.with_
  · intro ok
    apply bodyConfined_dataNT cfg _ ok _ c.profilesDistTable rfl h.profiles rfl
    · simp only [preOf, whereOf, conjuncts_none, List.nil_append]
      exact any_conj _ _ (ge (.raw "p.timestamp_ns") (.int c.fromNs)) (by simp) (leaf_logical _ _ (by decide)) (lowerTs_ok c _ rfl)
    · simp only [preOf, whereOf, conjuncts_none, List.nil_append]
      exact any_conj _ _ (le (.raw "p.timestamp_ns") (.int c.toNs)) (by simp) (leaf_logical _ _ (by decide)) (upperTsLe_ok c _ rfl)
  · intro e he
    simp only [List.mem_singleton] at he
    subst he
    exact (getLabels_good cfg c h groupBy fp globals hg hm).entry "labels"

/-- `AllTimeSeriesSelectPlanner` -/
theorem allTimeSeries_good (cfg : Cfg) (c : PCtx) (h : ProfCfg cfg c) : GoodM cfg (winProf c) (allTimeSeries c) := by
  refine ⟨trivial, fun ok => ?_⟩
  have := indexScan_body cfg c ok (allTimeSeries c) c.seriesDistTable rfl h.seriesDist rfl [] [] (by simp [allTimeSeries, whereOf])
    (by intro e he; cases he) (by intro g hg; cases hg)
  exact this

/-- `TimeSeriesSelectPlanner` -/
theorem timeSeriesSelect_good (cfg : Cfg) (c : PCtx) (h : ProfCfg cfg c) (fp : PQuery) (globals : List PCond)
    (hg : ∀ g ∈ fp.globals, g.noDate = true) (hm : ∀ g ∈ globals, g.noDate = true) :
    GoodM cfg (winProf c) (timeSeriesSelect c fp globals) := by
  unfold timeSeriesSelect
  apply GoodM.with_ _ _ _ (fpEntry_inv cfg c h fp hg)
  intro ok
  exact indexScan_body cfg c ok _ c.seriesDistTable rfl h.seriesDist rfl [.isIn (.raw "p.fingerprint") [.withRef (.named "fp")]] globals rfl
    (by intro e he; simp only [List.mem_singleton] at he; subst he; exact fine_isIn _ _ _) hm

theorem filterLabels_good {cfg : Cfg} {w : Window} (labels : List Bytes) {main : Sel} (g : GoodM cfg w main) :
    GoodM cfg w (filterLabels labels main) := by
  unfold filterLabels
  split
  · exact g
  · exact noTable_with_good _ rfl "pre_label_filter" g

/-- **planSeries_good.** -/
theorem profSeries_good (cfg : Cfg) (c : PCtx) (h : ProfCfg cfg c) (labels : List Bytes) (sel : Option PQuery)
    (hg : ∀ p, sel = some p → ∀ g ∈ p.globals, g.noDate = true) : GoodM cfg (winProf c) (Prof.planSeries c labels sel) := by
  unfold Prof.planSeries
  cases sel with
  | none => exact allTimeSeries_good cfg c h
  | some p =>
    exact filterLabels_good labels (timeSeriesSelect_good cfg c h p p.globals (hg _ rfl) (hg _ rfl))

/-- `GenericLabelsPlanner` without a selector -/
theorem labelsNoSel_good (cfg : Cfg) (c : PCtx) (h : ProfCfg cfg c) (col : String) (label : Option Bytes) :
    GoodM cfg (winProf c) (labelsNoSel c col label) := by
  refine ⟨trivial, fun ok => ?_⟩
  apply bodyConfined_index cfg _ ok _ c.ginDistTable rfl h.ginDist rfl
  · simp only [labelsNoSel, preOf, whereOf, conjuncts_none, List.nil_append]
    apply all_conj
    intro e he
    simp only [List.mem_append] at he
    rcases he with he | he
    · exact fine_dateConds c e he
    · cases label with
      | none => cases he
      | some l =>
        simp only [List.mem_singleton] at he; subst he
        exact fine_noDate_leaf _ _ (leaf_logical _ _ (by decide)) (by simp [mentionsDate, eq, isDateCol])
  · simp only [labelsNoSel, preOf, whereOf, conjuncts_none, List.nil_append]
    exact any_conj _ _ (ge (.raw "date") (.str c.fromDate)) (by simp [dateConds]) (leaf_logical _ _ (by decide)) (dateLower_ge_date c)

/-- a statement whose WITH list satisfies the invariant and whose body is confined on its own is `confined` -/
theorem GoodM.confined {cfg : Cfg} {w : Window} {s : Sel} (g : GoodM cfg w s) : confined cfg w s = true :=
  confined_of_inv cfg w isSubAlias s (.named "q") (g.entry "q")

end Qryn.Confine

namespace Qryn.Confine
open Qryn Qryn.Sql Qryn.Prof Qryn.Prom

/-! ### every condition `getMatchers` builds leaves the date column alone -/
theorem lookup_some_mem {β : Type} (l : List (String × β)) (k : String) (v : β) (h : l.lookup k = some v) : v ∈ l.map (·.2) := by
  induction l with
  | nil => cases h
  | cons e rest ih =>
    obtain ⟨k', v'⟩ := e
    simp only [List.lookup] at h
    split at h
    · injection h with h; subst h; simp
    · simp [ih h]

theorem pseudo_fields_noDate : ∀ f ∈ (Gen.ProfSelect.pseudoLabels.map (·.2)).map (·.1), isDateCol f = false := by decide

theorem matcherClause_noDate (field : String) (hf : isDateCol field = false) (op : Op) (v : Bytes) (c : PCond)
    (h : matcherClause field op v = some c) : c.noDate = true := by
  unfold matcherClause at h
  split at h
  · cases h
  · injection h with h
    subst h
    split <;> simp [PCond.noDate, hf]

theorem clauseOf_noDate (gre : Bytes → Bytes → Bool) (s : Selector) (g : PCond) (h : clauseOf gre s = some (.inl g)) : g.noDate = true := by
  unfold clauseOf at h
  split at h
  · next field inArr hp =>
    have hfield : isDateCol field = false := by
      have := lookup_some_mem _ _ _ hp
      exact pseudo_fields_noDate field (List.mem_map.mpr ⟨(field, inArr), this, rfl⟩)
    cases hm : matcherClause field s.op (selVal s) with
    | none => simp [hm] at h
    | some c =>
      simp only [hm, Option.map_some, Option.some.injEq, Sum.inl.injEq] at h
      subst h
      have := matcherClause_noDate field hfield _ _ c hm
      split <;> simp [PCond.noDate, this]
  · exfalso
    cases ho : (if acceptsEmptyP gre s = true then invOp s.op else some s.op) with
    | none => simp [ho] at h
    | some op =>
      simp only [ho, Option.bind_some] at h
      cases hm : matcherClause "val" op (selVal s) <;> simp [hm] at h

/-- **plan_noDate.** the global conditions of every selector list -/
theorem plan_noDate (gre : Bytes → Bytes → Bool) (table : String) (a b : Bytes) : ∀ (sels : List Selector) (q : PQuery), Prof.plan gre table a b sels = some q →
    ∀ g ∈ q.globals, g.noDate = true := by
  intro sels
  induction sels with
  | nil => intro q h; simp only [Prof.plan, Option.some.injEq] at h; subst h; intro g hg; cases hg
  | cons s ss ih =>
    intro q h
    simp only [Prof.plan] at h
    split at h
    · rename_i g q0 hc hq0
      injection h with h; subst h
      intro x hx
      simp only [List.mem_cons] at hx
      rcases hx with rfl | hx
      · exact clauseOf_noDate gre s _ hc
      · exact ih q0 hq0 x hx
    · rename_i k q0 _ hq0
      injection h with h; subst h
      exact ih q0 hq0
    · cases h

end Qryn.Confine

namespace Qryn.Confine
open Qryn Qryn.Sql Qryn.Prof Qryn.Prom

/-- every select of a union statement — each operand of the union and the main select — is confined on its own -/
def unionConfined (cfg : Cfg) (w : Window) (u : UnionStmt) : Bool :=
  u.pre.all (fun e => bodyConfined cfg w [] e.2) &&
  u.ops.all (fun s => bodyConfined cfg w [] s && isIndexSelection cfg s) &&
  u.post.all (fun e => bodyConfined cfg w [] e.2) && bodyConfined cfg w [] u.main

theorem labelsSel_body (cfg : Cfg) (c : PCtx) (h : ProfCfg cfg c) (col : String) (label : Option Bytes) (withFp : Bool) (ok : List Alias) :
    bodyConfined cfg (winProf c) ok (labelsSel c col label withFp) = true := by
  apply bodyConfined_index cfg _ ok _ c.ginDistTable rfl h.ginDist rfl
  · simp only [labelsSel, preOf, whereOf, conjuncts_none, List.nil_append]
    apply all_conj
    intro e he
    simp only [List.mem_append] at he
    rcases he with (he | he) | he
    · exact fine_dateConds c e he
    · cases withFp
      · cases he
      · simp only [if_true, List.mem_singleton] at he; subst he; exact fine_isIn _ _ _
    · cases label with
      | none => cases he
      | some l =>
        simp only [List.mem_singleton] at he; subst he
        exact fine_noDate_leaf _ _ (leaf_logical _ _ (by decide)) (by simp [mentionsDate, eq, isDateCol])
  · simp only [labelsSel, preOf, whereOf, conjuncts_none, List.nil_append]
    exact any_conj _ _ (ge (.raw "date") (.str c.fromDate)) (by simp [dateConds]) (leaf_logical _ _ (by decide)) (dateLower_ge_date c)

theorem labelsUnion_confined (cfg : Cfg) (c : PCtx) (h : ProfCfg cfg c) (col : String) (label : Option Bytes)
    (scripts : List PQuery) (hg : ∀ p ∈ scripts, ∀ g ∈ p.globals, g.noDate = true) :
    unionConfined cfg (winProf c) (labelsUnion c col label scripts) = true := by
  unfold unionConfined labelsUnion
  simp only [Bool.and_eq_true, List.all_map, List.all_eq_true, Function.comp, List.all_nil, Bool.true_and, Bool.and_true]
  refine ⟨fun p hp => ⟨selectorSel_body cfg c h p (hg p hp) [], ?_⟩, labelsSel_body cfg c h col label true []⟩
  simp [selectorSel, isIndexSelection, fromTable, h.gin]

/-- `ProfileSizePlanner` / AnalyzeQuery -/
theorem analyzeQuery_good (cfg : Cfg) (c : PCtx) (h : ProfCfg cfg c) (q : PQuery) (hg : ∀ g ∈ q.globals, g.noDate = true) :
    GoodM cfg (winProf c) (analyzeQuery c q) := by
  unfold analyzeQuery profileSize
  exact noTable_with_good _ rfl "pre_profile_size" (mergeProfiles_good cfg c h q q.globals hg)

theorem timeSeriesSelect_index (cfg : Cfg) (c : PCtx) (h : ProfCfg cfg c) (q : PQuery) (m : List PCond) :
    isIndexSelection cfg (timeSeriesSelect c q m) = true := by
  simp [timeSeriesSelect, Sel.with_, Sel.setWiths, isIndexSelection, fromTable, seriesFrom, h.seriesDist]

theorem seriesUnion_confined (cfg : Cfg) (c : PCtx) (h : ProfCfg cfg c) (labels : List Bytes)
    (scripts : List PQuery) (hg : ∀ p ∈ scripts, ∀ g ∈ p.globals, g.noDate = true) :
    unionConfined cfg (winProf c) (seriesUnion c labels scripts) = true := by
  have hops : ∀ p ∈ scripts, bodyConfined cfg (winProf c) [] (timeSeriesSelect c p p.globals) = true ∧
      isIndexSelection cfg (timeSeriesSelect c p p.globals) = true := by
    intro p hp
    exact ⟨(timeSeriesSelect_good cfg c h p p.globals (hg p hp) (hg p hp)).body [], timeSeriesSelect_index cfg c h _ _⟩
  have hpre : (match scripts with | [] => ([] : List (Alias × Sel)) | p :: _ => [(.named "fp", selectorSel c p)]).all
      (fun e => bodyConfined cfg (winProf c) [] e.2) = true := by
    cases scripts with
    | nil => rfl
    | cons p rest => simp [selectorSel_body cfg c h p (hg p (by simp)) []]
  have hpd : bodyConfined cfg (winProf c) [] preDistinctSel = true := bodyConfined_noTable _ _ _ _ rfl
  unfold unionConfined seriesUnion
  simp only
  split
  · simp only [Bool.and_eq_true, List.all_map, List.all_eq_true, Function.comp, List.all_nil, Bool.and_true]
    exact ⟨⟨List.all_eq_true.mp hpre, hops⟩, hpd⟩
  · simp only [Bool.and_eq_true, List.all_map, List.all_eq_true, Function.comp, List.all_cons, List.all_nil, Bool.and_true]
    exact ⟨⟨⟨List.all_eq_true.mp hpre, hops⟩, hpd⟩, bodyConfined_noTable _ _ _ _ rfl⟩

end Qryn.Confine
