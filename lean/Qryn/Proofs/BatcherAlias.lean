import Qryn.Ingest.BatcherAlias
import Qryn.Proofs.BatcherRect
import Qryn.Proofs.BatcherLocks
/-! The heap machine of `Ingest.BatcherAlias` has exactly the events of the value machine `Ingest.Batcher` when the open
    batch and the portion in flight never share a backing array (`Cfg.disciplined`): invariant `AInv`, `astep_refines`,
    `arun_refines`. -/
namespace Qryn.Ingest.BatcherAlias
open Qryn.Ingest.Batcher Qryn.Ingest.BatcherLocks

/-! ### slices -/

theorem getD_append_left (h : Heap) (x : List ReqId) (a : Nat) (ha : a < h.length) : (h ++ [x]).getD a [] = h.getD a [] := by
  simp [List.getD_eq_getElem?_getD, List.getElem?_append_left ha]

theorem getD_append_new (h : Heap) (x : List ReqId) : (h ++ [x]).getD h.length [] = x := by
  simp [List.getD_eq_getElem?_getD]

theorem getD_set_ne (h : Heap) (a b : Nat) (x : List ReqId) (hab : a ≠ b) : (h.set a x).getD b [] = h.getD b [] := by
  simp [List.getD_eq_getElem?_getD, List.getElem?_set_ne hab]

theorem getD_set_eq (h : Heap) (a : Nat) (x : List ReqId) (ha : a < h.length) : (h.set a x).getD a [] = x := by
  simp [List.getD_eq_getElem?_getD, List.getElem?_set_self ha]

/-- the slice is inside the heap -/
def InHeap (h : Heap) : Option Slice → Prop
  | none => True
  | some sl => sl.arr < h.length ∧ sl.len ≤ (h.getD sl.arr []).length

theorem readS_alloc (h : Heap) (x : List ReqId) (s : Option Slice) (hs : InHeap h s) : readS (h ++ [x]) s = readS h s := by
  cases s with
  | none => rfl
  | some sl => simp only [readS]; rw [getD_append_left h x sl.arr hs.1]

theorem inHeap_alloc (h : Heap) (x : List ReqId) (s : Option Slice) (hs : InHeap h s) : InHeap (h ++ [x]) s := by
  cases s with
  | none => trivial
  | some sl =>
    refine ⟨by simp; have := hs.1; omega, ?_⟩
    rw [getD_append_left h x sl.arr hs.1]; exact hs.2

theorem readS_new (h : Heap) (x : List ReqId) : readS (h ++ [x]) (some ⟨h.length, x.length⟩) = x := by
  simp [readS, getD_append_new]

theorem inHeap_new (h : Heap) (x : List ReqId) (n : Nat) (hn : n ≤ x.length) : InHeap (h ++ [x]) (some ⟨h.length, n⟩) := by
  refine ⟨by simp, ?_⟩
  rw [getD_append_new]; exact hn

/-- different arrays: a write through one slice is invisible through the other -/
def Apart : Option Slice → Option Slice → Prop
  | some a, some b => a.arr ≠ b.arr
  | _, _ => True

theorem length_writeAt (l : List ReqId) (i : Nat) (x : ReqId) (hi : i ≤ l.length) : i + 1 ≤ (writeAt l i x).length := by
  simp [writeAt, List.length_take]; omega

theorem take_writeAt (l : List ReqId) (i : Nat) (x : ReqId) (hi : i ≤ l.length) :
    (writeAt l i x).take (i + 1) = l.take i ++ [x] := by
  unfold writeAt
  have hl : (l.take i).length = i := by simp [List.length_take]; omega
  rw [List.take_append, hl]
  simp [List.take_of_length_le, hl]

/-- `append`: the new slice shows the old elements and the new one; a slice on another array shows what it showed -/
theorem sappend_spec (h : Heap) (s other : Option Slice) (p : ReqId) (g : Bool) (hs : InHeap h s) (ho : InHeap h other)
    (hap : Apart s other) :
    readS (sappend h s p g).1 (sappend h s p g).2 = readS h s ++ [p] ∧
    readS (sappend h s p g).1 other = readS h other ∧
    InHeap (sappend h s p g).1 (sappend h s p g).2 ∧ InHeap (sappend h s p g).1 other ∧
    Apart (sappend h s p g).2 other := by
  cases s with
  | none =>
    simp only [sappend]
    refine ⟨?_, readS_alloc _ _ _ ho, inHeap_new h [p] 1 (by simp), inHeap_alloc _ _ _ ho, ?_⟩
    · have := readS_new h [p]; simpa [readS] using this
    · cases other with
      | none => trivial
      | some b => simp only [Apart]; have := ho.1; omega
  | some sl =>
    simp only [sappend]
    cases g with
    | true =>
      simp only [if_true]
      refine ⟨?_, readS_alloc _ _ _ ho, ?_, inHeap_alloc _ _ _ ho, ?_⟩
      · have hlen : (readS h (some sl) ++ [p]).length = sl.len + 1 := by
          have := hs.2; simp only [readS, List.length_append, List.length_take, List.length_cons, List.length_nil]; omega
        have := readS_new h (readS h (some sl) ++ [p])
        rw [hlen] at this; exact this
      · refine inHeap_new h _ _ ?_
        have := hs.2; simp only [readS, List.length_append, List.length_take, List.length_cons, List.length_nil]; omega
      · cases other with
        | none => trivial
        | some b => simp only [Apart]; have := ho.1; omega
    | false =>
      simp only [Bool.false_eq_true, if_false]
      refine ⟨?_, ?_, ?_, ?_, ?_⟩
      · simp only [readS]
        rw [getD_set_eq h sl.arr _ hs.1, take_writeAt _ _ _ hs.2]
      · cases other with
        | none => rfl
        | some b =>
          simp only [readS]
          rw [getD_set_ne h sl.arr b.arr _ hap]
      · refine ⟨by simp; exact hs.1, ?_⟩
        rw [getD_set_eq h sl.arr _ hs.1]
        exact length_writeAt _ _ _ hs.2
      · cases other with
        | none => trivial
        | some b =>
          refine ⟨by simp; exact ho.1, ?_⟩
          rw [getD_set_ne h sl.arr b.arr _ hap]; exact ho.2
      · cases other with
        | none => trivial
        | some b => exact hap

theorem scopy_spec (h : Heap) (s other : Option Slice) (hs : InHeap h s) (ho : InHeap h other) :
    readS (scopy h s).1 (scopy h s).2 = readS h s ∧ readS (scopy h s).1 other = readS h other ∧
    InHeap (scopy h s).1 (scopy h s).2 ∧ InHeap (scopy h s).1 other ∧ Apart other (scopy h s).2 ∧
    InHeap (scopy h s).1 s ∧ readS (scopy h s).1 s = readS h s := by
  simp only [scopy]
  refine ⟨readS_new h _, readS_alloc _ _ _ ho, inHeap_new h _ _ (Nat.le_refl _), inHeap_alloc _ _ _ ho, ?_,
    inHeap_alloc _ _ _ hs, readS_alloc _ _ _ hs⟩
  cases other with
  | none => trivial
  | some b => simp only [Apart]; have := ho.1; omega


/-! ### the invariant and the simulation -/

structure AInv (m : ASvc) : Prop where
  rin : InHeap m.heap m.results
  pin : InHeap m.heap m.pres
  apart : Apart m.results m.pres

theorem ainv_init (p : Plan) (mq : Nat) : AInv (ASvc.init p mq) := ⟨trivial, trivial, trivial⟩

theorem view_init (p : Plan) (mq : Nat) : view (ASvc.init p mq) = Svc.init p mq := rfl

theorem request_refines (m : ASvc) (hI : AInv m) (r : Req) (g : Bool) :
    stepRequest (view m) r = (view (astepRequest m r g).1, (astepRequest m r g).2) ∧ AInv (astepRequest m r g).1 := by
  have hv1 : (view m).running = m.s.running := rfl
  have hv2 : (view m).plan = m.s.plan := rfl
  have hv3 : (view m).cols = m.s.cols := rfl
  cases hrun : m.s.running with
  | false =>
    have e1 : astepRequest m r g = (m, [.resolved r.id .err]) := by unfold astepRequest; simp [hrun]
    have e2 : stepRequest (view m) r = (view m, [.resolved r.id .err]) := by unfold stepRequest; simp [hv1, hrun]
    rw [e1, e2]; exact ⟨rfl, hI⟩
  | true =>
    cases hp : processRequest m.s.plan r m.s.cols with
    | error f =>
      have e1 : astepRequest m r g = ({ m with s := { m.s with crashed := true } }, [.crash]) := by
        unfold astepRequest; simp [hrun, hp]
      have e2 : stepRequest (view m) r = ({ view m with crashed := true }, [.crash]) := by
        unfold stepRequest; simp [hv1, hv2, hv3, hrun, hp]
      rw [e1, e2]; exact ⟨rfl, ⟨hI.rin, hI.pin, hI.apart⟩⟩
    | ok res =>
      by_cases hz : (res.err || res.inserted == 0) = true
      · have e1 : astepRequest m r g = ({ m with s := { m.s with cols := res.cols } },
            [.resolved r.id (if res.err then .err else .ok)]) := by
          unfold astepRequest; simp only [hrun, hp, hz]; simp
        have e2 : stepRequest (view m) r = ({ view m with cols := res.cols },
            [.resolved r.id (if res.err then .err else .ok)]) := by
          unfold stepRequest; simp only [hv1, hv2, hv3, hrun, hp, hz]; simp
        rw [e1, e2]; exact ⟨rfl, ⟨hI.rin, hI.pin, hI.apart⟩⟩
      · have e1 : astepRequest m r g = ({ m with s := { m.s with cols := res.cols, size := m.s.size + r.size, flushPlanned := m.s.flushPlanned || (decide (m.s.maxQueue > 0) && decide (m.s.size + r.size > m.s.maxQueue)) }, heap := (sappend m.heap m.results r.id g).1, results := (sappend m.heap m.results r.id g).2 }, []) := by
          unfold astepRequest; simp only [hrun, hp, hz]; simp
        have e2 : stepRequest (view m) r = ({ view m with cols := res.cols, size := (view m).size + r.size, pending := (view m).pending ++ [r.id], flushPlanned := (view m).flushPlanned || (decide ((view m).maxQueue > 0) && decide ((view m).size + r.size > (view m).maxQueue)) }, []) := by
          unfold stepRequest; simp only [hv1, hv2, hv3, hrun, hp, hz]; simp
        obtain ⟨h1, h2, h3, h4, h5⟩ := sappend_spec m.heap m.results m.pres r.id g hI.rin hI.pin hI.apart
        rw [e1, e2]
        refine ⟨?_, ⟨h3, h4, h5⟩⟩
        simp only [view, h1, h2] <;> rfl

theorem swapSlices_spec (cfg : Cfg) (hd : cfg.disciplined = true) (h : Heap) (rs : Option Slice) (hr : InHeap h rs) :
    readS (swapSlices cfg h rs).1 (swapSlices cfg h rs).2.1 = [] ∧
    readS (swapSlices cfg h rs).1 (swapSlices cfg h rs).2.2 = readS h rs ∧
    InHeap (swapSlices cfg h rs).1 (swapSlices cfg h rs).2.1 ∧ InHeap (swapSlices cfg h rs).1 (swapSlices cfg h rs).2.2 ∧
    Apart (swapSlices cfg h rs).2.1 (swapSlices cfg h rs).2.2 := by
  obtain ⟨c1, c2, c3, c4, c5, c6, c7⟩ := scopy_spec h rs rs hr hr
  rcases cfg with ⟨a, p, rl⟩
  cases a <;> cases p <;> simp only [swapSlices] <;> simp [Cfg.disciplined] at hd
  -- nil, moved
  · exact ⟨by simp [readS], by simp, trivial, hr, trivial⟩
  -- nil, copied
  · exact ⟨by simp [readS], c1, trivial, c3, trivial⟩
  -- fresh, moved
  · refine ⟨?_, readS_alloc _ _ _ hr, inHeap_new h [] 0 (Nat.le_refl _), inHeap_alloc _ _ _ hr, ?_⟩
    · simp [readS]
    · cases rs with
      | none => trivial
      | some b => simp only [Apart]; have := hr.1; omega
  -- fresh, copied
  · refine ⟨?_, ?_, inHeap_new _ [] 0 (Nat.le_refl _), inHeap_alloc _ _ _ c3, ?_⟩
    · simp [readS]
    · rw [readS_alloc _ _ _ c3]; exact c1
    · simp only [scopy, Apart, List.length_append, List.length_cons, List.length_nil]; omega
  -- reslice, copied
  · refine ⟨?_, c1, ?_, c3, ?_⟩
    · cases rs with
      | none => rfl
      | some b => simp [readS]
    · cases rs with
      | none => trivial
      | some b => exact ⟨by simp [scopy]; have := hr.1; omega, by simp⟩
    · cases rs with
      | none => trivial
      | some b => simp only [scopy, Option.map, Apart]; have := hr.1; omega

theorem swap_refines (cfg : Cfg) (hd : cfg.disciplined = true) (m : ASvc) (hI : AInv m) :
    stepSwap (view m) = (view (astepSwap cfg m).1, (astepSwap cfg m).2) ∧ AInv (astepSwap cfg m).1 := by
  have hg : ((view m).running && (view m).flushPlanned && (view m).client && (view m).inflight.isNone) =
      (m.s.running && m.s.flushPlanned && m.s.client && m.s.inflight.isNone) := by
    simp [view]
  by_cases hen : (m.s.running && m.s.flushPlanned && m.s.client && m.s.inflight.isNone) = true
  · have hinf : m.s.inflight = none := by
      simp only [Bool.and_eq_true, Option.isNone_iff_eq_none] at hen; exact hen.2
    by_cases hz : m.s.size = 0
    · have e1 : astepSwap cfg m = ({ m with s := { m.s with flushPlanned := false } }, []) := by
        unfold astepSwap; simp only [hen, hz]; simp
      have e2 : stepSwap (view m) = ({ view m with flushPlanned := false }, []) := by
        unfold stepSwap; rw [hg]; simp only [hen]; simp [view, hz]
      rw [e1, e2]; exact ⟨rfl, ⟨hI.rin, hI.pin, hI.apart⟩⟩
    · cases hc : m.s.cols with
      | none =>
        have e1 : astepSwap cfg m = ({ m with s := { m.s with crashed := true } }, [.crash]) := by
          unfold astepSwap; simp only [hen, hz, hc]; simp
        have e2 : stepSwap (view m) = ({ view m with crashed := true }, [.crash]) := by
          unfold stepSwap; rw [hg]; simp only [hen]; simp [view, hz, hc]
        rw [e1, e2]; exact ⟨rfl, ⟨hI.rin, hI.pin, hI.apart⟩⟩
      | some cs =>
        have e1 : astepSwap cfg m = ({ m with s := { m.s with flushPlanned := false, cols := some (acquire m.s.plan), size := 0, inflight := some ⟨cs, [], m.s.size⟩ }, heap := (swapSlices cfg m.heap m.results).1, results := (swapSlices cfg m.heap m.results).2.1, pres := (swapSlices cfg m.heap m.results).2.2, began := false }, []) := by
          unfold astepSwap; simp only [hen, hz, hc]; simp
        have e2 : stepSwap (view m) = ({ view m with flushPlanned := false, cols := some (acquire m.s.plan), size := 0, pending := [], inflight := some ⟨cs, readS m.heap m.results, m.s.size⟩ }, []) := by
          unfold stepSwap; rw [hg]; simp only [hen]; simp [view, hz, hc]
        obtain ⟨h1, h2, h3, h4, h5⟩ := swapSlices_spec cfg hd m.heap m.results hI.rin
        rw [e1, e2]
        refine ⟨?_, ⟨h3, h4, h5⟩⟩
        simp only [view, h1, h2, Option.map]
  · have hen' : (m.s.running && m.s.flushPlanned && m.s.client && m.s.inflight.isNone) = false := (Bool.not_eq_true _).mp hen
    have e1 : astepSwap cfg m = (m, []) := by unfold astepSwap; simp only [hen']; simp
    have e2 : stepSwap (view m) = (view m, []) := by unfold stepSwap; rw [hg]; simp only [hen']; simp
    rw [e1, e2]; exact ⟨rfl, hI⟩

theorem begin_refines (cfg : Cfg) (m : ASvc) (hI : AInv m) :
    view (astepBegin cfg m).1 = view m ∧ (astepBegin cfg m).2 = [] ∧ AInv (astepBegin cfg m).1 := by
  by_cases hg : (m.s.inflight.isSome && !m.began) = true
  · cases hr : cfg.release with
    | portion =>
      have e1 : astepBegin cfg m = ({ m with began := true }, []) := by unfold astepBegin; simp only [hg, hr]; simp
      rw [e1]; exact ⟨rfl, rfl, ⟨hI.rin, hI.pin, hI.apart⟩⟩
    | copy =>
      have e1 : astepBegin cfg m = ({ m with heap := (scopy m.heap m.pres).1, pres := (scopy m.heap m.pres).2, began := true }, []) := by
        unfold astepBegin; simp only [hg, hr]; simp
      obtain ⟨c1, c2, c3, c4, c5, _, _⟩ := scopy_spec m.heap m.pres m.results hI.pin hI.rin
      rw [e1]
      refine ⟨?_, rfl, ⟨c4, c3, c5⟩⟩
      simp only [view, c1, c2]
  · have hg' : (m.s.inflight.isSome && !m.began) = false := (Bool.not_eq_true _).mp hg
    have e1 : astepBegin cfg m = (m, []) := by unfold astepBegin; simp only [hg']; simp
    rw [e1]; exact ⟨rfl, rfl, hI⟩

theorem end_refines (m : ASvc) (hI : AInv m) (o : Outcome) (hb : m.began = true) :
    stepDoResult (view m) o = (view (astepEnd m o).1, (astepEnd m o).2) ∧ AInv (astepEnd m o).1 := by
  cases hinf : m.s.inflight with
  | none =>
    have e1 : astepEnd m o = (m, []) := by unfold astepEnd; simp [hinf]
    have e2 : stepDoResult (view m) o = (view m, []) := by unfold stepDoResult; simp [view, hinf]
    rw [e1, e2]; exact ⟨rfl, hI⟩
  | some q =>
    have e1 : astepEnd m o = ({ m with s := { m.s with inflight := none, client := (o == .ok) }, pres := none, began := false }, Event.insert q.cols (readS m.heap m.pres) o :: (readS m.heap m.pres).map (fun id => Event.resolved id o)) := by
      unfold astepEnd; simp [hinf, hb]
    have e2 : stepDoResult (view m) o = ({ view m with inflight := none, client := (o == .ok) }, Event.insert q.cols (readS m.heap m.pres) o :: (readS m.heap m.pres).map (fun id => Event.resolved id o)) := by
      unfold stepDoResult; simp [view, hinf]
    rw [e1, e2]
    refine ⟨?_, ⟨hI.rin, trivial, ?_⟩⟩
    · simp [view]
    · cases m.results <;> trivial

/-- **one step of the heap machine = the ops of the value machine it stands for** (events equal, states related,
    invariant kept) -/
theorem astep_refines (cfg : Cfg) (hd : cfg.disciplined = true) (m : ASvc) (hI : AInv m) (op : AOp) :
    (astep cfg m op).2 = (run (view m) (absOp m op)).2 ∧ view (astep cfg m op).1 = (run (view m) (absOp m op)).1 ∧
    AInv (astep cfg m op).1 := by
  have hvc : (view m).crashed = m.s.crashed := rfl
  by_cases hcr : m.s.crashed = true
  · have e1 : astep cfg m op = (m, []) := by simp [astep, hcr]
    rw [e1, run_of_crashed (view m) _ (by rw [hvc]; exact hcr)]
    exact ⟨rfl, rfl, hI⟩
  have hcr' : m.s.crashed = false := by simpa using hcr
  have hvcr : (view m).crashed = false := by rw [hvc]; exact hcr'
  cases op with
  | request r g =>
    obtain ⟨h1, h2⟩ := request_refines m hI r g
    simp only [astep, hcr', absOp, run_single, step_request _ r hvcr, Bool.false_eq_true, if_false]
    rw [h1]; exact ⟨rfl, rfl, h2⟩
  | trigger k =>
    simp only [astep, hcr', absOp, run_single, step_trigger _ k hvcr, Bool.false_eq_true, if_false]
    refine ⟨?_, ?_, ⟨hI.rin, hI.pin, hI.apart⟩⟩ <;> simp [view, hcr']
  | connect ok =>
    simp only [astep, hcr', absOp, run_single, step_connect _ ok hvcr, Bool.false_eq_true, if_false]
    have : stepConnect (view m) ok = (view { m with s := (stepConnect m.s ok).1 }, (stepConnect m.s ok).2) := by
      unfold stepConnect; simp only [view, Option.isNone_map]; split <;> rfl
    rw [this]; exact ⟨rfl, rfl, ⟨hI.rin, hI.pin, hI.apart⟩⟩
  | swap =>
    obtain ⟨h1, h2⟩ := swap_refines cfg hd m hI
    simp only [astep, hcr', absOp, run_single, step_swap _ hvcr, Bool.false_eq_true, if_false]
    rw [h1]; exact ⟨rfl, rfl, h2⟩
  | insertBegin =>
    obtain ⟨h1, h2, h3⟩ := begin_refines cfg m hI
    simp only [astep, hcr', absOp, run_nil, Bool.false_eq_true, if_false]
    exact ⟨h2, h1, h3⟩
  | insertEnd o =>
    simp only [astep, hcr', absOp, Bool.false_eq_true, if_false]
    by_cases hb : m.began = true
    · obtain ⟨h1, h2⟩ := end_refines m hI o hb
      simp only [hb, if_true, run_single, step_doResult _ o hvcr]
      rw [h1]; exact ⟨rfl, rfl, h2⟩
    · have hb' : m.began = false := by simpa using hb
      have e1 : astepEnd m o = (m, []) := by unfold astepEnd; cases m.s.inflight <;> simp [hb']
      simp only [hb', Bool.false_eq_true, if_false, run_nil, e1]
      refine ⟨?_, ?_, hI⟩ <;> simp
  | ping ok =>
    simp only [astep, hcr', absOp, run_single, step_ping _ ok hvcr, Bool.false_eq_true, if_false]
    have : stepPing (view m) ok = (view { m with s := (stepPing m.s ok).1 }, (stepPing m.s ok).2) := by
      unfold stepPing; simp only [view, Option.isNone_map]; split <;> rfl
    rw [this]; exact ⟨rfl, rfl, ⟨hI.rin, hI.pin, hI.apart⟩⟩
  | stop =>
    simp only [astep, hcr', absOp, run_single, step_stop _ hvcr, Bool.false_eq_true, if_false]
    have : stepStop (view m) = (view { m with s := (stepStop m.s).1 }, (stepStop m.s).2) := by
      unfold stepStop; simp only [view, Option.isNone_map]; split <;> rfl
    rw [this]; exact ⟨rfl, rfl, ⟨hI.rin, hI.pin, hI.apart⟩⟩

/-- **arun_refines.** When the open batch and the portion in flight never share a backing array, every run of the heap
    machine — requests arriving before the swap, between the swap and the entry into `client.Do`, and while the INSERT
    is in flight, with any `append` growth decisions — has exactly the events of the value machine on `absRun`. -/
theorem arun_refines (cfg : Cfg) (hd : cfg.disciplined = true) (ops : List AOp) (m : ASvc) (hI : AInv m) :
    (arun cfg m ops).2 = (run (view m) (absRun cfg m ops)).2 ∧ view (arun cfg m ops).1 = (run (view m) (absRun cfg m ops)).1 ∧
    AInv (arun cfg m ops).1 := by
  induction ops generalizing m with
  | nil => exact ⟨rfl, rfl, hI⟩
  | cons op ops ih =>
    simp only [arun, absRun, run_append']
    obtain ⟨h1, h2, h3⟩ := astep_refines cfg hd m hI op
    obtain ⟨h4, h5, h6⟩ := ih _ h3
    rw [← h2]
    exact ⟨by rw [h1, h4], h5, h6⟩

theorem absOp_requests (m : ASvc) (op : AOp) :
    ∀ o ∈ absOp m op, (∃ r g, o = .request r ∧ op = .request r g) ∨ (∀ r, o ≠ .request r) := by
  intro o ho
  cases op <;> simp only [absOp] at ho
  case request r g => simp at ho; exact Or.inl ⟨r, g, ho, rfl⟩
  case insertBegin => simp at ho
  case insertEnd o' =>
    split at ho
    · simp at ho; subst ho; exact Or.inr (fun r => by simp)
    · simp at ho
  all_goals (simp at ho; subst ho; exact Or.inr (fun r => by simp))

theorem absRun_mem (cfg : Cfg) (ops : List AOp) (m : ASvc) :
    ∀ o ∈ absRun cfg m ops, (∃ r g, o = .request r ∧ AOp.request r g ∈ ops) ∨ (∀ r, o ≠ .request r) := by
  induction ops generalizing m with
  | nil => intro o ho; simp [absRun] at ho
  | cons op ops ih =>
    intro o ho
    simp only [absRun, List.mem_append] at ho
    rcases ho with ho | ho
    · rcases absOp_requests m op o ho with ⟨r, g, h1, h2⟩ | h
      · exact Or.inl ⟨r, g, h1, by simp [h2]⟩
      · exact Or.inr h
    · rcases ih _ o ho with ⟨r, g, h1, h2⟩ | h
      · exact Or.inl ⟨r, g, h1, List.mem_cons_of_mem _ h2⟩
      · exact Or.inr h

theorem absRun_wellFormed {cfg} {R : ReqId → Req} (ops : List AOp) (m : ASvc) (hW : ∀ op ∈ ops, AWellFormed R op) :
    ∀ o ∈ absRun cfg m ops, WellFormed R o := by
  intro o ho
  rcases absRun_mem cfg ops m o ho with ⟨r, g, rfl, hr⟩ | h
  · exact hW _ hr
  · cases o with
    | request r => exact absurd rfl (h r)
    | _ => trivial

theorem absRun_good {cfg} {p : Plan} {R : ReqId → Req} (ops : List AOp) (m : ASvc) (hG : ∀ op ∈ ops, AGoodOp p R op) :
    ∀ o ∈ absRun cfg m ops, GoodOp p R o := by
  intro o ho
  rcases absRun_mem cfg ops m o ho with ⟨r, g, rfl, hr⟩ | h
  · exact hG _ hr
  · cases o with
    | request r => exact absurd rfl (h r)
    | _ => trivial

end Qryn.Ingest.BatcherAlias
