import Qryn.Sql.Escape
/-! Helper lemmas for C10: the escaped body of any byte string is decoded by the lexer, byte for byte. -/
namespace Qryn.Sql
open Qryn Qryn.Lex

/-- The only fact about the regenerated table that the proof needs, decided over all 256 bytes:
    inside a string literal, the replacement of byte `c` is read back by the lexer as exactly `c`. -/
theorem esc1_reads_back : ∀ c : UInt8, run .str (esc1 c) = (.str, [.sByte c]) := by
  apply forall_byte_of_lt
  decide +kernel

theorem run_str_escapeBody (s : Bytes) : run .str (escapeBody s) = (.str, s.map .sByte) := by
  induction s with
  | nil => simp [escapeBody_nil, run]
  | cons c s ih =>
    rw [escapeBody_cons, run_append, esc1_reads_back, ih]
    simp

/-- from a state where a quote opens a literal: the events the opening quote produces -/
def openEv : St → List Ev
  | .normal => [.sOpen]
  | .word => [.wEnd, .sOpen]
  | .minus => [.p 45, .sOpen]
  | .slash => [.p 47, .sOpen]
  | _ => []

theorem step_open (q : St) (h : q.safe = true) : step q 39 = (.str, openEv q) := by
  cases q <;> simp_all [St.safe, step, stepNormal, openEv, isWordByte]

/-- running the lexer over `quote s` from any safe state: one literal is opened, its decoded bytes are
    exactly `s`, and the lexer is left just after the closing quote. -/
theorem run_quote (q : St) (h : q.safe = true) (s : Bytes) :
    run q (quote s) = (.strQ, openEv q ++ s.map .sByte) := by
  unfold quote
  rw [show (39 : UInt8) :: escapeBody s ++ [39] = [39] ++ (escapeBody s ++ [39]) by simp]
  rw [run_append]
  have h1 : run q [39] = (.str, openEv q) := by simp [run, step_open q h]
  rw [h1, run_append, run_str_escapeBody]
  simp [run, step]

end Qryn.Sql
