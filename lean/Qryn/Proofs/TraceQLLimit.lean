import Qryn.Proofs.TraceQLTree
/-! C11: LIMIT keeps a prefix; only index rows inside the window count. -/
namespace Qryn.TraceQL
open Qryn Qryn.Sql

theorem evalSelG_limit (o : Oracles) (ao : AggOracles) (db : Db) (own : Bool) (env : Env) (ws : List (Alias × Sel)) (d : Bool)
    (cols : List Expr) (f : Expr) (w : Option Expr) (k0 : Expr) (ks : List Expr) (hav : Option Expr) (ob : List Expr) (n : Int) :
    evalSelG o ao db own env (.mk ws d cols (some f) [] none w (k0 :: ks) hav ob (some (.int n))) =
      (evalSelG o ao db own env (.mk ws d cols (some f) [] none w (k0 :: ks) hav ob none)).take n.toNat := by
  rw [evalSelG_grouped, evalSelG_grouped]
  simp [groupsG, limitG, List.map_take]

/-- what the model's root select looks like: a grouped select without LIMIT -/
def IsGrouped (X : Sel) : Prop :=
  ∃ ws d cols f w k0 ks hav ob, X = .mk ws d cols (some f) [] none w (k0 :: ks) hav ob none

theorem indexLimit_eval (o : Oracles) (ao : AggOracles) (db : Db) (own : Bool) (env : Env) (c : Ctx) (X : Sel) (hX : IsGrouped X) :
    evalSelG o ao db own env (indexLimit c X) =
      (if c.limit = 0 then evalSelG o ao db own env X else (evalSelG o ao db own env X).take c.limit.toNat) := by
  obtain ⟨ws, d, cols, f, w, k0, ks, hav, ob, rfl⟩ := hX
  unfold indexLimit
  split
  · rfl
  · simp only [Sel.setLimit]; exact evalSelG_limit ..

theorem TraceRows.take {T : Table} {P : Bytes → Prop} (h : TraceRows T P) (n : Nat) :
    ((T.take n).map (fun r => r.get "trace_id")).Nodup ∧ (T.take n).length ≤ n ∧
    (∀ r ∈ T.take n, ∃ tr, r.get "trace_id" = .str tr ∧ P tr) ∧
    ((T.take n).length < n → ∀ tr, P tr → ∃ r ∈ T.take n, r.get "trace_id" = .str tr) := by
  refine ⟨?_, List.length_take_le n T, ?_, ?_⟩
  · rw [List.map_take]
    exact List.Nodup.sublist (List.take_sublist n _) h.nodup
  · intro r hr
    have hrT := List.mem_of_mem_take hr
    obtain ⟨tr, vs, htr, _, _⟩ := h.shape r hrT
    exact ⟨tr, htr, (h.mem tr).mp ⟨r, hrT, htr⟩⟩
  · intro hlt tr hp
    have : T.take n = T := by
      apply List.take_of_length_le
      rw [List.length_take] at hlt
      omega
    rw [this]
    exact (h.mem tr).mpr hp

theorem IsGrouped.setWiths {X : Sel} (h : IsGrouped X) (ws : List (Alias × Sel)) : IsGrouped (X.setWiths ws) := by
  obtain ⟨ws0, d, cols, f, w, k0, ks, hav, ob, rfl⟩ := h
  exact ⟨ws, d, cols, f, w, k0, ks, hav, ob, rfl⟩

theorem IsGrouped.andHaving {X : Sel} (h : IsGrouped X) (cl : List Expr) : IsGrouped (X.andHaving cl) := by
  obtain ⟨ws0, d, cols, f, w, k0, ks, hav, ob, rfl⟩ := h
  exact ⟨ws0, d, cols, f, w, k0, ks, _, ob, rfl⟩

theorem indexGroupBy_grouped (pfx : String) (main : Sel) : IsGrouped (indexGroupBy pfx main) := by
  unfold indexGroupBy Sel.with_
  exact IsGrouped.setWiths ⟨_, _, _, _, _, _, _, _, _, rfl⟩ _

theorem simpleSel_grouped (c : Ctx) (pfx : String) (script : Script) (X : Sel) (h : simpleSel c pfx script = .ok X) : IsGrouped X := by
  unfold simpleSel at h
  cases hc : check script with
  | error m => simp [hc, bind, Except.bind] at h
  | ok u =>
    simp only [hc, bind, Except.bind] at h
    cases script with
    | nil => simp [throw, throwThe, MonadExceptOf.throw] at h
    | cons p rest =>
      obtain ⟨s, op⟩ := p
      simp only at h
      have hagg : ∀ (a : Agg) (main : Sel), aggregator pfx a (indexGroupBy pfx main) = .ok X → IsGrouped X := by
        intro a main hx
        unfold aggregator at hx
        cases hf : cmpSql a.cmp with
        | none => simp [hf, bind, Except.bind, throw, throwThe, MonadExceptOf.throw] at hx
        | some f =>
          cases hv : aggCmpText a with
          | error m => simp [hf, hv, bind, Except.bind, pure, Except.pure] at hx
          | ok v =>
            simp [hf, hv, bind, Except.bind, pure, Except.pure] at hx
            rw [← hx]; exact (indexGroupBy_grouped pfx main).andHaving _
      cases ha : s.agg with
      | none =>
        cases he : s.attrs with
        | none =>
          simp only [ha, he, pure, Except.pure, Except.ok.injEq] at h
          rw [← h]; exact indexGroupBy_grouped pfx _
        | some e =>
          simp only [ha, he] at h
          cases hat : attrCondition c (analyzeCond [] e).1 (analyzeCond [] e).2 "" with
          | error m => simp [hat] at h
          | ok SA =>
            simp only [hat, pure, Except.pure, Except.ok.injEq] at h
            rw [← h]; exact indexGroupBy_grouped pfx _
      | some a =>
        cases he : s.attrs with
        | none => simp only [ha, he, pure, Except.pure] at h; exact hagg a _ h
        | some e =>
          simp only [ha, he] at h
          cases hat : attrCondition c (analyzeCond [] e).1 (analyzeCond [] e).2 a.attr with
          | error m => simp [hat] at h
          | ok SA => simp only [hat] at h; exact hagg a _ h

theorem rootSel_grouped (c : Ctx) (script : Script) (X : Sel) (h : rootSel c script = .ok X) : IsGrouped X := by
  unfold rootSel at h
  split at h
  · simp [throw, throwThe, MonadExceptOf.throw] at h
  · exact simpleSel_grouped c "" _ X h
  · simp only [bind, Except.bind] at h
    cases hp : planTree script with
    | error m => simp [hp] at h
    | ok t =>
      simp only [hp] at h
      cases t with
      | simple sc k => exact simpleSel_grouped c _ sc X (by simpa [treeSel] using h)
      | complex isAnd k l r =>
        simp only [treeSel, bind, Except.bind] at h
        cases hl : treeSel c l with
        | error m => simp [hl] at h
        | ok ls =>
          cases hr : treeSel c r with
          | error m => simp [hl, hr] at h
          | ok rs =>
            simp [hl, hr, pure, Except.pure] at h
            rw [← h]
            exact ⟨_, _, _, _, _, _, _, _, _, rfl⟩

/-! ### the window -/
/-- the database without the index rows outside the window -/
def TraceDb.inWindow (d : TraceDb) (c : Ctx) : TraceDb := { d with attrs := d.attrs.filter (admissible c) }

theorem spanTerm_window (o : Oracles) (c : Ctx) (d : TraceDb) (k : SpanKey) (t : Term) :
    spanTerm o c (d.inWindow c) k t = spanTerm o c d k t := by
  simp only [spanTerm, TraceDb.inWindow, List.any_filter]
  congr 1; funext a
  cases admissible c a <;> simp

theorem spans_window (c : Ctx) (d : TraceDb) : spans c (d.inWindow c) = spans c d := by
  simp [spans, TraceDb.inWindow, List.filter_filter]

theorem decide_eq_beq' {α} [DecidableEq α] (a b : α) : decide (a = b) = (a == b) := by
  rw [Bool.eq_iff_iff]; simp

theorem aggValue_window (o : Oracles) (c : Ctx) (d : TraceDb) (attr : String) (k : SpanKey) :
    aggValue o c (d.inWindow c) attr k = aggValue o c d attr k := by
  unfold aggValue
  simp only [TraceDb.inWindow, List.find?_filter]
  split
  · congr 2; funext a; cases admissible c a <;> (rw [Bool.eq_iff_iff]; simp)
  · congr 2; funext a; cases admissible c a <;> (rw [Bool.eq_iff_iff]; simp)

/-- **only spans inside the time window count**: index rows outside the window do not change which traces
    a script describes -/
theorem traceMatches_window (o : Oracles) (ao : AggOracles) (c : Ctx) (d : TraceDb) (script : Script) (tr : Bytes) :
    traceMatches o ao c (d.inWindow c) script tr = traceMatches o ao c d script tr := by
  have hs : ∀ e k, spanHolds o c (d.inWindow c) e k = spanHolds o c d e k := by
    intro e k
    unfold spanHolds
    have : spanTerm o c (d.inWindow c) k = spanTerm o c d k := funext (spanTerm_window o c d k)
    rw [this]
  have hm : ∀ e, matchedSpans o c (d.inWindow c) e tr = matchedSpans o c d e tr := by
    intro e; simp only [matchedSpans, spans_window, hs]
  have ha : ∀ a lit sps, aggHolds o ao c (d.inWindow c) a lit sps = aggHolds o ao c d a lit sps := by
    intro a lit sps
    unfold aggHolds
    have : aggValue o c (d.inWindow c) a.attr = aggValue o c d a.attr := funext (aggValue_window o c d a.attr)
    rw [this]
  have hsel : ∀ s, selMatches o ao c (d.inWindow c) s tr = selMatches o ao c d s tr := by
    intro s
    unfold selMatches
    cases s.attrs with
    | none => rfl
    | some e => simp only [hm, ha]
  unfold traceMatches
  rw [funext hsel]

end Qryn.TraceQL
