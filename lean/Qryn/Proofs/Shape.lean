import Qryn.Sql.Shape
import Qryn.Proofs.SegsOf
import Qryn.Proofs.SelParts
/-! Emptying the leaves of a tree (`shapeS`) and emptying the leaves of its segment list (`Seg.shape`) agree. -/
namespace Qryn.Sql
open Qryn

theorem map_shape_joinS (sep : Bytes) : ∀ xs : List (List Seg),
    (joinS sep xs).map Seg.shape = joinS sep (xs.map (List.map Seg.shape))
  | [] => rfl
  | [x] => by simp [joinS]
  | x :: y :: xs => by
    have ih := map_shape_joinS sep (y :: xs)
    simp only [joinS, List.map_append, List.map_cons, List.map_nil, Seg.shape] at ih ⊢
    rw [ih]

theorem shape_strs : ∀ ks : List Bytes,
    ((ks.map (fun _ => ([] : Bytes))).map (fun k => [Seg.str k])).map (List.map Seg.shape) =
      (ks.map (fun k => [Seg.str k])).map (List.map Seg.shape)
  | [] => rfl
  | _ :: ks => by
    have ih := shape_strs ks
    simp only [List.map_cons, Seg.shape] at ih ⊢
    rw [ih]

theorem shape_jargSegs (a : JArg) : (jargSegs (shapeJArg a)).map Seg.shape = (jargSegs a).map Seg.shape := by
  cases a <;> simp [jargSegs, shapeJArg, Seg.shape]

theorem shape_jsonGetSegs (p : List JArg) : (jsonGetSegs (p.map shapeJArg)).map Seg.shape = (jsonGetSegs p).map Seg.shape := by
  have h : ((p.map shapeJArg).map jargSegs).map (List.map Seg.shape) = (p.map jargSegs).map (List.map Seg.shape) := by
    simp [List.map_map, Function.comp_def, shape_jargSegs]
  simp only [jsonGetSegs, List.map_append, map_shape_joinS, h]

theorem shape_dropClause (p : Bytes × Bytes) :
    (dropClauseSegs ([], if p.2.isEmpty then [] else [0])).map Seg.shape = (dropClauseSegs p).map Seg.shape := by
  unfold dropClauseSegs
  by_cases h : p.2.isEmpty = true <;> simp [h, Seg.shape]

theorem shapeO_eq (o : Option Expr) : shapeO o = o.map shapeE := by cases o <;> simp [shapeO]

theorem shapeS_mk (ws : List (Alias × Sel)) (d : Bool) (cols : List Expr) (f : Option Expr)
    (j : List (String × Alias × Expr)) (p w : Option Expr) (g : List Expr) (h : Option Expr) (o : List Expr) (l : Option Expr) :
    shapeS (.mk ws d cols f j p w g h o l) =
      .mk (shapeWs ws) d (shapeEs cols) (f.map shapeE) (shapeJs j) (p.map shapeE) (w.map shapeE) (shapeEs g) (h.map shapeE)
        (shapeEs o) (l.map shapeE) := by
  simp only [shapeS, shapeO_eq]

theorem shapeEs_isEmpty (es : List Expr) : (shapeEs es).isEmpty = es.isEmpty := by cases es <;> simp [shapeEs]

mutual
theorem shape_segsExpr : ∀ e : Expr, (segsExpr (shapeE e)).map Seg.shape = (segsExpr e).map Seg.shape
  | .raw s => by simp [shapeE]
  | .str s => by simp [shapeE, segsExpr, Seg.shape]
  | .int i => by simp [shapeE]
  | .col e a => by
    have := shape_segsExpr e
    by_cases ha : a.isEmpty = true <;> simp [shapeE, segsExpr, ha, this]
  | .withRef a => by simp [shapeE]
  | .lit s => by simp [shapeE]
  | .tsLabels => by simp [shapeE]
  | .numLit s => by simp [shapeE]
  | .isIn l r => by simp [shapeE, segsExpr, map_shape_joinS, shape_segsExpr l, shape_segsExprs r]
  | .logical fn cs => by simp [shapeE, segsExpr, map_shape_joinS, shape_segsParens cs]
  | .not e => by simp [shapeE, segsExpr, shape_segsExpr e]
  | .notNull e => by simp [shapeE, segsExpr, shape_segsExpr e]
  | .matchFn c p => by simp [shapeE, segsExpr, shape_segsExpr c, Seg.shape]
  | .bitSetAnd cs => by simp [shapeE, segsExpr, map_shape_joinS, shape_segsShift 0 cs]
  | .call fn args => by simp [shapeE, segsExpr, map_shape_joinS, shape_segsExprs args]
  | .orderBy e d => by cases d <;> simp [shapeE, segsExpr, shape_segsExpr e]
  | .sub s => by simp [shapeE, segsExpr, shape_segsSel s]
  | .callT fn args => by simp [shapeE, segsExpr, map_shape_joinS, shape_segsExprs args]
  | .bitSet cs a => by simp [shapeE, segsExpr, map_shape_joinS, shape_segsShiftT 0 cs]
  | .setOp op ss => by simp [shapeE, segsExpr, map_shape_joinS, shape_segsSels ss]
  | .arrayJoin src arr => by simp [shapeE, segsExpr, shape_segsExpr src, shape_segsExpr arr]
  | .anyIfNum k => by simp [shapeE, segsExpr, Seg.shape]
  | .distinct e => by simp [shapeE, segsExpr, shape_segsExpr e]
  | .mulOp x y => by simp [shapeE, segsExpr, shape_segsExpr x, shape_segsExpr y]
  | .divOp x y => by simp [shapeE, segsExpr, shape_segsExpr x, shape_segsExpr y]
  | .mapFilterKeys keep keys m => by
    have hk := shape_strs keys
    have he : (keys.map (fun _ => ([] : Bytes))).isEmpty = keys.isEmpty := by cases keys <;> rfl
    simp only [shapeE, segsExpr, he]
    split <;> simp only [List.map_append, map_shape_joinS, hk, shape_segsExpr m]
  | .mapAt m key => by simp [shapeE, segsExpr, shape_segsExpr m, Seg.shape]
  | .tupleAt name i => by simp [shapeE]
  | .topkSlice isTop hasLabels k => by simp [shapeE]
  | .arrayJoinFrom src arr => by simp [shapeE, segsExpr, shape_segsExpr src, shape_segsExpr arr]
  | .fixedLit units scale => by simp [shapeE]
  | .jsonMap ps => by
    simp [shapeE, segsExpr, jsonMapSegs, map_shape_joinS, List.map_map, Function.comp_def, shape_jsonGetSegs, Seg.shape]
  | .regexMap labels re id => by
    simp [shapeE, segsExpr, regexMapSegs, map_shape_joinS, List.map_map, Function.comp_def, Seg.shape]
  | .mapDrop m ps => by
    have hd : ((ps.map (fun p => (([] : Bytes), if p.2.isEmpty then ([] : Bytes) else [0]))).map dropClauseSegs).map (List.map Seg.shape) =
        (ps.map dropClauseSegs).map (List.map Seg.shape) := by
      simp only [List.map_map]
      exact List.map_congr_left (fun p _ => shape_dropClause p)
    simp only [shapeE, segsExpr, List.map_append, map_shape_joinS, hd, shape_segsExpr m]
  | .labelsFp => by simp [shapeE]
  | .quantileAgg units scale col => by simp [shapeE]
theorem shape_segsSels : ∀ ss : List Sel, (segsSels (shapeSs ss)).map (List.map Seg.shape) = (segsSels ss).map (List.map Seg.shape)
  | [] => by simp [shapeSs, segsSels]
  | s :: ss => by simp [shapeSs, segsSels, shape_segsSel s, shape_segsSels ss]
theorem shape_segsExprs : ∀ os : List Expr, (segsExprs (shapeEs os)).map (List.map Seg.shape) = (segsExprs os).map (List.map Seg.shape)
  | [] => by simp [shapeEs, segsExprs]
  | o :: os => by simp [shapeEs, segsExprs, shape_segsExpr o, shape_segsExprs os]
theorem shape_segsParens : ∀ os : List Expr, (segsParens (shapeEs os)).map (List.map Seg.shape) = (segsParens os).map (List.map Seg.shape)
  | [] => by simp [shapeEs, segsParens]
  | o :: os => by simp [shapeEs, segsParens, shape_segsExpr o, shape_segsParens os]
theorem shape_segsShift : ∀ (i : Nat) (os : List Expr),
    (segsShift i (shapeEs os)).map (List.map Seg.shape) = (segsShift i os).map (List.map Seg.shape)
  | _, [] => by simp [shapeEs, segsShift]
  | i, o :: os => by simp [shapeEs, segsShift, shape_segsExpr o, shape_segsShift (i + 1) os]
theorem shape_segsShiftT : ∀ (i : Nat) (os : List Expr),
    (segsShiftT i (shapeEs os)).map (List.map Seg.shape) = (segsShiftT i os).map (List.map Seg.shape)
  | _, [] => by simp [shapeEs, segsShiftT]
  | i, o :: os => by simp [shapeEs, segsShiftT, shape_segsExpr o, shape_segsShiftT (i + 1) os]
theorem shape_segsWiths : ∀ ws : List (Alias × Sel),
    (segsWiths (shapeWs ws)).map (List.map Seg.shape) = (segsWiths ws).map (List.map Seg.shape)
  | [] => by simp [shapeWs, segsWiths]
  | (a, s) :: ws => by simp [shapeWs, segsWiths, shape_segsSelBody s, shape_segsWiths ws]
theorem shape_segsJoins : ∀ js : List (String × Alias × Expr), (segsJoins (shapeJs js)).map Seg.shape = (segsJoins js).map Seg.shape
  | [] => by simp [shapeJs, segsJoins]
  | (tp, tbl, on) :: js => by simp [shapeJs, segsJoins, shape_segsExpr on, shape_segsJoins js]
theorem shape_segsSelBody : ∀ s : Sel, (segsSelBody (shapeS s)).map Seg.shape = (segsSelBody s).map Seg.shape
  | .mk withs distinct cols from_ joins pre wher gb having ob limit => by
    have hc := shape_segsExprs cols
    have hg := shape_segsExprs gb
    have ho := shape_segsExprs ob
    have hj := shape_segsJoins joins
    have hopt : ∀ (kw : String) (o : Option Expr), (∀ e, o = some e → (segsExpr (shapeE e)).map Seg.shape = (segsExpr e).map Seg.shape) →
        (optPart kw (o.map shapeE)).map Seg.shape = (optPart kw o).map Seg.shape := by
      intro kw o h
      cases o with
      | none => rfl
      | some e => simp [optPart, h e rfl]
    have h1 := hopt " PREWHERE " pre (fun e he => by subst he; exact shape_segsExpr e)
    have h2 := hopt " WHERE " wher (fun e he => by subst he; exact shape_segsExpr e)
    have h3 := hopt " HAVING " having (fun e he => by subst he; exact shape_segsExpr e)
    have h4 := hopt " LIMIT " limit (fun e he => by subst he; exact shape_segsExpr e)
    have hf : (fromPart (from_.map shapeE) (shapeJs joins)).map Seg.shape = (fromPart from_ joins).map Seg.shape := by
      cases from_ with
      | none => rfl
      | some e => simp [fromPart, shape_segsExpr e, hj]
    have hl : ∀ (kw : String) (es : List Expr), (segsExprs (shapeEs es)).map (List.map Seg.shape) = (segsExprs es).map (List.map Seg.shape) →
        (listPart kw (shapeEs es)).map Seg.shape = (listPart kw es).map Seg.shape := by
      intro kw es h
      unfold listPart
      rw [shapeEs_isEmpty]
      split
      · rfl
      · simp [map_shape_joinS, h]
    rw [shapeS_mk, segsSelBody_parts, segsSelBody_parts]
    simp only [List.map_append, map_shape_joinS, hc, hf, h1, h2, h3, h4, hl _ _ hg, hl _ _ ho]
theorem shape_segsSel : ∀ s : Sel, (segsSel (shapeS s)).map Seg.shape = (segsSel s).map Seg.shape
  | .mk withs distinct cols from_ joins pre wher gb having ob limit => by
    have hw : (shapeWs withs).isEmpty = withs.isEmpty := by
      cases withs with
      | nil => simp [shapeWs]
      | cons w ws => obtain ⟨a, s⟩ := w; simp [shapeWs]
    have hb := shape_segsSelBody (.mk withs distinct cols from_ joins pre wher gb having ob limit)
    have hws := shape_segsWiths withs
    rw [shapeS_mk] at hb ⊢
    simp only [segsSel, List.map_append, hw, hb]
    by_cases h : withs.isEmpty = true
    · simp [h]
    · simp only [h, if_false, Bool.false_eq_true, List.map_append, map_shape_joinS, hws]
end

end Qryn.Sql
