import Qryn.LogQL.FormatSegs
import Qryn.Proofs.Closed
/-! C10: the `| line_format` / `| label_format` SQL objects are closed for ALL byte strings: template text, field names,
    label names, rename sources. -/
namespace Qryn.LogQL
open Qryn Qryn.Sql Qryn.Lex

theorem kw_labelsOpen : rawC (b "labels[") = true := by decide +kernel
theorem kw_formatOpen : rawC (b "format(") = true := by decide +kernel
theorem kw_mapInitOpen : rawC (b "([") = true := by decide +kernel
theorem kw_mapInitMid : rawC (b "],[") = true := by decide +kernel
theorem kw_mapInitClose : rawC (b "])::Map(String, String)") = true := by decide +kernel
theorem kw_mapUpdateOpen : rawC (b "mapUpdate(") = true := by decide +kernel

theorem PC_labelRefSegs (name : Bytes) : PC (labelRefSegs name) := by
  simpa [labelRefSegs] using PC.wrap (PC_raw kw_labelsOpen) (PE_str name) (PC_raw kw_csb)

theorem PC_sqlFormatSegs (fmt : Bytes) (args : List (List Seg)) (h : ∀ a ∈ args, PE a) : PC (sqlFormatSegs fmt args) := by
  have h1 := PC.wrap (PC_raw kw_formatOpen) (PE_str fmt) (PC_raw kw_commaSp)
  have h2 := PC.wrap h1 (PE_joinS (PC_raw kw_commaSp) args h) (PC_raw kw_close)
  simpa [sqlFormatSegs, List.append_assoc] using h2

theorem PC_lineFormatSegs (tpl : List TplNode) : PC (lineFormatSegs tpl) :=
  PC_sqlFormatSegs _ _ (PE_of_mem_map (fun name _ => (PC_labelRefSegs name).toPE))

theorem PE_keySegs (o : LFOp) : PE o.keySegs := by
  cases o <;> exact PE_str _

theorem PE_valSegs (o : LFOp) : PE o.valSegs := by
  cases o with
  | rename name src => exact (PC_labelRefSegs src).toPE
  | tmpl name tpl => exact (PC_lineFormatSegs tpl).toPE

theorem PC_mapInitSegs (keys vals : List (List Seg)) (hk : ∀ a ∈ keys, PE a) (hv : ∀ a ∈ vals, PE a) :
    PC (mapInitSegs keys vals) := by
  have h1 := PC.wrap (PC_raw kw_mapInitOpen) (PE_joinS (PC_raw kw_comma) keys hk) (PC_raw kw_mapInitMid)
  have h2 := PC.wrap h1 (PE_joinS (PC_raw kw_comma) vals hv) (PC_raw kw_mapInitClose)
  simpa [mapInitSegs, List.append_assoc] using h2

theorem PC_labelFormatSegs (labels : List Seg) (ops : List LFOp) (hl : PE labels) : PC (labelFormatSegs labels ops) := by
  have hm := PC_mapInitSegs (ops.map LFOp.keySegs) (ops.map LFOp.valSegs)
    (PE_of_mem_map (fun o _ => PE_keySegs o)) (PE_of_mem_map (fun o _ => PE_valSegs o))
  have h1 := PC.wrap (PC_raw kw_mapUpdateOpen) hl (PC_raw kw_commaSp)
  have h2 := PC.wrap h1 hm.toPE (PC_raw kw_close)
  simpa [labelFormatSegs, List.append_assoc] using h2

end Qryn.LogQL
