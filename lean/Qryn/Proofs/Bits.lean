import Qryn.Sql.Sem
/-! The bit-set aggregate: `groupBitOr(Σ bitShiftLeft(cᵢ, i)) = 2ⁿ − 1` iff every condition holds on some row. -/
namespace Qryn.Sql

theorem testBit_bits (bs : List Bool) (i : Nat) : (bits bs).testBit i = bs.getD i false := by
  induction bs generalizing i with
  | nil => simp [bits]
  | cons b bs ih =>
    cases i with
    | zero => cases b <;> simp [bits, Nat.testBit_zero] <;> omega
    | succ i =>
      have : (b.toNat + 2 * bits bs) / 2 = bits bs := by cases b <;> simp <;> omega
      simp [bits, Nat.testBit_succ, this, ih]

theorem testBit_foldl_or (rows : List (List Bool)) (a i : Nat) :
    (rows.foldl (fun acc r => acc ||| bits r) a).testBit i
      = (a.testBit i || rows.any (fun r => r.getD i false)) := by
  induction rows generalizing a with
  | nil => simp
  | cons r rows ih => simp [ih, Nat.testBit_or, testBit_bits, Bool.or_assoc]

theorem groupOr_eq (rows : List (List Bool)) (n : Nat) (hn : n ≤ 64) (hlen : ∀ r ∈ rows, r.length = n) :
    groupOr rows = rows.foldl (fun acc r => acc ||| bits r) 0 := by
  unfold groupOr
  generalize 0 = a
  induction rows generalizing a with
  | nil => rfl
  | cons r rows ih =>
    have hr : bits64 r = bits r := by
      unfold bits64
      rw [List.take_of_length_le (by have := hlen r (by simp); omega)]
    simp only [List.foldl_cons, hr]
    exact ih (fun r' h => hlen r' (by simp [h])) _

/-- HAVING groupBitOr(...) == 2^n - 1  ⇔ every one of the n conditions holds on some row of the group -/
theorem having_all_bits (n : Nat) (hn : n ≤ 64) (rows : List (List Bool)) (hlen : ∀ r ∈ rows, r.length = n) :
    groupOr rows = 2 ^ n - 1 ↔ ∀ i, i < n → ∃ r ∈ rows, r.getD i false = true := by
  rw [groupOr_eq rows n hn hlen]
  constructor
  · intro h i hi
    have := congrArg (fun x => x.testBit i) h
    simp [testBit_foldl_or, Nat.testBit_two_pow_sub_one, hi] at this
    exact this
  · intro h
    apply Nat.eq_of_testBit_eq
    intro i
    simp only [testBit_foldl_or, Nat.zero_testBit, Bool.false_or, Nat.testBit_two_pow_sub_one]
    by_cases hi : i < n
    · obtain ⟨r, hr, hb⟩ := h i hi
      simp [hi]
      exact ⟨r, hr, hb⟩
    · simp [hi]
      intro r hr
      have hl := hlen r hr
      have : r[i]? = none := List.getElem?_eq_none (by omega)
      simp [this]
end Qryn.Sql
