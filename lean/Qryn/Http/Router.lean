import Qryn.Http.Auth
/-! The HTTP front of qryn as `main.go` assembles it: a flat gorilla/mux (v1.8.1) router with router-wide
middlewares, and the four middlewares of `reader/utils/middleware`. Core-only.

A handler run is what it *does*: the calls it makes on its `http.ResponseWriter`, in order, and its
effects (it ran; it called a back end). A middleware maps the next handler to a handler; the wrappers that
replace the `ResponseWriter` (gzip) rewrite the call list the way their writer methods do. The response is
what `net/http` makes of the calls that reach the outermost writer (`respond`).

mux semantics mirrored (`mux.go` `Router.ServeHTTP`/`Router.Match`, `route.go` `Route.Match`):
* a path that is not clean is answered with 301 before any matching;
* routes are tried in registration order; a route whose path matcher fails leaves `MatchErr` alone; one whose
  path matcher succeeds clears a pending `ErrMethodMismatch`, then sets it again if its method matcher fails;
* the first route that matches fully gets `middlewares[0] (… (middlewares[n-1] handler))` — the FIRST `Use`
  is the OUTERMOST wrapper — and only a matched route gets the middlewares;
* no route: `ErrMethodMismatch` pending → 405 handler, else 404 handler, neither passes any middleware. -/
namespace Qryn.Http
open Qryn

inductive Effect
  | handler (route : Nat)     -- the handler of route `route` started
  | backend (tag : Nat)       -- a database / insert-service call
  deriving DecidableEq, Repr

/-- one call on an `http.ResponseWriter` -/
inductive WOp
  | setHeader (k v : String)  -- w.Header().Set
  | delHeader (k : String)    -- w.Header().Del
  | writeHeader (code : Nat)  -- w.WriteHeader
  | write (b : Bytes)         -- w.Write
  deriving DecidableEq, Repr

structure Req where
  method : String
  path : Bytes
  auth : Option Bytes            -- Authorization header
  acceptEncoding : Bytes         -- Header.Get("Accept-Encoding") ("" when absent)
  origin : Option Bytes          -- Origin header (no middleware reads it)
  deriving Repr

structure Run where
  ops : List WOp
  effects : List Effect
  deriving Repr

abbrev Handler := Req → Run
abbrev Middleware := Handler → Handler

structure Resp where
  status : Nat
  headers : List (String × String)
  body : Bytes
  effects : List Effect
  deriving Repr, DecidableEq

/-! ### `net/http` response writer -/

structure WState where
  live : List (String × String) := []   -- w.Header()
  status : Option Nat := none           -- written status
  snap : List (String × String) := []   -- header snapshot taken when the status is written
  body : Bytes := []

def setH (k v : String) (h : List (String × String)) : List (String × String) :=
  h.filter (·.1 ≠ k) ++ [(k, v)]

def wstep (s : WState) : WOp → WState
  | .setHeader k v => { s with live := setH k v s.live }
  | .delHeader k => { s with live := s.live.filter (·.1 ≠ k) }
  | .writeHeader c => if s.status.isSome then s else { s with status := some c, snap := s.live }
  | .write b =>
    let s' := if s.status.isSome then s else { s with status := some 200, snap := s.live }
    { s' with body := s'.body ++ b }

/-- what the client receives -/
def respond (r : Run) : Resp :=
  let s := r.ops.foldl wstep {}
  { status := s.status.getD 200, headers := if s.status.isSome then s.snap else s.live, body := s.body,
    effects := r.effects }

/-- the status `net/http` sends for a call list: the first `WriteHeader`, or 200 at the first `Write`/at the end -/
def statusOf? : List WOp → Option Nat
  | [] => none
  | .writeHeader c :: _ => some c
  | .write _ :: _ => some 200
  | _ :: r => statusOf? r

def statusOf (ops : List WOp) : Nat := (statusOf? ops).getD 200

/-! ### middlewares -/

/-- `http.Error(w, msg, code)` -/
def httpError (msg : Bytes) (code : Nat) : List WOp :=
  [.delHeader "Content-Length", .setHeader "Content-Type" "text/plain; charset=utf-8",
   .setHeader "X-Content-Type-Options" "nosniff", .writeHeader code, .write (msg ++ [10])]

/-- "Unauthorized" -/
def msgUnauthorized : Bytes := [85, 110, 97, 117, 116, 104, 111, 114, 105, 122, 101, 100]
/-- "Invalid authorization header" -/
def msgInvalid : Bytes := [73, 110, 118, 97, 108, 105, 100, 32, 97, 117, 116, 104, 111, 114, 105, 122, 97, 116, 105, 111, 110, 32, 104, 101, 97, 100, 101, 114]

/-- what `BasicAuthMiddleware` answers itself -/
def rejectRun (header : Option Bytes) : Decision → Run
  | .status400 => ⟨httpError msgInvalid 400, []⟩
  | _ =>
    if header.getD [] = [] then
      ⟨.setHeader "WWW-Authenticate" "Basic realm=\"Restricted\"" :: httpError msgUnauthorized 401, []⟩
    else ⟨httpError msgUnauthorized 401, []⟩

def rejectCode : Decision → Nat
  | .status400 => 400
  | _ => 401

/-- `BasicAuthMiddleware(login, pass)` -/
def authMw (login pass : Bytes) : Middleware := fun next req =>
  match authDecision login pass req.auth with
  | .pass => next req
  | d => rejectRun req.auth d

/-- `strings.Contains(hay, needle)` -/
def containsSub (needle : Bytes) : Bytes → Bool
  | [] => needle.isEmpty
  | c :: r => needle.isPrefixOf (c :: r) || containsSub needle r

def gzipWord : Bytes := [103, 122, 105, 112]

/-- `gzipResponseWriter`: fields and the calls made so far on the wrapped writer -/
structure GzState where
  code : Nat := 200
  codeSet : Bool := false
  written : Nat := 0
  touched : Bool := false       -- `Writer.Write` was called (gzip header emitted into preBuffer)
  buf : Bytes := []             -- bytes handed to the gzip writer
  out : List WOp := []

def gzStep (s : GzState) : WOp → GzState
  | .setHeader k v => { s with out := s.out ++ [.setHeader k v] }     -- Header() is the wrapped writer's
  | .delHeader k => { s with out := s.out ++ [.delHeader k] }
  | .writeHeader c =>
    if s.codeSet then s
    else if c / 100 = 2 then { s with codeSet := true, code := c, out := s.out ++ [.setHeader "Content-Encoding" "gzip"] }
    else { s with codeSet := true, code := c, out := s.out ++ [.writeHeader c] }
  | .write b =>
    if s.code / 100 = 2 then
      { s with codeSet := true, out := s.out ++ [.setHeader "Content-Encoding" "gzip"],
               written := s.written + b.length, touched := true, buf := s.buf ++ b }
    else { s with codeSet := true, out := s.out ++ [.write b] }

/-- `gzw.Close()`; `gz` = the complete gzip stream of the buffered bytes, `gzHdr` = the bare 10-byte header
    that is in `preBuffer` when only empty writes happened -/
def gzClose (gz : Bytes → Bytes) (gzHdr : Bytes) (s : GzState) : List WOp :=
  if s.code / 100 ≠ 2 then s.out
  else
    let z := if s.written > 0 then gz s.buf else if s.touched then gzHdr else []
    s.out ++ [.setHeader "Content-Length" (toString z.length), .writeHeader s.code, .write z]

/-- `AcceptEncodingMiddleware` -/
def gzipMw (gz : Bytes → Bytes) (gzHdr : Bytes) : Middleware := fun next req =>
  if containsSub gzipWord req.acceptEncoding then
    let r := next req
    { r with ops := gzClose gz gzHdr (r.ops.foldl gzStep {}) }
  else next req

/-- `CorsMiddleware(allowOrigin)`: four headers, then ALWAYS the next handler (no preflight shortcut) -/
def corsMw (allowOrigin : String) : Middleware := fun next req =>
  let o := if allowOrigin = "" then "*" else allowOrigin
  let r := next req
  { r with ops :=
      [.setHeader "Access-Control-Allow-Headers"
          "Origin,Content-Type,Accept,Content-Length,Accept-Language,Accept-Encoding,Connection,Access-Control-Allow-Origin",
       .setHeader "Access-Control-Allow-Origin" o,
       .setHeader "Access-Control-Allow-Methods" "GET,POST,HEAD,PUT,DELETE,PATCH,OPTIONS",
       .setHeader "Access-Control-Allow-Credentials" "true"] ++ r.ops }

/-- `LoggingMiddleware`: `responseWriterWithCode` forwards every call unchanged -/
def loggingMw : Middleware := fun next req => next req

/-- `middlewares[0] (middlewares[1] (… handler))` -/
def chain (mws : List Middleware) (h : Handler) : Handler := mws.foldr (fun m acc => m acc) h

/-! ### routes -/

structure Route where
  path : Bytes → Bool          -- the path matcher (regexp of the template)
  methods : List String        -- `.Methods(...)`; `[]` = no method matcher
  handler : Handler

structure Router where
  routes : List Route
  mws : List Middleware
  clean : Bytes → Bool         -- `cleanPath(p) == p`

/-- `Route.Match`: (matched, `match.MatchErr == ErrMethodMismatch` afterwards) -/
def routeMatch (r : Route) (req : Req) (mismatch : Bool) : Bool × Bool :=
  if !r.path req.path then (false, mismatch)
  else if r.methods ≠ [] ∧ req.method ∉ r.methods then (false, true)
  else (true, false)

inductive Found
  | route (r : Route)
  | methodNotAllowed
  | notFound

def matchRoutes : List Route → Req → Bool → Found
  | [], _, mismatch => if mismatch then .methodNotAllowed else .notFound
  | r :: rs, req, mismatch =>
    match routeMatch r req mismatch with
    | (true, _) => .route r
    | (false, m) => matchRoutes rs req m

def run301 : Run := ⟨[.setHeader "Location" "", .writeHeader 301], []⟩
def run405 : Run := ⟨[.writeHeader 405], []⟩
/-- "404 page not found" -/
def msg404 : Bytes := [52, 48, 52, 32, 112, 97, 103, 101, 32, 110, 111, 116, 32, 102, 111, 117, 110, 100]
def run404 : Run := ⟨httpError msg404 404, []⟩

/-- `Router.ServeHTTP` as a handler run -/
def serveRun (R : Router) (req : Req) : Run :=
  if !R.clean req.path then run301
  else match matchRoutes R.routes req false with
    | .route r => chain R.mws r.handler req
    | .methodNotAllowed => run405
    | .notFound => run404

def serve (R : Router) (req : Req) : Resp := respond (serveRun R req)

/-! ### path templates (`/api/v1/label/{name}/values`, `PathPrefix`) -/

inductive Part
  | lit (b : Bytes)
  | var                      -- `{name}` = `[^/]+`
  deriving Repr, DecidableEq

def slash : UInt8 := 47

/-- `^parts$` (exact) or `^parts` (prefix). A variable is followed by a literal starting with `/` or by
    the end (checked by the extractor), so `[^/]+` is the maximal slash-free run. -/
def matchParts (prefixOnly : Bool) : List Part → Bytes → Bool
  | [], p => prefixOnly || p.isEmpty
  | .lit b :: ps, p => b.isPrefixOf p && matchParts prefixOnly ps (p.drop b.length)
  | .var :: ps, p =>
    let seg := p.takeWhile (· ≠ slash)
    !seg.isEmpty && matchParts prefixOnly ps (p.drop seg.length)

/-- the segments between slashes -/
def splitSlash : Bytes → List Bytes
  | [] => [[]]
  | c :: r =>
    if c = slash then [] :: splitSlash r
    else match splitSlash r with
      | [] => [[c]]
      | s :: ss => (c :: s) :: ss

/-- `cleanPath(p) == p` of gorilla/mux for the driver (the theorems hold for any `clean`): rooted, no empty, `.`
    or `..` segment; one trailing slash is kept by `cleanPath` -/
def isCleanPath : Bytes → Bool
  | [] => false
  | c :: rest =>
    c == slash &&
      (let segs := splitSlash rest
       let bad (s : Bytes) : Bool := s == [46] || s == [46, 46]
       segs.dropLast.all (fun s => !s.isEmpty && !bad s) && !(segs.getLast?.any bad))

end Qryn.Http
