import Qryn.Base.Base64
/-! `reader/utils/middleware/basic_auth.go` (after the A34 fix: the base64 decode error is checked).
Core-only. The decision only; the responses are in `Qryn.Http.Router`. -/
namespace Qryn.Http
open Qryn

inductive Decision
  | pass        -- next.ServeHTTP(w, r)
  | status401   -- http.Error(w, "Unauthorized", 401)
  | status400   -- http.Error(w, "Invalid authorization header", 400)
  deriving DecidableEq, Repr

/-- `strings.SplitN(s, string(sep), 2)`: `none` ⇔ one part (separator absent), `some (a, b)` ⇔ `[a, b]`,
    the cut being at the FIRST separator. -/
def cut (sep : UInt8) : Bytes → Option (Bytes × Bytes)
  | [] => none
  | c :: r =>
    if c = sep then some ([], r)
    else match cut sep r with
      | some (a, b) => some (c :: a, b)
      | none => none

/-- `"Basic"` -/
def basicWord : Bytes := [66, 97, 115, 105, 99]
/-- `' '`, `':'` -/
def sp : UInt8 := 32
def colon : UInt8 := 58

/-- `BasicAuthMiddleware(login, pass)` up to the call of `next`. `header = none` ⇔ no Authorization
    header (`Header.Get` then yields `""`, like an empty one). -/
def authDecision (login pass : Bytes) (header : Option Bytes) : Decision :=
  let auth := header.getD []
  if auth = [] then .status401                                   -- auth == ""
  else match cut sp auth with                                    -- authParts := SplitN(auth, " ", 2)
    | none => .status400                                         -- len(authParts) != 2
    | some (scheme, e) =>
      if scheme ≠ basicWord then .status400                      -- authParts[0] != "Basic"
      else
        let r := B64.decode false e                              -- payload, err := StdEncoding.DecodeString
        if r.2 then .status400                                   -- err != nil (the fix of A34)
        else match cut colon r.1 with                            -- pair := SplitN(payload, ":", 2)
          | none => .status401                                   -- len(pair) != 2
          | some (u, p) => if u ≠ login ∨ p ≠ pass then .status401 else .pass

/-- the pinned code before the fix: `payload, _ := …DecodeString(…)` — the partial result is compared -/
def authDecisionUnfixed (login pass : Bytes) (header : Option Bytes) : Decision :=
  let auth := header.getD []
  if auth = [] then .status401
  else match cut sp auth with
    | none => .status400
    | some (scheme, e) =>
      if scheme ≠ basicWord then .status400
      else match cut colon (B64.decode false e).1 with
        | none => .status401
        | some (u, p) => if u ≠ login ∨ p ≠ pass then .status401 else .pass

end Qryn.Http
