import Qryn.Http.MainOrder
/-! Which route groups `main()` registers in which MODE (`cfg.Setting.SYSTEM_SETTINGS.Mode`), as a function of the
regenerated guard table `Gen.Exposure.modeGuards` (call receiving the router ↦ mode strings of its `if`). Core-only. -/
namespace Qryn.Http

/-- the `Init` call of `main()` through which a route's registering function is reached (`none` = registered
    unconditionally: the common routes) -/
def initOf (src : String) : Option String :=
  if src.startsWith "writer" then some "writer.Init"
  else if src.startsWith "reader" then some "reader.Init"
  else if src.startsWith "view" then some "view.Init"
  else none

/-- is the route registered when the process runs in `mode`? -/
def registeredIn (guards : List (String × List String)) (mode : String) (r : RouteSpec) : Bool :=
  match initOf r.src with
  | none => true
  | some i => guards.any (fun g => g.1 == i && g.2.contains mode)

/-- the route table of the process in `mode` -/
def routesIn (guards : List (String × List String)) (mode : String) (specs : List RouteSpec) : List RouteSpec :=
  specs.filter (registeredIn guards mode)

end Qryn.Http
