import Qryn.Http.Router
/-! The CONFIGURATION PATH that decides which credentials `main()` hands to `BasicAuthMiddleware` and whether
the middleware is installed at all: `main.go` `portEnv` (environment overrides of
`cfg.Setting.AUTH_SETTINGS.BASIC.{Username,Password}`) and the guard of `main()` (and of the reader-owned
server path) in front of `Use(BasicAuthMiddleware(…))`.

The statements are not written down here: `Gen.AuthConfig` regenerates them from `main.go` as a **plan** in the
small language below, and this module only INTERPRETS a plan. Core-only (the driver links it).

Go → Lean: `os.Getenv(k)` is `""` both for an unset and for an empty-but-set variable → `getenv`; the
environment is constant while `main` runs (no `os.Setenv` in the module: regenerated fact); the two fields are
Go strings → `Bytes`. What `cfg.ReadConfig()` (cloki-config / viper, third party) left in the two fields is the
input `file : Creds`. -/
namespace Qryn.Http.AuthConfig
open Qryn Qryn.Http

/-- the two fields of `cfg.Setting.AUTH_SETTINGS.BASIC` -/
inductive Field
  | user   -- .Username
  | pass   -- .Password
  deriving DecidableEq, Repr

structure Creds where
  user : Bytes
  pass : Bytes
  deriving DecidableEq, Repr

def Creds.get (c : Creds) : Field → Bytes
  | .user => c.user
  | .pass => c.pass

def Creds.set (c : Creds) : Field → Bytes → Creds
  | .user, b => { c with user := b }
  | .pass, b => { c with pass := b }

/-- the process environment: `none` = the variable is not set, `some b` = set to `b` (possibly empty) -/
abbrev Env := String → Option Bytes

/-- `os.Getenv` -/
def getenv (env : Env) (v : String) : Bytes := (env v).getD []

/-- environment from a finite assignment list (first binding of a name wins), for the driver and the examples -/
def Env.ofList (l : List (String × Option Bytes)) : Env := fun v =>
  match l.find? (fun p => p.1 == v) with
  | some p => p.2
  | none => none

/-- `env` with variable `v` (re)bound -/
def Env.update (env : Env) (v : String) (x : Option Bytes) : Env := fun w => if w = v then x else env w

/-- a string-valued expression of the plan language -/
inductive Val
  | env (v : String)      -- os.Getenv("v")
  | lit (b : Bytes)       -- a string literal
  | field (f : Field)     -- cfg.Setting.AUTH_SETTINGS.BASIC.<f>
  deriving DecidableEq, Repr

/-- a condition of the plan language -/
inductive Cond
  | tt
  | nonEmpty (v : Val)    -- v != ""
  | isEmpty (v : Val)     -- v == ""
  | and (a b : Cond)
  | or (a b : Cond)
  | not (a : Cond)
  deriving DecidableEq, Repr

/-- `if guard { f₁ = v₁; f₂ = v₂; … }` (assignments run in order) -/
structure Stmt where
  guard : Cond
  assigns : List (Field × Val)
  deriving DecidableEq, Repr

/-- `if guard { router.Use(BasicAuthMiddleware(login, pass)) }` -/
structure Install where
  guard : Cond
  login : Val
  pass : Val
  deriving DecidableEq, Repr

def Val.eval (env : Env) (c : Creds) : Val → Bytes
  | .env v => getenv env v
  | .lit b => b
  | .field f => c.get f

def Cond.eval (env : Env) (c : Creds) : Cond → Bool
  | .tt => true
  | .nonEmpty v => v.eval env c != []
  | .isEmpty v => v.eval env c == []
  | .and a b => a.eval env c && b.eval env c
  | .or a b => a.eval env c || b.eval env c
  | .not a => !a.eval env c

def Stmt.run (env : Env) (c : Creds) (s : Stmt) : Creds :=
  if s.guard.eval env c then s.assigns.foldl (fun c a => c.set a.1 (a.2.eval env c)) c else c

/-- the statements of `portEnv` that touch the credentials, in program order, from what `ReadConfig` left -/
def runPlan (env : Env) (plan : List Stmt) (file : Creds) : Creds := plan.foldl (Stmt.run env) file

/-- `some (login, pass)` = `main()` calls `app.Use(BasicAuthMiddleware(login, pass))`; `none` = it does not -/
def Install.eval (i : Install) (env : Env) (c : Creds) : Option (Bytes × Bytes) :=
  if i.guard.eval env c then some (i.login.eval env c, i.pass.eval env c) else none

/-- what `main()` does with a plan: run `portEnv`'s statements on what the config file gave, then the guard -/
def installed (plan : List Stmt) (i : Install) (env : Env) (file : Creds) : Option (Bytes × Bytes) :=
  i.eval env (runPlan env plan file)

/-- the router's middleware list: the conditional auth `Use` is the FIRST `Use` (`main_order_ok`), the
    unconditional ones follow -/
def mainChain (inst : Option (Bytes × Bytes)) (rest : List Middleware) : List Middleware :=
  match inst with
  | some (u, p) => authMw u p :: rest
  | none => rest

/-! ### the shape `if os.Getenv(K) != "" { field = os.Getenv(K) }` -/

/-- `some (K, f)` iff the statement is exactly one independent override of field `f` by variable `K` -/
def Stmt.override? (s : Stmt) : Option (String × Field) :=
  match s.guard, s.assigns with
  | .nonEmpty (.env k), [(f, .env k')] => if k = k' then some (k, f) else none
  | _, _ => none

/-- every statement of the plan is an independent override -/
def allOverrides (plan : List Stmt) : Bool := plan.all (fun s => s.override?.isSome)

/-- the variables that override field `f`, in program order (later = higher precedence) -/
def sources (plan : List Stmt) (f : Field) : List String :=
  plan.filterMap (fun s => match s.override? with
    | some (k, g) => if g = f then some k else none
    | none => none)

/-- the last non-empty value of `base :: xs` (`base` itself when it is the only candidate, even if empty) -/
def lastNonEmpty (base : Bytes) (xs : List Bytes) : Bytes :=
  xs.foldl (fun acc x => if x != [] then x else acc) base

/-- the standard guard: both fields non-empty, the middleware gets the two fields -/
def stdInstall : Install := ⟨.and (.nonEmpty (.field .user)) (.nonEmpty (.field .pass)), .field .user, .field .pass⟩

end Qryn.Http.AuthConfig
