import Qryn.Http.Router
/-! What `Gen.Routes` extracts from `main.go` and the route packages, and the checks on it. Core-only. -/
namespace Qryn.Http

/-- one statement touching the router, in program order -/
inductive Ev
  | use (mw : String) (conditional : Bool)        -- router.Use(middleware.<mw>…)
  | register (fn : String) (conditional : Bool)   -- a call in main() that receives the router
  | serve (fn : String)                           -- httpStart(router, …): http.Serve(listener, router)
  | hook (name : String)                          -- dynamic dispatch receiving the router (route plugins)
  deriving DecidableEq, Repr

structure RouteSpec where
  pathPrefix : Bool
  parts : List Part
  tpl : String
  methods : List String
  src : String
  conditional : Bool
  deriving DecidableEq, Repr

def Ev.isUse : Ev → Bool
  | .use _ _ => true
  | _ => false

def Ev.isServe : Ev → Bool
  | .serve _ => true
  | _ => false

def uses (evs : List Ev) : List Ev := evs.filter Ev.isUse

/-- the first `Use` on the router installs the auth middleware -/
def authIsFirstUse (evs : List Ev) : Bool :=
  match uses evs with
  | .use "BasicAuthMiddleware" _ :: _ => true
  | _ => false

/-- the auth middleware is installed exactly once -/
def authUsedOnce (evs : List Ev) : Bool :=
  (evs.filter (fun e => match e with | .use "BasicAuthMiddleware" _ => true | _ => false)).length == 1

/-- nothing but `Use` calls happens before the first registration, and the first event is the auth `Use` -/
def authPrecedesEverything (evs : List Ev) : Bool :=
  match evs with
  | .use "BasicAuthMiddleware" _ :: _ => true
  | _ => false

/-- the order of the wrappers as `main.go` installs them -/
def useOrder (evs : List Ev) : List String :=
  (uses evs).filterMap (fun e => match e with | .use n _ => some n | _ => none)

/-- exactly one serve, and it is the last event (every registration precedes it) -/
def servesLast (evs : List Ev) : Bool :=
  match evs.reverse with
  | .serve _ :: rest => !rest.any Ev.isServe
  | _ => false

def registrations (evs : List Ev) : List String :=
  evs.filterMap (fun e => match e with | .register n _ => some n | _ => none)

def RouteSpec.toRoute (s : RouteSpec) (h : Handler) : Route :=
  { path := matchParts s.pathPrefix s.parts, methods := s.methods, handler := h }

/-- the route table of a list of specs, handler `i` for the `i`-th route -/
def tableOf (specs : List RouteSpec) (hs : Nat → Handler) : List Route :=
  (specs.zipIdx).map (fun (s, i) => s.toRoute (hs i))

end Qryn.Http
